(* C12 — the reference: what a plain list does.  No proofs in this file.
   The deque's operations on [list A] (front of the deque = head of the list), the FIFO
   queue's operations on [list A] (front = head), and the bookkeeping used to state
   "nothing lost, nothing duplicated, producer order preserved". *)
From Coq Require Import ZArith List Bool.
Import ListNotations.
Open Scope Z_scope.

Section Spec.
Context {A : Type}.

Definition zlen {X} (l : list X) : Z := Z.of_nat (length l).

(* ---------- deque ---------- *)
Inductive op : Type :=
| PushBack (a : A) | PushFront (a : A) | PopFront | PopBack | Front | Back
| At (i : Z) | SetAt (i : Z) (a : A) | Clear | Rotate (n : Z)
| SetMinCap (e : Z).     (* SetMinCapacity(e): configures the minimum capacity; the contents do not change *)

(* ONone: the call returns nothing; OVal a: it returns a; OPanic: the call is refused by
   an explicit panic; OCrash: a Go run-time error (index out of range) or a loop that
   does not terminate — never produced by the list spec *)
Inductive out : Type := ONone | OVal (a : A) | OPanic | OCrash.

Fixpoint upd (l : list A) (n : nat) (v : A) : list A :=
  match l, n with
  | [], _ => []
  | _ :: r, O => v :: r
  | x :: r, S n' => x :: upd r n' v
  end.

(* rotate n steps front-to-back (n negative: back-to-front) *)
Definition rotl (n : Z) (l : list A) : list A :=
  match l with
  | [] => []
  | _ => let k := Z.to_nat (n mod zlen l) in skipn k l ++ firstn k l
  end.

Definition in_range (i : Z) (l : list A) : bool := (0 <=? i) && (i <? zlen l).

Definition spec_step (l : list A) (o : op) : list A * out :=
  match o with
  | PushBack a => (l ++ [a], ONone)
  | PushFront a => (a :: l, ONone)
  | PopFront => match l with [] => (l, OPanic) | x :: r => (r, OVal x) end
  | PopBack => match rev l with [] => (l, OPanic) | x :: r => (rev r, OVal x) end
  | Front => match l with [] => (l, OPanic) | x :: _ => (l, OVal x) end
  | Back => match rev l with [] => (l, OPanic) | x :: _ => (l, OVal x) end
  | At i => if in_range i l
            then match nth_error l (Z.to_nat i) with Some x => (l, OVal x) | None => (l, OPanic) end
            else (l, OPanic)
  | SetAt i a => if in_range i l then (upd l (Z.to_nat i) a, ONone) else (l, OPanic)
  | Clear => ([], ONone)
  | Rotate n => (rotl n l, ONone)
  | SetMinCap _ => (l, ONone)
  end.

Fixpoint spec_run (l : list A) (ops : list op) : list A * list out :=
  match ops with
  | [] => (l, [])
  | o :: r => let '(l1, x) := spec_step l o in
              let '(l2, xs) := spec_run l1 r in (l2, x :: xs)
  end.

(* ---------- FIFO queue ---------- *)
(* UInit: Init(), which empties the queue *)
Inductive uop : Type := UPush (a : A) | UPop | UFront | ULen | UInit.
(* UONone: Push; UOVal a: (a, true); UOEmpty: (nil, false); UOInt: Len; UOCrash: run-time error *)
Inductive uout : Type := UONone | UOVal (a : A) | UOEmpty | UOInt (z : Z) | UOCrash.

Definition fifo_step (l : list A) (o : uop) : list A * uout :=
  match o with
  | UPush a => (l ++ [a], UONone)
  | UPop => match l with [] => (l, UOEmpty) | x :: r => (r, UOVal x) end
  | UFront => match l with [] => (l, UOEmpty) | x :: _ => (l, UOVal x) end
  | ULen => (l, UOInt (zlen l))
  | UInit => ([], UONone)
  end.

Fixpoint fifo_run (l : list A) (ops : list uop) : list A * list uout :=
  match ops with
  | [] => (l, [])
  | o :: r => let '(l1, x) := fifo_step l o in
              let '(l2, xs) := fifo_run l1 r in (l2, x :: xs)
  end.

(* the elements pushed by a history, in push order; the elements its pops returned, in
   pop order *)
Fixpoint pushed (ops : list uop) : list A :=
  match ops with
  | [] => []
  | UPush a :: r => a :: pushed r
  | _ :: r => pushed r
  end.

Fixpoint popped (ops : list uop) (outs : list uout) : list A :=
  match ops, outs with
  | UPop :: r, UOVal a :: s => a :: popped r s
  | _ :: r, _ :: s => popped r s
  | _, _ => []
  end.

End Spec.

Arguments op : clear implicits.
Arguments out : clear implicits.
Arguments uop : clear implicits.
Arguments uout : clear implicits.
