(* C12 — histories made directly with the methods regenerated from deque.go (Generated/Deque.v,
   through C12/Source.v's go_step): any sequence of translated method calls on a deque that
   starts empty and well-formed behaves like the plain list.  Explicit bounds: the initial
   capacity and every configured minimum are at most 2^59 and the history has at most 2^58
   calls, so that no int computation of the source (count<<1, count<<2, head+i, 1<<e) leaves
   int64; index arguments are Go ints; Rotate is tied for an allocated buffer (Source.arg_ok).
   Fuel: Clear runs for len(buf)+2 iterations, Rotate for |count|+1 (as in go_step); running out
   of fuel is an explicit outcome, shown unreachable here. *)
From Coq Require Import ZArith List Bool Lia.
From FV Require Import Generated.Consts Generated.Deque Lib.GoSem C12.Spec C12.Model C12.ListZ
  C12.DequeProofs C12.Source.
Import ListNotations.
Open Scope Z_scope.

Notation dq := (@deque Z).

(* a history of translated calls; a call that panics is recovered and leaves the deque as it was *)
Fixpoint go_run (d : dq) (ops : list (op Z)) : dq * list (out Z) :=
  match ops with
  | [] => (d, [])
  | o :: r =>
      match go_step d o with
      | Ok (d1, x) => let '(d2, xs) := go_run d1 r in (d2, x :: xs)
      | Panic => let '(d2, xs) := go_run d r in (d2, OPanic :: xs)
      | OutOfFuel => let '(d2, xs) := go_run d r in (d2, OCrash :: xs)
      end
  end.

Definition arg_small (o : op Z) : Prop :=
  match o with
  | At i | SetAt i _ => - 2 ^ 63 <= i < 2 ^ 63
  | Rotate n => - 2 ^ 63 <= n < 2 ^ 63
  | SetMinCap e => 0 <= e <= 59
  | _ => True
  end.

Definition is_push (o : op Z) : bool := match o with PushBack _ | PushFront _ => true | _ => false end.

(* Rotate is called only once the buffer is allocated (at construction or by an earlier push) *)
Fixpoint rot_ok (alloc : bool) (ops : list (op Z)) : Prop :=
  match ops with
  | [] => True
  | o :: r => (match o with Rotate _ => alloc = true | _ => True end) /\ rot_ok (alloc || is_push o) r
  end.

Definition B59 : Z := 2 ^ 59.

Definition bounded (d : dq) (k : Z) : Prop :=
  count d <= k /\ cap d <= Z.max B59 (2 * k) /\ cfg d <= B59.

Lemma spec_step_no_crash (l : list Z) o : snd (spec_step l o) <> OCrash.
Proof.
  intros E. apply (spec_no_crash [o] l). cbn [spec_run]. destruct (spec_step l o) as [l1 y]. simpl in *. auto.
Qed.

Lemma shl1_le e : 0 <= e <= 59 -> shl1 e <= B59.
Proof.
  intros H. unfold shl1, B59. destruct (Z.leb_spec 0 e); [|lia]. destruct (Z.ltb_spec e 63); [|lia]. cbn [andb].
  apply Z.pow_le_mono_r; lia.
Qed.

Lemma wf_small (d : dq) k : wf d -> bounded d k -> k <= 2 ^ 59 + 2 ^ 58 ->
  cap d < 2 ^ 62 /\ minCap d < 2 ^ 62 /\ small61 (count d) /\ small61 (head d) /\ small61 (tail d).
Proof.
  intros (Hc & Hm & Hz & Hpos) (Bc & Bcap & Bcfg) Hk. unfold B59, small61 in *.
  change (2 ^ 59) with 576460752303423488 in *. change (2 ^ 58) with 288230376151711744 in *.
  change (2 ^ 61) with 2305843009213693952. change (2 ^ 62) with 4611686018427387904.
  assert (Hcap : cap d < 2305843009213693952) by lia.
  assert (Hmin : minCap d < 4611686018427387904).
  { unfold cfg in Bcfg. destruct (Z.eqb_spec (minCap d) 0); lia. }
  split; [lia|]. split; [exact Hmin|]. split; [lia|].
  destruct (Z.eq_dec (cap d) 0) as [E|E].
  - destruct (Hz E) as [-> ->]. lia.
  - assert (H0 : 0 < cap d) by (pose proof (cap_range d); lia).
    destruct (Hpos H0) as (_ & _ & Hh & Ht).
    pose proof (Z.mod_pos_bound (head d + count d) (cap d) H0). lia.
Qed.

Lemma cfg_ge (d : dq) : wf d -> collections_queue_minCapacity <= cfg d.
Proof.
  intros (_ & Hm & _ & _). unfold cfg. destruct (Z.eqb_spec (minCap d) 0); [lia|].
  destruct Hm as [[? _]|[_ ?]]; lia.
Qed.

Lemma cap_stays_pos (d : dq) (l : list Z) o : wf d -> R d l -> 0 < cap d -> 0 < cap (fst (Model.step 0 d o)).
Proof.
  intros Hwf HR Hpos.
  pose proof (step_refines 0 d l o Hwf HR) as Href.
  destruct (match o with SetMinCap _ => true | _ => false end) eqn:Eo.
  - destruct o; try discriminate Eo. cbn [Model.step fst]. exact Hpos.
  - assert (Hno : forall e, o <> SetMinCap e) by (intros e ->; discriminate Eo).
    pose proof (step_capstep 0 d o Hwf Hno) as (_ & _ & C2).
    destruct (Model.step 0 d o) as [d1 x]. destruct (spec_step l o) as [l1 y].
    destruct Href as (Hwf1 & _ & _). cbn [fst] in *.
    pose proof (cfg_ge d1 Hwf1) as Hg. unfold collections_queue_minCapacity in Hg.
    destruct (C2 Hpos); lia.
Qed.

Lemma push_allocates (d : dq) (l : list Z) o : wf d -> R d l -> is_push o = true ->
  0 < cap (fst (Model.step 0 d o)).
Proof.
  intros Hwf HR Hp. pose proof (step_refines 0 d l o Hwf HR) as Href.
  destruct o as [a|a| | | | | | | | |]; try discriminate Hp;
    destruct (Model.step 0 d _) as [d1 x]; cbn [spec_step] in Href;
    destruct Href as ((Hc1 & _) & [Hl1 _] & _); cbn [fst].
  - rewrite zlen_app in Hl1. pose proof (zlen_nonneg l). change (zlen [a]) with 1 in Hl1. lia.
  - rewrite zlen_cons in Hl1. pose proof (zlen_nonneg l). lia.
Qed.

Lemma go_run_is_run ops : forall (d : dq) (l : list Z) k alloc,
  wf d -> R d l -> bounded d k -> (alloc = true -> 0 < cap d) ->
  Forall arg_small ops -> rot_ok alloc ops -> k + Z.of_nat (length ops) <= 2 ^ 59 + 2 ^ 58 ->
  go_run d ops = run 0 d ops.
Proof.
  induction ops as [|o ops IH]; intros d l k alloc Hwf HR Hb Hal Hargs Hrot Hk; [reflexivity|].
  inversion Hargs as [|? ? Ha Hargs']; subst. destruct Hrot as [Hr1 Hrot'].
  simpl length in Hk.
  destruct (wf_small d k Hwf Hb ltac:(lia)) as (S1 & S2 & S3 & S4 & S5).
  assert (Haok : arg_ok d o).
  { destruct o; simpl in Ha, Hr1 |- *; auto; try lia; try (split; [exact Ha|apply Hal; exact Hr1]). }
  pose proof (src_step d o S1 S2 S3 S4 S5 Haok) as Hsrc.
  pose proof (step_refines 0 d l o Hwf HR) as Href.
  pose proof (step_upper 0 d o Hwf) as [U1 U2].
  pose proof (cap_stays_pos d l o Hwf HR) as Hpos1.
  pose proof (push_allocates d l o Hwf HR) as Hpush1.
  assert (Hcfg1 : cfg (fst (Model.step 0 d o)) <= B59).
  { destruct Hb as (_ & _ & Bcfg).
    destruct (match o with SetMinCap _ => true | _ => false end) eqn:Eo.
    - destruct o as [a|a| | | | |i|i a| |n|e]; try discriminate Eo.
      cbn [Model.step fst]. unfold cfg, set_min_cap. cbn [minCap]. simpl in Ha. pose proof (shl1_le e Ha) as Hs.
      unfold B59, collections_queue_minCapacity in *. change (2 ^ 59) with 576460752303423488 in *.
      destruct (Z.gtb_spec (shl1 e) 16); [destruct (Z.eqb_spec (shl1 e) 0); lia|simpl; lia].
    - assert (Hno : forall e, o <> SetMinCap e) by (intros e ->; discriminate Eo).
      pose proof (step_capstep 0 d o Hwf Hno) as (C0 & _). rewrite C0. exact Bcfg. }
  cbn [go_run Model.run].
  destruct (Model.step 0 d o) as [d1 x] eqn:Es. destruct (spec_step l o) as [l1 y] eqn:Ey.
  destruct Href as (Hwf1 & HR1 & Exy). cbn [fst] in *.
  assert (Hnc : x <> OCrash).
  { rewrite Exy. pose proof (spec_step_no_crash l o) as H. rewrite Ey in H. exact H. }
  assert (Hb1 : bounded d1 (k + 1)).
  { destruct Hb as (Bc & Bcap & Bcfg). unfold bounded, B59 in *. split; [lia|]. split; [lia|exact Hcfg1]. }
  assert (Hal1 : (alloc || is_push o)%bool = true -> 0 < cap d1).
  { intros Hor. apply orb_true_iff in Hor. destruct Hor as [Ht|Hp]; [apply Hpos1, Hal, Ht|apply Hpush1, Hp]. }
  specialize (IH d1 l1 (k + 1) (alloc || is_push o)%bool Hwf1 HR1 Hb1 Hal1 Hargs' Hrot' ltac:(lia)).
  destruct (go_step d o) as [[d1' x']| |].
  - injection Hsrc as <- <-. rewrite IH. reflexivity.
  - destruct Hsrc as [Hs|Hs]; injection Hs as -> ->; [|congruence].
    rewrite IH. reflexivity.
  - injection Hsrc as -> ->. congruence.
Qed.

(* any sequence of translated method calls = the plain list *)
Theorem src_history (d0 : dq) (ops : list (op Z)) :
  wf d0 -> R d0 [] -> cap d0 <= 2 ^ 59 -> cfg d0 <= 2 ^ 59 ->
  Forall arg_small ops -> rot_ok (0 <? cap d0) ops -> Z.of_nat (length ops) <= 2 ^ 58 ->
  go_run d0 ops = run 0 d0 ops /\
  snd (go_run d0 ops) = snd (spec_run [] ops) /\
  contents 0 (fst (go_run d0 ops)) = fst (spec_run [] ops).
Proof.
  intros Hwf HR Hcap Hcfg Hargs Hrot Hlen.
  assert (E : go_run d0 ops = run 0 d0 ops).
  { apply (go_run_is_run ops d0 [] (2 ^ 59) (0 <? cap d0)); auto.
    - destruct Hwf as (Hc & _). unfold bounded, B59. repeat split; lia.
    - intros H. apply Z.ltb_lt in H. exact H.
    - lia. }
  split; [exact E|]. rewrite E. pose proof (deque_refines_list 0 d0 ops Hwf HR) as H.
  destruct (run 0 d0 ops) as [d outs]. destruct (spec_run [] ops) as [l souts].
  destruct H as (-> & Hcont & _). cbn [fst snd]. auto.
Qed.

(* the contents survive every grow and every shrink (generic element type) *)
Theorem resize_keeps_contents {A : Type} (nilv : A) (d : @deque A) (l : list A) : wf d -> R d l ->
  (exists d', grow_if_full nilv d = Some d' /\ wf d' /\ contents nilv d' = l /\ count d' = count d) /\
  (exists d', shrink_if_excess nilv d = Some d' /\ wf d' /\ contents nilv d' = l /\ count d' = count d).
Proof.
  intros Hwf HR. pose proof HR as [Hlen _]. split.
  - destruct (grow_spec nilv d l Hwf HR) as (d' & E & Hwf' & HR' & _).
    exists d'. split; [exact E|]. split; [exact Hwf'|]. split; [apply R_contents; assumption|].
    destruct HR' as [Hl' _]. lia.
  - destruct (shrink_spec nilv d l Hwf HR) as (d' & E & Hwf' & HR').
    exists d'. split; [exact E|]. split; [exact Hwf'|]. split; [apply R_contents; assumption|].
    destruct HR' as [Hl' _]. lia.
Qed.
