(* C14 — lemmas, part 3: a wildcard in a dictionary word stands for exactly one character,
   provided literal and wildcard branches never compete. *)
From Coq Require Import ZArith List Bool Lia.
From FV Require Import Generated.Consts C14.Model C14.Spec C14.ProofsDict C14.ProofsMatch.
Import ListNotations.
Open Scope Z_scope.

(* the text s is an instance of the pattern w: same length, each '*' of w is any character *)
Definition pmatch (w s : list Z) : Prop := Forall2 (fun p c => p = star \/ p = c) w s.

(* no node has both a wildcard child and another child *)
Definition nc (n : trie) : Prop :=
  forall p c, has_path n (p ++ [star]) = true -> has_path n (p ++ [c]) = true -> c = star.

Lemma nc_child n x m : nc n -> child_get x (children n) = Some m -> nc m.
Proof.
  intros Hn Ex p c H1 H2. apply (Hn (x :: p) c); cbn [app]; rewrite has_path_cons, Ex; assumption.
Qed.

Lemma has_path_single n x : has_path n [x] = true <-> exists m, child_get x (children n) = Some m.
Proof.
  rewrite has_path_cons. destruct (child_get x (children n)) as [m|].
  - split; [eauto | reflexivity].
  - split; [discriminate | intros [m H]; discriminate].
Qed.

Lemma contains_child_nc n c m x : nc n -> child_get x (children n) = Some m ->
  x = star \/ x = c -> contains_child n c = Some m.
Proof.
  intros Hn Ex Hx. unfold contains_child.
  destruct (Z.eq_dec x c) as [->|Hne]; [rewrite Ex; reflexivity|].
  destruct Hx as [->|Hx]; [|contradiction].
  destruct (child_get c (children n)) as [m2|] eqn:Ec; [|exact Ex].
  assert (c = star).
  { apply (Hn [] c); cbn [app]; apply has_path_single; eauto. }
  congruence.
Qed.

Lemma contains_child_inv n c m : contains_child n c = Some m ->
  exists x, (x = star \/ x = c) /\ child_get x (children n) = Some m.
Proof.
  unfold contains_child. destruct (child_get c (children n)) as [m2|] eqn:Ec.
  - intros H; inversion H; subst. exists c. auto.
  - intros H. exists star. auto.
Qed.

Lemma starts_loop_wild s : forall n pos, 0 <= pos -> nc n -> is_end n = false ->
  0 <= starts_loop n s pos <->
  exists w s1 s2, s = s1 ++ s2 /\ w <> [] /\ terminal n w = true /\ pmatch w s1.
Proof.
  induction s as [|c s IH]; intros n pos Hpos Hn He; cbn [starts_loop].
  - rewrite He. split; [lia|]. intros [w [s1 [s2 [Hs [Hne [_ Hm]]]]]].
    destruct s1; [|discriminate]. inversion Hm. congruence.
  - assert (Hback : forall w s1 s2, c :: s = s1 ++ s2 -> w <> [] -> terminal n w = true -> pmatch w s1 ->
              exists y w' s1' m, w = y :: w' /\ s = s1' ++ s2 /\ contains_child n c = Some m /\
                                 terminal m w' = true /\ pmatch w' s1').
    { intros w s1 s2 Hs Hne Ht Hm. destruct w as [|y w']; [congruence|].
      inversion Hm as [|y0 c0 w0 s1' Hy Hm' E1 E2]; subst. cbn [app] in Hs. inversion Hs; subst.
      rewrite terminal_cons in Ht. destruct (child_get y (children n)) as [m|] eqn:Ey; [|discriminate].
      exists y, w', s1', m. repeat split; try assumption.
      apply (contains_child_nc n c0 m y Hn Ey Hy). }
    destruct (contains_child n c) as [m|] eqn:Ec.
    + destruct (contains_child_inv n c m Ec) as [x [Hx Ex]].
      destruct (is_end m) eqn:Em.
      * split; [intros _ | lia]. exists [x], [c], s. repeat split; [discriminate | | constructor; [assumption | constructor]].
        rewrite terminal_cons, Ex. exact Em.
      * rewrite (IH m (pos + 1) ltac:(lia) (nc_child n x m Hn Ex) Em). split.
        -- intros [w [s1 [s2 [Hs [Hne [Ht Hm]]]]]]. exists (x :: w), (c :: s1), s2.
           repeat split; [subst; reflexivity | discriminate | | constructor; assumption].
           rewrite terminal_cons, Ex. exact Ht.
        -- intros [w [s1 [s2 [Hs [Hne [Ht Hm]]]]]].
           destruct (Hback w s1 s2 Hs Hne Ht Hm) as [y [w' [s1' [m2 [Hw [Hs' [Hc [Ht' Hm']]]]]]]].
           assert (m2 = m) by congruence. subst m2.
           exists w', s1', s2. repeat split; try assumption.
           intros ->. rewrite terminal_nil in Ht'. congruence.
    + split; [lia|]. intros [w [s1 [s2 [Hs [Hne [Ht Hm]]]]]].
      destruct (Hback w s1 s2 Hs Hne Ht Hm) as [y [w' [s1' [m2 [_ [_ [Hc _]]]]]]]. discriminate.
Qed.

Lemma mlen_some_iff r u : (exists k, mlen r u = Some k) <-> 0 <= starts_loop r u 0.
Proof.
  unfold mlen. destruct (0 <=? starts_loop r u 0) eqn:E.
  - apply Z.leb_le in E. split; [intros _; exact E | eauto].
  - apply Z.leb_gt in E. split; [intros [k H]; discriminate | lia].
Qed.

Lemma pmatch_length w s : pmatch w s -> length w = length s.
Proof. induction 1; cbn; [reflexivity | f_equal; assumption]. Qed.

Lemma contains_wild t s : nc (root t) -> is_end (root t) = false ->
  contains_text t s = true <->
  exists w a s1 b, s = a ++ s1 ++ b /\ terminal (root t) w = true /\ pmatch w s1.
Proof.
  intros Hn He. rewrite contains_text_first_match.
  destruct (first_match (root t) s) as [[j k]|] eqn:E.
  - split; [intros _ | reflexivity].
    destruct (first_match_some _ _ _ _ E) as [H1 [H2 _]].
    assert (H0 : 0 <= starts_loop (root t) (skipn j s) 0) by (apply mlen_some_iff; eauto).
    apply (starts_loop_wild _ _ 0 ltac:(lia) Hn He) in H0 as [w [s1 [s2 [Hs [Hne [Ht Hm]]]]]].
    destruct (skipn_split j s ltac:(lia)) as [a [Ha _]].
    exists w, a, s1, s2. split; [rewrite Ha at 1; rewrite Hs; reflexivity | auto].
  - split; [discriminate|]. intros [w [a [s1 [b [Hs [Ht Hm]]]]]]. exfalso.
    assert (Hne : w <> []) by (intros ->; rewrite terminal_nil in Ht; congruence).
    assert (Hj : (length a < length s)%nat).
    { subst s. rewrite !app_length, <- (pmatch_length _ _ Hm). destruct w; [congruence | cbn; lia]. }
    pose proof (first_match_none _ _ E (length a) Hj) as Hnone.
    subst s. rewrite skipn_app_exact in Hnone.
    assert (0 <= starts_loop (root t) (s1 ++ b) 0).
    { apply (starts_loop_wild _ _ 0 ltac:(lia) Hn He). exists w, s1, b. auto. }
    apply mlen_some_iff in H as [k Hk]. congruence.
Qed.

(* non-competition stated on the dictionary itself *)
Definition nc_dict (D : list Z -> Prop) : Prop :=
  forall p c r1 r2, D (p ++ star :: r1) -> D (p ++ c :: r2) -> c = star.

Lemma nc_of_dict n : pruned n -> nc_dict (fun w => terminal n w = true) -> nc n.
Proof.
  intros Hp Hd p c H1 H2.
  destruct (Hp (p ++ [star])) as [q1 Hq1]; [destruct p; discriminate | exact H1|].
  destruct (Hp (p ++ [c])) as [q2 Hq2]; [destruct p; discriminate | exact H2|].
  rewrite <- app_assoc in Hq1, Hq2. cbn [app] in Hq1, Hq2.
  apply (Hd p c q1 q2 Hq1 Hq2).
Qed.
