(* C14 — lemmas, part 3: a wildcard in a dictionary word stands for exactly one character,
   provided literal and wildcard branches never compete. *)
From Coq Require Import ZArith List Bool Lia.
From FV Require Import Generated.Consts C14.Model C14.Spec C14.ProofsDict C14.ProofsMatch C14.ProofsSem.
Import ListNotations.
Open Scope Z_scope.

(* the text s is an instance of the pattern w: same length, each '*' of w is any character *)
Definition pmatch (w s : list Z) : Prop := Forall2 (fun p c => p = star \/ p = c) w s.

(* no node has both a wildcard child and another child *)
Definition nc (n : trie) : Prop :=
  forall p c, has_path n (p ++ [star]) = true -> has_path n (p ++ [c]) = true -> c = star.

Lemma nc_child n x m : nc n -> child_get x (children n) = Some m -> nc m.
Proof.
  intros Hn Ex p c H1 H2. apply (Hn (x :: p) c); cbn [app]; rewrite has_path_cons, Ex; assumption.
Qed.

Lemma has_path_single n x : has_path n [x] = true <-> exists m, child_get x (children n) = Some m.
Proof.
  rewrite has_path_cons. destruct (child_get x (children n)) as [m|].
  - split; [eauto | reflexivity].
  - split; [discriminate | intros [m H]; discriminate].
Qed.

Lemma contains_child_nc n c m x : nc n -> child_get x (children n) = Some m ->
  x = star \/ x = c -> contains_child n c = Some m.
Proof.
  intros Hn Ex Hx. unfold contains_child.
  destruct (Z.eq_dec x c) as [->|Hne]; [rewrite Ex; reflexivity|].
  destruct Hx as [->|Hx]; [|contradiction].
  destruct (child_get c (children n)) as [m2|] eqn:Ec; [|exact Ex].
  assert (c = star).
  { apply (Hn [] c); cbn [app]; apply has_path_single; eauto. }
  congruence.
Qed.

Lemma contains_child_inv n c m : contains_child n c = Some m ->
  exists x, (x = star \/ x = c) /\ child_get x (children n) = Some m.
Proof.
  unfold contains_child. destruct (child_get c (children n)) as [m2|] eqn:Ec.
  - intros H; inversion H; subst. exists c. auto.
  - intros H. exists star. auto.
Qed.

(* without competition "the matcher follows w on s" is "s begins with an instance of w" *)
Lemma follows_nc w : forall n s, nc n -> has_path n w = true ->
  follows n w s <-> (length w <= length s)%nat /\ pmatch w (firstn (length w) s).
Proof.
  induction w as [|x w IH]; intros n s Hn Hp.
  - cbn. split; [intros _; split; [lia | constructor] | auto].
  - destruct s as [|c s]; [cbn; split; [contradiction | intros [H _]; lia]|].
    rewrite has_path_cons in Hp. destruct (child_get x (children n)) as [m|] eqn:Ex; [|discriminate].
    cbn [follows length firstn]. split.
    + intros [m' [Hx [Hc Hf]]]. assert (m' = m) by congruence. subst m'.
      apply (IH m s (nc_child n x m Hn Ex) Hp) in Hf as [Hl Hm]. split; [lia|].
      constructor; [|exact Hm]. destruct Hc as [->|[-> _]]; auto.
    + intros [Hl Hm]. inversion Hm as [|? ? ? ? Hxc Hm']; subst. exists m. split; [exact Ex|]. split.
      * destruct Hxc as [Hxs|Hxs]; [subst x | left; exact Hxs].
        destruct (Z.eq_dec star c) as [E|E]; [left; exact E|]. right. split; [reflexivity|].
        destruct (child_get c (children n)) as [m2|] eqn:Ec; [|reflexivity]. exfalso. apply E. symmetry.
        apply (Hn [] c); cbn [app]; apply has_path_single; eauto.
      * apply (IH m s (nc_child n x m Hn Ex) Hp). split; [lia | exact Hm'].
Qed.

(* hence, as a corollary of the general semantics (ProofsSem.v): *)
Lemma starts_loop_wild s : forall n pos, 0 <= pos -> nc n -> is_end n = false ->
  0 <= starts_loop n s pos <->
  exists w s1 s2, s = s1 ++ s2 /\ w <> [] /\ terminal n w = true /\ pmatch w s1.
Proof.
  intros n pos Hpos Hn He. rewrite (starts_loop_mlen n s pos Hpos). split.
  - destruct (mlen n s) as [k|] eqn:Ek; [intros _ | lia].
    apply (mlen_some_sem s n k He) in Ek as [w [Hl [Hf [Ht _]]]].
    apply (follows_nc w n s Hn (terminal_has_path n w Ht)) in Hf as [Hlen Hm].
    exists w, (firstn (length w) s), (skipn (length w) s).
    split; [symmetry; apply firstn_skipn|]. split; [destruct w; [discriminate | discriminate]|]. auto.
  - intros [w [s1 [s2 [Hs [Hne [Ht Hm]]]]]].
    assert (Hf : follows n w s).
    { apply (follows_nc w n s Hn (terminal_has_path n w Ht)).
      assert (Hl : length w = length s1) by (clear -Hm; induction Hm; cbn; congruence). subst s. rewrite app_length. split; [lia|].
      rewrite Hl, firstn_app_exact. exact Hm. }
    destruct (mlen n s) as [k|] eqn:Ek; [lia|].
    rewrite (proj1 (mlen_none_sem s n He) Ek w Hne Hf) in Ht. discriminate.
Qed.

Lemma mlen_some_iff r u : (exists k, mlen r u = Some k) <-> 0 <= starts_loop r u 0.
Proof.
  unfold mlen. destruct (0 <=? starts_loop r u 0) eqn:E.
  - apply Z.leb_le in E. split; [intros _; exact E | eauto].
  - apply Z.leb_gt in E. split; [intros [k H]; discriminate | lia].
Qed.

Lemma pmatch_length w s : pmatch w s -> length w = length s.
Proof. induction 1; cbn; [reflexivity | f_equal; assumption]. Qed.

Lemma contains_wild t s : nc (root t) -> is_end (root t) = false ->
  contains_text t s = true <->
  exists w a s1 b, s = a ++ s1 ++ b /\ terminal (root t) w = true /\ pmatch w s1.
Proof.
  intros Hn He. rewrite contains_text_first_match.
  destruct (first_match (root t) s) as [[j k]|] eqn:E.
  - split; [intros _ | reflexivity].
    destruct (first_match_some _ _ _ _ E) as [H1 [H2 _]].
    assert (H0 : 0 <= starts_loop (root t) (skipn j s) 0) by (apply mlen_some_iff; eauto).
    apply (starts_loop_wild _ _ 0 ltac:(lia) Hn He) in H0 as [w [s1 [s2 [Hs [Hne [Ht Hm]]]]]].
    destruct (skipn_split j s ltac:(lia)) as [a [Ha _]].
    exists w, a, s1, s2. split; [rewrite Ha at 1; rewrite Hs; reflexivity | auto].
  - split; [discriminate|]. intros [w [a [s1 [b [Hs [Ht Hm]]]]]]. exfalso.
    assert (Hne : w <> []) by (intros ->; rewrite terminal_nil in Ht; congruence).
    assert (Hj : (length a < length s)%nat).
    { subst s. rewrite !app_length, <- (pmatch_length _ _ Hm). destruct w; [congruence | cbn; lia]. }
    pose proof (first_match_none _ _ E (length a) Hj) as Hnone.
    subst s. rewrite skipn_app_exact in Hnone.
    assert (0 <= starts_loop (root t) (s1 ++ b) 0).
    { apply (starts_loop_wild _ _ 0 ltac:(lia) Hn He). exists w, s1, b. auto. }
    apply mlen_some_iff in H as [k Hk]. congruence.
Qed.

(* non-competition stated on the dictionary itself *)
Definition nc_dict (D : list Z -> Prop) : Prop :=
  forall p c r1 r2, D (p ++ star :: r1) -> D (p ++ c :: r2) -> c = star.

Lemma nc_of_dict n : pruned n -> nc_dict (fun w => terminal n w = true) -> nc n.
Proof.
  intros Hp Hd p c H1 H2.
  destruct (Hp (p ++ [star])) as [q1 Hq1]; [destruct p; discriminate | exact H1|].
  destruct (Hp (p ++ [c])) as [q2 Hq2]; [destruct p; discriminate | exact H2|].
  rewrite <- app_assoc in Hq1, Hq2. cbn [app] in Hq1, Hq2.
  apply (Hd p c q1 q2 Hq1 Hq2).
Qed.
