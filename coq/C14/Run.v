(* C14 — correspondence: decode a history written by the Go harness, run the model on it,
   compare every observable with what the implementation returned, and evaluate the
   property's sentences on the implementation's own answers against an independent
   reference: the dictionary kept as a plain duplicate-free list of words.

   case     = (ops observed),  words and texts are lists of runes
   op       = (0 w) AddWord | (1 w) Remove | (2) Reset | (3 text) query | (4 w) probe
              (5 #bytes) (6 #bytes) (8 #bytes) (9 #bytes) = ops 0 1 3 4 on a raw byte string
              (possibly invalid UTF-8), decoded by Model.runes_of_bytes as Go decodes it;
              (7 #bytes) = decode only: observed ((runes of []rune(s)))
              (12) = String() (debug dump; only that it returns is observed: (0)),
              (13) = WordsCount() alone: (count)
              (10 w) = AddWord, (11 w) = Remove WITHOUT calling WordsCount afterwards:
              observed () resp. (ret)
   observed = one entry per op:
              (0 w) -> (count)            WordsCount() after the call
              (1 w) -> (ret count)        return value of Remove, WordsCount() after
              (2)   -> (count)
              (3 t) -> (contains exact (filtered runes))   Contains, ExactMatch, Filter
              (4 w) -> (has)              exact, wildcard-free membership (verif probe)
              (-8) = the call did not return within 3 s, (-9) = it panicked *)
From Coq Require Import ZArith List Bool.
From FV Require Import Lib.Sx C14.Model C14.Spec.
Import ListNotations.
Open Scope Z_scope.

(* ---------- decoding ---------- *)

Inductive hop :=
| HAdd (w : list Z) | HRemove (w : list Z) | HReset | HQuery (t : list Z) | HProbe (w : list Z)
| HDecode (r : list Z)
| HAddQ (w : list Z) | HRemoveQ (w : list Z)
| HString | HCount.

Definition hop_of (s : sx) : option hop :=
  match s with
  | SList [SInt 0; w] => option_map HAdd (sx_ints w)
  | SList [SInt 1; w] => option_map HRemove (sx_ints w)
  | SList [SInt 2] => Some HReset
  | SList [SInt 3; w] => option_map HQuery (sx_ints w)
  | SList [SInt 4; w] => option_map HProbe (sx_ints w)
  | SList [SInt 5; SBytes b] => Some (HAdd (runes_of_bytes (map Z.of_N b)))
  | SList [SInt 6; SBytes b] => Some (HRemove (runes_of_bytes (map Z.of_N b)))
  | SList [SInt 8; SBytes b] => Some (HQuery (runes_of_bytes (map Z.of_N b)))
  | SList [SInt 9; SBytes b] => Some (HProbe (runes_of_bytes (map Z.of_N b)))
  | SList [SInt 7; SBytes b] => Some (HDecode (runes_of_bytes (map Z.of_N b)))
  | SList [SInt 12] => Some HString
  | SList [SInt 13] => Some HCount
  | SList [SInt 10; w] => option_map HAddQ (sx_ints w)
  | SList [SInt 11; w] => option_map HRemoveQ (sx_ints w)
  | _ => None
  end.

(* ---------- model side ---------- *)

Fixpoint corr (t : hashtrie) (ops : list hop) (obs : list sx) : verdict :=
  match ops, obs with
  | [], [] => VOk
  | o :: ops', ob :: obs' =>
      match o, ob with
      | HAdd w, SList [SInt cnt] =>
          let t' := add_word w t in
          vjoin (check_that (size t' =? cnt) (VMismatch 1)) (corr t' ops' obs')
      | HRemove w, SList [SInt ret; SInt cnt] =>
          let '(t', r) := remove w t in
          vjoin (check_that (Bool.eqb r (ret =? 1)) (VMismatch 2))
         (vjoin (check_that (size t' =? cnt) (VMismatch 1)) (corr t' ops' obs'))
      | HString, SList [SInt 0] => corr t ops' obs'
      | HCount, SList [SInt cnt] => vjoin (check_that (size t =? cnt) (VMismatch 1)) (corr t ops' obs')
      | HAddQ w, SList [] => corr (add_word w t) ops' obs'
      | HRemoveQ w, SList [SInt ret] =>
          let '(t', r) := remove w t in
          vjoin (check_that (Bool.eqb r (ret =? 1)) (VMismatch 2)) (corr t' ops' obs')
      | HReset, SList [SInt cnt] =>
          let t' := reset t in
          vjoin (check_that (size t' =? cnt) (VMismatch 1)) (corr t' ops' obs')
      | HQuery s, SList [SInt c; SInt e; f] =>
          match sx_ints f with
          | Some f =>
              vjoin (check_that (Bool.eqb (contains_text t s) (c =? 1)) (VMismatch 3))
             (vjoin (check_that (Bool.eqb (exact_match t s) (e =? 1)) (VMismatch 4))
             (vjoin (check_that (zl_eqb (filter_text t s) f) (VMismatch 5)) (corr t ops' obs')))
          | None => VBad
          end
      | HProbe w, SList [SInt h] =>
          vjoin (check_that (Bool.eqb (match w with [] => false | _ => terminal (root t) w end) (h =? 1))
                            (VMismatch 6))
                (corr t ops' obs')
      | HDecode r, SList [g] =>
          match sx_ints g with
          | Some g => vjoin (check_that (zl_eqb r g) (VMismatch 8)) (corr t ops' obs')
          | None => VBad
          end
      | _, _ => VBad
      end
  | _, _ => VBad
  end.

(* ---------- property side: d = the words added and not since removed ---------- *)

(* lastrm = the word removed by the latest mutation, if that was a Remove *)
Fixpoint prop (d : list (list Z)) (lastrm : option (list Z)) (ops : list hop) (obs : list sx) : verdict :=
  match ops, obs with
  | [], [] => VOk
  | o :: ops', ob :: obs' =>
      match ob with
      | SList [SInt (-8)] => VPropFail 10      (* the call did not return *)
      | SList [SInt (-9)] => VPropFail 11      (* the call panicked *)
      | _ =>
      match o, ob with
      | HAdd w, SList [SInt cnt] =>
          let d' := dict_add w d in
          vjoin (check_that (cnt =? Z.of_nat (length d')) (VPropFail 3)) (prop d' None ops' obs')
      | HRemove w, SList [SInt ret; SInt cnt] =>
          let d' := dict_remove w d in
          vjoin (check_that (Bool.eqb (ret =? 1) (wmem w d)) (VPropFail 2))
         (vjoin (check_that (cnt =? Z.of_nat (length d')) (VPropFail 3)) (prop d' (Some w) ops' obs'))
      | HString, SList [SInt 0] => prop d lastrm ops' obs'
      | HCount, SList [SInt cnt] =>
          vjoin (check_that (cnt =? Z.of_nat (length d)) (VPropFail 3)) (prop d lastrm ops' obs')
      | HAddQ w, SList [] => prop (dict_add w d) None ops' obs'
      | HRemoveQ w, SList [SInt ret] =>
          vjoin (check_that (Bool.eqb (ret =? 1) (wmem w d)) (VPropFail 2))
                (prop (dict_remove w d) (Some w) ops' obs')
      | HReset, SList [SInt cnt] =>
          vjoin (check_that (cnt =? 0) (VPropFail 3)) (prop [] None ops' obs')
      | HDecode _, _ => prop d lastrm ops' obs'
      | HProbe w, SList [SInt h] =>
          let ok := Bool.eqb (h =? 1) (wmem w d) in
          let code := match lastrm with
                      | Some v => if zl_eqb v w then VPropFail 1 else VPropFail 4
                      | None => VPropFail 1
                      end in
          vjoin (check_that ok code) (prop d lastrm ops' obs')
      | HQuery s, SList [SInt c; SInt e; f] =>
          match sx_ints f with
          | Some f =>
              let lit := forallb literal_word d in
              let v :=
                if lit then
                  vjoin (check_that (Bool.eqb (c =? 1) (existsb (fun w => occurs_b false w s) d)) (VPropFail 5))
                 (vjoin (check_that (Nat.eqb (length f) (length s)) (VPropFail 6))
                 (vjoin (check_that (kept_outside s f (cover d O s)) (VPropFail 7))
                        (check_that (negb (existsb (fun w => occurs_b false w f) d)) (VPropFail 8))))
                else if noncompeting d then
                  check_that (Bool.eqb (c =? 1) (existsb (fun w => occurs_b true w s) d)) (VPropFail 9)
                else
                  (* competing wildcard dictionary: outside the property's premise; compared
                     with the word-list matcher of c14_match_semantics (exact continuation
                     first, then '*', first word reached, leftmost start) *)
                  check_that (Bool.eqb (c =? 1) (ref_contains d s)) (VMismatch 7) in
              vjoin v (prop d lastrm ops' obs')
          | None => VBad
          end
      | _, _ => VBad
      end
      end
  | _, _ => VBad
  end.

Definition check (c : sx) : verdict :=
  match c with
  | SList [SList ops; SList obs] =>
      match map_opt hop_of ops with
      | Some ops => vjoin (prop [] None ops obs) (corr empty ops obs)
      | None => VBad
      end
  | _ => VBad
  end.
