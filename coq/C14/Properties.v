(* C14 — property theorems (placeholder while the pipeline is brought up). *)
From Coq Require Import ZArith List Bool.
From FV Require Import C14.Model C14.Proofs.
Import ListNotations.
Open Scope Z_scope.

Theorem c14_add_empty : forall t, add_word [] t = t.
Proof. exact add_empty. Qed.
Print Assumptions c14_add_empty.
