(* C14 — The word-filter dictionary is exactly the words added and not removed.
   Only the property theorems: each is closed by lemmas of C14/Proofs*.v and followed by
   Print Assumptions.  `run ops` is the dictionary after an arbitrary history of AddWord /
   Remove / Reset calls; `terminal (root t) w = true` says that w is a word of the
   dictionary t (exact membership, what the verif probe observes); words and texts are
   arbitrary lists of runes.  The model is the code after fix 5fab757. *)
From Coq Require Import ZArith List Bool.
From FV Require Import C14.Model C14.Spec C14.ProofsDict C14.ProofsMatch C14.ProofsSem C14.ProofsWild C14.ProofsSpec.
Import ListNotations.
Open Scope Z_scope.

(* "The filter's dictionary is exactly the set of words added and not since removed"
   (AddWord("") is ignored by the code, so the empty word is never a member) *)
Theorem c14_dict_is_set : forall ops w,
  terminal (root (run ops)) w = true <->
  w <> [] /\ exists before after, ops = before ++ AddWord w :: after /\
                                  ~ In (RemoveWord w) after /\ ~ In Reset after.
Proof.
  intros ops w. destruct (inv_run ops) as [R _].
  rewrite (rep_terminal _ _ R). apply spec_run_history.
Qed.
Print Assumptions c14_dict_is_set.

(* "removing a word reports whether it was present" *)
Theorem c14_remove_reports : forall ops w,
  snd (remove w (run ops)) = true <-> terminal (root (run ops)) w = true.
Proof.
  intros ops w. destruct (inv_run ops) as [R Hn].
  rewrite (rep_terminal _ _ R). apply remove_reports. split; assumption.
Qed.
Print Assumptions c14_remove_reports.

(* "... never changes how any other word matches" — membership of every other word is
   untouched (and c14_matching_depends_only_on_words below: matching is a function of the
   membership) *)
Theorem c14_remove_others_unchanged : forall ops w w', w' <> w ->
  terminal (root (run (ops ++ [RemoveWord w]))) w' = terminal (root (run ops)) w'.
Proof.
  intros ops w w' Hne. unfold run. rewrite fold_left_app. cbn [fold_left step].
  fold (run ops). destruct (inv_run ops) as [R Hn].
  pose proof (inv_remove w _ _ (conj R Hn)) as [R' _].
  destruct (terminal (root (run ops)) w') eqn:T.
  - apply (rep_terminal _ _ R'). apply in_dict_remove. split; [apply (rep_terminal _ _ R); exact T | exact Hne].
  - destruct (terminal (root (fst (remove w (run ops)))) w') eqn:T'; [|reflexivity].
    apply (rep_terminal _ _ R') in T'. apply in_dict_remove in T' as [T' _].
    apply (rep_terminal _ _ R) in T'. congruence.
Qed.
Print Assumptions c14_remove_others_unchanged.

(* "the word count equals the size of that set" *)
Theorem c14_count : forall ops, exists d,
  NoDup d /\ (forall w, In w d <-> terminal (root (run ops)) w = true) /\
  size (run ops) = Z.of_nat (length d).
Proof.
  intros ops. destruct (inv_run ops) as [R _]. exists (spec_run ops).
  split; [apply (rep_nodup _ _ R)|]. split; [|apply (rep_size _ _ R)].
  intros w. symmetry. apply (rep_terminal _ _ R).
Qed.
Print Assumptions c14_count.

(* no dead branches are left behind: every path of the trie leads to a word *)
Theorem c14_pruned : forall ops p, p <> [] -> has_path (root (run ops)) p = true ->
  exists q, terminal (root (run ops)) (p ++ q) = true.
Proof. intros ops. destruct (inv_run ops) as [R _]. exact (rep_pruned _ _ R). Qed.
Print Assumptions c14_pruned.

(* A dictionary of literal words: no CURRENT member contains '*'.  What was added and removed
   before does not matter (removal prunes every trace: c14_pruned) — in particular a history
   that only ever adds literal words (literal_ops) qualifies. *)
Definition literal_dict (ops : list op) : Prop :=
  forall w, terminal (root (run ops)) w = true -> ~ In star w.

Theorem c14_literal_history_gives_literal_dict : forall ops, literal_ops ops -> literal_dict ops.
Proof. intros ops Hl w Hw. apply (literal_run ops Hl w). apply terminal_has_path. exact Hw. Qed.
Print Assumptions c14_literal_history_gives_literal_dict.

(* "For dictionaries of literal words a text is reported as containing a match if and only
   if some dictionary word occurs in it" *)
Theorem c14_contains_iff : forall ops s, literal_dict ops ->
  contains_text (run ops) s = true <->
  exists w, terminal (root (run ops)) w = true /\ occurs w s.
Proof.
  intros ops s Hl. rewrite (contains_literal _ s (literal_of_words ops Hl) (root_not_end ops)).
  split; intros [w H]; exists w; [tauto|].
  destruct H as [H1 H2]. split; [assumption|]. split; [|assumption].
  intros ->. rewrite terminal_nil, root_not_end in H1. discriminate.
Qed.
Print Assumptions c14_contains_iff.

(* "filtering a text keeps its length" — holds for every dictionary, literal or not *)
Theorem c14_filter_length : forall ops s, length (filter_text (run ops) s) = length s.
Proof. intros ops s. rewrite (filter_text_filt _ s (root_not_end ops)). apply filt_length. Qed.
Print Assumptions c14_filter_length.

(* "... and every character outside a match": a position either keeps its character or
   carries the mask and lies inside an occurrence of a dictionary word in the text *)
Theorem c14_filter_outside_kept : forall ops s i, literal_dict ops -> (i < length s)%nat ->
  nth i (filter_text (run ops) s) 0 = nth i s 0 \/
  (nth i (filter_text (run ops) s) 0 = mask /\
   exists a w b, s = a ++ w ++ b /\ terminal (root (run ops)) w = true /\
                 (length a <= i < length a + length w)%nat).
Proof. intros ops s i Hl Hi. apply filter_outside_kept; [apply literal_of_words, Hl | apply root_not_end | exact Hi]. Qed.
Print Assumptions c14_filter_outside_kept.

(* "... while leaving no dictionary word in the result".  The mask is the character '*',
   so this can only be claimed for words without '*': a literal dictionary (the statement's
   own premise).  With the word "*" in the dictionary the filtered text "*" still contains
   it — Example c14_filter_clean_needs_literal below. *)
Theorem c14_filter_clean : forall ops s w, literal_dict ops ->
  terminal (root (run ops)) w = true -> ~ occurs w (filter_text (run ops) s).
Proof.
  intros ops s w Hl Hw. apply filter_clean; [apply literal_of_words, Hl | apply root_not_end | exact Hw|].
  apply (Hl w Hw).
Qed.
Print Assumptions c14_filter_clean.

(* ExactMatch (first-terminal matching from position 0): on a literal dictionary it accepts
   exactly the members none of whose proper non-empty prefixes is a member *)
Theorem c14_exact_match : forall ops s, literal_dict ops ->
  exact_match (run ops) s = true <->
  terminal (root (run ops)) s = true /\
  forall w b, w <> [] -> b <> [] -> s = w ++ b -> terminal (root (run ops)) w = false.
Proof. intros ops s Hl. apply exact_match_literal; [apply literal_of_words, Hl | apply root_not_end]. Qed.
Print Assumptions c14_exact_match.

(* "removing a word ... never changes how any other word matches", at full strength: on EVERY
   dictionary (wildcards, competing or not, included) Contains, Filter and ExactMatch are
   functions of the word set — two histories with the same members answer every text alike;
   so after a removal the answers are those of the dictionary without that word, however the
   remaining words got there.  The queries themselves are functions of the dictionary in the
   model (they return no new state); on the code this is observed by membership probes and
   WordsCount after queries. *)
Theorem c14_matching_depends_only_on_words : forall ops1 ops2,
  (forall w, terminal (root (run ops1)) w = terminal (root (run ops2)) w) ->
  forall s, contains_text (run ops1) s = contains_text (run ops2) s /\
            filter_text (run ops1) s = filter_text (run ops2) s /\
            exact_match (run ops1) s = exact_match (run ops2) s.
Proof. exact matching_depends_on_words_general. Qed.
Print Assumptions c14_matching_depends_only_on_words.

(* What the matcher does on ANY dictionary — wildcard and literal branches may compete.
   `follows r w u` (ProofsSem.v): w is the trie path the matcher takes on the text u —
   at each node the child labelled with the text's character if there is one, and only
   otherwise the child labelled '*'.  `no_early r w`: no proper non-empty prefix of w is a
   word.  starts(u, pos) returns pos+k exactly when the followed path of length k+1 is a
   word and the first one to be (first terminal reached), and -1 exactly when no followed
   path is a word — a literal branch that dead-ends is NOT retried through '*'. *)
Theorem c14_match_semantics : forall ops u pos k, 0 <= pos ->
  (starts_loop (root (run ops)) u pos = pos + Z.of_nat k <->
   exists w, length w = S k /\ follows (root (run ops)) w u /\
             terminal (root (run ops)) w = true /\ no_early (root (run ops)) w) /\
  (starts_loop (root (run ops)) u pos = -1 <->
   forall w, w <> [] -> follows (root (run ops)) w u -> terminal (root (run ops)) w = false).
Proof.
  intros ops u pos k Hpos. split.
  - rewrite (starts_loop_some_iff _ u pos k Hpos). apply mlen_some_sem, root_not_end.
  - rewrite (starts_loop_none_iff _ u pos Hpos). apply mlen_none_sem, root_not_end.
Qed.
Print Assumptions c14_match_semantics.

(* the statement `if node.isEnd { return pos }` after the loop of starts() is dead code on
   every reachable dictionary (the harness never executes it either: bin/harness-cover) *)
Theorem c14_after_loop_test_dead : forall ops u pos,
  starts_loop (root (run ops)) u pos = starts_loop_nocheck (root (run ops)) u pos.
Proof. intros ops u pos. apply after_loop_test_dead, root_not_end. Qed.
Print Assumptions c14_after_loop_test_dead.

(* the path the matcher follows is unique *)
Theorem c14_followed_path_unique : forall ops u w1 w2,
  follows (root (run ops)) w1 u -> follows (root (run ops)) w2 u -> length w1 = length w2 -> w1 = w2.
Proof. intros ops u. apply follows_unique. Qed.
Print Assumptions c14_followed_path_unique.

(* find / Contains: the leftmost start position at which starts succeeds *)
Theorem c14_leftmost_match : forall ops s,
  (forall j k, find_from (root (run ops)) s 0 = (Z.of_nat j, Z.of_nat k + 1) <->
     (j < length s)%nat /\ starts_loop (root (run ops)) (skipn j s) 0 = Z.of_nat k /\
     forall j', (j' < j)%nat -> starts_loop (root (run ops)) (skipn j' s) 0 = -1) /\
  (find_from (root (run ops)) s 0 = (-1, 0) <->
     forall j, (j < length s)%nat -> starts_loop (root (run ops)) (skipn j s) 0 = -1) /\
  (contains_text (run ops) s = true <->
     exists j, (j < length s)%nat /\ 0 <= starts_loop (root (run ops)) (skipn j s) 0).
Proof.
  intros ops s. split; [intros j k; apply find_from_sem|]. split; [apply find_from_none_sem|].
  rewrite contains_text_first_match.
  destruct (first_match (root (run ops)) s) as [[j k]|] eqn:E.
  - split; [intros _ | reflexivity]. destruct (first_match_some _ _ _ _ E) as [H1 [H2 _]].
    exists j. split; [exact H2|]. apply mlen_some_iff. eauto.
  - split; [discriminate|]. intros [j [Hj H]]. apply mlen_some_iff in H as [k Hk].
    rewrite (first_match_none _ _ E j Hj) in Hk. discriminate.
Qed.
Print Assumptions c14_leftmost_match.

(* Filter: scan from the left; where a match of length k+1 begins write k+1 masks and resume
   after it, elsewhere keep the character (filt, ProofsMatch.v, is that recursion) *)
Theorem c14_filter_semantics : forall ops s,
  filter_text (run ops) s = filt (root (run ops)) O s.
Proof. intros ops s. apply filter_text_filt, root_not_end. Qed.
Print Assumptions c14_filter_semantics.

(* "a wildcard in a dictionary word stands for any single character": if literal and
   wildcard branches never compete (no two words continue a common prefix one with '*' and
   the other with another character), a text matches iff it contains an instance of a
   dictionary word in which every '*' is replaced by exactly one arbitrary character.
   A corollary of c14_match_semantics: without competition "the matcher follows w on u" is
   "u begins with an instance of w" (follows_nc, ProofsWild.v). *)
Theorem c14_wildcard : forall ops s,
  nc_dict (fun w => terminal (root (run ops)) w = true) ->
  contains_text (run ops) s = true <->
  exists w a s1 b, s = a ++ s1 ++ b /\ terminal (root (run ops)) w = true /\ pmatch w s1.
Proof.
  intros ops s Hd. apply contains_wild; [|apply root_not_end].
  apply nc_of_dict; [|exact Hd]. destruct (inv_run ops) as [R _]. exact (rep_pruned _ _ R).
Qed.
Print Assumptions c14_wildcard.

(* The executable reference of C14/Spec.v — the dictionary as a plain list of words
   (spec_run), brute-force occurrence search, the pairwise non-competition test, the
   coverage mask — is what C14/Run.v evaluates on the IMPLEMENTATION's answers.  The model
   passes every one of those checks on every history and text ... *)
Theorem c14_model_passes_reference_checks : forall ops,
  size (run ops) = Z.of_nat (length (spec_run ops)) /\
  (forall w, snd (remove w (run ops)) = wmem w (spec_run ops)) /\
  (forall w, terminal (root (run ops)) w = wmem w (spec_run ops)) /\
  (forall s, Nat.eqb (length (filter_text (run ops) s)) (length s) = true) /\
  (forallb literal_word (spec_run ops) = true -> forall s,
     contains_text (run ops) s = existsb (fun w => occurs_b false w s) (spec_run ops) /\
     kept_outside s (filter_text (run ops) s) (cover (spec_run ops) O s) = true /\
     existsb (fun w => occurs_b false w (filter_text (run ops) s)) (spec_run ops) = false) /\
  (noncompeting (spec_run ops) = true -> forall s,
     contains_text (run ops) s = existsb (fun w => occurs_b true w s) (spec_run ops)).
Proof.
  intros ops. split; [apply model_count|]. split; [apply model_remove|]. split; [apply model_probe|].
  split; [apply model_filter_length|]. split.
  - intros Hl s. split; [apply model_contains_literal, Hl|].
    split; [apply model_filter_outside, Hl | apply model_filter_clean, Hl].
  - intros Hc s. apply model_contains_wild, Hc.
Qed.
Print Assumptions c14_model_passes_reference_checks.

(* ... and on EVERY dictionary Contains equals the matcher computed from the word list alone
   (Spec.ref_contains: at the path reached so far continue with the text's character if some
   word continues that way, only otherwise with '*'; stop at the first path that is a word;
   leftmost start) — what Run.v compares the implementation with on competing dictionaries *)
Theorem c14_model_meets_general_reference : forall ops s,
  contains_text (run ops) s = ref_contains (spec_run ops) s.
Proof. exact model_contains_general. Qed.
Print Assumptions c14_model_meets_general_reference.

(* ... and the boolean checks mean what the sentences say *)
Theorem c14_reference_checks_sound :
  (forall w s, occurs_b false w s = true <-> occurs w s) /\
  (forall w s, occurs_b true w s = true <-> exists a s1 b, s = a ++ s1 ++ b /\ pmatch w s1) /\
  (forall w, literal_word w = true <-> ~ In star w) /\
  (forall d, noncompeting d = true -> nc_dict (fun w => In w d)) /\
  (forall d s f, kept_outside s f (cover d O s) = true ->
     forall i, (i < length s)%nat ->
       nth i f 0 = nth i s 0 \/
       (nth i f 0 = mask /\ exists a w b, s = a ++ w ++ b /\ In w d /\
                                          (length a <= i < length a + length w)%nat)).
Proof.
  split; [exact occurs_b_literal|]. split; [exact occurs_b_pattern|]. split; [exact literal_word_sound|].
  split; [exact noncompeting_sound | exact kept_outside_meaning].
Qed.
Print Assumptions c14_reference_checks_sound.

(* Non-vacuity. *)
Definition ex_ops : list op :=
  [AddWord [97]; AddWord [97; 97]; AddWord [19990; 233]; RemoveWord [97]; AddWord []; RemoveWord [98]].

Example c14_example_literal :
  literal_ops ex_ops /\ size (run ex_ops) = 2 /\
  terminal (root (run ex_ops)) [97; 97] = true /\ terminal (root (run ex_ops)) [97] = false /\
  contains_text (run ex_ops) [98; 97; 97; 98] = true /\
  filter_text (run ex_ops) [98; 97; 97; 97; 19990; 233] = [98; 42; 42; 97; 42; 42].
Proof.
  split.
  - intros w Hin. cbn in Hin. unfold star. cbn.
    repeat (destruct Hin as [Hin|Hin]; [inversion Hin; subst; cbn; intuition discriminate|]). contradiction.
  - vm_compute. repeat split.
Qed.

(* a literal dictionary whose history is not literal: "*a" came and went *)
Definition ex_mixed : list op := [AddWord [42; 97]; AddWord [97; 98]; RemoveWord [42; 97]].
Example c14_example_literal_dict :
  literal_dict ex_mixed /\ ~ literal_ops ex_mixed /\
  contains_text (run ex_mixed) [120; 97; 98] = true /\ contains_text (run ex_mixed) [120; 97] = false.
Proof.
  split; [|split; [|vm_compute; split; reflexivity]].
  - intros w Hw. destruct (inv_run ex_mixed) as [R _]. apply (rep_terminal _ _ R) in Hw.
    change (spec_run ex_mixed) with [[97; 98]] in Hw. destruct Hw as [<-|[]].
    unfold star. cbn. intuition discriminate.
  - intros H. apply (H [42; 97]); [left; reflexivity | left; reflexivity].
Qed.

(* two different histories, same members (a wildcard one): every text is answered alike *)
Example c14_example_same_words :
  let o1 := [AddWord [97; 42]; AddWord [98]; AddWord [97; 98]; RemoveWord [98]] in
  let o2 := [AddWord [97; 98]; AddWord [97; 42]] in
  (forall w, terminal (root (run o1)) w = terminal (root (run o2)) w) /\
  filter_text (run o1) [97; 98; 97; 99] = [42; 42; 42; 42].
Proof.
  cbv zeta. split; [|reflexivity]. intros w.
  rewrite !model_probe.
  change (spec_run [AddWord [97; 42]; AddWord [98]; AddWord [97; 98]; RemoveWord [98]]) with [[97; 98]; [97; 42]].
  change (spec_run [AddWord [97; 98]; AddWord [97; 42]]) with [[97; 42]; [97; 98]].
  unfold wmem. cbn [existsb]. destruct (zl_eqb w [97; 98]), (zl_eqb w [97; 42]); reflexivity.
Qed.

(* a non-competing wildcard dictionary: {a*, b*c} *)
Definition ex_wild : list op := [AddWord [97; 42]; AddWord [98; 42; 99]].
Example c14_example_wildcard :
  nc_dict (fun w => terminal (root (run ex_wild)) w = true) /\
  contains_text (run ex_wild) [120; 98; 120; 99] = true /\
  contains_text (run ex_wild) [120; 98; 99] = false.
Proof.
  split; [|vm_compute; split; reflexivity].
  intros p c r1 r2 H1 H2.
  destruct (inv_run ex_wild) as [R _].
  apply (rep_terminal _ _ R) in H1. apply (rep_terminal _ _ R) in H2.
  change (spec_run ex_wild) with [[98; 42; 99]; [97; 42]] in H1, H2. unfold star in *. cbn in H1, H2.
  destruct H1 as [H1|[H1|[]]]; destruct H2 as [H2|[H2|[]]];
    repeat (destruct p as [|? p]; cbn in H1, H2; try discriminate);
    inversion H1; inversion H2; subst; try reflexivity; try discriminate; congruence.
Qed.

(* why c14_filter_clean is restricted to literal words: the mask is '*' itself *)
Example c14_filter_clean_needs_literal :
  let t := run [AddWord [42]] in
  terminal (root t) [42] = true /\ filter_text t [97] = [42] /\ occurs [42] (filter_text t [97]).
Proof. repeat split. exists [], []. reflexivity. Qed.
