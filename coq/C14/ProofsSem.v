(* C14 — lemmas, part 2b: what the matcher does on ANY dictionary (wildcards competing with
   literal branches included): from a node it follows, character by character, the exact
   child if there is one and the '*' child otherwise, and stops at the first node that is
   the end of a word. *)
From Coq Require Import ZArith List Bool Lia.
From FV Require Import Generated.Consts C14.Model C14.Spec C14.ProofsDict C14.ProofsMatch.
Import ListNotations.
Open Scope Z_scope.

(* the pattern path w (a path of the trie below n) is the one the matcher follows on the
   text s: each step takes the child labelled with the text's character, or, only when
   there is no such child, the child labelled '*' *)
Fixpoint follows (n : trie) (w s : list Z) : Prop :=
  match w, s with
  | [], _ => True
  | x :: w', c :: s' =>
      exists m, child_get x (children n) = Some m /\
                (x = c \/ (x = star /\ child_get c (children n) = None)) /\
                follows m w' s'
  | _ :: _, [] => False
  end.

(* no proper non-empty prefix of w is a word: the matcher stops at the first terminal *)
Definition no_early (n : trie) (w : list Z) : Prop :=
  forall j, (0 < j < length w)%nat -> terminal n (firstn j w) = false.

Lemma contains_child_follows n c m :
  contains_child n c = Some m <->
  exists x, child_get x (children n) = Some m /\ (x = c \/ (x = star /\ child_get c (children n) = None)).
Proof.
  unfold contains_child. destruct (child_get c (children n)) as [m2|] eqn:Ec.
  - split.
    + intros H; inversion H; subst. exists c. auto.
    + intros [x [Hx [->|[-> H]]]]; [congruence | discriminate].
  - split.
    + intros H. exists star. auto.
    + intros [x [Hx [->|[-> _]]]]; [congruence | exact Hx].
Qed.

Lemma mlen_cons n c s :
  mlen n (c :: s) =
  match contains_child n c with
  | None => None
  | Some m => if is_end m then Some O else option_map S (mlen m s)
  end.
Proof.
  unfold mlen. cbn [starts_loop]. destruct (contains_child n c) as [m|]; [|reflexivity].
  destruct (is_end m); [reflexivity|].
  rewrite (starts_loop_shift s m (0 + 1)) by lia.
  destruct (0 <=? starts_loop m s 0) eqn:E; cbn [option_map].
  - apply Z.leb_le in E. replace (0 <=? 0 + 1 + starts_loop m s 0) with true by (symmetry; apply Z.leb_le; lia).
    f_equal. lia.
  - reflexivity.
Qed.

Lemma mlen_nil n : is_end n = false -> mlen n [] = None.
Proof. intros He. unfold mlen. cbn. rewrite He. reflexivity. Qed.

(* no match begins here iff no followed path is a word *)
Lemma mlen_none_sem s : forall n, is_end n = false ->
  mlen n s = None <-> forall w, w <> [] -> follows n w s -> terminal n w = false.
Proof.
  induction s as [|c s IH]; intros n He.
  - rewrite (mlen_nil n He). split; [|reflexivity]. intros _ w Hne Hf. destruct w; [congruence | contradiction].
  - rewrite mlen_cons. destruct (contains_child n c) as [m|] eqn:Ec.
    + apply contains_child_follows in Ec as [x [Hx Hc]].
      destruct (is_end m) eqn:Em.
      * split; [discriminate|]. intros H. specialize (H [x] ltac:(discriminate)).
        rewrite terminal_cons, Hx, terminal_nil, Em in H. exfalso.
        assert (true = false) by (apply H; cbn; exists m; auto). discriminate.
      * destruct (mlen m s) as [k|] eqn:Ek; cbn [option_map].
        -- split; [discriminate|]. intros H. exfalso.
           assert (Hn : mlen m s <> None) by congruence. apply Hn. apply (IH m Em).
           intros w' Hne' Hf'. specialize (H (x :: w') ltac:(discriminate)).
           rewrite terminal_cons, Hx in H. apply H. cbn. exists m. auto.
        -- split; [intros _ | reflexivity]. intros w Hne Hf.
           destruct w as [|y w']; [congruence|]. cbn in Hf. destruct Hf as [m' [Hy [Hc' Hf']]].
           assert (contains_child n c = Some m') by (apply contains_child_follows; eauto).
           assert (contains_child n c = Some m) by (apply contains_child_follows; eauto).
           assert (m' = m) by congruence. subst m'.
           rewrite terminal_cons, Hy. destruct w' as [|z w'']; [rewrite terminal_nil; exact Em|].
           apply (proj1 (IH m Em) Ek); [discriminate | exact Hf'].
    + split; [intros _ | reflexivity]. intros w Hne Hf.
      destruct w as [|y w']; [congruence|]. cbn in Hf. destruct Hf as [m' [Hy [Hc' Hf']]].
      assert (contains_child n c = Some m') by (apply contains_child_follows; eauto). congruence.
Qed.

(* a match of length k+1 begins here iff the followed path of that length is a word and
   none of its proper prefixes is *)
Lemma mlen_some_sem s : forall n k, is_end n = false ->
  mlen n s = Some k <->
  exists w, length w = S k /\ follows n w s /\ terminal n w = true /\ no_early n w.
Proof.
  induction s as [|c s IH]; intros n k He.
  - rewrite (mlen_nil n He). split; [discriminate|]. intros [w [Hl [Hf _]]]. destruct w; [discriminate | contradiction].
  - rewrite mlen_cons. destruct (contains_child n c) as [m|] eqn:Ec.
    + pose proof Ec as Ec'. apply contains_child_follows in Ec' as [x [Hx Hc]].
      assert (Huniq : forall y m', child_get y (children n) = Some m' ->
                (y = c \/ (y = star /\ child_get c (children n) = None)) -> m' = m).
      { intros y m' Hy Hc'. assert (contains_child n c = Some m') by (apply contains_child_follows; eauto). congruence. }
      destruct (is_end m) eqn:Em.
      * split.
        -- intros H; inversion H; subst. exists [x]. split; [reflexivity|]. split; [cbn; exists m; auto|].
           split; [rewrite terminal_cons, Hx; exact Em|]. intros j Hj. cbn in Hj. lia.
        -- intros [w [Hl [Hf [Ht Hne]]]]. destruct w as [|y w']; [discriminate|].
           cbn in Hf. destruct Hf as [m' [Hy [Hc' Hf']]]. pose proof (Huniq y m' Hy Hc'). subst m'.
           destruct w' as [|z w'']; [cbn in Hl; inversion Hl; reflexivity|]. exfalso.
           specialize (Hne 1%nat ltac:(cbn; lia)). cbn [firstn] in Hne.
           rewrite terminal_cons, Hy, terminal_nil in Hne. congruence.
      * destruct (mlen m s) as [k'|] eqn:Ek; cbn [option_map].
        -- split.
           ++ intros H; inversion H; subst k. destruct (proj1 (IH m k' Em) Ek) as [w' [Hl [Hf [Ht Hne]]]].
              exists (x :: w'). split; [cbn; lia|]. split; [cbn; exists m; auto|].
              split; [rewrite terminal_cons, Hx; exact Ht|].
              intros j Hj. destruct j as [|j]; [lia|]. cbn [firstn]. rewrite terminal_cons, Hx.
              destruct j as [|j]; [cbn [firstn]; rewrite terminal_nil; exact Em|].
              apply Hne. cbn [length] in Hj. lia.
           ++ intros [w [Hl [Hf [Ht Hne]]]]. destruct w as [|y w']; [discriminate|].
              cbn in Hf. destruct Hf as [m' [Hy [Hc' Hf']]]. pose proof (Huniq y m' Hy Hc'). subst m'.
              rewrite terminal_cons, Hy in Ht.
              destruct k as [|k].
              { cbn in Hl. destruct w'; [|discriminate]. rewrite terminal_nil in Ht. congruence. }
              assert (Hk : mlen m s = Some k).
              { apply (IH m k Em). exists w'. split; [cbn in Hl; lia|]. split; [exact Hf'|]. split; [exact Ht|].
                intros j Hj. specialize (Hne (S j) ltac:(cbn [length]; lia)). cbn [firstn] in Hne.
                rewrite terminal_cons, Hy in Hne. exact Hne. }
              congruence.
        -- split; [discriminate|]. intros [w [Hl [Hf [Ht Hne]]]]. exfalso.
           destruct w as [|y w']; [discriminate|].
           cbn in Hf. destruct Hf as [m' [Hy [Hc' Hf']]]. pose proof (Huniq y m' Hy Hc'). subst m'.
           rewrite terminal_cons, Hy in Ht.
           destruct w' as [|z w'']; [rewrite terminal_nil in Ht; congruence|].
           rewrite (proj1 (mlen_none_sem s m Em) Ek (z :: w'') ltac:(discriminate) Hf') in Ht. discriminate.
    + split; [discriminate|]. intros [w [Hl [Hf _]]]. destruct w as [|y w']; [discriminate|].
      cbn in Hf. destruct Hf as [m' [Hy [Hc' Hf']]].
      assert (contains_child n c = Some m') by (apply contains_child_follows; eauto). congruence.
Qed.

(* the followed path is unique: two followed paths of the same length coincide *)
Lemma follows_unique s : forall n w1 w2, follows n w1 s -> follows n w2 s -> length w1 = length w2 -> w1 = w2.
Proof.
  induction s as [|c s IH]; intros n w1 w2 H1 H2 Hl.
  - destruct w1, w2; try reflexivity; try contradiction; discriminate.
  - destruct w1 as [|x1 w1], w2 as [|x2 w2]; try reflexivity; try discriminate.
    cbn in H1, H2. destruct H1 as [m1 [Hx1 [Hc1 Hf1]]]. destruct H2 as [m2 [Hx2 [Hc2 Hf2]]].
    assert (x1 = x2).
    { destruct Hc1 as [->|[-> Hn1]]; destruct Hc2 as [->|[-> Hn2]]; try reflexivity; congruence. }
    subst x2. assert (m1 = m2) by congruence. subst m2. f_equal.
    apply (IH m1); [assumption | assumption | cbn in Hl; lia].
Qed.

(* the leftmost start *)
Lemma first_match_sem r s j k :
  first_match r s = Some (j, k) <->
  (j < length s)%nat /\ mlen r (skipn j s) = Some k /\ forall j', (j' < j)%nat -> mlen r (skipn j' s) = None.
Proof.
  split; [intros H; destruct (first_match_some r s j k H) as [H1 [H2 H3]]; auto|].
  revert j. induction s as [|x s IH]; intros j [Hj [Hm Hn]]; [cbn in Hj; lia|].
  cbn [first_match]. destruct j as [|j].
  - cbn [skipn] in Hm. rewrite Hm. reflexivity.
  - pose proof (Hn O ltac:(lia)) as H0. cbn [skipn] in H0. rewrite H0.
    rewrite (IH j); [reflexivity|]. split; [cbn in Hj; lia|]. split; [exact Hm|].
    intros j' Hj'. apply (Hn (S j')). lia.
Qed.

Lemma starts_loop_some_iff r u pos k : 0 <= pos ->
  starts_loop r u pos = pos + Z.of_nat k <-> mlen r u = Some k.
Proof.
  intros Hpos. rewrite (starts_loop_mlen r u pos Hpos). destruct (mlen r u) as [k'|].
  - split; [intros H; f_equal; lia | intros H; inversion H; reflexivity].
  - split; [lia | discriminate].
Qed.

Lemma starts_loop_none_iff r u pos : 0 <= pos -> starts_loop r u pos = -1 <-> mlen r u = None.
Proof.
  intros Hpos. rewrite (starts_loop_mlen r u pos Hpos). destruct (mlen r u) as [k'|].
  - split; [lia | discriminate].
  - split; reflexivity.
Qed.

Lemma first_match_none_iff r s :
  first_match r s = None <-> forall j, (j < length s)%nat -> mlen r (skipn j s) = None.
Proof.
  split; [apply first_match_none|]. intros H.
  destruct (first_match r s) as [[j k]|] eqn:E; [|reflexivity].
  destruct (first_match_some r s j k E) as [H1 [H2 _]]. rewrite (H j H2) in H1. discriminate.
Qed.

(* find(word, 0): the leftmost position at which a match begins *)
Lemma find_from_sem r s j k :
  find_from r s 0 = (Z.of_nat j, Z.of_nat k + 1) <->
  (j < length s)%nat /\ starts_loop r (skipn j s) 0 = Z.of_nat k /\
  forall j', (j' < j)%nat -> starts_loop r (skipn j' s) 0 = -1.
Proof.
  rewrite find_from_first_match by lia.
  assert (Hs : forall u k0, starts_loop r u 0 = Z.of_nat k0 <-> mlen r u = Some k0)
    by (intros u k0; apply (starts_loop_some_iff r u 0 k0); lia).
  assert (Hn : forall u, starts_loop r u 0 = -1 <-> mlen r u = None)
    by (intros u; apply starts_loop_none_iff; lia).
  rewrite Hs. setoid_rewrite Hn. rewrite <- first_match_sem.
  destruct (first_match r s) as [[j0 k0]|].
  - split; [intros H; inversion H; f_equal; f_equal; lia | intros H; inversion H; reflexivity].
  - split; [intros H; inversion H; lia | discriminate].
Qed.

Lemma find_from_none_sem r s :
  find_from r s 0 = (-1, 0) <-> forall j, (j < length s)%nat -> starts_loop r (skipn j s) 0 = -1.
Proof.
  rewrite find_from_first_match by lia.
  assert (Hn : forall u, starts_loop r u 0 = -1 <-> mlen r u = None)
    by (intros u; apply starts_loop_none_iff; lia).
  setoid_rewrite Hn. rewrite <- first_match_none_iff.
  destruct (first_match r s) as [[j0 k0]|]; split; try reflexivity; try discriminate.
  intros H; inversion H; lia.
Qed.

(* the test `if node.isEnd { return pos }` after the loop of starts() never succeeds: the loop
   is left only at a node that is not the end of a word (the root never is) *)
Fixpoint starts_loop_nocheck (n : trie) (rest : list Z) (pos : Z) : Z :=
  match rest with
  | [] => -1
  | c :: rest' =>
      match contains_child n c with
      | None => -1
      | Some m => if is_end m then pos else starts_loop_nocheck m rest' (pos + 1)
      end
  end.

Lemma after_loop_test_dead rest : forall n pos, is_end n = false ->
  starts_loop n rest pos = starts_loop_nocheck n rest pos.
Proof.
  induction rest as [|c rest IH]; intros n pos He; cbn; [rewrite He; reflexivity|].
  destruct (contains_child n c) as [m|]; [|reflexivity].
  destruct (is_end m) eqn:Em; [reflexivity | apply IH, Em].
Qed.
