(* C14 — lemmas, part 4: the executable reference notions of Spec.v (which Run.v evaluates
   on the implementation's answers) mean what the theorems say, and the model always passes
   them. *)
From Coq Require Import ZArith List Bool Lia.
From FV Require Import Generated.Consts C14.Model C14.Spec C14.ProofsDict C14.ProofsMatch C14.ProofsSem C14.ProofsWild.
Import ListNotations.
Open Scope Z_scope.

Lemma prefix_b_literal w : forall s, prefix_b false w s = true <-> exists r, s = w ++ r.
Proof.
  induction w as [|x w IH]; intros s; cbn.
  - split; [intros _; exists s; reflexivity | reflexivity].
  - destruct s as [|y s]; [split; [discriminate | intros [r H]; discriminate]|].
    rewrite ?andb_false_l, ?orb_false_r, andb_true_iff, IH, Z.eqb_eq. split.
    + intros [-> [r ->]]. exists r. reflexivity.
    + intros [r H]. inversion H. eauto.
Qed.

Lemma occurs_b_literal w : forall s, occurs_b false w s = true <-> occurs w s.
Proof.
  induction s as [|y s IH]; cbn [occurs_b]; rewrite orb_true_iff, prefix_b_literal.
  - split.
    + intros [[r H]|H]; [|discriminate]. exists [], r. exact H.
    + intros [a [b H]]. left. destruct a; [|discriminate]. exists b. exact H.
  - rewrite IH. split.
    + intros [[r H]|[a [b H]]]; [exists [], r; exact H|]. exists (y :: a), b. rewrite H. reflexivity.
    + intros [a [b H]]. destruct a as [|z a]; [left; exists b; exact H|].
      right. inversion H. exists a, b. reflexivity.
Qed.

Lemma prefix_b_pattern w : forall s, prefix_b true w s = true <-> exists s1 r, s = s1 ++ r /\ pmatch w s1.
Proof.
  induction w as [|x w IH]; intros s; cbn.
  - split; [intros _; exists [], s; split; [reflexivity | constructor] | reflexivity].
  - destruct s as [|y s].
    + split; [discriminate|]. intros [s1 [r [H Hm]]]. inversion Hm; subst. discriminate.
    + rewrite ?andb_true_l, andb_true_iff, IH, orb_true_iff, !Z.eqb_eq. split.
      * intros [Hx [s1 [r [-> Hm]]]]. exists (y :: s1), r. split; [reflexivity|].
        constructor; [tauto | assumption].
      * intros [s1 [r [H Hm]]]. inversion Hm as [|x0 c w0 s1' Hx Hm' E1 E2]; subst.
        inversion H; subst. split; [tauto|]. eauto.
Qed.

Lemma occurs_b_pattern w : forall s,
  occurs_b true w s = true <-> exists a s1 b, s = a ++ s1 ++ b /\ pmatch w s1.
Proof.
  induction s as [|y s IH]; cbn [occurs_b]; rewrite orb_true_iff, prefix_b_pattern.
  - split.
    + intros [[s1 [r [H Hm]]]|H]; [|discriminate]. exists [], s1, r. auto.
    + intros [a [s1 [b [H Hm]]]]. left. destruct a; [|discriminate]. exists s1, b. auto.
  - rewrite IH. split.
    + intros [[s1 [r [H Hm]]]|[a [s1 [b [H Hm]]]]]; [exists [], s1, r; auto|].
      exists (y :: a), s1, b. rewrite H. auto.
    + intros [a [s1 [b [H Hm]]]]. destruct a as [|z a]; [left; exists s1, b; auto|].
      right. inversion H. exists a, s1, b. auto.
Qed.

Lemma literal_word_sound w : literal_word w = true <-> ~ In star w.
Proof.
  unfold literal_word, zmem. rewrite negb_true_iff. split.
  - intros H Hin. assert (existsb (Z.eqb star) w = true) by (apply existsb_exists; exists star; split; [assumption | apply Z.eqb_refl]). congruence.
  - intros H. destruct (existsb (Z.eqb star) w) eqn:E; [|reflexivity].
    apply existsb_exists in E as [x [Hin Hx]]. apply Z.eqb_eq in Hx. subst. contradiction.
Qed.

Lemma compat_sound p : forall c r1 r2, compat (p ++ star :: r1) (p ++ c :: r2) = true -> c = star.
Proof.
  induction p as [|x p IH]; intros c r1 r2; cbn [app compat].
  - destruct (Z.eqb_spec star c) as [<-|Hne]; [reflexivity|].
    rewrite Z.eqb_refl. discriminate.
  - rewrite Z.eqb_refl. apply IH.
Qed.

Lemma noncompeting_sound d : noncompeting d = true -> nc_dict (fun w => In w d).
Proof.
  unfold noncompeting. rewrite forallb_forall. intros H p c r1 r2 H1 H2.
  specialize (H _ H1). rewrite forallb_forall in H. specialize (H _ H2).
  apply (compat_sound p c r1 r2 H).
Qed.

(* ---------- the model passes the checks Run.v applies to the implementation ---------- *)

Lemma existsb_iff {A} (f : A -> bool) l (P : Prop) :
  (existsb f l = true <-> P) -> forall b, (b = true <-> P) -> b = existsb f l.
Proof. intros H1 b H2. destruct b, (existsb f l); try reflexivity; exfalso; intuition congruence. Qed.

Lemma model_remove ops w : snd (remove w (run ops)) = wmem w (spec_run ops).
Proof.
  pose proof (remove_reports w _ _ (inv_run ops)) as H. rewrite <- wmem_In in H.
  destruct (snd (remove w (run ops))), (wmem w (spec_run ops)); try reflexivity; exfalso; intuition congruence.
Qed.

Lemma model_count ops : size (run ops) = Z.of_nat (length (spec_run ops)).
Proof. destruct (inv_run ops) as [R _]. apply (rep_size _ _ R). Qed.

Lemma model_probe ops w : terminal (root (run ops)) w = wmem w (spec_run ops).
Proof.
  destruct (inv_run ops) as [R _]. pose proof (rep_terminal _ _ R w) as H. rewrite <- wmem_In in H.
  destruct (terminal (root (run ops)) w), (wmem w (spec_run ops)); try reflexivity; exfalso; intuition congruence.
Qed.

Lemma literal_spec_run ops : forallb literal_word (spec_run ops) = true ->
  literal (root (run ops)).
Proof.
  intros H p Hp Hin. destruct (inv_run ops) as [R _].
  destruct p as [|x p]; [contradiction|].
  destruct (rep_pruned _ _ R (x :: p) ltac:(discriminate) Hp) as [q Hq].
  apply (rep_terminal _ _ R) in Hq. rewrite forallb_forall in H. specialize (H _ Hq).
  apply literal_word_sound in H. apply H. apply in_app_iff. left. exact Hin.
Qed.

Lemma root_not_end ops : is_end (root (run ops)) = false.
Proof. destruct (inv_run ops) as [R Hn]. exact (rep_root_not_end _ _ R Hn). Qed.

(* sentence 5 as Run.v evaluates it *)
Lemma model_contains_literal ops s : forallb literal_word (spec_run ops) = true ->
  contains_text (run ops) s = existsb (fun w => occurs_b false w s) (spec_run ops).
Proof.
  intros Hl. destruct (inv_run ops) as [R Hn].
  apply (existsb_iff _ _ (exists w, In w (spec_run ops) /\ occurs w s)).
  - rewrite existsb_exists. split; intros [w [H1 H2]]; exists w; (split; [assumption|]); apply occurs_b_literal; assumption.
  - rewrite (contains_literal _ s (literal_spec_run ops Hl) (root_not_end ops)).
    split; intros [w H]; exists w.
    + destruct H as [H1 [_ H2]]. split; [apply (rep_terminal _ _ R); exact H1 | exact H2].
    + destruct H as [H1 H2]. split; [apply (rep_terminal _ _ R); exact H1|]. split; [|exact H2].
      intros ->. contradiction.
Qed.

(* sentence 9 as Run.v evaluates it *)
Lemma model_contains_wild ops s : noncompeting (spec_run ops) = true ->
  contains_text (run ops) s = existsb (fun w => occurs_b true w s) (spec_run ops).
Proof.
  intros Hc. destruct (inv_run ops) as [R Hn].
  apply (existsb_iff _ _ (exists w, In w (spec_run ops) /\ exists a s1 b, s = a ++ s1 ++ b /\ pmatch w s1)).
  - rewrite existsb_exists. split; intros [w [H1 H2]]; exists w; (split; [assumption|]); apply occurs_b_pattern; assumption.
  - assert (Hnc : nc (root (run ops))).
    { apply nc_of_dict; [exact (rep_pruned _ _ R)|].
      intros p c r1 r2 H1 H2. apply (rep_terminal _ _ R) in H1. apply (rep_terminal _ _ R) in H2.
      apply (noncompeting_sound _ Hc p c r1 r2 H1 H2). }
    rewrite (contains_wild _ s Hnc (root_not_end ops)). split.
    + intros [w [a [s1 [b [H1 [H2 H3]]]]]]. exists w. split; [apply (rep_terminal _ _ R); exact H2|]. eauto.
    + intros [w [H1 [a [s1 [b [H2 H3]]]]]]. exists w, a, s1, b. split; [exact H2|]. split; [|exact H3].
      apply (rep_terminal _ _ R). exact H1.
Qed.

(* sentences 6 and 8 as Run.v evaluates them *)
Lemma model_filter_length ops s : Nat.eqb (length (filter_text (run ops) s)) (length s) = true.
Proof. apply Nat.eqb_eq. rewrite (filter_text_filt _ s (root_not_end ops)). apply filt_length. Qed.

Lemma model_filter_clean ops s : forallb literal_word (spec_run ops) = true ->
  existsb (fun w => occurs_b false w (filter_text (run ops) s)) (spec_run ops) = false.
Proof.
  intros Hl. destruct (inv_run ops) as [R Hn].
  destruct (existsb _ (spec_run ops)) eqn:E; [|reflexivity]. exfalso.
  apply existsb_exists in E as [w [Hin Hocc]]. apply occurs_b_literal in Hocc.
  revert Hocc. apply filter_clean; [apply literal_spec_run, Hl | apply root_not_end | apply (rep_terminal _ _ R); exact Hin|].
  rewrite forallb_forall in Hl. apply literal_word_sound. apply Hl. exact Hin.
Qed.

(* ---------- sentence 7: characters outside every occurrence are kept ---------- *)

Definition lstep (s : list Z) (m : nat) (w : list Z) : nat :=
  if prefix_b false w s then Nat.max m (length w) else m.

Lemma longest_fold s : forall d m,
  let r := fold_left (lstep s) d m in
  (m <= r)%nat /\
  (forall w, In w d -> prefix_b false w s = true -> (length w <= r)%nat) /\
  (r = m \/ exists w, In w d /\ prefix_b false w s = true /\ length w = r).
Proof.
  induction d as [|v d IH]; intros m; cbn [fold_left].
  - cbv zeta. split; [lia|]. split; [intros w []|]. left. reflexivity.
  - specialize (IH (lstep s m v)). cbv zeta in *. destruct IH as [H1 [H2 H3]].
    assert (Hm : (m <= lstep s m v)%nat) by (unfold lstep; destruct (prefix_b false v s); lia).
    split; [lia|]. split.
    + intros w [->|Hin] Hp; [|apply H2; assumption].
      assert (length w <= lstep s m w)%nat by (unfold lstep; rewrite Hp; lia). lia.
    + destruct H3 as [H3|[w [Hin [Hp Hl]]]].
      * destruct (prefix_b false v s) eqn:Ev.
        -- assert (El : lstep s m v = Nat.max m (length v)) by (unfold lstep; rewrite Ev; reflexivity).
           rewrite El in *. destruct (Nat.max_spec m (length v)) as [[_ E]|[_ E]].
           ++ right. exists v. split; [left; reflexivity|]. split; [exact Ev | lia].
           ++ left. lia.
        -- assert (El : lstep s m v = m) by (unfold lstep; rewrite Ev; reflexivity).
           rewrite El in *. left. exact H3.
      * right. exists w. split; [right; exact Hin | auto].
Qed.

Lemma longest_ge d s w : In w d -> prefix_b false w s = true -> (length w <= longest d s)%nat.
Proof. intros Hin Hp. destruct (longest_fold s d O) as [_ [H _]]. apply H; assumption. Qed.

Lemma longest_attained d s : (0 < longest d s)%nat ->
  exists w, In w d /\ prefix_b false w s = true /\ length w = longest d s.
Proof.
  intros Hpos. destruct (longest_fold s d O) as [_ [_ [H|H]]]; [|exact H].
  unfold longest, lstep in *. lia.
Qed.

Lemma cover_length d s : forall m, length (cover d m s) = length s.
Proof. induction s as [|c s IH]; intros m; cbn; [reflexivity | rewrite IH; reflexivity]. Qed.

Lemma cover_sound d : forall s m i, nth i (cover d m s) false = true ->
  (i < m)%nat \/ exists j w, (j <= i)%nat /\ In w d /\ prefix_b false w (skipn j s) = true /\ (i < j + length w)%nat.
Proof.
  induction s as [|c s IH]; intros m i H; [destruct i; discriminate|].
  cbn [cover] in H. set (m' := Nat.max m (longest d (c :: s))) in *.
  assert (Hm' : forall i0, (i0 < m')%nat -> (i0 < m)%nat \/
            exists j w, (j <= i0)%nat /\ In w d /\ prefix_b false w (skipn j (c :: s)) = true /\ (i0 < j + length w)%nat).
  { intros i0 Hi0. destruct (Nat.lt_ge_cases i0 m) as [Hlt|Hge]; [left; exact Hlt|]. right.
    assert (Hl : (i0 < longest d (c :: s))%nat) by (unfold m' in Hi0; lia).
    destruct (longest_attained d (c :: s) ltac:(lia)) as [w [Hin [Hp Hlen]]].
    exists O, w. cbn [skipn]. repeat split; [lia | exact Hin | exact Hp | lia]. }
  destruct i as [|i].
  - cbn [nth] in H. apply negb_true_iff, Nat.eqb_neq in H. apply Hm'. lia.
  - cbn [nth] in H. apply IH in H as [H|[j [w [H1 [H2 [H3 H4]]]]]].
    + apply Hm'. lia.
    + right. exists (S j), w. cbn [skipn]. repeat split; [lia | exact H2 | exact H3 | lia].
Qed.

Lemma kept_outside_sound : forall s f cov, kept_outside s f cov = true ->
  length f = length s /\
  forall i, (i < length s)%nat ->
    nth i f 0 = nth i s 0 \/ (nth i cov false = true /\ nth i f 0 = mask).
Proof.
  induction s as [|x s IH]; intros f cov H.
  - destruct f, cov; try discriminate. split; [reflexivity|]. intros i Hi. cbn in Hi. lia.
  - destruct f as [|y f]; [discriminate|]. destruct cov as [|c cov]; [discriminate|].
    cbn [kept_outside] in H. apply andb_true_iff in H as [H1 H2].
    destruct (IH f cov H2) as [Hl Hn]. split; [cbn; rewrite Hl; reflexivity|].
    intros [|i] Hi; cbn [nth].
    + apply orb_true_iff in H1 as [H1|H1].
      * left. apply Z.eqb_eq in H1. auto.
      * apply andb_true_iff in H1 as [Hc Hy]. apply Z.eqb_eq in Hy. right. auto.
    + apply Hn. cbn in Hi. lia.
Qed.

(* what Run.v's check of sentence 7 means *)
Lemma kept_outside_meaning d s f : kept_outside s f (cover d O s) = true ->
  forall i, (i < length s)%nat ->
    nth i f 0 = nth i s 0 \/
    (nth i f 0 = mask /\ exists a w b, s = a ++ w ++ b /\ In w d /\ (length a <= i < length a + length w)%nat).
Proof.
  intros H i Hi. destruct (kept_outside_sound _ _ _ H) as [_ Hn].
  destruct (Hn i Hi) as [E|[Hc E]]; [left; exact E|]. right. split; [exact E|].
  apply cover_sound in Hc as [Hc|[j [w [H1 [H2 [H3 H4]]]]]]; [lia|].
  apply prefix_b_literal in H3 as [b Hb].
  destruct (skipn_split j s ltac:(lia)) as [a [Ha Hla]].
  exists a, w, b. split; [rewrite Ha at 1; rewrite Hb; reflexivity|]. split; [exact H2 | lia].
Qed.

(* the model passes it *)
Lemma filt_kept_outside r d : (forall u k, mlen r u = Some k -> (S k <= longest d u)%nat) ->
  forall s m m2, (m <= m2)%nat -> kept_outside s (filt r m s) (cover d m2 s) = true.
Proof.
  intros Hml. induction s as [|c s IH]; intros m m2 Hm; [reflexivity|].
  cbn [filt cover]. set (m' := Nat.max m2 (longest d (c :: s))).
  destruct m as [|m].
  - destruct (mlen r (c :: s)) as [k|] eqn:E.
    + pose proof (Hml _ _ E) as Hk. cbn [kept_outside].
      assert (Nat.eqb m' 0 = false) as -> by (apply Nat.eqb_neq; unfold m'; lia).
      cbn [negb andb]. rewrite Z.eqb_refl, orb_true_r. cbn [andb]. apply IH. unfold m'. lia.
    + cbn [kept_outside]. rewrite Z.eqb_refl. cbn [orb andb]. apply IH. lia.
  - cbn [kept_outside].
    assert (Nat.eqb m' 0 = false) as -> by (apply Nat.eqb_neq; unfold m'; lia).
    cbn [negb andb]. rewrite Z.eqb_refl, orb_true_r. cbn [andb]. apply IH. unfold m'. lia.
Qed.

Lemma model_filter_outside ops s : forallb literal_word (spec_run ops) = true ->
  kept_outside s (filter_text (run ops) s) (cover (spec_run ops) O s) = true.
Proof.
  intros Hl. destruct (inv_run ops) as [R Hn].
  rewrite (filter_text_filt _ s (root_not_end ops)). apply filt_kept_outside; [|lia].
  intros u k E. rewrite (mlen_literal _ _ (literal_spec_run ops Hl) (root_not_end ops)) in E.
  destruct (spec_starts_some _ _ _ E) as [w [b [Hu [Hlen Hw]]]]. rewrite <- Hlen.
  apply longest_ge; [apply (rep_terminal _ _ R); exact Hw|]. apply prefix_b_literal. exists b. exact Hu.
Qed.

Lemma model_probe_rep t d w : rep t d -> terminal (root t) w = wmem w d.
Proof.
  intros R. pose proof (rep_terminal _ _ R w) as H. rewrite <- wmem_In in H.
  destruct (terminal (root t) w), (wmem w d); try reflexivity; exfalso; intuition congruence.
Qed.

(* ---------- the general reference matcher (any dictionary) ---------- *)

Lemma walk_snoc p : forall n c,
  walk n (p ++ [c]) = match walk n p with Some m => child_get c (children m) | None => None end.
Proof.
  induction p as [|x p IH]; intros n c; cbn [app walk].
  - destruct (child_get c (children n)); reflexivity.
  - destruct (child_get x (children n)) as [m|]; [apply IH | reflexivity].
Qed.

Lemma has_prefix_path t d q : rep t d -> q <> [] ->
  has_prefix d q = has_path (root t) q.
Proof.
  intros R Hq. destruct (has_path (root t) q) eqn:Hp.
  - destruct (rep_pruned _ _ R q Hq Hp) as [r Hr]. apply (rep_terminal _ _ R) in Hr.
    unfold has_prefix. apply existsb_exists. exists (q ++ r). split; [exact Hr|].
    apply prefix_b_literal. exists r. reflexivity.
  - destruct (has_prefix d q) eqn:E; [|reflexivity]. unfold has_prefix in E.
    apply existsb_exists in E as [w [Hin Hpre]]. apply prefix_b_literal in Hpre as [r ->].
    apply (rep_terminal _ _ R) in Hin. apply terminal_has_path, has_path_app in Hin. congruence.
Qed.

Lemma ref_mlen_model t d : rep t d -> forall s p n,
  walk (root t) p = Some n -> is_end n = false ->
  ref_mlen d p s = mlen n s.
Proof.
  intros R. induction s as [|c s IH]; intros p n Hw He.
  - rewrite (mlen_nil n He). reflexivity.
  - cbn [ref_mlen]. rewrite mlen_cons.
    assert (Hstep : forall x, has_prefix d (p ++ [x]) = match child_get x (children n) with Some _ => true | None => false end).
    { intros x. rewrite (has_prefix_path t d (p ++ [x]) R) by (destruct p; discriminate).
      unfold has_path. rewrite walk_snoc, Hw. reflexivity. }
    assert (Hend : forall x m, child_get x (children n) = Some m ->
              walk (root t) (p ++ [x]) = Some m /\ wmem (p ++ [x]) d = is_end m).
    { intros x m Hx. assert (Hwx : walk (root t) (p ++ [x]) = Some m) by (rewrite walk_snoc, Hw; exact Hx).
      split; [exact Hwx|]. rewrite <- (model_probe_rep t d (p ++ [x]) R). unfold terminal. rewrite Hwx. reflexivity. }
    unfold contains_child. rewrite !Hstep.
    destruct (child_get c (children n)) as [m|] eqn:Ec.
    + destruct (Hend c m Ec) as [Hwm Hem]. rewrite Hem. destruct (is_end m) eqn:Em; [reflexivity|].
      rewrite (IH (p ++ [c]) m Hwm Em). reflexivity.
    + destruct (child_get star (children n)) as [m|] eqn:Es; [|reflexivity].
      destruct (Hend star m Es) as [Hwm Hem]. rewrite Hem. destruct (is_end m) eqn:Em; [reflexivity|].
      rewrite (IH (p ++ [star]) m Hwm Em). reflexivity.
Qed.

Lemma ref_walk_model t d : rep t d -> forall s p n,
  walk (root t) p = Some n -> is_end n = false ->
  ref_walk d p s = match mlen n s with Some _ => true | None => false end.
Proof. intros R s p n Hw He. unfold ref_walk. rewrite (ref_mlen_model t d R s p n Hw He). reflexivity. Qed.

Lemma model_contains_general ops s : contains_text (run ops) s = ref_contains (spec_run ops) s.
Proof.
  destruct (inv_run ops) as [R Hn]. rewrite contains_text_first_match.
  pose proof (root_not_end ops) as He.
  induction s as [|x s IH]; [reflexivity|].
  cbn [first_match ref_contains].
  rewrite (ref_walk_model _ _ R (x :: s) [] (root (run ops)) eq_refl He).
  destruct (mlen (root (run ops)) (x :: s)); [reflexivity|]. cbn [orb]. rewrite <- IH.
  destruct (first_match (root (run ops)) s) as [[j k]|]; reflexivity.
Qed.

(* ---------- on EVERY dictionary matching is a function of the word set ---------- *)

Lemma has_prefix_iff d p : has_prefix d p = true <-> exists w, In w d /\ exists r, w = p ++ r.
Proof.
  unfold has_prefix. rewrite existsb_exists. split; intros [w [Hin H]]; exists w; (split; [exact Hin|]);
    apply prefix_b_literal; exact H.
Qed.

Lemma bool_eq_iff (a b : bool) : (a = true <-> b = true) -> a = b.
Proof. destruct a, b; intros [H1 H2]; try reflexivity; [symmetry; apply H1; reflexivity | apply H2; reflexivity]. Qed.

Lemma ref_mlen_ext d1 d2 : (forall w, In w d1 <-> In w d2) -> forall s p, ref_mlen d1 p s = ref_mlen d2 p s.
Proof.
  intros H.
  assert (Hp : forall p, has_prefix d1 p = has_prefix d2 p).
  { intros p. apply bool_eq_iff. rewrite !has_prefix_iff. split; intros [w [Hin Hr]]; exists w; (split; [apply H; exact Hin | exact Hr]). }
  assert (Hm : forall w, wmem w d1 = wmem w d2).
  { intros w. apply bool_eq_iff. rewrite !wmem_In. apply H. }
  induction s as [|c s IH]; intros p; [reflexivity|]. cbn [ref_mlen]. rewrite !Hp.
  destruct (has_prefix d2 (p ++ [c])); [rewrite Hm, IH; reflexivity|].
  destruct (has_prefix d2 (p ++ [star])); [rewrite Hm, IH; reflexivity | reflexivity].
Qed.

Lemma mlen_depends_on_words ops1 ops2 :
  (forall w, terminal (root (run ops1)) w = terminal (root (run ops2)) w) ->
  forall u, mlen (root (run ops1)) u = mlen (root (run ops2)) u.
Proof.
  intros H u. destruct (inv_run ops1) as [R1 _]. destruct (inv_run ops2) as [R2 _].
  rewrite <- (ref_mlen_model _ _ R1 u [] _ eq_refl (root_not_end ops1)).
  rewrite <- (ref_mlen_model _ _ R2 u [] _ eq_refl (root_not_end ops2)).
  apply ref_mlen_ext. intros w. rewrite <- (rep_terminal _ _ R1), <- (rep_terminal _ _ R2), H. tauto.
Qed.

Lemma matching_depends_on_words_general ops1 ops2 :
  (forall w, terminal (root (run ops1)) w = terminal (root (run ops2)) w) ->
  forall s, contains_text (run ops1) s = contains_text (run ops2) s /\
            filter_text (run ops1) s = filter_text (run ops2) s /\
            exact_match (run ops1) s = exact_match (run ops2) s.
Proof.
  intros H s. pose proof (mlen_depends_on_words ops1 ops2 H) as Hm. repeat split.
  - rewrite !contains_text_first_match, (first_match_ext _ _ s Hm). reflexivity.
  - rewrite !filter_text_filt by apply root_not_end. apply filt_ext, Hm.
  - unfold exact_match. destruct s as [|x s]; [reflexivity|].
    rewrite !(starts_loop_mlen _ _ 0) by lia. rewrite Hm. reflexivity.
Qed.

(* a dictionary all of whose CURRENT words are literal has a literal trie, whatever was added
   and removed before (pruning leaves no trace of removed words) *)
Lemma literal_of_words ops :
  (forall w, terminal (root (run ops)) w = true -> ~ In star w) -> literal (root (run ops)).
Proof.
  intros H p Hp Hin. destruct (inv_run ops) as [R _].
  destruct p as [|x p]; [contradiction|].
  destruct (rep_pruned _ _ R (x :: p) ltac:(discriminate) Hp) as [q Hq].
  apply (H _ Hq). apply in_app_iff. left. exact Hin.
Qed.
