(* C14 — lemmas. *)
From Coq Require Import ZArith List Bool Lia.
From FV Require Import C14.Model.
Import ListNotations.
Open Scope Z_scope.

Lemma add_empty t : add_word [] t = t.
Proof. reflexivity. Qed.
