(* C14 — the word-filter dictionary (collections/trie/hashtrie.go).
   Executable model; nothing is proved in this file.

   A trieNode is `Node isEnd children`; the Go map `children map[rune]*trieNode` is an
   association list accessed only through child_get / child_set / child_del (get finds the
   first entry, set replaces it in place or appends, del removes every entry with the key),
   so it behaves as a finite map whatever its order.  All traversals of the code are loops
   or recursions over the word / the text, and so are the functions below.  Words and texts
   are lists of runes ([]rune(s)); a sub-slice word[pos:] is represented by the suffix
   itself, carried along with the absolute position `pos`. *)
From Coq Require Import ZArith List Bool.
From FV Require Import Generated.Consts.
Import ListNotations.
Open Scope Z_scope.

Inductive trie : Type := Node (e : bool) (ch : list (Z * trie)).

Definition is_end (n : trie) : bool := match n with Node e _ => e end.
Definition children (n : trie) : list (Z * trie) := match n with Node _ ch => ch end.

Definition star : Z := collections_trie_WildCardStar.
(* the character Filter writes over a match: strings.Repeat("*", n) *)
Definition mask : Z := 42.

(* Go's string -> rune conversion (`for _, ch := range s`, `[]rune(s)`): UTF-8 decoding as
   unicode/utf8 does it — a byte that does not start a valid, shortest-form encoding of a
   scalar value yields U+FFFD and is skipped alone. *)
Definition rune_error : Z := 65533.
Definition in_range (lo hi b : Z) : bool := (lo <=? b) && (b <=? hi).

(* first rune of b and the number of bytes it takes *)
Definition decode_rune (b : list Z) : Z * nat :=
  match b with
  | [] => (rune_error, 1%nat)
  | b0 :: r =>
      if b0 <? 128 then (b0, 1%nat)
      else if in_range 194 223 b0 then
        match r with
        | b1 :: _ => if in_range 128 191 b1 then ((b0 - 192) * 64 + (b1 - 128), 2%nat)
                     else (rune_error, 1%nat)
        | _ => (rune_error, 1%nat)
        end
      else if in_range 224 239 b0 then
        let lo := if b0 =? 224 then 160 else 128 in
        let hi := if b0 =? 237 then 159 else 191 in
        match r with
        | b1 :: b2 :: _ =>
            if in_range lo hi b1 && in_range 128 191 b2
            then ((b0 - 224) * 4096 + (b1 - 128) * 64 + (b2 - 128), 3%nat)
            else (rune_error, 1%nat)
        | _ => (rune_error, 1%nat)
        end
      else if in_range 240 244 b0 then
        let lo := if b0 =? 240 then 144 else 128 in
        let hi := if b0 =? 244 then 143 else 191 in
        match r with
        | b1 :: b2 :: b3 :: _ =>
            if in_range lo hi b1 && in_range 128 191 b2 && in_range 128 191 b3
            then ((b0 - 240) * 262144 + (b1 - 128) * 4096 + (b2 - 128) * 64 + (b3 - 128), 4%nat)
            else (rune_error, 1%nat)
        | _ => (rune_error, 1%nat)
        end
      else (rune_error, 1%nat)
  end.

Fixpoint runes_loop (fuel : nat) (b : list Z) : list Z :=
  match fuel, b with
  | _, [] => []
  | O, _ => []
  | S f, _ => let '(r, w) := decode_rune b in r :: runes_loop f (skipn w b)
  end.
Definition runes_of_bytes (b : list Z) : list Z := runes_loop (length b) b.

Fixpoint child_get (c : Z) (l : list (Z * trie)) : option trie :=
  match l with
  | [] => None
  | (d, t) :: r => if c =? d then Some t else child_get c r
  end.

Fixpoint child_set (c : Z) (t : trie) (l : list (Z * trie)) : list (Z * trie) :=
  match l with
  | [] => [(c, t)]
  | (d, u) :: r => if c =? d then (c, t) :: r else (d, u) :: child_set c t r
  end.

Definition child_del (c : Z) (l : list (Z * trie)) : list (Z * trie) :=
  filter (fun e => negb (c =? fst e)) l.

Definition no_children (n : trie) : bool :=
  match children n with [] => true | _ => false end.

(* newTrieNode() *)
Definition new_node : trie := Node false [].

(* (n *trieNode) contains(r): the exact child, else the wildcard child *)
Definition contains_child (n : trie) (r : Z) : option trie :=
  match child_get r (children n) with
  | Some c => Some c
  | None => child_get star (children n)
  end.

(* descend through exact children only *)
Fixpoint walk (n : trie) (w : list Z) : option trie :=
  match w with
  | [] => Some n
  | c :: w' => match child_get c (children n) with
               | Some m => walk m w'
               | None => None
               end
  end.

(* the node reached by `word` is marked as the end of a word *)
Definition terminal (n : trie) (w : list Z) : bool :=
  match walk n w with Some m => is_end m | None => false end.

(* AddWord's loop: create missing nodes along the word, mark the last one *)
Fixpoint insert (w : list Z) (n : trie) : trie :=
  match w with
  | [] => Node true (children n)
  | c :: w' =>
      let m := match child_get c (children n) with Some m => m | None => new_node end in
      Node (is_end n) (child_set c (insert w' m) (children n))
  end.

(* remove(node, word, depth): Some n' = the word was found below `node` (which becomes
   n'), None = not found, nothing changed.  Exact children only; the terminal mark is
   cleared; on the way back a child that is neither terminal nor has children is deleted
   from its parent's map. *)
Fixpoint remove_rec (w : list Z) (n : trie) : option trie :=
  match w with
  | [] => if is_end n then Some (Node false (children n)) else None
  | c :: w' =>
      match child_get c (children n) with
      | None => None
      | Some m =>
          match remove_rec w' m with
          | None => None
          | Some m' =>
              Some (Node (is_end n)
                         (if negb (is_end m') && no_children m'
                          then child_del c (children n)
                          else child_set c m' (children n)))
          end
      end
  end.

Record hashtrie := mkTrie { root : trie; size : Z }.

Definition empty : hashtrie := mkTrie new_node 0.

(* AddWord *)
Definition add_word (w : list Z) (t : hashtrie) : hashtrie :=
  match w with
  | [] => t
  | _ => mkTrie (insert w (root t))
                (if terminal (root t) w then size t else size t + 1)
  end.

(* Remove *)
Definition remove (w : list Z) (t : hashtrie) : hashtrie * bool :=
  match remove_rec w (root t) with
  | Some r => (mkTrie r (size t - 1), true)
  | None => (t, false)
  end.

(* Reset *)
Definition reset (t : hashtrie) : hashtrie := mkTrie (Node false []) 0.

(* starts(word, pos), the loop: `rest` = word[pos:] *)
Fixpoint starts_loop (n : trie) (rest : list Z) (pos : Z) : Z :=
  match rest with
  | [] => if is_end n then pos else -1
  | c :: rest' =>
      match contains_child n c with
      | None => -1
      | Some m => if is_end m then pos else starts_loop m rest' (pos + 1)
      end
  end.

(* find(word, pos): `rest` = word[i:] *)
Fixpoint find_from (r : trie) (rest : list Z) (i : Z) : Z * Z :=
  match rest with
  | [] => (-1, 0)
  | _ :: rest' =>
      let idx := starts_loop r rest i in
      if 0 <=? idx then (i, idx - i + 1) else find_from r rest' (i + 1)
  end.

(* ExactMatch *)
Definition exact_match (t : hashtrie) (word : list Z) : bool :=
  match word with
  | [] => false
  | _ => starts_loop (root t) word 0 + 1 =? Z.of_nat (length word)
  end.

(* Contains *)
Definition contains_text (t : hashtrie) (word : list Z) : bool :=
  let '(i, n) := find_from (root t) word 0 in (0 <=? i) && (0 <? n).

(* Filter's loop: `rest` = runes[start:], sb = what has been written so far.  Every found
   match advances `start` by at least one rune, so length+1 iterations suffice. *)
Fixpoint filter_loop (fuel : nat) (r : trie) (word rest : list Z) (start : Z) (sb : list Z) : list Z :=
  match fuel with
  | O => sb ++ rest
  | S f =>
      match rest with
      | [] => sb
      | _ =>
          let '(pos, n) := find_from r rest start in
          if pos <? 0 then (if start =? 0 then word else sb ++ rest)
          else
            filter_loop f r word (skipn (Z.to_nat (pos + n - start)) rest) (pos + n)
                        (sb ++ firstn (Z.to_nat (pos - start)) rest
                            ++ (if 0 <? n then repeat mask (Z.to_nat n) else []))
      end
  end.

Definition filter_text (t : hashtrie) (word : list Z) : list Z :=
  match word with
  | [] => []
  | _ => filter_loop (S (length word)) (root t) word word 0 []
  end.

(* histories *)
Inductive op := AddWord (w : list Z) | RemoveWord (w : list Z) | Reset.

Definition step (t : hashtrie) (o : op) : hashtrie :=
  match o with
  | AddWord w => add_word w t
  | RemoveWord w => fst (remove w t)
  | Reset => reset t
  end.

Definition run (ops : list op) : hashtrie := fold_left step ops empty.
