(* C14 — lemmas, part 1: the dictionary is the set of words added and not since removed. *)
From Coq Require Import ZArith List Bool Lia.
From FV Require Import Generated.Consts C14.Model C14.Spec.
Import ListNotations.
Open Scope Z_scope.

(* ---------- the children map obeys the finite-map laws ---------- *)

Lemma child_get_set c d t l :
  child_get d (child_set c t l) = if d =? c then Some t else child_get d l.
Proof.
  induction l as [|[k u] l IH]; cbn.
  - destruct (d =? c); reflexivity.
  - destruct (Z.eqb_spec c k) as [->|Hck]; cbn.
    + destruct (d =? k); reflexivity.
    + destruct (Z.eqb_spec d k) as [->|Hdk].
      * destruct (Z.eqb_spec k c); [congruence | reflexivity].
      * apply IH.
Qed.

Lemma child_get_del c d l :
  child_get d (child_del c l) = if d =? c then None else child_get d l.
Proof.
  unfold child_del. induction l as [|[k u] l IH]; cbn.
  - destruct (d =? c); reflexivity.
  - destruct (Z.eqb_spec c k) as [->|Hck]; cbn.
    + rewrite IH. destruct (Z.eqb_spec d k); reflexivity.
    + rewrite IH. destruct (Z.eqb_spec d k) as [->|Hdk]; [|reflexivity].
      destruct (Z.eqb_spec k c); [congruence | reflexivity].
Qed.

(* ---------- paths and terminal marks ---------- *)

Definition has_path (n : trie) (p : list Z) : bool :=
  match walk n p with Some _ => true | None => false end.

Lemma terminal_nil n : terminal n [] = is_end n.
Proof. reflexivity. Qed.

Lemma terminal_cons n c w :
  terminal n (c :: w) = match child_get c (children n) with Some m => terminal m w | None => false end.
Proof. unfold terminal. cbn. destruct (child_get c (children n)); reflexivity. Qed.

Lemma has_path_nil n : has_path n [] = true.
Proof. reflexivity. Qed.

Lemma has_path_cons n c w :
  has_path n (c :: w) = match child_get c (children n) with Some m => has_path m w | None => false end.
Proof. unfold has_path. cbn. destruct (child_get c (children n)); reflexivity. Qed.

Lemma terminal_has_path n w : terminal n w = true -> has_path n w = true.
Proof. unfold terminal, has_path. destruct (walk n w); [reflexivity | discriminate]. Qed.

Lemma has_path_app n p q : has_path n (p ++ q) = true -> has_path n p = true.
Proof.
  revert n. induction p as [|c p IH]; intros n; [reflexivity|].
  cbn [app]. rewrite !has_path_cons. destruct (child_get c (children n)); [apply IH | discriminate].
Qed.

Lemma terminal_leaf n w : is_end n = false -> no_children n = true -> terminal n w = false.
Proof.
  intros He Hc. destruct w as [|c w]; [exact He|].
  rewrite terminal_cons. unfold no_children in Hc. destruct (children n); [reflexivity | discriminate].
Qed.

Lemma has_path_leaf n w : no_children n = true -> has_path n w = true -> w = [].
Proof.
  intros Hc. destruct w as [|c w]; [reflexivity|].
  rewrite has_path_cons. unfold no_children in Hc. destruct (children n); [discriminate | discriminate].
Qed.

Definition child_or_new (n : trie) (c : Z) : trie :=
  match child_get c (children n) with Some m => m | None => new_node end.

Lemma terminal_child_or_new n c w : terminal (child_or_new n c) w = terminal n (c :: w).
Proof.
  rewrite terminal_cons. unfold child_or_new. destruct (child_get c (children n)); [reflexivity|].
  apply terminal_leaf; reflexivity.
Qed.

Lemma has_path_child_or_new n c w :
  has_path (child_or_new n c) w = true <-> has_path n (c :: w) = true \/ w = [].
Proof.
  rewrite has_path_cons. unfold child_or_new. destruct (child_get c (children n)).
  - split; [auto|]. intros [H| ->]; [assumption | reflexivity].
  - split.
    + intros H. right. apply (has_path_leaf new_node); [reflexivity | assumption].
    + intros [H| ->]; [discriminate | reflexivity].
Qed.

(* ---------- AddWord ---------- *)

Lemma insert_cons c w n :
  insert (c :: w) n = Node (is_end n) (child_set c (insert w (child_or_new n c)) (children n)).
Proof. reflexivity. Qed.

Lemma terminal_insert w : forall n p,
  terminal (insert w n) p = true <-> p = w \/ terminal n p = true.
Proof.
  induction w as [|c w IH]; intros n p.
  - cbn [insert]. destruct p as [|d p].
    + cbn. tauto.
    + rewrite !terminal_cons. cbn [children]. split; [auto|]. intros [H|H]; [discriminate | assumption].
  - rewrite insert_cons. destruct p as [|d p].
    + rewrite !terminal_nil. cbn [is_end]. split; [auto|]. intros [H|H]; [discriminate | assumption].
    + rewrite !terminal_cons. cbn [children]. rewrite child_get_set.
      destruct (Z.eqb_spec d c) as [->|Hdc].
      * rewrite IH, terminal_child_or_new, terminal_cons. split.
        -- intros [->|H]; auto.
        -- intros [H|H]; [inversion H; auto | auto].
      * split; [auto|]. intros [H|H]; [inversion H; congruence | assumption].
Qed.

Lemma has_path_insert w : forall n p,
  has_path (insert w n) p = true <-> has_path n p = true \/ exists q, w = p ++ q.
Proof.
  induction w as [|c w IH]; intros n p.
  - cbn [insert]. destruct p as [|d p].
    + cbn. split; auto.
    + rewrite !has_path_cons. cbn [children]. split; [auto|]. intros [H|[q H]]; [assumption | discriminate].
  - rewrite insert_cons. destruct p as [|d p].
    + rewrite !has_path_nil. split; auto.
    + rewrite !has_path_cons. cbn [children]. rewrite child_get_set.
      destruct (Z.eqb_spec d c) as [->|Hdc].
      * rewrite IH, has_path_child_or_new, has_path_cons. split.
        -- intros [[H| ->]|[q ->]]; auto.
           ++ right. exists w. reflexivity.
           ++ right. exists q. reflexivity.
        -- intros [H|[q H]]; [auto|]. inversion H. right. exists q. reflexivity.
      * split; [auto|]. intros [H|[q H]]; [assumption | inversion H; congruence].
Qed.

Lemma is_end_insert w n : w <> [] -> is_end (insert w n) = is_end n.
Proof. destruct w; [congruence | reflexivity]. Qed.

(* ---------- Remove ---------- *)

Lemma remove_rec_none w : forall n, remove_rec w n = None <-> terminal n w = false.
Proof.
  induction w as [|c w IH]; intros n.
  - cbn. destruct (is_end n); split; congruence.
  - cbn [remove_rec]. rewrite terminal_cons. destruct (child_get c (children n)) as [m|]; [|tauto].
    rewrite <- IH. destruct (remove_rec w m); split; congruence.
Qed.

Lemma remove_rec_terminal w : forall n n', remove_rec w n = Some n' ->
  forall p, terminal n' p = true <-> terminal n p = true /\ p <> w.
Proof.
  induction w as [|c w IH]; intros n n' H p.
  - cbn in H. destruct (is_end n) eqn:E; [|discriminate]. inversion H; subst. clear H.
    destruct p as [|d p].
    + cbn. split; [discriminate | tauto].
    + rewrite !terminal_cons. cbn [children]. split; [intros; split; [assumption | discriminate] | tauto].
  - cbn [remove_rec] in H. destruct (child_get c (children n)) as [m|] eqn:Ec; [|discriminate].
    destruct (remove_rec w m) as [m'|] eqn:Er; [|discriminate]. inversion H; subst. clear H.
    specialize (IH m m' Er).
    destruct p as [|d p].
    + rewrite !terminal_nil. cbn [is_end]. split; [intros; split; [assumption | discriminate] | tauto].
    + rewrite !terminal_cons. cbn [children].
      destruct (negb (is_end m') && no_children m') eqn:Ep.
      * rewrite child_get_del. destruct (Z.eqb_spec d c) as [->|Hdc].
        -- rewrite Ec. apply andb_true_iff in Ep as [E1 E2]. apply negb_true_iff in E1.
           split; [discriminate|]. intros [Ht Hne].
           assert (terminal m' p = true) by (apply IH; split; [assumption | congruence]).
           rewrite terminal_leaf in H by assumption. discriminate.
        -- split; [intros; split; [assumption | congruence] | tauto].
      * rewrite child_get_set. destruct (Z.eqb_spec d c) as [->|Hdc].
        -- rewrite Ec, IH. split; intros [H1 H2]; (split; [assumption | congruence]).
        -- split; [intros; split; [assumption | congruence] | tauto].
Qed.

Lemma remove_rec_path w : forall n n', remove_rec w n = Some n' ->
  forall p, has_path n' p = true -> has_path n p = true.
Proof.
  induction w as [|c w IH]; intros n n' H p.
  - cbn in H. destruct (is_end n); [|discriminate]. inversion H; subst.
    destruct p; [reflexivity|]. rewrite !has_path_cons. cbn [children]. tauto.
  - cbn [remove_rec] in H. destruct (child_get c (children n)) as [m|] eqn:Ec; [|discriminate].
    destruct (remove_rec w m) as [m'|] eqn:Er; [|discriminate]. inversion H; subst. clear H.
    destruct p as [|d p]; [reflexivity|]. rewrite !has_path_cons. cbn [children].
    destruct (negb (is_end m') && no_children m').
    + rewrite child_get_del. destruct (Z.eqb_spec d c) as [->|Hdc]; [discriminate | tauto].
    + rewrite child_get_set. destruct (Z.eqb_spec d c) as [->|Hdc]; [|tauto].
      rewrite Ec. apply (IH m m' Er).
Qed.

Lemma remove_rec_is_end w n n' : w <> [] -> remove_rec w n = Some n' -> is_end n' = is_end n.
Proof.
  destruct w as [|c w]; [congruence|]. intros _. cbn [remove_rec].
  destruct (child_get c (children n)); [|discriminate]. destruct (remove_rec w t); [|discriminate].
  intros H; inversion H; reflexivity.
Qed.

(* ---------- no dead branches: every path leads to a word (what pruning is for) ---------- *)

Definition pruned (n : trie) : Prop :=
  forall p, p <> [] -> has_path n p = true -> exists q, terminal n (p ++ q) = true.

Lemma pruned_new : pruned new_node.
Proof. intros p Hp H. apply (has_path_leaf new_node) in H; [contradiction | reflexivity]. Qed.

Lemma pruned_child n c m : pruned n -> child_get c (children n) = Some m -> pruned m.
Proof.
  intros Hp Ec p Hne H. destruct (Hp (c :: p)) as [q Hq]; [discriminate | rewrite has_path_cons, Ec; assumption|].
  exists q. cbn [app] in Hq. rewrite terminal_cons, Ec in Hq. assumption.
Qed.

Lemma pruned_insert w n : pruned n -> pruned (insert w n).
Proof.
  intros Hp p Hne H. apply has_path_insert in H as [H|[q ->]].
  - destruct (Hp p Hne H) as [q Hq]. exists q. apply terminal_insert. auto.
  - exists q. apply terminal_insert. auto.
Qed.

Lemma pruned_remove_rec w : forall n n', pruned n -> remove_rec w n = Some n' -> pruned n'.
Proof.
  induction w as [|c w IH]; intros n n' Hp H.
  - cbn in H. destruct (is_end n); [|discriminate]. inversion H; subst. clear H.
    intros p Hne Hpath. destruct p as [|d p]; [congruence|].
    destruct (Hp (d :: p)) as [q Hq]; [discriminate | rewrite has_path_cons in *; exact Hpath|].
    exists q. cbn [app] in *. rewrite terminal_cons in *. exact Hq.
  - cbn [remove_rec] in H. destruct (child_get c (children n)) as [m|] eqn:Ec; [|discriminate].
    destruct (remove_rec w m) as [m'|] eqn:Er; [|discriminate]. inversion H; subst. clear H.
    pose proof (IH m m' (pruned_child n c m Hp Ec) Er) as Hpm'.
    intros p Hne Hpath. destruct p as [|d p]; [congruence|]. clear Hne.
    rewrite has_path_cons in Hpath. cbn [children] in Hpath.
    assert (Hother : d <> c -> child_get d (children n) = Some (child_or_new n d) ->
                     has_path (child_or_new n d) p = true ->
                     exists q, terminal n ((d :: p) ++ q) = true).
    { intros _ Ed Hd. apply Hp; [discriminate|]. rewrite has_path_cons, Ed. exact Hd. }
    destruct (negb (is_end m') && no_children m') eqn:Ep.
    + rewrite child_get_del in Hpath. destruct (Z.eqb_spec d c) as [->|Hdc]; [discriminate|].
      destruct (child_get d (children n)) as [g|] eqn:Ed; [|discriminate].
      destruct (Hp (d :: p)) as [q Hq]; [discriminate | rewrite has_path_cons, Ed; exact Hpath|].
      exists q. cbn [app] in *. rewrite terminal_cons in *. cbn [children].
      rewrite child_get_del. destruct (Z.eqb_spec d c); [congruence|]. exact Hq.
    + rewrite child_get_set in Hpath. destruct (Z.eqb_spec d c) as [->|Hdc].
      * assert (Hm' : exists q, terminal m' (p ++ q) = true).
        { destruct p as [|d2 p].
          - destruct (is_end m') eqn:Ee; [exists []; exact Ee|].
            cbn in Ep. unfold no_children in Ep. destruct (children m') as [|[d2 g] r] eqn:Ech; [discriminate|].
            destruct (Hpm' [d2]) as [q Hq]; [discriminate | rewrite has_path_cons, Ech; cbn; rewrite Z.eqb_refl; reflexivity|].
            exists ([d2] ++ q). exact Hq.
          - apply Hpm'; [discriminate | exact Hpath]. }
        destruct Hm' as [q Hq]. exists q. cbn [app]. rewrite terminal_cons. cbn [children].
        rewrite child_get_set, Z.eqb_refl. exact Hq.
      * destruct (child_get d (children n)) as [g|] eqn:Ed; [|discriminate].
        destruct (Hp (d :: p)) as [q Hq]; [discriminate | rewrite has_path_cons, Ed; exact Hpath|].
        exists q. cbn [app] in *. rewrite terminal_cons in *. cbn [children].
        rewrite child_get_set. destruct (Z.eqb_spec d c); [congruence|]. exact Hq.
Qed.

(* ---------- the reference: a duplicate-free list of words ---------- *)

Lemma zl_eqb_eq a b : zl_eqb a b = true <-> a = b.
Proof.
  revert b. induction a as [|x a IH]; intros [|y b]; cbn; split; intros H;
    try reflexivity; try discriminate.
  - apply andb_true_iff in H as [H1 H2]. apply Z.eqb_eq in H1. apply IH in H2. congruence.
  - inversion H; subst. apply andb_true_iff. split; [apply Z.eqb_refl | apply IH; reflexivity].
Qed.

Lemma wmem_In w d : wmem w d = true <-> In w d.
Proof.
  unfold wmem. rewrite existsb_exists. split.
  - intros [v [Hin E]]. apply zl_eqb_eq in E. subst. assumption.
  - intros H. exists w. split; [assumption | apply zl_eqb_eq; reflexivity].
Qed.

Lemma in_dict_remove v w d : In v (dict_remove w d) <-> In v d /\ v <> w.
Proof.
  unfold dict_remove. rewrite filter_In. destruct (zl_eqb w v) eqn:E; cbn.
  - apply zl_eqb_eq in E. subst. split; [intros [_ H]; discriminate | tauto].
  - split; [|tauto]. intros [H _]. split; [assumption|]. intros ->.
    assert (zl_eqb w w = true) by (apply zl_eqb_eq; reflexivity). congruence.
Qed.

Lemma nodup_filter {A} (f : A -> bool) l : NoDup l -> NoDup (filter f l).
Proof.
  induction 1 as [|x l Hx Hn IH]; cbn; [constructor|].
  destruct (f x); [|assumption]. constructor; [|assumption]. rewrite filter_In. tauto.
Qed.

Lemma length_remove_present w d : NoDup d -> In w d ->
  Z.of_nat (length (dict_remove w d)) = Z.of_nat (length d) - 1.
Proof.
  unfold dict_remove. induction 1 as [|x l Hx Hn IH]; intros Hin; [contradiction|]. cbn [filter].
  destruct (zl_eqb w x) eqn:E; cbn [negb length].
  - apply zl_eqb_eq in E. subst x. rewrite Nat2Z.inj_succ.
    assert (filter (fun v => negb (zl_eqb w v)) l = l) as ->.
    { clear -Hx. induction l as [|y l IH]; cbn; [reflexivity|].
      destruct (zl_eqb w y) eqn:E; cbn.
      - apply zl_eqb_eq in E. subst. exfalso. apply Hx. left. reflexivity.
      - f_equal. apply IH. intros H. apply Hx. right. assumption. }
    lia.
  - destruct Hin as [->|Hin].
    + assert (zl_eqb w w = true) by (apply zl_eqb_eq; reflexivity). congruence.
    + rewrite !Nat2Z.inj_succ, IH by assumption. lia.
Qed.

(* the trie represents the dictionary d *)
Record rep (t : hashtrie) (d : list (list Z)) : Prop := mkRep {
  rep_terminal : forall w, terminal (root t) w = true <-> In w d;
  rep_nodup : NoDup d;
  rep_size : size t = Z.of_nat (length d);
  rep_pruned : pruned (root t)
}.

Lemma rep_root_not_end t d : rep t d -> ~ In [] d -> is_end (root t) = false.
Proof.
  intros R Hn. destruct (is_end (root t)) eqn:E; [|reflexivity].
  exfalso. apply Hn. apply (rep_terminal t d R). exact E.
Qed.

Definition inv (t : hashtrie) (d : list (list Z)) : Prop := rep t d /\ ~ In [] d.

Lemma inv_empty : inv empty [].
Proof.
  split; [|tauto]. constructor.
  - intros w. split; [|contradiction]. intros H. cbn in H.
    rewrite (terminal_leaf new_node) in H; [discriminate | reflexivity | reflexivity].
  - constructor.
  - reflexivity.
  - apply pruned_new.
Qed.

Lemma inv_add w t d : inv t d -> inv (add_word w t) (dict_add w d).
Proof.
  intros [R Hn]. destruct w as [|c w]; [split; assumption|].
  cbn [add_word dict_add]. set (v := c :: w).
  assert (Hmem : terminal (root t) v = wmem v d).
  { destruct (wmem v d) eqn:M.
    - apply wmem_In in M. apply (rep_terminal _ _ R). assumption.
    - destruct (terminal (root t) v) eqn:T; [|reflexivity].
      apply (rep_terminal _ _ R) in T. apply wmem_In in T. congruence. }
  split.
  - constructor; cbn [root size].
    + intros u. rewrite terminal_insert, (rep_terminal _ _ R).
      destruct (wmem v d) eqn:M.
      * apply wmem_In in M. split; [intros [->|H]; assumption | auto].
      * cbn. split; intros [H|H]; auto.
    + destruct (wmem v d) eqn:M; [apply (rep_nodup _ _ R)|].
      constructor; [|apply (rep_nodup _ _ R)]. intros H. apply wmem_In in H. congruence.
    + rewrite Hmem. destruct (wmem v d); [apply (rep_size _ _ R)|].
      cbn [length]. rewrite Nat2Z.inj_succ, (rep_size _ _ R). lia.
    + apply pruned_insert, (rep_pruned _ _ R).
  - destruct (wmem v d); [assumption|]. intros [H|H]; [discriminate | contradiction].
Qed.

Lemma remove_reports w t d : inv t d -> snd (remove w t) = true <-> In w d.
Proof.
  intros [R Hn]. unfold remove. rewrite <- (rep_terminal _ _ R).
  destruct (remove_rec w (root t)) eqn:E; cbn.
  - destruct (terminal (root t) w) eqn:T; [tauto|]. apply remove_rec_none in T. congruence.
  - apply remove_rec_none in E. rewrite E. split; discriminate.
Qed.

Lemma inv_remove w t d : inv t d -> inv (fst (remove w t)) (dict_remove w d).
Proof.
  intros [R Hn]. unfold remove. destruct (remove_rec w (root t)) as [r|] eqn:E; cbn [fst].
  - assert (Hin : In w d).
    { apply (rep_terminal _ _ R). destruct (terminal (root t) w) eqn:T; [reflexivity|].
      apply remove_rec_none in T. congruence. }
    split.
    + constructor; cbn [root size].
      * intros u. rewrite (remove_rec_terminal w _ _ E), in_dict_remove, (rep_terminal _ _ R). tauto.
      * apply nodup_filter, (rep_nodup _ _ R).
      * rewrite (length_remove_present w d (rep_nodup _ _ R) Hin), (rep_size _ _ R). reflexivity.
      * apply (pruned_remove_rec w _ _ (rep_pruned _ _ R) E).
    + rewrite in_dict_remove. tauto.
  - apply remove_rec_none in E.
    assert (Hnot : ~ In w d) by (rewrite <- (rep_terminal _ _ R); congruence).
    assert (dict_remove w d = d) as ->.
    { unfold dict_remove. clear -Hnot. induction d as [|x d IH]; cbn; [reflexivity|].
      destruct (zl_eqb w x) eqn:Ex; cbn.
      - apply zl_eqb_eq in Ex. subst. exfalso. apply Hnot. left. reflexivity.
      - f_equal. apply IH. intros H. apply Hnot. right. assumption. }
    split; assumption.
Qed.

Lemma inv_reset (t : hashtrie) : inv (reset t) [].
Proof. exact inv_empty. Qed.

Lemma inv_step t d o : inv t d -> inv (step t o) (spec_step d o).
Proof.
  destruct o; cbn [step spec_step]; [apply inv_add | apply inv_remove | intros _; apply (inv_reset t)].
Qed.

Lemma inv_run_from ops : forall t d, inv t d -> inv (fold_left step ops t) (fold_left spec_step ops d).
Proof. induction ops as [|o ops IH]; cbn; intros t d H; [assumption|]. apply IH, inv_step, H. Qed.

Lemma inv_run ops : inv (run ops) (spec_run ops).
Proof. apply inv_run_from, inv_empty. Qed.

(* the reference dictionary read off the history *)
Lemma spec_run_history ops w :
  In w (spec_run ops) <->
  w <> [] /\ exists before after, ops = before ++ AddWord w :: after /\
                                  ~ In (RemoveWord w) after /\ ~ In Reset after.
Proof.
  unfold spec_run. induction ops as [|o ops IH] using rev_ind.
  - cbn. split; [tauto|]. intros [_ [b [a [E _]]]]. destruct b; discriminate.
  - rewrite fold_left_app. cbn [fold_left]. destruct o as [x|x|]; cbn [spec_step].
    + assert (Hadd : In w (dict_add x (fold_left spec_step ops [])) <->
                     (w = x /\ x <> []) \/ In w (fold_left spec_step ops [])).
      { unfold dict_add. destruct x as [|c x]; [split; [auto | intros [[_ H]|H]; [congruence | assumption]]|].
        destruct (wmem (c :: x) (fold_left spec_step ops [])) eqn:M.
        - apply wmem_In in M. split; [auto|]. intros [[-> _]|H]; assumption.
        - cbn. split; [intros [<-|H]; [left; split; [reflexivity | discriminate] | auto]|].
          intros [[-> _]|H]; auto. }
      rewrite Hadd, IH. split.
      * intros [[-> Hne]|[Hne [b [a [E [H1 H2]]]]]].
        -- split; [assumption|]. exists ops, []. split; [reflexivity | tauto].
        -- split; [assumption|]. exists b, (a ++ [AddWord x]).
           split; [rewrite E, <- app_assoc; reflexivity|].
           rewrite !in_app_iff. split; intros [H|[H|[]]]; try tauto; discriminate.
      * intros [Hne [b [a [E [H1 H2]]]]].
        destruct a as [|o a] using rev_ind.
        -- apply app_inj_tail in E as [_ E]. inversion E. subst. auto.
        -- clear IHa. rewrite app_comm_cons, app_assoc in E. apply app_inj_tail in E as [E _].
           right. split; [assumption|]. exists b, a. split; [assumption|].
           rewrite in_app_iff in H1, H2. tauto.
    + rewrite in_dict_remove, IH. split.
      * intros [[Hne [b [a [E [H1 H2]]]]] Hx].
        split; [assumption|]. exists b, (a ++ [RemoveWord x]).
        split; [rewrite E, <- app_assoc; reflexivity|].
        rewrite !in_app_iff. split; intros [H|[H|[]]]; try tauto; [inversion H; congruence | discriminate].
      * intros [Hne [b [a [E [H1 H2]]]]].
        destruct a as [|o a] using rev_ind.
        -- apply app_inj_tail in E as [_ E]. discriminate.
        -- clear IHa. rewrite app_comm_cons, app_assoc in E. apply app_inj_tail in E as [E E'].
           subst o. rewrite in_app_iff in H1, H2. split.
           ++ split; [assumption|]. exists b, a. tauto.
           ++ intros ->. apply H1. right. left. reflexivity.
    + split; [contradiction|]. intros [_ [b [a [E [H1 H2]]]]].
      destruct a as [|o a] using rev_ind.
      * apply app_inj_tail in E as [_ E]. discriminate.
      * clear IHa. rewrite app_comm_cons, app_assoc in E. apply app_inj_tail in E as [_ E'].
        subst o. apply H2. apply in_app_iff. right. left. reflexivity.
Qed.
