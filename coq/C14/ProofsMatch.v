(* C14 — lemmas, part 2: matching and filtering. *)
From Coq Require Import ZArith List Bool Lia.
From FV Require Import Generated.Consts C14.Model C14.Spec C14.ProofsDict.
Import ListNotations.
Open Scope Z_scope.

(* ---------- position-independent view of starts ---------- *)

Lemma starts_loop_shift s : forall n pos, 0 <= pos ->
  starts_loop n s pos = if 0 <=? starts_loop n s 0 then pos + starts_loop n s 0 else -1.
Proof.
  induction s as [|c s IH]; intros n pos Hpos; cbn [starts_loop].
  - destruct (is_end n); cbn; [lia | reflexivity].
  - destruct (contains_child n c) as [m|]; [|reflexivity].
    destruct (is_end m); [cbn; lia|].
    rewrite (IH m (pos + 1)) by lia. rewrite (IH m (0 + 1)) by lia.
    destruct (0 <=? starts_loop m s 0) eqn:E.
    + apply Z.leb_le in E. replace (0 <=? 0 + 1 + starts_loop m s 0) with true by (symmetry; apply Z.leb_le; lia). lia.
    + reflexivity.
Qed.

Lemma starts_loop_range s : forall n, is_end n = false ->
  -1 <= starts_loop n s 0 < Z.of_nat (length s).
Proof.
  induction s as [|c s IH]; intros n He; cbn [starts_loop].
  - rewrite He. cbn. lia.
  - cbn [length]. rewrite Nat2Z.inj_succ.
    destruct (contains_child n c) as [m|]; [|lia].
    destruct (is_end m) eqn:Em; [lia|].
    rewrite (starts_loop_shift s m (0 + 1)) by lia. specialize (IH m Em).
    destruct (0 <=? starts_loop m s 0); lia.
Qed.

(* length - 1 of the match that begins at the head of s, if any *)
Definition mlen (r : trie) (s : list Z) : option nat :=
  let idx := starts_loop r s 0 in if 0 <=? idx then Some (Z.to_nat idx) else None.

Lemma starts_loop_mlen r s pos : 0 <= pos ->
  starts_loop r s pos = match mlen r s with Some k => pos + Z.of_nat k | None => -1 end.
Proof.
  intros Hpos. rewrite (starts_loop_shift s r pos Hpos). unfold mlen.
  destruct (0 <=? starts_loop r s 0) eqn:E; [|reflexivity]. apply Z.leb_le in E. lia.
Qed.

Lemma mlen_bound r s k : is_end r = false -> mlen r s = Some k -> (k < length s)%nat.
Proof.
  intros He. unfold mlen. pose proof (starts_loop_range s r He).
  destruct (0 <=? starts_loop r s 0) eqn:E; [|discriminate]. intros H'; inversion H'. lia.
Qed.

(* ---------- the leftmost match ---------- *)

Fixpoint first_match (r : trie) (s : list Z) : option (nat * nat) :=
  match s with
  | [] => None
  | _ :: s' =>
      match mlen r s with
      | Some k => Some (O, k)
      | None => match first_match r s' with
                | Some (j, k) => Some (S j, k)
                | None => None
                end
      end
  end.

Lemma find_from_first_match r rest : forall i, 0 <= i ->
  find_from r rest i =
  match first_match r rest with
  | Some (j, k) => (i + Z.of_nat j, Z.of_nat k + 1)
  | None => (-1, 0)
  end.
Proof.
  induction rest as [|x rest IH]; intros i Hi; [reflexivity|].
  cbn [find_from first_match]. rewrite (starts_loop_mlen r (x :: rest) i Hi).
  destruct (mlen r (x :: rest)) as [k|].
  - replace (0 <=? i + Z.of_nat k) with true by (symmetry; apply Z.leb_le; lia).
    f_equal; lia.
  - cbn. rewrite IH by lia. destruct (first_match r rest) as [[j k]|]; [|reflexivity].
    f_equal. lia.
Qed.

Lemma first_match_some r s : forall j k, first_match r s = Some (j, k) ->
  mlen r (skipn j s) = Some k /\ (j < length s)%nat /\
  forall j', (j' < j)%nat -> mlen r (skipn j' s) = None.
Proof.
  induction s as [|x s IH]; intros j k; [discriminate|]. cbn [first_match].
  destruct (mlen r (x :: s)) as [k0|] eqn:E.
  - intros H; inversion H; subst. cbn. repeat split; [assumption | lia | lia].
  - destruct (first_match r s) as [[j0 k0]|]; [|discriminate].
    intros H; inversion H; subst. destruct (IH j0 k eq_refl) as [H1 [H2 H3]].
    cbn [skipn length]. repeat split; [assumption | lia|].
    intros [|j'] Hj'; [assumption | apply H3; lia].
Qed.

Lemma first_match_none r s : first_match r s = None ->
  forall j, (j < length s)%nat -> mlen r (skipn j s) = None.
Proof.
  induction s as [|x s IH]; intros H j Hj; [cbn in Hj; lia|]. cbn [first_match] in H.
  destruct (mlen r (x :: s)) eqn:E; [discriminate|].
  destruct (first_match r s) as [[j0 k0]|]; [discriminate|].
  destruct j as [|j]; [assumption|]. cbn [skipn]. apply IH; [reflexivity | cbn in Hj; lia].
Qed.

Lemma contains_text_first_match t s :
  contains_text t s = match first_match (root t) s with Some _ => true | None => false end.
Proof.
  unfold contains_text. rewrite find_from_first_match by lia.
  destruct (first_match (root t) s) as [[j k]|]; [|reflexivity].
  apply andb_true_iff. split; [apply Z.leb_le | apply Z.ltb_lt]; lia.
Qed.

(* ---------- Filter as a structural recursion: m = characters of the current match
   that are still to be masked ---------- *)

Fixpoint filt (r : trie) (m : nat) (s : list Z) : list Z :=
  match s with
  | [] => []
  | c :: s' =>
      match m with
      | S m' => mask :: filt r m' s'
      | O => match mlen r s with
             | Some k => mask :: filt r k s'
             | None => c :: filt r O s'
             end
      end
  end.

Lemma filt_length r s : forall m, length (filt r m s) = length s.
Proof.
  induction s as [|c s IH]; intros m; [reflexivity|]. cbn [filt].
  destruct m; [destruct (mlen r (c :: s))|]; cbn [length]; rewrite IH; reflexivity.
Qed.

Lemma filt_mask r : forall k s, (k <= length s)%nat ->
  filt r k s = repeat mask k ++ filt r O (skipn k s).
Proof.
  induction k as [|k IH]; intros s Hk; [reflexivity|].
  destruct s as [|c s]; [cbn in Hk; lia|]. cbn [filt repeat skipn app]. f_equal. apply IH. cbn in Hk. lia.
Qed.

Lemma filt_first_match r : is_end r = false -> forall s,
  match first_match r s with
  | None => filt r O s = s
  | Some (j, k) => (j + S k <= length s)%nat /\
                   filt r O s = firstn j s ++ repeat mask (S k) ++ filt r O (skipn (j + S k) s)
  end.
Proof.
  intros He. induction s as [|x s IH]; [reflexivity|]. cbn [first_match filt].
  destruct (mlen r (x :: s)) as [k|] eqn:E.
  - pose proof (mlen_bound r _ k He E) as Hb. cbn [length] in Hb.
    split; [cbn [length]; lia|]. cbn [firstn app repeat Nat.add skipn]. f_equal.
    apply filt_mask. lia.
  - destruct (first_match r s) as [[j k]|].
    + destruct IH as [H1 H2]. split; [cbn [length]; lia|].
      cbn [firstn app Nat.add skipn]. f_equal. exact H2.
    + f_equal. exact IH.
Qed.

Lemma filter_loop_filt r word : is_end r = false -> forall fuel rest start sb,
  (length rest < fuel)%nat -> 0 <= start -> (start = 0 -> sb = [] /\ rest = word) ->
  filter_loop fuel r word rest start sb = sb ++ filt r O rest.
Proof.
  intros He. induction fuel as [|f IH]; intros rest start sb Hf Hs H0; [lia|].
  cbn [filter_loop]. destruct rest as [|x rest']; [rewrite app_nil_r; reflexivity|].
  set (rest := x :: rest') in *.
  rewrite find_from_first_match by assumption.
  pose proof (filt_first_match r He rest) as Hfm.
  destruct (first_match r rest) as [[j k]|].
  - destruct Hfm as [Hlen Hfilt].
    replace (start + Z.of_nat j <? 0) with false by (symmetry; apply Z.ltb_ge; lia).
    replace (0 <? Z.of_nat k + 1) with true by (symmetry; apply Z.ltb_lt; lia).
    replace (Z.to_nat (start + Z.of_nat j + (Z.of_nat k + 1) - start)) with (j + S k)%nat by lia.
    replace (Z.to_nat (start + Z.of_nat j - start)) with j by lia.
    replace (Z.to_nat (Z.of_nat k + 1)) with (S k) by lia.
    rewrite IH.
    + rewrite Hfilt. rewrite <- !app_assoc. reflexivity.
    + rewrite skipn_length. lia.
    + lia.
    + intros; lia.
  - change (-1 <? 0) with true. cbv iota. destruct (start =? 0) eqn:E0.
    + apply Z.eqb_eq in E0. destruct (H0 E0) as [-> <-]. cbn [app]. symmetry. exact Hfm.
    + rewrite Hfm. reflexivity.
Qed.

Lemma filter_text_filt t s : is_end (root t) = false -> filter_text t s = filt (root t) O s.
Proof.
  intros He. unfold filter_text. destruct s as [|x s]; [reflexivity|].
  rewrite (filter_loop_filt (root t) (x :: s) He); [reflexivity | lia | lia | auto].
Qed.

(* every position of the result: the original character, or the mask inside a match *)
Lemma filt_positions r s : forall m i, (i < length s)%nat ->
  nth i (filt r m s) 0 = nth i s 0 \/
  (nth i (filt r m s) 0 = mask /\
   ((i < m)%nat \/ exists j k, (j <= i <= j + k)%nat /\ mlen r (skipn j s) = Some k)).
Proof.
  induction s as [|c s IH]; intros m i Hi; [cbn in Hi; lia|]. cbn [filt].
  destruct m as [|m].
  - destruct (mlen r (c :: s)) as [k|] eqn:E.
    + destruct i as [|i].
      * right. split; [reflexivity|]. right. exists O, k. split; [lia | exact E].
      * cbn [nth]. cbn in Hi. destruct (IH k i ltac:(lia)) as [H|[H1 [H2|[j [k' [H2 H3]]]]]].
        -- left. assumption.
        -- right. split; [assumption|]. right. exists O, k. split; [lia | exact E].
        -- right. split; [assumption|]. right. exists (S j), k'. split; [lia | exact H3].
    + destruct i as [|i]; [left; reflexivity|].
      cbn [nth]. cbn in Hi. destruct (IH O i ltac:(lia)) as [H|[H1 [H2|[j [k' [H2 H3]]]]]].
      * left. assumption.
      * lia.
      * right. split; [assumption|]. right. exists (S j), k'. split; [lia | exact H3].
  - destruct i as [|i]; [right; split; [reflexivity | left; lia]|].
    cbn [nth]. cbn in Hi. destruct (IH m i ltac:(lia)) as [H|[H1 [H2|[j [k' [H2 H3]]]]]].
    + left. assumption.
    + right. split; [assumption|]. left. lia.
    + right. split; [assumption|]. right. exists (S j), k'. split; [lia | exact H3].
Qed.

(* a mask-free stretch of the result is an unchanged stretch of the text at whose head no
   match begins *)
Lemma filt_maskfree_prefix r : forall w s m b, filt r m s = w ++ b -> ~ In mask w -> w <> [] ->
  m = O /\ mlen r s = None /\ firstn (length w) s = w.
Proof.
  induction w as [|x w IH]; intros s m b H Hm Hne; [congruence|].
  destruct s as [|c s]; [discriminate|]. cbn [filt] in H.
  destruct m as [|m].
  - destruct (mlen r (c :: s)) as [k|] eqn:E.
    + inversion H. subst x. exfalso. apply Hm. left. reflexivity.
    + inversion H. subst x. split; [reflexivity|]. split; [reflexivity|].
      cbn [length firstn]. f_equal.
      destruct w as [|y w]; [reflexivity|].
      destruct (IH s O b H2) as [_ [_ H3]]; [intros Hin; apply Hm; right; exact Hin | discriminate|].
      exact H3.
  - inversion H. subst x. exfalso. apply Hm. left. reflexivity.
Qed.

Lemma filt_step r c s m : exists y m', filt r m (c :: s) = y :: filt r m' s.
Proof.
  cbn [filt]. destruct m; [destruct (mlen r (c :: s))|]; eauto.
Qed.

Lemma filt_maskfree_occurrence r : forall a s m w b, filt r m s = a ++ w ++ b -> ~ In mask w -> w <> [] ->
  mlen r (skipn (length a) s) = None /\ firstn (length w) (skipn (length a) s) = w.
Proof.
  induction a as [|y a IH]; intros s m w b H Hm Hne.
  - cbn [app length skipn] in *. destruct (filt_maskfree_prefix r w s m b H Hm Hne) as [_ [H1 H2]]. auto.
  - destruct s as [|c s]; [discriminate|].
    destruct (filt_step r c s m) as [y' [m' E]]. rewrite E in H. inversion H. subst y'.
    cbn [length skipn]. apply (IH s m' w b H2 Hm Hne).
Qed.

(* ---------- literal dictionaries: the walk needs no wildcard ---------- *)

Definition literal (n : trie) : Prop := forall p, has_path n p = true -> ~ In star p.

Lemma literal_child n c m : literal n -> child_get c (children n) = Some m -> literal m.
Proof.
  intros Hl Ec p Hp Hin. apply (Hl (c :: p)); [rewrite has_path_cons, Ec; exact Hp | right; exact Hin].
Qed.

Lemma contains_child_literal n c : literal n -> contains_child n c = child_get c (children n).
Proof.
  intros Hl. unfold contains_child. destruct (child_get c (children n)); [reflexivity|].
  destruct (child_get star (children n)) eqn:E; [|reflexivity].
  exfalso. apply (Hl [star]); [rewrite has_path_cons, E; reflexivity | left; reflexivity].
Qed.

Lemma literal_new : literal new_node.
Proof. intros p Hp. apply (has_path_leaf new_node) in Hp; [subst; tauto | reflexivity]. Qed.

Lemma literal_insert w n : ~ In star w -> literal n -> literal (insert w n).
Proof.
  intros Hw Hl p Hp Hin. apply has_path_insert in Hp as [Hp|[q ->]].
  - apply (Hl p Hp Hin).
  - apply Hw. apply in_app_iff. left. exact Hin.
Qed.

Lemma literal_remove_rec w n n' : literal n -> remove_rec w n = Some n' -> literal n'.
Proof. intros Hl Hr p Hp. apply (Hl p). apply (remove_rec_path w n n' Hr p Hp). Qed.

Definition literal_ops (ops : list op) : Prop := forall w, In (AddWord w) ops -> ~ In star w.

Lemma literal_step t o : literal (root t) -> (forall w, o = AddWord w -> ~ In star w) -> literal (root (step t o)).
Proof.
  intros Hl Ho. destruct o as [w|w|]; cbn [step].
  - unfold add_word. destruct w as [|c w]; [assumption|]. cbn [root]. apply literal_insert; auto.
  - unfold remove. destruct (remove_rec w (root t)) eqn:E; cbn [fst root]; [|assumption].
    apply (literal_remove_rec w _ _ Hl E).
  - exact literal_new.
Qed.

Lemma literal_run_from ops : forall t, literal (root t) -> literal_ops ops -> literal (root (fold_left step ops t)).
Proof.
  induction ops as [|o ops IH]; intros t Hl Ho; [assumption|]. cbn [fold_left].
  apply IH.
  - apply literal_step; [assumption|]. intros w ->. apply Ho. left. reflexivity.
  - intros w Hin. apply Ho. right. exact Hin.
Qed.

Lemma literal_run ops : literal_ops ops -> literal (root (run ops)).
Proof. apply literal_run_from. exact literal_new. Qed.

(* ---------- the reference matcher on a membership predicate ---------- *)

(* length - 1 of the shortest non-empty prefix of s that belongs to D *)
Fixpoint spec_starts (D : list Z -> bool) (s : list Z) : option nat :=
  match s with
  | [] => None
  | c :: s' => if D [c] then Some O else option_map S (spec_starts (fun w => D (c :: w)) s')
  end.

Lemma spec_starts_ext s : forall D1 D2, (forall w, D1 w = D2 w) -> spec_starts D1 s = spec_starts D2 s.
Proof.
  induction s as [|c s IH]; intros D1 D2 H; [reflexivity|]. cbn. rewrite H.
  destruct (D2 [c]); [reflexivity|]. f_equal. apply IH. intros w. apply H.
Qed.

Lemma spec_starts_false s : forall D, (forall w, D w = false) -> spec_starts D s = None.
Proof.
  induction s as [|c s IH]; intros D H; [reflexivity|]. cbn. rewrite H.
  rewrite IH; [reflexivity|]. intros w. apply H.
Qed.

Lemma spec_starts_some s : forall D k, spec_starts D s = Some k ->
  exists w b, s = w ++ b /\ length w = S k /\ D w = true.
Proof.
  induction s as [|c s IH]; intros D k; [discriminate|]. cbn.
  destruct (D [c]) eqn:E.
  - intros H; inversion H. exists [c], s. auto.
  - destruct (spec_starts (fun w => D (c :: w)) s) as [k'|] eqn:E'; [|discriminate].
    intros H; inversion H. destruct (IH _ _ E') as [w [b [Hw1 [Hw2 Hw3]]]].
    exists (c :: w), b. subst s. cbn. auto.
Qed.

Lemma spec_starts_none s : forall D, spec_starts D s = None ->
  forall w b, w <> [] -> s = w ++ b -> D w = false.
Proof.
  induction s as [|c s IH]; intros D H w b Hne E.
  - destruct w; [congruence | discriminate].
  - cbn in H. destruct (D [c]) eqn:Ec; [discriminate|].
    destruct (spec_starts (fun w => D (c :: w)) s) eqn:E'; [discriminate|].
    destruct w as [|x w]; [congruence|]. inversion E; subst.
    destruct w as [|y w]; [exact Ec|].
    apply (IH _ E' (y :: w) b); [discriminate | reflexivity].
Qed.

Lemma starts_loop_literal s : forall n pos, literal n -> is_end n = false ->
  starts_loop n s pos =
  match spec_starts (terminal n) s with Some k => pos + Z.of_nat k | None => -1 end.
Proof.
  induction s as [|c s IH]; intros n pos Hl He; cbn [starts_loop spec_starts].
  - rewrite He. reflexivity.
  - rewrite (contains_child_literal n c Hl). rewrite terminal_cons.
    destruct (child_get c (children n)) as [m|] eqn:Ec.
    + rewrite terminal_nil. destruct (is_end m) eqn:Em; [lia|].
      rewrite (IH m (pos + 1) (literal_child n c m Hl Ec) Em).
      rewrite (spec_starts_ext s (fun w => terminal n (c :: w)) (terminal m))
        by (intros w; rewrite terminal_cons, Ec; reflexivity).
      destruct (spec_starts (terminal m) s); cbn; [lia | reflexivity].
    + rewrite spec_starts_false; [reflexivity|]. intros w. rewrite terminal_cons, Ec. reflexivity.
Qed.

Lemma mlen_literal n s : literal n -> is_end n = false -> mlen n s = spec_starts (terminal n) s.
Proof.
  intros Hl He. unfold mlen. rewrite (starts_loop_literal s n 0 Hl He).
  destruct (spec_starts (terminal n) s) as [k|]; cbn; [|reflexivity].
  replace (0 <=? Z.of_nat k) with true by (symmetry; apply Z.leb_le; lia). f_equal. lia.
Qed.

(* ---------- words occurring in texts ---------- *)

Definition occurs (w s : list Z) : Prop := exists a b, s = a ++ w ++ b.

Lemma skipn_split {A} (j : nat) (s : list A) : (j <= length s)%nat ->
  exists a, s = a ++ skipn j s /\ length a = j.
Proof. intros H. exists (firstn j s). split; [symmetry; apply firstn_skipn | apply firstn_length_le; exact H]. Qed.

Lemma skipn_app_exact {A} (a b : list A) : skipn (length a) (a ++ b) = b.
Proof. induction a; [reflexivity | assumption]. Qed.

Lemma firstn_app_exact {A} (a b : list A) : firstn (length a) (a ++ b) = a.
Proof. induction a; cbn; [reflexivity | f_equal; assumption]. Qed.

(* Contains on a literal dictionary *)
Lemma contains_literal t s : literal (root t) -> is_end (root t) = false ->
  contains_text t s = true <->
  exists w, terminal (root t) w = true /\ w <> [] /\ occurs w s.
Proof.
  intros Hl He. rewrite contains_text_first_match.
  destruct (first_match (root t) s) as [[j k]|] eqn:E.
  - split; [intros _ | reflexivity].
    destruct (first_match_some _ _ _ _ E) as [H1 [H2 _]].
    rewrite (mlen_literal _ _ Hl He) in H1.
    destruct (spec_starts_some _ _ _ H1) as [w [b [Hs [Hlen Hw]]]].
    destruct (skipn_split j s ltac:(lia)) as [a [Ha _]].
    exists w. split; [exact Hw|]. split; [destruct w; [discriminate | discriminate]|].
    exists a, b. rewrite Ha at 1. rewrite Hs. reflexivity.
  - split; [discriminate|]. intros [w [Hw [Hne [a [b Hs]]]]]. exfalso.
    assert (Hj : (length a < length s)%nat).
    { subst s. rewrite !app_length. destruct w; [congruence | cbn; lia]. }
    pose proof (first_match_none _ _ E (length a) Hj) as Hn.
    rewrite (mlen_literal _ _ Hl He) in Hn. subst s. rewrite skipn_app_exact in Hn.
    rewrite (spec_starts_none _ _ Hn w b Hne eq_refl) in Hw. discriminate.
Qed.

(* Filter on a literal dictionary *)
Lemma filter_outside_kept t s i : literal (root t) -> is_end (root t) = false -> (i < length s)%nat ->
  nth i (filter_text t s) 0 = nth i s 0 \/
  (nth i (filter_text t s) 0 = mask /\
   exists a w b, s = a ++ w ++ b /\ terminal (root t) w = true /\
                 (length a <= i < length a + length w)%nat).
Proof.
  intros Hl He Hi. rewrite (filter_text_filt t s He).
  destruct (filt_positions (root t) s O i Hi) as [H|[H1 [H2|[j [k [H2 H3]]]]]]; [left; exact H | lia|].
  right. split; [exact H1|].
  rewrite (mlen_literal _ _ Hl He) in H3.
  destruct (spec_starts_some _ _ _ H3) as [w [b [Hs [Hlen Hw]]]].
  assert (Hj : (j <= length s)%nat) by lia.
  destruct (skipn_split j s Hj) as [a [Ha Hla]].
  exists a, w, b. split; [rewrite Ha at 1; rewrite Hs; reflexivity|]. split; [exact Hw | lia].
Qed.

Lemma filter_clean t s w : literal (root t) -> is_end (root t) = false ->
  terminal (root t) w = true -> ~ In mask w -> ~ occurs w (filter_text t s).
Proof.
  intros Hl He Hw Hm [a [b Hocc]]. rewrite (filter_text_filt t s He) in Hocc.
  assert (Hne : w <> []) by (intros ->; rewrite terminal_nil in Hw; congruence).
  destruct (filt_maskfree_occurrence (root t) a s O w b Hocc Hm Hne) as [H1 H2].
  rewrite (mlen_literal _ _ Hl He) in H1.
  assert (Hs : skipn (length a) s = w ++ skipn (length w) (skipn (length a) s)).
  { rewrite <- H2 at 1. symmetry. apply firstn_skipn. }
  rewrite (spec_starts_none _ _ H1 w _ Hne Hs) in Hw. discriminate.
Qed.

(* on a literal dictionary every observable of matching is a function of the word set *)
Lemma first_match_ext r1 r2 s : (forall u, mlen r1 u = mlen r2 u) -> first_match r1 s = first_match r2 s.
Proof.
  intros H. induction s as [|x s IH]; [reflexivity|]. cbn [first_match]. rewrite H, IH. reflexivity.
Qed.

Lemma filt_ext r1 r2 s : (forall u, mlen r1 u = mlen r2 u) -> forall m, filt r1 m s = filt r2 m s.
Proof.
  intros H. induction s as [|x s IH]; intros m; [reflexivity|]. cbn [filt]. rewrite H.
  destruct m; [destruct (mlen r2 (x :: s))|]; rewrite IH; reflexivity.
Qed.

Lemma matching_depends_on_words t1 t2 :
  literal (root t1) -> is_end (root t1) = false -> literal (root t2) -> is_end (root t2) = false ->
  (forall w, terminal (root t1) w = terminal (root t2) w) ->
  forall s, contains_text t1 s = contains_text t2 s /\ filter_text t1 s = filter_text t2 s /\
            exact_match t1 s = exact_match t2 s.
Proof.
  intros L1 E1 L2 E2 H s.
  assert (Hm : forall u, mlen (root t1) u = mlen (root t2) u).
  { intros u. rewrite !mlen_literal by assumption. apply spec_starts_ext, H. }
  repeat split.
  - rewrite !contains_text_first_match, (first_match_ext _ _ s Hm). reflexivity.
  - rewrite !filter_text_filt by assumption. apply filt_ext, Hm.
  - unfold exact_match. destruct s as [|x s]; [reflexivity|].
    rewrite !(starts_loop_mlen _ _ 0) by lia. rewrite Hm. reflexivity.
Qed.

(* ---------- ExactMatch on a literal dictionary ---------- *)

Lemma spec_starts_min s : forall D k, spec_starts D s = Some k ->
  forall w b, w <> [] -> s = w ++ b -> D w = true -> (S k <= length w)%nat.
Proof.
  induction s as [|c s IH]; intros D k H w b Hne E Hw; [discriminate|].
  cbn in H. destruct (D [c]) eqn:Ec.
  - inversion H. destruct w; [congruence | cbn; lia].
  - destruct (spec_starts (fun w => D (c :: w)) s) as [k'|] eqn:E'; [|discriminate]. inversion H. subst k.
    destruct w as [|x w]; [congruence|]. inversion E; subst.
    destruct w as [|y w]; [congruence|].
    pose proof (IH _ _ E' (y :: w) b ltac:(discriminate) eq_refl Hw). cbn [length] in *. lia.
Qed.

Lemma exact_match_literal t s : literal (root t) -> is_end (root t) = false ->
  exact_match t s = true <->
  terminal (root t) s = true /\
  forall w b, w <> [] -> b <> [] -> s = w ++ b -> terminal (root t) w = false.
Proof.
  intros Hl He. unfold exact_match. destruct s as [|x s].
  - split; [discriminate|]. intros [H _]. rewrite terminal_nil in H. congruence.
  - assert (Hune : x :: s <> []) by discriminate. remember (x :: s) as u eqn:Equ. clear Equ.
    rewrite (starts_loop_literal u (root t) 0 Hl He).
    destruct (spec_starts (terminal (root t)) u) as [k|] eqn:E.
    + destruct (spec_starts_some _ _ _ E) as [w [b [Hu [Hlen Hw]]]].
      assert (Hlu : length u = (length w + length b)%nat) by (rewrite Hu, app_length; reflexivity).
      rewrite Z.eqb_eq. split.
      * intros Hk. assert (length b = O) by lia. destruct b; [|discriminate].
        rewrite app_nil_r in Hu. subst w. split; [exact Hw|].
        intros w' b' Hne' Hb' Hu'. destruct (terminal (root t) w') eqn:T; [|reflexivity].
        pose proof (spec_starts_min _ _ _ E w' b' Hne' Hu' T).
        assert (0 < length b')%nat by (destruct b'; [congruence | cbn; lia]).
        rewrite Hu', app_length in Hlen. lia.
      * intros [Hs Hp]. destruct b as [|y b]; [cbn in Hlu; lia|].
        rewrite (Hp w (y :: b)) in Hw; [discriminate | destruct w; [discriminate | discriminate] | discriminate | exact Hu].
    + split; [intros H; apply Z.eqb_eq in H; destruct u; [congruence | cbn [length] in H; lia]|]. intros [Hs _].
      rewrite (spec_starts_none _ _ E u [] Hune (eq_sym (app_nil_r u))) in Hs. discriminate.
Qed.
