(* C14 — the reference: the dictionary as a plain duplicate-free list of words, and
   brute-force notions of "occurs in", "instance of a pattern", "covered by an occurrence".
   Executable; nothing is proved here (soundness lemmas: C14/ProofsDict.v, ProofsSpec.v).
   Used by Run.v to evaluate the property on the implementation's answers, and by the
   theorems as the specification the model refines. *)
From Coq Require Import ZArith List Bool.
From FV Require Import C14.Model.
Import ListNotations.
Open Scope Z_scope.

Fixpoint zl_eqb (a b : list Z) : bool :=
  match a, b with
  | [], [] => true
  | x :: a', y :: b' => (x =? y) && zl_eqb a' b'
  | _, _ => false
  end.

Definition zmem (x : Z) (l : list Z) : bool := existsb (Z.eqb x) l.
Definition wmem (w : list Z) (d : list (list Z)) : bool := existsb (zl_eqb w) d.

(* the dictionary after a history *)
Definition dict_add (w : list Z) (d : list (list Z)) : list (list Z) :=
  match w with [] => d | _ => if wmem w d then d else w :: d end.
Definition dict_remove (w : list Z) (d : list (list Z)) : list (list Z) :=
  filter (fun v => negb (zl_eqb w v)) d.
Definition spec_step (d : list (list Z)) (o : op) : list (list Z) :=
  match o with
  | AddWord w => dict_add w d
  | RemoveWord w => dict_remove w d
  | Reset => []
  end.
Definition spec_run (ops : list op) : list (list Z) := fold_left spec_step ops [].

(* w is a prefix of s; with pat = true a '*' in w stands for any one character *)
Fixpoint prefix_b (pat : bool) (w s : list Z) : bool :=
  match w, s with
  | [], _ => true
  | x :: w', y :: s' => ((x =? y) || (pat && (x =? star))) && prefix_b pat w' s'
  | _ :: _, [] => false
  end.

(* w occurs somewhere in s *)
Fixpoint occurs_b (pat : bool) (w s : list Z) : bool :=
  prefix_b pat w s || match s with [] => false | _ :: s' => occurs_b pat w s' end.

Definition literal_word (w : list Z) : bool := negb (zmem star w).

(* two words do not compete: where they first differ neither has the wildcard *)
Fixpoint compat (a b : list Z) : bool :=
  match a, b with
  | x :: a', y :: b' => if x =? y then compat a' b' else negb (x =? star) && negb (y =? star)
  | _, _ => true
  end.
Definition noncompeting (d : list (list Z)) : bool :=
  forallb (fun a => forallb (compat a) d) d.

(* length of the longest dictionary word that is a prefix of s (0 if none) *)
Definition longest (d : list (list Z)) (s : list Z) : nat :=
  fold_left (fun m w => if prefix_b false w s then Nat.max m (length w) else m) d O.

(* positions of s covered by an occurrence of a dictionary word; m = characters still
   covered by an occurrence that began earlier *)
Fixpoint cover (d : list (list Z)) (m : nat) (s : list Z) : list bool :=
  match s with
  | [] => []
  | _ :: s' => let m' := Nat.max m (longest d s) in
               negb (Nat.eqb m' 0) :: cover d (pred m') s'
  end.

(* out keeps every character of text except, possibly, the mask on covered positions *)
Fixpoint kept_outside (text out : list Z) (cov : list bool) : bool :=
  match text, out, cov with
  | [], [], [] => true
  | x :: t', y :: o', c :: c' => ((x =? y) || (c && (y =? mask))) && kept_outside t' o' c'
  | _, _, _ => false
  end.

(* ---------- the general matcher, computed from the word list alone ----------
   (tie-breaking of c14_match_semantics: at the path p reached so far take p++[c] if some
   word continues that way, only otherwise p++['*']; stop at the first path that is a word) *)
Definition has_prefix (d : list (list Z)) (p : list Z) : bool :=
  existsb (fun w => prefix_b false p w) d.

(* length - 1 of the match that begins at the head of s for a matcher standing at path p *)
Fixpoint ref_mlen (d : list (list Z)) (p s : list Z) : option nat :=
  match s with
  | [] => None
  | c :: s' =>
      let q := if has_prefix d (p ++ [c]) then Some (p ++ [c])
               else if has_prefix d (p ++ [star]) then Some (p ++ [star])
               else None in
      match q with
      | None => None
      | Some p' => if wmem p' d then Some O else option_map S (ref_mlen d p' s')
      end
  end.

Definition ref_walk (d : list (list Z)) (p s : list Z) : bool :=
  match ref_mlen d p s with Some _ => true | None => false end.

Fixpoint ref_contains (d : list (list Z)) (s : list Z) : bool :=
  ref_walk d [] s || match s with [] => false | _ :: s' => ref_contains d s' end.
