(* C01 — V2 codec: explicit form of the emitted frame and frame round trip over an
   arbitrarily chunked stream. *)
From Coq Require Import Arith ZArith NArith List Bool Lia ZifyNat ZifyN ZifyBool.
From FV Require Import Generated.Consts Lib.NList Lib.BE Lib.Crc32 C01.Model C01.ProofsIO
     C01.ProofsBits C01.ProofsV1.
Import ListNotations.
Open Scope N_scope.

Ltac Zify.zify_post_hook ::= Z.div_mod_to_equations.

(* ---------------------------------------------------------------------------------- *)
(* the reference list written word by word into the zeroed buffer *)

Lemma put_at_middle {A} (pre v old post : list A) :
  length old = length v -> put_at (length pre) v (pre ++ old ++ post) = pre ++ v ++ post.
Proof.
  intros H. unfold put_at.
  rewrite firstn_app, Nat.sub_diag, firstn_all. cbn [firstn]. rewrite app_nil_r.
  f_equal. f_equal.
  rewrite skipn_app. rewrite skipn_all2 by lia. cbn [app].
  replace (length pre + length v - length pre)%nat with (length old) by lia.
  rewrite skipn_app, Nat.sub_diag, skipn_all. reflexivity.
Qed.

Lemma put_refs_zeros refs : forall pre post,
  put_refs (length pre) refs (pre ++ repeat 0 (4 * length refs) ++ post) = pre ++ be32s refs ++ post.
Proof.
  induction refs as [|r t IH]; intros pre post; [reflexivity|].
  cbn [put_refs be32s flat_map length].
  replace (4 * S (length t))%nat with (4 + 4 * length t)%nat by lia.
  rewrite repeat_app, <- app_assoc.
  rewrite put_at_middle by reflexivity.
  replace (length pre + 4)%nat with (length (pre ++ be32 r)) by (rewrite app_length; reflexivity).
  rewrite (app_assoc pre (be32 r)). rewrite IH. rewrite <- !app_assoc. reflexivity.
Qed.

Lemma zeros_v2 (refs : list N) : zeros (hs2 + lenN refs * 4) = repeat 0 20 ++ repeat 0 (4 * length refs).
Proof.
  unfold zeros, hs2, codec_V2HeaderSize, lenN. rewrite <- repeat_app. f_equal. lia.
Qed.

Lemma put_refs_v2 (refs : list N) :
  put_refs (N.to_nat hs2) refs (zeros (hs2 + lenN refs * 4)) = repeat 0 20 ++ be32s refs.
Proof.
  rewrite zeros_v2. change (N.to_nat hs2) with (length (repeat 0%N 20)).
  rewrite <- (app_nil_r (repeat 0 (4 * length refs))).
  rewrite put_refs_zeros. rewrite app_nil_r. reflexivity.
Qed.

(* reading them back *)
Lemma read_refs_be32s refs rest : Forall (fun r => r < 4294967296) refs ->
  read_refs (length refs) (be32s refs ++ rest) = Some refs.
Proof.
  induction refs as [|r t IH]; intros H; [reflexivity|].
  inversion H as [|? ? Hr Ht]; subst.
  cbn [length read_refs be32s flat_map]. rewrite <- app_assoc.
  change (be32 r ++ flat_map be32 t ++ rest) with
    ((r / 16777216 mod 256) :: (r / 65536 mod 256) :: (r / 256 mod 256) :: (r mod 256) :: be32s t ++ rest).
  cbv iota beta. rewrite IH by assumption.
  change [r / 16777216 mod 256; r / 65536 mod 256; r / 256 mod 256; r mod 256] with (be32 r ++ []).
  rewrite get32_be32 by assumption. reflexivity.
Qed.

(* ---------------------------------------------------------------------------------- *)
(* the header as the protocol description lays it out *)

Definition head16_v2 (p : packet) (nref n : N) : bytes :=
  be24 n ++ [u8_of_z (p_typ p); p_flag p mod 256; nref mod 256] ++ be16 (p_seq p)
  ++ be32 (p_node p) ++ be32 (u32_of_z (p_cmd p)).

Lemma pack_v2_zeros p nref n r :
  pack_v2 p nref n (repeat 0 20 ++ r) = head16_v2 p nref n ++ [0; 0; 0; 0] ++ r.
Proof. reflexivity. Qed.

Lemma set_checksum_v2_form p nref n c r :
  set_checksum_v2 (head16_v2 p nref n ++ [0; 0; 0; 0] ++ r) c = head16_v2 p nref n ++ be32 c ++ r.
Proof. reflexivity. Qed.

Lemma firstn16_head p nref n r : firstn 16 (head16_v2 p nref n ++ r) = head16_v2 p nref n.
Proof. reflexivity. Qed.

Lemma skipn20_head p nref n c r : skipn 20 (head16_v2 p nref n ++ c :: nil ++ r) = skipn 3 r.
Proof. reflexivity. Qed.

Definition frame_head_v2 (p : packet) (n : N) (b : bytes) : bytes :=
  head16_v2 p (lenN (p_refers p)) n
  ++ be32 (crc32 (head16_v2 p (lenN (p_refers p)) n ++ be32s (p_refers p) ++ b)).

Lemma frame_head_v2_len p n b : lenN (frame_head_v2 p n b) = 20.
Proof. reflexivity. Qed.

(* WritePacket in closed form *)
Lemma write_v2_form enc zip thr has_c p :
  let '(b, fl) := marshal_body enc zip thr has_c p in
  let p' := set_flag p fl in
  let nbytes := hs2 + lenN (p_refers p) * 4 + lenN b in
  write_v2 enc zip thr has_c p =
    if max_u8 <? lenN (p_refers p) then mkWres None [] p
    else if max2 <? nbytes then mkWres None [] p'
    else mkWres (Some nbytes)
                [frame_head_v2 p' (nbytes mod 4294967296) b ++ be32s (p_refers p); b] p'.
Proof.
  unfold write_v2. destruct (marshal_body enc zip thr has_c p) as [b fl].
  destruct (max_u8 <? lenN (p_refers p)); [reflexivity|].
  destruct (max2 <? hs2 + lenN (p_refers p) * 4 + lenN b); [reflexivity|].
  rewrite put_refs_v2, pack_v2_zeros. unfold calc_checksum_v2.
  rewrite firstn16_head.
  change (skipn (N.to_nat hs2) (head16_v2 ?p ?k ?n ++ [0; 0; 0; 0] ++ ?r)) with r.
  rewrite set_checksum_v2_form. unfold frame_head_v2. cbn [set_flag p_refers].
  rewrite <- !app_assoc. reflexivity.
Qed.

(* ---------------------------------------------------------------------------------- *)
Section RoundTrip.
Variable enc dec : bytes -> bytes.
Variable zip : bytes -> bytes.
Variable unzip : bytes -> option bytes.
Hypothesis dec_enc : forall b, dec (enc b) = b.
Hypothesis enc_len : forall b, lenN (enc b) = lenN b.
Hypothesis unzip_zip : forall b, unzip (zip b) = Some b.
Hypothesis zip_nonempty : forall b, 0 < lenN (zip b).

(* what the decoder returns for the frame of [p] when it starts from the packet [p0] *)
Definition decoded_v2 (p p0 : packet) : packet :=
  mkPacket (p_cmd p) (p_seq p) (p_flag p) (p_typ p) (p_node p)
           (match p_refers p with [] => p_refers p0 | _ => p_refers p end)
           (match body_bytes (p_body p) with [] => p_body p0 | _ => decoded_body p end).

Theorem roundtrip_v2 thr has_c hd p n ws p' s rest p0 :
  (has_c = true -> hd = true) ->
  wf_packet p -> clean_flags p ->
  write_v2 enc zip thr has_c p = mkWres (Some n) ws p' ->
  concat s = concat ws ++ rest ->
  let r := read_packet_v2 dec unzip hd s p0 in
  r_out r = Ok (decoded_v2 p p0) /\ concat (r_rest r) = rest
  /\ r_allocs r = [n - hs2] /\ r_reads r = [hs2; n - hs2].
Proof.
  intros Himp W Hc Hw Hs r. subst r.
  pose proof (write_v2_form enc zip thr has_c p) as F. rewrite Hw in F.
  destruct (marshal_body enc zip thr has_c p) as [b fl] eqn:M. cbv zeta in F.
  destruct (max_u8 <? lenN (p_refers p)) eqn:Hrefs; [discriminate|]. apply N.ltb_ge in Hrefs.
  destruct (max2 <? hs2 + lenN (p_refers p) * 4 + lenN b) eqn:Hmax; [discriminate|].
  apply N.ltb_ge in Hmax.
  pose proof (some_inj _ _ (f_equal w_ret F)) as E1. pose proof (f_equal w_writes F) as E2.
  pose proof (f_equal w_pkt F) as E3. cbn [w_ret w_writes w_pkt] in E1, E2, E3. clear F.
  subst n ws p'.
  set (refs := p_refers p) in *.
  set (n := hs2 + lenN refs * 4 + lenN b) in *.
  assert (Hfl : fl < 256) by (eapply marshal_flag_lt; eauto; apply W).
  assert (Hmax' : n <= 8388608) by exact Hmax.
  assert (Hn : n mod 4294967296 = n) by (apply N.mod_small; lia).
  rewrite Hn in *.
  set (h := frame_head_v2 (set_flag p fl) n b) in *.
  cbn [concat] in Hs. rewrite app_nil_r in Hs. repeat rewrite <- app_assoc in Hs.
  unfold read_packet_v2, read_head_body_v2.
  destruct (read_full_ok hs2 s h (be32s refs ++ b ++ rest) Hs (frame_head_v2_len _ _ _)) as (s1 & R1 & C1).
  rewrite R1.
  assert (G24 : get24 h = n).
  { unfold h, frame_head_v2, head16_v2. rewrite <- !app_assoc. rewrite get24_be24; [reflexivity|lia]. }
  rewrite G24.
  assert (Hhs : hs2 = 20) by reflexivity.
  destruct (N.ltb_spec max2 n) as [X|_]; [unfold max2, codec_V2MaxPayloadBytes in X; lia|].
  destruct (N.ltb_spec n hs2) as [X|_]; [unfold n in X; lia|].
  assert (Hlen : (n + 4294967296 - hs2) mod 4294967296 = lenN (be32s refs ++ b)).
  { rewrite lenN_app, be32s_lenN.
    replace (n + 4294967296 - hs2) with (4 * lenN refs + lenN b + 1 * 4294967296) by (unfold n; lia).
    rewrite N.mod_add by discriminate. apply N.mod_small. unfold n in Hmax'. lia. }
  rewrite Hlen. rewrite app_assoc in C1.
  destruct (read_full_ok _ s1 (be32s refs ++ b) rest C1 eq_refl) as (s2 & R2 & C2).
  rewrite R2. cbn [r_out r_rest r_allocs r_reads].
  replace (n - hs2) with (lenN (be32s refs ++ b)) by (rewrite lenN_app, be32s_lenN; unfold n; lia).
  split; [|split; [assumption|split; reflexivity]].
  (* UnmarshalPacket *)
  unfold unmarshal_v2. unfold h at 1. rewrite frame_head_v2_len.
  destruct (N.ltb_spec 20 hs2) as [X|_]; [lia|].
  assert (Ecrc : calc_checksum_v2 h [] (be32s refs ++ b) =? get32 (skipn 16 h) = true).
  { apply N.eqb_eq. unfold calc_checksum_v2, h, frame_head_v2. rewrite firstn16_head.
    change (skipn 16 (head16_v2 ?q ?k ?m ++ ?x)) with x. cbn [app set_flag p_refers].
    fold refs.
    rewrite <- (app_nil_r (be32 _)). rewrite get32_be32 by apply crc32_lt. reflexivity. }
  rewrite Ecrc. cbn [negb].
  set (crc := crc32 (head16_v2 (set_flag p fl) (lenN (p_refers (set_flag p fl))) n ++ be32s (p_refers (set_flag p fl)) ++ b)) in *.
  assert (Ecmd : i32_of_n (get32 (skipn 12 h)) = p_cmd p).
  { change (skipn 12 h) with (be32 (u32_of_z (p_cmd p)) ++ be32 crc).
    rewrite get32_be32 by apply u32_lt. apply i32_u32. apply W. }
  assert (Enode : get32 (skipn 8 h) = p_node p).
  { change (skipn 8 h) with (be32 (p_node p) ++ be32 (u32_of_z (p_cmd p)) ++ be32 crc).
    apply get32_be32. apply W. }
  assert (Eseq : get16 (skipn 6 h) = p_seq p).
  { change (skipn 6 h) with (be16 (p_seq p) ++ be32 (p_node p) ++ be32 (u32_of_z (p_cmd p)) ++ be32 crc).
    apply get16_be16. apply W. }
  assert (Eflag : byte_at 4 h = fl).
  { change (byte_at 4 h) with (fl mod 256). apply N.mod_small. assumption. }
  assert (Etyp : i8_of_n (byte_at 3 h) = p_typ p).
  { change (byte_at 3 h) with (u8_of_z (p_typ p)). apply i8_u8. apply W. }
  assert (Eref : byte_at 5 h = lenN refs).
  { change (byte_at 5 h) with (lenN refs mod 256). apply N.mod_small. unfold max_u8 in Hrefs. lia. }
  rewrite Ecmd, Enode, Eseq, Eflag, Etyp, Eref.
  (* the reference list *)
  assert (Hwire : forall q, p_flag q = fl ->
    (if (0 <? lenN b) || negb (N.land (p_flag q) fMarshal =? 0)
     then unmarshal_body dec unzip hd b q else Ok q) =
    Ok (mkPacket (p_cmd q) (p_seq q) (p_flag p) (p_typ q) (p_node q) (p_refers q)
                 (match body_bytes (p_body p) with [] => p_body q | _ => decoded_body p end))).
  { intros q Hq. destruct (N.ltb_spec 0 (lenN b)) as [Hb|Hb]; cbn [orb].
    - destruct (unmarshal_marshal enc dec zip unzip dec_enc enc_len unzip_zip zip_nonempty thr has_c hd p b fl q Himp) as [U HB];
        try assumption; [apply W|].
      rewrite U. unfold set_body, set_flag. cbn [p_cmd p_seq p_flag p_typ p_node p_refers p_body].
      destruct (body_bytes (p_body p)); [cbn in HB; lia|reflexivity].
    - destruct (marshal_empty enc dec zip unzip dec_enc enc_len unzip_zip zip_nonempty thr has_c p b fl M) as [E0 E]; [lia|].
      rewrite (ldiff_marshal_clean _ Hc) in E0.
      rewrite Hq, E0. change (N.land (p_flag p) fMarshal) with (N.land (p_flag p) 3). rewrite Hc.
      cbn [N.eqb negb]. rewrite E. destruct q as [c sq fg ty nd rf bd]. cbn [p_flag] in Hq.
      cbn [p_cmd p_seq p_flag p_typ p_node p_refers p_body]. rewrite <- E0, <- Hq. reflexivity. }
  destruct (N.ltb_spec 0 (lenN refs)) as [Hr|Hr].
  - rewrite lenN_app, be32s_lenN.
    destruct (N.ltb_spec (4 * lenN refs + lenN b) (lenN refs * 4)) as [X|_]; [lia|].
    replace (N.to_nat (lenN refs)) with (length refs) by (unfold lenN; lia).
    rewrite read_refs_be32s by apply W.
    destruct (N.ltb_spec (4 * lenN refs + lenN b) (lenN refs * 4)) as [X|_]; [lia|].
    replace (lenN refs * 4) with (lenN (be32s refs)) by (rewrite be32s_lenN; lia).
    rewrite dropN_app_exact.
    rewrite Hwire by reflexivity. unfold decoded_v2, set_refers.
    cbn [p_cmd p_seq p_flag p_typ p_node p_refers p_body]. fold refs.
    destruct refs; [cbn in Hr; lia|reflexivity].
  - assert (refs = []) by (apply lenN_0; lia).
    destruct (N.ltb_spec (lenN (be32s refs ++ b)) 0) as [X|_]; [lia|].
    rewrite dropN_0. rewrite H. cbn [be32s flat_map app].
    rewrite Hwire by reflexivity. unfold decoded_v2.
    cbn [p_cmd p_seq p_flag p_typ p_node p_refers p_body]. fold refs. rewrite H. reflexivity.
Qed.

End RoundTrip.
