(* C01 / C02 — io.ReadFull over a chunked stream depends only on the concatenation of the
   chunks: the chunked readers of Model.v are related to flat readers over one byte string. *)
From Coq Require Import Arith ZArith NArith List Bool Lia ZifyNat ZifyN ZifyBool.
From FV Require Import Generated.Consts Lib.NList Lib.BE Lib.Crc32 C01.Model.
Import ListNotations.
Open Scope N_scope.

(* reading n bytes from a flat byte string *)
Definition eof_err (d : bytes) : rerr := match d with [] => EEOF | _ => EUnexpectedEOF end.

Definition flat_read (n : N) (d : bytes) : outcome bytes * bytes :=
  if n <=? lenN d then (Ok (takeN n d), dropN n d) else (Err (eof_err d), []).

Lemma read_full_go_flat n acc s : 0 < n ->
  fst (read_full_go n acc s) =
    (if n <=? lenN (concat s) then Ok (acc ++ takeN n (concat s))
     else Err (eof_err (acc ++ concat s)))
  /\ concat (snd (read_full_go n acc s)) =
    (if n <=? lenN (concat s) then dropN n (concat s) else []).
Proof.
  revert n acc. induction s as [|c s IH]; intros n acc Hn.
  - cbn [read_full_go concat fst snd]. rewrite lenN_nil.
    destruct (N.leb_spec n 0) as [H|H]; [lia|]. rewrite app_nil_r. split; reflexivity.
  - cbn [read_full_go concat]. rewrite lenN_app.
    destruct (N.leb_spec n (lenN c)) as [Hc|Hc].
    + cbn [fst snd concat].
      destruct (N.leb_spec n (lenN c + lenN (concat s))) as [H|H]; [|lia].
      rewrite takeN_app_le, dropN_app_le by assumption. split; reflexivity.
    + specialize (IH (n - lenN c) (acc ++ c)). destruct IH as [IH1 IH2]; [lia|].
      rewrite IH1, IH2.
      destruct (N.leb_spec (n - lenN c) (lenN (concat s))) as [H|H];
        destruct (N.leb_spec n (lenN c + lenN (concat s))) as [H'|H']; try lia.
      * rewrite takeN_app_ge, dropN_app_ge by lia. rewrite <- app_assoc. split; reflexivity.
      * rewrite <- app_assoc. split; reflexivity.
Qed.

Lemma read_full_flat n s :
  fst (read_full n s) = fst (flat_read n (concat s))
  /\ concat (snd (read_full n s)) = snd (flat_read n (concat s)).
Proof.
  unfold read_full, flat_read.
  destruct (N.eqb_spec n 0) as [->|Hn].
  - replace (0 <=? lenN (concat s)) with true by (symmetry; apply N.leb_le; lia).
    cbn [fst snd]. rewrite takeN_0, dropN_0. split; reflexivity.
  - destruct (read_full_go_flat n [] s) as [H1 H2]; [lia|].
    rewrite H1, H2. cbn [app].
    destruct (n <=? lenN (concat s)); split; reflexivity.
Qed.

(* the two most used instances *)
Lemma read_full_ok n s d1 d2 :
  concat s = d1 ++ d2 -> lenN d1 = n ->
  exists s', read_full n s = (Ok d1, s') /\ concat s' = d2.
Proof.
  intros Hs Hn. destruct (read_full_flat n s) as [H1 H2].
  destruct (read_full n s) as [o s'] eqn:E. cbn [fst snd] in *.
  unfold flat_read in *. rewrite Hs, lenN_app in *.
  destruct (N.leb_spec n (lenN d1 + lenN d2)) as [H|H]; [|lia].
  cbn [fst snd] in *. subst n. rewrite takeN_app_exact in H1. rewrite dropN_app_exact in H2.
  exists s'. subst o. split; [reflexivity|assumption].
Qed.

Lemma read_full_short n s :
  lenN (concat s) < n ->
  exists s', read_full n s = (Err (eof_err (concat s)), s') /\ concat s' = [].
Proof.
  intros Hn. destruct (read_full_flat n s) as [H1 H2].
  destruct (read_full n s) as [o s'] eqn:E. cbn [fst snd] in *.
  unfold flat_read in *.
  destruct (N.leb_spec n (lenN (concat s))) as [H|H]; [lia|].
  cbn [fst snd] in *. exists s'. subst o. split; [reflexivity|assumption].
Qed.

(* a successful read returns exactly n bytes *)
Lemma read_full_ok_len n s b s' : read_full n s = (Ok b, s') -> lenN b = n.
Proof.
  intros E. destruct (read_full_flat n s) as [H1 _]. rewrite E in H1. cbn [fst] in H1.
  unfold flat_read in H1. destruct (N.leb_spec n (lenN (concat s))) as [H|H]; cbn [fst] in H1.
  - injection H1 as ->. apply lenN_takeN. assumption.
  - discriminate.
Qed.

Lemma read_full_no_panic n s s' : read_full n s <> (Panic, s').
Proof.
  intros E. destruct (read_full_flat n s) as [H1 _]. rewrite E in H1. cbn [fst] in H1.
  unfold flat_read in H1. destruct (n <=? lenN (concat s)); discriminate.
Qed.

(* the same stream content, chunked differently *)
Lemma read_full_chunking n s1 s2 :
  concat s1 = concat s2 ->
  fst (read_full n s1) = fst (read_full n s2)
  /\ concat (snd (read_full n s1)) = concat (snd (read_full n s2)).
Proof.
  intros H. destruct (read_full_flat n s1) as [A1 A2], (read_full_flat n s2) as [B1 B2].
  rewrite A1, A2, B1, B2, H. split; reflexivity.
Qed.

(* inversion of a read *)
Lemma read_full_ok_inv n s b s' : read_full n s = (Ok b, s') ->
  n <= lenN (concat s) /\ b = takeN n (concat s) /\ concat s' = dropN n (concat s).
Proof.
  intros E. destruct (read_full_flat n s) as [H1 H2]. rewrite E in H1, H2. cbn [fst snd] in *.
  unfold flat_read in *. destruct (N.leb_spec n (lenN (concat s))) as [H|H]; cbn [fst snd] in *.
  - injection H1 as ->. repeat split; assumption.
  - discriminate.
Qed.

Lemma read_full_err_inv n s e s' : read_full n s = (Err e, s') ->
  lenN (concat s) < n /\ e = eof_err (concat s) /\ concat s' = [].
Proof.
  intros E. destruct (read_full_flat n s) as [H1 H2]. rewrite E in H1, H2. cbn [fst snd] in *.
  unfold flat_read in *. destruct (N.leb_spec n (lenN (concat s))) as [H|H]; cbn [fst snd] in *.
  - discriminate.
  - injection H1 as ->. repeat split; assumption.
Qed.
