(* C01 — the property-level lemmas: round trip in terms of the fields the statement names,
   streams of frames, chunking independence, layout, reported size, caller's fields, limits,
   and the length-prefixed helper. *)
From Coq Require Import Arith ZArith NArith List Bool Lia ZifyNat ZifyN ZifyBool.
From FV Require Import Generated.Consts Lib.NList Lib.BE Lib.Crc32 C01.Model C01.RunLib C01.ProofsIO
     C01.ProofsBits C01.ProofsV1 C01.ProofsV2.
Import ListNotations.
Open Scope N_scope.

Ltac Zify.zify_post_hook ::= Z.div_mod_to_equations.

(* the cipher pair and zlib as the property assumes them *)
Record codec_env (enc dec zip : bytes -> bytes) (unzip : bytes -> option bytes) : Prop := mkEnv {
  env_dec_enc : forall b, dec (enc b) = b;
  env_enc_len : forall b, lenN (enc b) = lenN b;
  env_unzip_zip : forall b, unzip (zip b) = Some b;
  env_zip_nonempty : forall b, 0 < lenN (zip b) }.

(* ---------------------------------------------------------------------------------- *)
(* round trip, as the statement words it *)

Definition same_v1 (p q : packet) : Prop :=
  p_cmd q = p_cmd p /\ p_seq q = p_seq p /\ p_flag q = p_flag p
  /\ body_bytes (p_body q) = body_bytes (p_body p).

Definition same_v2 (p q : packet) : Prop :=
  same_v1 p q /\ p_typ q = p_typ p /\ p_node q = p_node p /\ p_refers q = p_refers p.

Lemma decoded_v1_same p : body_ok p -> same_v1 p (decoded_v1 p packet0).
Proof.
  intros Hb. unfold same_v1, decoded_v1. cbn [p_cmd p_seq p_flag p_body packet0].
  repeat split. destruct (body_bytes (p_body p)) eqn:E; [reflexivity|].
  rewrite <- E. apply decoded_body_bytes. assumption.
Qed.

Lemma decoded_v2_same p : body_ok p -> same_v2 p (decoded_v2 p packet0).
Proof.
  intros Hb. unfold same_v2, same_v1, decoded_v2.
  cbn [p_cmd p_seq p_flag p_typ p_node p_refers p_body packet0].
  repeat split.
  - destruct (body_bytes (p_body p)) eqn:E; [reflexivity|].
    rewrite <- E. apply decoded_body_bytes. assumption.
  - destruct (p_refers p); reflexivity.
Qed.

Lemma roundtrip_v1_fields enc dec zip unzip : codec_env enc dec zip unzip ->
  forall thr has_c hd p n ws p' s rest,
  (has_c = true -> hd = true) ->
  wf_packet p -> clean_flags p -> body_ok p ->
  write_v1 enc zip thr has_c p = mkWres (Some n) ws p' ->
  concat s = concat ws ++ rest ->
  exists q, r_out (read_packet_v1 dec unzip hd s packet0) = Ok q
            /\ concat (r_rest (read_packet_v1 dec unzip hd s packet0)) = rest
            /\ same_v1 p q.
Proof.
  intros [E1 E2 E3 E4] thr has_c hd p n ws p' s rest Himp W Hc Hb Hw Hs.
  destruct (roundtrip_v1 enc dec zip unzip E1 E2 E3 E4 thr has_c hd p n ws p' s rest packet0 Himp W Hc Hw Hs)
    as (R1 & R2 & _).
  exists (decoded_v1 p packet0). split; [assumption|]. split; [assumption|].
  apply decoded_v1_same. assumption.
Qed.

Lemma roundtrip_v2_fields enc dec zip unzip : codec_env enc dec zip unzip ->
  forall thr has_c hd p n ws p' s rest,
  (has_c = true -> hd = true) ->
  wf_packet p -> clean_flags p -> body_ok p ->
  write_v2 enc zip thr has_c p = mkWres (Some n) ws p' ->
  concat s = concat ws ++ rest ->
  exists q, r_out (read_packet_v2 dec unzip hd s packet0) = Ok q
            /\ concat (r_rest (read_packet_v2 dec unzip hd s packet0)) = rest
            /\ same_v2 p q.
Proof.
  intros [E1 E2 E3 E4] thr has_c hd p n ws p' s rest Himp W Hc Hb Hw Hs.
  destruct (roundtrip_v2 enc dec zip unzip E1 E2 E3 E4 thr has_c hd p n ws p' s rest packet0 Himp W Hc Hw Hs)
    as (R1 & R2 & _).
  exists (decoded_v2 p packet0). split; [assumption|]. split; [assumption|].
  apply decoded_v2_same. assumption.
Qed.

(* ---------------------------------------------------------------------------------- *)
(* round trip for ANY caller flag: marshalling bits left on the packet (by an earlier encode of
   the same object, or set by the caller) are dropped by the encoder, so the packet behaves as
   its normal form *)

Definition normalize (p : packet) : packet := set_flag p (N.ldiff (p_flag p) fMarshal).

Definition flags_norm_ok (f : N) : bool :=
  let f0 := N.ldiff f fMarshal in
  (f0 <? 256) && (N.land f0 3 =? 0) && (N.land f0 fError =? N.land f fError)
  && (N.ldiff f0 fMarshal =? f0).

Lemma flags_norm_sweep f : f < 256 -> flags_norm_ok f = true.
Proof.
  intros H.
  assert (E : forallb flags_norm_ok (map N.of_nat (seq 0 256)) = true) by (vm_compute; reflexivity).
  rewrite forallb_forall in E. apply E.
  apply in_map_iff. exists (N.to_nat f). split; [lia|]. apply in_seq. lia.
Qed.

Lemma flags_norm_facts f : f < 256 ->
  N.ldiff f fMarshal < 256 /\ N.land (N.ldiff f fMarshal) 3 = 0
  /\ N.land (N.ldiff f fMarshal) fError = N.land f fError
  /\ N.ldiff (N.ldiff f fMarshal) fMarshal = N.ldiff f fMarshal.
Proof.
  intros H. pose proof (flags_norm_sweep f H) as S. unfold flags_norm_ok in S. cbv zeta in S.
  repeat (apply andb_prop in S; destruct S as [S ?]).
  repeat match goal with
         | H : (_ =? _) = true |- _ => apply N.eqb_eq in H
         | H : (_ <? _) = true |- _ => apply N.ltb_lt in H
         end.
  repeat split; assumption.
Qed.

Lemma normalize_sendable p : wf_packet p -> body_ok p ->
  wf_packet (normalize p) /\ clean_flags (normalize p) /\ body_ok (normalize p).
Proof.
  intros W B. destruct (flags_norm_facts _ (wf_flag p W)) as (F1 & F2 & F3 & _).
  split; [|split].
  - destruct W. constructor; cbn [normalize set_flag p_cmd p_seq p_flag p_typ p_node p_refers]; assumption.
  - unfold clean_flags. cbn. exact F2.
  - unfold body_ok in *. cbn [normalize set_flag p_flag p_body]. rewrite F3. exact B.
Qed.

Lemma marshal_body_normalize enc zip thr hc p : p_flag p < 256 ->
  marshal_body enc zip thr hc (normalize p) = marshal_body enc zip thr hc p.
Proof.
  intros Hf. destruct (flags_norm_facts _ Hf) as (_ & _ & _ & F4).
  unfold marshal_body. cbn [normalize set_flag p_flag p_body]. rewrite F4. reflexivity.
Qed.

Lemma write_v1_normalize enc zip thr hc p : p_flag p < 256 ->
  write_v1 enc zip thr hc (normalize p) = write_v1 enc zip thr hc p.
Proof.
  intros Hf. unfold write_v1. rewrite marshal_body_normalize by assumption.
  destruct (marshal_body enc zip thr hc p) as [b fl]. reflexivity.
Qed.

Lemma write_v2_normalize enc zip thr hc p n ws p' : p_flag p < 256 ->
  write_v2 enc zip thr hc p = mkWres (Some n) ws p' ->
  write_v2 enc zip thr hc (normalize p) = mkWres (Some n) ws p'.
Proof.
  intros Hf H. unfold write_v2 in *. cbn [normalize set_flag p_refers] in *.
  destruct (max_u8 <? lenN (p_refers p)); [discriminate|].
  rewrite marshal_body_normalize by assumption.
  destruct (marshal_body enc zip thr hc p) as [b fl]. exact H.
Qed.

Lemma roundtrip_v1_any enc dec zip unzip : codec_env enc dec zip unzip ->
  forall thr has_c hd p n ws p' s rest,
  (has_c = true -> hd = true) ->
  wf_packet p -> body_ok p ->
  write_v1 enc zip thr has_c p = mkWres (Some n) ws p' ->
  concat s = concat ws ++ rest ->
  exists q, r_out (read_packet_v1 dec unzip hd s packet0) = Ok q
            /\ concat (r_rest (read_packet_v1 dec unzip hd s packet0)) = rest
            /\ same_v1 (normalize p) q.
Proof.
  intros Env thr has_c hd p n ws p' s rest Himp W B Hw Hs.
  destruct (normalize_sendable p W B) as (W' & C' & B').
  rewrite <- (write_v1_normalize enc zip thr has_c p (wf_flag p W)) in Hw.
  exact (roundtrip_v1_fields enc dec zip unzip Env thr has_c hd (normalize p) n ws p' s rest Himp W' C' B' Hw Hs).
Qed.

Lemma roundtrip_v2_any enc dec zip unzip : codec_env enc dec zip unzip ->
  forall thr has_c hd p n ws p' s rest,
  (has_c = true -> hd = true) ->
  wf_packet p -> body_ok p ->
  write_v2 enc zip thr has_c p = mkWres (Some n) ws p' ->
  concat s = concat ws ++ rest ->
  exists q, r_out (read_packet_v2 dec unzip hd s packet0) = Ok q
            /\ concat (r_rest (read_packet_v2 dec unzip hd s packet0)) = rest
            /\ same_v2 (normalize p) q.
Proof.
  intros Env thr has_c hd p n ws p' s rest Himp W B Hw Hs.
  destruct (normalize_sendable p W B) as (W' & C' & B').
  apply (write_v2_normalize enc zip thr has_c p n ws p' (wf_flag p W)) in Hw.
  exact (roundtrip_v2_fields enc dec zip unzip Env thr has_c hd (normalize p) n ws p' s rest Himp W' C' B' Hw Hs).
Qed.

(* ---------------------------------------------------------------------------------- *)
(* chunking independence: the result depends only on the concatenation of the chunks *)

Definition rhb_same {A} (r1 r2 : rhb A) : Prop :=
  r_out r1 = r_out r2 /\ concat (r_rest r1) = concat (r_rest r2)
  /\ r_allocs r1 = r_allocs r2 /\ r_reads r1 = r_reads r2.

Ltac chunk_step s1 s2 H n :=
  let o1 := fresh "o" in let t1 := fresh "t" in let o2 := fresh "o" in let t2 := fresh "t" in
  let A := fresh "A" in let B := fresh "B" in
  destruct (read_full_chunking n s1 s2 H) as [A B];
  destruct (read_full n s1) as [o1 t1]; destruct (read_full n s2) as [o2 t2];
  cbn [fst snd] in A, B; subst o2.

Lemma head_body_v1_chunking s1 s2 : concat s1 = concat s2 ->
  rhb_same (read_head_body_v1 s1) (read_head_body_v1 s2).
Proof.
  intros H. unfold read_head_body_v1, rhb_same.
  destruct (read_full_chunking hs1 s1 s2 H) as [A B].
  destruct (read_full hs1 s1) as [o1 t1]; destruct (read_full hs1 s2) as [o2 t2].
  cbn [fst snd] in A, B. subst o2.
  destruct o1 as [h|e|]; cbn [r_out r_rest r_allocs r_reads]; try (repeat split; assumption).
  destruct (max1 <? get16 h); [cbn; repeat split; assumption|].
  destruct (get16 h <? hs1); [cbn; repeat split; assumption|].
  set (n := (get16 h + 65536 - hs1) mod 65536).
  destruct (read_full_chunking n t1 t2 B) as [A' B'].
  destruct (read_full n t1) as [o1 u1]; destruct (read_full n t2) as [o2 u2].
  cbn [fst snd] in A', B'. subst o2.
  destruct o1; cbn; repeat split; assumption.
Qed.

Lemma head_body_v2_chunking s1 s2 : concat s1 = concat s2 ->
  rhb_same (read_head_body_v2 s1) (read_head_body_v2 s2).
Proof.
  intros H. unfold read_head_body_v2, rhb_same.
  destruct (read_full_chunking hs2 s1 s2 H) as [A B].
  destruct (read_full hs2 s1) as [o1 t1]; destruct (read_full hs2 s2) as [o2 t2].
  cbn [fst snd] in A, B. subst o2.
  destruct o1 as [h|e|]; cbn [r_out r_rest r_allocs r_reads]; try (repeat split; assumption).
  destruct (max2 <? get24 h); [cbn; repeat split; assumption|].
  destruct (get24 h <? hs2); [cbn; repeat split; assumption|].
  set (n := (get24 h + 4294967296 - hs2) mod 4294967296).
  destruct (read_full_chunking n t1 t2 B) as [A' B'].
  destruct (read_full n t1) as [o1 u1]; destruct (read_full n t2) as [o2 u2].
  cbn [fst snd] in A', B'. subst o2.
  destruct o1; cbn; repeat split; assumption.
Qed.

Lemma read_packet_v1_chunking dec unzip has_dec p0 s1 s2 : concat s1 = concat s2 ->
  rhb_same (read_packet_v1 dec unzip has_dec s1 p0) (read_packet_v1 dec unzip has_dec s2 p0).
Proof.
  intros H. destruct (head_body_v1_chunking s1 s2 H) as (A & B & C & D).
  unfold read_packet_v1, rhb_same. rewrite <- A.
  destruct (r_out (read_head_body_v1 s1)) as [[h b]|e|]; cbn; repeat split; assumption.
Qed.

Lemma read_packet_v2_chunking dec unzip has_dec p0 s1 s2 : concat s1 = concat s2 ->
  rhb_same (read_packet_v2 dec unzip has_dec s1 p0) (read_packet_v2 dec unzip has_dec s2 p0).
Proof.
  intros H. destruct (head_body_v2_chunking s1 s2 H) as (A & B & C & D).
  unfold read_packet_v2, rhb_same. rewrite <- A.
  destruct (r_out (read_head_body_v2 s1)) as [[h b]|e|]; cbn; repeat split; assumption.
Qed.

(* ---------------------------------------------------------------------------------- *)
(* streams of frames: back-to-back frames decode independently and in order *)

Section Stream.
Variable A : Type.
Variable read : stream -> rhb A.     (* one ReadPacket call on a fresh packet *)

Fixpoint read_many (k : nat) (s : stream) : list (outcome A) * stream :=
  match k with
  | O => ([], s)
  | S k' => let r := read s in
            let '(l, s') := read_many k' (r_rest r) in (r_out r :: l, s')
  end.

Lemma read_many_S k s :
  read_many (S k) s = (r_out (read s) :: fst (read_many k (r_rest (read s))),
                       snd (read_many k (r_rest (read s)))).
Proof. cbn [read_many]. destruct (read_many k (r_rest (read s))); reflexivity. Qed.

Lemma read_many_frames (frames : list bytes) (expect : list A) :
  Forall2 (fun f q => forall s rest, concat s = f ++ rest ->
                      r_out (read s) = Ok q /\ concat (r_rest (read s)) = rest) frames expect ->
  forall s rest, concat s = concat frames ++ rest ->
  fst (read_many (length frames) s) = map Ok expect
  /\ concat (snd (read_many (length frames) s)) = rest.
Proof.
  induction 1 as [|f q fs qs Hf _ IH]; intros s rest Hs.
  - cbn. split; [reflexivity|exact Hs].
  - cbn [length concat map] in *. rewrite <- app_assoc in Hs.
    destruct (Hf s _ Hs) as [O R]. specialize (IH (r_rest (read s)) rest R).
    rewrite read_many_S. cbn [fst snd]. destruct IH as [IH1 IH2].
    rewrite O, IH1. split; [reflexivity|assumption].
Qed.
End Stream.

(* ---------------------------------------------------------------------------------- *)
(* layout, reported size, limits, caller's fields *)

Lemma layout_v1 enc zip thr has_c p n ws p' :
  p_flag p < 256 -> clean_flags p ->
  write_v1 enc zip thr has_c p = mkWres (Some n) ws p' ->
  let b := fst (marshal_body enc zip thr has_c p) in
  let head := be16 n ++ [u8_of_z (p_typ p); p_flag p'] ++ be16 (p_seq p) ++ be32 (u32_of_z (p_cmd p)) in
  concat ws = head ++ be32 (crc32 (head ++ b)) ++ b /\ n = lenN (concat ws) /\ n = 14 + lenN b.
Proof.
  intros Hf Hc Hw.
  pose proof (write_v1_form enc zip thr has_c p) as F. rewrite Hw in F.
  destruct (marshal_body enc zip thr has_c p) as [b fl] eqn:M. cbn [fst].
  destruct (max1 <? hs1 + lenN b) eqn:Hmax; [discriminate|]. apply N.ltb_ge in Hmax.
  pose proof (some_inj _ _ (f_equal w_ret F)) as E1. pose proof (f_equal w_writes F) as E2.
  pose proof (f_equal w_pkt F) as E3. cbn [w_ret w_writes w_pkt] in E1, E2, E3. clear F.
  subst n ws p'.
  assert (Hfl : fl < 256) by (eapply marshal_flag_lt; eauto).
  assert (Hn : (hs1 + lenN b) mod 65536 = hs1 + lenN b)
    by (apply N.mod_small; unfold max1, hs1, codec_V1MaxPayloadBytes, codec_V1HeaderSize in *; lia).
  rewrite Hn. cbn zeta. cbn [concat]. rewrite app_nil_r.
  unfold frame_head_v1, head10_v1. cbn [set_flag p_typ p_flag p_seq p_cmd].
  rewrite (N.mod_small fl 256) by assumption.
  match goal with |- ?l = ?r /\ _ => assert (Hcat : l = r) by (rewrite <- !app_assoc; reflexivity) end.
  split; [exact Hcat|split; [|reflexivity]].
  rewrite Hcat. repeat rewrite lenN_app. rewrite !be16_lenN, !be32_lenN.
  change (lenN [u8_of_z (p_typ p); fl]) with 2. unfold hs1, codec_V1HeaderSize. lia.
Qed.

Lemma layout_v2 enc zip thr has_c p n ws p' :
  p_flag p < 256 -> clean_flags p ->
  write_v2 enc zip thr has_c p = mkWres (Some n) ws p' ->
  let b := fst (marshal_body enc zip thr has_c p) in
  let nref := lenN (p_refers p) in
  let head := be24 n ++ [u8_of_z (p_typ p); p_flag p'; nref] ++ be16 (p_seq p)
              ++ be32 (p_node p) ++ be32 (u32_of_z (p_cmd p)) in
  concat ws = head ++ be32 (crc32 (head ++ be32s (p_refers p) ++ b)) ++ be32s (p_refers p) ++ b
  /\ n = lenN (concat ws) /\ n = 20 + 4 * nref + lenN b /\ nref <= 255.
Proof.
  intros Hf Hc Hw.
  pose proof (write_v2_form enc zip thr has_c p) as F. rewrite Hw in F.
  destruct (marshal_body enc zip thr has_c p) as [b fl] eqn:M. cbn [fst]. cbv zeta in F.
  destruct (max_u8 <? lenN (p_refers p)) eqn:Hrefs; [discriminate|]. apply N.ltb_ge in Hrefs.
  destruct (max2 <? hs2 + lenN (p_refers p) * 4 + lenN b) eqn:Hmax; [discriminate|].
  apply N.ltb_ge in Hmax.
  pose proof (some_inj _ _ (f_equal w_ret F)) as E1. pose proof (f_equal w_writes F) as E2.
  pose proof (f_equal w_pkt F) as E3. cbn [w_ret w_writes w_pkt] in E1, E2, E3. clear F.
  subst n ws p'.
  assert (Hfl : fl < 256) by (eapply marshal_flag_lt; eauto).
  assert (Hmax' : hs2 + lenN (p_refers p) * 4 + lenN b <= 8388608) by exact Hmax.
  rewrite (N.mod_small _ 4294967296) by lia.
  cbn zeta. cbn [concat]. rewrite app_nil_r.
  unfold frame_head_v2, head16_v2. cbn [set_flag p_typ p_flag p_seq p_cmd p_node p_refers].
  rewrite (N.mod_small fl 256) by assumption.
  rewrite (N.mod_small (lenN (p_refers p)) 256) by (unfold max_u8 in Hrefs; lia).
  match goal with |- ?l = ?r /\ _ => assert (Hcat : l = r) by (rewrite <- !app_assoc; reflexivity) end.
  split; [exact Hcat|split; [|split]].
  - rewrite Hcat. repeat rewrite lenN_app. rewrite !be16_lenN, !be32_lenN, !be24_lenN, !be32s_lenN.
    change (lenN [u8_of_z (p_typ p); fl; lenN (p_refers p)]) with 3. unfold hs2, codec_V2HeaderSize. lia.
  - unfold hs2, codec_V2HeaderSize. lia.
  - exact Hrefs.
Qed.

(* an error return never comes with bytes; a size is the size of what was written *)
Lemma write_v1_error_no_bytes enc zip thr has_c p :
  w_ret (write_v1 enc zip thr has_c p) = None -> w_writes (write_v1 enc zip thr has_c p) = [].
Proof.
  pose proof (write_v1_form enc zip thr has_c p) as F.
  destruct (marshal_body enc zip thr has_c p) as [b fl]. rewrite F.
  destruct (max1 <? hs1 + lenN b); cbn; [reflexivity|discriminate].
Qed.

Lemma write_v2_error_no_bytes enc zip thr has_c p :
  w_ret (write_v2 enc zip thr has_c p) = None -> w_writes (write_v2 enc zip thr has_c p) = [].
Proof.
  pose proof (write_v2_form enc zip thr has_c p) as F.
  destruct (marshal_body enc zip thr has_c p) as [b fl]. cbv zeta in F. rewrite F.
  destruct (max_u8 <? lenN (p_refers p)); [reflexivity|].
  destruct (max2 <? hs2 + lenN (p_refers p) * 4 + lenN b); cbn; [reflexivity|discriminate].
Qed.

(* exactly the packets beyond a limit are refused *)
Lemma write_v1_limit enc zip thr has_c p :
  let b := fst (marshal_body enc zip thr has_c p) in
  (max1 < hs1 + lenN b -> w_ret (write_v1 enc zip thr has_c p) = None)
  /\ (hs1 + lenN b <= max1 -> w_ret (write_v1 enc zip thr has_c p) = Some (hs1 + lenN b)).
Proof.
  pose proof (write_v1_form enc zip thr has_c p) as F.
  destruct (marshal_body enc zip thr has_c p) as [b fl]. cbn [fst]. cbv zeta. rewrite F.
  destruct (N.ltb_spec max1 (hs1 + lenN b)); split; intros; cbn; try reflexivity; lia.
Qed.

Lemma write_v2_limit enc zip thr has_c p :
  let b := fst (marshal_body enc zip thr has_c p) in
  let size := hs2 + lenN (p_refers p) * 4 + lenN b in
  (255 < lenN (p_refers p) \/ max2 < size -> w_ret (write_v2 enc zip thr has_c p) = None)
  /\ (lenN (p_refers p) <= 255 -> size <= max2 -> w_ret (write_v2 enc zip thr has_c p) = Some size).
Proof.
  pose proof (write_v2_form enc zip thr has_c p) as F.
  destruct (marshal_body enc zip thr has_c p) as [b fl]. cbn [fst]. cbv zeta in *. rewrite F.
  unfold max_u8.
  destruct (N.ltb_spec 255 (lenN (p_refers p)));
    destruct (N.ltb_spec max2 (hs2 + lenN (p_refers p) * 4 + lenN b)); split; intros; cbn;
    try reflexivity; lia.
Qed.

(* the closed form used by the limit probes of the correspondence check *)
Lemma marshal_plain enc zip thr p :
  lenN (body_bytes (p_body p)) <= thr ->
  marshal_body enc zip thr false p = (body_bytes (p_body p), N.ldiff (p_flag p) fMarshal).
Proof.
  intros H. unfold marshal_body.
  destruct (N.ltb_spec thr (lenN (body_bytes (p_body p)))) as [X|_]; [lia|].
  rewrite !andb_false_r. reflexivity.
Qed.

Lemma limit_predict_v1 enc zip thr p :
  lenN (body_bytes (p_body p)) <= thr ->
  w_ret (write_v1 enc zip thr false p)
  = limit_predict 1 (lenN (p_refers p)) (lenN (body_bytes (p_body p))).
Proof.
  intros H. pose proof (write_v1_limit enc zip thr false p) as L. cbv zeta in L.
  rewrite marshal_plain in L by assumption. cbn [fst] in L. destruct L as [L1 L2].
  unfold limit_predict. cbn [Z.eqb].
  destruct (N.ltb_spec max1 (hs1 + lenN (body_bytes (p_body p)))); [apply L1|apply L2]; assumption.
Qed.

Lemma limit_predict_v2 enc zip thr p :
  lenN (body_bytes (p_body p)) <= thr ->
  w_ret (write_v2 enc zip thr false p)
  = limit_predict 2 (lenN (p_refers p)) (lenN (body_bytes (p_body p))).
Proof.
  intros H. pose proof (write_v2_limit enc zip thr false p) as L. cbv zeta in L.
  rewrite marshal_plain in L by assumption. cbn [fst] in L. destruct L as [L1 L2].
  unfold limit_predict, max_u8. cbn [Z.eqb].
  destruct (N.ltb_spec 255 (lenN (p_refers p))) as [X|X]; [apply L1; left; assumption|].
  destruct (N.ltb_spec max2 (hs2 + lenN (p_refers p) * 4 + lenN (body_bytes (p_body p)))) as [Y|Y];
    [apply L1; right; assumption|apply L2; assumption].
Qed.

(* the caller's packet: only the flag may change, and only by the two marshalling bits *)
Definition only_flag_bits (p p' : packet) : Prop :=
  p_cmd p' = p_cmd p /\ p_seq p' = p_seq p /\ p_typ p' = p_typ p /\ p_node p' = p_node p
  /\ p_refers p' = p_refers p
  /\ N.ldiff (p_flag p') 3 = N.ldiff (p_flag p) 3.

Lemma marshal_flag_bits enc zip thr has_c p :
  p_flag p < 256 ->
  N.ldiff (snd (marshal_body enc zip thr has_c p)) 3 = N.ldiff (p_flag p) 3.
Proof.
  intros Hf. pose proof (flags_caller_sweep _ Hf) as H. unfold flags_caller_ok in H. cbv zeta in H.
  repeat (apply andb_prop in H; destruct H as [H ?]).
  repeat match goal with H : (_ =? _) = true |- _ => apply N.eqb_eq in H end.
  unfold marshal_body. cbv zeta.
  destruct ((0 <? thr) && (thr <? lenN (body_bytes (p_body p))));
    match goal with |- context [if ?c then _ else _] => destruct c end; cbn [snd]; assumption.
Qed.

Lemma write_v1_caller enc zip thr has_c p :
  p_flag p < 256 -> only_flag_bits p (w_pkt (write_v1 enc zip thr has_c p)).
Proof.
  intros Hf. pose proof (marshal_flag_bits enc zip thr has_c p Hf) as B1.
  pose proof (write_v1_form enc zip thr has_c p) as F.
  destruct (marshal_body enc zip thr has_c p) as [b fl]. cbn [snd] in *. rewrite F.
  destruct (max1 <? hs1 + lenN b); cbn; repeat split; assumption.
Qed.

Lemma write_v2_caller enc zip thr has_c p :
  p_flag p < 256 -> only_flag_bits p (w_pkt (write_v2 enc zip thr has_c p)).
Proof.
  intros Hf. pose proof (marshal_flag_bits enc zip thr has_c p Hf) as B1.
  pose proof (write_v2_form enc zip thr has_c p) as F.
  destruct (marshal_body enc zip thr has_c p) as [b fl]. cbn [snd] in *. cbv zeta in F. rewrite F.
  destruct (max_u8 <? lenN (p_refers p)).
  - cbn. repeat split.
  - destruct (max2 <? hs2 + lenN (p_refers p) * 4 + lenN b); cbn; repeat split; assumption.
Qed.

(* the reported size is the number of bytes handed to the writer, for every packet *)
Lemma write_v1_size enc zip thr has_c p n :
  w_ret (write_v1 enc zip thr has_c p) = Some n ->
  n = lenN (concat (w_writes (write_v1 enc zip thr has_c p))).
Proof.
  pose proof (write_v1_form enc zip thr has_c p) as F.
  destruct (marshal_body enc zip thr has_c p) as [b fl]. rewrite F.
  destruct (max1 <? hs1 + lenN b); cbn [w_ret w_writes]; [discriminate|].
  intros E. apply some_inj in E. subst n. cbn [concat]. rewrite app_nil_r, lenN_app, frame_head_v1_len.
  reflexivity.
Qed.

Lemma write_v2_size enc zip thr has_c p n :
  w_ret (write_v2 enc zip thr has_c p) = Some n ->
  n = lenN (concat (w_writes (write_v2 enc zip thr has_c p))).
Proof.
  pose proof (write_v2_form enc zip thr has_c p) as F.
  destruct (marshal_body enc zip thr has_c p) as [b fl]. cbv zeta in F. rewrite F.
  destruct (max_u8 <? lenN (p_refers p)); [discriminate|].
  destruct (max2 <? hs2 + lenN (p_refers p) * 4 + lenN b); cbn [w_ret w_writes]; [discriminate|].
  intros E. apply some_inj in E. subst n. cbn [concat].
  rewrite app_nil_r, !lenN_app, frame_head_v2_len, be32s_lenN. cbn [set_flag p_refers].
  unfold hs2, codec_V2HeaderSize. lia.
Qed.

(* n frames written one after the other come back as the n packets, in order *)
Definition sendable (p : packet) : Prop := wf_packet p /\ clean_flags p /\ body_ok p.

Lemma stream_v1 enc dec zip unzip : codec_env enc dec zip unzip ->
  forall hd ps frames,
  Forall sendable ps ->
  Forall2 (fun p f => exists thr has_c n ws p', (has_c = true -> hd = true)
                                      /\ write_v1 enc zip thr has_c p = mkWres (Some n) ws p'
                                      /\ f = concat ws) ps frames ->
  forall s rest, concat s = concat frames ++ rest ->
  let res := read_many _ (fun s => read_packet_v1 dec unzip hd s packet0) (length frames) s in
  exists qs, fst res = map Ok qs /\ Forall2 same_v1 ps qs /\ concat (snd res) = rest.
Proof.
  intros Env hd ps frames Hs HF s rest Hc res.
  exists (map (fun p => decoded_v1 p packet0) ps).
  assert (F2 : Forall2 (fun f q => forall s rest, concat s = f ++ rest ->
                r_out (read_packet_v1 dec unzip hd s packet0) = Ok q
                /\ concat (r_rest (read_packet_v1 dec unzip hd s packet0)) = rest)
               frames (map (fun p => decoded_v1 p packet0) ps)).
  { clear Hc res s rest. induction HF as [|p f ps fs (thr & has_c & n & ws & p' & Himp & Hw & ->) _ IH]; [constructor|].
    inversion Hs as [|? ? (W & Hcl & Hb) Hs']; subst. cbn [map]. constructor; [|apply IH; assumption].
    intros s rest Hc. destruct Env as [E1 E2 E3 E4].
    destruct (roundtrip_v1 enc dec zip unzip E1 E2 E3 E4 thr has_c hd p n ws p' s rest packet0 Himp W Hcl Hw Hc)
      as (R1 & R2 & _). split; assumption. }
  destruct (read_many_frames _ _ frames _ F2 s rest Hc) as [A B].
  split; [exact A|split; [|exact B]].
  clear -Hs. induction Hs as [|p ps (W & Hcl & Hb) _ IH]; cbn [map]; constructor; [|assumption].
  apply decoded_v1_same. assumption.
Qed.

Lemma stream_v2 enc dec zip unzip : codec_env enc dec zip unzip ->
  forall hd ps frames,
  Forall sendable ps ->
  Forall2 (fun p f => exists thr has_c n ws p', (has_c = true -> hd = true)
                                      /\ write_v2 enc zip thr has_c p = mkWres (Some n) ws p'
                                      /\ f = concat ws) ps frames ->
  forall s rest, concat s = concat frames ++ rest ->
  let res := read_many _ (fun s => read_packet_v2 dec unzip hd s packet0) (length frames) s in
  exists qs, fst res = map Ok qs /\ Forall2 same_v2 ps qs /\ concat (snd res) = rest.
Proof.
  intros Env hd ps frames Hs HF s rest Hc res.
  exists (map (fun p => decoded_v2 p packet0) ps).
  assert (F2 : Forall2 (fun f q => forall s rest, concat s = f ++ rest ->
                r_out (read_packet_v2 dec unzip hd s packet0) = Ok q
                /\ concat (r_rest (read_packet_v2 dec unzip hd s packet0)) = rest)
               frames (map (fun p => decoded_v2 p packet0) ps)).
  { clear Hc res s rest. induction HF as [|p f ps fs (thr & has_c & n & ws & p' & Himp & Hw & ->) _ IH]; [constructor|].
    inversion Hs as [|? ? (W & Hcl & Hb) Hs']; subst. cbn [map]. constructor; [|apply IH; assumption].
    intros s rest Hc. destruct Env as [E1 E2 E3 E4].
    destruct (roundtrip_v2 enc dec zip unzip E1 E2 E3 E4 thr has_c hd p n ws p' s rest packet0 Himp W Hcl Hw Hc)
      as (R1 & R2 & _). split; assumption. }
  destruct (read_many_frames _ _ frames _ F2 s rest Hc) as [A B].
  split; [exact A|split; [|exact B]].
  clear -Hs. induction Hs as [|p ps (W & Hcl & Hb) _ IH]; cbn [map]; constructor; [|assumption].
  apply decoded_v2_same. assumption.
Qed.

(* ---------------------------------------------------------------------------------- *)
(* a writer that fails after k bytes *)

Lemma run_writer_fits ws : forall k, lenN (concat ws) <= k ->
  run_writer k ws = (ws, true, lenN (concat ws)).
Proof.
  induction ws as [|w r IH]; intros k H; [reflexivity|].
  cbn [run_writer concat] in *. rewrite lenN_app in H.
  destruct (N.leb_spec (lenN w) k) as [_|X]; [|lia].
  rewrite IH by lia. rewrite lenN_app. reflexivity.
Qed.

Lemma run_writer_short ws : forall k, k < lenN (concat ws) ->
  exists c rest, run_writer k ws = (c, false, k) /\ ws = c ++ rest /\ c <> [].
Proof.
  induction ws as [|w r IH]; intros k H; [cbn in H; lia|].
  cbn [run_writer concat] in *. rewrite lenN_app in H.
  destruct (N.leb_spec (lenN w) k) as [L|L].
  - destruct (IH (k - lenN w)) as (c & rest & E & -> & Hc); [lia|]. rewrite E.
    exists (w :: c), rest. split; [f_equal; lia|]. split; [reflexivity|discriminate].
  - exists [w], r. split; [reflexivity|]. split; [reflexivity|discriminate].
Qed.

(* a WritePacket result against a writer with room for k bytes: with room for the whole frame
   nothing changes; otherwise the error is reported, the Write calls made are a non-empty
   prefix of the frame's calls (none after the failing one) and the caller's packet is as after
   a successful call *)
Definition writer_outcome (k : N) (w : wres) (n : N) : Prop :=
  (n <= k -> to_writer k w = w)
  /\ (k < n -> w_ret (to_writer k w) = None
              /\ w_pkt (to_writer k w) = w_pkt w
              /\ exists rest, w_writes w = w_writes (to_writer k w) ++ rest
                              /\ w_writes (to_writer k w) <> []).

Lemma to_writer_outcome k w n :
  w_ret w = Some n -> n = lenN (concat (w_writes w)) -> writer_outcome k w n.
Proof.
  intros Hr Hn. unfold writer_outcome, to_writer. rewrite Hr. split; intros H.
  - rewrite run_writer_fits by lia. destruct w; cbn in *. subst. reflexivity.
  - destruct (run_writer_short (w_writes w) k) as (c & rest & E & Hw & Hc); [lia|].
    rewrite E. cbn [w_ret w_pkt w_writes]. repeat split. exists rest. split; assumption.
Qed.

Lemma failing_writer_v1 enc zip thr hc p n k :
  w_ret (write_v1 enc zip thr hc p) = Some n -> writer_outcome k (write_v1 enc zip thr hc p) n.
Proof. intros H. apply to_writer_outcome; [exact H|]. apply write_v1_size. exact H. Qed.

Lemma failing_writer_v2 enc zip thr hc p n k :
  w_ret (write_v2 enc zip thr hc p) = Some n -> writer_outcome k (write_v2 enc zip thr hc p) n.
Proof. intros H. apply to_writer_outcome; [exact H|]. apply write_v2_size. exact H. Qed.

(* ---------------------------------------------------------------------------------- *)
(* the length-prefixed helper *)

Lemma lendata_size d n ws : write_len_data d = (Some n, ws) ->
  n = lenN (concat ws) /\ concat ws = be16 (lenN d + 2) ++ d /\ lenN d + 2 < 65535.
Proof.
  unfold write_len_data, max_u16. destruct (N.leb_spec 65535 (lenN d + 2)) as [H|H]; [discriminate|].
  intros E. injection E as <- <-. rewrite (N.mod_small _ 65536) by lia.
  cbn [concat]. rewrite app_nil_r, lenN_app, be16_lenN. repeat split; lia.
Qed.

Lemma lendata_limit d :
  (65533 <= lenN d -> write_len_data d = (None, []))
  /\ (lenN d < 65533 -> fst (write_len_data d) = Some (lenN d + 2)).
Proof.
  unfold write_len_data, max_u16. destruct (N.leb_spec 65535 (lenN d + 2)); split; intros;
    try reflexivity; lia.
Qed.

Lemma lendata_roundtrip d n ws s rest :
  write_len_data d = (Some n, ws) -> concat s = concat ws ++ rest ->
  r_out (read_len_data s) = Ok d /\ concat (r_rest (read_len_data s)) = rest
  /\ r_reads (read_len_data s) = [2; lenN d].
Proof.
  intros Hw Hs. destruct (lendata_size d n ws Hw) as (_ & Hc & Hl).
  rewrite Hc, <- app_assoc in Hs. unfold read_len_data.
  destruct (read_full_ok 2 s (be16 (lenN d + 2)) (d ++ rest) Hs eq_refl) as (s1 & R1 & C1).
  rewrite R1. rewrite <- (app_nil_r (be16 _)). rewrite get16_be16 by lia.
  destruct (N.ltb_spec (lenN d + 2) 2) as [X|_]; [lia|].
  replace ((lenN d + 2 + 65536 - 2) mod 65536) with (lenN d)
    by (replace (lenN d + 2 + 65536 - 2) with (lenN d + 1 * 65536) by lia;
        rewrite N.mod_add by discriminate; symmetry; apply N.mod_small; lia).
  destruct (read_full_ok (lenN d) s1 d rest C1 eq_refl) as (s2 & R2 & C2).
  rewrite R2. cbn. repeat split. assumption.
Qed.
