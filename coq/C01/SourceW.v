(* C01 — the regenerated big-endian header accessors (Generated/CodecHeader.v, proved equal to
   get16/get32 of the model in SourceBE.v), applied to the header the MODEL's encoder writes,
   return the frame length, the caller's sequence number, node and command, and the CRC-32 of
   the covered bytes: the source's own decoder-side accessors read back what the model says
   the encoder wrote. *)
From Coq Require Import Arith ZArith NArith List Bool Lia ZifyNat ZifyN ZifyBool.
From FV Require Import Generated.Consts Generated.CodecHeader Lib.GoSem Lib.NList Lib.BE Lib.Crc32
     C01.Model C01.ProofsBits C01.ProofsV1 C01.ProofsV2 C01.Proofs C01.Source C01.SourceBE.
Import ListNotations.
Open Scope N_scope.

Ltac Zify.zify_post_hook ::= Z.div_mod_to_equations.

Lemma wf_head10_v1 p n : p_flag p < 256 -> wf_bytes (head10_v1 p n).
Proof.
  intros Hf. unfold head10_v1. repeat (apply wf_bytes_app; split); try apply be16_wf; try apply be32_wf.
  repeat constructor; unfold is_byte; [apply u8_lt|lia].
Qed.

Lemma src_written_fields_v1 enc zip thr has_c p n h b p' :
  wf_packet p -> clean_flags p ->
  write_v1 enc zip thr has_c p = mkWres (Some n) [h; b] p' ->
  go_V1Header_Len (zbytes h) = GoSem.Ok (Z.of_N n)
  /\ go_V1Header_Seq (zbytes h) = GoSem.Ok (Z.of_N (p_seq p))
  /\ go_V1Header_Command (zbytes h) = GoSem.Ok (p_cmd p)
  /\ go_V1Header_Checksum (zbytes h) = GoSem.Ok (Z.of_N (crc32 (firstn 10 h ++ b))).
Proof.
  intros W Hc Hw.
  pose proof (write_v1_form enc zip thr has_c p) as F. rewrite Hw in F.
  destruct (marshal_body enc zip thr has_c p) as [b0 fl] eqn:M.
  destruct (max1 <? hs1 + lenN b0) eqn:Hmax; [discriminate|]. apply N.ltb_ge in Hmax.
  pose proof (some_inj _ _ (f_equal w_ret F)) as E1. pose proof (f_equal w_writes F) as E2.
  cbn [w_ret w_writes] in E1, E2. clear F.
  assert (Eh : h = frame_head_v1 (set_flag p fl) ((hs1 + lenN b0) mod 65536) b0) by congruence.
  assert (Eb : b = b0) by congruence. subst b.
  assert (Hfl : fl < 256) by (eapply marshal_flag_lt; eauto; apply W).
  assert (Hn : (hs1 + lenN b0) mod 65536 = hs1 + lenN b0)
    by (apply N.mod_small; unfold max1, hs1, codec_V1MaxPayloadBytes, codec_V1HeaderSize in *; lia).
  rewrite Hn in Eh. subst n.
  assert (Wh : wf_bytes h).
  { rewrite Eh. unfold frame_head_v1. apply wf_bytes_app. split; [apply wf_head10_v1; exact Hfl|apply be32_wf]. }
  assert (Lh : hs1 <= lenN h) by (rewrite Eh, frame_head_v1_len; unfold hs1, codec_V1HeaderSize; lia).
  destruct (src_fields_v1 h Wh Lh) as (S1 & S2 & S3 & S4).
  rewrite S1, S2, S3, S4. rewrite Eh.
  repeat split; f_equal.
  - f_equal. unfold frame_head_v1, head10_v1. rewrite <- !app_assoc. apply get16_be16.
    unfold max1, hs1, codec_V1MaxPayloadBytes, codec_V1HeaderSize in *; lia.
  - f_equal.
    change (skipn 4 (frame_head_v1 (set_flag p fl) (hs1 + lenN b0) b0))
      with (be16 (p_seq p) ++ be32 (u32_of_z (p_cmd p)) ++ be32 (crc32 (head10_v1 (set_flag p fl) (hs1 + lenN b0) ++ b0))).
    apply get16_be16. apply W.
  - change (skipn 6 (frame_head_v1 (set_flag p fl) (hs1 + lenN b0) b0))
      with (be32 (u32_of_z (p_cmd p)) ++ be32 (crc32 (head10_v1 (set_flag p fl) (hs1 + lenN b0) ++ b0))).
    rewrite get32_be32 by apply u32_lt. apply i32_u32. apply W.
  - f_equal.
    change (skipn 10 (frame_head_v1 (set_flag p fl) (hs1 + lenN b0) b0))
      with (be32 (crc32 (head10_v1 (set_flag p fl) (hs1 + lenN b0) ++ b0)) ++ []).
    rewrite get32_be32 by apply crc32_lt. unfold frame_head_v1. rewrite firstn10_head. reflexivity.
Qed.

Lemma wf_head16_v2 p nref n : p_flag p < 256 -> wf_bytes (head16_v2 p nref n).
Proof.
  intros Hf. unfold head16_v2.
  repeat (apply wf_bytes_app; split); try apply be16_wf; try apply be24_wf; try apply be32_wf.
  repeat constructor; unfold is_byte; [apply u8_lt|lia|lia].
Qed.

Lemma src_written_fields_v2 enc zip thr has_c p n h b p' :
  wf_packet p -> clean_flags p ->
  write_v2 enc zip thr has_c p = mkWres (Some n) [h; b] p' ->
  go_V2Header_Seq (zbytes h) = GoSem.Ok (Z.of_N (p_seq p))
  /\ go_V2Header_Node (zbytes h) = GoSem.Ok (Z.of_N (p_node p))
  /\ go_V2Header_Command (zbytes h) = GoSem.Ok (p_cmd p)
  /\ go_V2Header_Checksum (zbytes h) = GoSem.Ok (Z.of_N (crc32 (firstn 16 h ++ skipn 20 h ++ b))).
Proof.
  intros W Hc Hw.
  pose proof (write_v2_form enc zip thr has_c p) as F. rewrite Hw in F.
  destruct (marshal_body enc zip thr has_c p) as [b0 fl] eqn:M. cbv zeta in F.
  destruct (max_u8 <? lenN (p_refers p)) eqn:Hrefs; [discriminate|].
  destruct (max2 <? hs2 + lenN (p_refers p) * 4 + lenN b0) eqn:Hmax; [discriminate|].
  pose proof (f_equal w_writes F) as E2. cbn [w_writes] in E2. clear F.
  set (m := (hs2 + lenN (p_refers p) * 4 + lenN b0) mod 4294967296) in *.
  assert (Eh : h = frame_head_v2 (set_flag p fl) m b0 ++ be32s (p_refers p)) by congruence.
  assert (Eb : b = b0) by congruence. subst b.
  assert (Hfl : fl < 256) by (eapply marshal_flag_lt; eauto; apply W).
  set (crc := crc32 (head16_v2 (set_flag p fl) (lenN (p_refers (set_flag p fl))) m ++ be32s (p_refers (set_flag p fl)) ++ b0)).
  assert (Eh' : h = head16_v2 (set_flag p fl) (lenN (p_refers p)) m ++ be32 crc ++ be32s (p_refers p)).
  { rewrite Eh. unfold frame_head_v2. rewrite <- app_assoc. reflexivity. }
  assert (Wh : wf_bytes h).
  { rewrite Eh'. apply wf_bytes_app. split; [apply wf_head16_v2; exact Hfl|].
    apply wf_bytes_app. split; [apply be32_wf|apply be32s_wf]. }
  assert (Lh : hs2 <= lenN h).
  { rewrite Eh, lenN_app, frame_head_v2_len. unfold hs2, codec_V2HeaderSize. lia. }
  destruct (src_fields_v2 h Wh Lh) as (S1 & S2 & S3 & S4).
  rewrite S1, S2, S3, S4. rewrite Eh'.
  repeat split; f_equal.
  - f_equal.
    change (skipn 6 (head16_v2 (set_flag p fl) (lenN (p_refers p)) m ++ ?r))
      with (be16 (p_seq p) ++ be32 (p_node p) ++ be32 (u32_of_z (p_cmd p)) ++ r).
    apply get16_be16. apply W.
  - f_equal.
    change (skipn 8 (head16_v2 (set_flag p fl) (lenN (p_refers p)) m ++ ?r))
      with (be32 (p_node p) ++ be32 (u32_of_z (p_cmd p)) ++ r).
    apply get32_be32. apply W.
  - change (skipn 12 (head16_v2 (set_flag p fl) (lenN (p_refers p)) m ++ ?r))
      with (be32 (u32_of_z (p_cmd p)) ++ r).
    rewrite get32_be32 by apply u32_lt. apply i32_u32. apply W.
  - f_equal.
    change (skipn 16 (head16_v2 (set_flag p fl) (lenN (p_refers p)) m ++ ?r)) with r.
    rewrite get32_be32 by apply crc32_lt.
    rewrite firstn16_head.
    change (skipn 20 (head16_v2 (set_flag p fl) (lenN (p_refers p)) m ++ be32 crc ++ ?r)) with r.
    reflexivity.
Qed.
