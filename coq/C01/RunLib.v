(* C01 / C02 — shared pieces of the two Run.v files: decoding the case language written by
   harness/cmd/c01 and harness/cmd/c02, oracle tables, chunking, comparison helpers.
   Depends on Model.v and Lib only. *)
From Coq Require Import Arith ZArith NArith List Bool.
From FV Require Import Lib.Sx Lib.NList Lib.BE Lib.Crc32 C01.Model.
Import ListNotations.
Open Scope N_scope.

Definition bytes_eqb : bytes -> bytes -> bool := list_eqb N.eqb.
Definition nlist_eqb : list N -> list N -> bool := list_eqb N.eqb.

(* deterministic filler shared with the harness (xorshift32; only shifts and xors, which are
   cheap on binary numbers): x ^= x<<13; x ^= x>>17; x ^= x<<5 on uint32, byte = x & 0xFF & mask *)
Definition xs32 (x : N) : N :=
  let x1 := N.lxor x (N.land (N.shiftl x 13) mask32) in
  let x2 := N.lxor x1 (N.shiftr x1 17) in
  N.lxor x2 (N.land (N.shiftl x2 5) mask32).

Fixpoint gen_bytes (n : nat) (x mask : N) : bytes :=
  match n with
  | O => []
  | S n' => let x' := xs32 x in N.land (N.land x' 255) mask :: gen_bytes n' x' mask
  end.

(* a byte string given literally or as (5 seed len mask) *)
Definition sx_data (s : sx) : option bytes :=
  match s with
  | SBytes b => Some b
  | SList [SInt 5%Z; SInt seed; SInt len; SInt mask] =>
      Some (gen_bytes (Z.to_nat len) (Z.to_N seed) (Z.to_N mask))
  | _ => None
  end.

Definition sx_body (s : sx) : option body :=
  match s with
  | SList [SInt 0%Z] => Some BNil
  | SList [SInt 1%Z; SBytes b] => Some (BBytes b)
  | SList [SInt 2%Z; SBytes b] => Some (BStr b)
  | SList [SInt 3%Z; SInt z] => Some (BInt z)
  | SList [SInt 4%Z; SInt bits] => Some (BFloat (Z.to_N bits))
  | SList [SInt 5%Z; SInt seed; SInt len; SInt mask] =>
      Some (BBytes (gen_bytes (Z.to_nat len) (Z.to_N seed) (Z.to_N mask)))
  | SList [SInt 9%Z; d] => match sx_data d with Some v => Some (BProto v) | None => None end
  | SList [SInt 10%Z; d] => match sx_data d with Some v => Some (BProto v) | None => None end
  | SList [SInt 7%Z] => Some (BBytes [])     (* []byte(nil) *)
  | SList [SInt 8%Z] => Some (BStr [])       (* "" *)
  | _ => None
  end.

Definition sx_packet (s : sx) : option packet :=
  match s with
  | SList [SInt cmd; SInt seq; SInt flag; SInt typ; SInt node; refs; b] =>
      match sx_Ns refs, sx_body b with
      | Some r, Some bd => Some (mkPacket cmd (Z.to_N seq) (Z.to_N flag) typ (Z.to_N node) r bd)
      | _, _ => None
      end
  | _ => None
  end.

Definition body_eqb (a b : body) : bool :=
  match a, b with
  | BNil, BNil => true
  | BBytes x, BBytes y => bytes_eqb x y
  | BStr x, BStr y => bytes_eqb x y
  | BInt x, BInt y => Z.eqb x y
  | BFloat x, BFloat y => N.eqb x y
  | BProto x, BProto y => bytes_eqb x y
  | _, _ => false
  end.

(* every field but the body *)
Definition header_eqb (a b : packet) : bool :=
  Z.eqb (p_cmd a) (p_cmd b) && N.eqb (p_seq a) (p_seq b) && N.eqb (p_flag a) (p_flag b)
  && Z.eqb (p_typ a) (p_typ b) && N.eqb (p_node a) (p_node b)
  && nlist_eqb (p_refers a) (p_refers b).
Definition packet_eqb (a b : packet) : bool := header_eqb a b && body_eqb (p_body a) (p_body b).

(* oracle tables: what the external functions returned on the arguments the implementation
   passed them.  A missing entry yields an impossible byte (999), so that a model asking for
   something else than the implementation never agrees silently. *)
Definition table := list (bytes * bytes).
Definition otable := list (bytes * option bytes).

Fixpoint assoc {V} (k : bytes) (t : list (bytes * V)) : option V :=
  match t with
  | [] => None
  | (k', v) :: r => if bytes_eqb k k' then Some v else assoc k r
  end.

Definition miss : bytes := [999].
Definition fun_of_table (t : table) (k : bytes) : bytes :=
  match assoc k t with Some v => v | None => miss end.
Definition fun_of_otable (t : otable) (k : bytes) : option bytes :=
  match assoc k t with Some v => v | None => Some miss end.

Definition sx_table (s : sx) : option table :=
  match s with
  | SList l =>
      map_opt (fun e => match e with
                        | SList [k; v] =>
                            match sx_data k, sx_data v with
                            | Some k', Some v' => Some (k', v')
                            | _, _ => None
                            end
                        | _ => None end) l
  | _ => None
  end.

Definition sx_otable (s : sx) : option otable :=
  match s with
  | SList l =>
      map_opt (fun e => match e with
                        | SList [k; SInt 1%Z; v] =>
                            match sx_data k, sx_data v with
                            | Some k', Some v' => Some (k', Some v')
                            | _, _ => None
                            end
                        | SList [k; SInt 0%Z; _] =>
                            match sx_data k with
                            | Some k' => Some (k', None)
                            | None => None
                            end
                        | _ => None end) l
  | _ => None
  end.

(* the reader of the harness: successive Read calls deliver chunks of the given sizes (never
   more than asked; what is left of a chunk comes first next time); when the sizes are used up
   the rest of the data is one chunk *)
Fixpoint chunk (sizes : list N) (data : bytes) : stream :=
  match sizes with
  | [] => match data with [] => [] | _ => [data] end
  | n :: r =>
      match data with
      | [] => []
      | _ => takeN n data :: chunk r (dropN n data)
      end
  end.

Definition total_len (s : stream) : N := lenN (concat s).

(* error kinds as classified by the harness *)
Definition rerr_code (e : rerr) : Z :=
  match e with
  | EEOF => 1 | EUnexpectedEOF => 2 | ELength => 3 | EChecksum => 4
  | ENeedDecrypt => 5 | EDecompress => 6 | ERefCount => 7
  end%Z.

Definition outcome_code {A} (o : outcome A) : Z :=
  match o with Ok _ => 0%Z | Err e => rerr_code e | Panic => (-1)%Z end.

Definition bytes_list_eqb (a b : list bytes) : bool := list_eqb bytes_eqb a b.

Definition sx_bytes_list (s : sx) : option (list bytes) :=
  match s with SList l => map_opt sx_bytes l | _ => None end.

(* all verdicts of a list, joined *)
Fixpoint vall (l : list verdict) : verdict :=
  match l with [] => VOk | v :: r => vjoin v (vall r) end.

Definition ver_hs (ver : Z) : N := if Z.eqb ver 1 then hs1 else hs2.
Definition ver_max (ver : Z) : N := if Z.eqb ver 1 then max1 else max2.

(* closed form of the two limits for a packet that is neither compressed nor encrypted
   (proved equal to the model: C01/Proofs.v, limit_predict_v1 / limit_predict_v2); lets the
   harness probe the 8 MiB boundary without moving 8 MiB frames through the case file *)
Definition limit_predict (ver : Z) (nref bodylen : N) : option N :=
  if Z.eqb ver 1 then (if max1 <? hs1 + bodylen then None else Some (hs1 + bodylen))
  else if max_u8 <? nref then None
  else let size := hs2 + nref * 4 + bodylen in if max2 <? size then None else Some size.
