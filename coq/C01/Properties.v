(* C01 — Wire codecs round-trip every packet and emit the documented frame layout.
   This file holds only the property theorems; each is closed by an exact lemma and followed
   by Print Assumptions.  Model: C01/Model.v (codec/v1_*.go, v2_*.go, marshal.go, codec.go).

   External behaviour enters as universally quantified functions: the cipher pair [enc]/[dec],
   zlib [zip]/[unzip], constrained only by [codec_env] (dec (enc b) = b, |enc b| = |b|,
   unzip (zip b) = Some b, zip never returns the empty string); a stream is ANY list of chunks
   whose concatenation is the bytes on the wire.  [has_c] = the writer has a cipher, [hd] = the
   reader has the decryptor; the only relation demanded is has_c = true -> hd = true (a frame
   sent in clear is read correctly by a reader that holds a decryptor).  In a stream every frame
   may have been written with its own threshold and with or without the cipher. *)
From Coq Require Import ZArith NArith List Bool.
From FV Require Import Generated.CodecHeader Lib.GoSem Lib.NList Lib.BE Lib.Crc32 C01.Model C01.RunLib C01.ProofsIO C01.ProofsV1 C01.ProofsV2 C01.Proofs C01.Source.
Import ListNotations.
Open Scope N_scope.

(* "any packet within the format's limits that is encoded and then decoded - with or without
   compression, with any supported cipher pair - comes back with the same command, sequence
   number, caller-set flag bits and body bytes ... and the decoder consumes exactly the bytes
   the encoder produced ... however the stream is chunked"  — V1 *)
Theorem c01_roundtrip_v1 : forall enc dec zip unzip, codec_env enc dec zip unzip ->
  forall thr has_c hd p n ws p' s rest,
  (has_c = true -> hd = true) ->
  wf_packet p -> clean_flags p -> body_ok p ->
  write_v1 enc zip thr has_c p = mkWres (Some n) ws p' ->
  concat s = concat ws ++ rest ->
  exists q, r_out (read_packet_v1 dec unzip hd s packet0) = Ok q
            /\ concat (r_rest (read_packet_v1 dec unzip hd s packet0)) = rest
            /\ same_v1 p q.
Proof. exact roundtrip_v1_fields. Qed.
Print Assumptions c01_roundtrip_v1.

(* "(plus type, node and reference list in the server-to-server format)" — V2 *)
Theorem c01_roundtrip_v2 : forall enc dec zip unzip, codec_env enc dec zip unzip ->
  forall thr has_c hd p n ws p' s rest,
  (has_c = true -> hd = true) ->
  wf_packet p -> clean_flags p -> body_ok p ->
  write_v2 enc zip thr has_c p = mkWres (Some n) ws p' ->
  concat s = concat ws ++ rest ->
  exists q, r_out (read_packet_v2 dec unzip hd s packet0) = Ok q
            /\ concat (r_rest (read_packet_v2 dec unzip hd s packet0)) = rest
            /\ same_v2 p q.
Proof. exact roundtrip_v2_fields. Qed.
Print Assumptions c01_roundtrip_v2.

(* the same for ANY caller flag byte: marshalling bits found on the packet (left by an earlier
   encode of the same object through another codec / threshold / cipher, or set by the caller)
   are dropped by the encoder; the packet comes back as its normal form
   [normalize p] = p with flag bits 0x01/0x02 cleared *)
Theorem c01_roundtrip_any_flags_v1 : forall enc dec zip unzip, codec_env enc dec zip unzip ->
  forall thr has_c hd p n ws p' s rest,
  (has_c = true -> hd = true) ->
  wf_packet p -> body_ok p ->
  write_v1 enc zip thr has_c p = mkWres (Some n) ws p' ->
  concat s = concat ws ++ rest ->
  exists q, r_out (read_packet_v1 dec unzip hd s packet0) = Ok q
            /\ concat (r_rest (read_packet_v1 dec unzip hd s packet0)) = rest
            /\ same_v1 (normalize p) q.
Proof. exact roundtrip_v1_any. Qed.
Print Assumptions c01_roundtrip_any_flags_v1.

Theorem c01_roundtrip_any_flags_v2 : forall enc dec zip unzip, codec_env enc dec zip unzip ->
  forall thr has_c hd p n ws p' s rest,
  (has_c = true -> hd = true) ->
  wf_packet p -> body_ok p ->
  write_v2 enc zip thr has_c p = mkWres (Some n) ws p' ->
  concat s = concat ws ++ rest ->
  exists q, r_out (read_packet_v2 dec unzip hd s packet0) = Ok q
            /\ concat (r_rest (read_packet_v2 dec unzip hd s packet0)) = rest
            /\ same_v2 (normalize p) q.
Proof. exact roundtrip_v2_any. Qed.
Print Assumptions c01_roundtrip_any_flags_v2.

(* "so back-to-back frames on one stream decode independently and in order" *)
Theorem c01_stream_v1 : forall enc dec zip unzip, codec_env enc dec zip unzip ->
  forall hd ps frames,
  Forall sendable ps ->
  Forall2 (fun p f => exists thr has_c n ws p', (has_c = true -> hd = true)
                                      /\ write_v1 enc zip thr has_c p = mkWres (Some n) ws p'
                                      /\ f = concat ws) ps frames ->
  forall s rest, concat s = concat frames ++ rest ->
  let res := read_many _ (fun s => read_packet_v1 dec unzip hd s packet0) (length frames) s in
  exists qs, fst res = map Ok qs /\ Forall2 same_v1 ps qs /\ concat (snd res) = rest.
Proof. exact stream_v1. Qed.
Print Assumptions c01_stream_v1.

Theorem c01_stream_v2 : forall enc dec zip unzip, codec_env enc dec zip unzip ->
  forall hd ps frames,
  Forall sendable ps ->
  Forall2 (fun p f => exists thr has_c n ws p', (has_c = true -> hd = true)
                                      /\ write_v2 enc zip thr has_c p = mkWres (Some n) ws p'
                                      /\ f = concat ws) ps frames ->
  forall s rest, concat s = concat frames ++ rest ->
  let res := read_many _ (fun s => read_packet_v2 dec unzip hd s packet0) (length frames) s in
  exists qs, fst res = map Ok qs /\ Forall2 same_v2 ps qs /\ concat (snd res) = rest.
Proof. exact stream_v2. Qed.
Print Assumptions c01_stream_v2.

(* "however the stream is chunked": for ANY input (valid or not) result, bytes left, buffers
   allocated and bytes requested depend only on the concatenation of the chunks *)
Theorem c01_chunking_v1 : forall dec unzip has_dec p0 s1 s2, concat s1 = concat s2 ->
  rhb_same (read_packet_v1 dec unzip has_dec s1 p0) (read_packet_v1 dec unzip has_dec s2 p0).
Proof. exact read_packet_v1_chunking. Qed.
Print Assumptions c01_chunking_v1.

Theorem c01_chunking_v2 : forall dec unzip has_dec p0 s1 s2, concat s1 = concat s2 ->
  rhb_same (read_packet_v2 dec unzip has_dec s1 p0) (read_packet_v2 dec unzip has_dec s2 p0).
Proof. exact read_packet_v2_chunking. Qed.
Print Assumptions c01_chunking_v2.

(* "The encoder lays the fields out as the protocol description says (big-endian length
   covering header and body, checksum over header, references and body)" *)
Theorem c01_layout_v1 : forall enc zip thr has_c p n ws p',
  p_flag p < 256 -> clean_flags p ->
  write_v1 enc zip thr has_c p = mkWres (Some n) ws p' ->
  let b := fst (marshal_body enc zip thr has_c p) in
  let head := be16 n ++ [u8_of_z (p_typ p); p_flag p'] ++ be16 (p_seq p) ++ be32 (u32_of_z (p_cmd p)) in
  concat ws = head ++ be32 (crc32 (head ++ b)) ++ b /\ n = lenN (concat ws) /\ n = 14 + lenN b.
Proof. exact layout_v1. Qed.
Print Assumptions c01_layout_v1.

Theorem c01_layout_v2 : forall enc zip thr has_c p n ws p',
  p_flag p < 256 -> clean_flags p ->
  write_v2 enc zip thr has_c p = mkWres (Some n) ws p' ->
  let b := fst (marshal_body enc zip thr has_c p) in
  let nref := lenN (p_refers p) in
  let head := be24 n ++ [u8_of_z (p_typ p); p_flag p'; nref] ++ be16 (p_seq p)
              ++ be32 (p_node p) ++ be32 (u32_of_z (p_cmd p)) in
  concat ws = head ++ be32 (crc32 (head ++ be32s (p_refers p) ++ b)) ++ be32s (p_refers p) ++ b
  /\ n = lenN (concat ws) /\ n = 20 + 4 * nref + lenN b /\ nref <= 255.
Proof. exact layout_v2. Qed.
Print Assumptions c01_layout_v2.

(* "reports the exact number of bytes it wrote" — for every packet, no side condition *)
Theorem c01_reported_size_v1 : forall enc zip thr has_c p n,
  w_ret (write_v1 enc zip thr has_c p) = Some n ->
  n = lenN (concat (w_writes (write_v1 enc zip thr has_c p))).
Proof. exact write_v1_size. Qed.
Print Assumptions c01_reported_size_v1.

Theorem c01_reported_size_v2 : forall enc zip thr has_c p n,
  w_ret (write_v2 enc zip thr has_c p) = Some n ->
  n = lenN (concat (w_writes (write_v2 enc zip thr has_c p))).
Proof. exact write_v2_size. Qed.
Print Assumptions c01_reported_size_v2.

(* "leaves the caller's command, sequence number, type, node and references untouched (of the
   header only the compression/encryption flag bits are set)" — success or error *)
Theorem c01_caller_fields_v1 : forall enc zip thr has_c p,
  p_flag p < 256 -> only_flag_bits p (w_pkt (write_v1 enc zip thr has_c p)).
Proof. exact write_v1_caller. Qed.
Print Assumptions c01_caller_fields_v1.

Theorem c01_caller_fields_v2 : forall enc zip thr has_c p,
  p_flag p < 256 -> only_flag_bits p (w_pkt (write_v2 enc zip thr has_c p)).
Proof. exact write_v2_caller. Qed.
Print Assumptions c01_caller_fields_v2.

(* "when a packet exceeds a limit (frame size, reference count) it returns an error without
   emitting a single byte" *)
Theorem c01_limit_no_bytes_v1 : forall enc zip thr has_c p,
  w_ret (write_v1 enc zip thr has_c p) = None -> w_writes (write_v1 enc zip thr has_c p) = [].
Proof. exact write_v1_error_no_bytes. Qed.
Print Assumptions c01_limit_no_bytes_v1.

Theorem c01_limit_no_bytes_v2 : forall enc zip thr has_c p,
  w_ret (write_v2 enc zip thr has_c p) = None -> w_writes (write_v2 enc zip thr has_c p) = [].
Proof. exact write_v2_error_no_bytes. Qed.
Print Assumptions c01_limit_no_bytes_v2.

(* exactly the packets beyond a limit are refused *)
Theorem c01_within_limit_ok_v1 : forall enc zip thr has_c p,
  let b := fst (marshal_body enc zip thr has_c p) in
  (max1 < hs1 + lenN b -> w_ret (write_v1 enc zip thr has_c p) = None)
  /\ (hs1 + lenN b <= max1 -> w_ret (write_v1 enc zip thr has_c p) = Some (hs1 + lenN b)).
Proof. exact write_v1_limit. Qed.
Print Assumptions c01_within_limit_ok_v1.

Theorem c01_within_limit_ok_v2 : forall enc zip thr has_c p,
  let b := fst (marshal_body enc zip thr has_c p) in
  let size := hs2 + lenN (p_refers p) * 4 + lenN b in
  (255 < lenN (p_refers p) \/ max2 < size -> w_ret (write_v2 enc zip thr has_c p) = None)
  /\ (lenN (p_refers p) <= 255 -> size <= max2 -> w_ret (write_v2 enc zip thr has_c p) = Some size).
Proof. exact write_v2_limit. Qed.
Print Assumptions c01_within_limit_ok_v2.

(* the closed form the harness compares the implementation with at the 60 KiB / 8 MiB / 255
   reference boundaries (sizes only): for a packet that is neither compressed nor encrypted the
   model's verdict is [limit_predict] of the reference count and the body length *)
Theorem c01_limit_closed_form_v1 : forall enc zip thr p,
  lenN (body_bytes (p_body p)) <= thr ->
  w_ret (write_v1 enc zip thr false p)
  = limit_predict 1 (lenN (p_refers p)) (lenN (body_bytes (p_body p))).
Proof. exact limit_predict_v1. Qed.
Print Assumptions c01_limit_closed_form_v1.

Theorem c01_limit_closed_form_v2 : forall enc zip thr p,
  lenN (body_bytes (p_body p)) <= thr ->
  w_ret (write_v2 enc zip thr false p)
  = limit_predict 2 (lenN (p_refers p)) (lenN (body_bytes (p_body p))).
Proof. exact limit_predict_v2. Qed.
Print Assumptions c01_limit_closed_form_v2.

(* a writer that fails (room for k bytes only): the error is reported — never a success with
   bytes missing —, no Write follows the failing one, what was offered is a prefix of the frame,
   the caller's packet is as after a successful call; with room for the whole frame nothing
   differs.  (The codec keeps no state: a later packet on a fresh writer is encoded as by
   write_v1 / write_v2, the model being a function of the packet alone.) *)
Theorem c01_failing_writer_v1 : forall enc zip thr has_c p n k,
  w_ret (write_v1 enc zip thr has_c p) = Some n -> writer_outcome k (write_v1 enc zip thr has_c p) n.
Proof. exact failing_writer_v1. Qed.
Print Assumptions c01_failing_writer_v1.

Theorem c01_failing_writer_v2 : forall enc zip thr has_c p n k,
  w_ret (write_v2 enc zip thr has_c p) = Some n -> writer_outcome k (write_v2 enc zip thr has_c p) n.
Proof. exact failing_writer_v2. Qed.
Print Assumptions c01_failing_writer_v2.

(* the length-prefixed helper (codec.WriteLenData / ReadLenData) *)
Theorem c01_lendata_roundtrip : forall d n ws s rest,
  write_len_data d = (Some n, ws) -> concat s = concat ws ++ rest ->
  r_out (read_len_data s) = Ok d /\ concat (r_rest (read_len_data s)) = rest
  /\ r_reads (read_len_data s) = [2; lenN d].
Proof. exact lendata_roundtrip. Qed.
Print Assumptions c01_lendata_roundtrip.

Theorem c01_lendata_size : forall d n ws, write_len_data d = (Some n, ws) ->
  n = lenN (concat ws) /\ concat ws = be16 (lenN d + 2) ++ d /\ lenN d + 2 < 65535.
Proof. exact lendata_size. Qed.
Print Assumptions c01_lendata_size.

Theorem c01_lendata_limit : forall d,
  (65533 <= lenN d -> write_len_data d = (None, []))
  /\ (lenN d < 65533 -> fst (write_len_data d) = Some (lenN d + 2)).
Proof. exact lendata_limit. Qed.
Print Assumptions c01_lendata_limit.

(* tie to the source: the header byte accessors regenerated from codec/v1_header.go and
   v2_header.go on every run (Generated/CodecHeader.v, tools/gofunc) read the bytes the model
   reads when decoding, and on the model's emitted frame return the caller's type, the stored
   flag and the reference count *)
Theorem c01_src_header_v1 : forall h, hs1 <= lenN h ->
  go_V1Header_Type (zbytes h) = GoSem.Ok (Z.of_N (byte_at 2 h))
  /\ go_V1Header_Flag (zbytes h) = GoSem.Ok (Z.of_N (byte_at 3 h)).
Proof. exact src_header_v1. Qed.
Print Assumptions c01_src_header_v1.

Theorem c01_src_header_v2 : forall h, hs2 <= lenN h ->
  go_V2Header_Type (zbytes h) = GoSem.Ok (Z.of_N (byte_at 3 h))
  /\ go_V2Header_Flag (zbytes h) = GoSem.Ok (Z.of_N (byte_at 4 h))
  /\ go_V2Header_RefCount (zbytes h) = GoSem.Ok (Z.of_N (byte_at 5 h)).
Proof. exact src_header_v2. Qed.
Print Assumptions c01_src_header_v2.

Theorem c01_src_written_v1 : forall enc zip thr has_c p n ws p',
  p_flag p < 256 -> clean_flags p ->
  write_v1 enc zip thr has_c p = mkWres (Some n) ws p' ->
  go_V1Header_Type (zbytes (concat ws)) = GoSem.Ok (Z.of_N (u8_of_z (p_typ p)))
  /\ go_V1Header_Flag (zbytes (concat ws)) = GoSem.Ok (Z.of_N (p_flag p')).
Proof. exact src_written_v1. Qed.
Print Assumptions c01_src_written_v1.

Theorem c01_src_written_v2 : forall enc zip thr has_c p n ws p',
  p_flag p < 256 -> clean_flags p ->
  write_v2 enc zip thr has_c p = mkWres (Some n) ws p' ->
  go_V2Header_Type (zbytes (concat ws)) = GoSem.Ok (Z.of_N (u8_of_z (p_typ p)))
  /\ go_V2Header_Flag (zbytes (concat ws)) = GoSem.Ok (Z.of_N (p_flag p'))
  /\ go_V2Header_RefCount (zbytes (concat ws)) = GoSem.Ok (Z.of_N (lenN (p_refers p))).
Proof. exact src_written_v2. Qed.
Print Assumptions c01_src_written_v2.

(* ---------------------------------------------------------------------------------- *)
(* non-vacuity: an environment meeting [codec_env] (xor cipher, a toy "zlib" that prefixes a
   marker byte), a non-trivial packet meeting [sendable], and the model computing on it:
   the V2 frame of a 5-byte body with two references, compressed (threshold 3) and
   encrypted, read back through 1-byte chunks. *)
Definition ex_enc (b : bytes) : bytes := map (fun x => N.lxor x 90) b.
Definition ex_zip (b : bytes) : bytes := 120 :: b.
Definition ex_unzip (b : bytes) : option bytes := match b with 120 :: r => Some r | _ => None end.

Example c01_env_example : codec_env ex_enc ex_enc ex_zip ex_unzip.
Proof.
  constructor; intros b; unfold ex_enc, ex_zip, ex_unzip.
  - rewrite map_map. rewrite <- (map_id b) at 2. apply map_ext. intros x.
    rewrite N.lxor_assoc, N.lxor_nilpotent. apply N.lxor_0_r.
  - apply lenN_map.
  - reflexivity.
  - rewrite lenN_cons. destruct (lenN b); reflexivity.
Qed.

Definition ex_packet : packet :=
  mkPacket (-7)%Z 513 32 1%Z 16909060 [1; 4294967295] (BBytes [104; 101; 108; 108; 111]).

Example c01_packet_example :
  sendable ex_packet
  /\ exists n ws p', write_v2 ex_enc ex_zip 3 true ex_packet = mkWres (Some n) ws p'
     /\ n = 34 /\ p_flag p' = 35
     /\ r_out (read_packet_v2 ex_enc ex_unzip true (map (fun x => [x]) (concat ws)) packet0)
        = Ok (mkPacket (-7)%Z 513 32 1%Z 16909060 [1; 4294967295] (BBytes [104; 101; 108; 108; 111])).
Proof.
  split.
  - split; [|split].
    + constructor; cbn; try (split; [discriminate|reflexivity]); try reflexivity.
      repeat constructor.
    + reflexivity.
    + intros H. exfalso. apply H. reflexivity.
  - eexists _, _, _. split; [vm_compute; reflexivity|]. split; [reflexivity|]. split; [reflexivity|].
    vm_compute. reflexivity.
Qed.

(* non-vacuity of the stream theorem and of the failing writer: two frames written with different
   thresholds, one in clear and one encrypted, read back by a reader holding the decryptor from
   3-byte chunks; and the first of them against a writer with room for 20 bytes *)
Example c01_stream_example :
  let p2 := mkPacket 9%Z 1 0 0%Z 0 [] (BStr [65; 66; 67; 68]) in
  let w1 := write_v2 ex_enc ex_zip 3 false ex_packet in
  let w2 := write_v2 ex_enc ex_zip 100 true p2 in
  let wire := concat (w_writes w1) ++ concat (w_writes w2) in
  fst (read_many _ (fun s => read_packet_v2 ex_enc ex_unzip true s packet0) 2
         [firstn 3 wire; firstn 3 (skipn 3 wire); skipn 6 wire])
  = [Ok (mkPacket (-7)%Z 513 32 1%Z 16909060 [1; 4294967295] (BBytes [104; 101; 108; 108; 111]));
     Ok (mkPacket 9%Z 1 0 0%Z 0 [] (BBytes [65; 66; 67; 68]))]
  /\ w_ret (to_writer 20 w1) = None /\ length (w_writes (to_writer 20 w1)) = 1%nat
  /\ to_writer 34 w1 = w1.
Proof. vm_compute. repeat split. Qed.

(* the V1 frame-size limit at its boundary: 14 + 61426 = 61440 bytes are emitted, one byte more
   is refused without a write (computed by the model; the 8 MiB boundary of V2 is covered by
   c01_within_limit_ok_v2 and exercised on the code by the harness) *)
Example c01_limit_boundary_v1 :
  let pk n := mkPacket 1%Z 2 0 0%Z 0 [] (BBytes (repeat 7 (N.to_nat n))) in
  w_ret (write_v1 ex_enc ex_zip 16777216 false (pk 61426)) = Some 61440
  /\ w_ret (write_v1 ex_enc ex_zip 16777216 false (pk 61427)) = None
  /\ w_writes (write_v1 ex_enc ex_zip 16777216 false (pk 61427)) = [].
Proof. repeat split; vm_compute; reflexivity. Qed.

(* ---------------------------------------------------------------------------------- *)
(* tie to the source, continued (C01/SourceBE.v): the big-endian field accessors regenerated
   from codec/v1_header.go / v2_header.go TOGETHER WITH the standard-library functions they
   call (encoding/binary bigEndian.Uint16 / Uint32, translated from GOROOT source) return, on
   any complete header of bytes, exactly the fields the model's decoder reads at offsets
   0, 4, 6, 10 (V1) and 6, 8, 12, 16 (V2), and do not panic *)
From FV Require Import C01.SourceBE.

Theorem c01_src_fields_v1 : forall h, wf_bytes h -> hs1 <= lenN h ->
  go_V1Header_Len (zbytes h) = GoSem.Ok (Z.of_N (get16 h))
  /\ go_V1Header_Seq (zbytes h) = GoSem.Ok (Z.of_N (get16 (skipn 4 h)))
  /\ go_V1Header_Command (zbytes h) = GoSem.Ok (i32_of_n (get32 (skipn 6 h)))
  /\ go_V1Header_Checksum (zbytes h) = GoSem.Ok (Z.of_N (get32 (skipn 10 h))).
Proof. exact src_fields_v1. Qed.
Print Assumptions c01_src_fields_v1.

Theorem c01_src_fields_v2 : forall h, wf_bytes h -> hs2 <= lenN h ->
  go_V2Header_Seq (zbytes h) = GoSem.Ok (Z.of_N (get16 (skipn 6 h)))
  /\ go_V2Header_Node (zbytes h) = GoSem.Ok (Z.of_N (get32 (skipn 8 h)))
  /\ go_V2Header_Command (zbytes h) = GoSem.Ok (i32_of_n (get32 (skipn 12 h)))
  /\ go_V2Header_Checksum (zbytes h) = GoSem.Ok (Z.of_N (get32 (skipn 16 h))).
Proof. exact src_fields_v2. Qed.
Print Assumptions c01_src_fields_v2.

(* ... and applied to the header the MODEL's encoder writes (C01/SourceW.v) the regenerated
   accessors return the frame length, the caller's sequence number, node and command and the
   CRC-32 of the covered bytes: the source's decoder-side accessors read back what the model
   says the encoder wrote *)
From FV Require Import C01.SourceW.

Theorem c01_src_written_fields_v1 : forall enc zip thr has_c p n h b p',
  wf_packet p -> clean_flags p ->
  write_v1 enc zip thr has_c p = mkWres (Some n) [h; b] p' ->
  go_V1Header_Len (zbytes h) = GoSem.Ok (Z.of_N n)
  /\ go_V1Header_Seq (zbytes h) = GoSem.Ok (Z.of_N (p_seq p))
  /\ go_V1Header_Command (zbytes h) = GoSem.Ok (p_cmd p)
  /\ go_V1Header_Checksum (zbytes h) = GoSem.Ok (Z.of_N (crc32 (firstn 10 h ++ b))).
Proof. exact src_written_fields_v1. Qed.
Print Assumptions c01_src_written_fields_v1.

Theorem c01_src_written_fields_v2 : forall enc zip thr has_c p n h b p',
  wf_packet p -> clean_flags p ->
  write_v2 enc zip thr has_c p = mkWres (Some n) [h; b] p' ->
  go_V2Header_Seq (zbytes h) = GoSem.Ok (Z.of_N (p_seq p))
  /\ go_V2Header_Node (zbytes h) = GoSem.Ok (Z.of_N (p_node p))
  /\ go_V2Header_Command (zbytes h) = GoSem.Ok (p_cmd p)
  /\ go_V2Header_Checksum (zbytes h) = GoSem.Ok (Z.of_N (crc32 (firstn 16 h ++ skipn 20 h ++ b))).
Proof. exact src_written_fields_v2. Qed.
Print Assumptions c01_src_written_fields_v2.

(* ---------------------------------------------------------------------------------- *)
(* tie to the source, the header WRITERS (C01/SourcePack.v): V1Header.Pack and V2Header.Pack
   regenerated from codec/v1_header.go / v2_header.go together with bigEndianPut and
   encoding/binary bigEndian.PutUint16 / PutUint32 (the IPacket getters are externs: their
   results are inputs) write, into every buffer of header length and without panicking,
   exactly the bytes of the model's header encoder pack_v1 / pack_v2 *)
From FV Require Import C01.SourcePack.

Theorem c01_src_pack_v1 : forall (p : packet) (size : N) (h : bytes),
  length h = 14%nat ->
  go_V1Header_Pack (zbytes h) (Z.of_N size) (p_typ p) (Z.of_N (p_flag p)) (Z.of_N (p_seq p)) (p_cmd p)
  = GoSem.Ok (zbytes (pack_v1 p size h)).
Proof. exact src_pack_v1. Qed.
Print Assumptions c01_src_pack_v1.

Theorem c01_src_pack_v2 : forall (p : packet) (nref size : N) (h : bytes),
  length h = 20%nat -> nref < 256 -> p_node p < 4294967296 ->
  go_V2Header_Pack (zbytes h) (Z.of_N nref) (Z.of_N size) (p_typ p) (Z.of_N (p_flag p))
    (Z.of_N (p_seq p)) (Z.of_N (p_node p)) (p_cmd p)
  = GoSem.Ok (zbytes (pack_v2 p nref size h)).
Proof. exact src_pack_v2. Qed.
Print Assumptions c01_src_pack_v2.
