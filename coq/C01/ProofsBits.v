(* C01 / C02 — bit-level facts: disjoint or = sum (N), bounds of xor, CRC range, the flag
   bits set by marshalPacketBody and cleared by unmarshalPacketBody, varint round trip. *)
From Coq Require Import Arith ZArith NArith List Bool Lia ZifyNat ZifyN ZifyBool.
From FV Require Import Generated.Consts Lib.NList Lib.BE Lib.Crc32 C01.Model.
Import ListNotations.
Open Scope N_scope.

Ltac Zify.zify_post_hook ::= Z.div_mod_to_equations.

(* ---------------------------------------------------------------------------------- *)
Lemma land_shiftl_small a b k : b < 2 ^ k -> N.land (N.shiftl a k) b = 0.
Proof.
  intros Hb. apply N.bits_inj. intro n. rewrite N.land_spec, N.bits_0.
  destruct (N.lt_ge_cases n k) as [Hlt|Hge].
  - rewrite N.shiftl_spec_low by assumption. reflexivity.
  - replace b with (b mod 2 ^ k) by (apply N.mod_small; assumption).
    rewrite N.mod_pow2_bits_high by assumption. apply andb_false_r.
Qed.

Lemma lor_shiftl_add a b k : b < 2 ^ k -> N.lor b (N.shiftl a k) = b + a * 2 ^ k.
Proof.
  intros Hb. rewrite <- N.shiftl_mul_pow2.
  rewrite <- N.lxor_lor by (rewrite N.land_comm; apply land_shiftl_small; assumption).
  symmetry. apply N.add_nocarry_lxor. rewrite N.land_comm. apply land_shiftl_small; assumption.
Qed.

(* ---------------------------------------------------------------------------------- *)
(* the CRC register never leaves 32 bits *)

Lemma tbl_lt i : i < 256 -> tbl i < 4294967296.
Proof.
  intros H.
  assert (E : forallb (fun j => tbl j <? 4294967296) (map N.of_nat (seq 0 256)) = true)
    by (vm_compute; reflexivity).
  rewrite forallb_forall in E. apply N.ltb_lt. apply E.
  apply in_map_iff. exists (N.to_nat i). split; [lia|]. apply in_seq. lia.
Qed.

Lemma upd_byte_lt c b : c < 4294967296 -> upd_byte c b < 4294967296.
Proof.
  intros Hc. unfold upd_byte. change 4294967296 with (2 ^ 32).
  apply lxor_lt_pow2.
  - apply tbl_lt. apply land255_lt.
  - apply shiftr_lt_pow2. assumption.
Qed.

Lemma update_lt c bs : c < 4294967296 -> update c bs < 4294967296.
Proof.
  unfold update. revert c. induction bs as [|b r IH]; intros c Hc; cbn [fold_left]; [assumption|].
  apply IH. apply upd_byte_lt. assumption.
Qed.

Lemma crc32_lt bs : crc32 bs < 4294967296.
Proof.
  unfold crc32. change 4294967296 with (2 ^ 32). apply lxor_lt_pow2.
  - apply update_lt. reflexivity.
  - reflexivity.
Qed.

(* ---------------------------------------------------------------------------------- *)
(* flag bits: the whole uint8 domain is swept *)

Definition flags_ok (f : N) : bool :=
  negb (N.land f 3 =? 0) ||
  ( (N.land f fEncrypted =? 0) && (N.land f fCompressed =? 0)
    && negb (N.land (N.lor f fCompressed) fCompressed =? 0)
    && (N.land (N.lor f fCompressed) fEncrypted =? 0)
    && (N.ldiff (N.lor f fCompressed) fCompressed =? f)
    && negb (N.land (N.lor f fEncrypted) fEncrypted =? 0)
    && (N.land (N.ldiff (N.lor f fEncrypted) fEncrypted) fCompressed =? 0)
    && (N.ldiff (N.lor f fEncrypted) fEncrypted =? f)
    && negb (N.land (N.lor (N.lor f fCompressed) fEncrypted) fEncrypted =? 0)
    && (N.ldiff (N.lor (N.lor f fCompressed) fEncrypted) fEncrypted =? N.lor f fCompressed)
    && (N.lor f fCompressed <? 256) && (N.lor f fEncrypted <? 256)
    && (N.lor (N.lor f fCompressed) fEncrypted <? 256) ).

Lemma flags_sweep f : f < 256 -> flags_ok f = true.
Proof.
  intros H.
  assert (E : forallb flags_ok (map N.of_nat (seq 0 256)) = true) by (vm_compute; reflexivity).
  rewrite forallb_forall in E. apply E.
  apply in_map_iff. exists (N.to_nat f). split; [lia|]. apply in_seq. lia.
Qed.

(* whatever the caller's flag: only the two marshalling bits differ afterwards *)
Definition flags_caller_ok (f : N) : bool :=
  let f0 := N.ldiff f fMarshal in
  (N.ldiff f0 3 =? N.ldiff f 3)
  && (N.ldiff (N.lor f0 fCompressed) 3 =? N.ldiff f 3)
  && (N.ldiff (N.lor f0 fEncrypted) 3 =? N.ldiff f 3)
  && (N.ldiff (N.lor (N.lor f0 fCompressed) fEncrypted) 3 =? N.ldiff f 3)
  && (N.land f0 3 =? 0) && (f0 <? 256).

Lemma flags_caller_sweep f : f < 256 -> flags_caller_ok f = true.
Proof.
  intros H.
  assert (E : forallb flags_caller_ok (map N.of_nat (seq 0 256)) = true) by (vm_compute; reflexivity).
  rewrite forallb_forall in E. apply E.
  apply in_map_iff. exists (N.to_nat f). split; [lia|]. apply in_seq. lia.
Qed.

Lemma ldiff_marshal_clean f : N.land f 3 = 0 -> N.ldiff f fMarshal = f.
Proof.
  intros H. change fMarshal with 3. apply N.bits_inj. intro k.
  rewrite N.ldiff_spec. apply (f_equal (fun x => N.testbit x k)) in H.
  rewrite N.land_spec, N.bits_0 in H.
  destruct (N.testbit f k), (N.testbit 3 k); try reflexivity; discriminate.
Qed.

(* ---------------------------------------------------------------------------------- *)
(* varints *)

Lemma land127 x : N.land (x mod 128 + 128) 127 = x mod 128.
Proof.
  change 127 with (N.ones 7). rewrite N.land_ones. change (2 ^ 7) with 128.
  rewrite N.add_mod by discriminate. rewrite N.mod_same by discriminate.
  rewrite N.add_0_r. rewrite !N.mod_mod by discriminate. reflexivity.
Qed.

Lemma uvarint_put_fuel fuel : forall i acc x rest,
  (i + fuel = 9)%nat -> acc < 2 ^ (7 * N.of_nat i) -> x < 2 ^ (64 - 7 * N.of_nat i) ->
  uvarint_from i acc (7 * N.of_nat i) (put_uvarint_fuel fuel x ++ rest)
  = acc + x * 2 ^ (7 * N.of_nat i).
Proof.
  induction fuel as [|f IH]; intros i acc x rest Hi Hacc Hx.
  - assert (i = 9%nat) by lia. subst i. cbn [put_uvarint_fuel app uvarint_from Nat.eqb].
    change (64 - 7 * N.of_nat 9) with 1 in Hx. change (2 ^ 1) with 2 in Hx.
    rewrite (N.mod_small x 256) by lia.
    destruct (N.ltb_spec x 128) as [_|H]; [|lia].
    destruct (N.ltb_spec 1 x) as [H|_]; [lia|]. cbn [andb].
    apply lor_shiftl_add. assumption.
  - cbn [put_uvarint_fuel].
    assert (Hi9 : Nat.eqb i 9 = false) by (apply Nat.eqb_neq; lia).
    assert (Hi10 : Nat.eqb i 10 = false) by (apply Nat.eqb_neq; lia).
    destruct (N.ltb_spec x 128) as [Hlt|Hge].
    + cbn [app uvarint_from]. rewrite Hi10, Hi9. cbn [andb].
      destruct (N.ltb_spec x 128) as [_|H]; [|lia].
      apply lor_shiftl_add. assumption.
    + cbn [app uvarint_from]. rewrite Hi10.
      destruct (N.ltb_spec (x mod 128 + 128) 128) as [H|_]; [lia|].
      rewrite land127.
      rewrite lor_shiftl_add by assumption.
      replace (7 * N.of_nat i + 7) with (7 * N.of_nat (S i)) by lia.
      rewrite IH.
      * replace (7 * N.of_nat (S i)) with (7 * N.of_nat i + 7) by lia.
        rewrite N.pow_add_r. change (2 ^ 7) with 128.
        assert (E : x = 128 * (x / 128) + x mod 128) by (apply N.div_mod; discriminate).
        rewrite E at 3. lia.
      * lia.
      * replace (7 * N.of_nat (S i)) with (7 * N.of_nat i + 7) by lia.
        rewrite N.pow_add_r. change (2 ^ 7) with 128.
        assert (x mod 128 < 128) by (apply N.mod_lt; discriminate).
        assert (0 < 2 ^ (7 * N.of_nat i)) by (apply N.neq_0_lt_0, N.pow_nonzero; discriminate).
        nia.
      * replace (64 - 7 * N.of_nat (S i)) with (64 - 7 * N.of_nat i - 7) by lia.
        apply N.div_lt_upper_bound; [discriminate|].
        change 128 with (2 ^ 7). rewrite <- N.pow_add_r.
        replace (7 + (64 - 7 * N.of_nat i - 7)) with (64 - 7 * N.of_nat i) by lia. assumption.
Qed.

Lemma uvarint_put x rest : x < 2 ^ 64 -> uvarint (put_uvarint x ++ rest) = x.
Proof.
  intros Hx. unfold uvarint, put_uvarint.
  change 0 with (7 * N.of_nat 0) at 2.
  rewrite uvarint_put_fuel; [cbn; lia|reflexivity|cbn; lia|exact Hx].
Qed.

Lemma zigzag_lt z : (- 2 ^ 63 <= z < 2 ^ 63)%Z -> zigzag z < 2 ^ 64.
Proof.
  intros H. unfold zigzag. destruct (Z.ltb_spec z 0); lia.
Qed.

Lemma unzigzag_zigzag z : unzigzag (zigzag z) = z.
Proof.
  unfold unzigzag, zigzag. destruct (Z.ltb_spec z 0) as [H|H].
  - replace (Z.to_N (-2 * z - 1)) with (1 + 2 * Z.to_N (- z - 1)) by lia.
    rewrite N.odd_add_mul_2. change (N.odd 1) with true. cbv iota.
    replace ((1 + 2 * Z.to_N (- z - 1)) / 2) with (Z.to_N (- z - 1)) by lia. lia.
  - replace (Z.to_N (2 * z)) with (2 * Z.to_N z) by lia.
    rewrite N.odd_mul, N.odd_2. cbn [andb].
    replace (2 * Z.to_N z / 2) with (Z.to_N z) by lia. lia.
Qed.

Lemma varint_put z : (- 2 ^ 63 <= z < 2 ^ 63)%Z -> varint (put_varint z) = z.
Proof.
  intros H. unfold varint, put_varint.
  rewrite <- (app_nil_r (put_uvarint (zigzag z))).
  rewrite uvarint_put by (apply zigzag_lt; assumption).
  apply unzigzag_zigzag.
Qed.
