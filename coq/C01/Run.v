(* C01 — correspondence: decode a case written by harness/cmd/c01, run the model on the same
   input, compare with what the implementation did, and evaluate the property's executable
   form on the implementation's own outputs.

   case (1 ver thrArg cipher keyseed (pkt ...) (chunk ...) [mode])    stream of frames (mode: ReadPacket /
                                                                      ReadHeadBody+UnmarshalPacket; all packets
                                                                      are looked at after the whole stream)
   case (5 thrArg cipher keyseed pkt (ver ...))                       the same packet object encoded repeatedly
        observed ((enc) (dec) (zip) (unzip) ((ver wres rres) ...))
   case (8 ver thrArg cipher keyseed pkt k) / (9 data k)              a writer that fails after k bytes
   case (6 ver thrArg workers iters seed)                             one codec instance, several goroutines
        observed (frames failures #first)
        observed ((enc) (dec) (zip) (unzip) (wres ...) (rres ...))
          wres = (panicked ret err (#write ...) pkt_after crc_go)
          rres = (panicked errkind pkt consumed wanted maxcap)
   case (3 data (chunk ...))                                          length-prefixed helper
        observed ((panicked ret err (#write ...)) (panicked errkind #data consumed wanted maxcap))
   case (4 ver nref bodylen seed thrArg)                              limit probe, sizes only
        observed (panicked ret err nbytes nwrites decoded) *)
From Coq Require Import Arith ZArith NArith List Bool.
From FV Require Import Lib.Sx Lib.NList Lib.BE Lib.Crc32 C01.Model C01.RunLib.
Import ListNotations.
Open Scope N_scope.

Record wobs : Type := mkWobs {
  wo_panic : bool; wo_ret : Z; wo_err : bool; wo_writes : list bytes; wo_pkt : packet; wo_crc : N }.

Definition sx_wobs (s : sx) : option wobs :=
  match s with
  | SList [SInt pn; SInt ret; SInt err; ws; pk; SInt crc] =>
      match sx_bytes_list ws, sx_packet pk with
      | Some w, Some p => Some (mkWobs (negb (Z.eqb pn 0)) ret (negb (Z.eqb err 0)) w p (Z.to_N crc))
      | _, _ => None
      end
  | _ => None
  end.

Record robs : Type := mkRobs {
  ro_panic : bool; ro_kind : Z; ro_pkt : packet; ro_consumed : N; ro_wanted : N; ro_maxcap : N;
  ro_nowant : bool }.   (* read through a bufio.Reader: requests of the underlying reader not compared *)

Definition sx_robs (s : sx) : option robs :=
  match s with
  | SList [SInt pn; SInt kind; pk; SInt consumed; SInt wanted; SInt maxcap] =>
      match sx_packet pk with
      | Some p => Some (mkRobs (negb (Z.eqb pn 0)) kind p (Z.to_N consumed) (Z.to_N wanted) (Z.to_N maxcap)
                               (wanted <? 0)%Z)
      | None => None
      end
  | _ => None
  end.

(* ---------------------------------------------------------------------------------- *)
(* the protocol description, stated independently of the model's encoder *)

Definition header_v1 (p : packet) (frame : bytes) : bytes :=
  be16 (lenN frame) ++ [u8_of_z (p_typ p); p_flag p] ++ be16 (p_seq p)
  ++ be32 (u32_of_z (p_cmd p)) ++ be32 (crc32 (takeN 10 frame ++ dropN 14 frame)).

Definition header_v2 (p : packet) (frame : bytes) : bytes :=
  be24 (lenN frame) ++ [u8_of_z (p_typ p); p_flag p; lenN (p_refers p)] ++ be16 (p_seq p)
  ++ be32 (p_node p) ++ be32 (u32_of_z (p_cmd p))
  ++ be32 (crc32 (takeN 16 frame ++ dropN 20 frame)) ++ be32s (p_refers p).

Definition layout_ok (ver : Z) (p : packet) (frame : bytes) : bool :=
  if Z.eqb ver 1 then
    (14 <=? lenN frame) && bytes_eqb (takeN 14 frame) (header_v1 p frame)
  else
    let n := 20 + 4 * lenN (p_refers p) in
    (n <=? lenN frame) && bytes_eqb (takeN n frame) (header_v2 p frame).

(* the body as it travels, given the flag bits the encoder reported *)
Definition wire_body (enc zip : bytes -> bytes) (p0 pa : packet) : bytes :=
  let b := body_bytes (p_body p0) in
  let b1 := if N.land (p_flag pa) fCompressed =? 0 then b else zip b in
  if N.land (p_flag pa) fEncrypted =? 0 then b1 else enc b1.

Definition body_off (ver : Z) (p : packet) : N :=
  if Z.eqb ver 1 then 14 else 20 + 4 * lenN (p_refers p).

(* the caller's packet: only the two marshalling flag bits may differ *)
Definition caller_fields_ok (p0 pa : packet) : bool :=
  Z.eqb (p_cmd p0) (p_cmd pa) && N.eqb (p_seq p0) (p_seq pa) && Z.eqb (p_typ p0) (p_typ pa)
  && N.eqb (p_node p0) (p_node pa) && nlist_eqb (p_refers p0) (p_refers pa)
  && N.eqb (N.ldiff (p_flag pa) 3) (N.ldiff (p_flag p0) 3).

(* ---------------------------------------------------------------------------------- *)
(* one WritePacket call *)

Definition check_write (enc zip : bytes -> bytes) (ver : Z) (thr : N) (has_c : bool)
           (p : packet) (o : wobs) : verdict :=
  let m := if Z.eqb ver 1 then write_v1 enc zip thr has_c p else write_v2 enc zip thr has_c p in
  let frame := concat (wo_writes o) in
  let pa := wo_pkt o in
  let corr :=
    vall [ check_that (match w_ret m with
                       | Some n => negb (wo_err o) && Z.eqb (wo_ret o) (Z.of_N n)
                       | None => wo_err o && Z.eqb (wo_ret o) 0 end) (VMismatch 1);
           check_that (bytes_list_eqb (w_writes m) (wo_writes o)) (VMismatch 2);
           check_that (header_eqb (w_pkt m) pa) (VMismatch 3);
           check_that (N.eqb (crc32 frame) (wo_crc o)) (VMismatch 10) ] in
  let prop :=
    vall [ check_that (negb (wo_panic o)) (VPropFail 1);
           check_that (wo_err o || Z.eqb (wo_ret o) (Z.of_N (lenN frame))) (VPropFail 2);
           check_that (negb (wo_err o) || (lenN frame =? 0)) (VPropFail 3);
           check_that (wo_panic o || caller_fields_ok p pa) (VPropFail 4);
           check_that (wo_err o || wo_panic o ||
                       (layout_ok ver pa frame &&
                        bytes_eqb (dropN (body_off ver pa) frame) (wire_body enc zip p pa)))
                      (VPropFail 5);
           (* a frame beyond a limit must not be emitted *)
           check_that (wo_err o || ((lenN frame <=? ver_max ver)
                                    && (Z.eqb ver 1 || (lenN (p_refers p) <=? 255))))
                      (VPropFail 10) ] in
  vjoin prop corr.

Fixpoint check_writes (enc zip : bytes -> bytes) (ver : Z) (thr : N) (has_c : bool)
         (ps : list packet) (os : list wobs) : verdict :=
  match ps, os with
  | [], [] => VOk
  | p :: ps', o :: os' => vjoin (check_write enc zip ver thr has_c p o)
                                (check_writes enc zip ver thr has_c ps' os')
  | _, _ => VBad
  end.

(* ---------------------------------------------------------------------------------- *)
(* reading the stream back *)

Definition model_read (dec : bytes -> bytes) (unzip : bytes -> option bytes) (ver : Z)
           (has_c : bool) (s : stream) : rhb packet :=
  if Z.eqb ver 1 then read_packet_v1 dec unzip has_c s packet0
  else read_packet_v2 dec unzip has_c s packet0.

Fixpoint check_reads (dec : bytes -> bytes) (unzip : bytes -> option bytes) (ver : Z)
         (has_c : bool) (total : N) (s : stream) (os : list robs) : verdict :=
  match os with
  | [] => VOk
  | o :: os' =>
      let r := model_read dec unzip ver has_c s in
      let v :=
        vall [ check_that (Z.eqb (outcome_code (r_out r)) (if ro_panic o then (-1)%Z else ro_kind o))
                          (VMismatch 4);
               check_that (match r_out r with Ok p => packet_eqb p (ro_pkt o) | _ => true end)
                          (VMismatch 5);
               check_that (N.eqb (total - total_len (r_rest r)) (ro_consumed o)) (VMismatch 6);
               check_that (ro_nowant o ||
                           (N.eqb (sumN (r_reads r)) (ro_wanted o)
                            && N.eqb (maxN (r_reads r)) (ro_maxcap o))) (VMismatch 7) ] in
      vjoin v (check_reads dec unzip ver has_c total (r_rest r) os')
  end.

(* the round trip, on the implementation's outputs: the i-th frame written comes back as the
   i-th packet read, the reader standing exactly behind it *)
Fixpoint check_roundtrip (ver : Z) (pos : N) (sent : list (packet * wobs)) (os : list robs)
  : verdict :=
  match sent, os with
  | [], [o] =>   (* after the last frame: clean end of stream *)
      check_that (negb (ro_panic o) && Z.eqb (ro_kind o) 1 && N.eqb (ro_consumed o) pos) (VPropFail 7)
  | (p, w) :: sent', o :: os' =>
      let pos' := pos + lenN (concat (wo_writes w)) in
      let q := ro_pkt o in
      let int_ok := (N.land (p_flag p) fError =? 0)
                    || match p_body p with BInt _ => true | _ => false end in
      let v :=
        if int_ok then
          vall [ check_that (negb (ro_panic o)) (VPropFail 1);
                 check_that (Z.eqb (ro_kind o) 0
                             && Z.eqb (p_cmd q) (p_cmd p) && N.eqb (p_seq q) (p_seq p)
                             && N.eqb (p_flag q) (N.ldiff (p_flag p) 3)   (* caller-set flag bits *)
                             && bytes_eqb (body_bytes (p_body q)) (body_bytes (p_body p))
                             && (Z.eqb ver 1 ||
                                 (Z.eqb (p_typ q) (p_typ p) && N.eqb (p_node q) (p_node p)
                                  && nlist_eqb (p_refers q) (p_refers p))))
                            (VPropFail 6);
                 check_that (N.eqb (ro_consumed o) pos') (VPropFail 7) ]
        else check_that (negb (ro_panic o)) (VPropFail 1) in
      vjoin v (check_roundtrip ver pos' sent' os')
  | _, _ => VMismatch 4
  end.

Definition written (ps : list packet) (os : list wobs) : list (packet * wobs) :=
  filter (fun pw => negb (wo_err (snd pw)) && negb (wo_panic (snd pw))) (combine ps os).

Definition check_stream (ver thrArg cipher : Z) (pkts chunks : sx) (obs : list sx) : verdict :=
  match obs with
  | [enc_t; dec_t; zip_t; unzip_t; SList wr; SList rr] =>
      match map_opt sx_packet (match pkts with SList l => l | _ => [] end),
            sx_Ns chunks, sx_table enc_t, sx_table dec_t, sx_table zip_t, sx_otable unzip_t,
            map_opt sx_wobs wr, map_opt sx_robs rr with
      | Some ps, Some sizes, Some te, Some td, Some tz, Some tu, Some ws, Some rs =>
          let enc := fun_of_table te in
          let dec := fun_of_table td in
          let zip := fun_of_table tz in
          let unzip := fun_of_otable tu in
          let has_c := negb (Z.eqb cipher 0) in
          let thr := if Z.eqb ver 1 then thr_v1 thrArg else thr_v2 thrArg in
          let data := concat (map (fun w => concat (wo_writes w)) ws) in
          let s := chunk sizes data in
          vall [ check_writes enc zip ver thr has_c ps ws;
                 check_reads dec unzip ver has_c (lenN data) s rs;
                 check_roundtrip ver 0 (written ps ws) rs ]
      | _, _, _, _, _, _, _, _ => VBad
      end
  | _ => VBad
  end.

(* ---------------------------------------------------------------------------------- *)
(* WriteLenData / ReadLenData *)

Definition check_lendata (data chunks : sx) (obs : list sx) : verdict :=
  match obs with
  | [SList [SInt wpn; SInt ret; SInt werr; ws];
     SList [SInt rpn; SInt kind; SBytes got; SInt consumed; SInt wanted; SInt maxcap]] =>
      match sx_data data, sx_Ns chunks, sx_bytes_list ws with
      | Some d, Some sizes, Some w =>
          let '(mret, mw) := write_len_data d in
          let sent := concat w in
          let r := read_len_data (chunk sizes sent) in
          let wfail := negb (Z.eqb werr 0) in
          let corr :=
            vall [ check_that (match mret with
                               | Some n => negb wfail && Z.eqb ret (Z.of_N n)
                               | None => wfail && Z.eqb ret 0 end
                               && bytes_list_eqb mw w) (VMismatch 8);
                   check_that (Z.eqb (outcome_code (r_out r)) (if Z.eqb rpn 0 then kind else (-1)%Z)
                               && match r_out r with Ok b => bytes_eqb b got | _ => true end
                               && N.eqb (lenN sent - total_len (r_rest r)) (Z.to_N consumed)
                               && N.eqb (sumN (r_reads r)) (Z.to_N wanted)
                               && N.eqb (maxN (r_reads r)) (Z.to_N maxcap)) (VMismatch 9) ] in
          let prop :=
            vall [ check_that (Z.eqb wpn 0 && Z.eqb rpn 0) (VPropFail 1);
                   check_that (wfail || Z.eqb ret (Z.of_N (lenN sent))) (VPropFail 8);
                   check_that (negb wfail || (lenN sent =? 0)) (VPropFail 3);
                   check_that (wfail ||
                               (bytes_eqb sent (be16 (lenN d + 2) ++ d)
                                && Z.eqb kind 0 && bytes_eqb got d
                                && N.eqb (Z.to_N consumed) (lenN sent))) (VPropFail 9) ] in
          vjoin prop corr
      | _, _, _ => VBad
      end
  | _ => VBad
  end.

(* ---------------------------------------------------------------------------------- *)
(* limit probes: sizes only *)

Definition check_limit (ver : Z) (nref bodylen : N) (thrArg : Z) (obs : list sx) : verdict :=
  match obs with
  | [SInt pn; SInt ret; SInt err; SInt nbytes; SInt nwrites; SInt decoded] =>
      let thr := if Z.eqb ver 1 then thr_v1 thrArg else thr_v2 thrArg in
      let exact := bodylen <=? thr in     (* nothing is compressed: the frame size is known *)
      let failed := negb (Z.eqb err 0) in
      let corr :=
        if exact then
          check_that (match limit_predict ver nref bodylen with
                      | Some n => negb failed && Z.eqb ret (Z.of_N n) && Z.eqb nbytes (Z.of_N n)
                                  && Z.eqb nwrites 2
                      | None => failed && Z.eqb ret 0 && Z.eqb nwrites 0
                      end) (VMismatch 1)
        else VOk in
      let prop :=
        vall [ check_that (Z.eqb pn 0) (VPropFail 1);
               check_that (failed || Z.eqb ret nbytes) (VPropFail 2);
               check_that (negb failed || Z.eqb nbytes 0) (VPropFail 3);
               check_that (failed || ((Z.to_N nbytes <=? ver_max ver)
                                      && (Z.eqb ver 1 || (nref <=? 255)))) (VPropFail 10);
               check_that (failed || Z.eqb decoded 1) (VPropFail 6) ] in
      vjoin prop corr
  | _ => VBad
  end.

(* ---------------------------------------------------------------------------------- *)
(* case 5: the same packet object encoded several times; every frame must decode to the
   original packet.  The model threads the caller's packet (its flag keeps the bits set by
   the previous encode). *)

Definition same_as_original (ver : Z) (orig q : packet) : bool :=
  Z.eqb (p_cmd q) (p_cmd orig) && N.eqb (p_seq q) (p_seq orig)
  && N.eqb (p_flag q) (N.ldiff (p_flag orig) 3)
  && bytes_eqb (body_bytes (p_body q)) (body_bytes (p_body orig))
  && (Z.eqb ver 1 ||
      (Z.eqb (p_typ q) (p_typ orig) && N.eqb (p_node q) (p_node orig)
       && nlist_eqb (p_refers q) (p_refers orig))).

Fixpoint check_rounds (enc dec zip : bytes -> bytes) (unzip : bytes -> option bytes)
         (thrArg : Z) (has_c : bool) (orig cur : packet) (rounds : list sx) : verdict :=
  match rounds with
  | [] => VOk
  | SList [SInt ver; w; r] :: rest =>
      match sx_wobs w, sx_robs r with
      | Some wo, Some ro =>
          if negb (Z.eqb ver 1 || Z.eqb ver 2) then VBad else
          let thr := if Z.eqb ver 1 then thr_v1 thrArg else thr_v2 thrArg in
          let m := if Z.eqb ver 1 then write_v1 enc zip thr has_c cur else write_v2 enc zip thr has_c cur in
          let frame := concat (wo_writes wo) in
          let rd := model_read dec unzip ver has_c (match frame with [] => [] | _ => [frame] end) in
          let written := negb (wo_err wo) && negb (wo_panic wo) in
          let corr :=
            vall [ check_that (Z.eqb (outcome_code (r_out rd)) (if ro_panic ro then (-1)%Z else ro_kind ro))
                              (VMismatch 4);
                   check_that (match r_out rd with Ok q => packet_eqb q (ro_pkt ro) | _ => true end)
                              (VMismatch 5) ] in
          let prop :=
            check_that (negb written ||
                        (negb (ro_panic ro) && Z.eqb (ro_kind ro) 0
                         && same_as_original ver orig (ro_pkt ro)
                         && N.eqb (ro_consumed ro) (lenN frame))) (VPropFail 6) in
          vall [ check_write enc zip ver thr has_c cur wo; prop; corr;
                 check_rounds enc dec zip unzip thrArg has_c orig (w_pkt m) rest ]
      | _, _ => VBad
      end
  | _ => VBad
  end.

Definition check_reencode (thrArg cipher : Z) (pk : sx) (obs : list sx) : verdict :=
  match obs with
  | [enc_t; dec_t; zip_t; unzip_t; SList rounds] =>
      match sx_packet pk, sx_table enc_t, sx_table dec_t, sx_table zip_t, sx_otable unzip_t with
      | Some p, Some te, Some td, Some tz, Some tu =>
          check_rounds (fun_of_table te) (fun_of_table td) (fun_of_table tz) (fun_of_otable tu)
                       thrArg (negb (Z.eqb cipher 0)) p p rounds
      | _, _, _, _, _ => VBad
      end
  | _ => VBad
  end.

(* cases 8, 9: a writer that fails after k bytes *)
Fixpoint is_prefix (a b : list bytes) : bool :=
  match a, b with
  | [], _ => true
  | x :: a', y :: b' => bytes_eqb x y && is_prefix a' b'
  | _, [] => false
  end.

Definition check_failing (ver thrArg cipher : Z) (pk : sx) (k : N) (obs : list sx) : verdict :=
  match obs with
  | [enc_t; zip_t; w1; SInt accepted; SInt wfailed; w2] =>
      match sx_packet pk, sx_table enc_t, sx_table zip_t, sx_wobs w1, sx_wobs w2 with
      | Some p, Some te, Some tz, Some o1, Some o2 =>
          let enc := fun_of_table te in
          let zip := fun_of_table tz in
          let has_c := negb (Z.eqb cipher 0) in
          let thr := if Z.eqb ver 1 then thr_v1 thrArg else thr_v2 thrArg in
          let m := if Z.eqb ver 1 then write_v1 enc zip thr has_c p else write_v2 enc zip thr has_c p in
          let m1 := to_writer k m in
          let failed := Z.eqb wfailed 1 in
          let corr :=
            vall [ check_that (match w_ret m1 with
                               | Some n => negb (wo_err o1) && Z.eqb (wo_ret o1) (Z.of_N n)
                               | None => wo_err o1 && Z.eqb (wo_ret o1) 0 end) (VMismatch 1);
                   check_that (bytes_list_eqb (w_writes m1) (wo_writes o1)) (VMismatch 2);
                   check_that (header_eqb (w_pkt m1) (wo_pkt o1)) (VMismatch 3) ] in
          let prop :=
            vall [ check_that (negb (wo_panic o1)) (VPropFail 1);
                   (* a failed Write must surface as an error; without one the call behaves as on a good writer *)
                   check_that (if failed then wo_err o1
                               else Bool.eqb (wo_err o1) (wo_err o2) && Z.eqb (wo_ret o1) (wo_ret o2)
                                    && bytes_list_eqb (wo_writes o1) (wo_writes o2)) (VPropFail 11);
                   (* no Write after the failing one, nothing but the frame's own bytes offered *)
                   check_that (wo_err o2 || is_prefix (wo_writes o1) (wo_writes o2)) (VPropFail 11);
                   check_that (Z.to_N accepted <=? k) (VPropFail 11) ] in
          (* the later packet on a fresh writer *)
          vall [ prop; corr; check_write enc zip ver thr has_c p o2 ]
      | _, _, _, _, _ => VBad
      end
  | _ => VBad
  end.

Definition check_failing_len (data : sx) (k : N) (obs : list sx) : verdict :=
  match obs with
  | [SInt pn; SInt ret; SInt err; ws; SInt accepted; SInt wfailed] =>
      match sx_data data, sx_bytes_list ws with
      | Some d, Some w =>
          let '(mret, mw) := write_len_data d in
          let '(c, ok, _) := run_writer k mw in
          let failed := Z.eqb wfailed 1 in
          let werr := negb (Z.eqb err 0) in
          vall [ check_that (Z.eqb pn 0) (VPropFail 1);
                 check_that (negb failed || werr) (VPropFail 11);
                 check_that (Z.to_N accepted <=? k) (VPropFail 11);
                 check_that (match mret with
                             | Some n => if ok then negb werr && Z.eqb ret (Z.of_N n) && bytes_list_eqb w mw
                                         else werr && Z.eqb ret 0 && bytes_list_eqb w c
                             | None => werr && Z.eqb ret 0 && bytes_list_eqb w []
                             end) (VMismatch 8) ]
      | _, _ => VBad
      end
  | _ => VBad
  end.

(* case 6: one codec instance used by several goroutines: no frame may fail to come back *)
Definition check_stress (obs : list sx) : verdict :=
  match obs with
  | [SInt frames; SInt fails; SBytes _] =>
      if (0 <? frames)%Z then check_that (Z.eqb fails 0) (VPropFail 6) else VBad
  | _ => VBad
  end.

Definition check (c : sx) : verdict :=
  match c with
  | SList [SList [SInt 1%Z; SInt ver; SInt thrArg; SInt cipher; SInt _; pkts; chunks]; SList obs] =>
      if Z.eqb ver 1 || Z.eqb ver 2 then check_stream ver thrArg cipher pkts chunks obs else VBad
  | SList [SList [SInt 1%Z; SInt ver; SInt thrArg; SInt cipher; SInt _; pkts; chunks; SInt _]; SList obs] =>
      if Z.eqb ver 1 || Z.eqb ver 2 then check_stream ver thrArg cipher pkts chunks obs else VBad
  | SList [SList [SInt 5%Z; SInt thrArg; SInt cipher; SInt _; pk; SList _]; SList obs] =>
      check_reencode thrArg cipher pk obs
  | SList [SList [SInt 7%Z; SInt _; SInt _; SInt _; SInt _; SInt _; _]; SList [SInt code; SBytes _]] =>
      (* usage variants evaluated by the harness on the implementation: 0 fine, 4 the caller's
         data outside the body was touched, otherwise the round-trip sentence *)
      if Z.eqb code 0 then VOk else if Z.eqb code 4 then VPropFail 4 else VPropFail 6
  | SList [SList [SInt 8%Z; SInt ver; SInt thrArg; SInt cipher; SInt _; pk; SInt k]; SList obs] =>
      if Z.eqb ver 1 || Z.eqb ver 2 then check_failing ver thrArg cipher pk (Z.to_N k) obs else VBad
  | SList [SList [SInt 9%Z; data; SInt k]; SList obs] => check_failing_len data (Z.to_N k) obs
  | SList [SList [SInt 6%Z; SInt _; SInt _; SInt _; SInt _; SInt _]; SList obs] => check_stress obs
  | SList [SList [SInt 3%Z; data; chunks]; SList obs] => check_lendata data chunks obs
  | SList [SList [SInt 4%Z; SInt ver; SInt nref; SInt bodylen; SInt _; SInt thrArg; SInt _]; SList obs] =>
      if Z.eqb ver 1 || Z.eqb ver 2 then check_limit ver (Z.to_N nref) (Z.to_N bodylen) thrArg obs else VBad
  | SList [SList [SInt 4%Z; SInt ver; SInt nref; SInt bodylen; SInt _; SInt thrArg]; SList obs] =>
      if Z.eqb ver 1 || Z.eqb ver 2 then check_limit ver (Z.to_N nref) (Z.to_N bodylen) thrArg obs else VBad
  | _ => VBad
  end.
