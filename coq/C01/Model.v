(* C01 / C02 — executable model of codec/{v1,v2}_{header,codec}.go, codec/marshal.go and
   codec/codec.go (length-prefixed helper).  Nothing is proved in this file.

   Bytes are [N] (0..255); unsigned header fields are [N]; the signed ones (command int32,
   type int8, integer body int64) are [Z].  Sizes and limits come from Generated/Consts.v.
   The cipher, zlib and the stream are parameters: [enc]/[dec]/[zip]/[unzip] are arguments of
   the section, a stream is the list of chunks its successive Read calls deliver.
   Go's slice bounds checks are explicit: an access the run-time would reject yields [Panic]. *)
From Coq Require Import Arith ZArith NArith List Bool.
From FV Require Import Generated.Consts Lib.NList Lib.BE Lib.Crc32.
Import ListNotations.
Open Scope N_scope.

Definition bytes := list N.

(* ------------------------------------------------------------------------------------ *)
(* constants of the code *)
Definition hs1 : N := Z.to_N codec_V1HeaderSize.
Definition max1 : N := Z.to_N codec_V1MaxPayloadBytes.
Definition hs2 : N := Z.to_N codec_V2HeaderSize.
Definition max2 : N := Z.to_N codec_V2MaxPayloadBytes.
Definition fCompressed : N := Z.to_N root_PFlagCompressed.
Definition fEncrypted : N := Z.to_N root_PFlagEncrypted.
Definition fError : N := Z.to_N root_PFlagError.
Definition fMarshal : N := N.lor fCompressed fEncrypted.   (* PFlagCompressed|PFlagEncrypted *)
Definition max_u8 : N := 255.      (* math.MaxUint8 *)
Definition max_u16 : N := 65535.   (* math.MaxUint16 *)
Definition default_thr1 : N := 4096.   (* NewV1Encoder: threshold <= 0 *)
Definition default_thr2 : N := 8192.   (* NewV2Encoder: threshold <= 0 *)

(* conversions between Go's signed and unsigned fixed-width integers *)
Definition u32_of_z (z : Z) : N := Z.to_N (z mod 4294967296).
Definition u8_of_z (z : Z) : N := Z.to_N (z mod 256).
Definition i32_of_n (n : N) : Z :=
  if n <? 2147483648 then Z.of_N n else (Z.of_N n - 4294967296)%Z.
Definition i8_of_n (n : N) : Z := if n <? 128 then Z.of_N n else (Z.of_N n - 256)%Z.

(* ------------------------------------------------------------------------------------ *)
(* encoding/binary varints (packet.encodeInt64 / encodeUint64, binary.Varint) *)

Fixpoint put_uvarint_fuel (fuel : nat) (x : N) : bytes :=
  match fuel with
  | O => [x mod 256]
  | S f => if x <? 128 then [x] else (x mod 128 + 128) :: put_uvarint_fuel f (x / 128)
  end.
Definition put_uvarint (x : N) : bytes := put_uvarint_fuel 9 x.

(* uint64(x) << 1, complemented for negative x *)
Definition zigzag (z : Z) : N :=
  if (z <? 0)%Z then Z.to_N (- 2 * z - 1) else Z.to_N (2 * z).
Definition unzigzag (ux : N) : Z :=
  if N.odd ux then (- Z.of_N (ux / 2) - 1)%Z else Z.of_N (ux / 2).
Definition put_varint (z : Z) : bytes := put_uvarint (zigzag z).

(* binary.Uvarint: value only; 0 when the buffer is too short or the value overflows *)
Fixpoint uvarint_from (i : nat) (x s : N) (buf : bytes) : N :=
  match buf with
  | [] => 0
  | b :: r =>
      if Nat.eqb i 10 then 0
      else if b <? 128 then
             (if Nat.eqb i 9 && (1 <? b) then 0 else N.lor x (N.shiftl b s))
           else uvarint_from (S i) (N.lor x (N.shiftl (N.land b 127) s)) (s + 7) r
  end.
Definition uvarint (buf : bytes) : N := uvarint_from 0 0 0 buf.
Definition varint (buf : bytes) : Z := unzigzag (uvarint buf).

(* ------------------------------------------------------------------------------------ *)
(* packets *)

Inductive body : Type :=
| BNil                    (* nil *)
| BBytes (b : bytes)      (* []byte *)
| BStr (b : bytes)        (* string *)
| BInt (z : Z)            (* int64 *)
| BFloat (bits : N)       (* float64, by its bit pattern *)
| BProto (v : bytes).     (* a proto.Message: wrapperspb.BytesValue / StringValue holding v *)

Record packet : Type := mkPacket {
  p_cmd : Z;              (* int32 *)
  p_seq : N;              (* uint16 *)
  p_flag : N;             (* uint8 *)
  p_typ : Z;              (* int8 *)
  p_node : N;             (* uint32 *)
  p_refers : list N;      (* []uint32 *)
  p_body : body }.

Definition packet0 : packet := mkPacket 0 0 0 0 0 [] BNil.   (* packet.Make() *)

Definition set_flag (p : packet) (f : N) : packet :=
  mkPacket (p_cmd p) (p_seq p) f (p_typ p) (p_node p) (p_refers p) (p_body p).
Definition set_body (p : packet) (b : body) : packet :=
  mkPacket (p_cmd p) (p_seq p) (p_flag p) (p_typ p) (p_node p) (p_refers p) b.
Definition set_refers (p : packet) (r : list N) : packet :=
  mkPacket (p_cmd p) (p_seq p) (p_flag p) (p_typ p) (p_node p) r (p_body p).

(* Packet.BodyToBytes; a nil body travels as the empty byte string *)
Definition body_bytes (b : body) : bytes :=
  match b with
  | BNil => []
  | BBytes x => x
  | BStr x => x
  | BInt z => put_varint z
  | BFloat bits => put_uvarint bits
  (* proto.Marshal of a message with the single field `1: bytes/string v` (proto3: an empty
     value is not encoded): tag 0x0A, length as varint, the value *)
  | BProto v => match v with [] => [] | _ => 10 :: put_uvarint (lenN v) ++ v end
  end.

(* ------------------------------------------------------------------------------------ *)
(* io.ReadFull over a stream given as the chunks its Read calls return *)

Inductive rerr : Type :=
| EEOF | EUnexpectedEOF       (* io.EOF, io.ErrUnexpectedEOF *)
| ELength                     (* length field refused *)
| EChecksum | ENeedDecrypt | EDecompress | ERefCount.

Inductive outcome (A : Type) : Type :=
| Ok (a : A)
| Err (e : rerr)
| Panic.
Arguments Ok {A} a.
Arguments Err {A} e.
Arguments Panic {A}.

Definition stream := list bytes.

(* ReadFull(r, buf) with len(buf) = n > 0: keeps calling Read until n bytes arrived; a Read
   never returns more than asked, the unread rest of a chunk stays at the head of the stream *)
Fixpoint read_full_go (n : N) (acc : bytes) (s : stream) : outcome bytes * stream :=
  match s with
  | [] => (Err (match acc with [] => EEOF | _ => EUnexpectedEOF end), [])
  | c :: s' =>
      if n <=? lenN c then (Ok (acc ++ takeN n c), dropN n c :: s')
      else read_full_go (n - lenN c) (acc ++ c) s'
  end.

(* with len(buf) = 0 ReadFull returns at once without calling Read *)
Definition read_full (n : N) (s : stream) : outcome bytes * stream :=
  if n =? 0 then (Ok [], s) else read_full_go n [] s.

(* what a ReadHeadBody / ReadLenData call did besides returning *)
Record rhb (A : Type) : Type := mkRhb {
  r_out : outcome A;
  r_rest : stream;
  r_allocs : list N;     (* the argument of every make([]byte, n) *)
  r_reads : list N }.    (* the length of every buffer handed to io.ReadFull *)
Arguments mkRhb {A}.
Arguments r_out {A}.
Arguments r_rest {A}.
Arguments r_allocs {A}.
Arguments r_reads {A}.

Definition sumN (l : list N) : N := fold_right N.add 0 l.
Definition maxN (l : list N) : N := fold_right N.max 0 l.

(* ------------------------------------------------------------------------------------ *)
(* headers *)

Definition zeros (n : N) : bytes := repeat 0 (N.to_nat n).
Definition byte_at (i : nat) (h : bytes) : N := nth i h 0.

(* V1Header.Pack / CalcChecksum / SetChecksum *)
Definition pack_v1 (p : packet) (size : N) (h : bytes) : bytes :=
  put_at 6 (be32 (u32_of_z (p_cmd p)))
 (put_at 4 (be16 (p_seq p))
 (put_at 3 [p_flag p mod 256]
 (put_at 2 [u8_of_z (p_typ p)]
 (put_at 0 (be16 size) h)))).
Definition calc_checksum_v1 (h payload : bytes) : N := crc32 (firstn 10 h ++ payload).
Definition set_checksum_v1 (h : bytes) (crc : N) : bytes := put_at 10 (be32 crc) h.

(* V2Header.Pack / CalcChecksum / SetChecksum *)
Definition pack_v2 (p : packet) (nref size : N) (h : bytes) : bytes :=
  put_at 12 (be32 (u32_of_z (p_cmd p)))
 (put_at 8 (be32 (p_node p))
 (put_at 6 (be16 (p_seq p))
 (put_at 5 [nref mod 256]
 (put_at 4 [p_flag p mod 256]
 (put_at 3 [u8_of_z (p_typ p)]
 (put_at 0 (be24 size) h)))))).
Definition calc_checksum_v2 (h refer payload : bytes) : N :=
  crc32 (firstn 16 h ++ refer ++ payload).
Definition set_checksum_v2 (h : bytes) (crc : N) : bytes := put_at 16 (be32 crc) h.

(* for _, node := range refers { PutUint32(buf[i:], node); i += 4 } *)
Fixpoint put_refs (i : nat) (refs : list N) (buf : bytes) : bytes :=
  match refs with
  | [] => buf
  | r :: t => put_refs (i + 4) t (put_at i (be32 r) buf)
  end.

(* for i := 0; i < refcnt; i++ { Uint32(body[pos:]); pos += 4 }; None = index out of range *)
Fixpoint read_refs (n : nat) (b : bytes) : option (list N) :=
  match n with
  | O => Some []
  | S n' =>
      match b with
      | b0 :: b1 :: b2 :: b3 :: r =>
          match read_refs n' r with
          | Some l => Some (get32 [b0; b1; b2; b3] :: l)
          | None => None
          end
      | _ => None
      end
  end.

(* ------------------------------------------------------------------------------------ *)
Section Codec.
(* external behaviour: the cipher pair of the connection, zlib *)
Variable enc dec : bytes -> bytes.
Variable zip : bytes -> bytes.
Variable unzip : bytes -> option bytes.

(* marshalPacketBody: returns the wire body and the flag it stores in the packet *)
Definition marshal_body (thr : N) (has_enc : bool) (p : packet) : bytes * N :=
  let b := body_bytes (p_body p) in
  let f0 := N.ldiff (p_flag p) fMarshal in      (* bits left by an earlier encode are dropped *)
  let '(b1, f1) :=
    if (0 <? thr) && (thr <? lenN b) then (zip b, N.lor f0 fCompressed)
    else (b, f0) in
  if (0 <? lenN b1) && has_enc then (enc b1, N.lor f1 fEncrypted) else (b1, f1).

(* unmarshalPacketBody *)
Definition unmarshal_body (has_dec : bool) (b : bytes) (p : packet) : outcome packet :=
  let flag := p_flag p in
  let step1 : outcome (bytes * N) :=
    if negb (N.land flag fEncrypted =? 0) then
      if has_dec then Ok (dec b, N.ldiff flag fEncrypted) else Err ENeedDecrypt
    else Ok (b, flag) in
  match step1 with
  | Ok (b1, f1) =>
      let step2 : outcome (bytes * N) :=
        if negb (N.land f1 fCompressed =? 0) then
          match unzip b1 with
          | Some u => Ok (u, N.ldiff f1 fCompressed)
          | None => Err EDecompress
          end
        else Ok (b1, f1) in
      match step2 with
      | Ok (b2, f2) =>
          let p1 := set_flag p f2 in
          if negb (N.land f2 fError =? 0) then Ok (set_body p1 (BInt (varint b2)))
          else Ok (set_body p1 (BBytes b2))
      | Err e => Err e
      | Panic => Panic
      end
  | Err e => Err e
  | Panic => Panic
  end.

(* result of a WritePacket / WriteLenData call *)
Record wres : Type := mkWres {
  w_ret : option N;        (* Some n: (n, nil); None: (0, err) *)
  w_writes : list bytes;   (* the argument of every w.Write call, in order *)
  w_pkt : packet }.        (* the caller's packet afterwards *)

(* NewV1Encoder / NewV2Encoder *)
Definition thr_v1 (t : Z) : N := if (t <=? 0)%Z then default_thr1 else Z.to_N t.
Definition thr_v2 (t : Z) : N := if (t <=? 0)%Z then default_thr2 else Z.to_N t.

(* codecV1.WritePacket *)
Definition write_v1 (thr : N) (has_enc : bool) (p : packet) : wres :=
  let '(b, fl) := marshal_body thr has_enc p in
  let p' := set_flag p fl in
  let nbytes := hs1 + lenN b in
  if max1 <? nbytes then mkWres None [] p'
  else
    let h0 := pack_v1 p' (nbytes mod 65536) (zeros hs1) in
    let h := set_checksum_v1 h0 (calc_checksum_v1 h0 b) in
    mkWres (Some nbytes) [h; b] p'.

(* codecV2.WritePacket *)
Definition write_v2 (thr : N) (has_enc : bool) (p : packet) : wres :=
  let refs := p_refers p in
  if max_u8 <? lenN refs then mkWres None [] p
  else
    let '(b, fl) := marshal_body thr has_enc p in
    let p' := set_flag p fl in
    let nn := hs2 + lenN refs * 4 in
    let nbytes := nn + lenN b in
    if max2 <? nbytes then mkWres None [] p'
    else
      let buf0 := put_refs (N.to_nat hs2) refs (zeros nn) in
      let buf1 := pack_v2 p' (lenN refs) (nbytes mod 4294967296) buf0 in
      let buf := set_checksum_v2 buf1 (calc_checksum_v2 buf1 (skipn (N.to_nat hs2) buf1) b) in
      mkWres (Some nbytes) [buf; b] p'.

(* codecV1.ReadHeadBody — with the range check on the low side that the property demands
   (a length field below the header size is refused before the payload buffer is made) *)
Definition read_head_body_v1 (s : stream) : rhb (bytes * bytes) :=
  match read_full hs1 s with
  | (Ok h, s1) =>
      let length := get16 h in
      if max1 <? length then mkRhb (Err ELength) s1 [] [hs1]
      else if length <? hs1 then mkRhb (Err ELength) s1 [] [hs1]
      else
        let n := (length + 65536 - hs1) mod 65536 in      (* uint16 arithmetic *)
        match read_full n s1 with
        | (Ok payload, s2) => mkRhb (Ok (h, payload)) s2 [n] [hs1; n]
        | (Err e, s2) => mkRhb (Err e) s2 [n] [hs1; n]
        | (Panic, s2) => mkRhb Panic s2 [n] [hs1; n]
        end
  | (Err e, s1) => mkRhb (Err e) s1 [] [hs1]
  | (Panic, s1) => mkRhb Panic s1 [] [hs1]
  end.

(* codecV2.ReadHeadBody *)
Definition read_head_body_v2 (s : stream) : rhb (bytes * bytes) :=
  match read_full hs2 s with
  | (Ok h, s1) =>
      let length := get24 h in
      if max2 <? length then mkRhb (Err ELength) s1 [] [hs2]
      else if length <? hs2 then mkRhb (Err ELength) s1 [] [hs2]
      else
        let n := (length + 4294967296 - hs2) mod 4294967296 in      (* uint32 arithmetic *)
        match read_full n s1 with
        | (Ok payload, s2) => mkRhb (Ok (h, payload)) s2 [n] [hs2; n]
        | (Err e, s2) => mkRhb (Err e) s2 [n] [hs2; n]
        | (Panic, s2) => mkRhb Panic s2 [n] [hs2; n]
        end
  | (Err e, s1) => mkRhb (Err e) s1 [] [hs2]
  | (Panic, s1) => mkRhb Panic s1 [] [hs2]
  end.

(* codecV1.UnmarshalPacket: fills [p]; the header accessors index up to h[13]; the body is
   unmarshalled when it is non-empty or the flag claims compression / encryption *)
Definition unmarshal_v1 (has_dec : bool) (h b : bytes) (p : packet) : outcome packet :=
  if lenN h <? hs1 then Panic
  else
    let p1 := mkPacket (i32_of_n (get32 (skipn 6 h))) (get16 (skipn 4 h)) (byte_at 3 h)
                       (p_typ p) (p_node p) (p_refers p) (p_body p) in
    let checksum := get32 (skipn 10 h) in
    if negb (calc_checksum_v1 h b =? checksum) then Err EChecksum
    else if (0 <? lenN b) || negb (N.land (p_flag p1) fMarshal =? 0) then unmarshal_body has_dec b p1
    else Ok p1.

(* codecV2.UnmarshalPacket *)
Definition unmarshal_v2 (has_dec : bool) (h b : bytes) (p : packet) : outcome packet :=
  if lenN h <? hs2 then Panic
  else
    let p1 := mkPacket (i32_of_n (get32 (skipn 12 h))) (get16 (skipn 6 h)) (byte_at 4 h)
                       (i8_of_n (byte_at 3 h)) (get32 (skipn 8 h)) (p_refers p) (p_body p) in
    let checksum := get32 (skipn 16 h) in
    if negb (calc_checksum_v2 h [] b =? checksum) then Err EChecksum
    else
      let refcnt := byte_at 5 h in
      let after_refs : outcome (packet * N) :=
        if 0 <? refcnt then
          if lenN b <? refcnt * 4 then Err ERefCount
          else match read_refs (N.to_nat refcnt) b with
               | Some refs => Ok (set_refers p1 refs, refcnt * 4)
               | None => Panic
               end
        else Ok (p1, 0) in
      match after_refs with
      | Ok (p2, pos) =>
          if lenN b <? pos then Panic      (* body[pos:] *)
          else
            let b' := dropN pos b in
            if (0 <? lenN b') || negb (N.land (p_flag p2) fMarshal =? 0)
            then unmarshal_body has_dec b' p2 else Ok p2
      | Err e => Err e
      | Panic => Panic
      end.

(* ReadPacket = ReadHeadBody; UnmarshalPacket *)
Definition read_packet_v1 (has_dec : bool) (s : stream) (p : packet) : rhb packet :=
  let r := read_head_body_v1 s in
  match r_out r with
  | Ok (h, b) => mkRhb (unmarshal_v1 has_dec h b p) (r_rest r) (r_allocs r) (r_reads r)
  | Err e => mkRhb (Err e) (r_rest r) (r_allocs r) (r_reads r)
  | Panic => mkRhb Panic (r_rest r) (r_allocs r) (r_reads r)
  end.

Definition read_packet_v2 (has_dec : bool) (s : stream) (p : packet) : rhb packet :=
  let r := read_head_body_v2 s in
  match r_out r with
  | Ok (h, b) => mkRhb (unmarshal_v2 has_dec h b p) (r_rest r) (r_allocs r) (r_reads r)
  | Err e => mkRhb (Err e) (r_rest r) (r_allocs r) (r_reads r)
  | Panic => mkRhb Panic (r_rest r) (r_allocs r) (r_reads r)
  end.

End Codec.

(* ------------------------------------------------------------------------------------ *)
(* a writer that fails: it accepts [k] more bytes; a Write that does not fit takes what fits
   and returns an error.  WritePacket / WriteLenData return (0, err) at the first failing Write
   and make no further call.  Result: the Write calls made, whether all succeeded, and the
   number of bytes the writer accepted. *)
Fixpoint run_writer (k : N) (ws : list bytes) : list bytes * bool * N :=
  match ws with
  | [] => ([], true, 0)
  | w :: r =>
      if lenN w <=? k then
        let '(c, ok, a) := run_writer (k - lenN w) r in (w :: c, ok, lenN w + a)
      else ([w], false, k)
  end.

(* the result of a WritePacket call whose writer has room for k bytes *)
Definition to_writer (k : N) (w : wres) : wres :=
  match w_ret w with
  | None => w
  | Some n =>
      let '(c, ok, _) := run_writer k (w_writes w) in
      mkWres (if ok then Some n else None) c (w_pkt w)
  end.

(* ------------------------------------------------------------------------------------ *)
(* codec.WriteLenData / ReadLenData (no cipher, no compression) *)

(* returns (n, writes): the count is the number of bytes handed to the writer *)
Definition write_len_data (data : bytes) : option N * list bytes :=
  let length := lenN data + 2 in
  if max_u16 <=? length then (None, [])
  else (Some (lenN data + 2), [be16 (length mod 65536); data]).

(* with the range check on the low side that the property demands *)
Definition read_len_data (s : stream) : rhb bytes :=
  match read_full 2 s with
  | (Ok t, s1) =>
      let length := get16 t in
      if length <? 2 then mkRhb (Err ELength) s1 [] [2]
      else
        let n := (length + 65536 - 2) mod 65536 in
        match read_full n s1 with
        | (Ok buf, s2) => mkRhb (Ok buf) s2 [n] [2; n]
        | (Err e, s2) => mkRhb (Err e) s2 [n] [2; n]
        | (Panic, s2) => mkRhb Panic s2 [n] [2; n]
        end
  | (Err e, s1) => mkRhb (Err e) s1 [] [2]
  | (Panic, s1) => mkRhb Panic s1 [] [2]
  end.
