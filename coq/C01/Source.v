(* C01 — the header byte accessors regenerated from codec/v1_header.go and v2_header.go by
   tools/gofunc (Generated/CodecHeader.v: V1Header.Type/Flag, V2Header.Type/Flag/RefCount)
   read exactly the bytes the hand-written model reads in unmarshal_v1 / unmarshal_v2 and writes
   in pack_v1 / pack_v2; on a header shorter than the offset they panic, as the model's
   length check says.  (The other codec functions use encoding/binary, hash/crc32, io or return
   errors and are outside the translator's subset.) *)
From Coq Require Import Arith ZArith NArith List Bool Lia ZifyNat ZifyN ZifyBool.
From FV Require Import Generated.Consts Generated.CodecHeader Lib.GoSem Lib.NList Lib.BE Lib.Crc32
     C01.Model C01.ProofsV1 C01.ProofsV2 C01.Proofs.
Import ListNotations.
Open Scope N_scope.

Definition zbytes (h : bytes) : list Z := map Z.of_N h.

Lemma go_index_bytes (h : bytes) k :
  go_index (zbytes h) (Z.of_nat k)
  = if (k <? length h)%nat then GoSem.Ok (Z.of_N (nth k h 0)) else GoSem.Panic.
Proof.
  unfold go_index, go_len, zbytes. rewrite map_length.
  destruct (Nat.ltb_spec k (length h)) as [H|H].
  - replace ((0 <=? Z.of_nat k)%Z && (Z.of_nat k <? Z.of_nat (length h))%Z) with true
      by (symmetry; apply andb_true_intro; split; [apply Z.leb_le|apply Z.ltb_lt]; lia).
    rewrite Nat2Z.id. change 0%Z with (Z.of_N 0). rewrite map_nth. reflexivity.
  - replace ((0 <=? Z.of_nat k)%Z && (Z.of_nat k <? Z.of_nat (length h))%Z) with false; [reflexivity|].
    symmetry. apply andb_false_intro2. apply Z.ltb_ge. lia.
Qed.

Lemma long_enough (h : bytes) n k : n <= lenN h -> (N.of_nat k < n) -> (k <? length h)%nat = true.
Proof. unfold lenN. intros H1 H2. apply Nat.ltb_lt. lia. Qed.

(* the accessors on a complete header: the bytes the model's decoder reads *)
Lemma src_header_v1 h : hs1 <= lenN h ->
  go_V1Header_Type (zbytes h) = GoSem.Ok (Z.of_N (byte_at 2 h))
  /\ go_V1Header_Flag (zbytes h) = GoSem.Ok (Z.of_N (byte_at 3 h)).
Proof.
  intros H. unfold go_V1Header_Type, go_V1Header_Flag, byte_at.
  change 2%Z with (Z.of_nat 2). change 3%Z with (Z.of_nat 3). rewrite !go_index_bytes.
  rewrite !(long_enough h hs1) by (try assumption; reflexivity). split; reflexivity.
Qed.

Lemma src_header_v2 h : hs2 <= lenN h ->
  go_V2Header_Type (zbytes h) = GoSem.Ok (Z.of_N (byte_at 3 h))
  /\ go_V2Header_Flag (zbytes h) = GoSem.Ok (Z.of_N (byte_at 4 h))
  /\ go_V2Header_RefCount (zbytes h) = GoSem.Ok (Z.of_N (byte_at 5 h)).
Proof.
  intros H. unfold go_V2Header_Type, go_V2Header_Flag, go_V2Header_RefCount, byte_at.
  change 3%Z with (Z.of_nat 3). change 4%Z with (Z.of_nat 4). change 5%Z with (Z.of_nat 5).
  rewrite !go_index_bytes.
  rewrite !(long_enough h hs2) by (try assumption; reflexivity). repeat split; reflexivity.
Qed.

(* too short a header: the source panics where the model says Panic *)
Lemma src_short_v1 dec unzip hd h b p : lenN h <= 3 ->
  go_V1Header_Flag (zbytes h) = GoSem.Panic /\ unmarshal_v1 dec unzip hd h b p = Model.Panic.
Proof.
  intros H. split.
  - unfold go_V1Header_Flag. change 3%Z with (Z.of_nat 3). rewrite go_index_bytes.
    destruct (Nat.ltb_spec 3 (length h)) as [X|_]; [unfold lenN in H; lia|reflexivity].
  - unfold unmarshal_v1. destruct (N.ltb_spec (lenN h) hs1) as [_|X]; [reflexivity|].
    unfold hs1, codec_V1HeaderSize in X. lia.
Qed.

(* the accessors on what the model's encoder emits: the caller's type and the stored flag *)
Lemma src_written_v1 enc zip thr has_c p n ws p' :
  p_flag p < 256 -> clean_flags p ->
  write_v1 enc zip thr has_c p = mkWres (Some n) ws p' ->
  go_V1Header_Type (zbytes (concat ws)) = GoSem.Ok (Z.of_N (u8_of_z (p_typ p)))
  /\ go_V1Header_Flag (zbytes (concat ws)) = GoSem.Ok (Z.of_N (p_flag p')).
Proof.
  intros Hf Hc Hw. destruct (layout_v1 enc zip thr has_c p n ws p' Hf Hc Hw) as (E & _ & _).
  cbv zeta in E. rewrite E. unfold go_V1Header_Type, go_V1Header_Flag.
  change 2%Z with (Z.of_nat 2). change 3%Z with (Z.of_nat 3). rewrite !go_index_bytes.
  split; reflexivity.
Qed.

Lemma src_written_v2 enc zip thr has_c p n ws p' :
  p_flag p < 256 -> clean_flags p ->
  write_v2 enc zip thr has_c p = mkWres (Some n) ws p' ->
  go_V2Header_Type (zbytes (concat ws)) = GoSem.Ok (Z.of_N (u8_of_z (p_typ p)))
  /\ go_V2Header_Flag (zbytes (concat ws)) = GoSem.Ok (Z.of_N (p_flag p'))
  /\ go_V2Header_RefCount (zbytes (concat ws)) = GoSem.Ok (Z.of_N (lenN (p_refers p))).
Proof.
  intros Hf Hc Hw. destruct (layout_v2 enc zip thr has_c p n ws p' Hf Hc Hw) as (E & _ & _).
  cbv zeta in E. rewrite E. unfold go_V2Header_Type, go_V2Header_Flag, go_V2Header_RefCount.
  change 3%Z with (Z.of_nat 3). change 4%Z with (Z.of_nat 4). change 5%Z with (Z.of_nat 5).
  rewrite !go_index_bytes. repeat split; reflexivity.
Qed.
