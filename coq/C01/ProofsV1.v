(* C01 — V1 codec: explicit form of the emitted frame, body marshalling round trip, frame
   round trip over an arbitrarily chunked stream. *)
From Coq Require Import Arith ZArith NArith List Bool Lia ZifyNat ZifyN ZifyBool.
From FV Require Import Generated.Consts Lib.NList Lib.BE Lib.Crc32 C01.Model C01.ProofsIO C01.ProofsBits.
Import ListNotations.
Open Scope N_scope.

Ltac Zify.zify_post_hook ::= Z.div_mod_to_equations.

(* ---------------------------------------------------------------------------------- *)
(* well-formed packets: every field in the range of its Go type *)

Record wf_packet (p : packet) : Prop := mkWf {
  wf_cmd : (-2147483648 <= p_cmd p < 2147483648)%Z;
  wf_seq : p_seq p < 65536;
  wf_flag : p_flag p < 256;
  wf_typ : (-128 <= p_typ p < 128)%Z;
  wf_node : p_node p < 4294967296;
  wf_refers : Forall (fun r => r < 4294967296) (p_refers p) }.

(* the marshalling bits are not pre-set by the caller *)
Definition clean_flags (p : packet) : Prop := N.land (p_flag p) 3 = 0.

(* an error-flagged packet carries an integer body *)
Definition body_ok (p : packet) : Prop :=
  N.land (p_flag p) fError <> 0 ->
  exists z, p_body p = BInt z /\ (- 2 ^ 63 <= z < 2 ^ 63)%Z.

(* what unmarshalPacketBody stores for a non-empty body *)
Definition decoded_body (p : packet) : body :=
  if N.land (p_flag p) fError =? 0 then BBytes (body_bytes (p_body p))
  else BInt (varint (body_bytes (p_body p))).

Lemma decoded_body_bytes p : body_ok p -> body_bytes (decoded_body p) = body_bytes (p_body p).
Proof.
  intros H. unfold decoded_body. destruct (N.eqb_spec (N.land (p_flag p) fError) 0) as [E|E].
  - reflexivity.
  - destruct (H E) as [z [-> Hz]]. cbn [body_bytes]. now rewrite varint_put.
Qed.

Lemma i32_u32 z : (-2147483648 <= z < 2147483648)%Z -> i32_of_n (u32_of_z z) = z.
Proof.
  intros H. unfold i32_of_n, u32_of_z.
  destruct (N.ltb_spec (Z.to_N (z mod 4294967296)) 2147483648); lia.
Qed.
Lemma u32_lt z : u32_of_z z < 4294967296.
Proof. unfold u32_of_z. lia. Qed.
Lemma i8_u8 z : (-128 <= z < 128)%Z -> i8_of_n (u8_of_z z) = z.
Proof.
  intros H. unfold i8_of_n, u8_of_z. destruct (N.ltb_spec (Z.to_N (z mod 256)) 128); lia.
Qed.
Lemma u8_lt z : u8_of_z z < 256.
Proof. unfold u8_of_z. lia. Qed.

(* ---------------------------------------------------------------------------------- *)
(* the header as the protocol description lays it out *)

Definition head10_v1 (p : packet) (n : N) : bytes :=
  be16 n ++ [u8_of_z (p_typ p); p_flag p mod 256] ++ be16 (p_seq p) ++ be32 (u32_of_z (p_cmd p)).

Lemma pack_v1_zeros p n : pack_v1 p n (zeros hs1) = head10_v1 p n ++ [0; 0; 0; 0].
Proof. reflexivity. Qed.

Lemma set_checksum_v1_form p n c :
  set_checksum_v1 (head10_v1 p n ++ [0; 0; 0; 0]) c = head10_v1 p n ++ be32 c.
Proof. reflexivity. Qed.

Lemma firstn10_head p n r : firstn 10 (head10_v1 p n ++ r) = head10_v1 p n.
Proof. reflexivity. Qed.

Definition frame_head_v1 (p : packet) (n : N) (b : bytes) : bytes :=
  head10_v1 p n ++ be32 (crc32 (head10_v1 p n ++ b)).

Lemma frame_head_v1_len p n b : lenN (frame_head_v1 p n b) = 14.
Proof. reflexivity. Qed.

(* WritePacket in closed form *)
Lemma write_v1_form enc zip thr has_c p :
  let '(b, fl) := marshal_body enc zip thr has_c p in
  let p' := set_flag p fl in
  write_v1 enc zip thr has_c p =
    if max1 <? hs1 + lenN b then mkWres None [] p'
    else mkWres (Some (hs1 + lenN b)) [frame_head_v1 p' ((hs1 + lenN b) mod 65536) b; b] p'.
Proof.
  unfold write_v1. destruct (marshal_body enc zip thr has_c p) as [b fl].
  destruct (max1 <? hs1 + lenN b); [reflexivity|].
  rewrite pack_v1_zeros. unfold calc_checksum_v1. rewrite firstn10_head.
  rewrite set_checksum_v1_form. reflexivity.
Qed.

Lemma some_inj {A} (a b : A) : Some a = Some b -> a = b.
Proof. congruence. Qed.

(* ---------------------------------------------------------------------------------- *)
Section RoundTrip.
Variable enc dec : bytes -> bytes.
Variable zip : bytes -> bytes.
Variable unzip : bytes -> option bytes.
Hypothesis dec_enc : forall b, dec (enc b) = b.
Hypothesis enc_len : forall b, lenN (enc b) = lenN b.
Hypothesis unzip_zip : forall b, unzip (zip b) = Some b.
Hypothesis zip_nonempty : forall b, 0 < lenN (zip b).

Lemma flags_facts f : f < 256 -> N.land f 3 = 0 ->
  N.land f fEncrypted = 0 /\ N.land f fCompressed = 0
  /\ N.land (N.lor f fCompressed) fCompressed <> 0
  /\ N.land (N.lor f fCompressed) fEncrypted = 0
  /\ N.ldiff (N.lor f fCompressed) fCompressed = f
  /\ N.land (N.lor f fEncrypted) fEncrypted <> 0
  /\ N.land (N.ldiff (N.lor f fEncrypted) fEncrypted) fCompressed = 0
  /\ N.ldiff (N.lor f fEncrypted) fEncrypted = f
  /\ N.land (N.lor (N.lor f fCompressed) fEncrypted) fEncrypted <> 0
  /\ N.ldiff (N.lor (N.lor f fCompressed) fEncrypted) fEncrypted = N.lor f fCompressed
  /\ N.lor f fCompressed < 256 /\ N.lor f fEncrypted < 256
  /\ N.lor (N.lor f fCompressed) fEncrypted < 256.
Proof.
  intros Hf Hc. pose proof (flags_sweep f Hf) as H. unfold flags_ok in H.
  rewrite Hc in H. cbn [N.eqb negb orb] in H.
  repeat (apply andb_prop in H; destruct H as [H ?]).
  repeat match goal with
         | H : (_ =? _) = true |- _ => apply N.eqb_eq in H
         | H : negb (_ =? _) = true |- _ => apply negb_true_iff, N.eqb_neq in H
         | H : (_ <? _) = true |- _ => apply N.ltb_lt in H
         end.
  repeat split; assumption.
Qed.

(* marshalPacketBody then unmarshalPacketBody on a packet carrying the stored flag *)
Lemma unmarshal_marshal thr has_c hd p b fl q :
  (has_c = true -> hd = true) ->
  p_flag p < 256 -> clean_flags p ->
  marshal_body enc zip thr has_c p = (b, fl) -> 0 < lenN b -> p_flag q = fl ->
  unmarshal_body dec unzip hd b q
    = Ok (set_body (set_flag q (p_flag p)) (decoded_body p))
  /\ 0 < lenN (body_bytes (p_body p)).
Proof.
  intros Himp Hf Hc M Hb Hq. unfold clean_flags in Hc.
  destruct (flags_facts _ Hf Hc) as (F1 & F2 & F3 & F4 & F5 & F6 & F7 & F8 & F9 & F10 & _).
  unfold marshal_body in M. rewrite (ldiff_marshal_clean _ Hc) in M.
  set (B := body_bytes (p_body p)) in *.
  unfold unmarshal_body, decoded_body. fold B. rewrite Hq.
  destruct ((0 <? thr) && (thr <? lenN B)) eqn:C.
  - (* compressed *)
    assert (HB : 0 < lenN B) by lia.
    destruct ((0 <? lenN (zip B)) && has_c) eqn:E; injection M as <- <-.
    + assert (Hhc : has_c = true) by (destruct has_c; [reflexivity|rewrite andb_false_r in E; discriminate]).
      rewrite (Himp Hhc).
      destruct (N.eqb_spec (N.land (N.lor (N.lor (p_flag p) fCompressed) fEncrypted) fEncrypted) 0) as [X|_];
        [contradiction|]. cbn [negb]. rewrite dec_enc, F10.
      destruct (N.eqb_spec (N.land (N.lor (p_flag p) fCompressed) fCompressed) 0) as [X|_];
        [contradiction|]. cbn [negb]. rewrite unzip_zip, F5.
      split; [|assumption]. destruct (N.land (p_flag p) fError =? 0); reflexivity.
    + rewrite F4. cbn [N.eqb negb].
      destruct (N.eqb_spec (N.land (N.lor (p_flag p) fCompressed) fCompressed) 0) as [X|_];
        [contradiction|]. cbn [negb]. rewrite unzip_zip, F5.
      split; [|assumption]. destruct (N.land (p_flag p) fError =? 0); reflexivity.
  - destruct ((0 <? lenN B) && has_c) eqn:E; injection M as <- <-.
    + assert (Hhc : has_c = true) by (destruct has_c; [reflexivity|rewrite andb_false_r in E; discriminate]).
      rewrite (Himp Hhc).
      destruct (N.eqb_spec (N.land (N.lor (p_flag p) fEncrypted) fEncrypted) 0) as [X|_];
        [contradiction|]. cbn [negb]. rewrite dec_enc, F7. cbn [N.eqb negb]. rewrite F8.
      split; [|lia]. destruct (N.land (p_flag p) fError =? 0); reflexivity.
    + rewrite F1. cbn [N.eqb negb]. rewrite F2. cbn [N.eqb negb].
      split; [|assumption]. destruct (N.land (p_flag p) fError =? 0); reflexivity.
Qed.

(* an empty wire body comes from an empty body and leaves the flag alone *)
Lemma marshal_empty thr has_c p b fl :
  marshal_body enc zip thr has_c p = (b, fl) -> lenN b = 0 ->
  fl = N.ldiff (p_flag p) fMarshal /\ body_bytes (p_body p) = [].
Proof.
  intros M Hb. unfold marshal_body in M. set (B := body_bytes (p_body p)) in *.
  destruct ((0 <? thr) && (thr <? lenN B)) eqn:C.
  - pose proof (zip_nonempty B) as Z.
    destruct ((0 <? lenN (zip B)) && has_c) eqn:E; injection M as <- <-.
    + rewrite enc_len in Hb. lia.
    + lia.
  - destruct ((0 <? lenN B) && has_c) eqn:E; injection M as <- <-.
    + rewrite enc_len in Hb. lia.
    + split; [reflexivity|]. apply lenN_0. assumption.
Qed.

Lemma marshal_flag_lt thr has_c p b fl :
  p_flag p < 256 -> clean_flags p -> marshal_body enc zip thr has_c p = (b, fl) -> fl < 256.
Proof.
  intros Hf Hc M. destruct (flags_facts _ Hf Hc) as (_&_&_&_&_&_&_&_&_&_& G1 & G2 & G3).
  unfold marshal_body in M. rewrite (ldiff_marshal_clean _ Hc) in M.
  destruct ((0 <? thr) && (thr <? lenN (body_bytes (p_body p))));
    match type of M with (if ?c then _ else _) = _ => destruct c end; injection M as <- <-; assumption.
Qed.

(* what the decoder returns for the frame of [p] when it starts from the packet [p0] *)
Definition decoded_v1 (p p0 : packet) : packet :=
  mkPacket (p_cmd p) (p_seq p) (p_flag p) (p_typ p0) (p_node p0) (p_refers p0)
           (match body_bytes (p_body p) with [] => p_body p0 | _ => decoded_body p end).

Theorem roundtrip_v1 thr has_c hd p n ws p' s rest p0 :
  (has_c = true -> hd = true) ->
  wf_packet p -> clean_flags p ->
  write_v1 enc zip thr has_c p = mkWres (Some n) ws p' ->
  concat s = concat ws ++ rest ->
  let r := read_packet_v1 dec unzip hd s p0 in
  r_out r = Ok (decoded_v1 p p0) /\ concat (r_rest r) = rest
  /\ r_allocs r = [n - hs1] /\ r_reads r = [hs1; n - hs1].
Proof.
  intros Himp W Hc Hw Hs r. subst r.
  pose proof (write_v1_form enc zip thr has_c p) as F. rewrite Hw in F.
  destruct (marshal_body enc zip thr has_c p) as [b fl] eqn:M.
  destruct (max1 <? hs1 + lenN b) eqn:Hmax; [discriminate|]. apply N.ltb_ge in Hmax.
  pose proof (some_inj _ _ (f_equal w_ret F)) as E1. pose proof (f_equal w_writes F) as E2.
  pose proof (f_equal w_pkt F) as E3. cbn [w_ret w_writes w_pkt] in E1, E2, E3. clear F.
  subst n ws p'.
  assert (Hfl : fl < 256) by (eapply marshal_flag_lt; eauto; apply W).
  assert (Hn : (hs1 + lenN b) mod 65536 = hs1 + lenN b)
    by (apply N.mod_small; unfold max1, hs1, codec_V1MaxPayloadBytes, codec_V1HeaderSize in *; lia).
  rewrite Hn in *.
  set (h := frame_head_v1 (set_flag p fl) (hs1 + lenN b) b) in *.
  cbn [concat] in Hs. rewrite app_nil_r, <- app_assoc in Hs.
  unfold read_packet_v1, read_head_body_v1.
  destruct (read_full_ok hs1 s h (b ++ rest) Hs (frame_head_v1_len _ _ _)) as (s1 & R1 & C1).
  rewrite R1.
  assert (G16 : get16 h = hs1 + lenN b).
  { unfold h, frame_head_v1, head10_v1. rewrite <- !app_assoc. rewrite get16_be16; [reflexivity|].
    unfold max1, hs1, codec_V1MaxPayloadBytes, codec_V1HeaderSize in *; lia. }
  rewrite G16.
  destruct (N.ltb_spec max1 (hs1 + lenN b)) as [X|_]; [lia|].
  destruct (N.ltb_spec (hs1 + lenN b) hs1) as [X|_]; [lia|].
  assert (Hlen : (hs1 + lenN b + 65536 - hs1) mod 65536 = lenN b).
  { replace (hs1 + lenN b + 65536 - hs1) with (lenN b + 1 * 65536) by lia.
    rewrite N.mod_add by discriminate. apply N.mod_small.
    unfold max1, hs1, codec_V1MaxPayloadBytes, codec_V1HeaderSize in *; lia. }
  rewrite Hlen.
  destruct (read_full_ok (lenN b) s1 b rest C1 eq_refl) as (s2 & R2 & C2).
  rewrite R2. cbn [r_out r_rest r_allocs r_reads].
  replace (hs1 + lenN b - hs1) with (lenN b) by lia.
  split; [|split; [assumption|split; reflexivity]].
  (* UnmarshalPacket *)
  unfold unmarshal_v1. unfold h at 1. rewrite frame_head_v1_len.
  destruct (N.ltb_spec 14 hs1) as [X|_]; [unfold hs1, codec_V1HeaderSize in X; lia|].
  assert (Ecrc : calc_checksum_v1 h b =? get32 (skipn 10 h) = true).
  { apply N.eqb_eq. unfold calc_checksum_v1, h, frame_head_v1. rewrite firstn10_head.
    change (skipn 10 (head10_v1 (set_flag p fl) (hs1 + lenN b) ++ ?x)) with x.
    rewrite <- (app_nil_r (be32 _)). rewrite get32_be32 by apply crc32_lt. reflexivity. }
  rewrite Ecrc. cbn [negb].
  assert (Ecmd : i32_of_n (get32 (skipn 6 h)) = p_cmd p).
  { change (skipn 6 h) with (be32 (u32_of_z (p_cmd p)) ++ be32 (crc32 (head10_v1 (set_flag p fl) (hs1 + lenN b) ++ b))).
    rewrite get32_be32 by apply u32_lt. apply i32_u32. apply W. }
  assert (Eseq : get16 (skipn 4 h) = p_seq p).
  { change (skipn 4 h) with (be16 (p_seq p) ++ be32 (u32_of_z (p_cmd p)) ++ be32 (crc32 (head10_v1 (set_flag p fl) (hs1 + lenN b) ++ b))).
    apply get16_be16. apply W. }
  assert (Eflag : byte_at 3 h = fl).
  { change (byte_at 3 h) with (fl mod 256). apply N.mod_small. assumption. }
  rewrite Ecmd, Eseq, Eflag.
  cbn [p_flag].
  destruct (N.ltb_spec 0 (lenN b)) as [Hb|Hb]; cbn [orb].
  - destruct (unmarshal_marshal thr has_c hd p b fl
                (mkPacket (p_cmd p) (p_seq p) fl (p_typ p0) (p_node p0) (p_refers p0) (p_body p0)))
      as [U HB]; try assumption; try reflexivity; [apply W|].
    rewrite U. unfold decoded_v1, set_body, set_flag. cbn [p_cmd p_seq p_flag p_typ p_node p_refers p_body].
    destruct (body_bytes (p_body p)); [cbn in HB; lia|reflexivity].
  - destruct (marshal_empty thr has_c p b fl M) as [-> E]; [lia|].
    rewrite (ldiff_marshal_clean _ Hc).
    change (N.land (p_flag p) fMarshal) with (N.land (p_flag p) 3). rewrite Hc. cbn [N.eqb negb].
    unfold decoded_v1. rewrite E. reflexivity.
Qed.

End RoundTrip.
