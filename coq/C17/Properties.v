(* C17 — consistent hashing: property theorems (placeholder while the pipeline is brought up). *)
From Coq Require Import ZArith List Bool.
From FV Require Import C17.Model C17.Proofs.
Import ListNotations.
Open Scope Z_scope.

Theorem c17_readd_noop : forall hash n s, mem_name n (nodes s) = true -> add_node hash n s = s.
Proof. exact readd_noop. Qed.
Print Assumptions c17_readd_noop.
