(* C17 — Consistent-hash lookups are stable; membership changes move a minimum of keys.
   Only the property theorems: each is closed by lemmas of C17/Proofs.v and followed by
   Print Assumptions.  Everything is quantified over an ARBITRARY hash function, every
   history of AddNode/RemoveNode calls over arbitrary member names and every key; there is
   no hypothesis about collisions between replica points (since fix b0007b4 AddNode keeps
   the owner of an occupied point and RemoveNode deletes only points owned by the leaving
   member, which is what the model transcribes). *)
From Coq Require Import ZArith List Bool Sorting.Sorted Sorting.Permutation.
From FV Require Import C17.Model C17.Proofs.
Import ListNotations.
Open Scope Z_scope.

(* "A lookup on a non-empty ring always returns a current member"
   (non-empty ring = at least one point on the circle; `nodes` is the member set) *)
Theorem c17_member : forall hash ops key,
  circle (run hash ops) <> [] ->
  exists n, get_node_by hash key (run hash ops) = Some n /\ In n (nodes (run hash ops)).
Proof. intros hash ops key H. apply member; [apply inv_run | exact H]. Qed.
Print Assumptions c17_member.

(* the member set is what the history says: the names added and not removed since *)
Theorem c17_members_are_added_not_removed : forall hash ops n,
  In n (nodes (run hash ops)) <->
  exists before after, ops = before ++ Add n :: after /\ ~ In (Remove n) after.
Proof. exact members_spec. Qed.
Print Assumptions c17_members_are_added_not_removed.

(* "the same key maps to the same member for as long as membership is unchanged":
   a call that leaves the set of members as it is (adding a member again, removing a name
   that is not a member) leaves the ring, hence every lookup, as it is; lookups themselves
   do not change the ring (get_node_by is a function of the ring). *)
Theorem c17_stable : forall hash ops o key,
  (forall m, In m (nodes (step hash (run hash ops) o)) <-> In m (nodes (run hash ops))) ->
  get_node_by hash key (step hash (run hash ops) o) = get_node_by hash key (run hash ops).
Proof. intros hash ops o key H. rewrite (stable hash _ o (inv_run hash ops) H). reflexivity. Qed.
Print Assumptions c17_stable.

(* ... and so does a whole run of such calls (the rule Run.v applies between two lookups
   separated by quiet calls) *)
Theorem c17_stable_run : forall hash ops more key,
  (forall pre o post, more = pre ++ o :: post ->
     forall m, In m (nodes (run hash (ops ++ pre ++ [o]))) <-> In m (nodes (run hash (ops ++ pre)))) ->
  get_node_by hash key (run hash (ops ++ more)) = get_node_by hash key (run hash ops).
Proof.
  intros hash ops more key H.
  assert (E : run hash (ops ++ more) = run hash ops).
  { unfold run at 1. rewrite fold_left_app. fold (run hash ops).
    apply (stable_run hash more _ (inv_run hash ops)).
    intros pre o post E m. specialize (H pre o post E m). unfold run in H.
    rewrite !fold_left_app in H. cbn [fold_left] in H. exact H. }
  rewrite E. reflexivity.
Qed.
Print Assumptions c17_stable_run.

(* "Adding a member moves a key only if it moves to the new member" *)
Theorem c17_add_moves_only_to_new : forall hash ops x key n',
  get_node_by hash key (run hash (ops ++ [Add x])) = Some n' ->
  get_node_by hash key (run hash ops) <> Some n' ->
  n' = x.
Proof.
  intros hash ops x key n'. unfold run. rewrite fold_left_app. cbn.
  apply add_moves_only_to_new, inv_run.
Qed.
Print Assumptions c17_add_moves_only_to_new.

(* "removing a member moves only the keys that were mapped to it" *)
Theorem c17_remove_moves_only_own : forall hash ops x key n,
  get_node_by hash key (run hash ops) = Some n -> n <> x ->
  get_node_by hash key (run hash (ops ++ [Remove x])) = Some n.
Proof.
  intros hash ops x key n. unfold run. rewrite fold_left_app. cbn.
  apply remove_moves_only_own, inv_run.
Qed.
Print Assumptions c17_remove_moves_only_own.

(* ... and the removed member keeps no key *)
Theorem c17_removed_owns_nothing : forall hash ops x key,
  get_node_by hash key (run hash (ops ++ [Remove x])) <> Some x.
Proof.
  intros hash ops x key. unfold run. rewrite fold_left_app. cbn.
  apply removed_owns_nothing, inv_run.
Qed.
Print Assumptions c17_removed_owns_nothing.

(* The cached point list.  `sortedHash` is a field of the state, rebuilt by updateSortedHash
   (collect the keys of the map, sort) at the end of every AddNode that adds and of every
   RemoveNode; lookups read only the cache.  After every history the cache is exactly the
   key set of the map in strictly increasing order ... *)
Theorem c17_cache_is_sorted_keys : forall hash ops,
  sorted_hash (run hash ops) = map fst (circle (run hash ops)) /\
  StronglySorted Z.lt (sorted_hash (run hash ops)) /\
  (forall p, In p (sorted_hash (run hash ops)) <-> circle_get p (circle (run hash ops)) <> None).
Proof.
  intros hash ops. pose proof (inv_run hash ops) as Hi.
  split; [apply Hi|]. split; [apply sorted_hash_sorted with (hash := hash), Hi|].
  intros p. destruct Hi as [_ [Hc _]]. rewrite Hc. apply circle_get_keys.
Qed.
Print Assumptions c17_cache_is_sorted_keys.

(* ... whatever order `range c.circle` yields the keys in (Go's map iteration order is
   unspecified): sorting any enumeration of the key set gives the same cache *)
Theorem c17_cache_any_iteration_order : forall hash ops keys,
  Permutation keys (map fst (circle (run hash ops))) ->
  sort_u32 keys = sorted_hash (run hash ops).
Proof.
  intros hash ops keys Hp. destruct (inv_run hash ops) as [Hs [Hc _]]. rewrite Hc.
  apply sort_of_perm; [apply sorted_keys, Hs | exact Hp].
Qed.
Print Assumptions c17_cache_any_iteration_order.

(* ... and a lookup through the cache (the code's binary search over sortedHash, then
   circle[sortedHash[i]]) equals the lookup defined on the map alone: the owner of the first
   point strictly greater than the key's hash, or of the smallest point if there is none *)
Theorem c17_search_is_successor : forall hash ops key,
  get_node_by hash key (run hash ops) =
  option_map snd
    (match find (fun e => hash key <? fst e) (circle (run hash ops)) with
     | Some e => Some e
     | None => hd_error (circle (run hash ops))
     end).
Proof.
  intros hash ops key. destruct (inv_run hash ops) as [Hs [Hc _]].
  unfold get_node_by. rewrite get_node_at_spec; [reflexivity | exact Hs | exact Hc].
Qed.
Print Assumptions c17_search_is_successor.

(* Several calls between two lookups (the observable of every sentence above is GetNodeBy
   "before and after"): over any run of AddNode/RemoveNode calls a key keeps its member, or
   goes to a member added during the run, or its member was removed during the run.  For a
   single call this is c17_add_moves_only_to_new / c17_remove_moves_only_own. *)
Theorem c17_composite_moves : forall hash ops more key old new,
  get_node_by hash key (run hash ops) = Some old ->
  get_node_by hash key (run hash (ops ++ more)) = Some new ->
  new = old \/ In (Add new) more \/ In (Remove old) more.
Proof.
  intros hash ops more key old new H1. unfold run. rewrite fold_left_app.
  apply composite_moves; [apply inv_run | exact H1].
Qed.
Print Assumptions c17_composite_moves.

(* Side remark on "non-empty ring": if the replica points of the names that are ever added
   do not collide, every member owns all of its ReplicaCount points, so a ring with at least
   one member has points (with collisions a late-comer may own fewer points — in the extreme,
   under an adversarial hash, none; the four sentences above hold regardless). *)
Theorem c17_no_collision_owns_all_points : forall hash ops,
  (forall a b, In (Add a) ops -> In (Add b) ops -> a <> b ->
     forall p, In p (points hash a) -> ~ In p (points hash b)) ->
  (forall n p, In n (nodes (run hash ops)) -> In p (points hash n) ->
     circle_get p (circle (run hash ops)) = Some n) /\
  (nodes (run hash ops) <> [] -> circle (run hash ops) <> []).
Proof. intros hash ops H. split; [apply owns_all_points, H | apply members_have_points, H]. Qed.
Print Assumptions c17_no_collision_owns_all_points.

(* ... so that, without collisions, "non-empty ring" can be read as "at least one member":
   a lookup then returns a current member *)
Theorem c17_member_no_collision : forall hash ops key,
  (forall a b, In (Add a) ops -> In (Add b) ops -> a <> b ->
     forall p, In p (points hash a) -> ~ In p (points hash b)) ->
  nodes (run hash ops) <> [] ->
  exists n, get_node_by hash key (run hash ops) = Some n /\ In n (nodes (run hash ops)).
Proof.
  intros hash ops key Hd Hn. apply c17_member. apply members_have_points; assumption.
Qed.
Print Assumptions c17_member_no_collision.

(* Non-vacuity.  With the code's own FNV-1a: the replica strings "n151-18" and "n2186-10"
   collide, so the rings below contain a point claimed by two members — the theorems above
   cover them; the ring is not empty, and a concrete lookup computes. *)
Definition n151 : name := [110; 49; 53; 49].
Definition n2186 : name := [110; 50; 49; 56; 54].
Definition zed : name := [122].

Example c17_example_collision :
  fnv1a (replica n151 18) = 1052282076 /\ fnv1a (replica n2186 10) = 1052282076 /\
  In 1052282076 (points fnv1a n151) /\ In 1052282076 (points fnv1a n2186).
Proof. vm_compute. repeat split; auto 30. Qed.

Example c17_example_ring :
  let s := run fnv1a [Add n151; Add zed; Add n2186] in
  circle s <> [] /\ length (circle s) = 56%nat /\ length (sorted_hash s) = 56%nat /\
  circle_get 1052282076 (circle s) = Some n151 /\
  (* re-adding a member leaves membership, and the ring, unchanged *)
  step fnv1a s (Add n2186) = s /\
  get_node_by fnv1a [107; 101; 121; 49] s = Some n2186 /\
  get_node_by fnv1a [107; 101; 121; 49] (step fnv1a s (Remove n151)) = Some n2186.
Proof. vm_compute. repeat split; try reflexivity. discriminate. Qed.

(* c17_composite_moves and c17_member_no_collision are not vacuous: two members whose points
   do not collide (checked by computation), a run of three calls between two lookups *)
Example c17_example_composite :
  let a := [97] in let b := [98] in let c := [99] in
  (forall p, In p (points fnv1a a) -> ~ In p (points fnv1a b)) /\
  get_node_by fnv1a [107] (run fnv1a [Add a; Add b]) = Some b /\
  get_node_by fnv1a [107] (run fnv1a ([Add a; Add b] ++ [Add c; Remove a; Add a])) = Some c /\
  nodes (run fnv1a [Add a; Add b; Remove a]) <> [].
Proof.
  cbv zeta. split.
  - intros p H1 H2. vm_compute in H1, H2.
    repeat (destruct H1 as [H1|H1]; [subst p; repeat (destruct H2 as [H2|H2]; [discriminate|]); exact H2|]). exact H1.
  - vm_compute. repeat split; try reflexivity. discriminate.
Qed.

(* The tie to the source text.  tools/gofunc regenerates Generated/Consistent.v from
   consistent.go on every run (Go loops as fuelled iteration, slice reads with bounds checks,
   int arithmetic wrapped to 64 bits: Lib/GoSem.v); C17/Source.v proves that the translated
   search and hashKey methods of Consistent compute exactly the model's `search` and `fnv1a` whenever
   the slice is shorter than 2^62 elements and the fuel exceeds its length. *)
From FV Require Import Lib.GoSem Generated.Consistent C17.Source.

Theorem c17_src_search : forall sh h, Z.of_nat (length sh) < 2 ^ 62 ->
  forall fuel, (length sh < fuel)%nat ->
  go_Consistent_search fuel sh h = Ok (search sh h).
Proof. exact src_search. Qed.
Print Assumptions c17_src_search.

Theorem c17_src_hashKey : forall key, is_bytes key -> Z.of_nat (length key) < 2 ^ 62 ->
  forall fuel, (length key < fuel)%nat ->
  go_Consistent_hashKey fuel key = Ok (fnv1a key).
Proof. exact src_hashKey. Qed.
Print Assumptions c17_src_hashKey.


(* the order sort.Sort(Uint32Slice) uses in updateSortedHash is `<` on the elements — the
   order in which the model's cache (sort_u32) is strictly increasing *)
From FV Require Import Generated.U32Slice.
Theorem c17_src_sort_order : forall (x : list Z) i j,
  0 <= i < Z.of_nat (length x) -> 0 <= j < Z.of_nat (length x) ->
  go_Uint32Slice_Len x = Z.of_nat (length x) /\
  go_Uint32Slice_Less x i j = Ok (nth (Z.to_nat i) x 0 <? nth (Z.to_nat j) x 0).
Proof. exact src_u32slice. Qed.
Print Assumptions c17_src_sort_order.
