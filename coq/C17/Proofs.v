(* C17 — lemmas. *)
From Coq Require Import ZArith List Bool Lia.
From FV Require Import C17.Model.
Import ListNotations.
Open Scope Z_scope.

Section Proofs.
  Variable hash : list Z -> Z.

  Lemma readd_noop n s : mem_name n (nodes s) = true -> add_node hash n s = s.
  Proof. intros H. unfold add_node. rewrite H. reflexivity. Qed.
End Proofs.
