(* C17 — lemmas.  Everything holds for an arbitrary hash function (Section variable). *)
From Coq Require Import ZArith List Bool Lia Sorting.Sorted Sorting.Permutation.
From FV Require Import Generated.Consts C17.Model.
Import ListNotations.
Open Scope Z_scope.

(* ---------- names ---------- *)

Lemma name_eqb_eq a b : name_eqb a b = true <-> a = b.
Proof.
  revert b. induction a as [|x a IH]; intros [|y b]; cbn; split; intros H;
    try reflexivity; try discriminate.
  - apply andb_true_iff in H as [H1 H2]. apply Z.eqb_eq in H1. apply IH in H2. congruence.
  - inversion H; subst. apply andb_true_iff. split; [apply Z.eqb_refl | apply IH; reflexivity].
Qed.

Lemma name_eqb_refl a : name_eqb a a = true.
Proof. apply name_eqb_eq. reflexivity. Qed.

Lemma name_eqb_neq a b : name_eqb a b = false <-> a <> b.
Proof.
  split.
  - intros H E. apply name_eqb_eq in E. congruence.
  - intros H. destruct (name_eqb a b) eqn:E; [|reflexivity]. apply name_eqb_eq in E. contradiction.
Qed.

Lemma mem_name_In n l : mem_name n l = true <-> In n l.
Proof.
  induction l as [|m l IH]; cbn.
  - split; [discriminate | tauto].
  - rewrite orb_true_iff, IH, name_eqb_eq. tauto.
Qed.

(* ---------- "the first point > h, else the smallest" ---------- *)

Definition gt (h : Z) (e : Z * name) : bool := h <? fst e.

Definition succ_entry (h : Z) (c : list (Z * name)) : option (Z * name) :=
  match find (gt h) c with
  | Some e => Some e
  | None => hd_error c
  end.

Definition owner (h : Z) (c : list (Z * name)) : option name := option_map snd (succ_entry h c).

Definition sorted_c (c : list (Z * name)) : Prop :=
  StronglySorted (fun a b => fst a < fst b) c.

Lemma sorted_keys c : sorted_c c -> StronglySorted Z.lt (map fst c).
Proof.
  induction 1 as [|e c Hs IH Hall]; cbn; constructor; [assumption|].
  rewrite Forall_forall in *. intros k Hk. apply in_map_iff in Hk as [e' [<- He']]. auto.
Qed.

(* sorted lists, by index *)
Lemma sorted_nth_le l : StronglySorted Z.lt l ->
  forall i j, (i <= j < length l)%nat -> nth i l 0 <= nth j l 0.
Proof.
  induction 1 as [|x l Hs IH Hall]; intros i j Hij; cbn in Hij; [lia|].
  destruct j as [|j].
  - assert (i = O) by lia. subst. lia.
  - destruct i as [|i].
    + cbn. rewrite Forall_forall in Hall.
      assert (In (nth j l 0) l) by (apply nth_In; lia). specialize (Hall _ H). lia.
    + cbn. apply IH. lia.
Qed.

Lemma sorted_nth_leZ l : StronglySorted Z.lt l ->
  forall i j, 0 <= i <= j -> j < Z.of_nat (length l) ->
  nth (Z.to_nat i) l 0 <= nth (Z.to_nat j) l 0.
Proof. intros Hs i j Hij Hj. apply sorted_nth_le; [assumption | lia]. Qed.

Lemma bsearch_spec sh h : StronglySorted Z.lt sh ->
  forall fuel lo hi,
  0 <= lo <= hi -> hi <= Z.of_nat (length sh) -> hi - lo <= Z.of_nat fuel ->
  (forall i, 0 <= i < lo -> nth (Z.to_nat i) sh 0 <= h) ->
  (forall i, hi <= i < Z.of_nat (length sh) -> h < nth (Z.to_nat i) sh 0) ->
  let r := bsearch fuel sh h lo hi in
  lo <= r <= hi /\
  (forall i, 0 <= i < r -> nth (Z.to_nat i) sh 0 <= h) /\
  (forall i, r <= i < Z.of_nat (length sh) -> h < nth (Z.to_nat i) sh 0).
Proof.
  intros Hs. induction fuel as [|f IH]; intros lo hi Hlo Hhi Hfuel Hlow Hhigh; cbn [bsearch].
  - assert (lo = hi) by lia. subst. repeat split; try lia; assumption.
  - destruct (lo <? hi) eqn:Hlt.
    + apply Z.ltb_lt in Hlt.
      set (mid := lo + (hi - lo) / 2).
      assert (Hmid : lo <= mid < hi).
      { unfold mid. assert (0 <= (hi - lo) / 2 < hi - lo) by (split; [apply Z.div_pos; lia | apply Z.div_lt_upper_bound; lia]). lia. }
      destruct (nth (Z.to_nat mid) sh 0 <=? h) eqn:Hc.
      * apply Z.leb_le in Hc.
        specialize (IH (mid + 1) hi). cbv zeta in IH.
        destruct IH as [H1 [H2 H3]]; try lia.
        { intros i Hi. assert (nth (Z.to_nat i) sh 0 <= nth (Z.to_nat mid) sh 0)
            by (apply sorted_nth_leZ; [assumption | lia | lia]). lia. }
        { assumption. }
        repeat split; try lia; assumption.
      * apply Z.leb_gt in Hc.
        specialize (IH lo mid). cbv zeta in IH.
        destruct IH as [H1 [H2 H3]]; try lia.
        { assumption. }
        { intros i Hi. assert (nth (Z.to_nat mid) sh 0 <= nth (Z.to_nat i) sh 0)
            by (apply sorted_nth_leZ; [assumption | lia | lia]). lia. }
        repeat split; try lia; assumption.
    + apply Z.ltb_ge in Hlt. assert (lo = hi) by lia. subst. repeat split; try lia; assumption.
Qed.

Lemma find_by_index {A} (f : A -> bool) (d : A) : forall l r,
  (r <= length l)%nat ->
  (forall i, (i < r)%nat -> f (nth i l d) = false) ->
  ((r < length l)%nat -> f (nth r l d) = true) ->
  find f l = nth_error l r.
Proof.
  induction l as [|x l IH]; intros r Hr Hlow Hat.
  - cbn in Hr. assert (r = O) by lia. subst. reflexivity.
  - destruct r as [|r].
    + cbn. cbn in Hat. rewrite Hat by (cbn; lia). reflexivity.
    + cbn. pose proof (Hlow O ltac:(lia)) as H0. cbn in H0. rewrite H0. apply IH.
      * cbn in Hr. lia.
      * intros i Hi. apply (Hlow (S i)). lia.
      * intros Hlt. apply Hat. cbn. lia.
Qed.

(* the binary search returns the index of the first point > h, or 0 if there is none *)
Lemma search_spec sh h : StronglySorted Z.lt sh -> sh <> [] ->
  nth (Z.to_nat (search sh h)) sh 0 =
  match find (fun x => h <? x) sh with Some x => x | None => hd 0 sh end.
Proof.
  intros Hs Hne. unfold search.
  set (n := Z.of_nat (length sh)).
  pose proof (bsearch_spec sh h Hs (S (length sh)) 0 n) as B. cbv zeta in B.
  destruct B as [H1 [H2 H3]]; try (subst n; lia).
  set (r := bsearch (S (length sh)) sh h 0 n) in *.
  assert (Hfind : find (fun x => h <? x) sh = nth_error sh (Z.to_nat r)).
  { apply (find_by_index _ 0).
    - subst n. lia.
    - intros i Hi. apply Z.ltb_ge. replace i with (Z.to_nat (Z.of_nat i)) by lia. apply H2. lia.
    - intros Hlt. apply Z.ltb_lt. replace (Z.to_nat r) with (Z.to_nat (Z.of_nat (Z.to_nat r))) by lia.
      apply H3. subst n. lia. }
  rewrite Hfind.
  destruct (r >=? n) eqn:Hge.
  - assert (r = n) by lia.
    assert (nth_error sh (Z.to_nat r) = None) by (apply nth_error_None; subst n; lia).
    rewrite H0. destruct sh; [contradiction | reflexivity].
  - assert (Z.to_nat r < length sh)%nat by (subst n; lia).
    rewrite (nth_error_nth' sh 0 H). reflexivity.
Qed.

Lemma find_map_fst (f : Z -> bool) (c : list (Z * name)) :
  find f (map fst c) = option_map fst (find (fun e => f (fst e)) c).
Proof.
  induction c as [|e c IH]; cbn; [reflexivity|].
  destruct (f (fst e)); [reflexivity | assumption].
Qed.

Lemma circle_get_in c : sorted_c c -> forall p n, In (p, n) c -> circle_get p c = Some n.
Proof.
  induction 1 as [|[q m] c Hs IH Hall]; intros p n Hin; cbn in *; [contradiction|].
  destruct Hin as [E|Hin].
  - inversion E; subst. rewrite Z.eqb_refl. reflexivity.
  - rewrite Forall_forall in Hall. specialize (Hall _ Hin). cbn in Hall.
    destruct (p =? q) eqn:E; [apply Z.eqb_eq in E; lia|]. apply IH; assumption.
Qed.

Lemma succ_entry_in h c e : succ_entry h c = Some e -> In e c.
Proof.
  unfold succ_entry. destruct (find (gt h) c) eqn:F.
  - intros E; inversion E; subst. apply find_some in F. tauto.
  - destruct c; cbn; [discriminate|]. intros E; inversion E. auto.
Qed.

Lemma succ_entry_nonempty h c : c <> [] -> exists e, succ_entry h c = Some e.
Proof.
  intros Hne. unfold succ_entry. destruct (find (gt h) c); [eauto|].
  destruct c; [contradiction|]. cbn. eauto.
Qed.

(* ---------- sort.Sort on the collected keys ---------- *)

Lemma insert_sorted_perm x l : Permutation (x :: l) (insert_sorted x l).
Proof.
  induction l as [|y l IH]; cbn; [apply Permutation_refl|].
  destruct (x <=? y); [apply Permutation_refl|].
  eapply Permutation_trans; [apply perm_swap|]. apply perm_skip, IH.
Qed.

Lemma sort_perm l : Permutation l (sort_u32 l).
Proof.
  induction l as [|x l IH]; cbn; [constructor|].
  eapply Permutation_trans; [apply perm_skip, IH | apply insert_sorted_perm].
Qed.

Lemma insert_sorted_sorted x l : StronglySorted Z.le l -> StronglySorted Z.le (insert_sorted x l).
Proof.
  induction 1 as [|y l Hs IH Hall]; cbn; [repeat constructor|].
  destruct (x <=? y) eqn:E.
  - apply Z.leb_le in E. constructor; [constructor; assumption|].
    constructor; [assumption|]. rewrite Forall_forall in *. intros z Hz. specialize (Hall _ Hz). lia.
  - apply Z.leb_gt in E. constructor; [assumption|].
    rewrite Forall_forall in *. intros z Hz.
    apply (Permutation_in _ (Permutation_sym (insert_sorted_perm x l))) in Hz.
    destruct Hz as [<-|Hz]; [lia | auto].
Qed.

Lemma sort_sorted l : StronglySorted Z.le (sort_u32 l).
Proof. induction l as [|x l IH]; cbn; [constructor | apply insert_sorted_sorted, IH]. Qed.

Lemma sorted_perm_eq l1 : forall l2, StronglySorted Z.le l1 -> StronglySorted Z.le l2 ->
  Permutation l1 l2 -> l1 = l2.
Proof.
  induction l1 as [|x l1 IH]; intros l2 H1 H2 Hp.
  - apply Permutation_nil in Hp. auto.
  - destruct l2 as [|y l2]; [apply Permutation_sym, Permutation_nil in Hp; discriminate|].
    inversion H1 as [|? ? Hs1 Ha1]; inversion H2 as [|? ? Hs2 Ha2]; subst.
    rewrite Forall_forall in Ha1, Ha2.
    assert (x = y).
    { assert (In x (y :: l2)) by (apply (Permutation_in _ Hp); left; reflexivity).
      assert (In y (x :: l1)) by (apply (Permutation_in _ (Permutation_sym Hp)); left; reflexivity).
      destruct H as [->|Hx]; [reflexivity|]. destruct H0 as [->|Hy]; [reflexivity|].
      specialize (Ha1 _ Hy). specialize (Ha2 _ Hx). lia. }
    subst y. f_equal. apply IH; [assumption | assumption | apply (Permutation_cons_inv Hp)].
Qed.

Lemma lt_sorted_le l : StronglySorted Z.lt l -> StronglySorted Z.le l.
Proof.
  induction 1 as [|x l Hs IH Hall]; constructor; [assumption|].
  rewrite Forall_forall in *. intros z Hz. specialize (Hall _ Hz). lia.
Qed.

(* whatever order the keys are collected in, sorting yields the one sorted key list *)
Lemma sort_of_perm l k : StronglySorted Z.lt k -> Permutation l k -> sort_u32 l = k.
Proof.
  intros Hk Hp. apply sorted_perm_eq; [apply sort_sorted | apply lt_sorted_le, Hk|].
  eapply Permutation_trans; [apply Permutation_sym, sort_perm | exact Hp].
Qed.

Section Proofs.
  Variable hash : list Z -> Z.

  (* GetNodeBy = owner of the successor point *)
  Lemma get_node_at_spec h s : sorted_c (circle s) -> sorted_hash s = map fst (circle s) ->
    get_node_at h s = owner h (circle s).
  Proof.
    intros Hs Hc. unfold get_node_at, owner. rewrite Hc.
    remember (map fst (circle s)) as sh eqn:Esh.
    destruct sh as [|k ks].
    { destruct (circle s); [reflexivity | discriminate]. }
    assert (Hne : circle s <> []) by (intros E; rewrite E in Esh; discriminate).
    assert (Hne' : map fst (circle s) <> []) by (rewrite <- Esh; discriminate).
    rewrite Esh.
    rewrite (search_spec _ h (sorted_keys _ Hs) Hne').
    destruct (succ_entry_nonempty h _ Hne) as [e He]. rewrite He. cbn.
    assert (Hkey : match find (fun x => h <? x) (map fst (circle s)) with Some x => x | None => hd 0 (map fst (circle s)) end = fst e).
    { rewrite find_map_fst. unfold succ_entry, gt in He.
      destruct (find (fun e => h <? fst e) (circle s)).
      - inversion He; subst. reflexivity.
      - destruct (circle s); cbn in *; [discriminate|]. inversion He; subst. reflexivity. }
    rewrite Hkey.
    apply succ_entry_in in He. destruct e as [p n]. cbn.
    rewrite (circle_get_in _ Hs p n He). reflexivity.
  Qed.

  (* ---------- order is preserved ---------- *)

  Lemma circle_add_fst p n c e : In e (circle_add p n c) -> e = (p, n) \/ In e c.
  Proof.
    induction c as [|[q m] c IH]; cbn.
    - intros [E|[]]; auto.
    - destruct (p <? q); [cbn; intuition (subst; auto)|]. destruct (p =? q); [cbn; intuition (subst; auto)|].
      cbn. intros [E|H]; [auto|]. apply IH in H. tauto.
  Qed.

  Lemma circle_add_sorted p n c : sorted_c c -> sorted_c (circle_add p n c).
  Proof.
    induction 1 as [|[q m] c Hs IH Hall]; cbn.
    - constructor; constructor.
    - destruct (p <? q) eqn:E1.
      + apply Z.ltb_lt in E1. constructor; [constructor; assumption|].
        constructor; [cbn; assumption|]. rewrite Forall_forall in *. intros e He.
        specialize (Hall _ He). cbn in *. lia.
      + destruct (p =? q) eqn:E2; [constructor; assumption|].
        apply Z.ltb_ge in E1. apply Z.eqb_neq in E2.
        constructor; [assumption|]. rewrite Forall_forall in *. intros e He.
        apply circle_add_fst in He as [->|He]; [cbn; lia | auto].
  Qed.

  Lemma filter_sorted (f : Z * name -> bool) c : sorted_c c -> sorted_c (filter f c).
  Proof.
    induction 1 as [|e c Hs IH Hall]; cbn; [constructor|].
    destruct (f e); [|assumption]. constructor; [assumption|].
    rewrite Forall_forall in *. intros e' He'. apply filter_In in He'. apply Hall. tauto.
  Qed.

  Lemma fold_add_sorted n pts c : sorted_c c ->
    sorted_c (fold_left (fun c p => circle_add p n c) pts c).
  Proof. revert c. induction pts as [|p pts IH]; cbn; intros c Hs; [assumption|]. apply IH, circle_add_sorted, Hs. Qed.

  Lemma fold_del_sorted n pts c : sorted_c c ->
    sorted_c (fold_left (fun c p => circle_del p n c) pts c).
  Proof. revert c. induction pts as [|p pts IH]; cbn; intros c Hs; [assumption|]. apply IH, filter_sorted, Hs. Qed.

  (* ---------- adding points moves a key only to the new owner ---------- *)

  Lemma circle_add_split p n c :
    circle_add p n c = c \/ exists l1 l2, c = l1 ++ l2 /\ circle_add p n c = l1 ++ (p, n) :: l2.
  Proof.
    induction c as [|[q m] c IH]; cbn.
    - right. exists [], []. auto.
    - destruct (p <? q); [right; exists [], ((q, m) :: c); auto|].
      destruct (p =? q); [left; reflexivity|].
      destruct IH as [->|[l1 [l2 [E1 E2]]]]; [left; reflexivity|].
      right. exists ((q, m) :: l1), l2. cbn. rewrite E2, <- E1. auto.
  Qed.

  Lemma succ_entry_insert h l1 e l2 :
    succ_entry h (l1 ++ e :: l2) = succ_entry h (l1 ++ l2) \/ succ_entry h (l1 ++ e :: l2) = Some e.
  Proof.
    unfold succ_entry. induction l1 as [|x l1 IH]; cbn.
    - destruct (gt h e); [right; reflexivity|].
      destruct (find (gt h) l2) eqn:F; [left; reflexivity|]. right. reflexivity.
    - destruct (gt h x); [left; reflexivity|].
      destruct (find (gt h) (l1 ++ e :: l2)) eqn:F1; destruct (find (gt h) (l1 ++ l2)) eqn:F2.
      + destruct IH as [IH|IH]; [left|right]; assumption.
      + destruct IH as [IH|IH]; [|right; assumption].
        (* found after insertion, nothing before: the found one is e *)
        clear IH. right. f_equal.
        revert F1 F2. clear. induction l1 as [|y l1 IH]; cbn.
        * destruct (gt h e); [congruence|]. intros F1 F2. congruence.
        * destruct (gt h y); [congruence|]. assumption.
      + exfalso. revert F1 F2. clear. induction l1 as [|y l1 IH]; cbn.
        * destruct (gt h e); [discriminate|]. congruence.
        * destruct (gt h y); [discriminate|]. assumption.
      + left. reflexivity.
  Qed.

  Lemma owner_circle_add h p n c :
    owner h (circle_add p n c) = owner h c \/ owner h (circle_add p n c) = Some n.
  Proof.
    unfold owner. destruct (circle_add_split p n c) as [->|[l1 [l2 [E1 E2]]]]; [left; reflexivity|].
    rewrite E2, E1. destruct (succ_entry_insert h l1 (p, n) l2) as [->| ->]; [left | right]; reflexivity.
  Qed.

  Lemma owner_fold_add h n pts c :
    owner h (fold_left (fun c p => circle_add p n c) pts c) = owner h c \/
    owner h (fold_left (fun c p => circle_add p n c) pts c) = Some n.
  Proof.
    revert c. induction pts as [|p pts IH]; cbn; intros c; [left; reflexivity|].
    destruct (IH (circle_add p n c)) as [E|E]; [|right; assumption].
    rewrite E. apply owner_circle_add.
  Qed.

  (* ---------- deleting points of x leaves the keys of the others alone ---------- *)

  Lemma succ_entry_filter h (f : Z * name -> bool) c e :
    succ_entry h c = Some e -> f e = true -> succ_entry h (filter f c) = Some e.
  Proof.
    unfold succ_entry. destruct (find (gt h) c) eqn:F.
    - intros E Hf. inversion E; subst. clear E.
      assert (find (gt h) (filter f c) = Some e).
      { revert F. induction c as [|x c IH]; cbn; [discriminate|].
        destruct (gt h x) eqn:G.
        - intros E; inversion E; subst. rewrite Hf. cbn. rewrite G. reflexivity.
        - intros F. destruct (f x); cbn; [rewrite G|]; apply IH; assumption. }
      rewrite H. reflexivity.
    - intros E Hf.
      assert (find (gt h) (filter f c) = None).
      { revert F. clear. induction c as [|x c IH]; cbn; [reflexivity|].
        destruct (gt h x) eqn:G; [discriminate|]. intros F.
        destruct (f x); cbn; [rewrite G|]; apply IH; assumption. }
      rewrite H. destruct c as [|x c]; cbn in *; [discriminate|]. inversion E; subst.
      rewrite Hf. reflexivity.
  Qed.

  Lemma owner_fold_del h x pts c n :
    owner h c = Some n -> n <> x ->
    owner h (fold_left (fun c p => circle_del p x c) pts c) = Some n.
  Proof.
    revert c. induction pts as [|p pts IH]; cbn; intros c Ho Hne; [assumption|].
    apply IH; [|assumption]. unfold owner in *.
    destruct (succ_entry h c) as [e|] eqn:E; [|discriminate]. cbn in Ho. inversion Ho; subst.
    unfold circle_del. rewrite (succ_entry_filter h _ c e E); [reflexivity|].
    unfold keeps. apply name_eqb_neq in Hne. rewrite Hne, andb_false_r. reflexivity.
  Qed.

  (* ---------- the invariant of every reachable ring ---------- *)

  Lemma update_sorted_hash_keys c : sorted_c c -> update_sorted_hash c = map fst c.
  Proof. intros Hs. apply sort_of_perm; [apply sorted_keys, Hs | apply Permutation_refl]. Qed.

  Definition inv (s : ring) : Prop :=
    sorted_c (circle s) /\
    sorted_hash s = map fst (circle s) /\
    forall p m, In (p, m) (circle s) -> In m (nodes s) /\ In p (points hash m).

  Lemma inv_empty : inv empty.
  Proof. split; [constructor|]. split; [reflexivity | intros p m []]. Qed.

  Lemma fold_add_in n pts c e :
    In e (fold_left (fun c p => circle_add p n c) pts c) -> In e c \/ (snd e = n /\ In (fst e) pts).
  Proof.
    revert c. induction pts as [|p pts IH]; cbn; intros c H; [auto|].
    apply IH in H as [H|[H1 H2]]; [|auto].
    apply circle_add_fst in H as [->|H]; cbn; auto.
  Qed.

  Lemma fold_del_in x pts c e :
    In e (fold_left (fun c p => circle_del p x c) pts c) ->
    In e c /\ ~ (snd e = x /\ In (fst e) pts).
  Proof.
    revert c. induction pts as [|p pts IH]; cbn; intros c H; [tauto|].
    apply IH in H as [H Hn]. unfold circle_del in H. apply filter_In in H as [H Hk].
    split; [assumption|]. intros [E [E'|E']]; [|tauto].
    unfold keeps in Hk. subst. rewrite Z.eqb_refl, name_eqb_refl in Hk. discriminate.
  Qed.

  Lemma inv_add n s : inv s -> inv (add_node hash n s).
  Proof.
    intros [Hs [Hc Ho]]. unfold add_node. destruct (mem_name n (nodes s)) eqn:M; [exact (conj Hs (conj Hc Ho))|].
    cbv zeta. split; [|split]; cbn [circle nodes sorted_hash].
    - apply fold_add_sorted, Hs.
    - apply update_sorted_hash_keys, fold_add_sorted, Hs.
    - intros p m Hin. apply fold_add_in in Hin as [Hin|[E Hin]]; cbn in *.
      + destruct (Ho _ _ Hin). auto.
      + subst. auto.
  Qed.

  Lemma inv_remove x s : inv s -> inv (remove_node hash x s).
  Proof.
    intros [Hs [Hc Ho]]. unfold remove_node. cbv zeta. split; [|split]; cbn [circle nodes sorted_hash].
    - apply fold_del_sorted, Hs.
    - apply update_sorted_hash_keys, fold_del_sorted, Hs.
    - intros p m Hin. apply fold_del_in in Hin as [Hin Hn]. cbn in Hn.
      destruct (Ho _ _ Hin) as [H1 H2]. split; [|assumption].
      apply filter_In. split; [assumption|].
      destruct (name_eqb m x) eqn:E; [|reflexivity].
      apply name_eqb_eq in E. subst. tauto.
  Qed.

  Lemma inv_step s o : inv s -> inv (step hash s o).
  Proof. destruct o; cbn; [apply inv_add | apply inv_remove]. Qed.

  Lemma inv_run_from ops s : inv s -> inv (fold_left (step hash) ops s).
  Proof. revert s. induction ops as [|o ops IH]; cbn; intros s H; [assumption|]. apply IH, inv_step, H. Qed.

  Lemma inv_run ops : inv (run hash ops).
  Proof. apply inv_run_from, inv_empty. Qed.

  (* ---------- the four sentences ---------- *)

  (* a lookup on a ring with at least one point returns a current member *)
  Lemma member s key : inv s -> circle s <> [] ->
    exists n, get_node_by hash key s = Some n /\ In n (nodes s).
  Proof.
    intros [Hs [Hc Ho]] Hne. unfold get_node_by. rewrite get_node_at_spec by assumption.
    destruct (succ_entry_nonempty (hash key) _ Hne) as [[p n] He].
    exists n. unfold owner. rewrite He. split; [reflexivity|].
    apply succ_entry_in in He. apply (Ho _ _ He).
  Qed.

  (* an operation that leaves the set of members as it is leaves the whole ring as it is *)
  Lemma filter_id {A} (f : A -> bool) l : (forall x, In x l -> f x = true) -> filter f l = l.
  Proof.
    induction l as [|x l IH]; cbn; intros H; [reflexivity|].
    rewrite (H x) by auto. f_equal. apply IH. auto.
  Qed.

  Lemma fold_del_id x pts c : (forall e, In e c -> snd e <> x) ->
    fold_left (fun c p => circle_del p x c) pts c = c.
  Proof.
    intros H. induction pts as [|p pts IH]; cbn; [reflexivity|].
    unfold circle_del at 2. rewrite filter_id; [assumption|].
    intros e He. unfold keeps. apply H in He. apply name_eqb_neq in He. rewrite He, andb_false_r. reflexivity.
  Qed.

  Lemma remove_nonmember x s : inv s -> ~ In x (nodes s) -> remove_node hash x s = s.
  Proof.
    intros [Hs [Hc Ho]] Hx. unfold remove_node. cbv zeta. destruct s as [c ns sh]; cbn [circle nodes sorted_hash] in *.
    assert (Hfold : fold_left (fun c0 p => circle_del p x c0) (points hash x) c = c).
    { apply fold_del_id. intros [p m] He E. cbn in E. subst. apply Ho in He. tauto. }
    rewrite Hfold. f_equal.
    - apply filter_id. intros m Hm. destruct (name_eqb m x) eqn:E; [|reflexivity].
      apply name_eqb_eq in E. subst. contradiction.
    - rewrite Hc. apply update_sorted_hash_keys, Hs.
  Qed.

  Lemma stable s o : inv s ->
    (forall m, In m (nodes (step hash s o)) <-> In m (nodes s)) -> step hash s o = s.
  Proof.
    intros Hi Hsame. destruct o as [n|n]; cbn in *.
    - unfold add_node in *. destruct (mem_name n (nodes s)) eqn:M; [reflexivity|].
      cbn in Hsame. assert (In n (nodes s)) by (apply Hsame; auto).
      apply mem_name_In in H. congruence.
    - apply remove_nonmember; [assumption|]. intros Hin.
      apply Hsame in Hin. cbn in Hin. apply filter_In in Hin as [_ Hin].
      rewrite name_eqb_refl in Hin. discriminate.
  Qed.

  Lemma add_moves_only_to_new s x key n' : inv s ->
    get_node_by hash key (add_node hash x s) = Some n' ->
    get_node_by hash key s <> Some n' -> n' = x.
  Proof.
    intros Hi. pose proof (inv_add x s Hi) as Hi'. destruct Hi as [Hs [Hc _]]. destruct Hi' as [Hs' [Hc' _]].
    unfold get_node_by. rewrite !get_node_at_spec by assumption.
    unfold add_node. destruct (mem_name x (nodes s)); [congruence|]. cbv zeta. cbn [circle].
    destruct (owner_fold_add (hash key) x (points hash x) (circle s)) as [E|E]; rewrite E; congruence.
  Qed.

  Lemma remove_moves_only_own s x key n : inv s ->
    get_node_by hash key s = Some n -> n <> x ->
    get_node_by hash key (remove_node hash x s) = Some n.
  Proof.
    intros Hi. pose proof (inv_remove x s Hi) as Hi'. destruct Hi as [Hs [Hc _]]. destruct Hi' as [Hs' [Hc' _]].
    unfold get_node_by. rewrite !get_node_at_spec by assumption. unfold remove_node. cbv zeta. cbn [circle].
    apply owner_fold_del.
  Qed.

  (* after a removal the leaving member owns nothing any more *)
  Lemma removed_owns_nothing s x key : inv s -> get_node_by hash key (remove_node hash x s) <> Some x.
  Proof.
    intros Hi. pose proof (inv_remove x s Hi) as Hi'.
    destruct (circle (remove_node hash x s)) eqn:Ec.
    - destruct Hi' as [_ [Hc' _]]. unfold get_node_by, get_node_at. rewrite Hc', Ec. discriminate.
    - destruct (member _ key Hi') as [n [E Hin]]; [rewrite Ec; discriminate|].
      rewrite E. intros E'. inversion E'; subst. cbn in Hin. apply filter_In in Hin as [_ Hin].
      rewrite name_eqb_refl in Hin. discriminate.
  Qed.

  (* the sorted point list the binary search runs on *)
  Lemma sorted_hash_sorted s : inv s -> StronglySorted Z.lt (sorted_hash s).
  Proof. intros [Hs [Hc _]]. rewrite Hc. apply sorted_keys, Hs. Qed.
End Proofs.

(* ---------- the member set follows the history ---------- *)
Section Members.
  Variable hash : list Z -> Z.

  Lemma nodes_add n x s : In n (nodes (add_node hash x s)) <-> n = x \/ In n (nodes s).
  Proof.
    unfold add_node. destruct (mem_name x (nodes s)) eqn:M; cbn.
    - apply mem_name_In in M. split; [tauto|]. intros [->|H]; assumption.
    - split; intros [H|H]; auto.
  Qed.

  Lemma nodes_remove n x s : In n (nodes (remove_node hash x s)) <-> In n (nodes s) /\ n <> x.
  Proof.
    cbn. rewrite filter_In. destruct (name_eqb n x) eqn:E; cbn.
    - apply name_eqb_eq in E. split; [intros [_ H]; discriminate | tauto].
    - apply name_eqb_neq in E. tauto.
  Qed.

  Lemma members_spec ops n :
    In n (nodes (run hash ops)) <->
    exists before after, ops = before ++ Add n :: after /\ ~ In (Remove n) after.
  Proof.
    induction ops as [|o ops IH] using rev_ind.
    - cbn. split; [tauto|]. intros [b [a [E _]]]. destruct b; discriminate.
    - unfold run in *. rewrite fold_left_app. cbn [fold_left].
      destruct o as [x|x]; cbn [step].
      + rewrite nodes_add, IH. split.
        * intros [->|[b [a [E Hn]]]].
          -- exists ops, []. split; [reflexivity | tauto].
          -- exists b, (a ++ [Add x]). split; [rewrite E, <- app_assoc; reflexivity|].
             rewrite in_app_iff. intros [H|[H|[]]]; [tauto | discriminate].
        * intros [b [a [E Hn]]].
          destruct a as [|o a] using rev_ind.
          -- apply app_inj_tail in E as [_ E]. inversion E. auto.
          -- clear IHa. rewrite app_comm_cons, app_assoc in E. apply app_inj_tail in E as [E _].
             right. exists b, a. split; [assumption|]. intros H. apply Hn. apply in_app_iff. auto.
      + rewrite nodes_remove, IH. split.
        * intros [[b [a [E Hn]]] Hne].
          exists b, (a ++ [Remove x]). split; [rewrite E, <- app_assoc; reflexivity|].
          rewrite in_app_iff. intros [H|[H|[]]]; [tauto | inversion H; congruence].
        * intros [b [a [E Hn]]].
          destruct a as [|o a] using rev_ind.
          -- apply app_inj_tail in E as [_ E]. discriminate.
          -- clear IHa. rewrite app_comm_cons, app_assoc in E. apply app_inj_tail in E as [E E'].
             subst o. split.
             ++ exists b, a. split; [assumption|]. intros H. apply Hn. apply in_app_iff. auto.
             ++ intros ->. apply Hn. apply in_app_iff. right. left. reflexivity.
  Qed.
End Members.

(* ---------- without collisions every member owns all of its points ---------- *)
Section NoCollision.
  Variable hash : list Z -> Z.
  Variable U : name -> Prop.            (* the names that are ever added *)
  Hypothesis disjoint : forall a b, U a -> U b -> a <> b ->
    forall p, In p (points hash a) -> ~ In p (points hash b).

  Definition full (s : ring) : Prop :=
    inv hash s /\ (forall n, In n (nodes s) -> U n) /\
    forall n p, In n (nodes s) -> In p (points hash n) -> In (p, n) (circle s).

  Lemma circle_add_mono q x c e : In e c -> In e (circle_add q x c).
  Proof.
    induction c as [|[k m] c IH]; cbn [circle_add In]; [tauto|].
    destruct (q <? k); [cbn [In]; tauto|]. destruct (q =? k); [cbn [In]; tauto|].
    cbn [In]. intros [H|H]; auto.
  Qed.

  Lemma circle_add_present q x c : exists m, In (q, m) (circle_add q x c) /\ (m = x \/ In (q, m) c).
  Proof.
    induction c as [|[k m] c IH]; cbn [circle_add In].
    - exists x. auto.
    - destruct (q <? k); [exists x; cbn [In]; auto|].
      destruct (Z.eqb_spec q k) as [->|Hne]; [exists m; cbn [In]; auto|].
      destruct IH as [m' [H1 H2]]. exists m'. cbn [In]. tauto.
  Qed.

  Lemma fold_add_mono x pts : forall c e, In e c -> In e (fold_left (fun c p => circle_add p x c) pts c).
  Proof. induction pts as [|q pts IH]; cbn; intros c e H; [assumption|]. apply IH, circle_add_mono, H. Qed.

  Lemma fold_add_present x pts : forall c q, In q pts ->
    exists m, In (q, m) (fold_left (fun c p => circle_add p x c) pts c) /\ (m = x \/ In (q, m) c).
  Proof.
    induction pts as [|q0 pts IH]; cbn; intros c q Hin; [contradiction|].
    destruct Hin as [->|Hin].
    - destruct (circle_add_present q x c) as [m [H1 H2]]. exists m. split; [apply fold_add_mono, H1 | exact H2].
    - destruct (IH (circle_add q0 x c) q Hin) as [m [H1 H2]]. exists m. split; [exact H1|].
      destruct H2 as [H2|H2]; [auto|]. apply (circle_add_fst hash) in H2 as [E|H2]; [inversion E; auto | auto].
  Qed.

  Lemma fold_del_keep x pts : forall c e, In e c -> snd e <> x ->
    In e (fold_left (fun c p => circle_del p x c) pts c).
  Proof.
    induction pts as [|q pts IH]; cbn; intros c e H Hne; [assumption|].
    apply IH; [|assumption]. unfold circle_del. apply filter_In. split; [assumption|].
    unfold keeps. apply name_eqb_neq in Hne. rewrite Hne, andb_false_r. reflexivity.
  Qed.

  Lemma full_empty : full empty.
  Proof. split; [apply inv_empty|]. split; intros n; cbn; tauto. Qed.

  Lemma full_add x s : U x -> full s -> full (add_node hash x s).
  Proof.
    intros Ux [Hi [Hu Hf]]. split; [apply inv_add, Hi|].
    unfold add_node. destruct (mem_name x (nodes s)) eqn:M; [split; assumption|]. cbn [nodes circle].
    assert (Hx : ~ In x (nodes s)) by (rewrite <- mem_name_In; congruence).
    split.
    - intros n [<-|Hn]; auto.
    - intros n p [<-|Hn] Hp.
      + destruct (fold_add_present x (points hash x) (circle s) p Hp) as [m [H1 [->|H2]]]; [exact H1|].
        destruct Hi as [_ [_ Ho]]. destruct (Ho _ _ H2) as [Hm Hpm].
        destruct (name_eqb m x) eqn:E; [apply name_eqb_eq in E; subst; exact H1|].
        apply name_eqb_neq in E. exfalso. apply (disjoint m x (Hu _ Hm) Ux E p Hpm Hp).
      + apply fold_add_mono. apply Hf; assumption.
  Qed.

  Lemma full_remove x s : full s -> full (remove_node hash x s).
  Proof.
    intros [Hi [Hu Hf]]. split; [apply inv_remove, Hi|]. cbn [remove_node nodes circle]. split.
    - intros n Hn. apply filter_In in Hn as [Hn _]. auto.
    - intros n p Hn Hp. apply filter_In in Hn as [Hn Hne].
      apply fold_del_keep; [apply Hf; assumption|]. cbn.
      apply negb_true_iff, name_eqb_neq in Hne. exact Hne.
  Qed.

  Lemma full_run_from ops : forall s, full s -> (forall n, In (Add n) ops -> U n) ->
    full (fold_left (step hash) ops s).
  Proof.
    induction ops as [|o ops IH]; cbn [fold_left]; intros s Hs Hu; [assumption|].
    apply IH; [|intros n Hn; apply Hu; right; exact Hn].
    destruct o as [x|x]; cbn [step]; [apply full_add; [apply Hu; left; reflexivity | exact Hs] | apply full_remove, Hs].
  Qed.
End NoCollision.

Lemma points_nonempty hash n : points hash n <> [].
Proof. unfold points, replicas, collections_consistent_ReplicaCount. cbn. discriminate. Qed.

Lemma owns_all_points hash ops :
  (forall a b, In (Add a) ops -> In (Add b) ops -> a <> b ->
     forall p, In p (points hash a) -> ~ In p (points hash b)) ->
  forall n p, In n (nodes (run hash ops)) -> In p (points hash n) ->
    circle_get p (circle (run hash ops)) = Some n.
Proof.
  intros Hd n p Hn Hp.
  destruct (full_run_from hash (fun a => In (Add a) ops) Hd ops empty (full_empty hash _) (fun a H => H)) as [[Hs _] [_ Hf]].
  apply circle_get_in; [exact Hs|]. apply Hf; assumption.
Qed.

Lemma members_have_points hash ops :
  (forall a b, In (Add a) ops -> In (Add b) ops -> a <> b ->
     forall p, In p (points hash a) -> ~ In p (points hash b)) ->
  nodes (run hash ops) <> [] -> circle (run hash ops) <> [].
Proof.
  intros Hd Hne Hc. destruct (nodes (run hash ops)) as [|n ns] eqn:En; [contradiction|].
  destruct (points hash n) as [|p ps] eqn:Ep; [exact (points_nonempty hash n Ep)|].
  assert (H : circle_get p (circle (run hash ops)) = Some n).
  { apply owns_all_points; [exact Hd | rewrite En; left; reflexivity | rewrite Ep; left; reflexivity]. }
  rewrite Hc in H. discriminate.
Qed.

Lemma circle_get_keys p c : In p (map fst c) <-> circle_get p c <> None.
Proof.
  induction c as [|[q m] c IH]; cbn.
  - split; [intros [] | congruence].
  - destruct (Z.eqb_spec p q) as [->|Hne].
    + split; [discriminate | auto].
    + rewrite <- IH. split; [intros [E|H]; [congruence | exact H] | auto].
Qed.

(* ---------- several membership changes between two lookups ---------- *)
(* closer h a b: a would be chosen before b as the successor point of the hash h *)
Definition closer (h : Z) (a b : Z * name) : bool :=
  (gt h a && negb (gt h b)) || (Bool.eqb (gt h a) (gt h b) && (fst a <? fst b)).

Lemma closer_asym h a b : closer h a b = true -> closer h b a = true -> False.
Proof.
  unfold closer, gt. destruct (h <? fst a), (h <? fst b); cbn; rewrite ?andb_false_r, ?orb_false_r, ?orb_false_l;
    try discriminate; intros H1 H2; apply Z.ltb_lt in H1; apply Z.ltb_lt in H2; lia.
Qed.

Lemma closer_irrefl h a : closer h a a = false.
Proof.
  unfold closer. destruct (gt h a); cbn; rewrite Z.ltb_irrefl; reflexivity.
Qed.

(* the successor entry is closer than every other entry *)
Lemma succ_entry_min h c e : sorted_c c -> succ_entry h c = Some e ->
  forall e', In e' c -> e' = e \/ closer h e e' = true.
Proof.
  intros Hs. unfold succ_entry. destruct (find (gt h) c) as [e0|] eqn:F.
  - intros E; inversion E; subst e0. clear E.
    induction Hs as [|x c Hs IH Hall]; [discriminate|]. cbn in F.
    destruct (gt h x) eqn:G.
    + inversion F; subst x. intros e' [<-|Hin]; [left; reflexivity|]. right.
      rewrite Forall_forall in Hall. specialize (Hall _ Hin).
      unfold closer. rewrite G. unfold gt in *. apply Z.ltb_lt in G.
      replace (h <? fst e') with true by (symmetry; apply Z.ltb_lt; lia). cbn.
      apply Z.ltb_lt. exact Hall.
    + intros e' [<-|Hin]; [|apply IH; assumption]. right.
      apply find_some in F as [_ Ge]. unfold closer. rewrite Ge, G. reflexivity.
  - destruct c as [|x c]; [discriminate|]. cbn [hd_error]. intros E; inversion E; subst x. clear E.
    intros e' [<-|Hin]; [left; reflexivity|]. right.
    inversion Hs as [|? ? Hs' Hall]; subst. rewrite Forall_forall in Hall. specialize (Hall _ Hin).
    assert (G1 : gt h e = false) by (apply (find_none _ _ F); left; reflexivity).
    assert (G2 : gt h e' = false) by (apply (find_none _ _ F); right; exact Hin).
    unfold closer. rewrite G1, G2. cbn. apply Z.ltb_lt. exact Hall.
Qed.

Section Composite.
  Variable hash : list Z -> Z.

  Definition added_in (ops : list op) (n : name) : Prop := In (Add n) ops.
  Definition removed_in (ops : list op) (n : name) : Prop := In (Remove n) ops.

  (* relative to the successor entry e0 of h before the run: either its owner has been removed,
     or it is still there and everything closer belongs to a member added during the run *)
  Definition cinv (h : Z) (e0 : Z * name) (A R : name -> Prop) (s : ring) : Prop :=
    R (snd e0) \/
    (In e0 (circle s) /\ forall e, In e (circle s) -> closer h e e0 = true -> A (snd e)).

  Lemma cinv_step h e0 (A R : name -> Prop) s o :
    cinv h e0 A R s ->
    cinv h e0 (fun n => A n \/ o = Add n) (fun n => R n \/ o = Remove n) (step hash s o).
  Proof.
    intros [Hr|[Hin Hc]]; [left; left; exact Hr|].
    destruct o as [x|x]; cbn [step].
    - right. unfold add_node. destruct (mem_name x (nodes s)); [split; [exact Hin | intros e He Hcl; left; apply (Hc e He Hcl)]|].
      cbv zeta. cbn [circle]. split; [apply fold_add_mono; exact Hin|].
      intros e He Hcl. apply (fold_add_in hash) in He as [He|[He _]]; [left; apply (Hc e He Hcl) | right; rewrite He; reflexivity].
    - destruct (list_eq_dec Z.eq_dec (snd e0) x) as [E|E]; [left; right; rewrite E; reflexivity|].
      right. unfold remove_node. cbv zeta. cbn [circle]. split.
      + apply fold_del_keep; [exact Hin | exact E].
      + intros e He Hcl. apply (fold_del_in hash) in He as [He _]. left. apply (Hc e He Hcl).
  Qed.

  Lemma cinv_run h e0 ops : forall (A R : name -> Prop) s,
    cinv h e0 A R s ->
    cinv h e0 (fun n => A n \/ added_in ops n) (fun n => R n \/ removed_in ops n) (fold_left (step hash) ops s).
  Proof.
    induction ops as [|o ops IH]; intros A R s H; cbn [fold_left].
    - destruct H as [H|[H1 H2]]; [left; left; exact H | right; split; [exact H1 | intros e He Hc; left; apply (H2 e He Hc)]].
    - specialize (IH _ _ _ (cinv_step h e0 A R s o H)).
      destruct IH as [Hr|[Hin Hc]].
      + left. destruct Hr as [[Hr|Hr]|Hr]; [left; exact Hr | right; left; exact Hr | right; right; exact Hr].
      + right. split; [exact Hin|]. intros e He Hcl. destruct (Hc e He Hcl) as [[Ha|Ha]|Ha];
          [left; exact Ha | right; left; exact Ha | right; right; exact Ha].
  Qed.

  (* a key stays with its member, or goes to a member added in between, or its member was
     removed in between *)
  Lemma composite_moves s ops key old new : inv hash s ->
    get_node_by hash key s = Some old ->
    get_node_by hash key (fold_left (step hash) ops s) = Some new ->
    new = old \/ In (Add new) ops \/ In (Remove old) ops.
  Proof.
    intros Hi Hold Hnew. pose proof (inv_run_from hash ops s Hi) as Hi'.
    destruct Hi as [Hs [Hc _]]. destruct Hi' as [Hs' [Hc' _]].
    unfold get_node_by in *. rewrite get_node_at_spec in Hold, Hnew by assumption.
    unfold owner in *.
    destruct (succ_entry (hash key) (circle s)) as [e0|] eqn:E0; [|discriminate].
    destruct (succ_entry (hash key) (circle (fold_left (step hash) ops s))) as [e1|] eqn:E1; [|discriminate].
    cbn in Hold, Hnew. inversion Hold; inversion Hnew; subst old new. clear Hold Hnew.
    assert (H0 : cinv (hash key) e0 (fun _ => False) (fun _ => False) s).
    { right. split; [apply (succ_entry_in _ _ _ E0)|]. intros e He Hcl.
      destruct (succ_entry_min _ _ _ Hs E0 e He) as [->|Hcl'].
      - rewrite closer_irrefl in Hcl. discriminate.
      - exact (closer_asym _ _ _ Hcl Hcl'). }
    apply (cinv_run _ _ ops) in H0. destruct H0 as [[[]|Hr]|[Hin Hcl]].
    - right. right. exact Hr.
    - destruct (succ_entry_min _ _ _ Hs' E1 e0 Hin) as [->|Hcl1]; [left; reflexivity|].
      destruct (Hcl e1 (succ_entry_in _ _ _ E1) Hcl1) as [[]|Ha]. right. left. exact Ha.
  Qed.
End Composite.

(* a whole run of calls each of which leaves the member set as it finds it changes nothing *)
Lemma stable_run hash more : forall s, inv hash s ->
  (forall pre o post, more = pre ++ o :: post ->
     forall m, In m (nodes (step hash (fold_left (step hash) pre s) o)) <->
               In m (nodes (fold_left (step hash) pre s))) ->
  fold_left (step hash) more s = s.
Proof.
  induction more as [|o more IH]; intros s Hi H; [reflexivity|].
  cbn [fold_left].
  assert (Ho : step hash s o = s) by (apply stable; [exact Hi | apply (H [] o more eq_refl)]).
  rewrite Ho. apply IH; [exact Hi|].
  intros pre o' post E m. specialize (H (o :: pre) o' post). cbn [app fold_left] in H.
  rewrite Ho in H. apply H. rewrite E. reflexivity.
Qed.
