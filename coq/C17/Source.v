(* C17 — the definitions regenerated from collections/consistent/consistent.go by tools/gofunc
   (Generated/Consistent.v: Consistent.search and Consistent.hashKey, loops and
   index-out-of-range panics explicit) compute exactly what the hand-written model's `search`
   and `fnv1a` compute: on every ring cache below 2^62 entries / every byte string, given
   more fuel than the loop needs, the translated source returns Ok of the model's value —
   in particular it neither panics nor fails to terminate. *)
From Coq Require Import ZArith List Bool Lia.
From FV Require Import Generated.Consts Generated.Consistent Lib.GoSem Lib.Bits C17.Model.
Import ListNotations.
Open Scope Z_scope.

Ltac Zify.zify_post_hook ::= Z.div_mod_to_equations.

(* int64 arithmetic that stays in range is plain arithmetic *)
Lemma wrap64 x : - 9223372036854775808 <= x < 9223372036854775808 ->
  (x + 9223372036854775808) mod 18446744073709551616 - 9223372036854775808 = x.
Proof. intros H. lia. Qed.

(* ------------------------------------------------------------------ search *)

Section Search.
  Variables (sh : list Z) (h : Z).
  Let n := Z.of_nat (length sh).
  Hypothesis Hn : n < 2 ^ 62.

  (* one iteration of the translated loop = one unfolding of the model's bsearch *)
  Lemma search_body lo hi : 0 <= lo -> lo < hi -> hi <= n ->
    go_Consistent_search_loop1_body sh h (lo, hi) =
    let mid := lo + (hi - lo) / 2 in
    if nth (Z.to_nat mid) sh 0 <=? h then Ok (Next (mid + 1, hi)) else Ok (Next (lo, mid)).
  Proof.
    intros H0 H1 H2. unfold go_Consistent_search_loop1_body. cbv zeta.
    destruct (Z.ltb_spec lo hi) as [_|]; [|lia].
    assert (Hq : Z.quot (hi - lo) 2 = (hi - lo) / 2) by (apply Z.quot_div_nonneg; lia).
    assert (Hp : 2 ^ 62 = 4611686018427387904) by reflexivity.
    rewrite (wrap64 (hi - lo)) by lia. rewrite Hq.
    rewrite (wrap64 ((hi - lo) / 2)) by lia.
    rewrite (wrap64 (lo + (hi - lo) / 2)) by lia.
    rewrite go_index_ok by (unfold go_len; fold n; lia). cbn [bind].
    rewrite (wrap64 (lo + (hi - lo) / 2 + 1)) by lia.
    destruct (nth (Z.to_nat (lo + (hi - lo) / 2)) sh 0 <=? h); reflexivity.
  Qed.

  Lemma search_loop fuel : forall f lo hi, 0 <= lo <= hi -> hi <= n ->
    hi - lo < Z.of_nat fuel -> hi - lo < Z.of_nat f ->
    exists hi', go_Consistent_search_loop1 fuel sh h (lo, hi) = Ok (inl (bsearch f sh h lo hi, hi')).
  Proof.
    unfold go_Consistent_search_loop1.
    induction fuel as [|fuel IH]; intros f lo hi H0 H1 Hfuel Hf; [lia|].
    destruct f as [|f]; [lia|].
    rewrite go_loop_S. cbn [bsearch].
    destruct (Z.ltb_spec lo hi) as [Hlt|Hge].
    - rewrite search_body by lia. cbv zeta.
      destruct (nth (Z.to_nat (lo + (hi - lo) / 2)) sh 0 <=? h); apply IH; lia.
    - unfold go_Consistent_search_loop1_body.
      destruct (Z.ltb_spec lo hi) as [|_]; [lia|]. eauto.
  Qed.

  Lemma src_search fuel : (length sh < fuel)%nat ->
    go_Consistent_search fuel sh h = Ok (search sh h).
  Proof.
    intros Hfuel. unfold go_Consistent_search, search. cbv zeta. unfold go_len. fold n.
    destruct (search_loop fuel (S (length sh)) 0 n) as [hi' E]; try lia.
    rewrite E. destruct (bsearch (S (length sh)) sh h 0 n >=? n); reflexivity.
  Qed.
End Search.

(* ------------------------------------------------------------------ hashKey *)

Definition is_bytes (s : list Z) : Prop := Forall (fun c => 0 <= c < 256) s.

Lemma fnv_step_src hsh c : 0 <= c < 256 ->
  ((Z.lxor hsh (c mod 256 mod 4294967296)) * 16777619) mod 4294967296 = fnv_step hsh c.
Proof.
  intros Hc. unfold fnv_step.
  rewrite (Z.mod_small c 256) by lia. rewrite (Z.mod_small c 4294967296) by lia.
  change 4294967295 with (2 ^ 32 - 1). rewrite land_ones_mod by lia.
  change (2 ^ 32) with 4294967296. f_equal. apply Z.mul_comm.
Qed.

Lemma skipn_nth_cons (s : list Z) i : (i < length s)%nat ->
  skipn i s = nth i s 0 :: skipn (S i) s.
Proof.
  revert i. induction s as [|x s IH]; intros i H; cbn in H; [lia|].
  destruct i as [|i]; [reflexivity|]. cbn [skipn nth]. apply IH. lia.
Qed.

Section Hash.
  Variable key : list Z.
  Let n := Z.of_nat (length key).
  Hypothesis Hbytes : is_bytes key.
  Hypothesis Hn : n < 2 ^ 62.

  Lemma hash_loop fuel : forall hsh i, 0 <= i <= n -> n - i < Z.of_nat fuel ->
    go_Consistent_hashKey_loop1 fuel key (hsh, i) =
    Ok (inl (fold_left fnv_step (skipn (Z.to_nat i) key) hsh, n)).
  Proof.
    unfold go_Consistent_hashKey_loop1.
    induction fuel as [|fuel IH]; intros hsh i Hi Hfuel; [lia|].
    rewrite go_loop_S. unfold go_Consistent_hashKey_loop1_body at 1. unfold go_len. fold n.
    assert (Hp : 2 ^ 62 = 4611686018427387904) by reflexivity.
    destruct (Z.ltb_spec i n) as [Hlt|Hge].
    - rewrite go_index_ok by (unfold go_len; fold n; lia). cbn [bind]. cbv zeta.
      rewrite (wrap64 (i + 1)) by lia.
      assert (Hc : 0 <= nth (Z.to_nat i) key 0 < 256).
      { unfold is_bytes in Hbytes. rewrite Forall_forall in Hbytes. apply Hbytes. apply nth_In. lia. }
      rewrite fnv_step_src by assumption.
      rewrite IH by lia.
      rewrite (skipn_nth_cons key (Z.to_nat i)) by lia. cbn [fold_left].
      replace (Z.to_nat (i + 1)) with (S (Z.to_nat i)) by lia. reflexivity.
    - assert (i = n) by lia. subst i. unfold n at 2. rewrite Nat2Z.id, skipn_all. reflexivity.
  Qed.

  Lemma src_hashKey fuel : (length key < fuel)%nat ->
    go_Consistent_hashKey fuel key = Ok (fnv1a key).
  Proof.
    intros Hfuel. unfold go_Consistent_hashKey, fnv1a. cbv zeta.
    rewrite hash_loop by lia. reflexivity.
  Qed.
End Hash.

(* GetNodeBy's lookup index, straight from the translated source: search(hashKey(key)) *)
Lemma src_lookup_index sh key fuel :
  Z.of_nat (length sh) < 2 ^ 62 -> is_bytes key -> Z.of_nat (length key) < 2 ^ 62 ->
  (length sh < fuel)%nat -> (length key < fuel)%nat ->
  bind (go_Consistent_hashKey fuel key) (go_Consistent_search fuel sh) = Ok (search sh (fnv1a key)).
Proof.
  intros H1 H2 H3 H4 H5. rewrite src_hashKey by assumption. cbn [bind].
  apply src_search; assumption.
Qed.

(* ------------------------------------------------------------------ the order of the ring
   updateSortedHash sorts with sort.Sort(collections.Uint32Slice(hashes)): the translated
   Len / Less of that type are the length and the strict order < on the elements — the
   ascending order the model's sort_u32 produces. *)
From FV Require Import Generated.U32Slice.

Lemma src_u32slice (x : list Z) i j :
  0 <= i < Z.of_nat (length x) -> 0 <= j < Z.of_nat (length x) ->
  go_Uint32Slice_Len x = Z.of_nat (length x) /\
  go_Uint32Slice_Less x i j = Ok (nth (Z.to_nat i) x 0 <? nth (Z.to_nat j) x 0).
Proof.
  intros Hi Hj. split; [reflexivity|].
  unfold go_Uint32Slice_Less. rewrite !go_index_ok by (unfold go_len; lia). reflexivity.
Qed.
