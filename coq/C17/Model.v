(* C17 — consistent hashing (collections/consistent/consistent.go).
   Executable model; nothing is proved in this file.

   The Go map `circle map[uint32]string` is represented by an association list kept in
   strictly increasing key order (a canonical representation of a finite map: Go's map has
   no order of its own).  `sortedHash []uint32` is a field of the state of its own — the
   cache the lookups read — which updateSortedHash rebuilds after every membership change by
   collecting the keys of the map and sorting them (sort_u32; whether the backing array is
   reused through `[:0]` or re-allocated is invisible: the rebuilt slice starts empty either
   way).  That the cache always equals the sorted key set of the map, whatever order the
   map is iterated in, is proved (Proofs.v), not built in.
   `nodes map[string]bool` is a duplicate-free list.  Member names and keys are byte
   strings (lists of byte values).  The hash function is a parameter of everything below;
   `fnv1a` is the code's own hashKey. *)
From Coq Require Import ZArith List Bool.
From FV Require Import Generated.Consts.
Import ListNotations.
Open Scope Z_scope.

Definition name := list Z.

Fixpoint name_eqb (a b : name) : bool :=
  match a, b with
  | [], [] => true
  | x :: a', y :: b' => (x =? y) && name_eqb a' b'
  | _, _ => false
  end.

(* hashKey: FNV-1a, 32 bit.  `hash ^= uint32(c); hash *= 16777619` in uint32 arithmetic
   (4294967295 = 2^32 - 1: the multiplication wraps). *)
Definition fnv_step (h c : Z) : Z := Z.land (16777619 * Z.lxor h c) 4294967295.
Definition fnv1a (s : list Z) : Z := fold_left fnv_step s 2166136261.

(* fmt's %d of a non-negative int *)
Fixpoint dec_digits (fuel : nat) (n : Z) (acc : list Z) : list Z :=
  match fuel with
  | O => acc
  | S f => let acc' := (48 + n mod 10) :: acc in
           if n <? 10 then acc' else dec_digits f (n / 10) acc'
  end.
Definition decimal (n : Z) : list Z := dec_digits 20 n [].

(* fmt.Sprintf("%s-%d", node, i) for i = 0 .. ReplicaCount-1 *)
Definition replica (n : name) (i : Z) : list Z := n ++ 45 :: decimal i.
Definition replicas (n : name) : list (list Z) :=
  map (fun i => replica n (Z.of_nat i)) (seq 0 (Z.to_nat collections_consistent_ReplicaCount)).

Record ring := mkRing { circle : list (Z * name); nodes : list name; sorted_hash : list Z }.

Definition empty : ring := mkRing [] [] [].

(* sort.Sort(collections.Uint32Slice(hashes)): ascending order *)
Fixpoint insert_sorted (x : Z) (l : list Z) : list Z :=
  match l with
  | [] => [x]
  | y :: r => if x <=? y then x :: l else y :: insert_sorted x r
  end.
Definition sort_u32 (l : list Z) : list Z := fold_right insert_sorted [] l.

(* updateSortedHash: `for k := range c.circle { hashes = append(hashes, k) }` then sort *)
Definition update_sorted_hash (c : list (Z * name)) : list Z := sort_u32 (map fst c).

Fixpoint mem_name (n : name) (l : list name) : bool :=
  match l with
  | [] => false
  | m :: r => name_eqb m n || mem_name n r
  end.

(* c.circle[p] *)
Fixpoint circle_get (p : Z) (c : list (Z * name)) : option name :=
  match c with
  | [] => None
  | (q, m) :: r => if p =? q then Some m else circle_get p r
  end.

(* `if _, found := c.circle[p]; !found { c.circle[p] = n }` on the ordered representation *)
Fixpoint circle_add (p : Z) (n : name) (c : list (Z * name)) : list (Z * name) :=
  match c with
  | [] => [(p, n)]
  | (q, m) :: r =>
      if p <? q then (p, n) :: c
      else if p =? q then c
      else (q, m) :: circle_add p n r
  end.

(* `if owner, found := c.circle[p]; found && owner == n { delete(c.circle, p) }` *)
Definition keeps (p : Z) (n : name) (e : Z * name) : bool :=
  negb ((fst e =? p) && name_eqb (snd e) n).
Definition circle_del (p : Z) (n : name) (c : list (Z * name)) : list (Z * name) :=
  filter (keeps p n) c.

Section Ring.
  Variable hash : list Z -> Z.

  Definition points (n : name) : list Z := map hash (replicas n).

  (* AddNode *)
  Definition add_node (n : name) (s : ring) : ring :=
    if mem_name n (nodes s) then s
    else let c := fold_left (fun c p => circle_add p n c) (points n) (circle s) in
         mkRing c (n :: nodes s) (update_sorted_hash c).

  (* RemoveNode *)
  Definition remove_node (n : name) (s : ring) : ring :=
    let c := fold_left (fun c p => circle_del p n c) (points n) (circle s) in
    mkRing c (filter (fun m => negb (name_eqb m n)) (nodes s)) (update_sorted_hash c).

  (* search: the loop `for lo < hi { mid := lo + (hi-lo)/2; if sh[mid] <= hash { lo = mid+1 }
     else { hi = mid } }`; every iteration shrinks hi-lo, so length+1 iterations suffice *)
  Fixpoint bsearch (fuel : nat) (sh : list Z) (h lo hi : Z) : Z :=
    match fuel with
    | O => lo
    | S f =>
        if lo <? hi then
          let mid := lo + (hi - lo) / 2 in
          if nth (Z.to_nat mid) sh 0 <=? h then bsearch f sh h (mid + 1) hi
          else bsearch f sh h lo mid
        else lo
    end.

  Definition search (sh : list Z) (h : Z) : Z :=
    let n := Z.of_nat (length sh) in
    let lo := bsearch (S (length sh)) sh h 0 n in
    if lo >=? n then 0 else lo.

  (* GetNodeBy; None = the index-out-of-range panic on an empty ring.
     A key missing from the map would read as the empty string. *)
  Definition get_node_at (h : Z) (s : ring) : option name :=
    let sh := sorted_hash s in
    match sh with
    | [] => None
    | _ => let i := search sh h in
           Some (match circle_get (nth (Z.to_nat i) sh 0) (circle s) with
                 | Some n => n
                 | None => []
                 end)
    end.
  Definition get_node_by (key : list Z) (s : ring) : option name := get_node_at (hash key) s.

  Inductive op := Add (n : name) | Remove (n : name).

  Definition step (s : ring) (o : op) : ring :=
    match o with
    | Add n => add_node n s
    | Remove n => remove_node n s
    end.

  Definition run (ops : list op) : ring := fold_left step ops empty.
End Ring.
