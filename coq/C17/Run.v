(* C17 — correspondence: decode a case written by the Go harness, run the model on the same
   history, compare every lookup with what the implementation returned, and evaluate the
   property's four sentences directly on the implementation's own answers.

   case     = ((names ops keys) observed)
   names    = table of distinct member names (byte strings)
   ops      = ((0 i) = AddNode(names[i]) | (1 i) = RemoveNode(names[i])) ... followed by lookups of
              every key; (2 i) / (3 i) = the same calls with NO lookup afterwards (quiet)
   keys     = byte strings
   observed = one entry per op, taken after the op: ((r_1 .. r_k) repeat_equal cache_len cache_ok),
              () for a quiet op
              r_j = index in `names` of GetNodeBy(key_j), -1 = the call panicked (empty
              ring), -2 = a string that is not in the table;
              repeat_equal = 1 iff a second round of the same lookups (made in reverse
              order) returned the same answers.
              cache_len = len(sortedHash), cache_ok = 1 iff sortedHash is the sorted key
              set of the circle map (verif probe).
   Before the first op the ring is empty: every lookup counts as -1. *)
From Coq Require Import ZArith List Bool.
From FV Require Import Lib.Sx C17.Model.
Import ListNotations.
Open Scope Z_scope.

Fixpoint index_of (n : name) (tbl : list name) (i : Z) : Z :=
  match tbl with
  | [] => -2
  | m :: r => if name_eqb m n then i else index_of n r (i + 1)
  end.

Definition bytes_of (s : sx) : option (list Z) :=
  match s with SBytes b => Some (map Z.of_N b) | _ => None end.
Definition op_of (s : sx) : option (Z * Z) :=
  match s with SList [SInt o; SInt i] => Some (o, i) | _ => None end.
(* None = a quiet op (no lookups were made after it): written () by the harness *)
Definition obs_of (s : sx) : option (option (list Z * Z * (Z * Z))) :=
  match s with
  | SList [] => Some None
  | SList [l; SInt rep; SInt cl; SInt cok] =>
      match sx_ints l with Some r => Some (Some (r, rep, (cl, cok))) | None => None end
  | _ => None
  end.

Definition zmem (x : Z) (l : list Z) : bool := existsb (Z.eqb x) l.

Fixpoint forall2b {A B} (f : A -> B -> bool) (a : list A) (b : list B) : bool :=
  match a, b with
  | [], [] => true
  | x :: a', y :: b' => f x y && forall2b f a' b'
  | _, _ => false
  end.

(* model side: answers after every observed op (op codes 0/1 = AddNode/RemoveNode followed
   by lookups, 2/3 = the same calls with no lookup afterwards) *)
Fixpoint model_obs (names : list name) (hs : list Z) (s : ring) (ops : list (Z * Z)) : list (option (list Z * Z)) :=
  match ops with
  | [] => []
  | (o, i) :: r =>
      let n := nth (Z.to_nat i) names [] in
      let s' := if (o =? 0) || (o =? 2) then add_node fnv1a n s else remove_node fnv1a n s in
      (if o <? 2 then
         Some (map (fun h => match get_node_at h s' with
                             | None => -1
                             | Some m => index_of m names 0
                             end) hs,
               Z.of_nat (length (sorted_hash s')))
       else None)
      :: model_obs names hs s' r
  end.

(* the cache is compared through its length; that it is the sorted key set of the map is a
   theorem about the model (c17_cache_is_sorted_keys) and probed on the implementation *)
Fixpoint corr (m : list (option (list Z * Z))) (obs : list (option (list Z * Z * (Z * Z)))) : verdict :=
  match m, obs with
  | [], [] => VOk
  | None :: m', None :: o' => corr m' o'
  | Some (a, cl) :: m', Some (b, _, (cl', cok)) :: o' =>
      if negb (cok =? 1) then VMismatch 3
      else if negb (cl =? cl') then VMismatch 2
      else if list_eqb Z.eqb a b then corr m' o' else VMismatch 1
  | _, _ => VBad
  end.

(* property side: the members are tracked as a plain set of table indices; nothing of the
   model is used.  Between two observations several calls may have been made (quiet ops):
   added / removed = the names added / removed since the previous observation, noop = every
   one of those calls left the member set as it was.  What single changes allow composes to:
   a key stays, or moves to a member added in between, or its previous member was removed in
   between (for a single AddNode / RemoveNode these are sentences 3 and 4 verbatim). *)
Fixpoint prop (members prev added removed : list Z) (noop : bool)
              (ops : list (Z * Z)) (obs : list (option (list Z * Z * (Z * Z)))) : verdict :=
  match ops, obs with
  | [], [] => VOk
  | (o, x) :: ops', ob :: obs' =>
      let isadd := (o =? 0) || (o =? 2) in
      let was := zmem x members in
      let members' := if isadd then (if was then members else x :: members)
                      else filter (fun y => negb (y =? x)) members in
      let noop' := noop && (if isadd then was else negb was) in
      let added' := if isadd then x :: added else added in
      let removed' := if isadd then removed else x :: removed in
      match ob with
      | None => if o <? 2 then VBad else prop members' prev added' removed' noop' ops' obs'
      | Some (cur, rep, _) =>
          if negb (o <? 2) then VBad else
          let v1 := match members' with
                    | [] => VOk
                    | _ => check_that (forallb (fun r => zmem r members') cur) (VPropFail 1)
                    end in
          let v2 := check_that ((rep =? 1) && (negb noop' || list_eqb Z.eqb prev cur)) (VPropFail 2) in
          let v34 := check_that (forall2b (fun a b => (a =? b) || zmem b added' || zmem a removed') prev cur)
                                (match removed' with [] => VPropFail 3 | _ => VPropFail 4 end) in
          vjoin v1 (vjoin v2 (vjoin v34 (prop members' cur [] [] true ops' obs')))
      end
  | _, _ => VBad
  end.

Definition check (c : sx) : verdict :=
  match c with
  | SList [SList [SList names; SList ops; SList keys]; SList obs] =>
      match map_opt bytes_of names, map_opt op_of ops, map_opt bytes_of keys, map_opt obs_of obs with
      | Some names, Some ops, Some keys, Some obs =>
          let nk := length keys in
          if forallb (fun ob => match ob with
                                | Some ob => Nat.eqb (length (fst (fst ob))) nk
                                | None => true
                                end) obs
             && forallb (fun o => (0 <=? snd o) && (snd o <? Z.of_nat (length names))
                                  && (0 <=? fst o) && (fst o <=? 3)) ops
          then
            vjoin (prop [] (map (fun _ => -1) keys) [] [] true ops obs)
                  (corr (model_obs names (map fnv1a keys) empty ops) obs)
          else VBad
      | _, _, _, _ => VBad
      end
  | _ => VBad
  end.
