(* C06 — "disturbs no other timer": erasing one timer from the specification commutes with
   every step; lifted to both implementations through the simulation of C05/Machine.v. *)
From Coq Require Import ZArith List Bool Lia ZifyBool Permutation Sorted.
From FV Require Import Generated.Consts C05.Model C05.Spec C05.WheelInv C05.ListFacts C05.Refine
  C05.Machine C05.SpecFacts C06.Proofs.
Import ListNotations.
Open Scope Z_scope.

Definition keep (i : Z) (n : node) : bool := negb (nid n =? i).
Definition keepd (i : Z) (x : deliv) : bool := negb (fst x =? i).

(* ------------------------------------------------------------------------------------ *)
(* the specification's sort commutes with erasing *)

Definition dleP (a b : node) : Prop := dle a b = true.

Lemma dle_total a b : dle a b = false -> dle b a = true.
Proof. unfold dle. intros H. lia. Qed.

Lemma dle_trans a b c : dle a b = true -> dle b c = true -> dle a c = true.
Proof. unfold dle. intros H1 H2. lia. Qed.

Lemma dinsert_ssorted n l : StronglySorted dleP l -> StronglySorted dleP (dinsert n l).
Proof.
  induction l as [|x r IH]; cbn; intros H; [constructor; constructor|].
  inversion H as [|? ? Hr Hx]; subst. destruct (dle n x) eqn:Hd.
  - constructor; [exact H|]. constructor; [exact Hd|].
    eapply Forall_impl; [|exact Hx]. intros y Hy. eapply dle_trans; eassumption.
  - constructor; [apply IH; exact Hr|].
    apply Forall_forall. intros y Hy. apply (Permutation_in _ (dinsert_perm n r)) in Hy.
    destruct Hy as [<-|Hy]; [apply dle_total; exact Hd|]. rewrite Forall_forall in Hx. apply Hx. exact Hy.
Qed.

Lemma dsort_ssorted l : StronglySorted dleP (dsort l).
Proof. induction l as [|x r IH]; cbn; [constructor|]. apply dinsert_ssorted. exact IH. Qed.

Lemma dinsert_head n l : (forall y, In y l -> dle n y = true) -> dinsert n l = n :: l.
Proof. destruct l as [|x r]; cbn; intros H; [reflexivity|]. rewrite (H x (or_introl eq_refl)). reflexivity. Qed.

Lemma dinsert_filter_keep i n l :
  StronglySorted dleP l -> keep i n = true ->
  dinsert n (filter (keep i) l) = filter (keep i) (dinsert n l).
Proof.
  intros Hs Hk. induction l as [|x r IH]; cbn [filter dinsert]; [cbn; rewrite Hk; reflexivity|].
  inversion Hs as [|? ? Hr Hx]; subst. destruct (dle n x) eqn:Hd.
  - cbn [filter]. rewrite Hk. destruct (keep i x) eqn:Kx.
    + cbn [dinsert]. rewrite Hd. reflexivity.
    + apply dinsert_head. intros y Hy. apply filter_In in Hy. destruct Hy as [Hy _].
      rewrite Forall_forall in Hx. eapply dle_trans; [exact Hd|apply Hx; exact Hy].
  - cbn [filter]. destruct (keep i x) eqn:Kx.
    + cbn [dinsert]. rewrite Hd. f_equal. apply IH. exact Hr.
    + apply IH. exact Hr.
Qed.

Lemma dinsert_filter_drop i n l : keep i n = false -> filter (keep i) (dinsert n l) = filter (keep i) l.
Proof.
  intros Hk. induction l as [|x r IH]; cbn [filter dinsert]; [cbn; rewrite Hk; reflexivity|].
  destruct (dle n x); cbn [filter]; [rewrite Hk; reflexivity|]. rewrite IH. reflexivity.
Qed.

Lemma dsort_cons x r : dsort (x :: r) = dinsert x (dsort r).
Proof. reflexivity. Qed.

Lemma dsort_filter i l : dsort (filter (keep i) l) = filter (keep i) (dsort l).
Proof.
  induction l as [|x r IH]; [reflexivity|]. cbn [filter]. destruct (keep i x) eqn:Kx.
  - rewrite !dsort_cons, IH. apply dinsert_filter_keep; [apply dsort_ssorted|exact Kx].
  - rewrite dsort_cons, IH. symmetry. apply dinsert_filter_drop. exact Kx.
Qed.

Lemma filter_comm {A} (f g : A -> bool) l : filter f (filter g l) = filter g (filter f l).
Proof. rewrite !filter_filter'. apply filter_ext. intros x. apply andb_comm. Qed.

Lemma map_rearm_keep i t l : map (rearm t) (filter (keep i) l) = filter (keep i) (map (rearm t) l).
Proof.
  induction l as [|x r IH]; cbn; [reflexivity|]. change (keep i (rearm t x)) with (keep i x).
  destruct (keep i x); cbn; rewrite IH; reflexivity.
Qed.

Lemma map_deliv_keep i l : map deliv_of (filter (keep i) l) = filter (keepd i) (map deliv_of l).
Proof.
  induction l as [|x r IH]; cbn; [reflexivity|]. change (keepd i (deliv_of x)) with (keep i x).
  destruct (keep i x); cbn; rewrite IH; reflexivity.
Qed.

Lemma mem_map_keep i x l : x <> i -> mem x (map nid (filter (keep i) l)) = mem x (map nid l).
Proof.
  intros Hx. induction l as [|n r IH]; cbn [filter map]; [reflexivity|].
  unfold keep at 1. destruct (Z.eqb_spec (nid n) i) as [E|E]; cbn [negb map].
  - rewrite IH, mem_cons. destruct (Z.eqb_spec x (nid n)); [congruence|reflexivity].
  - rewrite !mem_cons, IH. reflexivity.
Qed.

(* one tick of the specification commutes with erasing timer i *)
Lemma spec_tick_erase i t P r :
  spec_tick t (filter (keep i) P) (unrefer r i) =
  (filter (keep i) (fst (fst (spec_tick t P r))),
   unrefer (snd (fst (spec_tick t P r))) i,
   filter (keepd i) (snd (spec_tick t P r))).
Proof.
  unfold spec_tick. cbn [fst snd].
  rewrite (filter_comm (is_due t) (keep i)), dsort_filter.
  set (D := dsort (filter (is_due t) P)).
  f_equal; [f_equal|].
  - rewrite filter_app. f_equal.
    + apply filter_comm.
    + rewrite (filter_comm periodic (keep i)). apply map_rearm_keep.
  - rewrite !unrefer_fold. unfold unrefer. rewrite !filter_filter'. apply filter_ext_in'.
    intros x Hx. rewrite <- (filter_filter' (fun n => negb (periodic n)) (keep i) D).
    rewrite (filter_comm (fun n => negb (periodic n)) (keep i)).
    destruct (Z.eqb_spec x i) as [->|Hne]; cbn [negb andb]; [rewrite andb_false_r; reflexivity|].
    rewrite mem_map_keep by exact Hne. rewrite andb_true_r. reflexivity.
  - apply map_deliv_keep.
Qed.

Definition erase_acc (i : Z) (acc : Z * list node * list Z * list deliv) : Z * list node * list Z * list deliv :=
  let '(t, P, r, o) := acc in (t, filter (keep i) P, unrefer r i, filter (keepd i) o).

Lemma ticks_acc_erase i acc : ticks_acc (erase_acc i acc) = erase_acc i (ticks_acc acc).
Proof.
  destruct acc as [[[t P] r] o]. unfold erase_acc, ticks_acc. rewrite spec_tick_erase.
  destruct (spec_tick (t + 1) P r) as [[P' r'] o']. cbn [fst snd]. rewrite filter_app. reflexivity.
Qed.

Lemma ticks_iter_erase i k acc : N.iter k ticks_acc (erase_acc i acc) = erase_acc i (N.iter k ticks_acc acc).
Proof.
  induction k as [|k IH] using N.peano_ind; [reflexivity|]. rewrite !N.iter_succ, IH. apply ticks_acc_erase.
Qed.

(* ------------------------------------------------------------------------------------ *)
(* the specification machine with timer i erased from the scheduled side *)

Definition erased (i : Z) (a b : sst) : Prop :=
  zwheel a = zwheel b /\ zclock a = zclock b /\ ztt a = ztt b /\ znext a = znext b /\ zreq a = zreq b /\
  zrefer a = unrefer (zrefer b) i /\ zpending a = filter (keep i) (zpending b) /\ i <= znext b /\
  0 <= znext b /\ Forall (fun x => x <= znext b) (zrefer b).

(* what the two worlds must agree on for the other timers *)
Definition oth (i : Z) (o : op) (x y : out) : Prop :=
  match o with
  | Start _ | Every _ => exists bl id, x = OId bl id /\ y = OId bl id
  | Cancel j => j <> i -> exists b1 b2 r, x = OBool b1 r /\ y = OBool b2 r
  | IsSched j => j <> i -> exists f, x = OFlag f /\ y = OFlag f
  | Tick => exists la lb, x = ODeliv la /\ y = ODeliv lb /\ la = filter (keepd i) lb
  | _ => True
  end.

Lemma mem_unrefer_other x r i : x <> i -> mem x (unrefer r i) = mem x r.
Proof. intros H. rewrite mem_unrefer. destruct (Z.eqb_spec x i); [contradiction|apply andb_true_r]. Qed.

Lemma unrefer_app r l i : unrefer (r ++ l) i = unrefer r i ++ unrefer l i.
Proof. unfold unrefer. apply filter_app. Qed.

Lemma unrefer_comm r i j : unrefer (unrefer r i) j = unrefer (unrefer r j) i.
Proof. unfold unrefer. apply filter_comm. Qed.

Lemma unrefer_le r i (bound : Z) : Forall (fun x => x <= bound) r -> Forall (fun x => x <= bound) (unrefer r i).
Proof.
  intros H. apply Forall_forall. intros x Hx. unfold unrefer in Hx. apply filter_In in Hx.
  rewrite Forall_forall in H. apply H. tauto.
Qed.

Lemma sstep_erased i o a b :
  znext b + 1 < 2 ^ 63 ->
  erased i a b -> erased i (fst (sstep a o)) (fst (sstep b o)) /\ oth i o (snd (sstep a o)) (snd (sstep b o)).
Proof.
  intros Hroom [Ew [Ec [Et [En [Eq [Er [Ep [Hi [H0 Hle]]]]]]]]].
  assert (Hi' : i <= znext b /\ 0 <= znext b /\ Forall (fun x => x <= znext b) (zrefer b)) by tauto.
  assert (Hsched : forall d p, erased i (fst (sschedule a d p)) (fst (sschedule b d p)) /\
                               exists bl id, snd (sschedule a d p) = OId bl id /\ snd (sschedule b d p) = OId bl id).
  { intros d p. unfold sschedule. cbn [fst snd]. rewrite Ew, Ec, En, Eq, Er.
    rewrite (alloc_fresh (znext b) (zrefer b)) by assumption.
    rewrite (alloc_fresh (znext b) (unrefer (zrefer b) i)) by (try assumption; apply unrefer_le; exact Hle).
    split; [|eexists _, _; split; reflexivity].
    unfold erased. cbn [zwheel zclock ztt znext zreq zrefer zpending]. repeat (split; [assumption || reflexivity|]).
    split; [|split; [exact Ep|split; [lia|split; [lia|]]]].
    - rewrite unrefer_app. f_equal. unfold unrefer. cbn [filter].
      destruct (Z.eqb_spec (znext b + 1) i); [lia|reflexivity].
    - apply Forall_app. split; [eapply Forall_impl; [|exact Hle]; cbn; intros; lia|constructor; [lia|constructor]]. }
  destruct o; cbn [sstep oth].
  - apply Hsched.
  - apply Hsched.
  - (* Cancel *)
    rewrite Er. destruct (Z.eq_dec id i) as [->|Hne].
    + rewrite mem_unrefer, Z.eqb_refl, andb_false_r. cbn [fst snd].
      destruct (mem i (zrefer b)) eqn:Hm; cbn [fst snd].
      * split; [|intros H; contradiction]. unfold erased. cbn [zwheel zclock ztt znext zreq zrefer zpending].
        repeat (split; [assumption|]). split; [|split; [|split; [exact Hi|split; [exact H0|apply unrefer_le; exact Hle]]]].
        -- rewrite Er. unfold unrefer. rewrite filter_filter'. apply filter_ext. intros x. rewrite andb_diag. reflexivity.
        -- rewrite Ep. fold (keep i). rewrite filter_filter'. apply filter_ext. intros x. rewrite andb_diag. reflexivity.
      * split; [unfold erased; tauto|intros H; contradiction].
    + rewrite mem_unrefer_other by exact Hne. destruct (mem id (zrefer b)) eqn:Hm; cbn [fst snd].
      * split; [|intros _; eexists _, _, _; split; reflexivity].
        unfold erased. cbn [zwheel zclock ztt znext zreq zrefer zpending].
        repeat (split; [assumption|]). split; [|split; [|split; [exact Hi|split; [exact H0|apply unrefer_le; exact Hle]]]].
        -- apply unrefer_comm.
        -- rewrite Ep. fold (keep id) (keep i). apply filter_comm.
      * split; [unfold erased; tauto|intros _; eexists _, _, _; split; reflexivity].
  - cbn [fst snd]. split; [unfold erased; tauto|exact I].
  - cbn [fst snd]. split; [unfold erased; tauto|]. intros Hne. rewrite Er, mem_unrefer_other by exact Hne.
    eexists. split; reflexivity.
  - (* HandleAdd *)
    rewrite Eq. destruct (zreq b) as [|n q] eqn:Eqb; cbn [fst snd].
    + split; [unfold erased; rewrite Eqb; tauto|exact I].
    + split; [|exact I]. unfold erased. cbn [zwheel zclock ztt znext zreq zrefer zpending].
      repeat (split; [assumption || reflexivity|]). split; [|exact Hi'].
      rewrite Ew, Et, Er, Ep, mem_unrefer.
      set (n' := if zwheel b then mkNode (nid n) (ndl n + ztt b + nper n) (nper n) else n).
      assert (Hk : keep i n' = negb (nid n =? i)) by (unfold n', keep; destruct (zwheel b); reflexivity).
      destruct (mem (nid n) (zrefer b)); cbn [andb].
      * rewrite filter_app. cbn [filter]. rewrite Hk. destruct (negb (nid n =? i)); [reflexivity|symmetry; apply app_nil_r].
      * reflexivity.
  - (* HandleDel *)
    destruct (0 <? zdels a), (0 <? zdels b); cbn [fst snd]; (split; [unfold erased; cbn; tauto|exact I]).
  - cbn [fst snd]. split; [|exact I]. unfold erased. cbn [zwheel zclock ztt znext zreq zrefer zpending]. rewrite Ec. tauto.
  - (* Tick *)
    rewrite Ew, Ec, Et, Er, Ep. destruct (zwheel b).
    + pose proof (ticks_iter_erase i (Z.to_N (zclock b - ztt b)) (ztt b, zpending b, zrefer b, [])) as H.
      unfold erase_acc at 1 in H. cbn [filter] in H. rewrite H.
      pose proof (ticks_iter_refer (Z.to_N (zclock b - ztt b)) (ztt b) (zpending b) (zrefer b) []) as [f Hf].
      destruct (N.iter (Z.to_N (zclock b - ztt b)) ticks_acc (ztt b, zpending b, zrefer b, [])) as [[[t P] r] o].
      cbn [fst snd] in Hf. subst r.
      unfold erase_acc. cbn [fst snd]. split; [|eexists _, _; split; [reflexivity|split; reflexivity]].
      unfold erased. cbn [zwheel zclock ztt znext zreq zrefer zpending].
      repeat (split; [assumption || reflexivity|]).
      apply Forall_forall. intros x Hx. apply filter_In in Hx. rewrite Forall_forall in Hle. apply Hle. tauto.
    + rewrite spec_tick_erase. pose proof (spec_tick_refer (zclock b) (zpending b) (zrefer b)) as [f Hf].
      destruct (spec_tick (zclock b) (zpending b) (zrefer b)) as [[P r] o].
      cbn [fst snd] in *. subst r. split; [|eexists _, _; split; [reflexivity|split; reflexivity]].
      unfold erased. cbn [zwheel zclock ztt znext zreq zrefer zpending].
      repeat (split; [assumption || reflexivity|]).
      apply Forall_forall. intros x Hx. apply filter_In in Hx. rewrite Forall_forall in Hle. apply Hle. tauto.
  - cbn [fst snd]. split; [unfold erased; tauto|exact I].
Qed.

Fixpoint oth_all (i : Z) (ops : list op) (xs ys : list out) : Prop :=
  match ops, xs, ys with
  | [], [], [] => True
  | o :: ops', x :: xs', y :: ys' => oth i o x y /\ oth_all i ops' xs' ys'
  | _, _, _ => False
  end.

Lemma sstep_next_le b o :
  0 <= znext b -> Forall (fun x => x <= znext b) (zrefer b) -> znext b + 1 < 2 ^ 63 ->
  znext b <= znext (fst (sstep b o)) <= znext b + 1.
Proof.
  intros H0 Hle Hroom. destruct o; cbn [sstep].
  - unfold sschedule. cbn [fst znext]. rewrite alloc_fresh by assumption. lia.
  - unfold sschedule. cbn [fst znext]. rewrite alloc_fresh by assumption. lia.
  - destruct (mem id (zrefer b)); cbn [fst znext]; lia.
  - cbn [fst]. lia.
  - cbn [fst]. lia.
  - destruct (zreq b); cbn [fst znext]; lia.
  - destruct (0 <? zdels b); cbn [fst znext]; lia.
  - cbn [fst znext]. lia.
  - destruct (zwheel b).
    + destruct (N.iter (Z.to_N (zclock b - ztt b)) ticks_acc (ztt b, zpending b, zrefer b, [])) as [[[t P] r] o]. cbn [fst znext]. lia.
    + destruct (spec_tick (zclock b) (zpending b) (zrefer b)) as [[P r] o]. cbn [fst znext]. lia.
  - cbn [fst]. lia.
Qed.

Lemma srun_erased i ops : forall a b,
  erased i a b -> znext b + Z.of_nat (length ops) < 2 ^ 63 - 1 ->
  erased i (fst (srun a ops)) (fst (srun b ops)) /\ oth_all i ops (snd (srun a ops)) (snd (srun b ops)).
Proof.
  induction ops as [|o ops IH]; intros a b He Hf; cbn [srun].
  - cbn. tauto.
  - cbn [length] in Hf. assert (Hroom : znext b + 1 < 2 ^ 63) by lia.
    destruct (sstep_erased i o a b Hroom He) as [He1 Ho].
    assert (Hn : znext b <= znext (fst (sstep b o)) <= znext b + 1).
    { destruct He as [_ [_ [_ [_ [_ [_ [_ [_ [H0 Hle]]]]]]]]]. apply sstep_next_le; assumption. }
    destruct (sstep a o) as [a1 x]. destruct (sstep b o) as [b1 y]. cbn [fst snd] in *.
    destruct (IH a1 b1 He1) as [He2 Hos]; [lia|].
    destruct (srun a1 ops) as [a2 xs]. destruct (srun b1 ops) as [b2 ys]. cbn [fst snd] in *.
    split; [exact He2|split; assumption].
Qed.

(* the same statement about the implementations' own outputs: deliveries as multisets per
   tick step (each of them is in due order by c05_*_order) *)
Definition oth_c (i : Z) (o : op) (x y : out) : Prop :=
  match o with
  | Start _ | Every _ => exists bl id, x = OId bl id /\ y = OId bl id
  | Cancel j => j <> i -> exists b1 b2 r, x = OBool b1 r /\ y = OBool b2 r
  | IsSched j => j <> i -> exists f, x = OFlag f /\ y = OFlag f
  | Tick => exists la lb, x = ODeliv la /\ y = ODeliv lb /\ Permutation la (filter (keepd i) lb)
  | _ => True
  end.

Fixpoint oth_allc (i : Z) (ops : list op) (xs ys : list out) : Prop :=
  match ops, xs, ys with
  | [], [], [] => True
  | o :: ops', x :: xs', y :: ys' => oth_c i o x y /\ oth_allc i ops' xs' ys'
  | _, _, _ => False
  end.

Lemma out_eq_id x bl id : out_eq x (OId bl id) -> x = OId bl id.
Proof. destruct x; cbn; intros H; try exact H; discriminate. Qed.
Lemma out_eq_bool x bl r : out_eq x (OBool bl r) -> x = OBool bl r.
Proof. destruct x; cbn; intros H; try exact H; discriminate. Qed.
Lemma out_eq_flag x f : out_eq x (OFlag f) -> x = OFlag f.
Proof. destruct x; cbn; intros H; try exact H; discriminate. Qed.
Lemma out_eq_deliv x l : out_eq x (ODeliv l) -> exists l', x = ODeliv l' /\ deq l' l.
Proof. destruct x; cbn; intros H; try discriminate. eexists. split; [reflexivity|exact H]. Qed.

Lemma oth_lift i o xa sa xb sb :
  out_eq xa sa -> out_eq xb sb -> oth i o sa sb -> oth_c i o xa xb.
Proof.
  intros Ha Hb Ho. destruct o; cbn [oth oth_c] in *; try exact I.
  - destruct Ho as [bl [id [-> ->]]]. apply out_eq_id in Ha, Hb. subst. eexists _, _. split; reflexivity.
  - destruct Ho as [bl [id [-> ->]]]. apply out_eq_id in Ha, Hb. subst. eexists _, _. split; reflexivity.
  - intros Hne. destruct (Ho Hne) as [b1 [b2 [r [-> ->]]]]. apply out_eq_bool in Ha, Hb. subst.
    eexists _, _, _. split; reflexivity.
  - intros Hne. destruct (Ho Hne) as [f [-> ->]]. apply out_eq_flag in Ha, Hb. subst. eexists. split; reflexivity.
  - destruct Ho as [la [lb [-> [-> E]]]]. apply out_eq_deliv in Ha, Hb.
    destruct Ha as [la' [-> [Pa _]]]. destruct Hb as [lb' [-> [Pb _]]].
    eexists _, _. split; [reflexivity|split; [reflexivity|]].
    rewrite Pa, E. apply perm_filter. apply Permutation_sym. exact Pb.
Qed.

Lemma oth_all_lift i ops : forall xa sa xb sb,
  Forall2 out_eq xa sa -> Forall2 out_eq xb sb -> oth_all i ops sa sb -> oth_allc i ops xa xb.
Proof.
  induction ops as [|o ops IH]; intros xa sa xb sb Ha Hb Ho.
  - destruct sa, sb; cbn in Ho; try contradiction. inversion Ha; inversion Hb; subst. exact I.
  - destruct sa as [|s1 sa], sb as [|s2 sb]; cbn in Ho; try contradiction.
    inversion Ha as [|x1 ? xa' ? Hx1 Hxa]; subst. inversion Hb as [|x2 ? xb' ? Hx2 Hxb]; subst.
    destruct Ho as [Ho1 Ho2]. cbn. split; [eapply oth_lift; eassumption|eapply IH; eassumption].
Qed.

(* cancelling timer i (successfully) changes nothing for the other timers: in every
   continuation both implementations hand out the same ids, give the same Cancel and
   IsScheduled answers for every other id, and each tick step delivers the same multiset
   of (id, due) pairs apart from those of i *)
Theorem others_undisturbed m i ops :
  reachable m -> fits m ops -> mem i (srefer m) = true ->
  oth_allc i ops (snd (run (fst (step m (Cancel i))) ops)) (snd (run m ops)).
Proof.
  intros Hre Hf Hin. destruct (reachable_minv m Hre) as [Hm [z Hr]].
  destruct (cancel_sim m z i Hm Hr) as [Hm1 [Hr1 _]].
  assert (Hf1 : fits (fst (step m (Cancel i))) ops).
  { unfold fits in *. cbn [step]. rewrite Hin. cbn [fst snext]. exact Hf. }
  pose proof Hr as [_ [Rr [Rn _]]].
  assert (He : erased i (fst (sstep z (Cancel i))) z).
  { cbn [sstep]. rewrite Rr, Hin. cbn [fst]. unfold erased.
    cbn [zwheel zclock ztt znext zreq zrefer zpending]. repeat (split; [reflexivity|]). rewrite Rr.
    split; [reflexivity|]. split; [reflexivity|].
    pose proof (mi_refer m Hm) as Mr. pose proof (mi_next m Hm) as Mn. rewrite Rn.
    split; [rewrite Forall_forall in Mr; apply mem_In in Hin; specialize (Mr _ Hin); lia|].
    split; [exact Mn|]. eapply Forall_impl; [|exact Mr]. cbn. intros; lia. }
  destruct (run_refines ops _ _ Hm1 Hr1 Hf1) as [_ [_ Ha]].
  destruct (run_refines ops _ _ Hm Hr Hf) as [_ [_ Hb]].
  destruct (srun_erased i ops _ _ He) as [_ Ho]; [rewrite Rn; exact Hf|].
  eapply oth_all_lift; eassumption.
Qed.
