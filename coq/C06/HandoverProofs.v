(* C06 — for EVERY interleaving of API calls with the hand-overs of a tick: once Cancel(id)
   has returned true, no hand-over of that timer follows; and without interleaving the
   phase delivers exactly what the atomic tick of C05/Model.v delivers. *)
From Coq Require Import ZArith List Bool Lia ZifyBool Permutation.
From FV Require Import C05.Model C05.Spec C05.WheelInv C05.ListFacts C05.Refine C06.HandoverModel.
Import ListNotations.
Open Scope Z_scope.

Definition pids (l : list pitem) : list Z := map (fun p => nid (pnode p)) l.

(* well-formed phase: pending nodes are distinct, a node already decided to fire is out of
   the map, no key is beyond the start counter *)
Definition hwf (s : hst) : Prop :=
  NoDup (pids (hpend s)) /\
  (forall p, In p (hpend s) -> pdecided p = true -> ~ In (nid (pnode p)) (href s)) /\
  Forall (fun x => x <= hcount s) (href s) /\ Forall (fun x => x <= hcount s) (pids (hpend s)).

(* the timer is out of the map and, if still pending, undecided *)
Definition hgone (id : Z) (s : hst) : Prop :=
  ~ In id (href s) /\ id <= hcount s /\
  (forall p, In p (hpend s) -> nid (pnode p) = id -> pdecided p = false).

Lemma in_unrefer x r id : In x (unrefer r id) <-> In x r /\ x <> id.
Proof.
  unfold unrefer. rewrite filter_In. split; intros [H1 H2]; split; try exact H1.
  - apply negb_true_iff, Z.eqb_neq in H2. exact H2.
  - apply negb_true_iff, Z.eqb_neq. exact H2.
Qed.

Lemma mstep_wf s o : hwf s -> hwf (fst (mstep s o)).
Proof.
  intros [Hnd [Hdec [Hr Hp]]]. destruct o; cbn [mstep].
  - destruct (mem id (href s)); cbn [fst]; [|repeat split; assumption].
    unfold hwf. cbn [href hpend hcount]. split; [exact Hnd|]. split; [|split; [|exact Hp]].
    + intros p Hin Hd Hi. apply in_unrefer in Hi. apply (Hdec p Hin Hd). tauto.
    + apply Forall_forall. intros x Hx. apply in_unrefer in Hx. rewrite Forall_forall in Hr. apply Hr. tauto.
  - unfold hwf. cbn [fst href hpend hcount]. split; [exact Hnd|]. split; [|split].
    + intros p Hin Hd Hi. apply in_app_iff in Hi. destruct Hi as [Hi|[Hi|[]]]; [apply (Hdec p Hin Hd Hi)|].
      rewrite Forall_forall in Hp. assert (H : In (nid (pnode p)) (pids (hpend s))) by (unfold pids; apply in_map_iff; exists p; split; [reflexivity|exact Hin]).
      specialize (Hp _ H). lia.
    + apply Forall_app. split; [eapply Forall_impl; [|exact Hr]; cbn; intros; lia|constructor; [lia|constructor]].
    + eapply Forall_impl; [|exact Hp]. cbn. intros; lia.
  - cbn [fst]. repeat split; assumption.
  - destruct (hpend s) as [|p rest] eqn:E; cbn [fst]; [unfold hwf; rewrite E; repeat split; assumption|].
    cbn [pids map] in Hnd, Hp. inversion Hnd as [|? ? Hn Hnd']; subst. inversion Hp as [|? ? _ Hp']; subst.
    assert (Hdec' : forall q, In q rest -> pdecided q = true -> ~ In (nid (pnode q)) (href s))
      by (intros q Hq; apply Hdec; right; exact Hq).
    destruct (pdecided p); [|destruct (alive (href s) (pnode p)); [destruct (periodic (pnode p))|]];
      cbn [fst]; unfold hwf; cbn [href hpend hcount]; try (split; [exact Hnd'|split; [exact Hdec'|split; assumption]]).
    split; [exact Hnd'|]. split; [|split; [|exact Hp']].
    + intros q Hq Hd Hi. apply in_unrefer in Hi. apply (Hdec' q Hq Hd). tauto.
    + apply Forall_forall. intros x Hx. apply in_unrefer in Hx. rewrite Forall_forall in Hr. apply Hr. tauto.
Qed.

Lemma mstep_gone id s o :
  hwf s -> hgone id s -> hgone id (fst (mstep s o)) /\ snd (mstep s o) <> EDeliver id.
Proof.
  intros [Hnd [Hdec [Hr Hp]]] [Hn [Hle Hu]]. destruct o; cbn [mstep].
  - destruct (mem id0 (href s)); cbn [fst snd]; (split; [|discriminate]); [|repeat split; assumption].
    split; [|split; [exact Hle|exact Hu]]. cbn [href]. intros Hi. apply in_unrefer in Hi. tauto.
  - cbn [fst snd]. split; [|discriminate]. split; [|split; [cbn; lia|exact Hu]].
    cbn [href]. intros Hi. apply in_app_iff in Hi. destruct Hi as [Hi|[Hi|[]]]; [contradiction|lia].
  - cbn [fst snd]. split; [repeat split; assumption|discriminate].
  - destruct (hpend s) as [|p rest] eqn:E; cbn [fst snd]; [split; [unfold hgone; rewrite E; repeat split; assumption|discriminate]|].
    assert (Hu' : forall q, In q rest -> nid (pnode q) = id -> pdecided q = false) by (intros q Hq; apply Hu; right; exact Hq).
    destruct (pdecided p) eqn:Ed.
    + cbn [fst snd]. split; [split; [exact Hn|split; [exact Hle|exact Hu']]|].
      intros Ee. inversion Ee as [E1]. rewrite (Hu p (or_introl eq_refl) E1) in Ed. discriminate.
    + destruct (alive (href s) (pnode p)) eqn:Ea.
      * assert (Hne : nid (pnode p) <> id).
        { intros E1. apply Hn. rewrite <- E1. apply mem_In. exact Ea. }
        destruct (periodic (pnode p)); cbn [fst snd]; (split; [|intros Ee; inversion Ee; contradiction]).
        -- split; [exact Hn|split; [exact Hle|exact Hu']].
        -- split; [|split; [exact Hle|exact Hu']]. cbn [href]. intros Hi. apply in_unrefer in Hi. tauto.
      * cbn [fst snd]. split; [split; [exact Hn|split; [exact Hle|exact Hu']]|discriminate].
Qed.

Lemma mrun_gone id ops : forall s,
  hwf s -> hgone id s -> ~ In (EDeliver id) (snd (mrun s ops)).
Proof.
  induction ops as [|o ops IH]; intros s Hw Hg; cbn [mrun]; [cbn; tauto|].
  destruct (mstep_gone id s o Hw Hg) as [Hg1 Hne]. pose proof (mstep_wf s o Hw) as Hw1.
  destruct (mstep s o) as [s1 e]. cbn [fst snd] in *. specialize (IH s1 Hw1 Hg1).
  destruct (mrun s1 ops) as [s2 es]. cbn [snd] in *. intros [H|H]; [apply Hne; exact H|apply IH; exact H].
Qed.

Lemma mrun_wf ops : forall s, hwf s -> hwf (fst (mrun s ops)).
Proof.
  induction ops as [|o ops IH]; intros s Hw; cbn [mrun]; [exact Hw|].
  pose proof (mstep_wf s o Hw) as Hw1. destruct (mstep s o) as [s1 e]. cbn [fst] in *.
  specialize (IH s1 Hw1). destruct (mrun s1 ops). exact IH.
Qed.

(* THE statement: whatever is interleaved before and after, a Cancel that returns true is
   never followed by a hand-over of that timer *)
Theorem cancel_then_no_handover s before id after :
  hwf s ->
  let s1 := fst (mrun s before) in
  snd (mstep s1 (MCancel id)) = ECancel id true ->
  ~ In (EDeliver id) (snd (mrun (fst (mstep s1 (MCancel id))) after)).
Proof.
  intros Hw s1 Hc. pose proof (mrun_wf before s Hw) as Hw1. fold s1 in Hw1.
  apply mrun_gone; [apply mstep_wf; exact Hw1|].
  cbn [mstep] in *. destruct (mem id (href s1)) eqn:Hm; [|cbn in Hc; inversion Hc].
  cbn [fst]. destruct Hw1 as [Hnd [Hdec [Hr Hp]]]. split; [|split].
  - cbn [href]. intros Hi. apply in_unrefer in Hi. tauto.
  - cbn [hcount]. apply mem_In in Hm. rewrite Forall_forall in Hr. apply Hr. exact Hm.
  - cbn [hpend]. intros p Hin E. destruct (pdecided p) eqn:Ed; [|reflexivity].
    exfalso. apply (Hdec p Hin Ed). rewrite E. apply mem_In. exact Hm.
Qed.

(* a Cancel that returns false changes nothing *)
Lemma cancel_false_nothing s id : snd (mstep s (MCancel id)) = ECancel id false -> fst (mstep s (MCancel id)) = s.
Proof. cbn [mstep]. destruct (mem id (href s)); cbn; [discriminate|reflexivity]. Qed.

(* ------------------------------------------------------------------------------------ *)
(* without interleaving the phase is the atomic expiry of C05/Model.v *)

Fixpoint delivered (es : list mevent) : list Z :=
  match es with
  | [] => []
  | EDeliver id :: r => id :: delivered r
  | _ :: r => delivered r
  end.

(* wheel: handing the detached bucket over node by node = fold of expire_one, as far as the
   refer map and the delivered ids go *)
Lemma wheel_phase bucket : forall w r o c,
  let res := fold_left expire_one bucket (w, r, o) in
  let ph := mrun (mkHst r (wheel_items bucket) c) (repeat MHandover (length bucket)) in
  href (fst ph) = snd (fst res) /\ map fst (snd res) = map fst o ++ delivered (snd ph).
Proof.
  induction bucket as [|n rest IH]; intros w r o c; cbn zeta.
  - cbn. rewrite app_nil_r. split; reflexivity.
  - cbn [fold_left length repeat wheel_items map mrun mstep hpend pnode pdecided href hcount].
    rewrite expire_one_eq. destruct (alive r n) eqn:Ea.
    + destruct (periodic n) eqn:Ep.
      * specialize (IH (add_node w (rearm (wtt w) n)) r (o ++ [deliv_of n]) c). cbn zeta in IH.
        fold (wheel_items rest).
        destruct (mrun (mkHst r (wheel_items rest) c) (repeat MHandover (length rest))) as [s2 es]. cbn [fst snd] in *.
        destruct IH as [I1 I2]. split; [exact I1|]. rewrite I2, map_app, <- app_assoc. reflexivity.
      * specialize (IH w (unrefer r (nid n)) (o ++ [deliv_of n]) c). cbn zeta in IH.
        fold (wheel_items rest).
        destruct (mrun (mkHst (unrefer r (nid n)) (wheel_items rest) c) (repeat MHandover (length rest))) as [s2 es]. cbn [fst snd] in *.
        destruct IH as [I1 I2]. split; [exact I1|]. rewrite I2, map_app, <- app_assoc. reflexivity.
    + specialize (IH w r o c). cbn zeta in IH. fold (wheel_items rest).
      destruct (mrun (mkHst r (wheel_items rest) c) (repeat MHandover (length rest))) as [s2 es]. cbn [fst snd] in *. exact IH.
Qed.

(* heap: after trigger's decisions, handing everything over without interleaving delivers
   exactly the scheduled due nodes and leaves the map as trigger left it — which is what
   the atomic htick of C05/Model.v does (C05/Refine.v ht_eq) *)
Lemma all_handed_over L : forall R c,
  (forall p, In p L -> pdecided p = true \/ (alive R (pnode p) = true /\ periodic (pnode p) = true)) ->
  href (fst (mrun (mkHst R L c) (repeat MHandover (length L)))) = R /\
  delivered (snd (mrun (mkHst R L c) (repeat MHandover (length L)))) = pids L.
Proof.
  induction L as [|p rest IH]; intros R c H; [cbn; split; reflexivity|].
  cbn [length repeat mrun mstep hpend href hcount].
  assert (Hrest : forall q, In q rest -> pdecided q = true \/ (alive R (pnode q) = true /\ periodic (pnode q) = true))
    by (intros q Hq; apply H; right; exact Hq).
  destruct (H p (or_introl eq_refl)) as [Hd|[Ha Hp]].
  - rewrite Hd. specialize (IH R c Hrest).
    destruct (mrun (mkHst R rest c) (repeat MHandover (length rest))) as [s2 es]. cbn [fst snd delivered pids map] in *.
    destruct IH as [I1 I2]. split; [exact I1|]. rewrite I2. reflexivity.
  - destruct (pdecided p); rewrite ?Ha, ?Hp; specialize (IH R c Hrest);
      destruct (mrun (mkHst R rest c) (repeat MHandover (length rest))) as [s2 es]; cbn [fst snd delivered pids map] in *;
      destruct IH as [I1 I2]; (split; [exact I1|rewrite I2; reflexivity]).
Qed.

Lemma heap_phase D r c :
  NoDup (map nid D) ->
  let L := heap_items r D in
  let ph := mrun (mkHst (heap_refer r D) L c) (repeat MHandover (length L)) in
  href (fst ph) = heap_refer r D /\ delivered (snd ph) = map nid (filter (alive r) D).
Proof.
  intros Hnd L ph.
  assert (Hpids : pids L = map nid (filter (alive r) D)).
  { unfold L, heap_items, pids. rewrite map_map. reflexivity. }
  rewrite <- Hpids. apply all_handed_over.
  intros p Hp. unfold L, heap_items in Hp. apply in_map_iff in Hp. destruct Hp as [n [<- Hn]].
  apply filter_In in Hn. destruct Hn as [Hn Ha]. cbn [pnode pdecided].
  destruct (periodic n) eqn:Ep; [right|left; reflexivity]. split; [|reflexivity].
  unfold heap_refer. rewrite unrefer_fold. unfold alive in *. rewrite mem_filter, Ha. cbn [andb].
  apply negb_true_iff. apply not_true_is_false. intros Hm. apply mem_In in Hm.
  apply in_map_iff in Hm. destruct Hm as [m [Em Hm]]. apply filter_In in Hm. destruct Hm as [Hm Hb].
  apply andb_true_iff in Hb. destruct Hb as [_ Hb]. apply negb_true_iff in Hb.
  assert (m = n) by (apply (nodup_ids_inj D); assumption). subst m. congruence.
Qed.

(* ... and these are the refer map and the deliveries of the atomic heap tick *)
Lemma heap_phase_is_htick h r now c :
  NoDup (map nid h) ->
  let D := hsort (filter (is_due now) h) in
  let L := heap_items r D in
  let ph := mrun (mkHst (heap_refer r D) L c) (repeat MHandover (length L)) in
  href (fst ph) = snd (fst (htick h r now)) /\ delivered (snd ph) = map fst (snd (htick h r now)).
Proof.
  intros Hnd D L ph.
  assert (HndD : NoDup (map nid D)).
  { eapply Permutation_NoDup; [apply Permutation_map, Permutation_sym, hsort_perm|]. apply NoDup_map_filter. exact Hnd. }
  destruct (heap_phase D r c HndD) as [H1 H2]. fold L ph in H1, H2.
  rewrite (ht_eq now r h Hnd). cbn [fst snd]. fold D. split; [exact H1|].
  rewrite H2. rewrite map_map. reflexivity.
Qed.
