(* C06 — correspondence check.  C06 shares the model, the reference specification and
   the case language of C05 (one machine: timer core + API side + worker steps); the
   histories differ (cancels, reordered worker steps, full request channels). *)
From FV Require Import Lib.Sx C05.Model C05.Spec C05.Check.

Definition check (c : sx) : verdict := check_case c.
