(* C06 — cancellation and bookkeeping: invariants of the scheduler machine (C05/Model.v)
   over every history of API calls and worker steps, both implementations. *)
From Coq Require Import ZArith List Bool Lia ZifyBool Permutation Sorted.
From FV Require Import Generated.Consts C05.Model C05.Spec C05.WheelInv C05.ListFacts C05.Refine
  C05.Machine C05.SpecFacts.
Import ListNotations.
Open Scope Z_scope.

(* reachable states, by their invariant: the machine invariant of C05/Machine.v holds and
   the state is related to a state of the specification.  Every state reached from a
   fresh wheel (at any position) or a fresh heap by a history that does not exhaust the
   63-bit id counter is such a state (reachable_from_wheel / reachable_from_heap), and
   the set is closed under further histories that fit the counter (reachable_run). *)
Definition reachable (m : st) : Prop := minv m /\ exists z, rel m z.

Lemma reachable_minv m : reachable m -> minv m /\ exists z, rel m z.
Proof. intros H. exact H. Qed.

Lemma reachable_run m ops : reachable m -> fits m ops -> reachable (fst (run m ops)).
Proof.
  intros [Hm [z Hr]] Hf. destruct (run_refines ops m z Hm Hr Hf) as [Hm1 [Hr1 _]].
  split; [exact Hm1|eexists; exact Hr1].
Qed.

Lemma reachable_from_wheel cur tt ops : 0 <= cur -> short ops -> reachable (fst (run (init_wheel cur tt) ops)).
Proof.
  intros Hc Hs. apply reachable_run; [split; [apply minv_init_wheel; exact Hc|eexists; apply rel_init_wheel]|].
  unfold short, fits in *. cbn. lia.
Qed.

Lemma reachable_from_heap now ops : short ops -> reachable (fst (run (init_heap now) ops)).
Proof.
  intros Hs. apply reachable_run; [split; [apply minv_init_heap|eexists; apply rel_init_heap]|].
  unfold short, fits in *. cbn. lia.
Qed.

Lemma run_app m ops1 ops2 :
  run m (ops1 ++ ops2) =
  (fst (run (fst (run m ops1)) ops2), snd (run m ops1) ++ snd (run (fst (run m ops1)) ops2)).
Proof.
  revert m. induction ops1 as [|o ops1 IH]; intros m; cbn [run app].
  - cbn. destruct (run m ops2); reflexivity.
  - destruct (step m o) as [m1 x]. rewrite IH. destruct (run m1 ops1) as [m2 xs]. cbn [fst snd].
    destruct (run m2 ops2); reflexivity.
Qed.

(* ------------------------------------------------------------------------------------ *)
(* what a tick delivers is scheduled *)

Lemma ticks_iter_ids k : forall t P r (o : list deliv),
  (forall x : deliv, In x o -> In (fst x) (map nid P)) ->
  incl (map nid (snd (fst (fst (N.iter k ticks_acc (t, P, r, o)))))) (map nid P) /\
  (forall x, In x (snd (N.iter k ticks_acc (t, P, r, o))) -> In (fst x) (map nid P)).
Proof.
  induction k as [|k IH] using N.peano_ind; intros t P r o Ho.
  - cbn. split; [apply incl_refl|exact Ho].
  - rewrite N.iter_succ. specialize (IH t P r o Ho).
    destruct (N.iter k ticks_acc (t, P, r, o)) as [[[t1 P1] r1] o1]. cbn [fst snd] in IH. destruct IH as [Hs Ho1].
    unfold ticks_acc.
    pose proof (spec_tick_pending (t1 + 1) P1 r1) as Hp. pose proof (spec_tick_out (t1 + 1) P1 r1) as Hout.
    destruct (spec_tick (t1 + 1) P1 r1) as [[P2 r2] o2]. cbn [fst snd] in *. split.
    + intros x Hx. apply in_map_iff in Hx. destruct Hx as [m [<- Hm]]. apply Hp in Hm.
      destruct Hm as [[Hm _]|[n [Hn [_ [_ ->]]]]]; apply Hs; [apply in_map; exact Hm|].
      cbn. apply in_map_iff. exists n. tauto.
    + intros x Hx. apply in_app_iff in Hx. destruct Hx as [Hx|Hx]; [apply Ho1; exact Hx|].
      apply Hout in Hx. destruct Hx as [n [Hn [_ ->]]]. apply Hs. cbn. apply in_map. exact Hn.
Qed.

Lemma spec_tick_deliv_sched z l :
  (forall n, In n (zpending z) -> In (nid n) (zrefer z)) ->
  snd (sstep z Tick) = ODeliv l -> forall x, In x l -> In (fst x) (zrefer z).
Proof.
  intros Hsub. cbn [sstep]. destruct (zwheel z).
  - pose proof (ticks_iter_ids (Z.to_N (zclock z - ztt z)) (ztt z) (zpending z) (zrefer z) [] ltac:(intros x [])) as H.
    destruct (N.iter (Z.to_N (zclock z - ztt z)) ticks_acc (ztt z, zpending z, zrefer z, [])) as [[[t P] r] o].
    cbn [fst snd] in *. intros E x Hx. inversion E; subst l. destruct H as [_ H]. specialize (H x Hx).
    apply in_map_iff in H. destruct H as [n [<- Hn]]. apply Hsub. exact Hn.
  - pose proof (spec_tick_out (zclock z) (zpending z) (zrefer z)) as Hout.
    destruct (spec_tick (zclock z) (zpending z) (zrefer z)) as [[P r] o]. cbn [snd] in *.
    intros E x Hx. inversion E; subst l. apply Hout in Hx. destruct Hx as [n [Hn [_ ->]]]. cbn. apply Hsub. exact Hn.
Qed.

Lemma tick_deliv_sched m l :
  reachable m -> snd (step m Tick) = ODeliv l -> forall x, In x l -> In (fst x) (srefer m).
Proof.
  intros Hre E x Hx. destruct (reachable_minv m Hre) as [Hm [z Hr]].
  destruct (tick_sim m z Hm Hr) as [_ [_ Ho]]. rewrite E in Ho.
  destruct (snd (sstep z Tick)) as [| | | |l'| |] eqn:Ez; cbn in Ho; try discriminate.
  destruct Ho as [Hperm _]. destruct Hr as [_ [Rr [_ [_ [_ [Rp _]]]]]]. rewrite <- Rr.
  apply (spec_tick_deliv_sched z l'); [|exact Ez|eapply Permutation_in; eassumption].
  intros n Hn. apply (Permutation_in _ Rp) in Hn. apply filter_In in Hn. destruct Hn as [_ Ha].
  rewrite Rr. apply mem_In. exact Ha.
Qed.

(* ------------------------------------------------------------------------------------ *)
(* Cancel *)

Lemma cancel_result m id :
  snd (step m (Cancel id)) =
  OBool (if mem id (srefer m) then sched_PendingQueueCapacity <=? Z.of_nat (length (spdel m)) else false)
        (mem id (srefer m)).
Proof. cbn [step]. destruct (mem id (srefer m)); reflexivity. Qed.

Lemma cancel_false_inert m id : mem id (srefer m) = false -> step m (Cancel id) = (m, OBool false false).
Proof. intros H. cbn [step]. rewrite H. reflexivity. Qed.

(* a cancelled (or otherwise unscheduled) id stays unscheduled: ids are never handed out twice *)
Definition gone (id : Z) (m : st) : Prop := ~ In id (srefer m) /\ id <= snext m.

Lemma step_refer_sub m o x :
  minv m -> snext m + 1 < 2 ^ 63 -> In x (srefer (fst (step m o))) -> In x (srefer m) \/ x = snext m + 1.
Proof.
  intros Hm Hroom. pose proof (next_id_eq m Hm Hroom) as Hid. destruct o; cbn [step].
  - unfold schedule. cbn [fst srefer]. rewrite Hid, in_app_iff. cbn. intros [H|[H|[]]]; [left; exact H|right; symmetry; exact H].
  - unfold schedule. cbn [fst srefer]. rewrite Hid, in_app_iff. cbn. intros [H|[H|[]]]; [left; exact H|right; symmetry; exact H].
  - destruct (mem id (srefer m)); cbn [fst srefer]; [|tauto]. unfold unrefer. rewrite filter_In. tauto.
  - cbn. tauto.
  - cbn. tauto.
  - destruct (spadd m); cbn; tauto.
  - destruct (spdel m); cbn; tauto.
  - cbn. tauto.
  - intros Hx. left. revert Hx. unfold core_tick. pose proof (mi_core m Hm) as Hcore.
    destruct (score m) as [w|h] eqn:Ec.
    + unfold wupdate.
      assert (G : forall k w r o, let '(w', r', o') := N.iter k wtick_acc (w, r, o) in winv w -> incl r' r).
      { clear. induction k as [|k IH] using N.peano_ind; intros w r o.
        - cbn. intros _. apply incl_refl.
        - rewrite N.iter_succ. specialize (IH w r o). destruct (N.iter k wtick_acc (w, r, o)) as [[w1 r1] o1] eqn:E1.
          unfold wtick_acc. destruct (wtick w1 r1) as [[w2 r2] o2] eqn:E2. intros Hi.
          destruct (wtick_acc_ids k _ _ _ _ _ _ Hi E1) as [Hi1 _].
          destruct (wtick_spec w1 r1 Hi1) as [w3 [N3 [E3 _]]]. cbn zeta in E3. rewrite E2 in E3. inversion E3; subst.
          eapply incl_tran; [|apply IH; exact Hi].
          unfold phase. cbn [fst snd]. rewrite !unrefer_fold. intros y Hy.
          apply filter_In in Hy. destruct Hy as [Hy _]. apply filter_In in Hy. tauto. }
      specialize (G (Z.to_N (sclock m - wtt w)) w (srefer m) []).
      destruct (N.iter (Z.to_N (sclock m - wtt w)) wtick_acc (w, srefer m, [])) as [[w' r'] o'].
      cbn [fst srefer]. apply G. exact Hcore.
    + unfold htick. set (due := hsort _). set (rest := filter _ h).
      assert (G : forall D h0 r o, incl (snd (fst (fold_left (hexpire_one (sclock m)) D (h0, r, o)))) r).
      { clear. induction D as [|n D IH]; intros h0 r o; cbn [fold_left]; [cbn; apply incl_refl|].
        rewrite hexpire_one_eq. destruct (alive r n); [destruct (periodic n)|]; try apply IH.
        eapply incl_tran; [apply IH|]. unfold unrefer. intros y Hy. apply filter_In in Hy. tauto. }
      specialize (G due rest (srefer m) []).
      destruct (fold_left (hexpire_one (sclock m)) due (rest, srefer m, [])) as [[h' r'] o'].
      cbn [fst snd srefer] in *. apply G.
  - cbn. tauto.
Qed.

Lemma gone_step id m o : minv m -> snext m + 1 < 2 ^ 63 -> gone id m -> gone id (fst (step m o)).
Proof.
  intros Hm Hroom [Hn Hle]. split.
  - intros Hin. apply (step_refer_sub m o id Hm Hroom) in Hin. destruct Hin; [contradiction|lia].
  - pose proof (step_next_le m o Hm Hroom). lia.
Qed.

Lemma minv_step m o : reachable m -> snext m + 1 < 2 ^ 63 -> reachable (fst (step m o)).
Proof.
  intros [Hm [z Hr]] Hroom. destruct (step_sim m z o Hm Hr Hroom) as [Hm1 [Hr1 _]].
  split; [exact Hm1|eexists; exact Hr1].
Qed.

(* after the id is gone: never delivered, never reported, never counted, in any continuation *)
Lemma gone_forever id ops : forall m,
  reachable m -> fits m ops -> gone id m ->
  gone id (fst (run m ops)) /\
  (forall l, In (ODeliv l) (snd (run m ops)) -> ~ In id (map fst l)).
Proof.
  induction ops as [|o ops IH]; intros m Hre Hf Hg; cbn [run].
  - cbn. split; [exact Hg|tauto].
  - destruct (reachable_minv m Hre) as [Hm _].
    unfold fits in Hf. cbn [length] in Hf. assert (Hroom : snext m + 1 < 2 ^ 63) by lia.
    pose proof (gone_step id m o Hm Hroom Hg) as Hg1. pose proof (minv_step m o Hre Hroom) as Hre1.
    pose proof (tick_deliv_sched m) as Hd. pose proof (step_next_le m o Hm Hroom) as Hnx.
    destruct (step m o) as [m1 x] eqn:E. cbn [fst] in *.
    destruct (IH m1 Hre1) as [Hg2 Hout]; [unfold fits; lia|exact Hg1|]. destruct (run m1 ops) as [m2 xs]. cbn [fst snd] in *.
    split; [exact Hg2|]. intros l [Hl|Hl]; [|apply Hout; exact Hl].
    subst x. intros Hin. apply in_map_iff in Hin. destruct Hin as [y [Ey Hy]].
    destruct o; cbn [step] in E; try (inversion E; fail);
      try (unfold schedule in E; inversion E; fail).
    + destruct (mem id0 (srefer m)); inversion E.
    + destruct (spadd m); inversion E.
    + destruct (spdel m); inversion E.
    + assert (Hs : snd (step m Tick) = ODeliv l) by (cbn [step]; rewrite E; reflexivity).
      specialize (Hd l Hre Hs y Hy). rewrite Ey in Hd. destruct Hg as [Hn _]. contradiction.
Qed.

(* ------------------------------------------------------------------------------------ *)
(* ids, crash conditions, enabledness *)

Lemma start_fresh m d :
  reachable m -> snext m + 1 < 2 ^ 63 ->
  exists b id, snd (step m (Start d)) = OId b id /\ id = snext m + 1 /\
               ~ In id (srefer m) /\ ~ In id (all_ids m) /\ ~ In id (spdel m) /\
               NoDup (srefer (fst (step m (Start d)))).
Proof.
  intros Hre Hroom. destruct (reachable_minv m Hre) as [Hm _]. pose proof (next_id_eq m Hm Hroom) as Hid.
  pose proof (minv_step m (Start d) Hre Hroom) as Hre1. destruct (reachable_minv _ Hre1) as [Hm1 _].
  cbn [step] in *. unfold schedule in *. cbn [fst snd] in *. rewrite Hid in *.
  eexists _, _. split; [reflexivity|]. split; [reflexivity|].
  destruct Hm as [Mn Mr Mrn Mi Ml Mp Mc Mq].
  split; [|split; [|split]].
  - intros Hi. rewrite Forall_forall in Mr. specialize (Mr _ Hi). lia.
  - intros Hi. rewrite Forall_forall in Ml. specialize (Ml _ Hi). lia.
  - intros Hi. rewrite Forall_forall in Mp. specialize (Mp _ Hi). lia.
  - exact (mi_refer_nd _ Hm1).
Qed.

Lemma every_fresh m p :
  reachable m -> snext m + 1 < 2 ^ 63 ->
  exists b id, snd (step m (Every p)) = OId b id /\ id = snext m + 1 /\
               ~ In id (srefer m) /\ ~ In id (all_ids m) /\ ~ In id (spdel m) /\
               NoDup (srefer (fst (step m (Every p)))).
Proof.
  intros Hre Hroom. destruct (reachable_minv m Hre) as [Hm _]. pose proof (next_id_eq m Hm Hroom) as Hid.
  pose proof (minv_step m (Every p) Hre Hroom) as Hre1. destruct (reachable_minv _ Hre1) as [Hm1 _].
  cbn [step] in *. unfold schedule in *. cbn [fst snd] in *. rewrite Hid in *.
  eexists _, _. split; [reflexivity|]. split; [reflexivity|].
  destruct Hm as [Mn Mr Mrn Mi Ml Mp Mc Mq].
  split; [|split; [|split]].
  - intros Hi. rewrite Forall_forall in Mr. specialize (Mr _ Hi). lia.
  - intros Hi. rewrite Forall_forall in Ml. specialize (Ml _ Hi). lia.
  - intros Hi. rewrite Forall_forall in Mp. specialize (Mp _ Hi). lia.
  - exact (mi_refer_nd _ Hm1).
Qed.

(* the panic conditions of the code cannot arise: the worker never links a node that is
   linked already (bucket.addNode panics on node.bucket != nil; heap.Push of a node in the
   heap would corrupt the index bookkeeping), no two nodes of the structure share an id,
   and a node is unlinked only through the structure it is in (the model's filter) *)
Lemma no_double_link m n q :
  reachable m -> spadd m = n :: q ->
  ~ In (nid n) (map nid (core_content (score m))) /\ ~ In (nid n) (map nid q) /\
  NoDup (map nid (core_content (score m))).
Proof.
  intros Hre Eq. destruct (reachable_minv m Hre) as [Hm _]. pose proof (mi_ids m Hm) as Hi.
  unfold all_ids in Hi. rewrite Eq in Hi. cbn [map app] in Hi. inversion Hi as [|? ? Hn Hd]; subst.
  split; [intros H; apply Hn; apply in_app_iff; right; exact H|].
  split; [intros H; apply Hn; apply in_app_iff; left; exact H|].
  apply nodup_app_elim in Hd. tauto.
Qed.

(* whenever a request is pending the worker's arm for it is enabled, and the ticker arm
   is always enabled; no step of the model waits for another one *)
Lemma worker_enabled m :
  (spadd m <> [] -> snd (step m HandleAdd) = OFlag true) /\
  (spdel m <> [] -> snd (step m HandleDel) = OFlag true) /\
  (exists l, snd (step m Tick) = ODeliv l).
Proof.
  split; [|split].
  - intros H. cbn [step]. destruct (spadd m); [contradiction|reflexivity].
  - intros H. cbn [step]. destruct (spdel m); [contradiction|reflexivity].
  - cbn [step]. destruct (core_tick (score m) (srefer m) (sclock m)) as [[c r] o]. eexists. reflexivity.
Qed.

(* requests are consumed one per worker step: n pending requests are gone after n steps *)
Lemma handle_add_progress m : length (spadd (fst (step m HandleAdd))) = pred (length (spadd m)).
Proof. cbn [step]. destruct (spadd m) eqn:E; cbn [fst spadd]; [rewrite E|]; reflexivity. Qed.

Lemma handle_del_progress m : length (spdel (fst (step m HandleDel))) = pred (length (spdel m)).
Proof. cbn [step]. destruct (spdel m) eqn:E; cbn [fst spdel]; [rewrite E|]; reflexivity. Qed.

(* Size counts distinct scheduled ids *)
Lemma size_counts m : reachable m ->
  snd (step m Size) = ONum (Z.of_nat (length (srefer m))) /\ NoDup (srefer m) /\
  (forall id, snd (step m (IsSched id)) = OFlag true <-> In id (srefer m)).
Proof.
  intros Hre. destruct (reachable_minv m Hre) as [Hm _]. split; [reflexivity|]. split; [exact (mi_refer_nd m Hm)|].
  intros id. cbn [step snd]. split.
  - intros H. inversion H as [H1]. apply mem_In. exact H1.
  - intros H. apply mem_In in H. rewrite H. reflexivity.
Qed.

(* Cancel: true exactly for a scheduled id, and then the id is gone for good *)
Lemma cancel_true_gone m id :
  reachable m -> mem id (srefer m) = true -> gone id (fst (step m (Cancel id))).
Proof.
  intros Hre Hin. destruct (reachable_minv m Hre) as [Hm _]. cbn [step]. rewrite Hin. cbn [fst]. split.
  - cbn [srefer]. unfold unrefer. rewrite filter_In, Z.eqb_refl. cbn. intros [_ H]. discriminate.
  - cbn [snext]. apply mem_In in Hin. pose proof (mi_refer m Hm) as Mr. rewrite Forall_forall in Mr.
    specialize (Mr _ Hin). lia.
Qed.

Lemma reachable_cancel m id : reachable m -> reachable (fst (step m (Cancel id))).
Proof.
  intros [Hm [z Hr]]. destruct (cancel_sim m z id Hm Hr) as [Hm1 [Hr1 _]]. split; [exact Hm1|eexists; exact Hr1].
Qed.

Lemma cancel_final m id ops :
  reachable m -> fits m ops -> mem id (srefer m) = true ->
  let m1 := fst (step m (Cancel id)) in
  (forall l, In (ODeliv l) (snd (run m1 ops)) -> ~ In id (map fst l)) /\
  ~ In id (srefer (fst (run m1 ops))) /\
  snd (step (fst (run m1 ops)) (IsSched id)) = OFlag false /\
  snd (step (fst (run m1 ops)) (Cancel id)) = OBool false false.
Proof.
  intros Hre Hf Hin m1. pose proof (cancel_true_gone m id Hre Hin) as Hg.
  pose proof (reachable_cancel m id Hre) as Hre1. fold m1 in Hg, Hre1.
  assert (Hf1 : fits m1 ops).
  { unfold fits, m1 in *. cbn [step]. rewrite Hin. cbn [fst snext]. exact Hf. }
  destruct (gone_forever id ops m1 Hre1 Hf1 Hg) as [[Hn _] Hout].
  assert (Hmem : mem id (srefer (fst (run m1 ops))) = false).
  { apply not_true_is_false. intros H. apply Hn. apply mem_In. exact H. }
  split; [exact Hout|]. split; [exact Hn|]. split.
  - cbn [step snd]. rewrite Hmem. reflexivity.
  - rewrite cancel_false_inert by exact Hmem. reflexivity.
Qed.

Lemma cancel_iff_sched m id :
  reachable m ->
  (exists b, snd (step m (Cancel id)) = OBool b true) <-> snd (step m (IsSched id)) = OFlag true.
Proof.
  intros _. rewrite cancel_result. cbn [step snd]. destruct (mem id (srefer m)); split.
  - reflexivity.
  - intros _. eexists. reflexivity.
  - intros [b H]. discriminate.
  - intros H. discriminate.
Qed.

Lemma requests_consumed m :
  length (spadd (fst (step m HandleAdd))) = pred (length (spadd m)) /\
  length (spdel (fst (step m HandleDel))) = pred (length (spdel m)).
Proof. split; [apply handle_add_progress|apply handle_del_progress]. Qed.

(* ------------------------------------------------------------------------------------ *)
(* id allocation including the wrap of the 63-bit counter: whatever the counter and the
   map hold, the id handed out is positive and not in use — unless all 10^4 candidates
   nextID() probes are in use (it then gives up and returns a used id) *)

Definition norm_id (c : Z) : Z := if c <=? 0 then 1 else c.

Fixpoint exhausted (fuel : nat) (c : Z) (refer : list Z) : Prop :=
  match fuel with
  | O => True
  | S f => mem (norm_id c) refer = true /\ exhausted f (wrap64 (norm_id c + 1)) refer
  end.

Lemma next_id_loop_spec fuel : forall c refer,
  (0 < next_id_loop fuel c refer /\ mem (next_id_loop fuel c refer) refer = false) \/ exhausted fuel c refer.
Proof.
  induction fuel as [|f IH]; intros c refer; [right; exact I|].
  cbn [next_id_loop exhausted]. fold (norm_id c).
  destruct (mem (norm_id c) refer) eqn:E.
  - destruct (IH (wrap64 (norm_id c + 1)) refer) as [H|H]; [left; exact H|right; split; [reflexivity|exact H]].
  - left. split; [unfold norm_id; destruct (Z.leb_spec c 0); lia|exact E].
Qed.

(* pigeonhole: the candidates nextID() probes are consecutive ids (wrapping from MaxInt64
   to 1), len(refer)+1 of them are pairwise distinct, so they cannot all be in the map *)
Definition maxid : Z := 2 ^ 63 - 1.
Definition cand (c0 : Z) (k : Z) : Z := (c0 - 1 + k) mod maxid + 1.

Lemma norm_range c : c <= maxid -> 1 <= norm_id c <= maxid.
Proof. unfold norm_id, maxid. intros H. destruct (Z.leb_spec c 0); lia. Qed.

Lemma step_cand c : 1 <= c <= maxid -> norm_id (wrap64 (c + 1)) = cand c 1 /\ wrap64 (c + 1) <= maxid.
Proof.
  unfold norm_id, wrap64, cand, maxid. intros H.
  destruct (Z.leb_spec (2 ^ 63) (c + 1)) as [H1|H1].
  - assert (c = 2 ^ 63 - 1) by lia. subst c. split; [vm_compute; reflexivity|vm_compute; discriminate].
  - destruct (Z.leb_spec (c + 1) 0); [lia|]. split; [|lia].
    replace (c - 1 + 1) with c by lia. rewrite Z.mod_small by lia. reflexivity.
Qed.

Lemma cand_0 c : 1 <= c <= maxid -> cand c 0 = c.
Proof. unfold cand, maxid. intros H. replace (c - 1 + 0) with (c - 1) by lia. rewrite Z.mod_small by lia. lia. Qed.

Lemma cand_succ c k : 1 <= c <= maxid -> 0 <= k -> cand (cand c 1) k = cand c (k + 1).
Proof.
  unfold cand, maxid. intros H Hk.
  replace ((c - 1 + 1) mod (2 ^ 63 - 1) + 1 - 1 + k) with ((c - 1 + 1) mod (2 ^ 63 - 1) + k) by lia.
  rewrite Z.add_mod_idemp_l by lia. f_equal. f_equal. lia.
Qed.

Lemma cand_range c k : 1 <= cand c k <= maxid.
Proof. unfold cand, maxid. pose proof (Z.mod_pos_bound (c - 1 + k) (2 ^ 63 - 1) ltac:(lia)). lia. Qed.

Lemma cand_inj c i j : 0 <= i < maxid -> 0 <= j < maxid -> cand c i = cand c j -> i = j.
Proof.
  unfold cand, maxid. intros Hi Hj E.
  assert (E' : (c - 1 + i) mod (2 ^ 63 - 1) = (c - 1 + j) mod (2 ^ 63 - 1)) by lia.
  pose proof (Z.div_mod (c - 1 + i) (2 ^ 63 - 1) ltac:(lia)) as D1.
  pose proof (Z.div_mod (c - 1 + j) (2 ^ 63 - 1) ltac:(lia)) as D2.
  pose proof (Z.mod_pos_bound (c - 1 + i) (2 ^ 63 - 1) ltac:(lia)).
  pose proof (Z.mod_pos_bound (c - 1 + j) (2 ^ 63 - 1) ltac:(lia)).
  rewrite E' in D1.
  assert ((c - 1 + i) / (2 ^ 63 - 1) = (c - 1 + j) / (2 ^ 63 - 1)) by nia. lia.
Qed.

Lemma exhausted_in fuel : forall c refer,
  c <= maxid -> exhausted fuel c refer ->
  forall k, (k < fuel)%nat -> In (cand (norm_id c) (Z.of_nat k)) refer.
Proof.
  induction fuel as [|f IH]; intros c refer Hc Hex k Hk; [lia|].
  cbn [exhausted] in Hex. destruct Hex as [Hm Hex]. pose proof (norm_range c Hc) as Hr.
  destruct (step_cand (norm_id c) Hr) as [Es Hle].
  destruct k as [|k].
  - cbn [Z.of_nat]. rewrite cand_0 by exact Hr. apply mem_In. exact Hm.
  - specialize (IH (wrap64 (norm_id c + 1)) refer Hle Hex k ltac:(lia)).
    rewrite Es in IH. rewrite cand_succ in IH by lia.
    replace (Z.of_nat (S k)) with (Z.of_nat k + 1) by lia. exact IH.
Qed.

Lemma nodup_map_seq (f : nat -> Z) n :
  (forall i j, (i < n)%nat -> (j < n)%nat -> f i = f j -> i = j) -> NoDup (map f (seq 0 n)).
Proof.
  induction n as [|n IH]; intros H; [constructor|].
  rewrite seq_S, map_app. cbn [map Nat.add]. apply nodup_app_intro.
  - apply IH. intros i j Hi Hj. apply H; lia.
  - constructor; [intros []|constructor].
  - intros x Hx [<-|[]]. apply in_map_iff in Hx. destruct Hx as [i [Ei Hi]]. apply in_seq in Hi.
    assert (i = n) by (apply H; [lia|lia|exact Ei]). lia.
Qed.

Lemma not_exhausted c refer :
  c <= maxid -> Z.of_nat (length refer) < maxid -> ~ exhausted (S (length refer)) c refer.
Proof.
  intros Hc Hlen Hex.
  pose proof (exhausted_in (S (length refer)) c refer Hc Hex) as Hin.
  set (f := fun k : nat => cand (norm_id c) (Z.of_nat k)).
  assert (Hnd : NoDup (map f (seq 0 (S (length refer))))).
  { apply nodup_map_seq. intros i j Hi Hj E. unfold f in E. apply cand_inj in E; lia. }
  assert (Hincl : incl (map f (seq 0 (S (length refer)))) refer).
  { intros x Hx. apply in_map_iff in Hx. destruct Hx as [k [<- Hk]]. apply in_seq in Hk. apply Hin. lia. }
  pose proof (NoDup_incl_length Hnd Hincl) as Hl. rewrite map_length, seq_length in Hl. lia.
Qed.

Lemma wrap64_le z : z <= 2 ^ 63 -> wrap64 z <= maxid.
Proof. unfold wrap64, maxid. intros H. destruct (Z.leb_spec (2 ^ 63) z); lia. Qed.

(* the id handed out is positive and not in use: with the counter anywhere in the range of
   a Go int, whatever the map holds (fewer than 2^63-1 timers) *)
Lemma alloc_unique next refer :
  next < 2 ^ 63 -> Z.of_nat (length refer) < maxid ->
  0 < alloc_id next refer /\ ~ In (alloc_id next refer) refer.
Proof.
  intros Hn Hlen. unfold alloc_id.
  destruct (next_id_loop_spec (S (length refer)) (wrap64 (next + 1)) refer) as [[H1 H2]|H].
  - split; [exact H1|]. intros Hin. apply mem_In in Hin. congruence.
  - exfalso. apply (not_exhausted (wrap64 (next + 1)) refer); [apply wrap64_le; lia|exact Hlen|exact H].
Qed.

(* the step itself: a start at ANY counter value, in any state *)
Lemma start_unique_wrap m d :
  snext m < 2 ^ 63 -> Z.of_nat (length (srefer m)) < maxid ->
  exists b id, snd (step m (Start d)) = OId b id /\ 0 < id /\ ~ In id (srefer m).
Proof.
  intros Hn Hl. destruct (alloc_unique (snext m) (srefer m) Hn Hl) as [H1 H2].
  cbn [step]. unfold schedule. cbn [snd]. eexists _, _. split; [reflexivity|]. split; [exact H1|exact H2].
Qed.

Lemma every_unique_wrap m p :
  snext m < 2 ^ 63 -> Z.of_nat (length (srefer m)) < maxid ->
  exists b id, snd (step m (Every p)) = OId b id /\ 0 < id /\ ~ In id (srefer m).
Proof.
  intros Hn Hl. destruct (alloc_unique (snext m) (srefer m) Hn Hl) as [H1 H2].
  cbn [step]. unfold schedule. cbn [snd]. eexists _, _. split; [reflexivity|]. split; [exact H1|exact H2].
Qed.

(* the counter at the top of its range with ids 1 and 3 pending: the next three starts get
   MaxInt64, then 2 (the wrap skips 1), then 4 (3 is skipped) *)
Example alloc_wrap_example :
  alloc_id (2 ^ 63 - 2) [1; 3] = 2 ^ 63 - 1 /\
  alloc_id (2 ^ 63 - 1) [1; 3; 2 ^ 63 - 1] = 2 /\
  alloc_id 2 [1; 3; 2 ^ 63 - 1; 2] = 4.
Proof. vm_compute. repeat split; reflexivity. Qed.

Lemma reachable_fresh ops :
  short ops ->
  (forall cur tt, 0 <= cur -> reachable (fst (run (init_wheel cur tt) ops))) /\
  (forall now, reachable (fst (run (init_heap now) ops))).
Proof.
  intros Hs. split; [intros cur tt Hc; apply reachable_from_wheel; assumption|intros now; apply reachable_from_heap; exact Hs].
Qed.
