(* C06 — the hand-over phase of a tick at the grain at which Cancel can interleave.
   Executable model; nothing is proved here.

   Inside one tick the worker hands the expired timers over to Chan() one by one, and each
   hand-over may have to wait for the consumer; meanwhile API calls run.  What the code
   does per node (after fix 17b1e8a):
   - heap (timerqueue.go tick/trigger/deliverRepeating): trigger decides for ALL due nodes
     first, under the mutex: a one-shot node leaves the refer map there ([pdecided] = true:
     it will be handed over whatever happens), a repeating node stays in the map; the
     hand-over of a repeating node re-checks the map and sends in one step under the mutex;
   - wheel (hhwheel_timer.go expireNear/deliverRepeating): the detached bucket is walked
     node by node; the decision for a node is taken at its turn ([pdecided] = false for all)
     and a one-shot node leaves the map at that moment, just before its (blocking) send; a
     repeating node is re-checked and sent in one step.
   [MHandover] is that one step; any list of [mop] is an interleaving. *)
From Coq Require Import ZArith List Bool.
From FV Require Import C05.Model C05.Spec.
Import ListNotations.
Open Scope Z_scope.

Record pitem := mkP { pnode : node; pdecided : bool }.

Record hst := mkHst {
  href : list Z;          (* the refer map: keys of the scheduled nodes *)
  hpend : list pitem;     (* expired nodes of this tick not yet handed over, in order *)
  hcount : Z              (* start calls so far (node keys are never reused) *)
}.

Inductive mop :=
| MCancel (id : Z)        (* Cancel(id): true iff the id is in the map; removes it *)
| MStart                  (* RunAfter / RunEvery: a new node enters the map *)
| MQuery (id : Z)         (* IsScheduled(id) *)
| MHandover.              (* the worker hands the next expired node over, or drops it *)

Inductive mevent :=
| ECancel (id : Z) (result : bool)
| EStart (id : Z)
| EQuery (id : Z) (result : bool)
| EDeliver (id : Z)       (* the node's runnable was sent on Chan() *)
| EDrop (id : Z)          (* cancelled while waiting: dropped silently *)
| EIdle.

Definition mstep (s : hst) (o : mop) : hst * mevent :=
  match o with
  | MCancel id =>
      if mem id (href s) then (mkHst (unrefer (href s) id) (hpend s) (hcount s), ECancel id true)
      else (s, ECancel id false)
  | MStart =>
      let id := hcount s + 1 in
      (mkHst (href s ++ [id]) (hpend s) id, EStart id)
  | MQuery id => (s, EQuery id (mem id (href s)))
  | MHandover =>
      match hpend s with
      | [] => (s, EIdle)
      | p :: rest =>
          let n := pnode p in
          if pdecided p then (mkHst (href s) rest (hcount s), EDeliver (nid n))
          else if alive (href s) n then
            if periodic n then (mkHst (href s) rest (hcount s), EDeliver (nid n))
            else (mkHst (unrefer (href s) (nid n)) rest (hcount s), EDeliver (nid n))
          else (mkHst (href s) rest (hcount s), EDrop (nid n))
      end
  end.

Fixpoint mrun (s : hst) (ops : list mop) : hst * list mevent :=
  match ops with
  | [] => (s, [])
  | o :: r => let '(s1, e) := mstep s o in let '(s2, es) := mrun s1 r in (s2, e :: es)
  end.

(* what the two implementations put into the phase *)
Definition wheel_items (bucket : list node) : list pitem := map (fun n => mkP n false) bucket.

Definition heap_items (refer : list Z) (due : list node) : list pitem :=
  map (fun n => mkP n (negb (periodic n))) (filter (alive refer) due).
Definition heap_refer (refer : list Z) (due : list node) : list Z :=
  fold_left unrefer (map nid (filter (fun n => alive refer n && negb (periodic n)) due)) refer.
