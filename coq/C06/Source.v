(* C06 / C05 — the timer heap's array code, regenerated from the source by tools/gofunc
   (Generated/TimerHeap.v): timerHeap.Len / Less / Swap from sched/timerqueue.go and, from the
   Go standard library itself (GOROOT/src/container/heap/heap.go), up, down, Fix and the heads
   of Remove and Pop, translated with their heap.Interface parameter standing for a timerHeap
   ("container/heap:up@timerHeap": h.Less / h.Swap are timerHeap's methods).
   The slice of node pointers is one list per field (id, index, deadline, period) - `cols l`
   below for an array l of the model - the nodes being distinct and non-nil.

   On every array (no heap order is assumed) of fewer than 2^61 nodes the translated code
   computes exactly what the model of C05/HeapArr.v computes - hlt, hswap, up, down, heap_fix
   and the sift parts of heap_pop / heap_remove, on which the C05 / C06 history theorems rest -
   and it neither panics nor needs more iterations than the array is long. *)
From Coq Require Import ZArith List Bool Arith Lia.
From FV Require Import Generated.Consts Generated.TimerHeap Lib.GoSem C05.Model C05.HeapArr.
Import ListNotations.
Open Scope Z_scope.

Ltac Zify.zify_post_hook ::= Z.div_mod_to_equations.

Lemma wrap64 x : - 9223372036854775808 <= x < 9223372036854775808 ->
  (x + 9223372036854775808) mod 18446744073709551616 - 9223372036854775808 = x.
Proof. intros H. lia. Qed.

(* ---- the four columns of an array of nodes *)
Definition c_id (x : hnode) : Z := nid (hn x).
Definition c_dl (x : hnode) : Z := ndl (hn x).
Definition c_per (x : hnode) : Z := nper (hn x).
Definition cols (l : list hnode) : list Z * list Z * list Z * list Z :=
  (map c_id l, map hidx l, map c_dl l, map c_per l).

Lemma hupd_length l k x : length (hupd l k x) = length l.
Proof. revert k. induction l as [|y l IH]; intros [|k]; cbn; try reflexivity. f_equal. apply IH. Qed.

Lemma hswap_length l i j : length (hswap l i j) = length l.
Proof. unfold hswap. rewrite !hupd_length. reflexivity. Qed.

Lemma map_hupd (f : hnode -> Z) l k x : map f (hupd l k x) = list_upd (map f l) k (f x).
Proof. revert k. induction l as [|y l IH]; intros [|k]; cbn; try reflexivity. f_equal. apply IH. Qed.

Section Column.
  Variable f : hnode -> Z.

  Lemma col_index l k : (k < length l)%nat -> go_index (map f l) (Z.of_nat k) = Ok (f (hget l k)).
  Proof.
    intros H. rewrite go_index_ok by (unfold go_len; rewrite map_length; lia).
    rewrite Nat2Z.id. unfold hget. rewrite (nth_indep _ 0 (f hdflt)) by (rewrite map_length; lia).
    rewrite map_nth. reflexivity.
  Qed.

  Lemma col_update l k v : (k < length l)%nat ->
    go_update (map f l) (Z.of_nat k) v = Ok (list_upd (map f l) k v).
  Proof. intros H. rewrite go_update_ok by (unfold go_len; rewrite map_length; lia). rewrite Nat2Z.id. reflexivity. Qed.
End Column.

Lemma list_upd_idem (l : list Z) k v w : list_upd (list_upd l k v) k w = list_upd l k w.
Proof. revert k. induction l as [|y l IH]; intros [|k]; cbn; try reflexivity. f_equal. apply IH. Qed.

Lemma list_upd_comm (l : list Z) j k v w : j <> k ->
  list_upd (list_upd l j v) k w = list_upd (list_upd l k w) j v.
Proof.
  revert j k. induction l as [|y l IH]; intros [|j] [|k] H; cbn; try reflexivity; try congruence.
  f_equal. apply IH. congruence.
Qed.

Lemma go_update_len (l : list Z) k v : (k < length l)%nat -> go_update l (Z.of_nat k) v = Ok (list_upd l k v).
Proof. intros H. rewrite go_update_ok by (unfold go_len; lia). rewrite Nat2Z.id. reflexivity. Qed.

(* ---- timerHeap.Less, timerHeap.Swap *)
Lemma src_less l i j : (i < length l)%nat -> (j < length l)%nat ->
  go_timerHeap_Less (map c_dl l) (map c_id l) (Z.of_nat i) (Z.of_nat j) = Ok (hlt (hget l i) (hget l j)).
Proof.
  intros Hi Hj. unfold go_timerHeap_Less, hlt, hless.
  rewrite !(col_index c_dl), !(col_index c_id) by assumption. cbn [bind].
  unfold c_dl, c_id. rewrite Z.gtb_ltb.
  destruct (ndl (hn (hget l i)) =? ndl (hn (hget l j))); reflexivity.
Qed.

Lemma swap_column (f : hnode -> Z) l i j a b : (i < length l)%nat -> (j < length l)%nat ->
  f a = f (hget l j) -> f b = f (hget l i) ->
  list_upd (list_upd (map f l) i (f (hget l j))) j (f (hget l i)) = map f (hupd (hupd l i a) j b).
Proof. intros Hi Hj Ha Hb. rewrite !map_hupd, Ha, Hb. reflexivity. Qed.

Lemma src_swap l i j : (i < length l)%nat -> (j < length l)%nat ->
  let '(ids, idxs, dls, pers) := cols l in
  go_timerHeap_Swap ids idxs dls pers (Z.of_nat i) (Z.of_nat j) = Ok (cols (hswap l i j)).
Proof.
  intros Hi Hj. unfold cols, go_timerHeap_Swap. cbv zeta.
  rewrite !(col_index c_id), !(col_index hidx), !(col_index c_dl), !(col_index c_per) by assumption. cbn [bind].
  rewrite (col_update c_id), (col_update hidx), (col_update c_dl), (col_update c_per) by assumption. cbn [bind].
  repeat (rewrite go_update_len by (rewrite ?list_upd_length, map_length; assumption); cbn [bind]).
  set (a := mkH (hn (hget l j)) (Z.of_nat i)). set (b := mkH (hn (hget l i)) (Z.of_nat j)).
  assert (E1 := swap_column c_id l i j a b Hi Hj eq_refl eq_refl).
  assert (E3 := swap_column c_dl l i j a b Hi Hj eq_refl eq_refl).
  assert (E4 := swap_column c_per l i j a b Hi Hj eq_refl eq_refl).
  assert (E2 : list_upd (list_upd (list_upd (list_upd (map hidx l) i (hidx (hget l j))) j (hidx (hget l i))) i (Z.of_nat i)) j (Z.of_nat j)
               = map hidx (hupd (hupd l i a) j b)).
  { rewrite !map_hupd. subst a b. cbn [hidx].
    destruct (Nat.eq_dec i j) as [->|Hne].
    - rewrite !list_upd_idem. reflexivity.
    - rewrite (list_upd_comm (list_upd (map hidx l) i (hidx (hget l j))) j i) by congruence.
      rewrite list_upd_idem. rewrite list_upd_idem. reflexivity. }
  unfold hswap, setidx. fold a b. rewrite E1, E2, E3, E4. reflexivity.
Qed.

(* ---- container/heap.up *)
Definition upst (j : nat) (l : list hnode) : Z * list Z * list Z * list Z * list Z :=
  (Z.of_nat j, map c_id l, map hidx l, map c_dl l, map c_per l).

Lemma parent_nat (j : nat) : (Z.of_nat j < 2 ^ 61)%Z ->
  ((Z.quot ((Z.of_nat j - 1 + 9223372036854775808) mod 18446744073709551616 - 9223372036854775808) 2
    + 9223372036854775808) mod 18446744073709551616 - 9223372036854775808)
  = Z.of_nat ((j - 1) / 2).
Proof.
  intros H. change (2 ^ 61) with 2305843009213693952 in H.
  rewrite (wrap64 (Z.of_nat j - 1)) by lia.
  destruct j as [|j].
  - cbn. reflexivity.
  - replace (S j - 1)%nat with j by lia. replace (Z.of_nat (S j) - 1) with (Z.of_nat j) by lia.
    rewrite Z.quot_div_nonneg by lia. rewrite wrap64.
    + rewrite Nat2Z.inj_div. reflexivity.
    + pose proof (Z.div_pos (Z.of_nat j) 2). pose proof (Z.div_le_upper_bound (Z.of_nat j) 2 (Z.of_nat j)). lia.
Qed.

Lemma up_loop : forall f fuel l j, (j < length l)%nat -> Z.of_nat (length l) < 2 ^ 61 ->
  (j < f)%nat -> (j < fuel)%nat ->
  exists j', go_heap_up_timerHeap_loop1 fuel (upst j l) = Ok (inl (upst j' (up f l j))).
Proof.
  unfold go_heap_up_timerHeap_loop1.
  induction f as [|f IH]; intros fuel l j Hj Hl Hf Hfu; [lia|].
  destruct fuel as [|fuel]; [lia|].
  rewrite go_loop_S. unfold upst at 1. unfold go_heap_up_timerHeap_loop1_body. cbv zeta.
  rewrite parent_nat by lia. cbn [up].
  set (i := ((j - 1) / 2)%nat).
  assert (Hij : (i <= j)%nat) by (subst i; apply Nat.div_le_upper_bound; lia).
  assert (Hi : (i < length l)%nat) by lia.
  replace (Z.of_nat i =? Z.of_nat j) with (i =? j)%nat
    by (destruct (Nat.eqb_spec i j), (Z.eqb_spec (Z.of_nat i) (Z.of_nat j)); lia || reflexivity).
  destruct (Nat.eqb_spec i j) as [E|E]; cbn [orb bind].
  - exists j. reflexivity.
  - rewrite src_less by assumption. cbn [bind].
    destruct (hlt (hget l j) (hget l i)); cbn [negb].
    + pose proof (src_swap l i j Hi Hj) as S. unfold cols in S. rewrite S. cbn [bind].
      assert (i < j)%nat by lia.
      destruct (IH fuel (hswap l i j) i) as [j' Ej]; rewrite ?hswap_length; try lia.
      exists j'. exact Ej.
    + exists j. reflexivity.
Qed.

Lemma src_up l j fuel : (j < length l)%nat -> Z.of_nat (length l) < 2 ^ 61 -> (j < fuel)%nat ->
  let '(ids, idxs, dls, pers) := cols l in
  go_heap_up_timerHeap fuel ids idxs dls pers (Z.of_nat j) = Ok (cols (up (length l) l j)).
Proof.
  intros Hj Hl Hf. unfold cols, go_heap_up_timerHeap.
  destruct (up_loop (length l) fuel l j Hj Hl Hj Hf) as [j' E]. unfold upst in E. rewrite E. reflexivity.
Qed.

(* ---- container/heap.down *)
Lemma down_loop : forall f fuel l i n, (n <= length l)%nat -> Z.of_nat (length l) < 2 ^ 61 -> (Z.of_nat i < 2 ^ 61)%Z ->
  (n - 2 * i <= f)%nat -> (0 < f)%nat -> (n - 2 * i <= fuel)%nat -> (0 < fuel)%nat ->
  go_heap_down_timerHeap_loop1 fuel (Z.of_nat n) (upst i l) =
  Ok (inl (upst (snd (down f l i n)) (fst (down f l i n)))).
Proof.
  unfold go_heap_down_timerHeap_loop1.
  induction f as [|f IH]; intros fuel l i n Hn Hl Hi Hf Hf0 Hfu Hfu0; [lia|].
  destruct fuel as [|fuel]; [lia|].
  change (2 ^ 61) with 2305843009213693952 in *.
  rewrite go_loop_S. unfold upst at 1. unfold go_heap_down_timerHeap_loop1_body. cbv zeta.
  rewrite (wrap64 (2 * Z.of_nat i)) by lia. rewrite (wrap64 (2 * Z.of_nat i + 1)) by lia.
  cbn [down].
  replace (2 * Z.of_nat i + 1) with (Z.of_nat (2 * i + 1)) by lia.
  set (j1 := (2 * i + 1)%nat).
  replace (Z.of_nat j1 >=? Z.of_nat n) with (n <=? j1)%nat
    by (rewrite Z.geb_leb; destruct (Nat.leb_spec n j1), (Z.leb_spec (Z.of_nat n) (Z.of_nat j1)); lia || reflexivity).
  replace (Z.of_nat j1 <? 0) with false by (symmetry; apply Z.ltb_ge; lia). rewrite orb_false_r.
  destruct (Nat.leb_spec n j1) as [Hstop|Hgo].
  - reflexivity.
  - rewrite (wrap64 (Z.of_nat j1 + 1)) by lia.
    replace (Z.of_nat j1 + 1) with (Z.of_nat (j1 + 1)) by lia.
    replace (Z.of_nat (j1 + 1) <? Z.of_nat n) with (j1 + 1 <? n)%nat
      by (destruct (Nat.ltb_spec (j1 + 1) n), (Z.ltb_spec (Z.of_nat (j1 + 1)) (Z.of_nat n)); lia || reflexivity).
    assert (Hi' : (i < length l)%nat) by lia. assert (Hj1 : (j1 < length l)%nat) by lia.
    destruct (Nat.ltb_spec (j1 + 1) n) as [H2|H2]; cbn [andb bind].
    + rewrite src_less by lia. cbn [bind].
      destruct (hlt (hget l (j1 + 1)) (hget l j1)).
      * rewrite src_less by lia. cbn [bind].
        destruct (hlt (hget l (j1 + 1)) (hget l i)); cbn [negb]; [|reflexivity].
        pose proof (src_swap l i (j1 + 1) Hi' ltac:(lia)) as S. unfold cols in S. rewrite S. cbn [bind].
        pose proof (IH fuel (hswap l i (j1 + 1)) (j1 + 1)%nat n) as E. rewrite hswap_length in E.
        apply E; lia.
      * rewrite src_less by lia. cbn [bind].
        destruct (hlt (hget l j1) (hget l i)); cbn [negb]; [|reflexivity].
        pose proof (src_swap l i j1 Hi' Hj1) as S. unfold cols in S. rewrite S. cbn [bind].
        pose proof (IH fuel (hswap l i j1) j1 n) as E. rewrite hswap_length in E.
        apply E; lia.
    + rewrite src_less by lia. cbn [bind].
      destruct (hlt (hget l j1) (hget l i)); cbn [negb]; [|reflexivity].
      pose proof (src_swap l i j1 Hi' Hj1) as S. unfold cols in S. rewrite S. cbn [bind].
      pose proof (IH fuel (hswap l i j1) j1 n) as E. rewrite hswap_length in E.
      apply E; lia.
Qed.

Lemma src_down l i n f fuel : (n <= length l)%nat -> Z.of_nat (length l) < 2 ^ 61 -> (Z.of_nat i < 2 ^ 61)%Z ->
  (n - 2 * i <= f)%nat -> (0 < f)%nat -> (n - 2 * i <= fuel)%nat -> (0 < fuel)%nat ->
  let '(ids, idxs, dls, pers) := cols l in
  go_heap_down_timerHeap fuel ids idxs dls pers (Z.of_nat i) (Z.of_nat n) =
  Ok (let '(ids', idxs', dls', pers') := cols (fst (down f l i n)) in
      ((i <? snd (down f l i n))%nat, ids', idxs', dls', pers')).
Proof.
  intros Hn Hl Hi Hf Hf0 Hfu Hfu0. unfold cols, go_heap_down_timerHeap. cbv zeta.
  pose proof (down_loop f fuel l i n Hn Hl Hi Hf Hf0 Hfu Hfu0) as E. unfold upst in E. rewrite E.
  f_equal. f_equal. f_equal. f_equal. f_equal.
  rewrite Z.gtb_ltb.
  destruct (Nat.ltb_spec i (snd (down f l i n))), (Z.ltb_spec (Z.of_nat i) (Z.of_nat (snd (down f l i n)))); lia || reflexivity.
Qed.

Lemma down_length : forall f l i n, length (fst (down f l i n)) = length l.
Proof.
  induction f as [|f IH]; intros l i n; cbn [down]; [reflexivity|].
  destruct (n <=? 2 * i + 1)%nat; [reflexivity|].
  match goal with |- context [if negb ?c then _ else _] => destruct c end; cbn [negb]; [|reflexivity].
  rewrite IH. apply hswap_length.
Qed.

(* ---- container/heap.Fix, and the sift parts of Pop and Remove *)
Lemma src_fix l i fuel : (i < length l)%nat -> Z.of_nat (length l) < 2 ^ 61 -> (length l <= fuel)%nat ->
  let '(ids, idxs, dls, pers) := cols l in
  go_heap_Fix_timerHeap fuel ids idxs dls pers (Z.of_nat (length l)) (Z.of_nat i) = Ok (cols (heap_fix l i)).
Proof.
  intros Hi Hl Hf. unfold go_heap_Fix_timerHeap, go_timerHeap_Len, heap_fix.
  pose proof (src_down l i (length l) (length l) fuel ltac:(lia) Hl ltac:(lia) ltac:(lia) ltac:(lia) ltac:(lia) ltac:(lia)) as D.
  unfold cols in *. rewrite D. cbn [bind].
  pose proof (down_length (length l) l i (length l)) as DL.
  destruct (down (length l) l i (length l)) as [l2 i'] eqn:E. cbn [fst snd] in *.
  destruct (i <? i')%nat; cbn [negb bind]; [reflexivity|].
  pose proof (src_up l2 i fuel ltac:(lia) ltac:(lia) ltac:(lia)) as U. unfold cols in U. rewrite U. cbn [bind].
  rewrite DL. reflexivity.
Qed.

Lemma src_pop l fuel : (0 < length l)%nat -> Z.of_nat (length l) < 2 ^ 61 -> (length l <= fuel)%nat ->
  let '(ids, idxs, dls, pers) := cols l in
  go_heap_Pop_timerHeap_prefix fuel ids idxs dls pers (Z.of_nat (length l)) =
  Ok (let n := (length l - 1)%nat in
      let '(ids', idxs', dls', pers') := cols (fst (down (length l) (hswap l 0 n) 0 n)) in
      Reached (Z.of_nat n, ids', idxs', dls', pers')).
Proof.
  intros H0 Hl Hf. change (2 ^ 61) with 2305843009213693952 in *.
  unfold go_heap_Pop_timerHeap_prefix, go_timerHeap_Len. cbv zeta.
  rewrite (wrap64 (Z.of_nat (length l) - 1)) by lia.
  replace (Z.of_nat (length l) - 1) with (Z.of_nat (length l - 1)) by lia.
  set (n := (length l - 1)%nat).
  pose proof (src_swap l 0 n ltac:(lia) ltac:(lia)) as S. unfold cols in *. cbn [Z.of_nat] in S. rewrite S. cbn [bind].
  pose proof (src_down (hswap l 0 n) 0 n (length l) fuel) as D. rewrite hswap_length in D.
  unfold cols in D. cbn [Z.of_nat] in D. rewrite D by (cbn; lia). cbn [bind].
  destruct (down (length l) (hswap l 0 n) 0 n) as [l2 i']. reflexivity.
Qed.

Lemma src_remove l i fuel : (i < length l)%nat -> Z.of_nat (length l) < 2 ^ 61 -> (length l <= fuel)%nat ->
  let '(ids, idxs, dls, pers) := cols l in
  go_heap_Remove_timerHeap_prefix fuel ids idxs dls pers (Z.of_nat (length l)) (Z.of_nat i) =
  Ok (let n := (length l - 1)%nat in
      let l1 := if (n =? i)%nat then l
                else let '(l2, i') := down (length l) (hswap l i n) i n in
                     if (i <? i')%nat then l2 else up (length l) l2 i in
      let '(ids', idxs', dls', pers') := cols l1 in
      Reached (Z.of_nat i, Z.of_nat n, ids', idxs', dls', pers')).
Proof.
  intros Hi Hl Hf. change (2 ^ 61) with 2305843009213693952 in *.
  unfold go_heap_Remove_timerHeap_prefix, go_timerHeap_Len. cbv zeta.
  rewrite (wrap64 (Z.of_nat (length l) - 1)) by lia.
  replace (Z.of_nat (length l) - 1) with (Z.of_nat (length l - 1)) by lia.
  set (n := (length l - 1)%nat).
  replace (Z.of_nat n =? Z.of_nat i) with (n =? i)%nat
    by (destruct (Nat.eqb_spec n i), (Z.eqb_spec (Z.of_nat n) (Z.of_nat i)); lia || reflexivity).
  destruct (Nat.eqb_spec n i) as [E|E]; cbn [negb bind]; [reflexivity|].
  pose proof (src_swap l i n Hi ltac:(lia)) as S. unfold cols in *. rewrite S. cbn [bind].
  pose proof (src_down (hswap l i n) i n (length l) fuel) as D. rewrite hswap_length in D.
  unfold cols in D. rewrite D by lia. cbn [bind].
  pose proof (down_length (length l) (hswap l i n) i n) as DL. rewrite hswap_length in DL.
  destruct (down (length l) (hswap l i n) i n) as [l2 i']. cbn [fst snd] in *.
  destruct (i <? i')%nat; cbn [negb bind]; [reflexivity|].
  pose proof (src_up l2 i fuel ltac:(lia) ltac:(lia) ltac:(lia)) as U. unfold cols in U. rewrite U. cbn [bind].
  rewrite DL. reflexivity.
Qed.

(* heap.Pop / heap.Remove then call timerHeap.Pop, which takes the last node off (repo_pop): *)
Lemma heap_pop_sift l : heap_pop l = repo_pop (fst (down (length l) (hswap l 0 (length l - 1)) 0 (length l - 1))).
Proof. reflexivity. Qed.

Lemma heap_remove_sift l i :
  heap_remove l i =
  repo_pop (let n := (length l - 1)%nat in
            if (n =? i)%nat then l
            else let '(l2, i') := down (length l) (hswap l i n) i n in
                 if (i <? i')%nat then l2 else up (length l) l2 i).
Proof. reflexivity. Qed.
