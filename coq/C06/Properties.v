(* C06 — placeholder while the model is being tied to the code. *)
From FV Require Import C05.Model.
