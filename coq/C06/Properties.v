(* C06 — Timer cancellation and bookkeeping are atomic and never crash the scheduler.
   Only the property theorems (closed by exact lemmas, each followed by Print
   Assumptions).  The machine is C05/Model.v: timer core (wheel or heap) + the refer map
   and id counter under the mutex + the two request channels; a history is ANY list of
   API calls (Start, Every, Cancel, Size, IsSched) and worker steps (HandleAdd,
   HandleDel, Tick) — a worker step whose input is not ready is a no-op, so the lists are
   exactly the orders in which the scheduler goroutine can pick among its ready inputs.
   [reachable m]: m satisfies the machine invariant of C05/Machine.v and is related to a
   state of the specification; every state after a history from a fresh wheel (at any
   position) or a fresh heap that does not exhaust the 63-bit id counter is reachable
   (c06_reachable_from_fresh), and so is every state after a further history that fits
   the counter ([fits m ops]: snext m + length ops < 2^63 - 1).  The id allocation across
   the counter's wrap is covered by c06_ids_unique_wrap. *)
From Coq Require Import ZArith List Bool.
From FV Require Import Generated.Consts C05.Model C05.Spec C05.Machine C05.Vid C05.VidProofs C06.Proofs C06.Others C06.HandoverModel C06.HandoverProofs.
Import ListNotations.
Open Scope Z_scope.

(* "Cancelling a timer returns true exactly when the timer was still pending": the answer
   is the membership of the id in the refer map — the same map Size counts (distinct ids)
   and IsScheduled reports — at the linearisation point of the call. *)
Theorem c06_cancel_iff_pending : forall m id,
  reachable m ->
  (exists b, snd (step m (Cancel id)) = OBool b true) <-> snd (step m (IsSched id)) = OFlag true.
Proof. exact cancel_iff_sched. Qed.
Print Assumptions c06_cancel_iff_pending.

Theorem c06_size_counts_scheduled : forall m,
  reachable m ->
  snd (step m Size) = ONum (Z.of_nat (length (srefer m))) /\ NoDup (srefer m) /\
  (forall id, snd (step m (IsSched id)) = OFlag true <-> In id (srefer m)).
Proof. exact size_counts. Qed.
Print Assumptions c06_size_counts_scheduled.

(* "after a true return that timer is never delivered and is no longer counted or reported
   as scheduled": for EVERY continuation of the history — whatever the order of the
   worker's handling of the start request, of ticks and of other requests. *)
Theorem c06_cancel_final : forall m id ops,
  reachable m -> fits m ops -> mem id (srefer m) = true ->
  let m1 := fst (step m (Cancel id)) in
  (forall l, In (ODeliv l) (snd (run m1 ops)) -> ~ In id (map fst l)) /\
  ~ In id (srefer (fst (run m1 ops))) /\
  snd (step (fst (run m1 ops)) (IsSched id)) = OFlag false /\
  snd (step (fst (run m1 ops)) (Cancel id)) = OBool false false.
Proof. exact cancel_final. Qed.
Print Assumptions c06_cancel_final.

(* the same for an id that left the map in any way (delivered one-shot, cancelled) *)
Theorem c06_gone_forever : forall id ops m,
  reachable m -> fits m ops -> gone id m ->
  gone id (fst (run m ops)) /\
  (forall l, In (ODeliv l) (snd (run m ops)) -> ~ In id (map fst l)).
Proof. exact gone_forever. Qed.
Print Assumptions c06_gone_forever.

(* what a tick delivers was scheduled when the tick began *)
Theorem c06_delivered_were_scheduled : forall m l,
  reachable m -> snd (step m Tick) = ODeliv l -> forall x, In x l -> In (fst x) (srefer m).
Proof. exact tick_deliv_sched. Qed.
Print Assumptions c06_delivered_were_scheduled.

(* "cancelling an unknown, already delivered or already cancelled one-shot timer returns
   false and disturbs no other timer": the state does not change at all. *)
Theorem c06_cancel_false_inert : forall m id,
  mem id (srefer m) = false -> step m (Cancel id) = (m, OBool false false).
Proof. exact cancel_false_inert. Qed.
Print Assumptions c06_cancel_false_inert.

(* "... and disturbs no other timer": a successful Cancel of timer i changes nothing for
   the other timers.  Compare, from any reachable state, the run that starts with Cancel i
   and the run that does not, under the SAME continuation (any list of API calls and
   worker steps): both hand out the same ids, give the same Cancel / IsScheduled answers
   for every other id, and each tick step delivers the same multiset of (id, due) pairs
   apart from those of i (each delivery list is in due order by c05_*_order).  [oth_allc]
   is that position-wise relation (C06/Others.v). *)
Theorem c06_others_undisturbed : forall m i ops,
  reachable m -> fits m ops -> mem i (srefer m) = true ->
  oth_allc i ops (snd (run (fst (step m (Cancel i))) ops)) (snd (run m ops)).
Proof. exact others_undisturbed. Qed.
Print Assumptions c06_others_undisturbed.

(* "no such ordering crashes or corrupts the scheduler": in every reachable state the
   worker never links a node that is linked already (the panic of bucket.addNode / the
   corruption of the heap's index bookkeeping), and no two nodes share an id. *)
Theorem c06_no_crash : forall m n q,
  reachable m -> spadd m = n :: q ->
  ~ In (nid n) (map nid (core_content (score m))) /\ ~ In (nid n) (map nid q) /\
  NoDup (map nid (core_content (score m))).
Proof. exact no_double_link. Qed.
Print Assumptions c06_no_crash.

(* "timer ids handed out are unique among pending timers" — and never reused at all. *)
Theorem c06_ids_unique : forall m d,
  reachable m -> snext m + 1 < 2 ^ 63 ->
  exists b id, snd (step m (Start d)) = OId b id /\ id = snext m + 1 /\
               ~ In id (srefer m) /\ ~ In id (all_ids m) /\ ~ In id (spdel m) /\
               NoDup (srefer (fst (step m (Start d)))).
Proof. exact start_fresh. Qed.
Print Assumptions c06_ids_unique.

Theorem c06_ids_unique_every : forall m p,
  reachable m -> snext m + 1 < 2 ^ 63 ->
  exists b id, snd (step m (Every p)) = OId b id /\ id = snext m + 1 /\
               ~ In id (srefer m) /\ ~ In id (all_ids m) /\ ~ In id (spdel m) /\
               NoDup (srefer (fst (step m (Every p)))).
Proof. exact every_fresh. Qed.
Print Assumptions c06_ids_unique_every.

(* ... and across the wrap of the id counter: in ANY state, with the counter anywhere in
   the range of a Go int and whatever ids are in use (fewer than 2^63 - 1 of them), the id
   a start hands out is positive and not in use: nextID() probes len(refer)+1 consecutive
   candidates, which cannot all be in the map. *)
Theorem c06_ids_unique_wrap : forall m d,
  snext m < 2 ^ 63 -> Z.of_nat (length (srefer m)) < maxid ->
  exists b id, snd (step m (Start d)) = OId b id /\ 0 < id /\ ~ In id (srefer m).
Proof. exact start_unique_wrap. Qed.
Print Assumptions c06_ids_unique_wrap.

Theorem c06_ids_unique_wrap_every : forall m p,
  snext m < 2 ^ 63 -> Z.of_nat (length (srefer m)) < maxid ->
  exists b id, snd (step m (Every p)) = OId b id /\ 0 < id /\ ~ In id (srefer m).
Proof. exact every_unique_wrap. Qed.
Print Assumptions c06_ids_unique_wrap_every.

Theorem c06_reachable_from_fresh : forall ops,
  short ops ->
  (forall cur tt, 0 <= cur -> reachable (fst (run (init_wheel cur tt) ops))) /\
  (forall now, reachable (fst (run (init_heap now) ops))).
Proof. exact reachable_fresh. Qed.
Print Assumptions c06_reachable_from_fresh.

(* The visible-id layer (C05/Vid.v: the ids the application sees are allocated by nextID()
   with wrap and in-use probing on top of node identities that are never reused — the
   code's `refer[id] == node` pointer test) is transparent on every history that does not
   exhaust the id counter: the machine under the layer, which is what the check runs
   against the code, gives exactly the outputs of the machine the theorems speak about. *)
Theorem c06_visible_ids_transparent : forall ops,
  short ops ->
  (forall cur tt, 0 <= cur ->
     snd (vrun step srefer (vinit (init_wheel cur tt)) ops) = snd (run (init_wheel cur tt) ops)) /\
  (forall now, snd (vrun step srefer (vinit (init_heap now)) ops) = snd (run (init_heap now) ops)).
Proof. exact vrun_both. Qed.
Print Assumptions c06_visible_ids_transparent.

(* ---- the hand-over phase of a tick at the grain at which Cancel interleaves
   (C06/HandoverModel.v: one [MHandover] per expired node — the re-check of the refer map
   and the send on Chan() are one step under the mutex —, API calls in between) ----
   "after a true return that timer is never delivered": for EVERY interleaving of Cancel /
   Start / IsScheduled calls with the hand-overs, before and after, a Cancel that returns
   true is never followed by a hand-over of that timer.  [hwf]: pending nodes distinct, a
   node already decided to fire (the heap's one-shot nodes) is out of the map. *)
Theorem c06_cancel_then_no_handover : forall s before id after,
  hwf s ->
  let s1 := fst (mrun s before) in
  snd (mstep s1 (MCancel id)) = ECancel id true ->
  ~ In (EDeliver id) (snd (mrun (fst (mstep s1 (MCancel id))) after)).
Proof. exact cancel_then_no_handover. Qed.
Print Assumptions c06_cancel_then_no_handover.

(* without interleaving the phase is the atomic expiry of the machine the other theorems
   speak about: the wheel's walk of a detached bucket = the fold of expire_one; the heap's
   decisions followed by the hand-overs = htick (refer map and delivered ids) *)
Theorem c06_handover_wheel_atomic : forall bucket w r o c,
  let res := fold_left expire_one bucket (w, r, o) in
  let ph := mrun (mkHst r (wheel_items bucket) c) (repeat MHandover (length bucket)) in
  href (fst ph) = snd (fst res) /\ map fst (snd res) = map fst o ++ delivered (snd ph).
Proof. exact wheel_phase. Qed.
Print Assumptions c06_handover_wheel_atomic.

Theorem c06_handover_heap_atomic : forall h r now c,
  NoDup (map nid h) ->
  let D := hsort (filter (is_due now) h) in
  let L := heap_items r D in
  let ph := mrun (mkHst (heap_refer r D) L c) (repeat MHandover (length L)) in
  href (fst ph) = snd (fst (htick h r now)) /\ delivered (snd ph) = map fst (snd (htick h r now)).
Proof. exact heap_phase_is_htick. Qed.
Print Assumptions c06_handover_heap_atomic.

(* "no such ordering stalls the scheduler": whenever a request is pending the worker's arm
   for it is enabled and consumes it, the ticker arm is always enabled; no step waits for
   another (the API calls' critical sections are single steps: the request is sent after
   the mutex is released). *)
Theorem c06_no_stall : forall m,
  (spadd m <> [] -> snd (step m HandleAdd) = OFlag true) /\
  (spdel m <> [] -> snd (step m HandleDel) = OFlag true) /\
  (exists l, snd (step m Tick) = ODeliv l).
Proof. exact worker_enabled. Qed.
Print Assumptions c06_no_stall.

Theorem c06_requests_consumed : forall m,
  length (spadd (fst (step m HandleAdd))) = pred (length (spadd m)) /\
  length (spdel (fst (step m HandleDel))) = pred (length (spdel m)).
Proof. exact requests_consumed. Qed.
Print Assumptions c06_requests_consumed.

(* non-vacuity: the histories that crashed the unrepaired code, computed by the model.
   [Start; Cancel; HandleDel; HandleAdd; ticks]: cancel overtakes its own start.
   [Start 1; HandleAdd; Cancel; Tick; HandleDel]: cancel meets the expiry. *)
Example c06_example_overtake :
  snd (run (init_heap 0) [Start 5; Cancel 1; HandleDel; HandleAdd; Pass 9; Tick; Size; Cancel 1])
  = [OId false 1; OBool false true; OFlag true; OFlag true; ONone; ODeliv []; ONum 0; OBool false false].
Proof. vm_compute. reflexivity. Qed.

Example c06_example_expiry_race :
  snd (run (init_wheel 1000 0) [Start 1; Start 1; HandleAdd; HandleAdd; Cancel 1; Pass 1; Tick; HandleDel; Size])
  = [OId false 1; OId false 2; OFlag true; OFlag true; OBool false true; ONone; ODeliv [(2, 1)]; OFlag true; ONum 0].
Proof. vm_compute. reflexivity. Qed.

Example c06_example_others :
  oth_allc 1 [HandleAdd; HandleAdd; Pass 3; Tick; IsSched 2; Cancel 2]
    (snd (run (fst (step (fst (run (init_heap 0) [Start 2; Start 3])) (Cancel 1))) [HandleAdd; HandleAdd; Pass 3; Tick; IsSched 2; Cancel 2]))
    (snd (run (fst (run (init_heap 0) [Start 2; Start 3])) [HandleAdd; HandleAdd; Pass 3; Tick; IsSched 2; Cancel 2])).
Proof.
  apply c06_others_undisturbed; [apply (reachable_from_heap 0 [Start 2; Start 3]); vm_compute; reflexivity|vm_compute; reflexivity|reflexivity].
Qed.

(* id reuse after a wrap: timer 1 is cancelled with its node still linked, the counter is set
   back so that the next start gets id 1 again; the old node is dropped silently at its
   expiry (tick 3), the new owner of id 1 fires at its own due time (tick 9) *)
Example c06_example_id_reuse :
  let w0 := vinit (init_wheel 1000 0) in
  let '(w1, o1) := vrun step srefer w0 [Start 3; HandleAdd; Cancel 1] in
  let '(w2, o2) := vrun step srefer (vset_next w1 0) [Start 9; HandleAdd; IsSched 1; Pass 3; Tick; IsSched 1; Pass 6; Tick; Size] in
  o1 = [OId false 1; OFlag true; OBool false true] /\
  o2 = [OId false 1; OFlag true; OFlag true; ONone; ODeliv []; OFlag true; ONone; ODeliv [(1, 9)]; ONum 0].
Proof. vm_compute. split; reflexivity. Qed.

(* a heap tick with a decided one-shot node 2 and a repeating node 1 pending; the cancel of 1
   arrives before its hand-over: 2 is delivered, 1 is dropped *)
Example c06_example_handover :
  let s := mkHst [1] [mkP (mkNode 2 5 0) true; mkP (mkNode 1 5 3) false] 2 in
  hwf s /\
  snd (mrun s [MCancel 1; MHandover; MQuery 1; MHandover]) =
    [ECancel 1 true; EDeliver 2; EQuery 1 false; EDrop 1] /\
  snd (mrun s [MHandover; MHandover; MCancel 1]) = [EDeliver 2; EDeliver 1; ECancel 1 true].
Proof.
  split; [|split; vm_compute; reflexivity].
  unfold hwf. cbn. split; [repeat constructor; cbn; intuition discriminate|].
  split; [intros p [<-|[<-|[]]] Hd; cbn in *; [intros [H|[]]; discriminate|discriminate]|].
  split; repeat constructor; discriminate.
Qed.

(* the id counter at the top of a Go int with ids 1 and 3 pending: RunEvery gets id 2
   (MaxInt+1 wraps to 1, which is in use); hypotheses of c06_ids_unique_wrap(_every) hold *)
Example c06_example_wrap_every :
  let m := mkSt (CHeap []) 0 [1; 3] (2 ^ 63 - 1) [] [] in
  snd (step m (Every 5)) = OId false 2 /\ snd (step m (Start 5)) = OId false 2 /\
  snext m < 2 ^ 63 /\ Z.of_nat (length (srefer m)) < maxid.
Proof. vm_compute. repeat split; reflexivity. Qed.

Example c06_example_reachable :
  reachable (fst (run (init_wheel 1000 0) [Start 1; HandleAdd])) /\
  mem 1 (srefer (fst (run (init_wheel 1000 0) [Start 1; HandleAdd]))) = true.
Proof. split; [apply reachable_from_wheel; [discriminate|vm_compute; reflexivity]|reflexivity]. Qed.

(* ------------------------------------------------------------------------------------------
   Tie to the source (C06/Source.v): the heap's array code - timerHeap.Less / Swap from
   sched/timerqueue.go and up, down, Fix and the sift parts of Pop and Remove from the Go
   standard library's container/heap, translated with heap.Interface standing for a timerHeap -
   is regenerated by tools/gofunc on every run (Generated/TimerHeap.v; the slice of node
   pointers is one list per field, [cols l], the nodes distinct and non-nil).  On EVERY array
   of fewer than 2^61 nodes (no heap order assumed) it computes what the array model of
   C05/HeapArr.v computes (hlt, hswap, up, down, heap_fix, heap_pop, heap_remove: the model
   under the heap timer's history theorems), without panic and within `length l` iterations.
   If the comparison, the swap with its index bookkeeping, or a sift loop changes in the
   source, these obligations are re-checked. *)
From Coq Require Import Arith.
From FV Require Import Generated.TimerHeap Lib.GoSem C05.HeapArr C06.Source.

Theorem c06_src_less : forall l i j, (i < length l)%nat -> (j < length l)%nat ->
  go_timerHeap_Less (map c_dl l) (map c_id l) (Z.of_nat i) (Z.of_nat j) = Lib.GoSem.Ok (hlt (hget l i) (hget l j)).
Proof. exact src_less. Qed.
Print Assumptions c06_src_less.

Theorem c06_src_swap : forall l i j, (i < length l)%nat -> (j < length l)%nat ->
  let '(ids, idxs, dls, pers) := cols l in
  go_timerHeap_Swap ids idxs dls pers (Z.of_nat i) (Z.of_nat j) = Lib.GoSem.Ok (cols (hswap l i j)).
Proof. exact src_swap. Qed.
Print Assumptions c06_src_swap.

Theorem c06_src_up : forall l j fuel, (j < length l)%nat -> Z.of_nat (length l) < 2 ^ 61 -> (j < fuel)%nat ->
  let '(ids, idxs, dls, pers) := cols l in
  go_heap_up_timerHeap fuel ids idxs dls pers (Z.of_nat j) = Lib.GoSem.Ok (cols (up (length l) l j)).
Proof. exact src_up. Qed.
Print Assumptions c06_src_up.

Theorem c06_src_down : forall l i n f fuel,
  (n <= length l)%nat -> Z.of_nat (length l) < 2 ^ 61 -> (Z.of_nat i < 2 ^ 61)%Z ->
  (n - 2 * i <= f)%nat -> (0 < f)%nat -> (n - 2 * i <= fuel)%nat -> (0 < fuel)%nat ->
  let '(ids, idxs, dls, pers) := cols l in
  go_heap_down_timerHeap fuel ids idxs dls pers (Z.of_nat i) (Z.of_nat n) =
  Lib.GoSem.Ok (let '(ids', idxs', dls', pers') := cols (fst (down f l i n)) in
                ((i <? snd (down f l i n))%nat, ids', idxs', dls', pers')).
Proof. exact src_down. Qed.
Print Assumptions c06_src_down.

Theorem c06_src_fix : forall l i fuel, (i < length l)%nat -> Z.of_nat (length l) < 2 ^ 61 -> (length l <= fuel)%nat ->
  let '(ids, idxs, dls, pers) := cols l in
  go_heap_Fix_timerHeap fuel ids idxs dls pers (Z.of_nat (length l)) (Z.of_nat i) = Lib.GoSem.Ok (cols (heap_fix l i)).
Proof. exact src_fix. Qed.
Print Assumptions c06_src_fix.

(* heap.Pop and heap.Remove up to their final `return h.Pop()` (timerHeap.Pop takes the last
   node off: heap_pop l = repo_pop (...), heap_remove l i = repo_pop (...) by definition) *)
Theorem c06_src_pop : forall l fuel, (0 < length l)%nat -> Z.of_nat (length l) < 2 ^ 61 -> (length l <= fuel)%nat ->
  (let '(ids, idxs, dls, pers) := cols l in
   go_heap_Pop_timerHeap_prefix fuel ids idxs dls pers (Z.of_nat (length l)) =
   Lib.GoSem.Ok (let n := (length l - 1)%nat in
                 let '(ids', idxs', dls', pers') := cols (fst (down (length l) (hswap l 0 n) 0 n)) in
                 Lib.GoSem.Reached (Z.of_nat n, ids', idxs', dls', pers'))) /\
  heap_pop l = repo_pop (fst (down (length l) (hswap l 0 (length l - 1)) 0 (length l - 1))).
Proof. intros l fuel H0 Hl Hf. split; [exact (src_pop l fuel H0 Hl Hf) | exact (heap_pop_sift l)]. Qed.
Print Assumptions c06_src_pop.

Theorem c06_src_remove : forall l i fuel, (i < length l)%nat -> Z.of_nat (length l) < 2 ^ 61 -> (length l <= fuel)%nat ->
  (let '(ids, idxs, dls, pers) := cols l in
   go_heap_Remove_timerHeap_prefix fuel ids idxs dls pers (Z.of_nat (length l)) (Z.of_nat i) =
   Lib.GoSem.Ok (let n := (length l - 1)%nat in
                 let l1 := if (n =? i)%nat then l
                           else let '(l2, i') := down (length l) (hswap l i n) i n in
                                if (i <? i')%nat then l2 else up (length l) l2 i in
                 let '(ids', idxs', dls', pers') := cols l1 in
                 Lib.GoSem.Reached (Z.of_nat i, Z.of_nat n, ids', idxs', dls', pers'))) /\
  heap_remove l i =
  repo_pop (let n := (length l - 1)%nat in
            if (n =? i)%nat then l
            else let '(l2, i') := down (length l) (hswap l i n) i n in
                 if (i <? i')%nat then l2 else up (length l) l2 i).
Proof. intros l i fuel Hi Hl Hf. split; [exact (src_remove l i fuel Hi Hl Hf) | exact (heap_remove_sift l i)]. Qed.
Print Assumptions c06_src_remove.

(* ------------------------------------------------------------------------------------------
   The heap theorems restated on the regenerated code (C06/SourceHeap.v): what the
   translated heap.Remove / heap.Pop / heap.Fix / heap.Push leave in the array, from ANY
   array that is a heap with consistent index fields.  Together with c05_heap_array_inv
   (every history keeps the array such a heap) these are the per-operation facts about
   the code of container/heap + timerHeap that C05/C06's heap histories rest on. *)
From FV Require Import C05.HeapOps C06.SourceHeap.

Theorem c06_src_remove_exact : forall l i fuel,
  harr_ok l -> (i < length l)%nat -> Z.of_nat (length l) < 2 ^ 61 -> (length l <= fuel)%nat ->
  exists l1,
    (let '(ids, idxs, dls, pers) := cols l in
     go_heap_Remove_timerHeap_prefix fuel ids idxs dls pers (Z.of_nat (length l)) (Z.of_nat i) =
     Lib.GoSem.Ok (let '(ids', idxs', dls', pers') := cols l1 in
         Lib.GoSem.Reached (Z.of_nat i, Z.of_nat (length l - 1), ids', idxs', dls', pers'))) /\
    let '(l', x) := repo_pop l1 in
    harr_ok l' /\ hn x = hn (hget l i) /\ hidx x = (-1)%Z /\
    Permutation.Permutation (map hn l) (hn x :: map hn l') /\ length l' = (length l - 1)%nat.
Proof. exact src_remove_exact. Qed.
Print Assumptions c06_src_remove_exact.

Theorem c06_src_pop_exact : forall l fuel,
  harr_ok l -> l <> [] -> Z.of_nat (length l) < 2 ^ 61 -> (length l <= fuel)%nat ->
  exists l1,
    (let '(ids, idxs, dls, pers) := cols l in
     go_heap_Pop_timerHeap_prefix fuel ids idxs dls pers (Z.of_nat (length l)) =
     Lib.GoSem.Ok (let '(ids', idxs', dls', pers') := cols l1 in
         Lib.GoSem.Reached (Z.of_nat (length l - 1), ids', idxs', dls', pers'))) /\
    let '(l', x) := repo_pop l1 in
    harr_ok l' /\ hn x = hn (hget l 0) /\ hidx x = (-1)%Z /\
    Permutation.Permutation (map hn l) (hn x :: map hn l') /\ length l' = (length l - 1)%nat.
Proof. exact src_pop_exact. Qed.
Print Assumptions c06_src_pop_exact.

Theorem c06_src_fix_root_exact : forall l x fuel,
  harr_ok l -> l <> [] -> hidx x = 0%Z -> Z.of_nat (length l) < 2 ^ 61 -> (length l <= fuel)%nat ->
  (let '(ids, idxs, dls, pers) := cols (hupd l 0 x) in
   go_heap_Fix_timerHeap fuel ids idxs dls pers (Z.of_nat (length l)) 0 =
   Lib.GoSem.Ok (cols (heap_fix (hupd l 0 x) 0))) /\
  harr_ok (heap_fix (hupd l 0 x) 0) /\
  Permutation.Permutation (map hn (heap_fix (hupd l 0 x) 0)) (hn x :: tl (map hn l)) /\
  length (heap_fix (hupd l 0 x) 0) = length l.
Proof. exact src_fix_root_exact. Qed.
Print Assumptions c06_src_fix_root_exact.

Theorem c06_src_push_exact : forall l x fuel,
  harr_ok l -> Z.of_nat (length l) + 1 < 2 ^ 61 -> (length l < fuel)%nat ->
  (let '(ids, idxs, dls, pers) := cols (repo_push l x) in
   go_heap_up_timerHeap fuel ids idxs dls pers (Z.of_nat (length l)) = Lib.GoSem.Ok (cols (heap_push l x))) /\
  harr_ok (heap_push l x) /\ Permutation.Permutation (map hn (heap_push l x)) (x :: map hn l) /\
  length (heap_push l x) = S (length l).
Proof. exact src_push_exact. Qed.
Print Assumptions c06_src_push_exact.

(* non-vacuity: the array [(1,dl 3); (2,dl 9); (3,dl 5)] is a heap with consistent indices;
   the regenerated heap.Remove(h, 0) leaves [(3,5); (2,9); (1,3)] with node 1 last *)
Definition ex_heap3 : list hnode :=
  [mkH (mkNode 1 3 0) 0; mkH (mkNode 2 9 0) 1; mkH (mkNode 3 5 0) 2].

Example c06_example_src_remove :
  (let '(ids, idxs, dls, pers) := cols ex_heap3 in
   go_heap_Remove_timerHeap_prefix 3 ids idxs dls pers 3 0) =
  Lib.GoSem.Ok (Lib.GoSem.Reached (0, 2, [3; 2; 1], [0; 1; 2], [5; 9; 3], [0; 0; 0])) /\
  map (fun x => nid (hn x)) (fst (heap_remove ex_heap3 0)) = [3; 2].
Proof. vm_compute. split; reflexivity. Qed.
