(* C06 — Timer cancellation and bookkeeping are atomic and never crash the scheduler.
   Only the property theorems (closed by exact lemmas, each followed by Print
   Assumptions).  The machine is C05/Model.v: timer core (wheel or heap) + the refer map
   and id counter under the mutex + the two request channels; a history is ANY list of
   API calls (Start, Every, Cancel, Size, IsSched) and worker steps (HandleAdd,
   HandleDel, Tick) — a worker step whose input is not ready is a no-op, so the lists are
   exactly the orders in which the scheduler goroutine can pick among its ready inputs.
   [reachable m]: m satisfies the machine invariant of C05/Machine.v and is related to a
   state of the specification; every state after a history from a fresh wheel (at any
   position) or a fresh heap that does not exhaust the 63-bit id counter is reachable
   (c06_reachable_from_fresh), and so is every state after a further history that fits
   the counter ([fits m ops]: snext m + length ops < 2^63 - 1).  The id allocation across
   the counter's wrap is covered by c06_ids_unique_wrap. *)
From Coq Require Import ZArith List Bool.
From FV Require Import Generated.Consts C05.Model C05.Spec C05.Machine C06.Proofs C06.Others.
Import ListNotations.
Open Scope Z_scope.

(* "Cancelling a timer returns true exactly when the timer was still pending": the answer
   is the membership of the id in the refer map — the same map Size counts (distinct ids)
   and IsScheduled reports — at the linearisation point of the call. *)
Theorem c06_cancel_iff_pending : forall m id,
  reachable m ->
  (exists b, snd (step m (Cancel id)) = OBool b true) <-> snd (step m (IsSched id)) = OFlag true.
Proof. exact cancel_iff_sched. Qed.
Print Assumptions c06_cancel_iff_pending.

Theorem c06_size_counts_scheduled : forall m,
  reachable m ->
  snd (step m Size) = ONum (Z.of_nat (length (srefer m))) /\ NoDup (srefer m) /\
  (forall id, snd (step m (IsSched id)) = OFlag true <-> In id (srefer m)).
Proof. exact size_counts. Qed.
Print Assumptions c06_size_counts_scheduled.

(* "after a true return that timer is never delivered and is no longer counted or reported
   as scheduled": for EVERY continuation of the history — whatever the order of the
   worker's handling of the start request, of ticks and of other requests. *)
Theorem c06_cancel_final : forall m id ops,
  reachable m -> fits m ops -> mem id (srefer m) = true ->
  let m1 := fst (step m (Cancel id)) in
  (forall l, In (ODeliv l) (snd (run m1 ops)) -> ~ In id (map fst l)) /\
  ~ In id (srefer (fst (run m1 ops))) /\
  snd (step (fst (run m1 ops)) (IsSched id)) = OFlag false /\
  snd (step (fst (run m1 ops)) (Cancel id)) = OBool false false.
Proof. exact cancel_final. Qed.
Print Assumptions c06_cancel_final.

(* the same for an id that left the map in any way (delivered one-shot, cancelled) *)
Theorem c06_gone_forever : forall id ops m,
  reachable m -> fits m ops -> gone id m ->
  gone id (fst (run m ops)) /\
  (forall l, In (ODeliv l) (snd (run m ops)) -> ~ In id (map fst l)).
Proof. exact gone_forever. Qed.
Print Assumptions c06_gone_forever.

(* what a tick delivers was scheduled when the tick began *)
Theorem c06_delivered_were_scheduled : forall m l,
  reachable m -> snd (step m Tick) = ODeliv l -> forall x, In x l -> In (fst x) (srefer m).
Proof. exact tick_deliv_sched. Qed.
Print Assumptions c06_delivered_were_scheduled.

(* "cancelling an unknown, already delivered or already cancelled one-shot timer returns
   false and disturbs no other timer": the state does not change at all. *)
Theorem c06_cancel_false_inert : forall m id,
  mem id (srefer m) = false -> step m (Cancel id) = (m, OBool false false).
Proof. exact cancel_false_inert. Qed.
Print Assumptions c06_cancel_false_inert.

(* "... and disturbs no other timer": a successful Cancel of timer i changes nothing for
   the other timers.  Compare, from any reachable state, the run that starts with Cancel i
   and the run that does not, under the SAME continuation (any list of API calls and
   worker steps): both hand out the same ids, give the same Cancel / IsScheduled answers
   for every other id, and each tick step delivers the same multiset of (id, due) pairs
   apart from those of i (each delivery list is in due order by c05_*_order).  [oth_allc]
   is that position-wise relation (C06/Others.v). *)
Theorem c06_others_undisturbed : forall m i ops,
  reachable m -> fits m ops -> mem i (srefer m) = true ->
  oth_allc i ops (snd (run (fst (step m (Cancel i))) ops)) (snd (run m ops)).
Proof. exact others_undisturbed. Qed.
Print Assumptions c06_others_undisturbed.

(* "no such ordering crashes or corrupts the scheduler": in every reachable state the
   worker never links a node that is linked already (the panic of bucket.addNode / the
   corruption of the heap's index bookkeeping), and no two nodes share an id. *)
Theorem c06_no_crash : forall m n q,
  reachable m -> spadd m = n :: q ->
  ~ In (nid n) (map nid (core_content (score m))) /\ ~ In (nid n) (map nid q) /\
  NoDup (map nid (core_content (score m))).
Proof. exact no_double_link. Qed.
Print Assumptions c06_no_crash.

(* "timer ids handed out are unique among pending timers" — and never reused at all. *)
Theorem c06_ids_unique : forall m d,
  reachable m -> snext m + 1 < 2 ^ 63 ->
  exists b id, snd (step m (Start d)) = OId b id /\ id = snext m + 1 /\
               ~ In id (srefer m) /\ ~ In id (all_ids m) /\ ~ In id (spdel m) /\
               NoDup (srefer (fst (step m (Start d)))).
Proof. exact start_fresh. Qed.
Print Assumptions c06_ids_unique.

Theorem c06_ids_unique_every : forall m p,
  reachable m -> snext m + 1 < 2 ^ 63 ->
  exists b id, snd (step m (Every p)) = OId b id /\ id = snext m + 1 /\
               ~ In id (srefer m) /\ ~ In id (all_ids m) /\ ~ In id (spdel m) /\
               NoDup (srefer (fst (step m (Every p)))).
Proof. exact every_fresh. Qed.
Print Assumptions c06_ids_unique_every.

(* ... and across the wrap of the id counter: in ANY state, with the counter anywhere in
   its range, the id a start hands out is positive and not in use — unless all 10^4
   candidates nextID() probes are in use (then the code gives up and returns a used one). *)
Theorem c06_ids_unique_wrap : forall m d,
  ~ exhausted (Z.to_nat 10000) (wrap64 (snext m + 1)) (srefer m) ->
  exists b id, snd (step m (Start d)) = OId b id /\ 0 < id /\ ~ In id (srefer m).
Proof. exact start_unique_wrap. Qed.
Print Assumptions c06_ids_unique_wrap.

Theorem c06_reachable_from_fresh : forall ops,
  short ops ->
  (forall cur tt, 0 <= cur -> reachable (fst (run (init_wheel cur tt) ops))) /\
  (forall now, reachable (fst (run (init_heap now) ops))).
Proof. exact reachable_fresh. Qed.
Print Assumptions c06_reachable_from_fresh.

(* "no such ordering stalls the scheduler": whenever a request is pending the worker's arm
   for it is enabled and consumes it, the ticker arm is always enabled; no step waits for
   another (the API calls' critical sections are single steps: the request is sent after
   the mutex is released). *)
Theorem c06_no_stall : forall m,
  (spadd m <> [] -> snd (step m HandleAdd) = OFlag true) /\
  (spdel m <> [] -> snd (step m HandleDel) = OFlag true) /\
  (exists l, snd (step m Tick) = ODeliv l).
Proof. exact worker_enabled. Qed.
Print Assumptions c06_no_stall.

Theorem c06_requests_consumed : forall m,
  length (spadd (fst (step m HandleAdd))) = pred (length (spadd m)) /\
  length (spdel (fst (step m HandleDel))) = pred (length (spdel m)).
Proof. exact requests_consumed. Qed.
Print Assumptions c06_requests_consumed.

(* non-vacuity: the histories that crashed the unrepaired code, computed by the model.
   [Start; Cancel; HandleDel; HandleAdd; ticks]: cancel overtakes its own start.
   [Start 1; HandleAdd; Cancel; Tick; HandleDel]: cancel meets the expiry. *)
Example c06_example_overtake :
  snd (run (init_heap 0) [Start 5; Cancel 1; HandleDel; HandleAdd; Pass 9; Tick; Size; Cancel 1])
  = [OId false 1; OBool false true; OFlag true; OFlag true; ONone; ODeliv []; ONum 0; OBool false false].
Proof. vm_compute. reflexivity. Qed.

Example c06_example_expiry_race :
  snd (run (init_wheel 1000 0) [Start 1; Start 1; HandleAdd; HandleAdd; Cancel 1; Pass 1; Tick; HandleDel; Size])
  = [OId false 1; OId false 2; OFlag true; OFlag true; OBool false true; ONone; ODeliv [(2, 1)]; OFlag true; ONum 0].
Proof. vm_compute. reflexivity. Qed.

Example c06_example_others :
  oth_allc 1 [HandleAdd; HandleAdd; Pass 3; Tick; IsSched 2; Cancel 2]
    (snd (run (fst (step (fst (run (init_heap 0) [Start 2; Start 3])) (Cancel 1))) [HandleAdd; HandleAdd; Pass 3; Tick; IsSched 2; Cancel 2]))
    (snd (run (fst (run (init_heap 0) [Start 2; Start 3])) [HandleAdd; HandleAdd; Pass 3; Tick; IsSched 2; Cancel 2])).
Proof.
  apply c06_others_undisturbed; [apply (reachable_from_heap 0 [Start 2; Start 3]); vm_compute; reflexivity|vm_compute; reflexivity|reflexivity].
Qed.

Example c06_example_reachable :
  reachable (fst (run (init_wheel 1000 0) [Start 1; HandleAdd])) /\
  mem 1 (srefer (fst (run (init_wheel 1000 0) [Start 1; HandleAdd]))) = true.
Proof. split; [apply reachable_from_wheel; [discriminate|vm_compute; reflexivity]|reflexivity]. Qed.
