(* C06/SourceHeap.v - the heap theorems restated on the REGENERATED code.

   C06/Source.v proves that the Gallina functions the translator regenerates from
   sched/timerqueue.go and GOROOT/src/container/heap on every run (Generated/TimerHeap.v)
   compute the hand-written array operations of C05/HeapArr.v; C05/HeapOps.v proves what
   those operations do.  Composed here, so that the statements speak about the generated
   functions directly: what the code of heap.Remove / heap.Pop / heap.Fix / heap.Push (up)
   leaves in the array is a heap again, with every node's index field equal to its
   position, and exactly the intended node has gone / come in. *)

From Coq Require Import ZArith List Bool Arith Lia Permutation.
From FV Require Import Generated.Consts Generated.TimerHeap Lib.GoSem C05.Model C05.HeapArr C05.HeapOps C06.Source.
Import ListNotations.
Local Open Scope Z_scope.

(* heap.Remove(h, i) up to its final h.Pop(): the array l1 it leaves has node i in the
   last place; timerHeap.Pop (repo_pop) takes exactly that node off, the rest is a heap *)
Lemma src_remove_exact l i fuel :
  harr_ok l -> (i < length l)%nat -> Z.of_nat (length l) < 2 ^ 61 -> (length l <= fuel)%nat ->
  exists l1,
    (let '(ids, idxs, dls, pers) := cols l in
     go_heap_Remove_timerHeap_prefix fuel ids idxs dls pers (Z.of_nat (length l)) (Z.of_nat i) =
     Ok (let '(ids', idxs', dls', pers') := cols l1 in
         Reached (Z.of_nat i, Z.of_nat (length l - 1), ids', idxs', dls', pers'))) /\
    let '(l', x) := repo_pop l1 in
    harr_ok l' /\ hn x = hn (hget l i) /\ hidx x = (-1)%Z /\
    Permutation (map hn l) (hn x :: map hn l') /\ length l' = (length l - 1)%nat.
Proof.
  intros Hok Hi Hl Hf.
  exists (let n := (length l - 1)%nat in
          if (n =? i)%nat then l
          else let '(l2, i') := down (length l) (hswap l i n) i n in
               if (i <? i')%nat then l2 else up (length l) l2 i).
  split; [exact (src_remove l i fuel Hi Hl Hf)|].
  rewrite <- heap_remove_sift. exact (heap_remove_spec l i Hok Hi).
Qed.

(* heap.Pop(h) up to its final h.Pop(): the root goes, the rest is a heap *)
Lemma src_pop_exact l fuel :
  harr_ok l -> l <> [] -> Z.of_nat (length l) < 2 ^ 61 -> (length l <= fuel)%nat ->
  exists l1,
    (let '(ids, idxs, dls, pers) := cols l in
     go_heap_Pop_timerHeap_prefix fuel ids idxs dls pers (Z.of_nat (length l)) =
     Ok (let '(ids', idxs', dls', pers') := cols l1 in
         Reached (Z.of_nat (length l - 1), ids', idxs', dls', pers'))) /\
    let '(l', x) := repo_pop l1 in
    harr_ok l' /\ hn x = hn (hget l 0) /\ hidx x = (-1)%Z /\
    Permutation (map hn l) (hn x :: map hn l') /\ length l' = (length l - 1)%nat.
Proof.
  intros Hok Hne Hl Hf.
  assert (H0 : (0 < length l)%nat) by (destruct l; [contradiction|cbn; lia]).
  exists (fst (down (length l) (hswap l 0 (length l - 1)) 0 (length l - 1))).
  split; [exact (src_pop l fuel H0 Hl Hf)|].
  rewrite <- heap_pop_sift. exact (heap_pop_spec l Hok Hne).
Qed.

(* heap.Fix(h, 0) after the root was given a new deadline (the re-arm of a repeating
   timer in trigger): a heap again, same nodes *)
Lemma src_fix_root_exact l x fuel :
  harr_ok l -> l <> [] -> hidx x = 0%Z -> Z.of_nat (length l) < 2 ^ 61 -> (length l <= fuel)%nat ->
  (let '(ids, idxs, dls, pers) := cols (hupd l 0 x) in
   go_heap_Fix_timerHeap fuel ids idxs dls pers (Z.of_nat (length l)) 0 =
   Ok (cols (heap_fix (hupd l 0 x) 0))) /\
  harr_ok (heap_fix (hupd l 0 x) 0) /\
  Permutation (map hn (heap_fix (hupd l 0 x) 0)) (hn x :: tl (map hn l)) /\
  length (heap_fix (hupd l 0 x) 0) = length l.
Proof.
  intros Hok Hne Hx Hl Hf.
  assert (H0 : (0 < length l)%nat) by (destruct l; [contradiction|cbn; lia]).
  split; [|exact (heap_fix_root_spec l x Hok Hne Hx)].
  pose proof (src_fix (hupd l 0 x) 0 fuel) as F. rewrite hupd_length in F.
  exact (F H0 Hl Hf).
Qed.

(* heap.Push(h, x): timerHeap.Push appends the node with index = len, then up(h, len) *)
Lemma src_push_exact l x fuel :
  harr_ok l -> Z.of_nat (length l) + 1 < 2 ^ 61 -> (length l < fuel)%nat ->
  (let '(ids, idxs, dls, pers) := cols (repo_push l x) in
   go_heap_up_timerHeap fuel ids idxs dls pers (Z.of_nat (length l)) = Ok (cols (heap_push l x))) /\
  harr_ok (heap_push l x) /\ Permutation (map hn (heap_push l x)) (x :: map hn l) /\
  length (heap_push l x) = S (length l).
Proof.
  intros Hok Hl Hf. split; [|exact (heap_push_spec l x Hok)].
  assert (Hlen : length (repo_push l x) = S (length l)) by (unfold repo_push; rewrite app_length; cbn; lia).
  pose proof (src_up (repo_push l x) (length l) fuel) as U. rewrite Hlen in U.
  unfold heap_push. rewrite Hlen. replace (S (length l) - 1)%nat with (length l) by lia.
  apply U; lia.
Qed.
