(* C09 — lemmas about the snowflake model.  Constants are unfolded from Generated/Consts.v:
   a changed width, shift, mask or limit re-opens the obligations below. *)
From Coq Require Import ZArith List Bool Lia Sorted.
From FV Require Import Generated.Consts Lib.Bits C09.Model.
Import ListNotations.
Open Scope Z_scope.

(* ------------------------------------------------------------------------------------ *)
(* field geometry: pure arithmetic on the generated constants                            *)

Definition fields_ok : Prop :=
  x_uuid_MaxSeqID = 2 ^ x_uuid_SequenceBits - 1 /\
  x_uuid_MachineIDMask = 2 ^ x_uuid_MachineIDBits - 1 /\
  x_uuid_MaxTimeUnits = 2 ^ x_uuid_TimeUnitBits - 1 /\
  x_uuid_TimestampShift = x_uuid_SequenceBits + x_uuid_MachineIDBits /\
  x_uuid_BackwardsMaskShift = x_uuid_TimestampShift + x_uuid_TimeUnitBits /\
  x_uuid_BackwardsMaskShift + 2 = 63 /\
  0 < x_uuid_SequenceBits /\ 0 < x_uuid_MachineIDBits /\ 0 < x_uuid_TimeUnitBits.

Lemma fields_disjoint : fields_ok.
Proof. unfold fields_ok. repeat split; reflexivity. Qed.

(* concrete values, for the arithmetic below *)
Ltac consts :=
  unfold x_uuid_MaxSeqID, x_uuid_MachineIDMask, x_uuid_MaxTimeUnits, x_uuid_TimestampShift,
         x_uuid_BackwardsMaskShift, x_uuid_SequenceBits, x_uuid_MachineIDBits, x_uuid_TimeUnitBits in *.

Definition maxTU := x_uuid_MaxTimeUnits.
Definition maxSeq := x_uuid_MaxSeqID.

(* the id as a sum of non-overlapping fields *)
Definition arith (b ts m s : Z) : Z := b * 2 ^ 61 + ts * 2 ^ 24 + m * 2 ^ 10 + s.

Lemma int64_spec v : int64 v = (v + 2 ^ 63) mod 2 ^ 64 - 2 ^ 63.
Proof.
  unfold int64. change p63 with (2 ^ 63). change p64 with (2 ^ 64).
  destruct ((- 2 ^ 63 <=? v) && (v <? 2 ^ 63)) eqn:E; [|reflexivity].
  rewrite Z.mod_small; lia.
Qed.

Lemma int64_small v : - 2 ^ 63 <= v < 2 ^ 63 -> int64 v = v.
Proof. intros H. rewrite int64_spec. rewrite Z.mod_small; lia. Qed.

Lemma shl64_small a k : 0 <= k -> - 2 ^ 63 <= a * 2 ^ k < 2 ^ 63 -> shl64 a k = Z.shiftl a k.
Proof.
  intros Hk H. unfold shl64. rewrite Z.shiftl_mul_pow2 by assumption. apply int64_small. assumption.
Qed.

Lemma compose_arith b ts m s :
  0 <= b <= 3 -> 0 <= ts <= maxTU -> 0 <= m < 2 ^ 14 -> 0 <= s <= maxSeq ->
  compose b ts m s = arith b ts m s.
Proof.
  unfold maxTU, maxSeq, compose, arith. consts. intros Hb Ht Hm Hs.
  rewrite !shl64_small by lia.
  rewrite <- !Z.lor_assoc.
  rewrite (lor_shiftl_add m s 10) by lia.
  rewrite (lor_shiftl_add ts _ 24) by lia.
  rewrite (lor_shiftl_add b _ 61) by lia.
  lia.
Qed.

Lemma arith_range b ts m s :
  0 <= b <= 3 -> 0 <= ts <= maxTU -> 0 <= m < 2 ^ 14 -> 0 <= s <= maxSeq ->
  0 <= arith b ts m s < 2 ^ 63.
Proof. unfold maxTU, maxSeq, arith. consts. lia. Qed.

(* a reading before the epoch (but not absurdly far) makes the composed value negative *)
Lemma compose_negative b ts m s :
  0 <= b <= 3 -> - 2 ^ 39 <= ts < 0 -> 0 <= m < 2 ^ 14 -> 0 <= s <= maxSeq ->
  compose b ts m s < 0.
Proof.
  unfold maxSeq, compose. consts. intros Hb Ht Hm Hs.
  rewrite !shl64_small by lia.
  apply Z.lor_neg. left. apply Z.lor_neg. left. apply Z.lor_neg. right.
  rewrite Z.shiftl_mul_pow2 by lia. lia.
Qed.

(* whatever the time and rollback values are (even wrapped ones), the low 24 bits of the id are
   the machine field and the sequence *)
Lemma int64_shiftl_high x k : 24 <= k -> exists A, shl64 x k = Z.shiftl A 24.
Proof.
  intros Hk. unfold shl64. rewrite int64_spec.
  replace (Z.shiftl x k) with (Z.shiftl x (k - 24) * 2 ^ 24).
  2:{ rewrite <- Z.shiftl_mul_pow2 by lia. rewrite Z.shiftl_shiftl by lia. f_equal. lia. }
  set (y := Z.shiftl x (k - 24)).
  exists ((y + 2 ^ 39) mod 2 ^ 40 - 2 ^ 39).
  rewrite Z.shiftl_mul_pow2 by lia.
  replace (y * 2 ^ 24 + 2 ^ 63) with (2 ^ 24 * (y + 2 ^ 39)) by lia.
  replace (2 ^ 64) with (2 ^ 24 * 2 ^ 40) by lia.
  rewrite Z.mul_mod_distr_l by lia. lia.
Qed.

Lemma compose_low b ts m s :
  0 <= m < 2 ^ 14 -> 0 <= s <= maxSeq ->
  exists A, compose b ts m s = A * 2 ^ 24 + m * 2 ^ 10 + s.
Proof.
  unfold maxSeq, compose. consts. intros Hm Hs.
  destruct (int64_shiftl_high b 61 ltac:(lia)) as [B ->].
  destruct (int64_shiftl_high ts 24 ltac:(lia)) as [T ->].
  rewrite <- Z.shiftl_lor.
  rewrite (shl64_small m 10) by lia.
  rewrite <- !Z.lor_assoc.
  rewrite (lor_shiftl_add m s 10) by lia.
  rewrite (lor_shiftl_add _ _ 24) by lia.
  exists (Z.lor B T). lia.
Qed.

(* ------------------------------------------------------------------------------------ *)
(* taking an id apart                                                                    *)
Ltac Zify.zify_post_hook ::= Z.div_mod_to_equations.

Lemma decode_arith b ts m s :
  0 <= b <= 3 -> 0 <= ts <= maxTU -> 0 <= m < 2 ^ 14 -> 0 <= s <= maxSeq ->
  decode (arith b ts m s) = (b, ts, m, s).
Proof.
  unfold maxTU, maxSeq, decode, id_bc, id_time, id_machine, id_seq, arith. consts.
  intros Hb Ht Hm Hs.
  rewrite !shiftr_div by lia.
  change 137438953471 with (2 ^ 37 - 1). change 1023 with (2 ^ 10 - 1).
  rewrite !land_ones_mod by lia.
  repeat f_equal; lia.
Qed.

Lemma id_machine_low A m s :
  0 <= m < 2 ^ 14 -> 0 <= s <= maxSeq -> id_machine (A * 2 ^ 24 + m * 2 ^ 10 + s) = m.
Proof.
  unfold maxSeq, id_machine. consts. intros Hm Hs.
  rewrite shiftr_div by lia. rewrite land_ones_mod by lia. lia.
Qed.

(* NewSnowflake keeps the low MachineIDBits bits of the machine id *)
Lemma machine_field mid : 0 <= Z.land mid x_uuid_MachineIDMask < 2 ^ 14 /\
                          Z.land mid x_uuid_MachineIDMask = mid mod 2 ^ x_uuid_MachineIDBits.
Proof.
  consts. change 16383 with (2 ^ 14 - 1). rewrite land_ones_mod by lia. lia.
Qed.

(* ------------------------------------------------------------------------------------ *)
(* one call of Next                                                                      *)

Lemma wait_spec ts clk now rest :
  wait ts clk = Some (now, rest) ->
  ts < now /\ exists pre, clk = pre ++ now :: rest /\ Forall (fun x => x <= ts) pre.
Proof.
  revert now rest. induction clk as [|x clk IH]; intros now rest H; cbn [wait] in H; [discriminate|].
  destruct (x >? ts) eqn:E.
  - inversion H; subst. split; [lia|]. exists []. split; [reflexivity | constructor].
  - destruct (IH _ _ H) as [Hlt [pre [-> Hpre]]]. split; [assumption|].
    exists (x :: pre). split; [reflexivity|]. constructor; [lia | assumption].
Qed.

Definition with_rest (r : outcome * sf) (rest : list Z) : outcome * sf * list Z :=
  let '(o, st') := r in (o, st', rest).

Definition next_b (st : sf) (t : Z) : Z := if t <? lastTU st then bc st + 1 else bc st.

(* case analysis of Next, following the code's branches *)
Lemma next_elim (P : outcome * sf * list Z -> Prop) st t rest :
  (maxTU < t -> P (ErrTimeUnitOverflow, st, rest)) ->
  (t <= maxTU -> t < lastTU st -> 3 <= bc st -> P (ErrClockGoneBackwards, st, rest)) ->
  (t <= maxTU -> t = lastTU st -> seq st + 1 <= maxSeq ->
     P (with_rest (finish st (bc st) t (seq st + 1)) rest)) ->
  (t <= maxTU -> t <> lastTU st -> ~ (t < lastTU st /\ 3 <= bc st) ->
     P (with_rest (finish st (next_b st t) t 0) rest)) ->
  (t <= maxTU -> t = lastTU st -> maxSeq < seq st + 1 -> wait t rest = None ->
     P (Blocked, mkSf (machine st) 0 (lastTU st) (lastID st) (bc st), [])) ->
  (forall now rest', t <= maxTU -> t = lastTU st -> maxSeq < seq st + 1 ->
     wait t rest = Some (now, rest') -> maxTU < now ->
     P (ErrTimeUnitOverflow, mkSf (machine st) 0 (lastTU st) (lastID st) (bc st), rest')) ->
  (forall now rest', t <= maxTU -> t = lastTU st -> maxSeq < seq st + 1 ->
     wait t rest = Some (now, rest') -> now <= maxTU ->
     P (with_rest (finish st (bc st) now 0) rest')) ->
  P (next (t :: rest) st).
Proof.
  intros H1 H2 H3 H4 H5 H6 H7. unfold next, maxTU, maxSeq in *.
  destruct (t >? x_uuid_MaxTimeUnits) eqn:E1; [apply H1; lia|].
  destruct (t <? lastTU st) eqn:E2; cbn [andb].
  - destruct (bc st >=? 3) eqn:E3; [apply H2; lia|].
    destruct (t =? lastTU st) eqn:E4; [lia|].
    specialize (H4 ltac:(lia) ltac:(lia) ltac:(lia)). unfold next_b in H4. rewrite E2 in H4.
    unfold with_rest in H4. destruct (finish st (bc st + 1) t 0). exact H4.
  - destruct (t =? lastTU st) eqn:E4.
    + destruct (seq st + 1 >? x_uuid_MaxSeqID) eqn:E5.
      * destruct (wait t rest) as [[now rest']|] eqn:W.
        -- destruct (now >? x_uuid_MaxTimeUnits) eqn:E6.
           ++ apply (H6 now rest'); try lia. reflexivity.
           ++ specialize (H7 now rest' ltac:(lia) ltac:(lia) ltac:(lia) eq_refl ltac:(lia)).
              unfold with_rest in H7. destruct (finish st (bc st) now 0). exact H7.
        -- apply H5; try lia. reflexivity.
      * specialize (H3 ltac:(lia) ltac:(lia) ltac:(lia)).
        unfold with_rest in H3. destruct (finish st (bc st) t (seq st + 1)). exact H3.
    + specialize (H4 ltac:(lia) ltac:(lia) ltac:(lia)). unfold next_b in H4. rewrite E2 in H4.
      unfold with_rest in H4. destruct (finish st (bc st) t 0). exact H4.
Qed.

Lemma finish_elim (P : outcome * sf -> Prop) st b ts s :
  (compose b ts (machine st) s <= lastID st ->
     P (ErrUUIDIntOverflow, mkSf (machine st) s ts (lastID st) b)) ->
  (lastID st < compose b ts (machine st) s ->
     P (Ok (compose b ts (machine st) s), mkSf (machine st) s ts (compose b ts (machine st) s) b)) ->
  P (finish st b ts s).
Proof.
  intros H1 H2. unfold finish.
  destruct (compose b ts (machine st) s <=? lastID st) eqn:E; [apply H1 | apply H2]; lia.
Qed.

(* ------------------------------------------------------------------------------------ *)
(* sentence 1: ids strictly increase — for every state and every clock, by the final guard *)

Definition step_mono (st : sf) (r : outcome * sf * list Z) : Prop :=
  let '(o, st', _) := r in
  match o with
  | Ok id => lastID st < id /\ lastID st' = id
  | _ => lastID st' = lastID st
  end.

Lemma finish_mono st b ts s rest : step_mono st (with_rest (finish st b ts s) rest).
Proof. apply finish_elim; intros; cbn; auto. Qed.

Lemma next_mono clk st : step_mono st (next clk st).
Proof.
  destruct clk as [|t rest]; [reflexivity|].
  apply next_elim; intros; try apply finish_mono; reflexivity.
Qed.

Lemma run_increasing fuel : forall clk st,
  Forall (fun id => lastID st < id) (ok_ids (outcomes (run fuel clk st))) /\
  StronglySorted Z.lt (ok_ids (outcomes (run fuel clk st))).
Proof.
  induction fuel as [|f IH]; intros clk st; cbn [run]; [split; constructor|].
  destruct clk as [|t rest]; [split; constructor|].
  pose proof (next_mono (t :: rest) st) as M.
  destruct (next (t :: rest) st) as [[o st'] rest'] eqn:E. unfold step_mono in M.
  unfold outcomes. cbn [map snd ok_ids]. fold (outcomes (run f rest' st')).
  destruct (IH rest' st') as [IH1 IH2].
  destruct o; cbn [ok_ids outcomes map].
  2-4: rewrite M in IH1; split; assumption.
  2: split; constructor.
  destruct M as [M1 M2]. rewrite M2 in IH1. split.
  - constructor; [exact M1|]. apply Forall_impl with (P := fun id0 => id < id0); [intros; lia | exact IH1].
  - constructor; assumption.
Qed.

Lemma sorted_nodup l : StronglySorted Z.lt l -> NoDup l.
Proof.
  induction 1 as [|a l Hs IH Hf]; constructor; [|assumption].
  intro Hin. rewrite Forall_forall in Hf. specialize (Hf _ Hin). lia.
Qed.

(* ------------------------------------------------------------------------------------ *)
(* well-formed states: preserved by every call, whatever the clock                       *)

Definition wf (st : sf) : Prop :=
  0 <= machine st < 2 ^ 14 /\ 0 <= seq st <= maxSeq /\ 0 <= bc st <= 3 /\ 0 <= lastID st.

Lemma wf_new mid t0 : wf (new_sf mid t0).
Proof.
  unfold wf, new_sf, maxSeq; cbn. pose proof (machine_field mid). consts. lia.
Qed.

Definition step_wf (st : sf) (r : outcome * sf * list Z) : Prop :=
  let '(_, st', _) := r in wf st' /\ machine st' = machine st.

Lemma finish_wf st b s ts rest :
  wf st -> 0 <= b <= 3 -> 0 <= s <= maxSeq -> step_wf st (with_rest (finish st b ts s) rest).
Proof.
  intros (Hm & Hs & Hb & Hl) Hb' Hs'. apply finish_elim; intros; cbn; unfold wf; cbn; repeat split; lia.
Qed.

Lemma next_wf clk st : wf st -> step_wf st (next clk st).
Proof.
  intros W. destruct clk as [|t rest]; [cbn; auto|].
  pose proof W as (Hm & Hs & Hb & Hl).
  assert (Z0 : 0 <= 0 <= maxSeq) by (unfold maxSeq; consts; lia).
  apply next_elim; intros; try (apply finish_wf; try assumption; unfold next_b; try destruct (t <? lastTU st) eqn:?; lia);
    cbn; try (split; [assumption | reflexivity]);
    (split; [unfold wf; cbn; repeat split; lia | reflexivity]).
Qed.

(* ------------------------------------------------------------------------------------ *)
(* sentence 2: an id decodes to the values that produced it                              *)

(* readings not earlier than 2^39 units (174 years) before the epoch: below that the shifted
   time wraps around int64 *)
Definition sane (t : Z) : Prop := - 2 ^ 39 <= t.

Definition step_decode (st : sf) (clk : list Z) (r : outcome * sf * list Z) : Prop :=
  let '(o, st', _) := r in
  match o with
  | Ok id =>
      id = arith (bc st') (lastTU st') (machine st) (seq st') /\
      decode id = (bc st', lastTU st', machine st, seq st') /\
      0 <= lastTU st' <= maxTU /\ In (lastTU st') clk /\ 0 < id < 2 ^ 63
  | _ => True
  end.

Lemma finish_decode st b ts s clk rest :
  wf st -> 0 <= b <= 3 -> 0 <= s <= maxSeq -> sane ts -> ts <= maxTU -> In ts clk ->
  step_decode st clk (with_rest (finish st b ts s) rest).
Proof.
  intros (Hm & Hs & Hb & Hl) Hb' Hs' Hsane Hts Hin. apply finish_elim; intros Hc; cbn; [exact I|].
  destruct (Z.lt_ge_cases ts 0) as [Hneg|Hpos].
  - pose proof (compose_negative b ts (machine st) s Hb' (conj Hsane Hneg) Hm Hs'). lia.
  - rewrite compose_arith in * by (try assumption; lia).
    pose proof (arith_range b ts (machine st) s Hb' (conj Hpos Hts) Hm Hs').
    repeat split; try assumption; try lia.
    apply decode_arith; try assumption; lia.
Qed.

Lemma next_decode clk st : wf st -> Forall sane clk -> step_decode st clk (next clk st).
Proof.
  intros W S. destruct clk as [|t rest]; [exact I|].
  pose proof W as (Hm & Hs & Hb & Hl).
  assert (Z0 : 0 <= 0 <= maxSeq) by (unfold maxSeq; consts; lia).
  assert (St : sane t) by (inversion S; assumption).
  apply next_elim; intros; try exact I;
    try (apply finish_decode; try assumption; try (left; reflexivity);
         unfold next_b; try destruct (t <? lastTU st) eqn:?; lia).
  (* after the wait *)
  match goal with Hw : wait _ _ = Some _ |- _ => destruct (wait_spec _ _ _ _ Hw) as [Hlt [pre [-> Hpre]]] end.
  apply finish_decode; try assumption; try lia.
  - inversion S as [|? ? _ S']; subst. rewrite Forall_app in S'. destruct S' as [_ S']. inversion S'; assumption.
  - right. apply in_or_app. right. left. reflexivity.
Qed.

(* machine field of every id, with no assumption on the clock *)
Definition step_machine (st : sf) (r : outcome * sf * list Z) : Prop :=
  let '(o, _, _) := r in
  match o with Ok id => id_machine id = machine st | _ => True end.

Lemma finish_machine st b ts s rest :
  wf st -> 0 <= s <= maxSeq -> step_machine st (with_rest (finish st b ts s) rest).
Proof.
  intros (Hm & _) Hs. apply finish_elim; intros _; cbn; [exact I|].
  destruct (compose_low b ts (machine st) s Hm Hs) as [A ->].
  apply id_machine_low; assumption.
Qed.

Lemma next_machine clk st : wf st -> step_machine st (next clk st).
Proof.
  intros W. destruct clk as [|t rest]; [exact I|].
  pose proof W as (Hm & Hs & Hb & Hl).
  assert (Z0 : 0 <= 0 <= maxSeq) by (unfold maxSeq; consts; lia).
  apply next_elim; intros; try exact I; apply finish_machine; try assumption; lia.
Qed.

(* ------------------------------------------------------------------------------------ *)
(* traces: what holds of every entry of a generator's life                               *)

Definition entry_ok (R : sf -> list Z -> outcome * sf * list Z -> Prop) (e : sf * list Z * outcome) : Prop :=
  let '(st, clk, o) := e in R st clk (next clk st) /\ o = fst (fst (next clk st)).

(* the rest of the clock is a suffix of the clock *)
Lemma next_suffix clk st : exists pre, clk = pre ++ snd (next clk st).
Proof.
  destruct clk as [|t rest]; [exists []; reflexivity|].
  apply next_elim; intros; unfold with_rest;
    try match goal with |- context [finish ?a ?b ?c ?d] => destruct (finish a b c d) end; cbn [snd];
    try (exists [t]; reflexivity);
    try (exists (t :: rest); rewrite app_nil_r; reflexivity);
    match goal with Hw : wait _ _ = Some _ |- _ => destruct (wait_spec _ _ _ _ Hw) as [_ [pre [-> _]]] end;
    exists (t :: pre ++ [now]); cbn; rewrite <- app_assoc; reflexivity.
Qed.

Lemma run_entries (I : sf -> Prop) (Q : Z -> Prop) (R : sf -> list Z -> outcome * sf * list Z -> Prop) :
  (forall st clk, I st -> Forall Q clk -> I (snd (fst (next clk st)))) ->
  (forall st clk, I st -> Forall Q clk -> R st clk (next clk st)) ->
  forall fuel clk st, I st -> Forall Q clk -> Forall (entry_ok R) (run fuel clk st).
Proof.
  intros HI HR. induction fuel as [|f IH]; intros clk st Hst Hclk; cbn [run]; [constructor|].
  destruct clk as [|t rest]; [constructor|].
  pose proof (HI _ _ Hst Hclk) as HI'. pose proof (HR _ _ Hst Hclk) as HR'.
  destruct (next_suffix (t :: rest) st) as [pre Hpre].
  destruct (next (t :: rest) st) as [[o st'] rest'] eqn:E. cbn [fst snd] in *.
  assert (Hrest : Forall Q rest').
  { rewrite Hpre in Hclk. apply Forall_app in Hclk. tauto. }
  constructor.
  - unfold entry_ok. rewrite E. split; [assumption | reflexivity].
  - destruct o; try (apply IH; assumption). constructor.
Qed.

Lemma ok_ids_in id tr : In id (ok_ids (outcomes tr)) -> exists st clk, In (st, clk, Ok id) tr.
Proof.
  induction tr as [|[[st clk] o] tr IH]; cbn; [tauto|].
  destruct o; cbn; intros H;
    try (destruct (IH H) as (st' & clk' & Hin); exists st', clk'; right; exact Hin).
  destruct H as [->|H].
  - exists st, clk. left. reflexivity.
  - destruct (IH H) as (st' & clk' & Hin). exists st', clk'. right. exact Hin.
Qed.

(* every state a generator reaches is well-formed and carries the machine field it was given *)
Definition wfm (m : Z) (st : sf) : Prop := wf st /\ machine st = m.

Lemma wfm_next m st clk : wfm m st -> Forall (fun _ => True) clk -> wfm m (snd (fst (next clk st))).
Proof.
  intros [W M] _. pose proof (next_wf clk st W) as H. unfold step_wf in H.
  destruct (next clk st) as [[o st'] rest]. cbn. destruct H as [H1 H2]. split; [assumption | congruence].
Qed.

Lemma trace_machine mid t0 clk id :
  In id (ok_ids (outcomes (run_all clk (new_sf mid t0)))) ->
  id_machine id = Z.land mid x_uuid_MachineIDMask.
Proof.
  intros Hin. destruct (ok_ids_in _ _ Hin) as (st & c & He).
  pose proof (run_entries (wfm (Z.land mid x_uuid_MachineIDMask)) (fun _ => True)
                (fun st _ r => step_machine st r /\ machine st = Z.land mid x_uuid_MachineIDMask)) as H.
  assert (T : Forall (fun _ : Z => True) clk) by (apply Forall_forall; auto).
  specialize (H (wfm_next _)).
  assert (HR : forall st clk, wfm (Z.land mid x_uuid_MachineIDMask) st -> Forall (fun _ : Z => True) clk ->
               step_machine st (next clk st) /\ machine st = Z.land mid x_uuid_MachineIDMask).
  { intros s c' [W M] _. split; [apply next_machine; assumption | assumption]. }
  specialize (H HR (length clk) clk (new_sf mid t0) (conj (wf_new mid t0) eq_refl) T).
  rewrite Forall_forall in H. specialize (H _ He). unfold entry_ok in H.
  destruct H as [[H1 H2] H3]. unfold step_machine in H1.
  destruct (next c st) as [[o st'] rest]. cbn in H3. subst o. congruence.
Qed.

Lemma trace_decode mid t0 clk st c id :
  Forall sane clk -> In (st, c, Ok id) (run_all clk (new_sf mid t0)) ->
  step_decode st c (next c st) /\ fst (fst (next c st)) = Ok id /\
  machine st = Z.land mid x_uuid_MachineIDMask.
Proof.
  intros S He.
  pose proof (run_entries (wfm (Z.land mid x_uuid_MachineIDMask)) sane
                (fun st c r => step_decode st c r /\ machine st = Z.land mid x_uuid_MachineIDMask)) as H.
  assert (HI : forall st clk, wfm (Z.land mid x_uuid_MachineIDMask) st -> Forall sane clk ->
               wfm (Z.land mid x_uuid_MachineIDMask) (snd (fst (next clk st)))).
  { intros s c' Hw _. apply wfm_next; [assumption | apply Forall_forall; auto]. }
  assert (HR : forall st clk, wfm (Z.land mid x_uuid_MachineIDMask) st -> Forall sane clk ->
               step_decode st clk (next clk st) /\ machine st = Z.land mid x_uuid_MachineIDMask).
  { intros s c' [W M] Sc. split; [apply next_decode; assumption | assumption]. }
  specialize (H HI HR (length clk) clk (new_sf mid t0) (conj (wf_new mid t0) eq_refl) S).
  rewrite Forall_forall in H. specialize (H _ He). unfold entry_ok in H.
  destruct H as [[H1 H2] H3]. repeat split; try assumption. symmetry. exact H3.
Qed.

(* ------------------------------------------------------------------------------------ *)
(* sentences 3 and 5: inside the supported range the only failure is the fourth rollback  *)

Definition inr (t : Z) : Prop := 0 <= t <= maxTU.

(* what holds of a generator fed with in-range readings: the last id is bounded by the
   composition of the current fields, so the final guard never fires *)
Definition inv (st : sf) : Prop :=
  wf st /\ 0 <= lastTU st <= maxTU /\
  lastID st <= arith (bc st) (lastTU st) (machine st) (seq st).

Lemma inv_new mid t0 : inr t0 -> inv (new_sf mid t0).
Proof.
  intros H. split; [apply wf_new|]. split; [exact H|].
  unfold new_sf, arith; cbn. pose proof (machine_field mid). unfold inr, maxTU in H. consts. lia.
Qed.

Lemma finish_inrange st b ts s rest :
  wf st -> 0 <= b <= 3 -> 0 <= s <= maxSeq -> 0 <= ts <= maxTU ->
  lastID st < arith b ts (machine st) s ->
  with_rest (finish st b ts s) rest =
  (Ok (arith b ts (machine st) s), mkSf (machine st) s ts (arith b ts (machine st) s) b, rest).
Proof.
  intros (Hm & Hs & Hb & Hl) Hb' Hs' Ht Hlt. unfold finish.
  rewrite compose_arith by assumption.
  destruct (arith b ts (machine st) s <=? lastID st) eqn:E; [lia | reflexivity].
Qed.

Definition backward (st : sf) (clk : list Z) : Prop := hd 0 clk < lastTU st.

Definition step_inrange (st : sf) (clk : list Z) (r : outcome * sf * list Z) : Prop :=
  let '(o, st', _) := r in
  match o with
  | Ok _ => inv st' /\
            ((backward st clk /\ bc st < 3 /\ bc st' = bc st + 1) \/
             (~ backward st clk /\ bc st' = bc st))
  | ErrClockGoneBackwards => st' = st /\ backward st clk /\ bc st = 3
  | Blocked => True
  | _ => False
  end.

Ltac simpl_sf := cbn [machine seq bc lastID lastTU].

Lemma inv_after st b ts s :
  wf st -> 0 <= b <= 3 -> 0 <= s <= maxSeq -> 0 <= ts <= maxTU ->
  inv (mkSf (machine st) s ts (arith b ts (machine st) s) b).
Proof.
  intros (Hm & Hs & Hb & Hl) Hb' Hs' Ht.
  pose proof (arith_range b ts (machine st) s Hb' Ht Hm Hs').
  unfold inv, wf; simpl_sf. repeat split; lia.
Qed.

Lemma next_inrange clk st : inv st -> Forall inr clk -> step_inrange st clk (next clk st).
Proof.
  intros (W & HT & HL) S. destruct clk as [|t rest]; [exact I|].
  pose proof W as (Hm & Hs & Hb & Hl).
  assert (St : inr t) by (inversion S; assumption). unfold inr in St.
  assert (Srest : Forall inr rest) by (inversion S; assumption).
  assert (Z0 : 0 <= 0 <= maxSeq) by (unfold maxSeq; consts; lia).
  apply next_elim; unfold step_inrange, backward; cbn [hd].
  - intros; lia.
  - intros; repeat split; lia.
  - intros _ -> Hq.
    rewrite finish_inrange; try assumption; try lia.
    + cbv beta iota. split; [|right; split; [lia | reflexivity]].
      apply inv_after; try assumption; lia.
    + unfold arith in *. lia.
  - intros _ Hne Hnb. unfold next_b. destruct (t <? lastTU st) eqn:E.
    + rewrite finish_inrange; try assumption; try lia.
      * cbv beta iota. split; [|left; repeat split; lia].
        apply inv_after; try assumption; lia.
      * unfold arith, maxTU, maxSeq in *. consts. lia.
    + rewrite finish_inrange; try assumption; try lia.
      * cbv beta iota. split; [|right; split; [lia | reflexivity]].
        apply inv_after; try assumption; lia.
      * unfold arith, maxTU, maxSeq in *. consts. lia.
  - intros; exact I.
  - intros now rest' _ _ _ Hw Hnow. destruct (wait_spec _ _ _ _ Hw) as [_ [pre [-> _]]].
    apply Forall_app in Srest. destruct Srest as [_ Srest]. inversion Srest as [|? ? Hn _]; subst.
    unfold inr in Hn. lia.
  - intros now rest' _ -> Hq Hw Hnow. destruct (wait_spec _ _ _ _ Hw) as [Hlt [pre [-> _]]].
    apply Forall_app in Srest. destruct Srest as [_ Srest]. inversion Srest as [|? ? Hn _]; subst.
    unfold inr in Hn.
    rewrite finish_inrange; try assumption; try lia.
    + cbv beta iota. split; [|right; split; [lia | reflexivity]].
      apply inv_after; try assumption; lia.
    + unfold arith, maxTU, maxSeq in *. consts. lia.
Qed.

(* the rollback counter counts the backward readings seen so far, saturating at 3 *)
Definition is_back (e : sf * list Z * outcome) : bool :=
  let '(st, clk, _) := e in hd 0 clk <? lastTU st.
Definition count_back (tr : list (sf * list Z * outcome)) : Z :=
  Z.of_nat (length (filter is_back tr)).

Definition entry_inrange (n : Z) (e : sf * list Z * outcome) : Prop :=
  let '(st, clk, o) := e in
  bc st = Z.min 3 n /\
  match o with
  | Ok _ | Blocked => True
  | ErrClockGoneBackwards => is_back e = true /\ 3 <= n
  | _ => False
  end /\
  (is_back e = true -> 3 <= n -> o = ErrClockGoneBackwards).

Lemma count_back_cons e tr :
  count_back (e :: tr) = (if is_back e then 1 else 0) + count_back tr.
Proof. unfold count_back. cbn [filter]. destruct (is_back e); cbn [length]; lia. Qed.

Lemma count_back_nonneg tr : 0 <= count_back tr.
Proof. unfold count_back. lia. Qed.

Lemma run_inrange fuel : forall clk st n,
  inv st -> Forall inr clk -> 0 <= n -> bc st = Z.min 3 n ->
  forall pre e post, run fuel clk st = pre ++ e :: post -> entry_inrange (n + count_back pre) e.
Proof.
  induction fuel as [|f IH]; intros clk st n Hinv S Hn Hbc pre e post Hrun; cbn [run] in Hrun.
  { destruct pre; discriminate. }
  destruct clk as [|t rest]; [destruct pre; discriminate|].
  pose proof (next_inrange (t :: rest) st Hinv S) as Hstep.
  destruct (next_suffix (t :: rest) st) as [pfx Hpfx].
  destruct (next (t :: rest) st) as [[o st'] rest'] eqn:E. cbn [snd] in Hpfx.
  assert (S' : Forall inr rest').
  { rewrite Hpfx in S. apply Forall_app in S. tauto. }
  unfold step_inrange, backward in Hstep. cbn [hd] in Hstep.
  destruct pre as [|e0 pre].
  - (* the entry is this call *)
    cbn [app] in Hrun. inversion Hrun as [[He Hpost]]. clear Hrun.
    unfold count_back; cbn [filter length]. rewrite Z.add_0_r.
    unfold entry_inrange, is_back. cbn [hd].
    split; [exact Hbc|].
    destruct o; try contradiction.
    + split; [exact I|]. intros Hb H3. destruct Hstep as [_ [[_ [Hlt _]]|[Hnb _]]]; lia.
    + destruct Hstep as [_ [Hb H3]]. split; [split; lia | reflexivity].
    + split; [exact I|]. intros Hb H3.
      (* Blocked happens only when t = lastTU: not a backward reading *)
      exfalso. revert E. apply next_elim; intros; try discriminate;
        try (unfold with_rest in *; match goal with H : context [finish ?a ?b ?c ?d] |- _ =>
               revert H; apply finish_elim; intros; discriminate end); lia.
  - (* a later entry *)
    cbn [app] in Hrun. inversion Hrun as [[He0 Hrest]]. clear Hrun.
    rewrite count_back_cons. subst e0. unfold is_back at 1. cbn [hd].
    destruct o; try contradiction.
    + destruct Hstep as [Hinv' [[Hb [Hlt Hbc']]|[Hnb Hbc']]].
      * replace (t <? lastTU st) with true by lia.
        replace (n + (1 + count_back pre)) with ((n + 1) + count_back pre) by lia.
        eapply IH; try eassumption; lia.
      * replace (t <? lastTU st) with false by lia. cbn [Z.add].
        eapply IH; try eassumption; lia.
    + destruct Hstep as [-> [Hb H3]].
      replace (t <? lastTU st) with true by lia.
      replace (n + (1 + count_back pre)) with ((n + 1) + count_back pre) by lia.
      eapply IH; try eassumption; lia.
    + destruct pre; discriminate.
Qed.

(* ------------------------------------------------------------------------------------ *)
(* the statements of Properties.v                                                        *)

Lemma increasing_thm mid t0 clk :
  StronglySorted Z.lt (ok_ids (outcomes (run_all clk (new_sf mid t0)))) /\
  Forall (fun id => 0 < id) (ok_ids (outcomes (run_all clk (new_sf mid t0)))) /\
  NoDup (ok_ids (outcomes (run_all clk (new_sf mid t0)))).
Proof.
  destruct (run_increasing (length clk) clk (new_sf mid t0)) as [H1 H2].
  split; [exact H2|]. split; [exact H1|]. apply sorted_nodup. exact H2.
Qed.

Lemma decode_thm mid t0 clk st c id :
  0 <= mid < 65536 -> Forall sane clk ->
  In (st, c, Ok id) (run_all clk (new_sf mid t0)) ->
  let st' := snd (fst (next c st)) in
  decode id = (bc st', lastTU st', mid mod 2 ^ x_uuid_MachineIDBits, seq st') /\
  id = bc st' * 2 ^ 61 + lastTU st' * 2 ^ 24 + (mid mod 2 ^ x_uuid_MachineIDBits) * 2 ^ 10 + seq st' /\
  0 <= bc st' <= 3 /\ 0 <= lastTU st' <= x_uuid_MaxTimeUnits /\ 0 <= seq st' <= x_uuid_MaxSeqID /\
  In (lastTU st') c /\ 0 < id < 2 ^ 63.
Proof.
  intros Hmid S He. destruct (trace_decode mid t0 clk st c id S He) as (Hd & Ho & Hm).
  pose proof (run_entries (wfm (Z.land mid x_uuid_MachineIDMask)) (fun _ => True)
                (fun st _ _ => wf st)) as HW.
  assert (T : Forall (fun _ : Z => True) clk) by (apply Forall_forall; auto).
  specialize (HW (wfm_next _) (fun s _ Hs _ => proj1 Hs) (length clk) clk (new_sf mid t0)
                 (conj (wf_new mid t0) eq_refl) T).
  rewrite Forall_forall in HW. specialize (HW _ He). destruct HW as [W _].
  pose proof (next_wf c st W) as W'. unfold step_wf in W'.
  unfold step_decode in Hd. destruct (next c st) as [[o st'] rest]. cbn [fst snd] in *. subst o.
  destruct (machine_field mid) as [_ Hmf]. rewrite Hmf in Hm. rewrite Hm in Hd.
  destruct Hd as (Hid & Hdec & Ht & Hin & Hrange). destruct W' as [(_ & Hs & Hb & _) _].
  unfold arith in Hid. unfold maxTU, maxSeq in *. repeat split; try assumption; try lia.
Qed.

Lemma distinct_machines_thm mid1 mid2 t1 t2 clk1 clk2 id1 id2 :
  Z.land mid1 x_uuid_MachineIDMask <> Z.land mid2 x_uuid_MachineIDMask ->
  In id1 (ok_ids (outcomes (run_all clk1 (new_sf mid1 t1)))) ->
  In id2 (ok_ids (outcomes (run_all clk2 (new_sf mid2 t2)))) ->
  id1 <> id2.
Proof.
  intros Hne H1 H2 Heq. apply trace_machine in H1. apply trace_machine in H2. congruence.
Qed.

Lemma no_spurious_thm mid t0 clk pre st c o post :
  0 <= t0 <= x_uuid_MaxTimeUnits -> Forall (fun t => 0 <= t <= x_uuid_MaxTimeUnits) clk ->
  run_all clk (new_sf mid t0) = pre ++ (st, c, o) :: post ->
  bc st = Z.min 3 (count_back pre) /\
  match o with
  | Ok _ | Blocked => True
  | ErrClockGoneBackwards => hd 0 c < lastTU st /\ 3 <= count_back pre
  | _ => False
  end /\
  (hd 0 c < lastTU st -> 3 <= count_back pre -> o = ErrClockGoneBackwards).
Proof.
  intros Ht0 S Hrun.
  pose proof (run_inrange (length clk) clk (new_sf mid t0) 0 (inv_new mid t0 Ht0) S ltac:(lia) eq_refl
                _ _ _ Hrun) as H.
  unfold entry_inrange, is_back in H. rewrite Z.add_0_l in H.
  destruct H as (H1 & H2 & H3). split; [exact H1|]. split.
  - destruct o; try exact H2. destruct H2 as [Hb Hn]. split; [lia | exact Hn].
  - intros Hb Hn. apply H3; [lia | exact Hn].
Qed.

Lemma exhausted_thm st t rest :
  (x_uuid_MaxTimeUnits < t -> next (t :: rest) st = (ErrTimeUnitOverflow, st, rest)) /\
  (t <= x_uuid_MaxTimeUnits -> t < lastTU st -> 3 <= bc st ->
     next (t :: rest) st = (ErrClockGoneBackwards, st, rest)).
Proof.
  split.
  - intros H. unfold next. replace (t >? x_uuid_MaxTimeUnits) with true by lia. reflexivity.
  - intros H1 H2 H3. unfold next. replace (t >? x_uuid_MaxTimeUnits) with false by lia.
    replace (t <? lastTU st) with true by lia. replace (bc st >=? 3) with true by lia. reflexivity.
Qed.

(* an id is never returned for a time unit beyond the range, also not after the wait *)
Lemma no_id_beyond_thm st clk id st' rest :
  wf st -> Forall sane clk -> next clk st = (Ok id, st', rest) ->
  0 <= lastTU st' <= x_uuid_MaxTimeUnits /\ id_time id = lastTU st' /\ id_bc id = bc st' /\ bc st' <= 3.
Proof.
  intros W S E. pose proof (next_decode clk st W S) as H. pose proof (next_wf clk st W) as W'.
  rewrite E in H, W'. unfold step_decode in H. unfold step_wf in W'.
  destruct H as (_ & Hdec & Ht & _). destruct W' as [(_ & _ & Hb & _) _].
  unfold decode in Hdec. inversion Hdec. unfold maxTU in *. repeat split; lia.
Qed.

(* ------------------------------------------------------------------------------------ *)
(* next_k (used by Run.v to compare how many readings a call consumed) describes next    *)

Lemma wait_k_nonneg ts clk : 0 <= wait_k ts clk.
Proof. induction clk as [|x clk IH]; cbn [wait_k]; [lia|]. destruct (x >? ts); lia. Qed.

Lemma wait_k_spec ts clk :
  match wait ts clk with
  | Some (_, rest) => skipn (Z.to_nat (wait_k ts clk)) clk = rest
  | None => skipn (Z.to_nat (wait_k ts clk)) clk = []
  end.
Proof.
  induction clk as [|x clk IH]; cbn [wait wait_k]; [reflexivity|].
  destruct (x >? ts) eqn:E; [reflexivity|].
  pose proof (wait_k_nonneg ts clk).
  replace (Z.to_nat (1 + wait_k ts clk)) with (S (Z.to_nat (wait_k ts clk))) by lia.
  cbn [skipn]. exact IH.
Qed.

Lemma next_k_spec clk st :
  snd (next clk st) = skipn (Z.to_nat (next_k clk st)) clk.
Proof.
  destruct clk as [|t rest]; [reflexivity|].
  unfold next, next_k.
  destruct (t >? x_uuid_MaxTimeUnits) eqn:E1; cbn [negb andb]; [reflexivity|].
  destruct ((t <? lastTU st) && (bc st >=? 3)) eqn:E2; cbn [negb andb]; [reflexivity|].
  destruct (t =? lastTU st) eqn:E3; cbn [andb].
  - destruct (seq st + 1 >? x_uuid_MaxSeqID) eqn:E4.
    + pose proof (wait_k_spec t rest) as W. pose proof (wait_k_nonneg t rest).
      replace (Z.to_nat (1 + wait_k t rest)) with (S (Z.to_nat (wait_k t rest))) by lia.
      cbn [skipn].
      destruct (wait t rest) as [[now rest']|].
      * destruct (now >? x_uuid_MaxTimeUnits); [symmetry; exact W|].
        destruct (finish st _ now 0). symmetry; exact W.
      * symmetry; exact W.
    + destruct (finish st _ t (seq st + 1)). reflexivity.
  - destruct (finish st _ t 0). reflexivity.
Qed.

(* ------------------------------------------------------------------------------------ *)
(* the functional specification of one call, for every state and every clock              *)

Definition exhausted (st : sf) (t : Z) : Prop := t = lastTU st /\ maxSeq < seq st + 1.

Definition next_spec_of (st : sf) (t : Z) (rest : list Z) (r : outcome * sf * list Z) : Prop :=
  let '(o, st', rest') := r in
  match o with
  | Ok id =>
      id = compose (bc st') (lastTU st') (machine st) (seq st') /\
      lastID st < id /\ lastID st' = id /\ machine st' = machine st /\ t <= maxTU /\
      bc st' = (if t <? lastTU st then bc st + 1 else bc st) /\
      ((t <> lastTU st /\ lastTU st' = t /\ seq st' = 0 /\ rest' = rest) \/
       (t = lastTU st /\ seq st + 1 <= maxSeq /\ lastTU st' = t /\ seq st' = seq st + 1 /\ rest' = rest) \/
       (exhausted st t /\ wait t rest = Some (lastTU st', rest') /\ lastTU st' <= maxTU /\ seq st' = 0))
  | ErrTimeUnitOverflow =>
      (maxTU < t /\ st' = st /\ rest' = rest) \/
      (t <= maxTU /\ exhausted st t /\ exists now, wait t rest = Some (now, rest') /\ maxTU < now /\
       st' = mkSf (machine st) 0 (lastTU st) (lastID st) (bc st))
  | ErrClockGoneBackwards => t <= maxTU /\ t < lastTU st /\ 3 <= bc st /\ st' = st /\ rest' = rest
  | ErrUUIDIntOverflow =>
      t <= maxTU /\ lastID st' = lastID st /\ machine st' = machine st /\
      compose (bc st') (lastTU st') (machine st) (seq st') <= lastID st
  | Blocked => t <= maxTU /\ exhausted st t /\ wait t rest = None
  end.

Lemma next_spec st t rest : next_spec_of st t rest (next (t :: rest) st).
Proof.
  unfold exhausted.
  apply next_elim; unfold next_spec_of, exhausted.
  - intros H. left. repeat split; assumption.
  - intros H1 H2 H3. repeat split; assumption.
  - intros H1 H2 H3. apply finish_elim; intros Hc; cbn [with_rest machine seq bc lastID lastTU].
    + repeat split; try assumption; reflexivity.
    + replace (t <? lastTU st) with false by lia.
      repeat split; try assumption; try reflexivity.
      right. left. repeat split; try assumption; reflexivity.
  - intros H1 H2 H3. apply finish_elim; intros Hc; cbn [with_rest machine seq bc lastID lastTU].
    + repeat split; try assumption; reflexivity.
    + unfold next_b in *. repeat split; try assumption; try reflexivity.
      left. repeat split; try assumption; reflexivity.
  - intros H1 H2 H3 H4. repeat split; assumption.
  - intros now rest' H1 H2 H3 H4 H5. right. repeat split; try assumption.
    exists now. repeat split; assumption.
  - intros now rest' H1 H2 H3 H4 H5. apply finish_elim; intros Hc; cbn [with_rest machine seq bc lastID lastTU].
    + repeat split; try assumption; reflexivity.
    + replace (t <? lastTU st) with false by lia.
      repeat split; try assumption; try reflexivity.
      right. right. repeat split; try assumption; reflexivity.
Qed.
