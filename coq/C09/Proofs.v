(* C09 — lemmas about the snowflake model.  Constants are unfolded from Generated/Consts.v:
   a changed width, shift, mask or limit re-opens the obligations below. *)
From Coq Require Import ZArith List Bool Lia.
From FV Require Import Generated.Consts Lib.Bits C09.Model.
Import ListNotations.
Open Scope Z_scope.

(* ------------------------------------------------------------------------------------ *)
(* field geometry: pure arithmetic on the generated constants                            *)

Definition fields_ok : Prop :=
  x_uuid_MaxSeqID = 2 ^ x_uuid_SequenceBits - 1 /\
  x_uuid_MachineIDMask = 2 ^ x_uuid_MachineIDBits - 1 /\
  x_uuid_MaxTimeUnits = 2 ^ x_uuid_TimeUnitBits - 1 /\
  x_uuid_TimestampShift = x_uuid_SequenceBits + x_uuid_MachineIDBits /\
  x_uuid_BackwardsMaskShift = x_uuid_TimestampShift + x_uuid_TimeUnitBits /\
  x_uuid_BackwardsMaskShift + 2 = 63 /\
  0 < x_uuid_SequenceBits /\ 0 < x_uuid_MachineIDBits /\ 0 < x_uuid_TimeUnitBits.

Lemma fields_disjoint : fields_ok.
Proof. unfold fields_ok. repeat split; reflexivity. Qed.
