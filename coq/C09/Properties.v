(* C09 — Snowflake ids: increasing, unique, field-separable for any machine id and clock.
   This file holds only the property theorems; each is closed by an exact lemma and
   followed by Print Assumptions. *)
From Coq Require Import ZArith List Bool.
From FV Require Import Generated.Consts C09.Model C09.Proofs.
Import ListNotations.
Open Scope Z_scope.

(* "every id splits without overlap into rollback count, time, machine and sequence fields":
   the masks are exactly as wide as the fields, the shifts are the sums of the widths below,
   and sign bit + 2 + 37 + 14 + 10 = 64 *)
Theorem c09_fields_disjoint :
  x_uuid_MaxSeqID = 2 ^ x_uuid_SequenceBits - 1 /\
  x_uuid_MachineIDMask = 2 ^ x_uuid_MachineIDBits - 1 /\
  x_uuid_MaxTimeUnits = 2 ^ x_uuid_TimeUnitBits - 1 /\
  x_uuid_TimestampShift = x_uuid_SequenceBits + x_uuid_MachineIDBits /\
  x_uuid_BackwardsMaskShift = x_uuid_TimestampShift + x_uuid_TimeUnitBits /\
  x_uuid_BackwardsMaskShift + 2 = 63 /\
  0 < x_uuid_SequenceBits /\ 0 < x_uuid_MachineIDBits /\ 0 < x_uuid_TimeUnitBits.
Proof. exact fields_disjoint. Qed.
Print Assumptions c09_fields_disjoint.
