(* C09 — Snowflake ids: increasing, unique, field-separable for any machine id and clock.
   This file holds only the property theorems; each is closed by an exact lemma and
   followed by Print Assumptions.

   Vocabulary (C09/Model.v): a clock is the list of readings of currentTimeUnit();
   [new_sf mid t0] is NewSnowflake(mid) reading t0; [next clk st] is one call of Next (it
   consumes one reading, or several in the wait loop after sequence exhaustion; an exhausted
   list is the outcome Blocked); [run_all clk st] calls Next as long as readings remain and
   records (state before, clock before, outcome) per call. *)
From Coq Require Import ZArith List Bool Sorted.
From FV Require Import Generated.Consts C09.Model C09.Proofs.
Import ListNotations.
Open Scope Z_scope.

(* "every id splits without overlap into rollback count, time, machine and sequence fields":
   the masks are exactly as wide as the fields, the shifts are the sums of the widths below,
   and sign bit + 2 + 37 + 14 + 10 = 64.  Pure arithmetic on the regenerated constants. *)
Theorem c09_fields_disjoint :
  x_uuid_MaxSeqID = 2 ^ x_uuid_SequenceBits - 1 /\
  x_uuid_MachineIDMask = 2 ^ x_uuid_MachineIDBits - 1 /\
  x_uuid_MaxTimeUnits = 2 ^ x_uuid_TimeUnitBits - 1 /\
  x_uuid_TimestampShift = x_uuid_SequenceBits + x_uuid_MachineIDBits /\
  x_uuid_BackwardsMaskShift = x_uuid_TimestampShift + x_uuid_TimeUnitBits /\
  x_uuid_BackwardsMaskShift + 2 = 63 /\
  0 < x_uuid_SequenceBits /\ 0 < x_uuid_MachineIDBits /\ 0 < x_uuid_TimeUnitBits.
Proof. exact fields_disjoint. Qed.
Print Assumptions c09_fields_disjoint.

(* "ids from one generator are strictly increasing and therefore unique" — for every machine
   id and EVERY clock (no range assumption at all: the final guard of Next enforces it) *)
Theorem c09_increasing : forall mid t0 clk,
  StronglySorted Z.lt (ok_ids (outcomes (run_all clk (new_sf mid t0)))) /\
  Forall (fun id => 0 < id) (ok_ids (outcomes (run_all clk (new_sf mid t0)))) /\
  NoDup (ok_ids (outcomes (run_all clk (new_sf mid t0)))).
Proof. exact increasing_thm. Qed.
Print Assumptions c09_increasing.

(* "every id splits ... into fields holding exactly the values that produced it": for every
   machine id 0..65535 and every clock whose readings are not below -2^39 (174 years before
   the epoch; below that the shifted time wraps in int64), an id returned by a call decodes to
   the rollback count, time unit and sequence the generator holds after that call and to the
   machine id's low MachineIDBits bits; it is the plain sum of the shifted fields; the time is
   one of the readings the call saw and lies inside the range. *)
Theorem c09_decode : forall mid t0 clk st c id,
  0 <= mid < 65536 -> Forall (fun t => - 2 ^ 39 <= t) clk ->
  In (st, c, Ok id) (run_all clk (new_sf mid t0)) ->
  let st' := snd (fst (next c st)) in
  decode id = (bc st', lastTU st', mid mod 2 ^ x_uuid_MachineIDBits, seq st') /\
  id = bc st' * 2 ^ 61 + lastTU st' * 2 ^ 24 + (mid mod 2 ^ x_uuid_MachineIDBits) * 2 ^ 10 + seq st' /\
  0 <= bc st' <= 3 /\ 0 <= lastTU st' <= x_uuid_MaxTimeUnits /\ 0 <= seq st' <= x_uuid_MaxSeqID /\
  In (lastTU st') c /\ 0 < id < 2 ^ 63.
Proof. exact decode_thm. Qed.
Print Assumptions c09_decode.

(* "generators whose machine fields differ never produce the same id" — whatever the two
   clocks are (no assumption on the readings) *)
Theorem c09_distinct_machines : forall mid1 mid2 t1 t2 clk1 clk2 id1 id2,
  Z.land mid1 x_uuid_MachineIDMask <> Z.land mid2 x_uuid_MachineIDMask ->
  In id1 (ok_ids (outcomes (run_all clk1 (new_sf mid1 t1)))) ->
  In id2 (ok_ids (outcomes (run_all clk2 (new_sf mid2 t2)))) ->
  id1 <> id2.
Proof. exact distinct_machines_thm. Qed.
Print Assumptions c09_distinct_machines.

(* "generation does not fail spuriously" and "after more rollbacks than the format can mark
   ... reports an error": on a trajectory inside the supported range the rollback counter of
   the state equals the number of backward readings so far (saturating at 3), a call fails
   only with ErrClockGoneBackwards and only at a backward reading that follows at least three
   earlier ones — and such a reading always fails.  In particular ErrTimeUnitOverflow and the
   final guard ErrUUIDIntOverflow are unreachable inside the range. *)
Theorem c09_no_spurious : forall mid t0 clk pre st c o post,
  0 <= t0 <= x_uuid_MaxTimeUnits -> Forall (fun t => 0 <= t <= x_uuid_MaxTimeUnits) clk ->
  run_all clk (new_sf mid t0) = pre ++ (st, c, o) :: post ->
  bc st = Z.min 3 (count_back pre) /\
  match o with
  | Ok _ | Blocked => True
  | ErrClockGoneBackwards => hd 0 c < lastTU st /\ 3 <= count_back pre
  | _ => False
  end /\
  (hd 0 c < lastTU st -> 3 <= count_back pre -> o = ErrClockGoneBackwards).
Proof. exact no_spurious_thm. Qed.
Print Assumptions c09_no_spurious.

(* "beyond the time range ... generation reports an error": a reading beyond MaxTimeUnits
   is refused and a fourth rollback is refused, in every state, leaving the state as it was *)
Theorem c09_exhausted : forall st t rest,
  (x_uuid_MaxTimeUnits < t -> next (t :: rest) st = (ErrTimeUnitOverflow, st, rest)) /\
  (t <= x_uuid_MaxTimeUnits -> t < lastTU st -> 3 <= bc st ->
     next (t :: rest) st = (ErrClockGoneBackwards, st, rest)).
Proof. exact exhausted_thm. Qed.
Print Assumptions c09_exhausted.

(* "... rather than returning an id that could repeat": no call — also not one that waited
   out an exhausted sequence — returns an id for a time unit beyond the range or with more
   than three rollbacks marked *)
Theorem c09_no_id_beyond_range : forall st clk id st' rest,
  wf st -> Forall (fun t => - 2 ^ 39 <= t) clk -> next clk st = (Ok id, st', rest) ->
  0 <= lastTU st' <= x_uuid_MaxTimeUnits /\ id_time id = lastTU st' /\ id_bc id = bc st' /\ bc st' <= 3.
Proof. exact no_id_beyond_thm. Qed.
Print Assumptions c09_no_id_beyond_range.

(* every state a generator can reach is well-formed (the hypothesis of the theorem above) *)
Theorem c09_reachable_wf : forall mid t0 clk st,
  wf (new_sf mid t0) /\ (wf st -> wf (snd (fst (next clk st)))).
Proof.
  intros mid t0 clk st. split; [exact (wf_new mid t0)|].
  intros W. pose proof (next_wf clk st W) as H. unfold step_wf in H.
  destruct (next clk st) as [[o st'] r]. exact (proj1 H).
Qed.
Print Assumptions c09_reachable_wf.

(* the reading count used by the correspondence check (Run.v compares it with the number of
   clock readings the real call consumed) is the model's own consumption *)
Theorem c09_consumed : forall clk st,
  snd (next clk st) = skipn (Z.to_nat (next_k clk st)) clk.
Proof. exact next_k_spec. Qed.
Print Assumptions c09_consumed.

(* non-vacuity: the model computes, the hypotheses are met by non-trivial runs *)
Example c09_example_run :
  (* machine 0x4001 keeps its low 14 bits; stall, advance, three rollbacks, then the fourth *)
  outcomes (run_all [1002; 1002; 1004; 900; 800; 700; 600; 701]%list (new_sf 16385 1000)) =
  [Ok 16810771456; Ok 16810771457; Ok 16844325888;
   Ok 2305843024313189376; Ok 4611686031849161728; Ok 6917529039385134080;
   ErrClockGoneBackwards; Ok 6917529039401911296]%list
  /\ decode 6917529039401911296 = (3, 701, 1, 0)
  /\ Forall (fun t => 0 <= t <= x_uuid_MaxTimeUnits) [1002; 1002; 1004; 900; 800; 700; 600; 701]%list.
Proof.
  split; [vm_compute; reflexivity|]. split; [vm_compute; reflexivity|].
  repeat constructor; vm_compute; discriminate.
Qed.

(* sequence exhaustion: the 1024th call in one time unit waits for the next unit *)
Example c09_example_exhaustion :
  let clk := (repeat 5000 1024 ++ [5000; 5001; 5001])%list in
  let os := outcomes (run_all clk (new_sf 7 5000)) in
  length os = 1025%nat /\ nth 1022 os Blocked = Ok (5000 * 2 ^ 24 + 7 * 2 ^ 10 + 1023) /\
  nth 1023 os Blocked = Ok (5001 * 2 ^ 24 + 7 * 2 ^ 10 + 0) /\
  nth 1024 os Blocked = Ok (5001 * 2 ^ 24 + 7 * 2 ^ 10 + 1).
Proof. vm_compute. repeat split; reflexivity. Qed.

(* the range edge: the sequence runs out during MaxTimeUnits, the wait ends beyond the range *)
Example c09_example_edge :
  let clk := (repeat x_uuid_MaxTimeUnits 1025 ++ [x_uuid_MaxTimeUnits + 1])%list in
  let os := outcomes (run_all clk (new_sf 1 (x_uuid_MaxTimeUnits - 1))) in
  length os = 1025%nat /\ nth 1023 os Blocked = Ok (x_uuid_MaxTimeUnits * 2 ^ 24 + 2 ^ 10 + 1023) /\
  nth 1024 os Blocked = ErrTimeUnitOverflow.
Proof. vm_compute. repeat split; reflexivity. Qed.

(* The complete input/output relation of one call of Next, for EVERY state and EVERY clock (no
   hypothesis): which error for which reading, what the state is afterwards — in particular
   what does NOT change: a refused reading (beyond the range, fourth rollback) leaves the state
   untouched, the final guard leaves lastID and the machine field untouched —, which time unit,
   sequence and rollback count an id is built from, and which readings the call consumed: one,
   or — after sequence exhaustion — all up to the first one LATER than the exhausted unit
   (earlier readings inside the wait are skipped and count no rollback). *)
Theorem c09_next_spec : forall st t rest,
  let '(o, st', rest') := next (t :: rest) st in
  match o with
  | Ok id =>
      id = compose (bc st') (lastTU st') (machine st) (seq st') /\
      lastID st < id /\ lastID st' = id /\ machine st' = machine st /\ t <= x_uuid_MaxTimeUnits /\
      bc st' = (if t <? lastTU st then bc st + 1 else bc st) /\
      ((t <> lastTU st /\ lastTU st' = t /\ seq st' = 0 /\ rest' = rest) \/
       (t = lastTU st /\ seq st + 1 <= x_uuid_MaxSeqID /\ lastTU st' = t /\ seq st' = seq st + 1 /\ rest' = rest) \/
       ((t = lastTU st /\ x_uuid_MaxSeqID < seq st + 1) /\ wait t rest = Some (lastTU st', rest') /\
        lastTU st' <= x_uuid_MaxTimeUnits /\ seq st' = 0))
  | ErrTimeUnitOverflow =>
      (x_uuid_MaxTimeUnits < t /\ st' = st /\ rest' = rest) \/
      (t <= x_uuid_MaxTimeUnits /\ (t = lastTU st /\ x_uuid_MaxSeqID < seq st + 1) /\
       exists now, wait t rest = Some (now, rest') /\ x_uuid_MaxTimeUnits < now /\
       st' = mkSf (machine st) 0 (lastTU st) (lastID st) (bc st))
  | ErrClockGoneBackwards =>
      t <= x_uuid_MaxTimeUnits /\ t < lastTU st /\ 3 <= bc st /\ st' = st /\ rest' = rest
  | ErrUUIDIntOverflow =>
      t <= x_uuid_MaxTimeUnits /\ lastID st' = lastID st /\ machine st' = machine st /\
      compose (bc st') (lastTU st') (machine st) (seq st') <= lastID st
  | Blocked => t <= x_uuid_MaxTimeUnits /\ (t = lastTU st /\ x_uuid_MaxSeqID < seq st + 1) /\ wait t rest = None
  end.
Proof. exact next_spec. Qed.
Print Assumptions c09_next_spec.

(* the clock steps back while a caller waits after sequence exhaustion: the wait goes on to a
   later unit, no rollback is marked *)
Example c09_example_backward_inside_wait :
  let clk := (repeat 5000 1024 ++ [4999; 4998; 5000; 5002; 5002])%list in
  let os := outcomes (run_all clk (new_sf 7 5000)) in
  (length os = 1025%nat) /\ (nth 1023 os Blocked = Ok (5002 * 2 ^ 24 + 7 * 2 ^ 10 + 0)) /\
  (nth 1024 os Blocked = Ok (5002 * 2 ^ 24 + 7 * 2 ^ 10 + 1)).
Proof. vm_compute. repeat split; reflexivity. Qed.

(* ------------------------------------------------------------------------------------------
   Tie to the source (C09/Source.v): Snowflake.Next itself - every statement in front of the
   final `return uuid, nil` - is regenerated from snowflake.go by tools/gofunc on every run
   (Generated/Snowflake.v; the clock functions are external: what their calls return are
   parameters; the mutex and log statements are skipped) and computes exactly the model's
   [next]: outcome and state after, for every state and every clock reading.  [decode_next]
   reads the fragment's result (which return statement was reached / the fields assigned /
   the id) in the model's vocabulary; [waits] says whether the call enters the wait loop.
   If Next changes in the source, these obligations are re-checked. *)
From FV Require Import Generated.Snowflake C09.Source.

Theorem c09_src_next : forall st t rest now rest',
  - 2 ^ 62 < seq st < 2 ^ 62 -> - 2 ^ 62 < bc st < 2 ^ 62 ->
  (waits st t = true -> wait t rest = Some (now, rest')) ->
  let '(o, st', _) := next (t :: rest) st in
  (o, st') = decode_next st (go_Snowflake_Next_prefix (bc st) (seq st) (lastTU st) (lastID st) (machine st) t now).
Proof. exact src_next. Qed.
Print Assumptions c09_src_next.

Theorem c09_src_next_nowait : forall st t rest now,
  - 2 ^ 62 < seq st < 2 ^ 62 -> - 2 ^ 62 < bc st < 2 ^ 62 -> waits st t = false ->
  let '(o, st', _) := next (t :: rest) st in
  (o, st') = decode_next st (go_Snowflake_Next_prefix (bc st) (seq st) (lastTU st) (lastID st) (machine st) t now).
Proof. exact src_next_nowait. Qed.
Print Assumptions c09_src_next_nowait.
