(* C09 — correspondence: decode a case written by the Go harness, run the model on the same
   machine ids and clock readings, compare with what Snowflake.Next returned, and evaluate
   the property's executable form on the implementation's own outputs.

   case     = (input observed)
   input    = (gen ...)                 1 or 2 generators
   gen      = (mid t0 ((t n) ...))      machine id, the reading seen by NewSnowflake, the
                                        following readings run-length encoded
   observed = (obs ...)                 one per generator
   obs      = (auto ((kind value consumed rep) ...))
              auto = what privateIP4() returns here (used when mid = 0);
              kind 0 Ok, 1 ErrTimeUnitOverflow, 2 ErrClockGoneBackwards, 3 ErrUUIDIntOverflow,
              4 Blocked (the scripted clock ran dry inside the call), 5 other panic,
              6 the call never returned (parked on the generator's mutex for good);
              consumed = number of readings the call took; rep > 1 abbreviates rep calls that
              each took one reading and returned value, value+1, ... (ids) or the same
              error again *)
From Coq Require Import ZArith List Bool.
From FV Require Import Generated.Consts Lib.Sx C09.Model.
Import ListNotations.
Open Scope Z_scope.

(* ---- decoding ---- *)
Fixpoint repeatZ (t : Z) (n : nat) : list Z :=
  match n with O => [] | S k => t :: repeatZ t k end.

Fixpoint expand_clock (l : list sx) : option (list Z) :=
  match l with
  | [] => Some []
  | SList [SInt t; SInt n] :: r =>
      match expand_clock r with
      | Some c => Some (repeatZ t (Z.to_nat n) ++ c)
      | None => None
      end
  | _ => None
  end.

Fixpoint rep_ids (kind v c : Z) (n : nat) : list (Z * Z * Z) :=
  match n with O => [] | S k => (kind, v, c) :: rep_ids kind (if kind =? 0 then v + 1 else v) c k end.

Fixpoint expand_obs (l : list sx) : option (list (Z * Z * Z)) :=
  match l with
  | [] => Some []
  | SList [SInt k; SInt v; SInt c; SInt n] :: r =>
      match expand_obs r with
      | Some o => Some (rep_ids k v c (Z.to_nat n) ++ o)
      | None => None
      end
  | _ => None
  end.

Record gen := mkGen { g_mid : Z; g_t0 : Z; g_clock : list Z; g_obs : list (Z * Z * Z) }.

Definition eff_mid (mid auto : Z) : Z := if mid =? 0 then auto else mid.

Definition decode_gen (i o : sx) : option gen :=
  match i, o with
  | SList (SInt mid :: SInt t0 :: SList clk :: more), SList [SInt auto; SList obs] =>
      (* an optional 4th component n > 1 says that n goroutines shared the generator: the
         observed outcomes are then in the order in which the calls consumed the readings,
         and the model's answer for the script must be the same whoever made the calls.
         An optional 5th component seeds nanosecond offsets inside the time units of the
         readings (sub-unit jitter of the wall clock): the model works on time units, so its
         answer — and the property's — must not depend on it *)
      match more, expand_clock clk, expand_obs obs with
      | ([] | [SInt _] | [SInt _; SInt _]), Some c, Some ob => Some (mkGen (eff_mid mid auto) t0 c ob)
      | _, _, _ => None
      end
  | _, _ => None
  end.

Fixpoint decode_gens (is os : list sx) : option (list gen) :=
  match is, os with
  | [], [] => Some []
  | i :: ir, o :: or =>
      match decode_gen i o, decode_gens ir or with
      | Some g, Some gs => Some (g :: gs)
      | _, _ => None
      end
  | _, _ => None
  end.

(* ---- model against implementation ---- *)
Definition kind_of (o : outcome) : Z * Z :=
  match o with
  | Ok id => (0, id)
  | ErrTimeUnitOverflow => (1, 0)
  | ErrClockGoneBackwards => (2, 0)
  | ErrUUIDIntOverflow => (3, 0)
  | Blocked => (4, 0)
  end.

Definition corr_gen (g : gen) : verdict :=
  let tr := run_all (g_clock g) (new_sf (g_mid g) (g_t0 g)) in
  let mo := map (fun e => let '(_, _, o) := e in kind_of o) tr in
  let io := map (fun e => let '(k, v, _) := e in (k, v)) (g_obs g) in
  vjoin (check_that (list_eqb (fun a b => (fst a =? fst b) && (snd a =? snd b)) mo io) (VMismatch 1))
        (check_that
           (list_eqb Z.eqb
              (map (fun e => let '(st, clk, _) := e in next_k clk st) tr)
              (map (fun e => let '(_, _, c) := e in c) (g_obs g)))
           (VMismatch 2)).

(* ---- the property on the implementation's outputs (independent reference) ---- *)
Definition maxTU := x_uuid_MaxTimeUnits.
Definition mbits := x_uuid_MachineIDBits.
Definition field_shift_m := x_uuid_SequenceBits.
Definition field_shift_t := x_uuid_SequenceBits + x_uuid_MachineIDBits.
Definition field_shift_b := x_uuid_SequenceBits + x_uuid_MachineIDBits + x_uuid_TimeUnitBits.

(* split by plain division: sequence, machine, time, rollback count *)
Definition split_id (id : Z) : Z * Z * Z * Z :=
  let s := id mod 2 ^ x_uuid_SequenceBits in
  let m := (id / 2 ^ field_shift_m) mod 2 ^ mbits in
  let t := (id / 2 ^ field_shift_t) mod 2 ^ x_uuid_TimeUnitBits in
  let b := id / 2 ^ field_shift_b in
  (b, t, m, s).

Definition last_or (d : Z) (l : list Z) : Z := last l d.

Record pst := mkP { p_last : Z; p_nback : Z; p_prev : Z; p_clock : list Z;
                    p5 : bool; p1 : bool; p2 : bool; p3 : bool }.

Definition prop_step (eff : Z) (sane nonneg inrange : bool) (p : pst) (o : Z * Z * Z) : pst :=
  let '(k, v, c) := o in
  let rs := firstn (Z.to_nat c) (p_clock p) in
  let rest := skipn (Z.to_nat c) (p_clock p) in
  let first := hd 0 rs in
  let final := last_or first rs in
  let beyond := first >? maxTU in
  let backward := negb beyond && (first <? p_last p) in
  let refused := backward && (p_nback p >=? 3) in
  let nback' := if backward && negb refused then p_nback p + 1 else p_nback p in
  (* sentence 5: beyond the range / after the 4th rollback an error, never an id *)
  let ok5 :=
    (if beyond then k =? 1 else true) &&
    (if k =? 0 then final <=? maxTU else true) &&
    (if nonneg && refused then k =? 2 else true) in
  (* sentence 2: the id splits into the values that produced it *)
  let ok1 :=
    if (k =? 0) && sane then
      let '(b, t, m, s) := split_id v in
      (0 <? v) && (v <? 2 ^ 63) && (t =? final) && (m =? eff mod 2 ^ mbits) &&
      (if nonneg then b =? nback' else true)
    else true in
  (* sentence 1: strictly increasing *)
  let ok2 := if k =? 0 then p_prev p <? v else true in
  (* sentence 3: no spurious failure inside the supported range *)
  let ok3 :=
    if inrange then (k =? 0) || (k =? 4) || ((k =? 2) && refused) else true in
  mkP (if k =? 0 then final else p_last p) nback'
      (if k =? 0 then v else p_prev p) rest
      (p5 p && ok5) (p1 p && ok1) (p2 p && ok2) (p3 p && ok3).

Definition prop_gen (g : gen) : verdict :=
  let all := g_t0 g :: g_clock g in
  (* readings below -2^39 units: the shifted time wraps in int64, the field sentences (and
     c09_decode) do not speak about such clocks; monotonicity still does *)
  let sane := forallb (fun t => - 2 ^ 39 <=? t) all in
  let nonneg := forallb (fun t => 0 <=? t) all in
  let inrange := nonneg && forallb (fun t => t <=? maxTU) all in
  let p := fold_left (prop_step (g_mid g) sane nonneg inrange) (g_obs g)
                     (mkP (g_t0 g) 0 0 (g_clock g) true true true true) in
  (* outcome kind 6: the call never returned (the harness found its goroutine parked on the
     generator's mutex with nobody inside Next): generation must not stop *)
  vjoin (check_that (forallb (fun o => let '(k, _, _) := o in negb (k =? 6)) (g_obs g)) (VPropFail 6))
 (vjoin (check_that (p5 p) (VPropFail 5))
 (vjoin (check_that (p1 p) (VPropFail 1))
 (vjoin (check_that (p2 p) (VPropFail 2))
        (check_that (p3 p) (VPropFail 3))))).

Definition ids_of (g : gen) : list Z :=
  flat_map (fun o => let '(k, v, _) := o in if k =? 0 then [v] else []) (g_obs g).

Definition mfield (g : gen) : Z := Z.land (g_mid g) x_uuid_MachineIDMask.

(* sentence 4: generators whose machine fields differ never produce the same id *)
Fixpoint prop_pairs (gs : list gen) : bool :=
  match gs with
  | [] => true
  | g :: r =>
      forallb (fun h => (mfield g =? mfield h) ||
                        forallb (fun a => negb (existsb (Z.eqb a) (ids_of h))) (ids_of g)) r
      && prop_pairs r
  end.

Fixpoint vjoin_all (l : list verdict) : verdict :=
  match l with [] => VOk | v :: r => vjoin v (vjoin_all r) end.

Definition check (c : sx) : verdict :=
  match c with
  | SList [SList ins; SList obs] =>
      match decode_gens ins obs with
      | Some gs =>
          vjoin (check_that (prop_pairs gs) (VPropFail 4))
         (vjoin (vjoin_all (map prop_gen gs))
                (vjoin_all (map corr_gen gs)))
      | None => VBad
      end
  | _ => VBad
  end.
