(* C09 — Snowflake.Next itself, regenerated from x/uuid/snowflake.go by tools/gofunc
   (Generated/Snowflake.v, fragment "Snowflake.Next#prefix": every statement of Next in front
   of the final `return uuid, nil`; the mutex and log statements are skipped, the two clock
   functions currentTimeUnit / waitUntilNextTimeUnit are declared external: what their calls
   return are the parameters x_currentTimeUnit_1 / x_waitUntilNextTimeUnit_1; the fields Next
   assigns - backwardsCount, seq, lastTimeUnit, lastID - come back with the result), is the
   model's `next`: for every state and clock within int64 range, running the model on a clock
   whose first reading is t (and whose wait loop, if entered, ends with the reading `now`) gives
   exactly the outcome and the state the translated source gives.

   The numbering of Next's return statements (Returned k) is read off the source:
   1 and 3 return ErrTimeUnitOverflow, 2 ErrClockGoneBackwards, 4 ErrUUIDIntOverflow; reaching
   the end of the fragment is `return uuid, nil`. *)
From Coq Require Import ZArith List Bool Lia ZifyBool.
From FV Require Import Generated.Consts Generated.Snowflake Lib.GoSem C09.Model.
Import ListNotations.
Open Scope Z_scope.

Ltac Zify.zify_post_hook ::= Z.div_mod_to_equations.

Lemma wrap64 x : - 9223372036854775808 <= x < 9223372036854775808 ->
  (x + 9223372036854775808) mod 18446744073709551616 - 9223372036854775808 = x.
Proof. intros H. lia. Qed.

(* the model's int64 is the translator's two's-complement wrap *)
Lemma int64_wrap v : int64 v = (v + 9223372036854775808) mod 18446744073709551616 - 9223372036854775808.
Proof.
  unfold int64, p63, p64.
  match goal with |- (if ?c then _ else _) = _ => destruct c eqn:E end; [|reflexivity].
  symmetry. apply wrap64. lia.
Qed.

(* what the fragment's result means, in the model's vocabulary *)
Definition decode_next (st : sf) (r : frag (Z * Z * Z * Z) (Z * Z * Z * Z * Z * Z * Z)) : Model.outcome * sf :=
  match r with
  | Returned k (b, s, tu, id) =>
      (if (k =? 1) || (k =? 3) then ErrTimeUnitOverflow
       else if k =? 2 then ErrClockGoneBackwards else ErrUUIDIntOverflow,
       mkSf (machine st) s tu id b)
  | Reached (_, _, uuid, b, s, tu, id) => (Model.Ok uuid, mkSf (machine st) s tu id b)
  end.

Definition in64 (x : Z) : Prop := - 2 ^ 62 < x < 2 ^ 62.

(* does this call enter the wait loop? (sequence exhausted within the time unit) *)
Definition waits (st : sf) (t : Z) : bool :=
  negb (t >? x_uuid_MaxTimeUnits) && negb ((t <? lastTU st) && (bc st >=? 3)) &&
  (t =? lastTU st) && (seq st + 1 >? x_uuid_MaxSeqID).

Lemma src_next st t rest now rest' :
  in64 (seq st) -> in64 (bc st) ->
  (waits st t = true -> wait t rest = Some (now, rest')) ->
  let '(o, st', _) := next (t :: rest) st in
  (o, st') = decode_next st (go_Snowflake_Next_prefix (bc st) (seq st) (lastTU st) (lastID st) (machine st) t now).
Proof.
  unfold in64, waits. intros Hs Hb Hw. change (2 ^ 62) with 4611686018427387904 in *.
  unfold next, go_Snowflake_Next_prefix, finish, compose, shl64, decode_next.
  change x_uuid_MaxTimeUnits with 137438953471 in *. change x_uuid_MaxSeqID with 1023 in *.
  change x_uuid_BackwardsMaskShift with 61. change x_uuid_TimestampShift with 24.
  change x_uuid_SequenceBits with 10. cbv zeta. rewrite !int64_wrap.
  rewrite (wrap64 (bc st + 1)), (wrap64 (seq st + 1)) by lia.
  destruct (t >? 137438953471) eqn:E1; [destruct st; reflexivity|].
  destruct (t <? lastTU st) eqn:E2; cbn [andb negb] in *.
  - destruct (bc st >=? 3) eqn:E3; cbn [andb negb] in *; [destruct st; reflexivity|].
    destruct (t =? lastTU st) eqn:E4; [lia|].
    destruct (_ <=? lastID st); reflexivity.
  - destruct (t =? lastTU st) eqn:E4; cbn [andb] in *.
    + destruct (seq st + 1 >? 1023) eqn:E5.
      * rewrite (Hw eq_refl). rewrite ?int64_wrap.
        destruct (now >? 137438953471); [reflexivity|].
        destruct (_ <=? lastID st); reflexivity.
      * destruct (_ <=? lastID st); reflexivity.
    + destruct (_ <=? lastID st); reflexivity.
Qed.

(* the same without the wait loop in the way: any value will do for the reading it would give *)
Lemma src_next_nowait st t rest now :
  in64 (seq st) -> in64 (bc st) -> waits st t = false ->
  let '(o, st', _) := next (t :: rest) st in
  (o, st') = decode_next st (go_Snowflake_Next_prefix (bc st) (seq st) (lastTU st) (lastID st) (machine st) t now).
Proof.
  intros Hs Hb Hw. apply (src_next st t rest now rest); try assumption.
  rewrite Hw. discriminate.
Qed.
