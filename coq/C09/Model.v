(* C09 — snowflake ids (x/uuid/snowflake.go).  Executable model; nothing is proved here.
   Widths, shifts, masks and limits come from Generated/Consts.v (regenerated from the Go
   source on every run).

   The clock is a list of readings of currentTimeUnit(): every call of Next consumes one
   reading, the wait loop after sequence exhaustion consumes readings until one exceeds
   the exhausted time unit.  An exhausted list is the outcome Blocked. *)
From Coq Require Import ZArith List Bool.
From FV Require Import Generated.Consts.
Import ListNotations.
Open Scope Z_scope.

(* int64(v): two's complement wrap-around of Go's int64 arithmetic *)
Definition p63 : Z := 9223372036854775808.      (* 2^63 *)
Definition p64 : Z := 18446744073709551616.     (* 2^64 *)
Definition int64 (v : Z) : Z :=
  if (- p63 <=? v) && (v <? p63) then v else (v + p63) mod p64 - p63.
(* a << k on int64 *)
Definition shl64 (a k : Z) : Z := int64 (Z.shiftl a k).

Record sf := mkSf {
  machine : Z;   (* sf.machineID  (already masked) *)
  seq : Z;       (* sf.seq *)
  lastTU : Z;    (* sf.lastTimeUnit *)
  lastID : Z;    (* sf.lastID *)
  bc : Z         (* sf.backwardsCount *)
}.

Inductive outcome : Type :=
| Ok (id : Z)
| ErrTimeUnitOverflow
| ErrClockGoneBackwards
| ErrUUIDIntOverflow
| Blocked.

(* NewSnowflake(machineId) for machineId <> 0, the clock reading t0 *)
Definition new_sf (mid t0 : Z) : sf :=
  mkSf (Z.land mid x_uuid_MachineIDMask) 0 t0 0 0.

(* waitUntilNextTimeUnit(ts): first reading > ts, and what is left of the clock *)
Fixpoint wait (ts : Z) (clock : list Z) : option (Z * list Z) :=
  match clock with
  | [] => None
  | now :: rest => if now >? ts then Some (now, rest) else wait ts rest
  end.

(* backwardsMask | currentTs<<TimestampShift | machineID<<SequenceBits | seq *)
Definition compose (b ts m s : Z) : Z :=
  Z.lor (Z.lor (Z.lor (shl64 b x_uuid_BackwardsMaskShift) (shl64 ts x_uuid_TimestampShift))
               (shl64 m x_uuid_SequenceBits)) s.

(* the tail of Next: store lastTimeUnit, compose, final guard *)
Definition finish (st : sf) (b ts s : Z) : outcome * sf :=
  let uuid := compose b ts (machine st) s in
  if uuid <=? lastID st
  then (ErrUUIDIntOverflow, mkSf (machine st) s ts (lastID st) b)
  else (Ok uuid, mkSf (machine st) s ts uuid b).

(* (sf *Snowflake) Next(): result, state after, remaining clock *)
Definition next (clock : list Z) (st : sf) : outcome * sf * list Z :=
  match clock with
  | [] => (Blocked, st, [])
  | t :: rest =>
      if t >? x_uuid_MaxTimeUnits then (ErrTimeUnitOverflow, st, rest)
      else if (t <? lastTU st) && (bc st >=? 3) then (ErrClockGoneBackwards, st, rest)
      else
        let b := if t <? lastTU st then bc st + 1 else bc st in
        if t =? lastTU st then
          let s := seq st + 1 in
          if s >? x_uuid_MaxSeqID then
            match wait t rest with
            | None => (Blocked, mkSf (machine st) 0 (lastTU st) (lastID st) b, [])
            | Some (now, rest') =>
                (* the range is checked again after the wait *)
                if now >? x_uuid_MaxTimeUnits
                then (ErrTimeUnitOverflow, mkSf (machine st) 0 (lastTU st) (lastID st) b, rest')
                else let '(o, st') := finish st b now 0 in (o, st', rest')
            end
          else let '(o, st') := finish st b t s in (o, st', rest)
        else let '(o, st') := finish st b t 0 in (o, st', rest)
  end.

(* how many readings a call takes: one, plus those of the wait loop (used by the
   correspondence check; Proofs.v shows that it describes [next]'s remaining clock) *)
Fixpoint wait_k (ts : Z) (clock : list Z) : Z :=
  match clock with
  | [] => 0
  | now :: rest => if now >? ts then 1 else 1 + wait_k ts rest
  end.

Definition next_k (clock : list Z) (st : sf) : Z :=
  match clock with
  | [] => 0
  | t :: rest =>
      if negb (t >? x_uuid_MaxTimeUnits) && negb ((t <? lastTU st) && (bc st >=? 3)) &&
         (t =? lastTU st) && (seq st + 1 >? x_uuid_MaxSeqID)
      then 1 + wait_k t rest else 1
  end.

(* a generator's life: calls of Next as long as readings remain.  The trace records, for
   every call, the state before, the clock before and the outcome. *)
Fixpoint run (fuel : nat) (clock : list Z) (st : sf) : list (sf * list Z * outcome) :=
  match fuel with
  | O => []
  | S f =>
      match clock with
      | [] => []
      | _ => let '(o, st', rest) := next clock st in
             (st, clock, o) :: match o with Blocked => [] | _ => run f rest st' end
      end
  end.

Definition run_all (clock : list Z) (st : sf) := run (length clock) clock st.

Definition outcomes (tr : list (sf * list Z * outcome)) : list outcome := map snd tr.

Fixpoint ok_ids (os : list outcome) : list Z :=
  match os with
  | [] => []
  | Ok id :: r => id :: ok_ids r
  | _ :: r => ok_ids r
  end.

(* taking an id apart *)
Definition id_bc (id : Z) : Z := Z.shiftr id x_uuid_BackwardsMaskShift.
Definition id_time (id : Z) : Z := Z.land (Z.shiftr id x_uuid_TimestampShift) x_uuid_MaxTimeUnits.
Definition id_machine (id : Z) : Z :=
  Z.land (Z.shiftr id x_uuid_SequenceBits) (2 ^ x_uuid_MachineIDBits - 1).
Definition id_seq (id : Z) : Z := Z.land id x_uuid_MaxSeqID.
Definition decode (id : Z) : Z * Z * Z * Z := (id_bc id, id_time id, id_machine id, id_seq id).
