(* C11 — SortedSet's index normalisation, which the model (C11/Model.v: get_range,
   rem_by_rank) transcribes line by line, is here tied to the source: tools/gofunc regenerates
   the first statements of SortedSet.GetRange and SortedSet.RemoveRangeByRank from
   collections/zset/zset.go as fragments (Generated/ZSet.v, "F#prefix": Returned = the early
   `return`, Reached (...) = the variables when control reaches the list traversal / the call of
   DeleteRangeByRank), with int arithmetic wrapped to 64 bit.  For every set of fewer than
   2^60 elements and every start / end below 2^60 in absolute value the model's functions
   are exactly: run the translated fragment, then continue with the values it hands on.
   Len() of both types is the translated field read. *)
From Coq Require Import ZArith List Bool Lia ZifyBool.
From FV Require Import Generated.ZSet Lib.GoSem C11.Spec C11.Model.
Import ListNotations.
Open Scope Z_scope.

Ltac Zify.zify_post_hook ::= Z.div_mod_to_equations.

Lemma wrap64 x : - 9223372036854775808 <= x < 9223372036854775808 ->
  (x + 9223372036854775808) mod 18446744073709551616 - 9223372036854775808 = x.
Proof. intros H. lia. Qed.

Definition small (x : Z) : Prop := - 2 ^ 60 < x < 2 ^ 60.

(* what get_range does after the normalisation: walk rangeLen nodes from the start rank *)
Definition get_range_rest (z : zset) (reverse : bool) (start llen rangeLen : Z) : out :=
  let l := zsl z in
  let chain :=
    if reverse then (if start >? 0 then from_rank_bwd l (llen - start) else rev l)
    else (if start >? 0 then from_rank_fwd l (start + 1) else l) in
  match walk chain (Z.to_nat rangeLen) with
  | Some r => OList r
  | None => OCrash
  end.

(* what rem_by_rank does after the normalisation: DeleteRangeByRank(start+1, end+1, dict) *)
Definition rem_by_rank_rest (z : zset) (start stop : Z) : zset * out :=
  let '(k, rm) := del_by_rank (zsl z) 0 (start + 1) (stop + 1) in
  (mkZ k (dict_del_all (dict z) rm), OInt (zlen rm)).

Ltac split_ifs :=
  repeat match goal with
         | |- context [if ?c then _ else _] => destruct c eqn:?
         end.

Lemma src_get_range z start stop reverse :
  zlen (zsl z) < 2 ^ 60 -> small start -> small stop ->
  get_range z start stop reverse =
  match go_SortedSet_GetRange_prefix (zlen (zsl z)) start stop reverse with
  | Returned _ _ => OList []
  | Reached (start', stop', reverse', llen, rangeLen) => get_range_rest z reverse' start' llen rangeLen
  end.
Proof.
  unfold small. intros Hl Hs He. assert (H0 : 0 <= zlen (zsl z)) by (unfold zlen; lia).
  change (2 ^ 60) with 1152921504606846976 in *.
  unfold get_range, go_SortedSet_GetRange_prefix, get_range_rest. cbv zeta.
  set (n := zlen (zsl z)) in *.
  rewrite (wrap64 (n + start)), (wrap64 (n + stop)), (wrap64 (n - 1)) by lia.
  destruct (start <? 0) eqn:E1; destruct (stop <? 0) eqn:E2;
    match goal with |- context [if (?a <? 0) then 0 else ?a] => destruct (a <? 0) eqn:E3 end;
    match goal with |- context [(?a >? ?b) || (?a >=? n)] => destruct ((a >? b) || (a >=? n)) eqn:E4 end;
    try reflexivity;
    match goal with |- context [if (?a >=? n) then n - 1 else ?a] => destruct (a >=? n) eqn:E5 end;
    rewrite !wrap64 by lia; reflexivity.
Qed.

Lemma src_rem_by_rank z start stop :
  zlen (zsl z) < 2 ^ 60 -> small start -> small stop ->
  rem_by_rank z start stop =
  match go_SortedSet_RemoveRangeByRank_prefix (zlen (zsl z)) start stop with
  | Returned _ _ => (z, OInt 0)
  | Reached (start', stop', llen) => rem_by_rank_rest z start' stop'
  end.
Proof.
  unfold small. intros Hl Hs He. assert (H0 : 0 <= zlen (zsl z)) by (unfold zlen; lia).
  change (2 ^ 60) with 1152921504606846976 in *.
  unfold rem_by_rank, go_SortedSet_RemoveRangeByRank_prefix, rem_by_rank_rest. cbv zeta.
  set (n := zlen (zsl z)) in *.
  rewrite (wrap64 (n + start)), (wrap64 (n + stop)), (wrap64 (n - 1)) by lia.
  destruct (start <? 0) eqn:E1; destruct (stop <? 0) eqn:E2;
    match goal with |- context [if (?a <? 0) then 0 else ?a] => destruct (a <? 0) eqn:E3 end;
    match goal with |- context [(?a >? ?b) || (?a >=? n)] => destruct ((a >? b) || (a >=? n)) eqn:E4 end;
    try reflexivity;
    match goal with |- context [if (?a >=? n) then n - 1 else ?a] => destruct (a >=? n) eqn:E5 end;
    reflexivity.
Qed.

(* Len() *)
Lemma src_len z : go_SortedSet_Len (zlen (zsl z)) = zlen (zsl z) /\ go_ZSkipList_Len (zlen (zsl z)) = zlen (zsl z).
Proof. split; reflexivity. Qed.

(* the fragment on its own: what the normalisation hands on is a valid, non-empty rank window *)
Lemma src_window n start stop reverse s e r llen rl :
  0 <= n < 2 ^ 60 -> small start -> small stop ->
  go_SortedSet_GetRange_prefix n start stop reverse = Reached (s, e, r, llen, rl) ->
  0 <= s <= e /\ e < n /\ llen = n /\ rl = e - s + 1 /\ r = reverse.
Proof.
  unfold small. intros Hn Hs He. change (2 ^ 60) with 1152921504606846976 in *.
  unfold go_SortedSet_GetRange_prefix. cbv zeta.
  rewrite (wrap64 (n + start)), (wrap64 (n + stop)), (wrap64 (n - 1)) by lia.
  destruct (start <? 0) eqn:E1; destruct (stop <? 0) eqn:E2;
    match goal with |- context [if (?a <? 0) then 0 else ?a] => destruct (a <? 0) eqn:E3 end;
    match goal with |- context [(?a >? ?b) || (?a >=? n)] => destruct ((a >? b) || (a >=? n)) eqn:E4 end;
    try discriminate;
    match goal with |- context [if (?a >=? n) then n - 1 else ?a] => destruct (a >=? n) eqn:E5 end;
    rewrite !wrap64 by lia; intros H; inversion H; subst; repeat split; try reflexivity; lia.
Qed.
