(* C11, stage 2 — deleteNode and Delete preserve the structural invariant. *)
From Coq Require Import ZArith List Bool Lia.
From FV Require Import Generated.Consts C11.Spec C11.Model C11.LaneModel C11.LaneHeap C11.LaneInv
  C11.LaneSearch C11.LaneLoops C11.LaneInsert.
Import ListNotations.
Open Scope Z_scope.

(* an empty lane: the header's forward reference is nil iff no node reaches the lane *)
Lemma lane_head_nil c j L : forall cur d sp, lane_ok c j cur d L -> c cur = Some (mkLvl Nil sp) ->
  Forall (fun n => (lh n <= j)%nat) L.
Proof.
  induction L as [|n t IH]; intros cur d sp Hl Hc; simpl in Hl.
  - constructor.
  - destruct (Nat.ltb_spec j (lh n)).
    + destruct Hl as [Hl _]. rewrite Hc in Hl. discriminate.
    + constructor; [exact H|]. eapply IH; eassumption.
Qed.

Lemma lane_head_some c j L : forall cur d cu, lane_ok c j cur d L -> c cur = Some cu -> fwd cu <> Nil ->
  exists n, In n L /\ (j < lh n)%nat.
Proof.
  induction L as [|n t IH]; intros cur d cu Hl Hc Hf; simpl in Hl.
  - rewrite Hc in Hl. injection Hl as ->. simpl in Hf. congruence.
  - destruct (Nat.ltb_spec j (lh n)).
    + exists n. simpl. auto.
    + destruct (IH _ _ _ Hl Hc Hf) as (m & Hm & Hlt). exists m. simpl. auto.
Qed.

(* ---------------------------------------------------------------- the level loop *)
Lemma shrink_level_spec n : forall z, (1 <= llevel z)%nat ->
  (forall j, (j < llevel z)%nat -> exists c, cell z Head j = Some c) ->
  exists l', shrink_level z n = set_level z l' /\ (1 <= l' <= llevel z)%nat /\
    (forall j, (l' <= j < llevel z)%nat -> exists sp, cell z Head j = Some (mkLvl Nil sp)) /\
    ((llevel z - 1 <= n)%nat -> l' = 1%nat \/ exists c, cell z Head (l' - 1) = Some c /\ fwd c <> Nil).
Proof.
  induction n as [|n IH]; intros z Hl Hc.
  - exists (llevel z). simpl. split; [destruct z; reflexivity|]. split; [lia|]. split; [intros; lia|].
    intros Hn. left. lia.
  - cbn [shrink_level]. destruct (Nat.ltb_spec 1 (llevel z)) as [Hgt|Hle].
    2:{ exists (llevel z). split; [destruct z; reflexivity|]. split; [lia|]. split; [intros; lia|]. intros _. left. lia. }
    destruct (Hc (llevel z - 1)%nat ltac:(lia)) as [c Hcc]. rewrite Hcc.
    destruct (fwd c) eqn:Ef.
    + (* empty top lane: one level down *)
      destruct (IH (set_level z (llevel z - 1))) as (l' & E & Hr & Hnil & Hstop).
      { simpl. lia. }
      { intros j Hj. simpl in Hj. rewrite cell_set_level. apply Hc. lia. }
      exists l'. simpl in *. split.
      { rewrite E. destruct z; reflexivity. }
      split; [lia|]. split.
      * intros j Hj. destruct (Nat.eq_dec j (llevel z - 1)) as [->|Hne].
        -- exists (span c). rewrite Hcc. destruct c; simpl in *; subst; reflexivity.
        -- specialize (Hnil j ltac:(lia)). rewrite ?cell_set_level in Hnil. exact Hnil.
      * intros Hn. destruct (Hstop ltac:(lia)) as [H1|(c' & Hc' & Hf')]; [left; exact H1|].
        right. exists c'. rewrite ?cell_set_level in Hc'. auto.
    + exists (llevel z). split; [destruct z; reflexivity|]. split; [lia|]. split; [intros; lia|].
      intros _. right. exists c. split; [exact Hcc|]. rewrite Ef. discriminate.
    + exists (llevel z). split; [destruct z; reflexivity|]. split; [lia|]. split; [intros; lia|].
      intros _. right. exists c. split; [exact Hcc|]. rewrite Ef. discriminate.
Qed.

(* the level-0 cell of a chain node *)
Lemma lane0_cell_of z A xn B : LInv z (A ++ xn :: B) ->
  cell z (nref xn) 0 =
  Some (mkLvl (match B with [] => Nil | f :: _ => nref f end) (match B with [] => 0 | _ => 1 end)).
Proof.
  intros HI.
  assert (E : A ++ xn :: B = (A ++ [xn]) ++ B) by (rewrite <- app_assoc; reflexivity).
  rewrite E in HI. pose proof (lane0_next z (A ++ [xn]) B HI) as H.
  assert (Hh : Forall (fun n => (1 <= lh n)%nat) (A ++ [xn])).
  { pose proof (inv_heights z _ HI) as Hx. apply Forall_app in Hx. destruct Hx as [Hx _].
    eapply Forall_impl; [|exact Hx]. simpl. intros; lia. }
  rewrite (upd_of_zero _ Hh) in H. rewrite rev_app_distr in H. exact H.
Qed.

(* ---------------------------------------------------------------- deleteNode *)
Theorem ldelete_node_ok z A xn B a :
  LInv z (A ++ xn :: B) ->
  (forall j, (j < llevel z)%nat -> arr_get a j = upd_of A j) ->
  exists z', ldelete_node z (le xn) a = Some z' /\ LInv z' (A ++ B) /\ LTight z' (A ++ B) /\
             (llevel z' <= llevel z)%nat.
Proof.
  intros HI Harr. set (x := le xn).
  pose proof (inv_nodup z _ HI) as Hnd. pose proof (inv_level z _ HI) as Hlv.
  assert (HndAB := del_nodup_AB A B xn Hnd).
  assert (Hxfresh := del_x_fresh A B xn Hnd).
  unfold ldelete_node.
  (* the per-lane facts *)
  assert (Hlane : forall j, (j < llevel z)%nat ->
            exists cu, cell z (fst (upd_of A j)) j = Some cu /\
              if (j <? lh xn)%nat
              then fwd cu = nref xn /\ exists cx, cell z (nref xn) j = Some cx
              else fwd cu <> nref xn).
  { intros j Hj. destruct (del_lane_cells (col z j) j A B xn Hnd (inv_lanes z _ HI j Hj)) as (cu & Hcu & Hcase).
    exists cu. split; [exact Hcu|]. destruct (j <? lh xn)%nat.
    - destruct Hcase as (H1 & _ & cx & H2 & _). split; [exact H1|]. exists cx. exact H2.
    - exact (proj1 Hcase). }
  assert (Hux : forall j, fst (upd_of A j) <> Node x).
  { intros j. apply (del_u_not_x j A B xn Hnd). }
  destruct (unlink_levels_spec x a (llevel z) z 0) as (z1 & -> & S1 & Hc1).
  { intros j Hj. rewrite (Harr j ltac:(lia)). destruct (Hlane j ltac:(lia)) as (cu & Hcu & Hcase).
    exists cu. split; [exact Hcu|]. split; [|apply Hux].
    intros Ef. destruct (j <? lh xn)%nat; [exact (proj2 Hcase)|]. exfalso. apply Hcase. exact Ef. }
  destruct S1 as (A1 & A2 & A3 & A4 & A5 & A6 & A7).
  assert (Hc1_same : forall r j, (llevel z <= j)%nat \/ r <> fst (upd_of A j) -> cell z1 r j = cell z r j).
  { intros r j H. rewrite Hc1. destruct (in_range 0 (llevel z) j) eqn:Er; [|reflexivity].
    apply in_range_spec in Er. destruct H as [H|H]; [lia|].
    rewrite (Harr j ltac:(lia)). destruct (ref_eqb_spec r (fst (upd_of A j))); [contradiction|reflexivity]. }
  (* the lanes without the node *)
  assert (Hlanes1 : forall j, (j < llevel z)%nat -> lane_ok (col z1 j) j Head 0 (A ++ B)).
  { intros j Hj. pose proof (inv_lanes z _ HI j Hj) as Hl.
    destruct (Hlane j Hj) as (cu & Hcu & Hcase).
    assert (Ecu : cell_or z (fst (upd_of A j)) j = cu) by (unfold cell_or; rewrite Hcu; reflexivity).
    assert (Hu' : cell z1 (fst (upd_of A j)) j =
                  if ref_eqb (fwd cu) (Node x)
                  then Some (mkLvl (fwd (cell_or z (Node x) j)) (span cu + (span (cell_or z (Node x) j) - 1)))
                  else Some (mkLvl (fwd cu) (span cu - 1))).
    { rewrite Hc1. replace (in_range 0 (llevel z) j) with true by (symmetry; apply in_range_spec; lia).
      rewrite (Harr j Hj). destruct (ref_eqb_spec (fst (upd_of A j)) (fst (upd_of A j))); [|congruence].
      cbn [andb]. rewrite Ecu. reflexivity. }
    destruct (Nat.ltb_spec j (lh xn)) as [Hjh|Hjh].
    - destruct Hcase as (Hf & cx & Hcx).
      apply (lane_delete_low (col z j) (col z1 j) j A B xn Hnd Hl cu cx); auto.
      + unfold col. change (fst (lane_end j Head 0 A)) with (fst (upd_of A j)). rewrite Hu'.
        rewrite Hf. change (nref xn) with (Node x). destruct (ref_eqb_spec (Node x) (Node x)); [|congruence].
        unfold cell_or. change (Node x) with (nref xn). rewrite Hcx. reflexivity.
      + intros r Hr. unfold col. apply Hc1_same. right. exact Hr.
    - apply (lane_delete_high (col z j) (col z1 j) j A B xn Hnd Hl cu); auto.
      + unfold col. change (fst (lane_end j Head 0 A)) with (fst (upd_of A j)). rewrite Hu'.
        destruct (ref_eqb_spec (fwd cu) (Node x)) as [E|_]; [exfalso; apply Hcase; exact E|reflexivity].
      + intros r Hr. unfold col. apply Hc1_same. right. exact Hr. }
  (* the node being removed *)
  assert (Hnx : node_ok z xn).
  { pose proof (inv_nodes z _ HI) as H. apply Forall_app in H. destruct H as [_ H]. inversion H; assumption. }
  destruct Hnx as [Hsx _]. rewrite <- A1 in Hsx. apply nsc_inv in Hsx. destruct Hsx as (nx & Hgx & _).
  fold x in Hgx. rewrite Hgx.
  assert (Hcx0 : cell z1 (Node x) 0 = Some (mkLvl (match B with [] => Nil | f :: _ => nref f end)
                                              (match B with [] => 0 | _ => 1 end))).
  { rewrite Hc1_same by (right; intros E; apply (Hux 0%nat); symmetry; exact E).
    apply (lane0_cell_of z A xn B HI). }
  unfold cell in Hcx0. rewrite Hgx in Hcx0. rewrite Hcx0. cbn [fwd].
  assert (Hbk : nback nx = last_or Nil A).
  { pose proof (inv_back z _ HI) as Hb. apply back_ok_app in Hb. destruct Hb as [_ Hb]. simpl in Hb.
    destruct Hb as [Hb _]. rewrite <- A2 in Hb. unfold nbk in Hb. fold x in Hb. rewrite Hgx in Hb.
    simpl in Hb. congruence. }
  set (fB := match B with [] => Nil | f :: _ => nref f end).
  set (z2 := match fB with Node f => set_back z1 f (nback nx) | _ => set_tail z1 (nback nx) end).
  assert (Hcell2 : forall r j, cell z2 r j = cell z1 r j).
  { intros r j. unfold z2. destruct fB; rewrite ?cell_set_tail, ?cell_set_back; reflexivity. }
  assert (M2 : llen z2 = llen z /\ llevel z2 = llevel z /\ length (hlv z2) = length (hlv z)).
  { unfold z2. destruct fB as [| |f0]; [simpl; auto..|].
    destruct (misc_set_back z1 f0 (nback nx)) as (_ & H2 & H3 & H4). rewrite H2, H3, H4. auto. }
  destruct M2 as (L2 & V2 & H2).
  destruct (shrink_level_spec (llevel z2) z2) as (l' & -> & Hl' & Hnil & Hstop).
  { lia. }
  { intros j Hj. rewrite V2 in Hj. rewrite Hcell2. apply (lane_ok_cell _ _ _ _ _ (Hlanes1 j Hj)). }
  specialize (Hstop ltac:(lia)). rewrite V2 in Hl', Hnil.
  set (z3 := set_level z2 l').
  exists (set_len z3 (llen z3 - 1)). split; [reflexivity|].
  set (z' := set_len z3 (llen z3 - 1)).
  assert (Hcell' : forall r j, cell z' r j = cell z1 r j).
  { intros r j. unfold z', z3. rewrite cell_set_len, cell_set_level. apply Hcell2. }
  assert (Hnsc' : forall e', nsc z' e' = nsc z e').
  { intros e'. change (nsc z' e') with (nsc z2 e'). unfold z2.
    destruct fB; [change (nsc (set_tail ?y ?t) e') with (nsc y e')..|rewrite nsc_set_back]; apply A1. }
  assert (Hnht' : forall e', nht z' e' = nht z e').
  { intros e'. change (nht z' e') with (nht z2 e'). unfold z2.
    destruct fB; [change (nht (set_tail ?y ?t) e') with (nht y e')..|rewrite nht_set_back]; apply A3. }
  assert (Hheights : Forall (fun n => (1 <= lh n <= l')%nat) (A ++ B)).
  { pose proof (inv_heights z _ HI) as H.
    assert (H' : Forall (fun n => (1 <= lh n <= llevel z)%nat) (A ++ B)).
    { apply Forall_app in H. destruct H as [Ha Hb]. inversion Hb; subst. apply Forall_app. auto. }
    destruct (Nat.eq_dec l' (llevel z)) as [->|Hne]; [exact H'|].
    destruct (Hnil l' ltac:(lia)) as [sp Hsp]. rewrite Hcell2 in Hsp.
    pose proof (lane_head_nil (col z1 l') l' (A ++ B) Head 0 sp (Hlanes1 l' ltac:(lia)) Hsp) as Hlow.
    rewrite Forall_forall in *. intros n Hn. specialize (H' n Hn). specialize (Hlow n Hn). lia. }
  split; [|split; [|change (llevel z') with l'; lia]].
  { constructor.
    - exact HndAB.
    - exact Hheights.
    - change (llevel z') with l'. lia.
    - change (hlv z') with (hlv z2). rewrite H2. exact (inv_hlv z _ HI).
    - pose proof (inv_nodes z _ HI) as H.
      assert (H' : Forall (node_ok z) (A ++ B)).
      { apply Forall_app in H. destruct H as [Ha Hb]. inversion Hb; subst. apply Forall_app. auto. }
      eapply Forall_impl; [|exact H']. intros n [Hs Hh]. split; [rewrite Hnsc'|rewrite Hnht']; assumption.
    - intros j Hj. change (llevel z') with l' in Hj.
      apply (lane_ok_ext (col z1 j) _ j); [unfold col; symmetry; apply Hcell'|intros; unfold col; symmetry; apply Hcell'|].
      apply Hlanes1. lia.
    - intros j Hj. change (llevel z') with l' in Hj. rewrite Hcell'.
      destruct (Nat.lt_ge_cases j (llevel z)) as [Hjl|Hjl].
      + destruct (Hnil j ltac:(lia)) as [sp Hsp]. rewrite Hcell2 in Hsp. eauto.
      + rewrite Hc1_same by (left; exact Hjl). apply (inv_top z _ HI). lia.
    - (* backward references *)
      pose proof (inv_back z _ HI) as Hb. apply back_ok_app in Hb. destruct Hb as [HbA HbB].
      simpl in HbB. destruct HbB as [_ HbB].
      assert (Hnbk' : forall e', nbk z' e' =
                match fB with
                | Node f => if e' =? f then (match nbk z1 f with Some _ => Some (nback nx) | None => None end) else nbk z1 e'
                | _ => nbk z1 e'
                end).
      { intros e'. change (nbk z' e') with (nbk z2 e'). unfold z2. destruct fB; [reflexivity..|]. apply nbk_set_back. }
      apply back_ok_app. split.
      + apply (back_ok_ext z); [|exact HbA]. intros n Hn. rewrite Hnbk'. unfold fB. destruct B as [|f t]; [apply A2|].
        cbn [nref]. destruct (Z.eqb_spec (le n) (le f)) as [E|_]; [|apply A2].
        exfalso. rewrite map_app in HndAB. clear - HndAB Hn E.
        induction A as [|a A IH]; simpl in *; [contradiction|].
        inversion HndAB as [|? ? Hni Hnd']; subst. destruct Hn as [->|Hn]; [|auto].
        apply Hni. apply in_or_app. right. simpl. left. symmetry. exact E.
      + unfold fB in Hnbk'. destruct B as [|f t]; [exact I|]. simpl in HbB. destruct HbB as [Hbf Hbt].
        cbn [nref] in Hnbk'. simpl. split.
        * rewrite Hnbk', Z.eqb_refl, A2, Hbf, Hbk. reflexivity.
        * apply (back_ok_ext z); [|exact Hbt]. intros n Hn. rewrite Hnbk'.
          destruct (Z.eqb_spec (le n) (le f)) as [E|_]; [|apply A2].
          exfalso. rewrite map_app in HndAB. apply nodup_app_r in HndAB. simpl in HndAB.
          inversion HndAB as [|? ? Hni _]; subst. apply Hni. rewrite <- E. apply in_map. exact Hn.
    - (* tail *)
      change (ltail z') with (ltail z2). unfold z2, fB. destruct B as [|f t].
      + simpl. rewrite Hbk, app_nil_r. reflexivity.
      + cbn [nref]. destruct (misc_set_back z1 (le f) (nback nx)) as (Ht & _). rewrite Ht, A4.
        rewrite (inv_tail z _ HI). unfold last_ref.
        fold (last_or Nil (A ++ xn :: f :: t)). fold (last_or Nil (A ++ f :: t)).
        rewrite (last_or_app_nonempty Nil A (xn :: f :: t)) by discriminate.
        rewrite (last_or_app_nonempty Nil A (f :: t)) by discriminate.
        rewrite (last_or_cons Nil xn). rewrite !last_or_cons. reflexivity.
    - change (llen z') with (llen z2 - 1). rewrite L2, (inv_len z _ HI). rewrite !app_length. simpl length. lia. }
  (* the level is the largest height *)
  unfold LTight. change (llevel z') with l'.
  destruct Hstop as [H1|(c & Hc & Hf)]; [left; exact H1|]. right.
  rewrite Hcell2 in Hc.
  destruct (lane_head_some (col z1 (l' - 1)) (l' - 1) (A ++ B) Head 0 c (Hlanes1 (l' - 1)%nat ltac:(lia)) Hc Hf) as (n & Hn & Hlt).
  exists n. split; [exact Hn|]. rewrite Forall_forall in Hheights. specialize (Hheights n Hn). lia.
Qed.
