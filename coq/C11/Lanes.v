(* C11, stage 2 (partial) — the express lanes.  A skip list is its level-0 chain of nodes,
   each with a height h >= 1 (the node is linked in lanes 0 .. h-1); the forward link of a
   node in lane i goes to the next node of height > i and its span is the distance to it
   (this is exactly what Run.v validates on every probe).  Every search loop of
   zskiplist.go has the shape

       for i := level-1; i >= 0; i-- {
           for x.level[i].forward != nil && P(x.level[i].forward) { rank += span; x = forward }
       }

   For every assignment of heights and every predicate P that holds on a prefix of the
   chain and fails on the rest, this search stops where the level-0 scan stops and the
   spans it has summed are the number of nodes passed. *)
From Coq Require Import List Arith Lia Bool.
Import ListNotations.

Section Lanes.
Context {X : Type}.
Variable P : X -> bool.

Definition node : Type := (nat * X)%type.      (* (height, payload) *)

(* the forward link in lane i from the position just before [rest]: span, payload of the
   target, nodes after the target; None = nil *)
Fixpoint next_at (i : nat) (rest : list node) : option (nat * X * list node) :=
  match rest with
  | [] => None
  | (h, x) :: t =>
      if i <? h then Some (1, x, t)
      else match next_at i t with
           | Some (k, y, t') => Some (S k, y, t')
           | None => None
           end
  end.

(* the inner loop in lane i (fuel = an upper bound on the number of iterations) *)
Fixpoint advance (fuel i rank : nat) (rest : list node) : nat * list node :=
  match fuel with
  | 0 => (rank, rest)
  | S f => match next_at i rest with
           | Some (k, y, t') => if P y then advance f i (rank + k) t' else (rank, rest)
           | None => (rank, rest)
           end
  end.

(* the outer loop: lanes levels-1, ..., 0 *)
Fixpoint search (levels rank : nat) (rest : list node) : nat * list node :=
  match levels with
  | 0 => (rank, rest)
  | S i => let '(r, t) := advance (length rest) i rank rest in search i r t
  end.

(* the level-0 scan: walk the chain while P holds *)
Fixpoint scan (rank : nat) (rest : list node) : nat * list node :=
  match rest with
  | [] => (rank, rest)
  | (h, x) :: t => if P x then scan (S rank) t else (rank, rest)
  end.

Definition holds (n : node) : Prop := P (snd n) = true.
Definition fails (n : node) : Prop := P (snd n) = false.

Lemma scan_spec A B rank : Forall holds A -> Forall fails B ->
  scan rank (A ++ B) = (rank + length A, B).
Proof.
  intros HA HB. revert rank. induction HA as [|[h x] A Hx _ IH]; intros rank; simpl.
  - rewrite Nat.add_0_r. destruct B as [|[h y] B']; [reflexivity|].
    inversion HB as [|? ? Hy _]; subst. unfold fails in Hy. simpl in *. rewrite Hy. reflexivity.
  - unfold holds in Hx. simpl in Hx. rewrite Hx, IH. f_equal. lia.
Qed.

Lemma next_at_low i pre l : Forall (fun n : node => fst n <= i) pre ->
  next_at i (pre ++ l) =
  match next_at i l with Some (k, y, t) => Some (length pre + k, y, t) | None => None end.
Proof.
  induction 1 as [|[h x] pre Hh _ IH]; simpl.
  - destruct (next_at i l) as [[[k y] t]|]; reflexivity.
  - simpl in Hh. destruct (Nat.ltb_spec i h); [lia|]. rewrite IH.
    destruct (next_at i l) as [[[k y] t]|]; reflexivity.
Qed.

(* a list splits at its first node of height > i *)
Lemma split_at_high i (l : list node) :
  Forall (fun n => fst n <= i) l \/
  exists pre h x post, l = pre ++ (h, x) :: post /\ Forall (fun n : node => fst n <= i) pre /\ i < h.
Proof.
  induction l as [|[h x] t IH].
  - left. constructor.
  - destruct (Nat.lt_ge_cases i h) as [Hlt|Hge].
    + right. exists [], h, x, t. repeat split; auto.
    + destruct IH as [IH|(pre & h' & x' & post & -> & Hpre & Hlt)].
      * left. constructor; assumption.
      * right. exists ((h, x) :: pre), h', x', post. repeat split; auto.
Qed.

(* the inner loop passes a block of nodes on which P holds and stops in front of nodes that
   are not linked in lane i (or in front of the part where P fails) *)
Lemma advance_spec B i : Forall fails B -> forall fuel A rank,
  Forall holds A -> length A <= fuel ->
  exists A1 A2, A = A1 ++ A2 /\ Forall (fun n => fst n <= i) A2 /\
                advance fuel i rank (A ++ B) = (rank + length A1, A2 ++ B).
Proof.
  intros HB. induction fuel as [|f IH]; intros A rank HA Hlen.
  - destruct A; [|simpl in Hlen; lia]. exists [], []. repeat split; auto. simpl. f_equal. lia.
  - cbn [advance]. destruct (split_at_high i A) as [Hlow|(pre & h & x & post & -> & Hpre & Hlt)].
    + (* no node of A is linked in lane i: the forward link leads into B or is nil *)
      exists [], A. split; [reflexivity|]. split; [exact Hlow|].
      rewrite next_at_low by exact Hlow. simpl. rewrite Nat.add_0_r.
      destruct (next_at i B) as [[[k y] t]|] eqn:En; [|reflexivity].
      assert (Hy : P y = false).
      { clear - HB En. revert k y t En. induction HB as [|[h' z] B' Hz _ IH]; intros k y t En; simpl in En.
        - discriminate.
        - destruct (i <? h'); [injection En as _ <- _; exact Hz|].
          destruct (next_at i B') as [[[k' y'] t']|]; [|discriminate].
          injection En as _ <- _. eapply IH. reflexivity. }
      rewrite Hy. reflexivity.
    + rewrite <- app_assoc. rewrite next_at_low by exact Hpre. cbn [app next_at].
      destruct (Nat.ltb_spec i h); [|lia].
      apply Forall_app in HA. destruct HA as [HApre HA'].
      inversion HA' as [|? ? Hx HApost]; subst. unfold holds in Hx. simpl in Hx. rewrite Hx.
      destruct (IH post (rank + (length pre + 1)) HApost) as (A1 & A2 & -> & Hlow2 & Eadv).
      { unfold node in *. rewrite app_length in Hlen. simpl in Hlen. lia. }
      exists (pre ++ (h, x) :: A1), A2. split; [rewrite <- app_assoc; reflexivity|].
      split; [exact Hlow2|]. unfold node in *. rewrite Eadv. f_equal. rewrite app_length. simpl. lia.
Qed.

(* all lanes: from a position followed by A (P holds, heights between 1 and levels) and B
   (P fails) the search passes exactly A *)
Lemma search_spec B : Forall fails B -> forall levels A rank,
  Forall holds A -> Forall (fun n : node => 1 <= fst n <= levels) A ->
  search levels rank (A ++ B) = (rank + length A, B).
Proof.
  intros HB. induction levels as [|i IH]; intros A rank HA Hh.
  - destruct A as [|n A]; [simpl; f_equal; lia|]. inversion Hh; subst. lia.
  - cbn [search].
    destruct (advance_spec B i HB (length (A ++ B)) A rank HA) as (A1 & A2 & -> & Hlow & ->).
    { rewrite app_length. lia. }
    apply Forall_app in HA. destruct HA as [_ HA2].
    apply Forall_app in Hh. destruct Hh as [_ Hh2].
    rewrite IH.
    + f_equal. rewrite app_length. lia.
    + exact HA2.
    + rewrite Forall_forall in *. intros n Hn. specialize (Hh2 n Hn). specialize (Hlow n Hn). lia.
Qed.

(* lane search = level-0 scan, for all height assignments *)
Theorem lane_search_eq_scan (levels : nat) (A B : list node) :
  Forall holds A -> Forall fails B ->
  Forall (fun n : node => 1 <= fst n <= levels) A ->
  search levels 0 (A ++ B) = scan 0 (A ++ B) /\ search levels 0 (A ++ B) = (length A, B).
Proof.
  intros HA HB Hh. rewrite (search_spec B HB levels A 0 HA Hh), (scan_spec A B 0 HA HB). auto.
Qed.

End Lanes.
