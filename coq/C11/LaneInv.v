(* C11, stage 2 — the lanes as a predicate over the level-0 chain, and the lemmas used to
   re-establish it after the pointer surgery of Insert and deleteNode. *)
From Coq Require Import ZArith List Bool Lia.
From FV Require Import Generated.Consts C11.Spec C11.Model C11.LaneModel C11.LaneHeap.
Import ListNotations.
Open Scope Z_scope.

(* a node of the abstract chain: score, member, height *)
Record lnode : Type := mkN { ls : Z; le : Z; lh : nat }.
Definition ent (n : lnode) : entry := (ls n, le n).
Definition nref (n : lnode) : ref := Node (le n).

(* column i of the heap: the level-i cell of every reference *)
Definition col (z : lzsl) (i : nat) : ref -> option lvl := fun r => cell z r i.

(* Lane i, read along the chain: [cur] is the last lane node seen, [d] the number of chain
   nodes passed since; the forward reference of a lane node is the next chain node of height
   > i and its span the distance to it; the last lane node has forward nil and span = the
   number of chain nodes after it. *)
Fixpoint lane_ok (c : ref -> option lvl) (i : nat) (cur : ref) (d : Z) (rest : list lnode) : Prop :=
  match rest with
  | [] => c cur = Some (mkLvl Nil d)
  | n :: t =>
      if (i <? lh n)%nat
      then c cur = Some (mkLvl (nref n) (d + 1)) /\ lane_ok c i (nref n) 0 t
      else lane_ok c i cur (d + 1) t
  end.

(* the same without the obligation on the last lane node *)
Fixpoint lane_pre (c : ref -> option lvl) (i : nat) (cur : ref) (d : Z) (A : list lnode) : Prop :=
  match A with
  | [] => True
  | n :: t =>
      if (i <? lh n)%nat
      then c cur = Some (mkLvl (nref n) (d + 1)) /\ lane_pre c i (nref n) 0 t
      else lane_pre c i cur (d + 1) t
  end.

(* the last lane node within A (or cur) and the number of chain nodes after it *)
Fixpoint lane_end (i : nat) (cur : ref) (d : Z) (A : list lnode) : ref * Z :=
  match A with
  | [] => (cur, d)
  | n :: t => if (i <? lh n)%nat then lane_end i (nref n) 0 t else lane_end i cur (d + 1) t
  end.

Lemma lane_end_app i A B : forall cur d,
  lane_end i cur d (A ++ B) = lane_end i (fst (lane_end i cur d A)) (snd (lane_end i cur d A)) B.
Proof.
  induction A as [|n t IH]; intros cur d; simpl.
  - reflexivity.
  - destruct (i <? lh n)%nat; apply IH.
Qed.

Lemma lane_ok_app c i A B : forall cur d,
  lane_ok c i cur d (A ++ B) <->
  lane_pre c i cur d A /\ lane_ok c i (fst (lane_end i cur d A)) (snd (lane_end i cur d A)) B.
Proof.
  induction A as [|n t IH]; intros cur d; simpl.
  - tauto.
  - destruct (i <? lh n)%nat; rewrite IH; tauto.
Qed.

(* the end of a lane is cur itself or a node of A *)
Lemma lane_end_in i A : forall cur d,
  fst (lane_end i cur d A) = cur \/ exists n, In n A /\ fst (lane_end i cur d A) = nref n.
Proof.
  induction A as [|n t IH]; intros cur d; simpl.
  - left. reflexivity.
  - destruct (i <? lh n)%nat.
    + right. destruct (IH (nref n) 0) as [E|(m & Hm & E)]; [exists n|exists m]; auto.
    + destruct (IH cur (d + 1)) as [E|(m & Hm & E)]; [left|right; exists m]; auto.
Qed.

Lemma lane_end_dist i A : forall cur d, 0 <= d ->
  0 <= snd (lane_end i cur d A) <= d + Z.of_nat (length A).
Proof.
  induction A as [|n t IH]; intros cur d Hd; simpl.
  - lia.
  - destruct (i <? lh n)%nat.
    + specialize (IH (nref n) 0 ltac:(lia)). lia.
    + specialize (IH cur (d + 1) ltac:(lia)). lia.
Qed.

(* lane_ok only reads the cells of cur and of the nodes of the rest *)
Lemma lane_ok_ext c c' i rest : forall cur d,
  c cur = c' cur -> (forall n, In n rest -> c (nref n) = c' (nref n)) ->
  lane_ok c i cur d rest -> lane_ok c' i cur d rest.
Proof.
  induction rest as [|n t IH]; intros cur d Hc Hr; simpl.
  - congruence.
  - destruct (i <? lh n)%nat.
    + intros [H1 H2]. split; [congruence|].
      apply IH; [apply Hr; left; reflexivity|intros; apply Hr; right; assumption|exact H2].
    + apply IH; [exact Hc|intros; apply Hr; right; assumption].
Qed.

(* lane_pre reads the cells of cur and of the nodes of A, except the end of the lane *)
Lemma lane_pre_ext c c' i A : forall cur d,
  NoDup (map le A) -> (forall n, In n A -> nref n <> cur) ->
  (forall r, (r = cur \/ exists n, In n A /\ r = nref n) -> r <> fst (lane_end i cur d A) -> c r = c' r) ->
  lane_pre c i cur d A -> lane_pre c' i cur d A.
Proof.
  induction A as [|n t IH]; intros cur d Hnd Hcur Hc; simpl.
  - auto.
  - simpl in Hnd. inversion Hnd as [|? ? Hni Hnd']; subst.
    simpl in Hc. destruct (i <? lh n)%nat eqn:Ei.
    + intros [H1 H2]. split.
      * rewrite <- Hc; [exact H1|left; reflexivity|].
        destruct (lane_end_in i t (nref n) 0) as [E|(m & Hm & E)]; rewrite E.
        -- intros E'. apply (Hcur n); [left; reflexivity|congruence].
        -- intros E'. apply (Hcur m); [right; assumption|congruence].
      * apply IH; auto.
        -- intros m Hm E. apply Hni. unfold nref in E. injection E as E. rewrite <- E. apply in_map. exact Hm.
        -- intros r Hr Hne. apply Hc; [|exact Hne].
           destruct Hr as [->|(m & Hm & ->)]; right; [exists n|exists m]; auto.
    + apply IH; auto.
      * intros m Hm. apply Hcur. right. exact Hm.
      * intros r Hr Hne. apply Hc; [|exact Hne].
        destruct Hr as [->|(m & Hm & ->)]; [left; reflexivity|right; exists m; auto].
Qed.

(* moving the root of a lane segment: if the lane read from [a] (da chain nodes behind) is
   right, then it is right read from [b] (db nodes behind) once b's cell is a's with the span
   corrected by the difference — Insert (new node takes over the predecessor's link),
   deleteNode (predecessor takes over the deleted node's link), span++ and span-- *)
Lemma lane_shift c c' i B a b da db : forall k ca,
  c a = Some ca ->
  c' b = Some (mkLvl (fwd ca) (span ca - da + db)) ->
  (forall n, In n B -> c' (nref n) = c (nref n)) ->
  lane_ok c i a (da + k) B -> lane_ok c' i b (db + k) B.
Proof.
  induction B as [|n t IH]; intros k ca Ha Hb Hfr; simpl.
  - intros H. rewrite Ha in H. injection H as H. rewrite Hb. destruct ca as [f sp]; simpl in *.
    injection H as -> ->. f_equal. f_equal. lia.
  - destruct (i <? lh n)%nat.
    + intros [H1 H2]. rewrite Ha in H1. injection H1 as H1. destruct ca as [f sp]; simpl in *.
      injection H1 as -> ->. split.
      * rewrite Hb. f_equal. f_equal. lia.
      * apply (lane_ok_ext c c'); auto.
        -- symmetry. apply Hfr. left. reflexivity.
        -- intros m Hm. symmetry. apply Hfr. right. exact Hm.
    + intros H. replace (db + k + 1) with (db + (k + 1)) by lia.
      apply (IH (k + 1) ca); auto.
      * intros m Hm. apply Hfr. right. exact Hm.
      * replace (da + (k + 1)) with (da + k + 1) by lia. exact H.
Qed.

(* where the lane ends: at cur (no node of A is in the lane) or at a node of A *)
Lemma lane_end_decomp j A : forall cur d u d2,
  lane_end j cur d A = (u, d2) ->
  (u = cur /\ d2 = d + Z.of_nat (length A) /\ Forall (fun n => (lh n <= j)%nat) A) \/
  (exists A1 n A2, A = A1 ++ n :: A2 /\ u = nref n /\ (j < lh n)%nat /\
                   d2 = Z.of_nat (length A2) /\ Forall (fun m => (lh m <= j)%nat) A2).
Proof.
  induction A as [|n t IH]; intros cur d u d2; simpl.
  - intros H. injection H as <- <-. left. repeat split; [lia|constructor].
  - destruct (Nat.ltb_spec j (lh n)) as [Hlt|Hge]; intros H.
    + destruct (IH _ _ _ _ H) as [(-> & -> & Hall)|(A1 & m & A2 & -> & -> & Hm & -> & Hall)].
      * right. exists [], n, t. repeat split; auto; lia.
      * right. exists (n :: A1), m, A2. repeat split; auto.
    + destruct (IH _ _ _ _ H) as [(-> & -> & Hall)|(A1 & m & A2 & -> & -> & Hm & -> & Hall)].
      * left. repeat split; [simpl length; lia|constructor; assumption].
      * right. exists (n :: A1), m, A2. repeat split; auto.
Qed.

Lemma lane_end_snoc i A n cur d : (i < lh n)%nat -> lane_end i cur d (A ++ [n]) = (nref n, 0).
Proof.
  intros H. rewrite lane_end_app. simpl. destruct (Nat.ltb_spec i (lh n)); [reflexivity|lia].
Qed.

Lemma lane_end_low i A : forall cur d, Forall (fun n => (lh n <= i)%nat) A ->
  lane_end i cur d A = (cur, d + Z.of_nat (length A)).
Proof.
  induction A as [|n t IH]; intros cur d H; simpl.
  - f_equal. lia.
  - inversion H; subst. destruct (Nat.ltb_spec i (lh n)); [lia|].
    rewrite IH by assumption. f_equal. simpl length. lia.
Qed.

Lemma lane_pre_low c i A : forall cur d, Forall (fun n => (lh n <= i)%nat) A -> lane_pre c i cur d A.
Proof.
  induction A as [|n t IH]; intros cur d H; simpl; [exact I|].
  inversion H; subst. destruct (Nat.ltb_spec i (lh n)); [lia|]. apply IH. assumption.
Qed.

Lemma lane_ok_low c i B : forall cur d, Forall (fun n => (lh n <= i)%nat) B ->
  (lane_ok c i cur d B <-> c cur = Some (mkLvl Nil (d + Z.of_nat (length B)))).
Proof.
  induction B as [|n t IH]; intros cur d H; simpl.
  - rewrite Z.add_0_r. tauto.
  - inversion H; subst. destruct (Nat.ltb_spec i (lh n)); [lia|].
    rewrite IH by assumption. replace (d + 1 + Z.of_nat (length t)) with (d + Z.pos (Pos.of_succ_nat (length t))) by lia.
    tauto.
Qed.

Lemma nodup_app_l {X} (l1 l2 : list X) : NoDup (l1 ++ l2) -> NoDup l1.
Proof.
  induction l1 as [|a l1 IH]; simpl; intros H; [constructor|].
  inversion H as [|? ? Hni Hnd]; subst. constructor; [|auto].
  intros Hin. apply Hni. apply in_or_app. auto.
Qed.

Lemma nodup_app_r {X} (l1 l2 : list X) : NoDup (l1 ++ l2) -> NoDup l2.
Proof.
  induction l1 as [|a l1 IH]; simpl; intros H; [exact H|].
  inversion H; subst. auto.
Qed.

Lemma lane_ok_cell c i B : forall cur d, lane_ok c i cur d B -> exists cu, c cur = Some cu.
Proof.
  induction B as [|n t IH]; intros cur d; simpl.
  - eauto.
  - destruct (i <? lh n)%nat; [intros [H _]; eauto|apply IH].
Qed.

(* the forward reference of the current lane node is nil or a node of the rest *)
Lemma lane_fwd_in c i B : forall cur d cu, lane_ok c i cur d B -> c cur = Some cu ->
  fwd cu = Nil \/ exists n, In n B /\ fwd cu = nref n.
Proof.
  induction B as [|n t IH]; intros cur d cu HB Hcu; simpl in HB.
  - rewrite Hcu in HB. injection HB as ->. left. reflexivity.
  - destruct (i <? lh n)%nat.
    + destruct HB as [HB _]. rewrite Hcu in HB. injection HB as ->. right. exists n. simpl. auto.
    + destruct (IH _ _ _ HB Hcu) as [H|(m & Hm & H)]; [left; exact H|right; exists m; simpl; auto].
Qed.

(* the lane end inside A is not a node of B, nor a fresh node *)
Lemma lane_end_not_in i A B cur d : NoDup (map le (A ++ B)) ->
  (forall n, In n (A ++ B) -> nref n <> cur) ->
  forall n, In n B -> nref n <> fst (lane_end i cur d A).
Proof.
  intros Hnd Hcur n Hn E.
  destruct (lane_end_in i A cur d) as [E'|(m & Hm & E')]; rewrite E' in E.
  - apply (Hcur n); [apply in_or_app; auto|exact E].
  - unfold nref in E. injection E as E.
    rewrite map_app in Hnd.
    clear - Hnd Hn Hm E.
    induction A as [|a A IH]; simpl in *; [contradiction|].
    inversion Hnd as [|? ? Hni Hnd']; subst. destruct Hm as [->|Hm].
    + apply Hni. rewrite <- E. rewrite <- map_app. apply in_map. apply in_or_app. auto.
    + apply IH; assumption.
Qed.

(* ---------------------------------------------------------------- Insert, one lane *)
Section InsertLane.
Variables (c c' : ref -> option lvl) (j : nat) (A B : list lnode) (x : lnode).
Hypothesis Hnd : NoDup (map le (A ++ B)).
Hypothesis Hfresh : ~ In (le x) (map le (A ++ B)).
Hypothesis Hlane : lane_ok c j Head 0 (A ++ B).

Let u := fst (lane_end j Head 0 A).
Let du := snd (lane_end j Head 0 A).

Lemma head_not_node : forall n, In n (A ++ B) -> nref n <> Head.
Proof. intros n _ E. discriminate E. Qed.

Lemma u_not_x : u <> nref x.
Proof.
  unfold u. destruct (lane_end_in j A Head 0) as [E|(m & Hm & E)]; rewrite E; [discriminate|].
  intros E'. unfold nref in E'. injection E' as E'. apply Hfresh. rewrite <- E'.
  apply in_map. apply in_or_app. auto.
Qed.

Lemma pre_frame : (forall r, r <> nref x -> r <> u -> c' r = c r) -> lane_pre c' j Head 0 A.
Proof.
  intros Hfr. apply lane_ok_app in Hlane. destruct Hlane as [Hpre _].
  apply (lane_pre_ext c c'); auto.
  - rewrite map_app in Hnd. apply nodup_app_l in Hnd. exact Hnd.
  - intros n _ E. discriminate E.
  - intros r Hr Hne. symmetry. apply Hfr; [|exact Hne].
    destruct Hr as [->|(n & Hn & ->)]; [discriminate|].
    intros E. unfold nref in E. injection E as E. apply Hfresh. rewrite <- E.
    apply in_map. apply in_or_app. auto.
Qed.

Lemma B_frame : (forall r, r <> nref x -> r <> u -> c' r = c r) ->
  forall n, In n B -> c' (nref n) = c (nref n).
Proof.
  intros Hfr n Hn. apply Hfr.
  - intros E. unfold nref in E. injection E as E. apply Hfresh. rewrite <- E.
    apply in_map. apply in_or_app. auto.
  - apply (lane_end_not_in j A B Head 0 Hnd head_not_node n Hn).
Qed.

(* the new node is linked in lane j *)
Lemma lane_insert_low cu :
  (j < lh x)%nat -> c u = Some cu ->
  c' (nref x) = Some (mkLvl (fwd cu) (span cu - du)) ->
  c' u = Some (mkLvl (nref x) (du + 1)) ->
  (forall r, r <> nref x -> r <> u -> c' r = c r) ->
  lane_ok c' j Head 0 (A ++ x :: B).
Proof.
  intros Hj Hcu Hcx Hcu' Hfr. apply lane_ok_app. split; [apply pre_frame; exact Hfr|].
  fold u du. simpl. destruct (Nat.ltb_spec j (lh x)); [|lia].
  split; [exact Hcu'|].
  apply lane_ok_app in Hlane. destruct Hlane as [_ HB]. fold u du in HB.
  apply (lane_shift c c' j B u (nref x) du 0 0 cu); auto.
  - rewrite Hcx. f_equal. f_equal. lia.
  - apply B_frame. exact Hfr.
  - rewrite Z.add_0_r. exact HB.
Qed.

(* the new node is below lane j: the span over it grows by one *)
Lemma lane_insert_high cu :
  (lh x <= j)%nat -> c u = Some cu ->
  c' u = Some (mkLvl (fwd cu) (span cu + 1)) ->
  (forall r, r <> nref x -> r <> u -> c' r = c r) ->
  lane_ok c' j Head 0 (A ++ x :: B).
Proof.
  intros Hj Hcu Hcu' Hfr. apply lane_ok_app. split; [apply pre_frame; exact Hfr|].
  fold u du. simpl. destruct (Nat.ltb_spec j (lh x)); [lia|].
  apply lane_ok_app in Hlane. destruct Hlane as [_ HB]. fold u du in HB.
  replace (du + 1) with ((du + 1) + 0) by lia.
  apply (lane_shift c c' j B u u du (du + 1) 0 cu); auto.
  - rewrite Hcu'. f_equal. f_equal. lia.
  - apply B_frame. exact Hfr.
  - rewrite Z.add_0_r. exact HB.
Qed.

End InsertLane.

(* ---------------------------------------------------------------- deleteNode, one lane *)
Section DeleteLane.
Variables (c c' : ref -> option lvl) (j : nat) (A B : list lnode) (x : lnode).
Hypothesis Hnd : NoDup (map le (A ++ x :: B)).
Hypothesis Hlane : lane_ok c j Head 0 (A ++ x :: B).

Let u := fst (lane_end j Head 0 A).
Let du := snd (lane_end j Head 0 A).

Lemma del_nodup_AB : NoDup (map le (A ++ B)).
Proof.
  rewrite map_app in *. simpl in Hnd. apply NoDup_remove_1 in Hnd. exact Hnd.
Qed.

Lemma del_x_fresh : ~ In (le x) (map le (A ++ B)).
Proof.
  rewrite map_app in *. simpl in Hnd. apply NoDup_remove_2 in Hnd. exact Hnd.
Qed.

Lemma del_u_not_x : u <> nref x.
Proof.
  unfold u. destruct (lane_end_in j A Head 0) as [E|(m & Hm & E)]; rewrite E; [discriminate|].
  intros E'. unfold nref in E'. injection E' as E'. apply del_x_fresh. rewrite <- E'.
  apply in_map. apply in_or_app. auto.
Qed.

Lemma del_pre_frame : (forall r, r <> u -> c' r = c r) -> lane_pre c' j Head 0 A.
Proof.
  intros Hfr. apply lane_ok_app in Hlane. destruct Hlane as [Hpre _].
  apply (lane_pre_ext c c'); auto.
  - rewrite map_app in Hnd. apply nodup_app_l in Hnd. exact Hnd.
  - intros n _ E. discriminate E.
  - intros r _ Hne. symmetry. apply Hfr. exact Hne.
Qed.

Lemma del_B_frame : (forall r, r <> u -> c' r = c r) -> forall n, In n B -> c' (nref n) = c (nref n).
Proof.
  intros Hfr n Hn. apply Hfr.
  apply (lane_end_not_in j A B Head 0 del_nodup_AB); [intros m _ E; discriminate E|exact Hn].
Qed.

(* what the two branches of deleteNode see in lane j *)
Lemma del_lane_cells :
  exists cu, c u = Some cu /\
    if (j <? lh x)%nat
    then fwd cu = nref x /\ span cu = du + 1 /\ exists cx, c (nref x) = Some cx /\ lane_ok c j (nref x) 0 B
    else fwd cu <> nref x /\ lane_ok c j u (du + 1) B.
Proof.
  apply lane_ok_app in Hlane. destruct Hlane as [_ HB]. fold u du in HB. simpl in HB.
  destruct (j <? lh x)%nat.
  - destruct HB as [Hcu HB']. eexists. split; [exact Hcu|]. simpl. repeat split; auto.
    destruct (lane_ok_cell _ _ _ _ _ HB') as [cx Hcx]. eauto.
  - destruct (lane_ok_cell _ _ _ _ _ HB) as [cu Hcu]. exists cu. split; [exact Hcu|]. split; [|exact HB].
    (* the forward reference of u is nil or a node of B, never x *)
    intros Ef. destruct (lane_fwd_in _ _ _ _ _ _ HB Hcu) as [H|(n & Hn & H)]; rewrite H in Ef; [discriminate|].
    unfold nref in Ef. injection Ef as Ef.
    rewrite map_app in Hnd. simpl in Hnd. apply NoDup_remove_2 in Hnd. apply Hnd.
    rewrite <- Ef. apply in_or_app. right. apply in_map. exact Hn.
Qed.

Lemma lane_delete_low cu cx :
  (j < lh x)%nat -> c u = Some cu -> c (nref x) = Some cx ->
  c' u = Some (mkLvl (fwd cx) (span cu + (span cx - 1))) ->
  (forall r, r <> u -> c' r = c r) ->
  lane_ok c' j Head 0 (A ++ B).
Proof.
  intros Hj Hcu Hcx Hcu' Hfr. apply lane_ok_app. split; [apply del_pre_frame; exact Hfr|].
  fold u du.
  destruct del_lane_cells as (cu0 & Hcu0 & Hcase). fold u in Hcu0. rewrite Hcu in Hcu0. injection Hcu0 as <-.
  destruct (Nat.ltb_spec j (lh x)); [|lia].
  destruct Hcase as (Hf & Hsp & cx0 & Hcx0 & HB). rewrite Hcx in Hcx0. injection Hcx0 as <-.
  replace du with (du + 0) by lia.
  apply (lane_shift c c' j B (nref x) u 0 du 0 cx); auto.
  - rewrite Hcu'. f_equal. f_equal. lia.
  - apply del_B_frame. exact Hfr.
Qed.

Lemma lane_delete_high cu :
  (lh x <= j)%nat -> c u = Some cu ->
  c' u = Some (mkLvl (fwd cu) (span cu - 1)) ->
  (forall r, r <> u -> c' r = c r) ->
  lane_ok c' j Head 0 (A ++ B).
Proof.
  intros Hj Hcu Hcu' Hfr. apply lane_ok_app. split; [apply del_pre_frame; exact Hfr|].
  fold u du.
  destruct del_lane_cells as (cu0 & Hcu0 & Hcase). fold u in Hcu0. rewrite Hcu in Hcu0. injection Hcu0 as <-.
  destruct (Nat.ltb_spec j (lh x)); [lia|]. destruct Hcase as [_ HB].
  replace du with (du + 0) by lia.
  apply (lane_shift c c' j B u u (du + 1) du 0 cu); auto.
  - rewrite Hcu'. f_equal. f_equal. lia.
  - apply del_B_frame. exact Hfr.
  - rewrite Z.add_0_r. exact HB.
Qed.

End DeleteLane.
