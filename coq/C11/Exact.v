(* C11 — what must NOT change: queries leave every model's state untouched (so a history and
   the same history without its queries end in the same state), and each removal removes
   exactly the stated members and nothing else. *)
From Coq Require Import ZArith List Bool Lia Permutation.
From FV Require Import C11.Spec C11.Model C11.Sorted C11.Scans C11.Refine C11.LaneModel
  C11.LaneInv C11.LaneSearch C11.LaneSim C11.LaneQuery.
Import ListNotations.
Open Scope Z_scope.

Definition mutating (o : op) : bool :=
  match o with
  | Add _ _ | Remove _ | RemByScore _ _ | RemByRank _ _ => true
  | _ => false
  end.

Lemma query_pure o : mutating o = false ->
  (forall l, fst (lstep l o) = l) /\ (forall z, fst (step z o) = z) /\ (forall st, fst (spec_step st o) = st).
Proof.
  destruct o; simpl; try discriminate; intros _; repeat split; intros; try reflexivity.
  - destruct (index_of e (map member (ranking st)) 0); reflexivity.
  - destruct (norm_range (zlen st) start stop) as [[a b]|]; reflexivity.
Qed.

Lemma lrun_without_queries ops : forall l, fst (lrun l ops) = fst (lrun l (filter mutating ops)).
Proof.
  induction ops as [|o ops IH]; intros l; [reflexivity|]. cbn [filter lrun].
  destruct (mutating o) eqn:Em.
  - cbn [lrun]. destruct (lstep l o) as [l1 x]. specialize (IH l1).
    destruct (lrun l1 ops), (lrun l1 (filter mutating ops)). exact IH.
  - pose proof (proj1 (query_pure o Em) l) as Hq. destruct (lstep l o) as [l1 x]. simpl in Hq. subst l1.
    specialize (IH l). destruct (lrun l ops). exact IH.
Qed.

Lemma run_without_queries ops : forall z, fst (run z ops) = fst (run z (filter mutating ops)).
Proof.
  induction ops as [|o ops IH]; intros z; [reflexivity|]. cbn [filter run].
  destruct (mutating o) eqn:Em.
  - cbn [run]. destruct (step z o) as [z1 x]. specialize (IH z1).
    destruct (run z1 ops), (run z1 (filter mutating ops)). exact IH.
  - pose proof (proj1 (proj2 (query_pure o Em)) z) as Hq. destruct (step z o) as [z1 x]. simpl in Hq. subst z1.
    specialize (IH z). destruct (run z ops). exact IH.
Qed.

Lemma spec_run_without_queries ops : forall st, fst (spec_run st ops) = fst (spec_run st (filter mutating ops)).
Proof.
  induction ops as [|o ops IH]; intros st; [reflexivity|]. cbn [filter spec_run].
  destruct (mutating o) eqn:Em.
  - cbn [spec_run]. destruct (spec_step st o) as [s1 x]. specialize (IH s1).
    destruct (spec_run s1 ops), (spec_run s1 (filter mutating ops)). exact IH.
  - pose proof (proj2 (proj2 (query_pure o Em)) st) as Hq. destruct (spec_step st o) as [s1 x]. simpl in Hq. subst s1.
    specialize (IH st). destruct (spec_run st ops). exact IH.
Qed.

(* the whole state (heap with all lanes, table, unused heights) after a history is the state
   after the same history without its queries *)
Theorem queries_change_nothing (orc : list nat) (ops : list op) :
  fst (lrun (lzempty orc) ops) = fst (lrun (lzempty orc) (filter mutating ops)) /\
  fst (run empty ops) = fst (run empty (filter mutating ops)) /\
  fst (spec_run [] ops) = fst (spec_run [] (filter mutating ops)).
Proof.
  split; [apply lrun_without_queries|]. split; [apply run_without_queries|apply spec_run_without_queries].
Qed.

(* ---------------------------------------------------------------- exact effect of the updates *)
Lemma reachable_inv ops : exists st, Inv (fst (run empty ops)) st /\ st = fst (spec_run [] ops).
Proof.
  pose proof (run_refines ops empty [] Inv_empty) as H.
  destruct (run empty ops) as [z outs]. destruct (spec_run [] ops) as [st souts].
  exists st. simpl. tauto.
Qed.

Theorem add_remove_exact ops e s :
  let z := fst (run empty ops) in
  (forall x, In x (zsl (fst (add z e s))) <-> x = (s, e) \/ (In x (zsl z) /\ member x <> e)) /\
  (forall x, In x (zsl (fst (remove z e))) <-> In x (zsl z) /\ member x <> e).
Proof.
  destruct (reachable_inv ops) as (st & HI & _). cbv zeta. set (z := fst (run empty ops)) in *.
  pose proof HI as (_ & Hin & _ & _).
  split; intros x.
  - pose proof (add_refines z st e s HI) as H. destruct (add z e s) as [z' o]. destruct H as [_ (_ & Hin' & _ & _)].
    simpl. rewrite Hin'. simpl. unfold remove_m. rewrite filter_In, negb_true_iff, Z.eqb_neq, Hin.
    split; intros [H|H]; auto.
  - pose proof (remove_refines z st e HI) as H. destruct (remove z e) as [z' o]. simpl in H.
    destruct (lookup e st) as [sc|] eqn:El.
    + destruct H as [_ (_ & Hin' & _ & _)]. simpl. rewrite Hin'. unfold remove_m.
      rewrite filter_In, negb_true_iff, Z.eqb_neq, Hin. tauto.
    + destruct H as [_ (_ & Hin' & _ & _)]. simpl. rewrite Hin', <- Hin. split; [|tauto].
      intros Hx. split; [exact Hx|]. apply (lookup_none e st El). apply Hin. exact Hx.
Qed.

Lemma skipn_skipn' {X} (l : list X) m : forall n, skipn n (skipn m l) = skipn (m + n) l.
Proof.
  revert l. induction m as [|m IH]; intros l n; [reflexivity|].
  destruct l as [|x l]; [rewrite !skipn_nil; reflexivity|]. simpl. apply IH.
Qed.

(* RemoveRangeByRank removes exactly the ranks a..b of the normalised range (negative indices
   count from the end, out-of-range indices are clamped) and returns their number; the rest of
   the list keeps its order.  Holds for every list, reachable or not. *)
Theorem remove_by_rank_exact z start stop :
  let '(z', o) := rem_by_rank z start stop in
  match norm_range (zlen (zsl z)) start stop with
  | None => zsl z' = zsl z /\ o = OInt 0
  | Some (a, b) =>
      zsl z' = firstn (Z.to_nat a) (zsl z) ++ skipn (Z.to_nat (b + 1)) (zsl z) /\ o = OInt (b - a + 1)
  end.
Proof.
  unfold rem_by_rank. cbv zeta.
  pose proof (norm_agree (zlen (zsl z)) start stop (zlen_nonneg (zsl z))) as Hn. cbv zeta in Hn.
  destruct (norm_range (zlen (zsl z)) start stop) as [[a b]|].
  - destruct Hn as (Hc & Ha & Hb & Hab & Hbl). rewrite Hc. rewrite <- Ha, <- Hb.
    rewrite del_by_rank_spec by lia.
    replace (a + 1 - 1 - 0) with a by lia. replace (b + 1 - (a + 1) + 1) with (b - a + 1) by lia.
    cbn [zsl]. split.
    + f_equal. rewrite skipn_skipn'. f_equal. lia.
    + f_equal. unfold zlen. rewrite firstn_length, skipn_length. unfold zlen in Hbl. lia.
  - rewrite Hn. auto.
Qed.

(* ---------------------------------------------------------------- the two walks *)
(* following the level-0 forward references from the header, and the backward references from
   the tail, visits the reference ranking and its reverse: the backward links are right *)
Theorem walks_are_ranking (orc : list nat) (ops : list op) :
  let l := lz (fst (lrun (lzempty orc) ops)) in
  let R := ranking (fst (spec_run [] ops)) in
  exists x, next0 l Head = Some x /\
            lwalk l false x (length R) = Some (map member R) /\
            lwalk l true (ltail l) (length R) = Some (rev (map member R)).
Proof.
  destruct (lane_model_invariant orc ops) as (L & HI & _ & EL & _).
  pose proof (refines_ranking ops) as Hr.
  destruct (run empty ops) as [z0 outs]. destruct (spec_run [] ops) as [st souts].
  destruct Hr as (_ & HR & _). cbn [fst] in *. cbv zeta.
  set (l := lz (fst (lrun (lzempty orc) ops))) in *.
  rewrite <- HR, <- EL. rewrite map_length.
  exists (head_ref L). split; [apply (next0_head l L HI)|]. split.
  - rewrite (lwalk_fwd_spec l [] L (length L) HI).
    rewrite walk_spec by (rewrite map_length; lia).
    rewrite <- (map_length ent L), firstn_all. reflexivity.
  - rewrite (inv_tail l L HI). unfold last_ref. fold (LaneInsert.last_or Nil L).
    assert (HI0 : LInv l (L ++ [])) by (rewrite app_nil_r; exact HI).
    rewrite (lwalk_bwd_spec l (length L) L [] HI0).
    rewrite walk_spec by (rewrite rev_length, map_length; lia).
    rewrite <- (map_length ent L), <- (rev_length (map ent L)), firstn_all, map_rev. reflexivity.
Qed.
