(* C11 — correspondence: decode a history recorded by harness/cmd/c11, run the model and the
   reference ranking side by side with the implementation's observed results, and validate
   the skip list's lanes on every probe.  Case format: header of harness/cmd/c11/main.go. *)
From Coq Require Import ZArith List Bool.
From FV Require Import Lib.Sx C11.Spec C11.Model C11.LaneModel.
Import ListNotations.
Open Scope Z_scope.

Definition zb (z : Z) : bool := negb (z =? 0).

(* an item of the history: an operation or a probe request *)
(* besides the calls of SortedSet and the probe: direct calls of the exported ZSkipList /
   ZSkipListNode methods (read-only), made through the probe's VerifList() *)
Inductive item :=
| IOp (o : op) | IProbe
| IWalk (backward : bool)            (* HeadNode().Next()... / TailNode().Before()... *)
| IHeight                            (* Height() *)
| IRankOf (s e : Z)                  (* zsl.GetRank(score, ele) *)
| IByRank (k : Z)                    (* zsl.GetElementByRank(rank) *)
| IInRange (a b : Z) | IFirst (a b : Z) | ILast (a b : Z)
| IDelAbsent (s e : Z).               (* zsl.Delete(score, ele) for an ele that is not in the set: nil *)

Definition dec_item (s : sx) : option item :=
  match s with
  | SList [SInt 0; SInt e; SInt sc] => Some (IOp (Add e sc))
  | SList [SInt 1; SInt e] => Some (IOp (Remove e))
  | SList [SInt 2; SInt a; SInt b] => Some (IOp (RemByScore a b))
  | SList [SInt 3; SInt a; SInt b] => Some (IOp (RemByRank a b))
  | SList [SInt 4; SInt a; SInt b] => Some (IOp (Count a b))
  | SList [SInt 5; SInt e; SInt r] => Some (IOp (GetRank e (zb r)))
  | SList [SInt 6; SInt e] => Some (IOp (GetScore e))
  | SList [SInt 7; SInt a; SInt b; SInt r] => Some (IOp (GetRange a b (zb r)))
  | SList [SInt 8; SInt a; SInt b; SInt r] => Some (IOp (GetRangeByScore a b (zb r)))
  | SList [SInt 9] => Some (IOp Len)
  | SList [SInt 10] => Some IProbe
  | SList [SInt 11] => Some (IWalk false)
  | SList [SInt 12] => Some (IWalk true)
  | SList [SInt 13] => Some IHeight
  | SList [SInt 14; SInt sc; SInt e] => Some (IRankOf sc e)
  | SList [SInt 15; SInt k] => Some (IByRank k)
  | SList [SInt 16; SInt a; SInt b] => Some (IInRange a b)
  | SList [SInt 17; SInt a; SInt b] => Some (IFirst a b)
  | SList [SInt 18; SInt a; SInt b] => Some (ILast a b)
  | SList [SInt 19; SInt sc; SInt e] => Some (IDelAbsent sc e)
  | _ => None
  end.

(* a probed node: score, member, spans, forwards, backward *)
Record pnode := mkP { p_score : Z; p_member : Z; p_spans : list Z; p_fwds : list Z; p_back : Z }.

Record probe := mkProbe {
  pr_head_spans : list Z; pr_head_fwds : list Z; pr_nodes : list pnode;
  pr_tail : Z; pr_length : Z; pr_level : Z; pr_dict : list (Z * Z) }.

(* RPairs: the (score, member) pairs met on a walk; RNode kind score member: a node pointer
   (kind 0 nil, 1 the header, 2 a node) *)
Inductive obs := ROut (o : out) (h : Z) | RProbe (p : probe) | RPairs (l : list (Z * Z)) | RNode (kind sc e : Z).

Definition dec_pnode (s : sx) : option pnode :=
  match s with
  | SList [SInt sc; SInt e; sp; fw; SInt b] =>
      match sx_ints sp, sx_ints fw with
      | Some sp, Some fw => Some (mkP sc e sp fw b)
      | _, _ => None
      end
  | _ => None
  end.

Definition dec_pair (s : sx) : option (Z * Z) :=
  match s with SList [SInt a; SInt b] => Some (a, b) | _ => None end.

Definition dec_obs (s : sx) : option obs :=
  match s with
  | SList [SInt 0; SInt b] => Some (ROut (OBool (zb b)) 1)
  | SList [SInt 0; SInt b; SInt h] => Some (ROut (OBool (zb b)) h)
  | SList [SInt 1; SInt z] => Some (ROut (OInt z) 1)
  | SList [SInt 2; l] => match sx_ints l with Some l => Some (ROut (OList l) 1) | None => None end
  | SList [SInt 3] => Some (ROut OCrash 1)
  | SList [SInt 5; SList l] => match map_opt dec_pair l with Some l => Some (RPairs l) | None => None end
  | SList [SInt 6; SInt k; SInt sc; SInt e] => Some (RNode k sc e)
  | SList [SInt 4; SList [hs; hf]; SList ns; SInt t; SInt len; SInt lvl; SList d] =>
      match sx_ints hs, sx_ints hf, map_opt dec_pnode ns, map_opt dec_pair d with
      | Some hs, Some hf, Some ns, Some d => Some (RProbe (mkProbe hs hf ns t len lvl d))
      | _, _, _, _ => None
      end
  | _ => None
  end.

Definition out_eqb (a b : out) : bool :=
  match a, b with
  | OBool x, OBool y => Bool.eqb x y
  | OInt x, OInt y => x =? y
  | OList x, OList y => list_eqb Z.eqb x y
  | OCrash, OCrash => true
  | _, _ => false
  end.

(* which sentence of the property an operation's result belongs to *)
Definition sentence (o : op) : N :=
  match o with
  | Len => 1 | GetScore _ => 2 | GetRank _ _ => 3 | GetRange _ _ _ => 4
  | GetRangeByScore _ _ _ => 5 | Count _ _ => 6 | Remove _ => 7
  | RemByRank _ _ => 8 | RemByScore _ _ => 9 | Add _ _ => 10
  end%N.

(* ---- validation of the lanes on a probe ---- *)
Definition nthz {X} (l : list X) (i : Z) (d : X) : X := nth (Z.to_nat i) l d.

(* heights of nodes 1..n *)
Definition heights (p : probe) : list Z := map (fun n => zlen (p_spans n)) (pr_nodes p).

(* the first node after position r (1-based numbering; r = 0 is the head) whose height
   exceeds level i; 0 = none *)
Fixpoint next_at (hs : list Z) (r : Z) (i : Z) : Z :=
  match hs with
  | [] => 0
  | h :: t => if i <? h then r + 1 else next_at t (r + 1) i
  end.

(* node number r with its spans/forwards, the heights of the nodes after it: at every level
   i below [lim], forward = next node of height > i, and when that exists span = distance *)
Fixpoint lanes_ok (i : Z) (spans fwds : list Z) (after : list Z) (r lim : Z) : bool :=
  match spans, fwds with
  | sp :: spans', fw :: fwds' =>
      if i <? lim then
        let nx := next_at after r i in
        (fw =? nx) && ((nx =? 0) || (sp =? nx - r)) && lanes_ok (i + 1) spans' fwds' after r lim
      else true
  | [], [] => true
  | _, _ => false
  end.

Fixpoint nodes_ok (ns : list pnode) (hs : list Z) (r : Z) : bool :=
  match ns, hs with
  | n :: ns', h :: hs' =>
      (1 <=? h) && (p_back n =? r - 1) &&
      lanes_ok 0 (p_spans n) (p_fwds n) hs' r h && nodes_ok ns' hs' (r + 1)
  | [], [] => true
  | _, _ => false
  end.

Definition structure_ok (p : probe) : bool :=
  let hs := heights p in
  let n := zlen (pr_nodes p) in
  (pr_length p =? n) && (pr_tail p =? n) &&
  (1 <=? pr_level p) && (pr_level p <=? zlen (pr_head_spans p)) &&
  forallb (fun h => h <=? pr_level p) hs &&
  lanes_ok 0 (pr_head_spans p) (pr_head_fwds p) hs 0 (pr_level p) &&
  nodes_ok (pr_nodes p) hs 1.

(* members sorted for comparison with the Go map dump (sorted by member) *)
Fixpoint ins_pair (x : Z * Z) (l : list (Z * Z)) : list (Z * Z) :=
  match l with
  | [] => [x]
  | y :: r => if fst x <=? fst y then x :: l else y :: ins_pair x r
  end.
Definition sort_pairs (l : list (Z * Z)) : list (Z * Z) := fold_right ins_pair [] l.

Definition pair_eqb (a b : Z * Z) : bool := (fst a =? fst b) && (snd a =? snd b).

(* the property on a probe: the node chain is the reference ranking and the table is the
   reference table; the correspondence: chain/table equal the model's, lanes consistent *)
Definition probe_prop (st : list entry) (p : probe) : verdict :=
  let chain := map (fun n => (p_score n, p_member n)) (pr_nodes p) in
  vjoin (check_that (list_eqb pair_eqb chain (ranking st)) (VPropFail 11))
        (check_that (list_eqb pair_eqb (pr_dict p) (sort_pairs (map (fun x => (member x, score x)) st))) (VPropFail 12)).

Definition probe_corr (z : zset) (p : probe) : verdict :=
  let chain := map (fun n => (p_score n, p_member n)) (pr_nodes p) in
  vjoin (check_that (list_eqb pair_eqb chain (zsl z)) (VMismatch 11))
 (vjoin (check_that (list_eqb pair_eqb (pr_dict p) (sort_pairs (dict z))) (VMismatch 12))
        (check_that (structure_ok p) (VMismatch 13))).

(* ---- the lane model against the probe: exact comparison of every node's score, member,
   spans, forward references (as chain positions), backward reference; the header's levels;
   tail, length and level *)
Fixpoint pos_of (e : Z) (chain : list (Z * node)) (i : Z) : Z :=
  match chain with
  | [] => -1
  | (k, _) :: r => if k =? e then i else pos_of e r (i + 1)
  end.

Definition ref_num (chain : list (Z * node)) (r : ref) : Z :=
  match r with Nil => 0 | Head => 0 | Node e => pos_of e chain 1 end.

Fixpoint list_eqb2 {X Y} (eq : X -> Y -> bool) (a : list X) (b : list Y) : bool :=
  match a, b with
  | [], [] => true
  | x :: a', y :: b' => eq x y && list_eqb2 eq a' b'
  | _, _ => false
  end.

Definition lane_probe_ok (z : lzsl) (p : probe) : bool :=
  let chain := lnodes z in
  let num := ref_num chain in
  list_eqb Z.eqb (map span (hlv z)) (pr_head_spans p) &&
  list_eqb Z.eqb (map (fun c => num (fwd c)) (hlv z)) (pr_head_fwds p) &&
  (Z.of_nat (length chain) =? zlen (pr_nodes p)) &&
  list_eqb2 (fun (a : Z * node) (b : pnode) =>
              (fst a =? p_member b) && (nscore (snd a) =? p_score b) &&
              list_eqb Z.eqb (map span (nlv (snd a))) (p_spans b) &&
              list_eqb Z.eqb (map (fun c => num (fwd c)) (nlv (snd a))) (p_fwds b) &&
              (num (nback (snd a)) =? p_back b))
           chain (pr_nodes p) &&
  (num (ltail z) =? pr_tail p) && (llen z =? pr_length p) && (Z.of_nat (llevel z) =? pr_level p).

(* ---- direct calls of the list's exported methods: (property verdict, correspondence verdict) *)
Definition node_is (x : option entry) (kind sc e : Z) : bool :=
  match x with
  | Some y => (kind =? 2) && (score y =? sc) && (member y =? e)
  | None => kind =? 0
  end.

Definition ref_is (z : lzsl) (x : option ref) (kind sc e : Z) : bool :=
  match x with
  | Some Nil => kind =? 0
  | Some Head => kind =? 1
  | Some (Node e') => (kind =? 2) && (e' =? e) &&
                      match lscore z (Node e') with Some s' => s' =? sc | None => false end
  | None => false
  end.

Definition direct (it : item) (st : list entry) (z : zset) (lzs : lzset) (r : obs) : verdict * verdict :=
  let R := ranking st in
  let l := lz lzs in
  match it, r with
  | IWalk bwd, RPairs ps =>
      (check_that (list_eqb pair_eqb ps (if bwd then rev R else R)) (VPropFail (if bwd then 13 else 11)),
       vjoin (check_that (list_eqb pair_eqb ps (if bwd then rev (zsl z) else zsl z)) (VMismatch 23))
             (check_that (if bwd
                          then match lwalk l true (ltail l) (Z.to_nat (llen l)) with
                               | Some ms => list_eqb Z.eqb ms (map snd ps)
                               | None => false
                               end
                          else list_eqb pair_eqb ps (map (fun en => (nscore (snd en), fst en)) (lnodes l)))
                         (VMismatch 23)))
  | IHeight, ROut (OInt h) _ =>
      (VOk, check_that (Z.of_nat (llevel l) =? h) (VMismatch 23))
  | IRankOf sc e, ROut (OInt k) _ =>
      let present := existsb (pair_eqb (sc, e)) R in
      let absent := negb (memb e (map member R)) in
      (if present
       then check_that (match index_of e (map member R) 0 with Some i => k =? i + 1 | None => false end) (VPropFail 3)
       else if absent then check_that (k =? 0) (VPropFail 3) else VOk,
       vjoin (if present || absent then check_that (zsl_rank (zsl z) sc e =? k) (VMismatch 23) else VOk)
             (check_that (match lget_rank l sc e with Some k' => k' =? k | None => false end) (VMismatch 23)))
  | IByRank k, RNode kind sc e =>
      (if (1 <=? k) && (k <=? zlen R) then check_that (node_is (nth_error R (Z.to_nat (k - 1))) kind sc e) (VPropFail 4)
       else if k =? 0 then VOk else check_that (kind =? 0) (VPropFail 4),
       check_that (ref_is l (lby_rank l k) kind sc e) (VMismatch 23))
  | IInRange a b, ROut (OBool v) _ =>
      (VOk,
       vjoin (check_that (Bool.eqb (is_in_range (zsl z) a b) v) (VMismatch 23))
             (check_that (match lis_in_range l a b with Some v' => Bool.eqb v' v | None => false end) (VMismatch 23)))
  | IFirst a b, RNode kind sc e =>
      (check_that (node_is (find (in_score a b) R) kind sc e) (VPropFail 5),
       vjoin (check_that (node_is (hd_error (first_in_range (zsl z) a b)) kind sc e) (VMismatch 23))
             (check_that (ref_is l (lfirst_in_range l a b) kind sc e) (VMismatch 23)))
  | ILast a b, RNode kind sc e =>
      (check_that (node_is (find (in_score a b) (rev R)) kind sc e) (VPropFail 5),
       vjoin (check_that (node_is (hd_error (last_in_range (zsl z) a b)) kind sc e) (VMismatch 23))
             (check_that (ref_is l (llast_in_range l a b) kind sc e) (VMismatch 23)))
  | IDelAbsent sc e, ROut (OBool found) _ =>
      if memb e (map member R) then (VOk, VOk)
      else (check_that (negb found) (VPropFail 7),
            vjoin (check_that (Bool.eqb (snd (zsl_delete (zsl z) sc e)) found) (VMismatch 23))
                  (check_that (match ldelete l sc e with Some (_, b) => Bool.eqb b found | None => false end) (VMismatch 23)))
  | _, _ => (VBad, VOk)
  end.

(* the reference is compared at every step; the models (stage 1: level-0 scans, stage 2: the
   lanes, fed with the observed node heights) until their first mismatch, which is remembered
   in [first] while the walk goes on looking for a property failure *)
Fixpoint walk_history (first : verdict) (live : bool) (z : zset) (lzs : lzset) (st : list entry)
         (its : list item) (rs : list obs) : verdict :=
  match its, rs with
  | [], [] => first
  | IOp o :: its', ROut r h :: rs' =>
      let '(st1, so) := spec_step st o in
      match check_that (out_eqb so r) (VPropFail (sentence o)) with
      | VOk =>
          if live then
            let '(z1, mo) := step z o in
            let '(lz1, lo) := lstep (mkLZ (lz lzs) (ldict lzs) [Z.to_nat h]) o in
            match vjoin (check_that (out_eqb mo r) (VMismatch (sentence o)))
                        (check_that (out_eqb lo r) (VMismatch 21)) with
            | VOk => walk_history first true z1 lz1 st1 its' rs'
            | v => walk_history v false z1 lz1 st1 its' rs'
            end
          else walk_history first false z lzs st1 its' rs'
      | v => v
      end
  | IProbe :: its', RProbe p :: rs' =>
      match probe_prop st p with
      | VOk =>
          if live then
            match vjoin (probe_corr z p) (check_that (lane_probe_ok (lz lzs) p) (VMismatch 22)) with
            | VOk => walk_history first true z lzs st its' rs'
            | v => walk_history v false z lzs st its' rs'
            end
          else walk_history first false z lzs st its' rs'
      | v => v
      end
  | it :: its', r :: rs' =>
      let '(pv, cv) := direct it st z lzs r in
      match pv with
      | VOk =>
          if live then
            match cv with
            | VOk => walk_history first true z lzs st its' rs'
            | v => walk_history v false z lzs st its' rs'
            end
          else walk_history first false z lzs st its' rs'
      | v => v
      end
  | _, _ => VBad
  end.

Definition check (c : sx) : verdict :=
  match c with
  | SList [SList [SInt _; SList ops]; SList rs] =>
      match map_opt dec_item ops, map_opt dec_obs rs with
      | Some its, Some rs => walk_history VOk true empty (lzempty []) [] its rs
      | _, _ => VBad
      end
  | _ => VBad
  end.
