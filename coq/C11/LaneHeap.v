(* C11, stage 2 — the heap of the lane model: what each mutator changes (frame lemmas). *)
From Coq Require Import ZArith List Bool Lia.
From FV Require Import Generated.Consts C11.Spec C11.Model C11.LaneModel.
Import ListNotations.
Open Scope Z_scope.

Lemma ref_eqb_spec a b : reflect (a = b) (ref_eqb a b).
Proof.
  destruct a, b; simpl; try (constructor; congruence).
  destruct (Z.eqb_spec e e0); constructor; congruence.
Qed.

Lemma hget_hput_same h e n : hget (hput h e n) e = Some n.
Proof.
  induction h as [|[k m] r IH]; simpl.
  - rewrite Z.eqb_refl. reflexivity.
  - destruct (Z.eqb_spec k e); simpl.
    + rewrite Z.eqb_refl. reflexivity.
    + destruct (Z.eqb_spec k e); [contradiction|exact IH].
Qed.

Lemma hget_hput_other h e n e' : e' <> e -> hget (hput h e n) e' = hget h e'.
Proof.
  intros Hne. induction h as [|[k m] r IH]; simpl.
  - destruct (Z.eqb_spec e e'); [congruence|reflexivity].
  - destruct (Z.eqb_spec k e); simpl.
    + subst k. destruct (Z.eqb_spec e e'); [congruence|reflexivity].
    + destruct (Z.eqb_spec k e'); [reflexivity|exact IH].
Qed.

Lemma nth_error_upd_nth {X} (l : list X) n m v :
  nth_error (upd_nth l n v) m =
  if Nat.eqb m n then (if Nat.ltb n (length l) then Some v else None) else nth_error l m.
Proof.
  revert n m. induction l as [|x l IH]; intros n m.
  - simpl. destruct n, m; simpl; try reflexivity. destruct (Nat.eqb m n); reflexivity.
  - destruct n as [|n], m as [|m]; simpl; try reflexivity.
    rewrite IH. destruct (Nat.eqb m n); [|reflexivity].
    change (S n <? S (length l))%nat with (n <? length l)%nat. reflexivity.
Qed.

Lemma upd_nth_length {X} (l : list X) n v : length (upd_nth l n v) = length l.
Proof. revert n. induction l as [|x l IH]; intros [|n]; simpl; auto. Qed.

(* observers of a node *)
Definition nsc (z : lzsl) (e : Z) : option Z := option_map nscore (hget (lheap z) e).
Definition nbk (z : lzsl) (e : Z) : option ref := option_map nback (hget (lheap z) e).
Definition nht (z : lzsl) (e : Z) : option nat := option_map (fun n => length (nlv n)) (hget (lheap z) e).

(* ---- set_cell *)
Lemma cell_set_cell_same z x i c c0 : cell z x i = Some c0 -> cell (set_cell z x i c) x i = Some c.
Proof.
  destruct x as [| |e]; simpl; intros H.
  - discriminate.
  - rewrite nth_error_upd_nth, Nat.eqb_refl.
    destruct (Nat.ltb_spec i (length (hlv z))); [reflexivity|].
    apply nth_error_None in H0. congruence.
  - destruct (hget (lheap z) e) as [n|] eqn:E; [|discriminate]. simpl.
    rewrite hget_hput_same. simpl. rewrite nth_error_upd_nth, Nat.eqb_refl.
    destruct (Nat.ltb_spec i (length (nlv n))); [reflexivity|].
    apply nth_error_None in H0. congruence.
Qed.

Lemma cell_set_cell_other z x i c y j : (x <> y \/ i <> j) -> cell (set_cell z x i c) y j = cell z y j.
Proof.
  intros Hne. destruct x as [| |e]; simpl.
  - reflexivity.
  - destruct y as [| |e']; simpl; try reflexivity.
    rewrite nth_error_upd_nth. destruct (Nat.eqb_spec j i); [|reflexivity].
    subst. destruct Hne; congruence.
  - destruct (hget (lheap z) e) as [n|] eqn:E; [|reflexivity].
    destruct y as [| |e']; simpl; try reflexivity.
    destruct (Z.eq_dec e' e) as [->|Hd].
    + rewrite hget_hput_same, E. simpl. rewrite nth_error_upd_nth.
      destruct (Nat.eqb_spec j i); [|reflexivity]. subst. destruct Hne; congruence.
    + rewrite hget_hput_other by assumption. reflexivity.
Qed.

Lemma nsc_set_cell z x i c e : nsc (set_cell z x i c) e = nsc z e.
Proof.
  unfold nsc. destruct x as [| |e0]; simpl; try reflexivity.
  destruct (hget (lheap z) e0) as [n|] eqn:E; [|reflexivity]. simpl.
  destruct (Z.eq_dec e e0) as [->|Hd].
  - rewrite hget_hput_same, E. reflexivity.
  - rewrite hget_hput_other by assumption. reflexivity.
Qed.

Lemma nbk_set_cell z x i c e : nbk (set_cell z x i c) e = nbk z e.
Proof.
  unfold nbk. destruct x as [| |e0]; simpl; try reflexivity.
  destruct (hget (lheap z) e0) as [n|] eqn:E; [|reflexivity]. simpl.
  destruct (Z.eq_dec e e0) as [->|Hd].
  - rewrite hget_hput_same, E. reflexivity.
  - rewrite hget_hput_other by assumption. reflexivity.
Qed.

Lemma nht_set_cell z x i c e : nht (set_cell z x i c) e = nht z e.
Proof.
  unfold nht. destruct x as [| |e0]; simpl; try reflexivity.
  destruct (hget (lheap z) e0) as [n|] eqn:E; [|reflexivity]. simpl.
  destruct (Z.eq_dec e e0) as [->|Hd].
  - rewrite hget_hput_same, E. simpl. rewrite upd_nth_length. reflexivity.
  - rewrite hget_hput_other by assumption. reflexivity.
Qed.

Lemma misc_set_cell z x i c :
  ltail (set_cell z x i c) = ltail z /\ llen (set_cell z x i c) = llen z /\
  llevel (set_cell z x i c) = llevel z /\ length (hlv (set_cell z x i c)) = length (hlv z).
Proof.
  destruct x as [| |e]; simpl; auto.
  - rewrite upd_nth_length. auto.
  - destruct (hget (lheap z) e); simpl; auto.
Qed.

(* ---- set_back *)
Lemma cell_set_back z e b y j : cell (set_back z e b) y j = cell z y j.
Proof.
  unfold set_back. destruct (hget (lheap z) e) as [n|] eqn:E; [|reflexivity].
  destruct y as [| |e']; simpl; try reflexivity.
  destruct (Z.eq_dec e' e) as [->|Hd].
  - rewrite hget_hput_same, E. reflexivity.
  - rewrite hget_hput_other by assumption. reflexivity.
Qed.

Lemma nsc_set_back z e b e' : nsc (set_back z e b) e' = nsc z e'.
Proof.
  unfold nsc, set_back. destruct (hget (lheap z) e) as [n|] eqn:E; [|reflexivity]. simpl.
  destruct (Z.eq_dec e' e) as [->|Hd].
  - rewrite hget_hput_same, E. reflexivity.
  - rewrite hget_hput_other by assumption. reflexivity.
Qed.

Lemma nht_set_back z e b e' : nht (set_back z e b) e' = nht z e'.
Proof.
  unfold nht, set_back. destruct (hget (lheap z) e) as [n|] eqn:E; [|reflexivity]. simpl.
  destruct (Z.eq_dec e' e) as [->|Hd].
  - rewrite hget_hput_same, E. reflexivity.
  - rewrite hget_hput_other by assumption. reflexivity.
Qed.

Lemma nbk_set_back z e b e' :
  nbk (set_back z e b) e' = if e' =? e then (match nbk z e with Some _ => Some b | None => None end) else nbk z e'.
Proof.
  unfold nbk, set_back. destruct (hget (lheap z) e) as [n|] eqn:E; simpl.
  - destruct (Z.eqb_spec e' e) as [->|Hd].
    + rewrite hget_hput_same. reflexivity.
    + rewrite hget_hput_other by assumption. reflexivity.
  - destruct (Z.eqb_spec e' e) as [->|Hd]; [rewrite E|]; reflexivity.
Qed.

Lemma misc_set_back z e b :
  ltail (set_back z e b) = ltail z /\ llen (set_back z e b) = llen z /\
  llevel (set_back z e b) = llevel z /\ hlv (set_back z e b) = hlv z.
Proof. unfold set_back. destruct (hget (lheap z) e); simpl; auto. Qed.
