(* C11 — the lemmas live in Sorted.v (order, strictly sorted lists, the reference ranking),
   Scans.v (what the level-0 scans compute), Refine.v (invariant, per-operation
   refinement, the theorems) and Lanes.v / LanesZset.v (stage 2: lane search = level-0 scan); this file gathers them for Properties.v. *)
From FV Require Export C11.Sorted C11.Scans C11.Refine C11.Lanes C11.LanesZset
  C11.LaneHeap C11.LaneInv C11.LaneSearch C11.LaneLoops C11.LaneInsert C11.LaneDelete C11.LaneSim C11.LaneQuery C11.Exact.
