From Coq Require Import ZArith List Bool Lia.
From FV Require Import C11.Spec C11.Model.
Import ListNotations.
Open Scope Z_scope.
