(* C11 — the lemmas live in Sorted.v (order, strictly sorted lists, the reference ranking),
   Scans.v (what the level-0 scans compute) and Refine.v (invariant, per-operation
   refinement, the theorems); this file gathers them for Properties.v. *)
From FV Require Export C11.Sorted C11.Scans C11.Refine.
