(* C11 — the model (level-0 scans + member table) refines the reference ranking, for every
   operation sequence. *)
From Coq Require Import ZArith List Bool Lia Permutation.
From FV Require Import C11.Spec C11.Model C11.Sorted C11.Scans.
Import ListNotations.
Open Scope Z_scope.

(* ---------------------------------------------------------------- tables *)
Lemma find_filter_key {X} (key : X -> Z) (h : Z -> bool) e (l : list X) :
  find (fun x => key x =? e) (filter (fun x => h (key x)) l)
  = if h e then find (fun x => key x =? e) l else None.
Proof.
  induction l as [|x r IH]; simpl.
  - destruct (h e); reflexivity.
  - destruct (Z.eqb_spec (key x) e) as [E|E].
    + rewrite E. destruct (h e) eqn:Hh; simpl.
      * rewrite E, Z.eqb_refl. reflexivity.
      * exact IH.
    + destruct (h (key x)); simpl.
      * destruct (Z.eqb_spec (key x) e); [contradiction|]. exact IH.
      * exact IH.
Qed.

Lemma dict_get_del d e e' : dict_get (dict_del d e) e' = if e' =? e then None else dict_get d e'.
Proof.
  unfold dict_get, dict_del.
  rewrite (find_filter_key fst (fun k => negb (k =? e)) e' d).
  destruct (e' =? e); reflexivity.
Qed.

Lemma dict_get_set d e s e' : dict_get (dict_set d e s) e' = if e' =? e then Some s else dict_get d e'.
Proof.
  unfold dict_set. unfold dict_get at 1. simpl. rewrite (Z.eqb_sym e e').
  destruct (Z.eqb_spec e' e) as [->|Hne]; [reflexivity|].
  fold (dict_get (dict_del d e) e'). rewrite dict_get_del.
  destruct (Z.eqb_spec e' e); [contradiction|reflexivity].
Qed.

Lemma dict_get_del_all rm : forall d e',
  dict_get (dict_del_all d rm) e' = if memb e' (map member rm) then None else dict_get d e'.
Proof.
  unfold dict_del_all. induction rm as [|x r IH]; intros d e'; simpl.
  - reflexivity.
  - rewrite IH, dict_get_del. rewrite (Z.eqb_sym (member x) e').
    destruct (e' =? member x); simpl; destruct (memb e' (map member r)); reflexivity.
Qed.

Lemma lookup_remove e e' st : lookup e' (remove_m e st) = if e' =? e then None else lookup e' st.
Proof.
  unfold lookup, remove_m.
  rewrite (find_filter_key member (fun k => negb (k =? e)) e' st).
  destruct (e' =? e); reflexivity.
Qed.

Lemma lookup_filter_members victims e' st :
  lookup e' (filter (fun x => negb (memb (member x) victims)) st)
  = if memb e' victims then None else lookup e' st.
Proof.
  unfold lookup.
  rewrite (find_filter_key member (fun k => negb (memb k victims)) e' st).
  destruct (memb e' victims); reflexivity.
Qed.

Lemma lookup_some e s st : lookup e st = Some s -> In (s, e) st.
Proof.
  unfold lookup. destruct (find _ st) as [x|] eqn:E; [|discriminate].
  intros H. injection H as <-. apply find_some in E. destruct E as [Hin Hm].
  apply Z.eqb_eq in Hm. subst e. destruct x; exact Hin.
Qed.

Lemma lookup_none e st : lookup e st = None -> forall x, In x st -> member x <> e.
Proof.
  unfold lookup. destruct (find _ st) as [x|] eqn:E; [discriminate|].
  intros _ x Hx Hm. apply (find_none _ _ E) in Hx. simpl in Hx. apply Z.eqb_neq in Hx. contradiction.
Qed.

Lemma lookup_in e s st : NoDup (map member st) -> In (s, e) st -> lookup e st = Some s.
Proof.
  intros Hnd Hin. destruct (lookup e st) as [s'|] eqn:E.
  - apply lookup_some in E.
    assert (H := nodup_member_inj st (s', e) (s, e) Hnd E Hin eq_refl). congruence.
  - exfalso. apply (lookup_none e st E (s, e) Hin). reflexivity.
Qed.

Lemma memb_in e l : memb e l = true <-> In e l.
Proof.
  unfold memb. rewrite existsb_exists. split.
  - intros (x & Hx & E). apply Z.eqb_eq in E. subst. exact Hx.
  - intros H. exists e. split; [exact H|apply Z.eqb_refl].
Qed.

Lemma nodup_map_filter {X Y} (f : X -> Y) (g : X -> bool) l :
  NoDup (map f l) -> NoDup (map f (filter g l)).
Proof.
  induction l as [|x r IH]; simpl; intros H; [constructor|].
  inversion H as [|? ? Hni Hnd]; subst.
  destruct (g x); simpl; [|auto].
  constructor; [|auto]. intros Hin. apply Hni.
  apply in_map_iff in Hin. destruct Hin as (y & Hy & Hin). apply filter_In in Hin.
  rewrite <- Hy. apply in_map. tauto.
Qed.

(* ---------------------------------------------------------------- the invariant *)
Definition Inv (z : zset) (st : list entry) : Prop :=
  ssorted (zsl z) /\
  (forall x, In x (zsl z) <-> In x st) /\
  NoDup (map member st) /\
  (forall e, dict_get (dict z) e = lookup e st).

Lemma Inv_empty : Inv empty [].
Proof. repeat split; simpl; auto; try tauto. constructor. Qed.

Lemma Inv_ranking z st : Inv z st -> zsl z = ranking st.
Proof. intros (Hs & Hin & Hnd & _). apply ssorted_is_ranking; assumption. Qed.

Lemma Inv_perm z st : Inv z st -> Permutation (zsl z) st.
Proof. intros H. rewrite (Inv_ranking z st H). apply ranking_perm. Qed.

Lemma Inv_len z st : Inv z st -> zlen (zsl z) = zlen st.
Proof. intros H. unfold zlen. rewrite (Permutation_length (Inv_perm z st H)). reflexivity. Qed.

Lemma Inv_members z st : Inv z st -> NoDup (map member (zsl z)).
Proof.
  intros H. pose proof H as (_ & _ & Hnd & _).
  eapply perm_nodup_members; [apply Permutation_sym, Inv_perm; exact H|exact Hnd].
Qed.

(* ---------------------------------------------------------------- Add / Remove *)
Lemma add_refines z st e s : Inv z st ->
  let '(z', o) := add z e s in o = OBool true /\ Inv z' ((s, e) :: remove_m e st).
Proof.
  intros HI. pose proof HI as (Hs & Hin & Hnd & Hd).
  assert (Hnd' : NoDup (map member ((s, e) :: remove_m e st))).
  { simpl. constructor.
    - intros H. apply in_map_iff in H. destruct H as (x & Hx & Hf).
      unfold remove_m in Hf. apply filter_In in Hf. destruct Hf as [_ Hf].
      apply negb_true_iff, Z.eqb_neq in Hf. contradiction.
    - apply nodup_map_filter. exact Hnd. }
  assert (Hd' : forall d', (forall e', dict_get d' e' = if e' =? e then Some s else dict_get (dict z) e') ->
                forall e', dict_get d' e' = lookup e' ((s, e) :: remove_m e st)).
  { intros d' Hd1 e'. rewrite Hd1. unfold lookup at 1. simpl. rewrite (Z.eqb_sym e e').
    destruct (Z.eqb_spec e' e) as [->|Hne]; [reflexivity|].
    fold (lookup e' (remove_m e st)). rewrite lookup_remove.
    destruct (Z.eqb_spec e' e); [contradiction|]. apply Hd. }
  assert (Hst' : forall x, In x ((s, e) :: remove_m e st) <-> x = (s, e) \/ (In x st /\ member x <> e)).
  { intros x. simpl. unfold remove_m. rewrite filter_In, negb_true_iff, Z.eqb_neq.
    split; intros [H|H]; auto. }
  unfold add. rewrite Hd. destruct (lookup e st) as [cur|] eqn:El.
  - apply lookup_some in El.
    destruct (Z.eqb_spec cur s) as [->|Hne]; simpl.
    + (* same score: nothing changes *)
      split; [reflexivity|]. split; [exact Hs|]. split; [|split; [exact Hnd'|]].
      * intros x. rewrite Hst', Hin. split.
        -- intros Hx. destruct (Z.eq_dec (member x) e) as [E|E]; [left|right; auto].
           apply (nodup_member_inj st); auto.
        -- intros [->|[Hx _]]; auto.
      * apply Hd'. intros e'. destruct (Z.eqb_spec e' e) as [->|]; [|reflexivity].
        rewrite Hd. apply lookup_in; assumption.
    + (* delete the old node, insert the new one *)
      destruct (zsl_delete_present (zsl z) cur e Hs (proj2 (Hin _) El)) as (l1 & -> & Hs1 & Hl1).
      split; [reflexivity|]. unfold Inv. simpl zsl. simpl dict.
      assert (Hm1 : forall y, In y l1 -> member y <> e).
      { intros y Hy E. apply Hl1 in Hy. destruct Hy as [Hy Hne'].
        apply Hne'. apply (nodup_member_inj st); auto. apply Hin. exact Hy. }
      split; [apply zsl_insert_ssorted; assumption|]. split; [|split; [exact Hnd'|]].
      * intros x. rewrite zsl_insert_in, Hst', Hl1, Hin. split.
        -- intros [->|[Hx Hne']]; [auto|]. right. split; [exact Hx|].
           intros E. apply Hne'. apply (nodup_member_inj st); auto.
        -- intros [->|[Hx Hne']]; [auto|]. right. split; [exact Hx|].
           intros ->. apply Hne'. reflexivity.
      * apply Hd'. intros e'. apply dict_get_set.
  - (* a new member *)
    pose proof (lookup_none e st El) as Hnone.
    split; [reflexivity|]. unfold Inv. simpl zsl. simpl dict.
    split; [apply zsl_insert_ssorted; [exact Hs|]|].
    { intros y Hy. apply Hnone. apply Hin. exact Hy. }
    split; [|split; [exact Hnd'|]].
    + intros x. rewrite zsl_insert_in, Hst', Hin. split.
      * intros [->|Hx]; [auto|]. right. split; [exact Hx|apply Hnone; exact Hx].
      * intros [->|[Hx _]]; auto.
    + apply Hd'. intros e'. apply dict_get_set.
Qed.

Lemma remove_refines z st e : Inv z st ->
  let '(z', o) := remove z e in
  let '(st', o') := spec_step st (Remove e) in
  o = o' /\ Inv z' st'.
Proof.
  intros HI. pose proof HI as (Hs & Hin & Hnd & Hd).
  unfold remove. simpl. rewrite Hd. destruct (lookup e st) as [cur|] eqn:El.
  - apply lookup_some in El. split; [reflexivity|].
    destruct (zsl_delete_present (zsl z) cur e Hs (proj2 (Hin _) El)) as (l1 & E1 & Hs1 & Hl1).
    rewrite E1. unfold Inv. simpl.
    split; [exact Hs1|]. split; [|split].
    + intros x. rewrite Hl1, Hin. unfold remove_m. rewrite filter_In, negb_true_iff, Z.eqb_neq.
      split; intros [Hx Hne]; split; auto.
      * intros E. apply Hne. apply (nodup_member_inj st); auto.
      * intros ->. apply Hne. reflexivity.
    + apply nodup_map_filter. exact Hnd.
    + intros e'. rewrite dict_get_del, lookup_remove, Hd. reflexivity.
  - split; [reflexivity|exact HI].
Qed.

(* ---------------------------------------------------------------- removing a block of nodes *)
Lemma block_removed z st A B C : Inv z st -> zsl z = A ++ B ++ C ->
  Inv (mkZ (A ++ C) (dict_del_all (dict z) B))
      (filter (fun x => negb (memb (member x) (map member B))) st).
Proof.
  intros HI E. pose proof HI as (Hs & Hin & Hnd & Hd).
  pose proof (Inv_members z st HI) as Hml. rewrite E in Hs, Hml.
  unfold Inv. simpl.
  assert (Hs' : ssorted (A ++ C)).
  { apply ssorted_app in Hs. destruct Hs as (HA & HBC & Hx).
    apply ssorted_app in HBC. destruct HBC as (HB & HC & Hy).
    apply ssorted_app. repeat split; auto. intros a c Ha Hc. apply Hx; auto. apply in_or_app. auto. }
  split; [exact Hs'|]. split; [|split].
  - intros x. rewrite filter_In, negb_true_iff, <- Hin, E. rewrite !in_app_iff.
    assert (Hk : In x (A ++ B ++ C) -> (memb (member x) (map member B) = true <-> In x B)).
    { intros Hx. rewrite memb_in, in_map_iff. split.
      - intros (y & Hy & HyB). assert (y = x); [|subst; exact HyB].
        apply (nodup_member_inj (A ++ B ++ C)); auto. rewrite !in_app_iff. auto.
      - intros HxB. exists x. auto. }
    assert (Hdisj : In x B -> In x A \/ In x C -> False).
    { intros HxB HxAC.
      apply ssorted_app in Hs. destruct Hs as (_ & HBC & Hx').
      apply ssorted_app in HBC. destruct HBC as (_ & _ & Hy).
      destruct HxAC as [HxA|HxC].
      - apply (klt_irrefl x). apply Hx'; [exact HxA|apply in_or_app; auto].
      - apply (klt_irrefl x). apply Hy; assumption. }
    split.
    + intros Hx. assert (HxL : In x (A ++ B ++ C)) by (rewrite !in_app_iff; tauto).
      split; [tauto|]. apply not_true_is_false. intros Em. apply (Hk HxL) in Em.
      exact (Hdisj Em Hx).
    + intros [Hx Hm]. destruct Hx as [Hx|[Hx|Hx]]; auto.
      exfalso. assert (Ht : memb (member x) (map member B) = true).
      { apply Hk; [rewrite !in_app_iff; auto|exact Hx]. }
      congruence.
  - apply nodup_map_filter. exact Hnd.
  - intros e'. rewrite dict_get_del_all, lookup_filter_members, Hd. reflexivity.
Qed.

(* ---------------------------------------------------------------- RemoveRangeByScore *)
Lemma in_score_false_if_empty min max x : max < min -> in_score min max x = false.
Proof.
  intros H. unfold in_score. destruct (Z.leb_spec min (score x)); [|reflexivity].
  destruct (Z.leb_spec (score x) max); [lia|reflexivity].
Qed.

Lemma rem_by_score_refines z st min max : Inv z st ->
  let '(z', o) := rem_by_score z min max in
  let '(st', o') := spec_step st (RemByScore min max) in
  o = o' /\ Inv z' st'.
Proof.
  intros HI. pose proof HI as (Hs & Hin & Hnd & Hd).
  unfold rem_by_score. cbn [spec_step].
  destruct (Z.gtb_spec min max) as [Hgt|Hle].
  - (* empty range *)
    rewrite (filter_none (in_score min max) st), (filter_all _ st).
    + split; [reflexivity|exact HI].
    + apply Forall_forall. intros x _. rewrite in_score_false_if_empty by lia. reflexivity.
    + apply Forall_forall. intros x _. apply in_score_false_if_empty. lia.
  - destruct (split3 (zsl z) min max Hs Hle) as (A & B & C & E & HA & HB & HC).
    rewrite E. rewrite (del_by_score_spec A B C min max Hle HA HB HC).
    destruct (filter_split3 A B C min max HA HB HC) as [F1 F2].
    split.
    + f_equal. unfold zlen. rewrite <- F1, <- E.
      rewrite (perm_filter_length _ _ _ (Inv_perm z st HI)). reflexivity.
    + replace (filter (fun x => negb (in_score min max x)) st)
        with (filter (fun x => negb (memb (member x) (map member B))) st).
      { apply block_removed; assumption. }
      apply filter_ext_in. intros x Hx. f_equal.
      apply Hin in Hx. rewrite E in Hx.
      pose proof (Inv_members z st HI) as Hml. rewrite E in Hml.
      destruct (in_score min max x) eqn:Ei.
      * apply memb_in. apply in_map.
        assert (In x (filter (in_score min max) (A ++ B ++ C))) by (apply filter_In; auto).
        rewrite F1 in H. exact H.
      * apply not_true_is_false. intros Em. apply memb_in, in_map_iff in Em.
        destruct Em as (y & Hy & HyB).
        assert (y = x).
        { apply (nodup_member_inj (A ++ B ++ C)); auto. rewrite !in_app_iff. auto. }
        subst y. rewrite <- F1 in HyB. apply filter_In in HyB. destruct HyB as [_ Ht]. congruence.
Qed.

(* ---------------------------------------------------------------- rank ranges *)
(* the code's step-by-step normalisation equals the reference's *)
Lemma norm_agree len start stop : 0 <= len ->
  let start1 := if start <? 0 then len + start else start in
  let stop1 := if stop <? 0 then len + stop else stop in
  let start2 := if start1 <? 0 then 0 else start1 in
  match norm_range len start stop with
  | None => (start2 >? stop1) || (start2 >=? len) = true
  | Some (a, b) => (start2 >? stop1) || (start2 >=? len) = false /\
                   a = start2 /\ b = (if stop1 >=? len then len - 1 else stop1) /\
                   0 <= a <= b /\ b < len
  end.
Proof.
  intros Hl. cbv zeta. unfold norm_range.
  destruct (start <? 0) eqn:E1; destruct (stop <? 0) eqn:E2;
  repeat match goal with
  | |- context [if ?c then _ else _] => destruct c eqn:?
  | |- context [Z.leb ?a ?b] => destruct (Z.leb_spec a b)
  end;
  repeat match goal with
  | H : (_ <? _) = true |- _ => apply Z.ltb_lt in H
  | H : (_ <? _) = false |- _ => apply Z.ltb_ge in H
  | H : (_ >=? _) = true |- _ => apply Z.geb_le in H
  | H : (_ >=? _) = false |- _ => rewrite Z.geb_leb in H; apply Z.leb_gt in H
  end;
  rewrite ?orb_true_iff, ?orb_false_iff, ?Z.gtb_ltb, ?Z.geb_leb, ?Z.ltb_lt, ?Z.leb_le, ?Z.ltb_ge, ?Z.leb_gt;
  lia.
Qed.

Lemma slice_decomp {X} (l : list X) a b : 0 <= a -> a <= b ->
  l = firstn (Z.to_nat a) l ++ slice_z l a b ++ skipn (Z.to_nat (b - a + 1)) (skipn (Z.to_nat a) l).
Proof.
  intros Ha Hb. unfold slice_z.
  rewrite (firstn_skipn (Z.to_nat (b - a + 1)) (skipn (Z.to_nat a) l)).
  rewrite firstn_skipn. reflexivity.
Qed.

Lemma rem_by_rank_refines z st start stop : Inv z st ->
  let '(z', o) := rem_by_rank z start stop in
  let '(st', o') := spec_step st (RemByRank start stop) in
  o = o' /\ Inv z' st'.
Proof.
  intros HI. pose proof (Inv_len z st HI) as Hlen. pose proof (Inv_ranking z st HI) as HR.
  unfold rem_by_rank. cbn [spec_step]. cbv zeta. rewrite Hlen.
  pose proof (norm_agree (zlen st) start stop (zlen_nonneg st)) as Hn. cbv zeta in Hn.
  destruct (norm_range (zlen st) start stop) as [[a b]|].
  - destruct Hn as (Hc & Ha & Hb & Hab & Hbl). rewrite Hc. rewrite <- Ha, <- Hb.
    rewrite del_by_rank_spec by lia.
    replace (a + 1 - 1 - 0) with a by lia. replace (b + 1 - (a + 1) + 1) with (b - a + 1) by lia.
    fold (slice_z (zsl z) a b). rewrite <- HR.
    split; [rewrite zlen_map; reflexivity|].
    apply block_removed; [exact HI|]. apply slice_decomp; lia.
  - rewrite Hn. split; [reflexivity|exact HI].
Qed.

(* ---------------------------------------------------------------- queries on a sorted list *)
Lemma ssorted_head_min x r y : ssorted (x :: r) -> In y (x :: r) -> score x <= score y.
Proof.
  simpl. intros [F _] [->|Hy]; [lia|]. rewrite Forall_forall in F. apply klt_score, F, Hy.
Qed.

Lemma ssorted_last_max p t y : ssorted (p ++ [t]) -> In y (p ++ [t]) -> score y <= score t.
Proof.
  intros Hs Hy. apply ssorted_app in Hs. destruct Hs as (_ & _ & Hx).
  apply in_app_iff in Hy. destruct Hy as [Hy|[<-|[]]]; [|lia].
  apply klt_score, Hx; simpl; auto.
Qed.

Lemma is_in_range_true l b min max :
  ssorted l -> In b l -> min <= score b <= max -> is_in_range l min max = true.
Proof.
  intros Hs Hb Hr. unfold is_in_range.
  destruct (Z.gtb_spec min max); [lia|].
  destruct (rev l) as [|t p] eqn:Er.
  - assert (l = []) as -> by (rewrite <- (rev_involutive l), Er; reflexivity). contradiction.
  - assert (El : l = rev p ++ [t]) by (rewrite <- (rev_involutive l), Er; reflexivity).
    assert (Ht : score b <= score t) by (rewrite El in Hs, Hb; eapply ssorted_last_max; eassumption).
    destruct (Z.ltb_spec (score t) min); [lia|].
    destruct l as [|f q]; [contradiction|].
    assert (Hf : score f <= score b) by (eapply ssorted_head_min; eassumption).
    destruct (Z.gtb_spec (score f) max); [lia|reflexivity].
Qed.

Section Ranges.
Variables (A B C : list entry) (min max : Z).
Hypothesis Hmm : min <= max.
Hypothesis Hs : ssorted (A ++ B ++ C).
Hypothesis HA : Forall (fun x => score x < min) A.
Hypothesis HB : Forall (fun x => min <= score x <= max) B.
Hypothesis HC : Forall (fun x => max < score x) C.

Let HCh : match C with [] => True | x :: _ => max < score x end.
Proof. destruct C; [exact I|]. inversion HC; assumption. Qed.

Let HAl : match rev A with [] => True | x :: _ => score x < min end.
Proof.
  destruct (rev A) as [|x r] eqn:E; [exact I|].
  rewrite Forall_forall in HA. apply HA. apply in_rev. rewrite E. left. reflexivity.
Qed.

Lemma first_in_range_spec :
  first_in_range (A ++ B ++ C) min max = match B with [] => [] | _ => B ++ C end.
Proof.
  unfold first_in_range. destruct B as [|b B'] eqn:EB.
  - destruct (is_in_range (A ++ [] ++ C) min max); [|reflexivity].
    rewrite skip_lt_app by exact HA. cbn [app].
    rewrite skip_lt_stop by (destruct C; [exact I|]; simpl in HCh; lia).
    destruct C as [|c C']; [reflexivity|]. simpl in HCh.
    destruct (Z.gtb_spec (score c) max); [reflexivity|lia].
  - inversion HB as [|? ? Hb HB']; subst.
    rewrite (is_in_range_true _ b) by (auto; rewrite !in_app_iff; simpl; auto).
    rewrite skip_lt_app by exact HA.
    rewrite skip_lt_stop by (simpl; lia). simpl.
    destruct (Z.gtb_spec (score b) max); [lia|reflexivity].
Qed.

Lemma last_in_range_spec :
  last_in_range (A ++ B ++ C) min max = match B with [] => [] | _ => rev B ++ rev A end.
Proof.
  unfold last_in_range.
  assert (Hscan : last_le (A ++ B ++ C) max [] = rev B ++ rev A).
  { rewrite app_assoc. rewrite last_le_app.
    - rewrite last_le_stop by exact HCh. rewrite app_nil_r. apply rev_app_distr.
    - apply Forall_app. split.
      + eapply Forall_impl; [|exact HA]. simpl. intros; lia.
      + eapply Forall_impl; [|exact HB]. simpl. intros; lia. }
  destruct B as [|b B'] eqn:EB.
  - destruct (is_in_range (A ++ [] ++ C) min max); [|reflexivity].
    rewrite Hscan. cbn [rev app].
    destruct (rev A) as [|a r]; [reflexivity|]. simpl in HAl.
    destruct (Z.ltb_spec (score a) min); [reflexivity|lia].
  - assert (Hb : In b (A ++ (b :: B') ++ C)) by (rewrite !in_app_iff; simpl; auto).
    inversion HB as [|? ? Hbr HB']; subst.
    rewrite (is_in_range_true _ b) by auto.
    rewrite Hscan.
    destruct (rev (b :: B')) as [|t p] eqn:Er.
    + apply (f_equal (@length entry)) in Er. rewrite rev_length in Er. discriminate.
    + assert (Ht : In t (b :: B')) by (apply in_rev; rewrite Er; left; reflexivity).
      rewrite Forall_forall in HB. specialize (HB t Ht). cbn [app].
      destruct (Z.ltb_spec (score t) min); [lia|reflexivity].
Qed.

Lemma count_spec d :
  count (mkZ (A ++ B ++ C) d) min max = zlen B.
Proof.
  unfold count. cbn [zsl]. destruct (Z.gtb_spec min max); [lia|].
  rewrite first_in_range_spec, last_in_range_spec.
  destruct B as [|b B'] eqn:EB; [reflexivity|].
  cbn [app]. rewrite (zsl_rank_at A b (B' ++ C)) by exact Hs.
  destruct (rev (b :: B')) as [|t p] eqn:Er.
  - apply (f_equal (@length entry)) in Er. rewrite rev_length in Er. discriminate.
  - cbn [app].
    assert (El : b :: B' = rev p ++ [t]) by (rewrite <- (rev_involutive (b :: B')), Er; reflexivity).
    assert (EL : A ++ (b :: B') ++ C = (A ++ rev p) ++ t :: C).
    { rewrite El. rewrite <- !app_assoc. reflexivity. }
    change (A ++ b :: B' ++ C) with (A ++ (b :: B') ++ C).
    rewrite EL. rewrite (zsl_rank_at (A ++ rev p) t C) by (rewrite <- EL; exact Hs).
    rewrite El. rewrite !zlen_app. change (zlen [t]) with 1. lia.
Qed.

Lemma range_by_score_spec d reverse :
  get_range_by_score (mkZ (A ++ B ++ C) d) min max reverse =
  OList (if reverse then rev (map member B) else map member B).
Proof.
  unfold get_range_by_score. cbn [zsl]. destruct (Z.gtb_spec min max); [lia|].
  rewrite first_in_range_spec, last_in_range_spec.
  destruct reverse.
  - f_equal. destruct B as [|b B'] eqn:EB; [reflexivity|]. rewrite <- EB in *.
    rewrite take_while_ge_spec.
    + apply map_rev.
    + apply Forall_rev. eapply Forall_impl; [|exact HB]. simpl. intros; lia.
    + exact HAl.
  - f_equal. destruct B as [|b B'] eqn:EB; [reflexivity|]. rewrite <- EB in *.
    apply take_while_le_spec.
    + eapply Forall_impl; [|exact HB]. simpl. intros; lia.
    + exact HCh.
Qed.

End Ranges.

(* ---------------------------------------------------------------- queries under the invariant *)
Lemma count_refines z st min max : Inv z st ->
  count z min max = zlen (filter (in_score min max) st).
Proof.
  intros HI. pose proof HI as (Hs & _).
  replace (zlen (filter (in_score min max) st)) with (zlen (filter (in_score min max) (zsl z))).
  2:{ unfold zlen. rewrite (perm_filter_length _ _ _ (Inv_perm z st HI)). reflexivity. }
  destruct (Z_lt_dec max min) as [Hgt|Hle].
  - unfold count. destruct (Z.gtb_spec min max); [|lia].
    rewrite (filter_none (in_score min max)); [reflexivity|].
    apply Forall_forall. intros x _. apply in_score_false_if_empty. lia.
  - destruct (split3 (zsl z) min max Hs ltac:(lia)) as (A & B & C & E & HA & HB & HC).
    destruct z as [l d]. cbn [zsl] in *. subst l.
    rewrite (count_spec A B C min max ltac:(lia) Hs HA HB HC d).
    destruct (filter_split3 A B C min max HA HB HC) as [-> _]. reflexivity.
Qed.

Lemma range_by_score_refines z st min max reverse : Inv z st ->
  get_range_by_score z min max reverse =
  OList (let l := map member (filter (in_score min max) (ranking st)) in if reverse then rev l else l).
Proof.
  intros HI. pose proof HI as (Hs & _). rewrite <- (Inv_ranking z st HI). cbv zeta.
  destruct (Z_lt_dec max min) as [Hgt|Hle].
  - unfold get_range_by_score. destruct (Z.gtb_spec min max); [|lia].
    rewrite (filter_none (in_score min max)).
    + destruct reverse; reflexivity.
    + apply Forall_forall. intros x _. apply in_score_false_if_empty. lia.
  - destruct (split3 (zsl z) min max Hs ltac:(lia)) as (A & B & C & E & HA & HB & HC).
    destruct z as [l d]. cbn [zsl] in *. subst l.
    rewrite (range_by_score_spec A B C min max ltac:(lia) Hs HA HB HC d).
    destruct (filter_split3 A B C min max HA HB HC) as [-> _]. reflexivity.
Qed.

Lemma get_rank_refines z st e reverse : Inv z st ->
  get_rank z e reverse =
  match index_of e (map member (ranking st)) 0 with
  | Some i => if reverse then zlen st - 1 - i else i
  | None => -1
  end.
Proof.
  intros HI. pose proof HI as (Hs & Hin & Hnd & Hd).
  rewrite <- (Inv_ranking z st HI). unfold get_rank. rewrite Hd, (Inv_len z st HI).
  pose proof (Inv_members z st HI) as Hml.
  destruct (lookup e st) as [s|] eqn:El.
  - apply lookup_some in El. apply Hin in El.
    destruct (in_split _ _ El) as (A & R & E). rewrite E in *.
    replace (A ++ (s, e) :: R) with (A ++ (s, e) :: R) by reflexivity.
    pose proof (zsl_rank_at A (s, e) R Hs) as Hr. simpl in Hr. rewrite Hr.
    rewrite map_app. simpl map. rewrite index_of_at.
    + rewrite zlen_map. destruct reverse; lia.
    + rewrite map_app in Hml. simpl in Hml. apply NoDup_remove_2 in Hml.
      intros H. apply Hml. apply in_or_app. left. exact H.
  - pose proof (lookup_none e st El) as Hnone.
    rewrite index_of_absent; [reflexivity|].
    intros H. apply in_map_iff in H. destruct H as (x & Hx & Hxl).
    apply (Hnone x); [apply Hin; exact Hxl|exact Hx].
Qed.

Lemma skipn_rev' {X} (l : list X) n : (n <= length l)%nat ->
  skipn n (rev l) = rev (firstn (length l - n) l).
Proof.
  intros H. rewrite <- (firstn_skipn (length l - n) l) at 1.
  rewrite rev_app_distr. rewrite skipn_app.
  replace (n - length (rev (skipn (length l - n) l)))%nat with 0%nat
    by (rewrite rev_length, skipn_length; lia).
  rewrite skipn_all2 by (rewrite rev_length, skipn_length; lia). reflexivity.
Qed.

Lemma get_range_refines z st start stop reverse : Inv z st ->
  get_range z start stop reverse =
  match norm_range (zlen st) start stop with
  | None => OList []
  | Some (a, b) => OList (map member (slice_z (if reverse then rev (ranking st) else ranking st) a b))
  end.
Proof.
  intros HI. pose proof (Inv_len z st HI) as Hlen. rewrite <- (Inv_ranking z st HI).
  unfold get_range. cbv zeta. rewrite Hlen.
  pose proof (norm_agree (zlen st) start stop (zlen_nonneg st)) as Hn. cbv zeta in Hn.
  destruct (norm_range (zlen st) start stop) as [[a b]|]; [|rewrite Hn; reflexivity].
  destruct Hn as (Hc & Ha & Hb & Hab & Hbl). rewrite Hc. rewrite <- Ha, <- Hb.
  set (l := zsl z) in *. unfold slice_z.
  assert (Hll : Z.of_nat (length l) = zlen st) by (unfold zlen in Hlen; exact Hlen).
  destruct reverse.
  - (* backwards from the tail *)
    assert (Echain : (if a >? 0 then from_rank_bwd l (zlen st - a) else rev l) = skipn (Z.to_nat a) (rev l)).
    { destruct (Z.gtb_spec a 0).
      - unfold from_rank_bwd. rewrite Hlen.
        destruct (Z.leb_spec 1 (zlen st - a)); [|lia]. destruct (Z.leb_spec (zlen st - a) (zlen st)); [|lia].
        cbn [andb]. rewrite skipn_rev' by lia. f_equal. f_equal. lia.
      - replace a with 0 by lia. reflexivity. }
    rewrite Echain. rewrite walk_spec; [reflexivity|].
    rewrite skipn_length, rev_length. lia.
  - assert (Echain : (if a >? 0 then from_rank_fwd l (a + 1) else l) = skipn (Z.to_nat a) l).
    { destruct (Z.gtb_spec a 0).
      - unfold from_rank_fwd. rewrite Hlen.
        destruct (Z.leb_spec 1 (a + 1)); [|lia]. destruct (Z.leb_spec (a + 1) (zlen st)); [|lia].
        cbn [andb]. f_equal. lia.
      - replace a with 0 by lia. reflexivity. }
    rewrite Echain. rewrite walk_spec; [reflexivity|].
    rewrite skipn_length. lia.
Qed.

(* ---------------------------------------------------------------- one call, all calls *)
Lemma step_refines z st o : Inv z st ->
  let '(z', x) := step z o in
  let '(st', y) := spec_step st o in
  x = y /\ Inv z' st'.
Proof.
  intros HI. destruct o as [e s|e|a b|a b|a b|e r|e|a b r|a b r|].
  - pose proof (add_refines z st e s HI) as H. cbn [step spec_step].
    destruct (add z e s) as [z' o]. exact H.
  - exact (remove_refines z st e HI).
  - exact (rem_by_score_refines z st a b HI).
  - exact (rem_by_rank_refines z st a b HI).
  - cbn [step spec_step]. rewrite (count_refines z st a b HI). auto.
  - cbn [step spec_step]. rewrite (get_rank_refines z st e r HI).
    destruct (index_of e (map member (ranking st)) 0); auto.
  - cbn [step spec_step]. unfold get_score. pose proof HI as (_ & _ & _ & Hd). rewrite Hd.
    split; [reflexivity|exact HI].
  - cbn [step spec_step]. rewrite (get_range_refines z st a b r HI).
    destruct (norm_range (zlen st) a b) as [[a' b']|]; auto.
  - cbn [step spec_step]. rewrite (range_by_score_refines z st a b r HI). auto.
  - cbn [step spec_step]. rewrite (Inv_len z st HI). auto.
Qed.

Lemma run_refines ops : forall z st, Inv z st ->
  let '(z', xs) := run z ops in
  let '(st', ys) := spec_run st ops in
  xs = ys /\ Inv z' st'.
Proof.
  induction ops as [|o ops IH]; intros z st HI; cbn [run spec_run].
  - auto.
  - pose proof (step_refines z st o HI) as Hs.
    destruct (step z o) as [z1 x]. destruct (spec_step st o) as [st1 y].
    destruct Hs as [-> HI1]. specialize (IH z1 st1 HI1).
    destruct (run z1 ops) as [z2 xs]. destruct (spec_run st1 ops) as [st2 ys].
    destruct IH as [-> HI2]. auto.
Qed.

(* ---------------------------------------------------------------- the theorems *)
Theorem refines_ranking ops :
  let '(z, outs) := run empty ops in
  let '(st, souts) := spec_run [] ops in
  outs = souts /\ zsl z = ranking st /\ zlen (zsl z) = zlen st.
Proof.
  pose proof (run_refines ops empty [] Inv_empty) as H.
  destruct (run empty ops) as [z outs]. destruct (spec_run [] ops) as [st souts].
  destruct H as [-> HI]. split; [reflexivity|]. split; [apply Inv_ranking|apply Inv_len]; exact HI.
Qed.

Theorem dict_in_step ops :
  let z := fst (run empty ops) in
  let st := fst (spec_run [] ops) in
  (forall e, dict_get (dict z) e = lookup e st) /\
  (forall e s, dict_get (dict z) e = Some s <-> In (s, e) (zsl z)) /\
  NoDup (map member (zsl z)).
Proof.
  pose proof (run_refines ops empty [] Inv_empty) as H.
  destruct (run empty ops) as [z outs]. destruct (spec_run [] ops) as [st souts].
  destruct H as [_ HI]. cbn [fst]. pose proof HI as (Hs & Hin & Hnd & Hd).
  split; [exact Hd|]. split; [|apply (Inv_members z st HI)].
  intros e s. rewrite Hd, Hin. split; [apply lookup_some|apply lookup_in; exact Hnd].
Qed.

Lemma spec_no_crash ops : forall st, ~ In OCrash (snd (spec_run st ops)).
Proof.
  induction ops as [|o ops IH]; intros st; cbn [spec_run].
  - cbn. auto.
  - destruct (spec_step st o) as [st1 y] eqn:E1. specialize (IH st1).
    destruct (spec_run st1 ops) as [st2 ys]. cbn [snd] in *. intros [H|H]; [|auto]. subst y.
    destruct o; cbn [spec_step] in E1;
      repeat match type of E1 with
             | context [match ?x with _ => _ end] => destruct x
             end; inversion E1.
Qed.

Theorem no_runtime_panic ops : ~ In OCrash (snd (run empty ops)).
Proof.
  pose proof (refines_ranking ops) as H. pose proof (spec_no_crash ops []) as Hs.
  destruct (run empty ops) as [z outs]. destruct (spec_run [] ops) as [st souts].
  destruct H as (-> & _). exact Hs.
Qed.

Lemma in_score_spec min max x : in_score min max x = true <-> min <= score x <= max.
Proof. unfold in_score. rewrite andb_true_iff, !Z.leb_le. tauto. Qed.

(* every score-range operation includes both end points: on every reachable state the
   three of them select exactly the entries with min <= score <= max *)
Theorem inclusive_ends ops min max :
  let z := fst (run empty ops) in
  let inside := filter (in_score min max) (zsl z) in
  count z min max = zlen inside /\
  (forall reverse, get_range_by_score z min max reverse =
                   OList (if reverse then rev (map member inside) else map member inside)) /\
  (let '(z', o) := rem_by_score z min max in
   o = OInt (zlen inside) /\
   forall x, In x (zsl z') <-> In x (zsl z) /\ ~ (min <= score x <= max)).
Proof.
  pose proof (run_refines ops empty [] Inv_empty) as H.
  destruct (run empty ops) as [z outs]. destruct (spec_run [] ops) as [st souts].
  destruct H as [_ HI]. cbn [fst]. cbv zeta.
  pose proof (Inv_ranking z st HI) as HR.
  assert (Hcnt : zlen (filter (in_score min max) (zsl z)) = zlen (filter (in_score min max) st)).
  { unfold zlen. rewrite (perm_filter_length _ _ _ (Inv_perm z st HI)). reflexivity. }
  split; [rewrite Hcnt; apply count_refines; exact HI|]. split.
  - intros reverse. rewrite (range_by_score_refines z st min max reverse HI), HR. reflexivity.
  - pose proof (rem_by_score_refines z st min max HI) as Hr.
    destruct (rem_by_score z min max) as [z' o]. cbn [spec_step] in Hr.
    destruct Hr as [-> HI']. split; [rewrite Hcnt; reflexivity|].
    intros x. destruct HI' as (_ & Hin' & _). destruct HI as (_ & Hin & _).
    rewrite Hin', filter_In, negb_true_iff, Hin, <- in_score_spec.
    destruct (in_score min max x); split; intros [? ?]; split; auto; congruence.
Qed.

(* negative rank indices count from the end (reference): -1 is the last member *)
Lemma norm_range_negative len k j : 1 <= j <= k -> k <= len ->
  norm_range len (- k) (- j) = Some (len - k, len - j).
Proof.
  intros Hj Hk. unfold norm_range.
  destruct (Z.ltb_spec (- k) 0); [|lia]. destruct (Z.ltb_spec (- j) 0); [|lia].
  rewrite Z.max_r by lia. rewrite Z.min_l by lia.
  destruct (Z.leb_spec (len + - k) (len + - j)); [|lia]. reflexivity.
Qed.
