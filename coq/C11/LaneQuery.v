(* C11, stage 2 — the read-only calls of the lane model return what the level-0 model returns. *)
From Coq Require Import ZArith List Bool Lia Permutation.
From FV Require Import Generated.Consts C11.Spec C11.Model C11.Sorted C11.Scans C11.Refine
  C11.Lanes C11.LanesZset C11.LaneModel C11.LaneHeap C11.LaneInv C11.LaneSearch C11.LaneLoops
  C11.LaneInsert C11.LaneDelete C11.LaneSim.
Import ListNotations.
Open Scope Z_scope.

(* the lane end of a prefix whose last node is t *)
Lemma lane_end_last i A' t :
  lane_end i Head 0 (A' ++ [t]) =
  if (i <? lh t)%nat then (nref t, 0)
  else (fst (lane_end i Head 0 A'), snd (lane_end i Head 0 A') + 1).
Proof.
  rewrite lane_end_app. simpl. destruct (i <? lh t)%nat; [reflexivity|].
  destruct (lane_end i Head 0 A'); reflexivity.
Qed.

Lemma lane_end_member i A' : forall e, ~ In e (map le A') -> fst (lane_end i Head 0 A') <> Node e.
Proof.
  intros e Hni. destruct (lane_end_in i A' Head 0) as [E|(m & Hm & E)]; rewrite E; [discriminate|].
  intros E'. unfold nref in E'. injection E' as E'. apply Hni. rewrite <- E'. apply in_map. exact Hm.
Qed.

(* ---------------------------------------------------------------- GetRank *)
Lemma lrank_levels_spec z A' t R :
  LInv z ((A' ++ [t]) ++ R) ->
  holds_from (fun _ s' e' => before_eq (s', e') (ls t) (le t)) 0 (A' ++ [t]) ->
  fails_from (fun _ s' e' => before_eq (s', e') (ls t) (le t)) (Z.of_nat (length (A' ++ [t]))) R ->
  forall lv, (1 <= lv <= llevel z)%nat ->
  lrank_levels z (ls t) (le t) lv (fst (upd_of (A' ++ [t]) lv)) (snd (upd_of (A' ++ [t]) lv))
  = Some (Z.of_nat (length (A' ++ [t]))).
Proof.
  intros HI Hh Hf. set (A := A' ++ [t]) in *.
  assert (HniA : ~ In (le t) (map le A')).
  { pose proof (inv_nodup z _ HI) as Hnd. unfold A in Hnd. rewrite <- app_assoc in Hnd. simpl in Hnd.
    rewrite map_app in Hnd. simpl in Hnd. apply NoDup_remove_2 in Hnd.
    intros H. apply Hnd. apply in_or_app. left. exact H. }
  induction lv as [|i IH]; intros Hlv; [lia|].
  cbn [lrank_levels].
  rewrite (advance_level z A R _ i HI Hh Hf ltac:(lia)).
  assert (Eu : upd_of A i = if (i <? lh t)%nat then (nref t, Z.of_nat (length A))
                            else (fst (lane_end i Head 0 A'), Z.of_nat (length A) - (snd (lane_end i Head 0 A') + 1))).
  { unfold upd_of, A. rewrite lane_end_last. destruct (i <? lh t)%nat; cbn [fst snd]; [f_equal; lia|reflexivity]. }
  rewrite Eu.
  destruct (Nat.ltb_spec i (lh t)) as [Hlt|Hge]; cbn [nref].
  - rewrite Z.eqb_refl. reflexivity.
  - assert (Hi1 : (1 <= i)%nat).
    { pose proof (inv_heights z _ HI) as Hx. apply Forall_app in Hx. destruct Hx as [Hx _].
      apply Forall_app in Hx. destruct Hx as [_ Hx]. inversion Hx; subst. lia. }
    specialize (IH ltac:(lia)). rewrite Eu in IH.
    destruct (Nat.ltb_spec i (lh t)); [lia|]. cbn [fst snd] in IH.
    destruct (fst (lane_end i Head 0 A')) as [| |e'] eqn:Ex; try exact IH.
    destruct (Z.eqb_spec e' (le t)) as [E|_]; [|exact IH].
    exfalso. apply (lane_end_member i A' (le t) HniA). rewrite Ex, E. reflexivity.
Qed.

Lemma before_eq_prefix (A' : list lnode) t R : ssorted (map ent (A' ++ t :: R)) ->
  Forall (fun n => before_eq (ent n) (ls t) (le t) = true) (A' ++ [t]) /\
  Forall (fun n => before_eq (ent n) (ls t) (le t) = false) R.
Proof.
  intros Hs. rewrite map_app in Hs. simpl in Hs. apply ssorted_app in Hs. destruct Hs as (_ & HtR & Hcross).
  simpl in HtR. destruct HtR as [FtR _]. rewrite Forall_forall in FtR.
  split.
  - apply Forall_app. split.
    + rewrite Forall_forall. intros n Hn. apply before_eq_spec. left.
      change (ls t, le t) with (ent t). apply Hcross; [apply in_map; exact Hn|left; reflexivity].
    + constructor; [|constructor]. apply before_eq_spec. right. reflexivity.
  - rewrite Forall_forall. intros n Hn.
    destruct (before_eq (ent n) (ls t) (le t)) eqn:E; [|reflexivity]. exfalso.
    assert (Hk : klt (ent t) (ent n)) by (apply FtR; apply in_map; exact Hn).
    apply before_eq_spec in E. change (ls t, le t) with (ent t) in E.
    destruct E as [E|E]; [apply (klt_irrefl (ent t)); eapply klt_trans; eassumption|].
    rewrite E in Hk. apply (klt_irrefl _ Hk).
Qed.

Lemma lget_rank_spec z A' t R : LInv z (A' ++ t :: R) -> ssorted (map ent (A' ++ t :: R)) ->
  lget_rank z (ls t) (le t) = Some (Z.of_nat (length A') + 1).
Proof.
  intros HI Hs. destruct (before_eq_prefix A' t R Hs) as [HA HR].
  assert (E : A' ++ t :: R = (A' ++ [t]) ++ R) by (rewrite <- app_assoc; reflexivity).
  rewrite E in HI. unfold lget_rank.
  pose proof (upd_of_top z (A' ++ [t]) R HI) as Htop.
  pose proof (lrank_levels_spec z A' t R HI
                (holds_from_free (fun x => before_eq x (ls t) (le t)) _ 0 HA)
                (fails_from_free (fun x => before_eq x (ls t) (le t)) _ _ HR)
                (llevel z) ltac:(pose proof (inv_level z _ HI); lia)) as H.
  rewrite Htop in H. cbn [fst snd] in H. rewrite H. f_equal. rewrite app_length. simpl. lia.
Qed.

Lemma lget_rank_op_sim l z0 st e reverse : Sim l z0 -> Inv z0 st ->
  lget_rank_op l e reverse = OInt (get_rank z0 e reverse).
Proof.
  intros (L & HI & HT & EL & ED) HInv. pose proof HInv as (Hs & Hin & Hnd & Hd).
  unfold lget_rank_op, get_rank. rewrite ED.
  destruct (dict_get (dict z0) e) as [s0|] eqn:Eg; [|reflexivity].
  assert (Hpres : In (s0, e) (zsl z0)) by (apply Hin; apply lookup_some; rewrite <- Hd; exact Eg).
  rewrite <- EL in Hpres. apply in_map_iff in Hpres. destruct Hpres as (t & Et & Ht).
  destruct (in_split _ _ Ht) as (A' & R & EL3). subst L.
  assert (Els : ls t = s0 /\ le t = e) by (unfold ent in Et; injection Et; auto).
  destruct Els as [<- <-].
  rewrite <- EL in Hs. rewrite (lget_rank_spec (lz l) A' t R HI Hs).
  rewrite <- EL. rewrite map_app. simpl map.
  pose proof (zsl_rank_at (map ent A') (ent t) (map ent R)) as Hr.
  rewrite map_app in Hs. simpl map in Hs. specialize (Hr Hs). simpl in Hr. rewrite Hr.
  rewrite (inv_len (lz l) _ HI). unfold zlen. rewrite !app_length, !map_length. simpl length.
  rewrite map_length. destruct reverse; f_equal; lia.
Qed.

(* ---------------------------------------------------------------- GetElementByRank *)
Lemma holds_from_rank_le rank A : forall k, k + Z.of_nat (length A) <= rank ->
  holds_from (fun r _ _ => r <=? rank) k A.
Proof.
  induction A as [|n t IH]; intros k H; simpl; [exact I|]. simpl length in H.
  split; [apply Z.leb_le; lia|apply IH; lia].
Qed.

Lemma fails_from_rank_le rank B : forall k, rank < k + 1 -> fails_from (fun r _ _ => r <=? rank) k B.
Proof.
  induction B as [|n t IH]; intros k H; simpl; [exact I|].
  split; [apply Z.leb_gt; lia|apply IH; lia].
Qed.

Lemma lby_rank_spec z A' t R : LInv z (A' ++ t :: R) ->
  lby_rank z (Z.of_nat (length A') + 1) = Some (nref t).
Proof.
  intros HI. set (rank := Z.of_nat (length A') + 1).
  assert (E : A' ++ t :: R = (A' ++ [t]) ++ R) by (rewrite <- app_assoc; reflexivity).
  rewrite E in HI. set (A := A' ++ [t]) in *.
  assert (HlA : Z.of_nat (length A) = rank) by (unfold A, rank; rewrite app_length; simpl; lia).
  assert (Hh : holds_from (fun r _ _ => r <=? rank) 0 A) by (apply holds_from_rank_le; lia).
  assert (Hf : fails_from (fun r _ _ => r <=? rank) (Z.of_nat (length A)) R) by (apply fails_from_rank_le; lia).
  assert (Hgen : forall lv, (1 <= lv <= llevel z)%nat ->
            lby_rank_levels z rank lv (fst (upd_of A lv)) (snd (upd_of A lv)) = Some (nref t)).
  { induction lv as [|i IH]; intros Hlv; [lia|]. cbn [lby_rank_levels].
    rewrite (advance_level z A R _ i HI Hh Hf ltac:(lia)).
    assert (Eu : upd_of A i = if (i <? lh t)%nat then (nref t, rank)
                              else (fst (lane_end i Head 0 A'), rank - (snd (lane_end i Head 0 A') + 1))).
    { unfold upd_of. rewrite HlA. unfold A. rewrite lane_end_last.
      destruct (i <? lh t)%nat; cbn [fst snd]; [f_equal; lia|reflexivity]. }
    rewrite Eu. destruct (Nat.ltb_spec i (lh t)) as [Hlt|Hge].
    - rewrite Z.eqb_refl. reflexivity.
    - pose proof (lane_end_dist i A' Head 0 ltac:(lia)) as Hd.
      destruct (Z.eqb_spec (rank - (snd (lane_end i Head 0 A') + 1)) rank); [lia|].
      assert (Hi1 : (1 <= i)%nat).
      { pose proof (inv_heights z _ HI) as Hx. apply Forall_app in Hx. destruct Hx as [Hx _].
        apply Forall_app in Hx. destruct Hx as [_ Hx]. inversion Hx; subst. lia. }
      specialize (IH ltac:(lia)). rewrite Eu in IH. destruct (Nat.ltb_spec i (lh t)); [lia|]. exact IH. }
  unfold lby_rank. pose proof (upd_of_top z A R HI) as Htop.
  specialize (Hgen (llevel z) ltac:(pose proof (inv_level z _ HI); lia)).
  rewrite Htop in Hgen. exact Hgen.
Qed.

(* ---------------------------------------------------------------- walks *)
Lemma lwalk_fwd_spec z A : forall B n, LInv z (A ++ B) ->
  lwalk z false (head_ref B) n = walk (map ent B) n.
Proof.
  intros B n. revert A B. induction n as [|n IH]; intros A B HI.
  - destruct B; reflexivity.
  - destruct B as [|f t]; [reflexivity|]. simpl head_ref. cbn [lwalk lnext nref map walk].
    assert (Hnf : node_ok z f).
    { pose proof (inv_nodes z _ HI) as H. apply Forall_app in H. destruct H as [_ H]. inversion H; assumption. }
    destruct Hnf as [Hsf _]. apply nsc_inv in Hsf. destruct Hsf as (nf & Hgf & _). rewrite Hgf.
    pose proof (lane0_cell_of z A f t HI) as Hc. unfold cell in Hc. cbn [nref] in Hc. rewrite Hgf in Hc.
    rewrite Hc. cbn [fwd].
    assert (E : A ++ f :: t = (A ++ [f]) ++ t) by (rewrite <- app_assoc; reflexivity).
    rewrite E in HI. specialize (IH (A ++ [f]) t HI).
    change (match t with [] => Nil | f0 :: _ => nref f0 end) with (head_ref t). rewrite IH.
    reflexivity.
Qed.

Lemma lwalk_bwd_spec z : forall n X Y, LInv z (X ++ Y) ->
  lwalk z true (last_or Nil X) n = walk (rev (map ent X)) n.
Proof.
  induction n as [|n IH]; intros X Y HI.
  - destruct (rev (map ent X)); reflexivity.
  - destruct (rev X) as [|t r] eqn:Er.
    + assert (X = []) as -> by (rewrite <- (rev_involutive X), Er; reflexivity). reflexivity.
    + assert (EX : X = rev r ++ [t]) by (rewrite <- (rev_involutive X), Er; reflexivity).
      subst X. rewrite last_or_snoc. rewrite map_app, rev_app_distr. simpl rev. simpl app.
      cbn [lwalk lnext nref walk].
      assert (Hnt : node_ok z t).
      { pose proof (inv_nodes z _ HI) as H. apply Forall_app in H. destruct H as [H _].
        apply Forall_app in H. destruct H as [_ H]. inversion H; assumption. }
      destruct Hnt as [Hst _]. apply nsc_inv in Hst. destruct Hst as (nt & Hgt & _). rewrite Hgt.
      pose proof (inv_back z _ HI) as Hb. rewrite <- app_assoc in Hb. apply back_ok_app in Hb.
      destruct Hb as [_ Hb]. simpl in Hb. destruct Hb as [Hb _].
      unfold nbk in Hb. rewrite Hgt in Hb. simpl in Hb. injection Hb as Hb. rewrite Hb.
      rewrite <- app_assoc in HI. rewrite (IH (rev r) ([t] ++ Y) HI). reflexivity.
Qed.

(* ---------------------------------------------------------------- GetRange *)
Lemma split_at (L : list lnode) k : (k < length L)%nat ->
  exists A' t R, L = A' ++ t :: R /\ length A' = k.
Proof.
  intros H. destruct (nth_split L (mkN 0 0 0) H) as (l1 & l2 & E & Hl). eauto.
Qed.

Lemma lget_range_sim l z0 st start stop reverse : Sim l z0 -> Inv z0 st ->
  lget_range l start stop reverse = get_range z0 start stop reverse.
Proof.
  intros (L & HI & HT & EL & ED) HInv.
  unfold lget_range, get_range. cbv zeta.
  assert (Hlen : llen (lz l) = zlen (zsl z0)).
  { rewrite (inv_len (lz l) _ HI), <- EL. unfold zlen. rewrite map_length. reflexivity. }
  rewrite Hlen. set (len := zlen (zsl z0)) in *.
  set (start1 := if start <? 0 then len + start else start).
  set (stop1 := if stop <? 0 then len + stop else stop).
  set (a := if start1 <? 0 then 0 else start1).
  destruct ((a >? stop1) || (a >=? len)) eqn:Ec; [reflexivity|].
  apply orb_false_iff in Ec. destruct Ec as [Ec1 Ec2].
  assert (Ha0 : 0 <= a) by (unfold a; destruct (Z.ltb_spec start1 0); lia).
  assert (Ha1 : a <= stop1) by (destruct (Z.gtb_spec a stop1); [discriminate|lia]).
  assert (Ha2 : a < len) by (rewrite Z.geb_leb in Ec2; apply Z.leb_gt in Ec2; exact Ec2).
  set (b := if stop1 >=? len then len - 1 else stop1).
  assert (HlenL : len = Z.of_nat (length L)).
  { unfold len. rewrite <- EL. unfold zlen. rewrite map_length. reflexivity. }
  set (n := Z.to_nat (b - a + 1)).
  pose proof (inv_level (lz l) _ HI) as Hlv.
  destruct reverse.
  - (* from the tail backwards *)
    destruct (Z.gtb_spec a 0) as [Hpos|Hzero].
    + destruct (split_at L (Z.to_nat (len - a - 1)) ltac:(lia)) as (A' & t & R & E3 & HlA).
      pose proof HI as HI3. rewrite E3 in HI3.
      replace (len - a) with (Z.of_nat (length A') + 1) by lia.
      rewrite (lby_rank_spec (lz l) A' t R HI3).
      assert (E4 : A' ++ t :: R = (A' ++ [t]) ++ R) by (rewrite <- app_assoc; reflexivity).
      rewrite E4 in HI3. rewrite <- (last_or_snoc Nil A' t).
      rewrite (lwalk_bwd_spec (lz l) n (A' ++ [t]) R HI3).
      unfold from_rank_bwd. fold len.
      destruct (Z.leb_spec 1 (Z.of_nat (length A') + 1)); [|lia].
      destruct (Z.leb_spec (Z.of_nat (length A') + 1) len); [|lia]. cbn [andb].
      rewrite <- EL, E3, E4. rewrite (map_app ent (A' ++ [t]) R), firstn_app.
      replace (Z.to_nat (Z.of_nat (length A') + 1)) with (length (map ent (A' ++ [t])))
        by (rewrite map_length, app_length; simpl; lia).
      rewrite firstn_all, Nat.sub_diag. cbn [firstn]. rewrite app_nil_r. reflexivity.
    + rewrite (inv_tail (lz l) _ HI). unfold last_ref. fold (last_or Nil L).
      assert (E0 : L = L ++ []) by (rewrite app_nil_r; reflexivity).
      pose proof HI as HI0. rewrite E0 in HI0.
      rewrite (lwalk_bwd_spec (lz l) n L [] HI0). rewrite <- EL. reflexivity.
  - destruct (Z.gtb_spec a 0) as [Hpos|Hzero].
    + destruct (split_at L (Z.to_nat a) ltac:(lia)) as (A' & t & R & E3 & HlA).
      pose proof HI as HI3. rewrite E3 in HI3.
      replace (a + 1) with (Z.of_nat (length A') + 1) by lia.
      rewrite (lby_rank_spec (lz l) A' t R HI3).
      change (nref t) with (head_ref (t :: R)).
      rewrite (lwalk_fwd_spec (lz l) A' (t :: R) n HI3).
      unfold from_rank_fwd. fold len.
      destruct (Z.leb_spec 1 (Z.of_nat (length A') + 1)); [|lia].
      destruct (Z.leb_spec (Z.of_nat (length A') + 1) len); [|lia]. cbn [andb].
      rewrite <- EL, E3. rewrite (map_app ent A' (t :: R)), skipn_app.
      replace (Z.to_nat (Z.of_nat (length A') + 1 - 1)) with (length (map ent A')) by (rewrite map_length; lia).
      rewrite skipn_all, Nat.sub_diag. reflexivity.
    + pose proof (lane0_next (lz l) [] L HI) as Hn. unfold upd_of in Hn. cbn [lane_end fst] in Hn.
      unfold next0. rewrite Hn. cbn [fwd].
      change (match L with [] => Nil | f :: _ => nref f end) with (head_ref L).
      rewrite (lwalk_fwd_spec (lz l) [] L n HI). rewrite <- EL. reflexivity.
Qed.

(* ---------------------------------------------------------------- score ranges *)
Lemma lscore_node z L n : LInv z L -> In n L -> lscore z (nref n) = Some (ls n).
Proof.
  intros HI Hn. pose proof (inv_nodes z _ HI) as H. rewrite Forall_forall in H.
  destruct (H n Hn) as [Hs _]. apply nsc_inv in Hs. destruct Hs as (nd & Hg & Hsc).
  unfold lscore. cbn [nref]. rewrite Hg, Hsc. reflexivity.
Qed.

Lemma lscore_node' z L n : LInv z L -> In n L -> lscore z (Node (le n)) = Some (ls n).
Proof. apply lscore_node. Qed.

Lemma next0_head z L : LInv z L -> next0 z Head = Some (head_ref L).
Proof.
  intros HI. pose proof (lane0_next z [] L HI) as Hn. unfold upd_of in Hn. cbn [lane_end fst] in Hn.
  unfold next0. rewrite Hn. reflexivity.
Qed.

Lemma lis_in_range_spec z L min max : LInv z L ->
  lis_in_range z min max = Some (is_in_range (map ent L) min max).
Proof.
  intros HI. unfold lis_in_range, is_in_range.
  destruct (min >? max); [reflexivity|].
  rewrite (inv_tail z _ HI). unfold last_ref. rewrite <- map_rev.
  destruct (rev L) as [|t r] eqn:Er; [reflexivity|]. cbn [map].
  assert (Ht : In t L) by (apply in_rev; rewrite Er; left; reflexivity).
  cbn [nref]. rewrite (lscore_node' z L t HI Ht). change (score (ent t)) with (ls t).
  destruct (ls t <? min); [reflexivity|].
  rewrite (next0_head z L HI).
  destruct L as [|f L']; [destruct Ht|]. cbn [head_ref map nref].
  rewrite (lscore_node' z (f :: L') f HI (or_introl eq_refl)). reflexivity.
Qed.

Lemma lfirst_in_range_spec z L min max : LInv z L -> ssorted (map ent L) ->
  exists Pre F, L = Pre ++ F /\ first_in_range (map ent L) min max = map ent F /\
                lfirst_in_range z min max = Some (head_ref F).
Proof.
  intros HI Hs. unfold lfirst_in_range, first_in_range. rewrite (lis_in_range_spec z L min max HI).
  destruct (is_in_range (map ent L) min max).
  2:{ exists L, []. rewrite app_nil_r. auto. }
  destruct (chain_split (fun x => score x <? min) L Hs (downward_score_lt min)) as (A & B & -> & HA & HB).
  unfold search_last.
  destruct (search_all z A B (fun _ s' _ => s' <? min) HI
              (holds_from_free (fun x => score x <? min) A 0 HA)
              (fails_from_free (fun x => score x <? min) B _ HB)) as (a & -> & Hlen & Harr).
  pose proof (inv_level z _ HI) as Hlv.
  unfold next0. rewrite (Harr 0%nat ltac:(lia)), (lane0_next z A B HI). cbn [fwd].
  rewrite map_app, skip_lt_app.
  2:{ rewrite Forall_map. eapply Forall_impl; [|exact HA]. simpl. intros n H. apply Z.ltb_lt in H. exact H. }
  destruct B as [|f r]; cbn [map].
  - exists A, []. rewrite app_nil_r. auto.
  - inversion HB as [|? ? Hf _]; subst. simpl in Hf. apply Z.ltb_ge in Hf.
    cbn [skip_lt]. change (score (ent f)) with (ls f). destruct (Z.ltb_spec (ls f) min); [lia|].
    cbn [nref]. rewrite (lscore_node' z (A ++ f :: r) f HI ltac:(apply in_or_app; right; left; reflexivity)).
    change (score (ent f)) with (ls f). destruct (ls f >? max).
    + exists (A ++ f :: r), []. rewrite app_nil_r. auto.
    + exists A, (f :: r). auto.
Qed.

Lemma is_in_range_first l min max : is_in_range l min max = true ->
  exists f r, l = f :: r /\ score f <= max.
Proof.
  unfold is_in_range. destruct (min >? max); [discriminate|].
  destruct (rev l) as [|t p]; [discriminate|]. destruct (score t <? min); [discriminate|].
  destruct l as [|f r]; [discriminate|]. intros H. exists f, r. split; [reflexivity|].
  destruct (Z.gtb_spec (score f) max); [discriminate|lia].
Qed.

Lemma llast_in_range_spec z L min max : LInv z L -> ssorted (map ent L) ->
  exists X Y, L = X ++ Y /\ last_in_range (map ent L) min max = rev (map ent X) /\
              llast_in_range z min max = Some (last_or Nil X).
Proof.
  intros HI Hs. unfold llast_in_range, last_in_range. rewrite (lis_in_range_spec z L min max HI).
  destruct (is_in_range (map ent L) min max) eqn:Eir.
  2:{ exists [], L. auto. }
  destruct (chain_split (fun x => score x <=? max) L Hs (downward_score_le max)) as (A & B & -> & HA & HB).
  unfold search_last.
  destruct (search_all z A B (fun _ s' _ => s' <=? max) HI
              (holds_from_free (fun x => score x <=? max) A 0 HA)
              (fails_from_free (fun x => score x <=? max) B _ HB)) as (a & -> & Hlen & Harr).
  pose proof (inv_level z _ HI) as Hlv.
  assert (HhA : Forall (fun n => (1 <= lh n)%nat) A).
  { pose proof (inv_heights z _ HI) as H. apply Forall_app in H. destruct H as [H _].
    eapply Forall_impl; [|exact H]. simpl. intros; lia. }
  rewrite (Harr 0%nat ltac:(lia)), (upd0_is_last A HhA).
  rewrite map_app, last_le_app.
  2:{ rewrite Forall_map. eapply Forall_impl; [|exact HA]. simpl. intros n H. apply Z.leb_le in H. exact H. }
  rewrite last_le_stop.
  2:{ destruct B as [|b B']; [exact I|]. inversion HB as [|? ? Hb _]; subst. simpl in Hb. apply Z.leb_gt in Hb. exact Hb. }
  rewrite app_nil_r.
  destruct (rev A) as [|t r] eqn:Er.
  - (* impossible: the first node has score <= max *)
    exfalso. assert (A = []) as -> by (rewrite <- (rev_involutive A), Er; reflexivity).
    simpl in Eir. destruct (is_in_range_first _ _ _ Eir) as (f & r' & Ef & Hfs).
    destruct B as [|b B']; [discriminate|]. simpl in Ef. injection Ef as <- _.
    inversion HB as [|? ? Hb _]; subst. apply Z.leb_gt in Hb. lia.
  - assert (EA : A = rev r ++ [t]) by (rewrite <- (rev_involutive A), Er; reflexivity).
    unfold last_or. rewrite Er. rewrite <- map_rev, Er. cbn [map].
    rewrite (lscore_node z (A ++ B) t HI).
    2:{ apply in_or_app. left. rewrite EA. apply in_or_app. right. left. reflexivity. }
    change (score (ent t)) with (ls t). destruct (ls t <? min).
    + exists [], (A ++ B). auto.
    + exists A, B. split; [reflexivity|]. split; [rewrite <- map_rev, Er; reflexivity|].
      unfold last_or. rewrite Er. reflexivity.
Qed.

(* ---------------------------------------------------------------- walking while in range *)
Lemma lwalk_while_fwd z max : forall F Pre fuel, LInv z (Pre ++ F) -> (length F < fuel)%nat ->
  lwalk_while fuel z false (fun sx => sx >? max) (head_ref F) = Some (take_while_le (map ent F) max).
Proof.
  induction F as [|f r IH]; intros Pre fuel HI Hfuel.
  - destruct fuel; [simpl in Hfuel; lia|]. reflexivity.
  - destruct fuel as [|fl]; [simpl in Hfuel; lia|]. simpl head_ref. cbn [lwalk_while nref map take_while_le].
    change (Node (le f)) with (nref f).
    rewrite (lscore_node z (Pre ++ f :: r) f HI ltac:(apply in_or_app; right; left; reflexivity)).
    cbn [lnext nref].
    assert (Hnf : node_ok z f).
    { pose proof (inv_nodes z _ HI) as H. apply Forall_app in H. destruct H as [_ H]. inversion H; assumption. }
    destruct Hnf as [Hsf _]. apply nsc_inv in Hsf. destruct Hsf as (nf & Hgf & _). rewrite Hgf.
    pose proof (lane0_cell_of z Pre f r HI) as Hc. unfold cell in Hc. cbn [nref] in Hc. rewrite Hgf in Hc.
    rewrite Hc. cbn [fwd]. change (score (ent f)) with (ls f).
    destruct (ls f >? max); [reflexivity|].
    assert (E : Pre ++ f :: r = (Pre ++ [f]) ++ r) by (rewrite <- app_assoc; reflexivity).
    rewrite E in HI. change (match r with [] => Nil | f0 :: _ => nref f0 end) with (head_ref r).
    rewrite (IH (Pre ++ [f]) fl HI ltac:(simpl in Hfuel; lia)). reflexivity.
Qed.

Lemma lwalk_while_bwd z min : forall fuel X Y, LInv z (X ++ Y) -> (length X < fuel)%nat ->
  lwalk_while fuel z true (fun sx => sx <? min) (last_or Nil X) = Some (take_while_ge (rev (map ent X)) min).
Proof.
  induction fuel as [|fl IH]; intros X Y HI Hfuel; [lia|].
  destruct (rev X) as [|t r] eqn:Er.
  - assert (X = []) as -> by (rewrite <- (rev_involutive X), Er; reflexivity). reflexivity.
  - assert (EX : X = rev r ++ [t]) by (rewrite <- (rev_involutive X), Er; reflexivity).
    subst X. rewrite last_or_snoc. rewrite map_app, rev_app_distr. simpl rev. simpl app.
    cbn [lwalk_while take_while_ge].
    rewrite (lscore_node z ((rev r ++ [t]) ++ Y) t HI).
    2:{ apply in_or_app. left. apply in_or_app. right. left. reflexivity. }
    cbn [lnext nref].
    assert (Hnt : node_ok z t).
    { pose proof (inv_nodes z _ HI) as H. apply Forall_app in H. destruct H as [H _].
      apply Forall_app in H. destruct H as [_ H]. inversion H; assumption. }
    destruct Hnt as [Hst _]. apply nsc_inv in Hst. destruct Hst as (nt & Hgt & _). rewrite Hgt.
    pose proof (inv_back z _ HI) as Hb. rewrite <- app_assoc in Hb. apply back_ok_app in Hb.
    destruct Hb as [_ Hb]. simpl in Hb. destruct Hb as [Hb _].
    unfold nbk in Hb. rewrite Hgt in Hb. simpl in Hb. injection Hb as Hb. rewrite Hb.
    change (score (ent t)) with (ls t). destruct (ls t <? min); [reflexivity|].
    rewrite <- app_assoc in HI.
    rewrite (IH (rev r) ([t] ++ Y) HI).
    + reflexivity.
    + rewrite app_length in Hfuel. simpl in Hfuel. lia.
Qed.

(* ---------------------------------------------------------------- GetRangeByScore, Count *)
Lemma lget_range_by_score_sim l z0 st min max reverse : Sim l z0 -> Inv z0 st ->
  lget_range_by_score l min max reverse = get_range_by_score z0 min max reverse.
Proof.
  intros (L & HI & HT & EL & ED) HInv. pose proof HInv as (Hs & _). rewrite <- EL in Hs.
  unfold lget_range_by_score, get_range_by_score.
  destruct (min >? max); [reflexivity|]. rewrite <- EL.
  assert (Hfuel : forall X : list lnode, (length X <= length L)%nat -> (length X < fuel_of (lz l))%nat).
  { intros X HX. unfold fuel_of. rewrite (inv_len (lz l) _ HI). lia. }
  destruct reverse.
  - destruct (llast_in_range_spec (lz l) L min max HI Hs) as (X & Y & E & -> & ->).
    pose proof HI as HI2. rewrite E in HI2.
    rewrite (lwalk_while_bwd (lz l) min (fuel_of (lz l)) X Y HI2); [reflexivity|].
    apply Hfuel. rewrite E, app_length. lia.
  - destruct (lfirst_in_range_spec (lz l) L min max HI Hs) as (Pre & F & E & -> & ->).
    pose proof HI as HI2. rewrite E in HI2.
    rewrite (lwalk_while_fwd (lz l) max F Pre (fuel_of (lz l)) HI2); [reflexivity|].
    apply Hfuel. rewrite E, app_length. lia.
Qed.

Lemma lcount_sim l z0 st min max : Sim l z0 -> Inv z0 st ->
  lcount l min max = OInt (count z0 min max).
Proof.
  intros (L & HI & HT & EL & ED) HInv. pose proof HInv as (Hs & _). rewrite <- EL in Hs.
  unfold lcount, count.
  destruct (min >? max); [reflexivity|]. rewrite <- EL.
  assert (Hlen : llen (lz l) = zlen (map ent L)).
  { rewrite (inv_len (lz l) _ HI). unfold zlen. rewrite map_length. reflexivity. }
  destruct (lfirst_in_range_spec (lz l) L min max HI Hs) as (Pre & F & E & -> & ->).
  destruct F as [|f R']; [reflexivity|]. cbn [head_ref nref map].
  assert (Hf : In f L) by (rewrite E; apply in_or_app; right; left; reflexivity).
  rewrite (lscore_node' (lz l) L f HI Hf).
  pose proof HI as HI1. rewrite E in HI1. pose proof Hs as Hs1. rewrite E in Hs1.
  rewrite (lget_rank_spec (lz l) Pre f R' HI1 Hs1).
  assert (Hr1 : zsl_rank (map ent L) (score (ent f)) (member (ent f)) = Z.of_nat (length Pre) + 1).
  { rewrite E, map_app. cbn [map]. rewrite (zsl_rank_at (map ent Pre) (ent f) (map ent R')).
    - unfold zlen. rewrite map_length. reflexivity.
    - rewrite E, map_app in Hs. exact Hs. }
  rewrite Hr1, Hlen.
  destruct (llast_in_range_spec (lz l) L min max HI Hs) as (X & Y & E2 & -> & ->).
  destruct (rev X) as [|t r] eqn:Er.
  - assert (X = []) as -> by (rewrite <- (rev_involutive X), Er; reflexivity). reflexivity.
  - assert (EX : X = rev r ++ [t]) by (rewrite <- (rev_involutive X), Er; reflexivity).
    unfold last_or. rewrite Er. rewrite <- map_rev, Er. cbn [map nref].
    assert (Ht : In t L) by (rewrite E2, EX; apply in_or_app; left; apply in_or_app; right; left; reflexivity).
    rewrite (lscore_node' (lz l) L t HI Ht).
    assert (E3 : L = rev r ++ t :: Y) by (rewrite E2, EX, <- app_assoc; reflexivity).
    pose proof HI as HI3. rewrite E3 in HI3. pose proof Hs as Hs3. rewrite E3 in Hs3.
    rewrite (lget_rank_spec (lz l) (rev r) t Y HI3 Hs3).
    assert (Hr2 : zsl_rank (map ent L) (score (ent t)) (member (ent t)) = Z.of_nat (length (rev r)) + 1).
    { rewrite E3, map_app. cbn [map]. rewrite (zsl_rank_at (map ent (rev r)) (ent t) (map ent Y)).
      - unfold zlen. rewrite map_length. reflexivity.
      - rewrite E3, map_app in Hs. exact Hs. }
    rewrite Hr2. reflexivity.
Qed.

(* ---------------------------------------------------------------- every call *)
Lemma lstep_sim_full l z0 st o : Sim l z0 -> Inv z0 st ->
  let '(l', lo) := lstep l o in
  let '(z', o') := step z0 o in
  Sim l' z' /\ lo = o'.
Proof.
  intros HS HInv. pose proof (lstep_sim l z0 st o HS HInv) as H.
  destruct o as [e s|e|a b|a b|a b|e r|e|a b r|a b r|]; cbn [lstep step covered] in *;
    try (destruct (lstep _ _); destruct (step _ _); tauto).
  - destruct (ladd l e s); destruct (add z0 e s); destruct H as [H1 H2]; auto.
  - destruct (lremove l e); destruct (remove z0 e); destruct H as [H1 H2]; auto.
  - destruct (lrem_by_score l a b); destruct (rem_by_score z0 a b); destruct H as [H1 H2]; auto.
  - destruct (lrem_by_rank l a b); destruct (rem_by_rank z0 a b); destruct H as [H1 H2]; auto.
  - split; [exact HS|apply (lcount_sim l z0 st a b HS HInv)].
  - split; [exact HS|apply (lget_rank_op_sim l z0 st e r HS HInv)].
  - destruct H as [H1 H2]; auto.
  - split; [exact HS|apply (lget_range_sim l z0 st a b r HS HInv)].
  - split; [exact HS|apply (lget_range_by_score_sim l z0 st a b r HS HInv)].
  - destruct H as [H1 H2]; auto.
Qed.

Lemma lrun_sim_full ops : forall l z0 st, Sim l z0 -> Inv z0 st ->
  let '(l', los) := lrun l ops in
  let '(z', os) := run z0 ops in
  Sim l' z' /\ los = os.
Proof.
  induction ops as [|o ops IH]; intros l z0 st HS HInv; cbn [lrun run].
  - auto.
  - pose proof (lstep_sim_full l z0 st o HS HInv) as H1.
    pose proof (step_refines z0 st o HInv) as H2.
    destruct (lstep l o) as [l1 lo]. destruct (step z0 o) as [z1 o1]. destruct (spec_step st o) as [st1 y].
    destruct H1 as [HS1 ->]. destruct H2 as [_ HInv1].
    specialize (IH l1 z1 st1 HS1 HInv1).
    destruct (lrun l1 ops) as [l2 los]. destruct (run z1 ops) as [z2 os].
    destruct IH as [HS2 ->]. auto.
Qed.

(* for ALL operation sequences and ALL height oracles the skip list with its lanes returns
   what the level-0 model returns *)
Theorem lane_model_results (orc : list nat) (ops : list op) :
  snd (lrun (lzempty orc) ops) = snd (run empty ops).
Proof.
  pose proof (lrun_sim_full ops (lzempty orc) empty [] (Sim_empty orc) Inv_empty) as H.
  destruct (lrun (lzempty orc) ops) as [l los]. destruct (run empty ops) as [z os].
  exact (proj2 H).
Qed.

(* ... hence what the reference ranking returns *)
Theorem lane_model_refines_ranking (orc : list nat) (ops : list op) :
  snd (lrun (lzempty orc) ops) = snd (spec_run [] ops).
Proof.
  rewrite lane_model_results. pose proof (refines_ranking ops) as H.
  destruct (run empty ops) as [z outs]. destruct (spec_run [] ops) as [st souts].
  exact (proj1 H).
Qed.
