(* C11, stage 2 — the structural invariant of the skip list and what a lane search computes
   under it: update[i] is the last node of lane i inside the prefix of the chain on which the
   search predicate holds, rank[i] its rank. *)
From Coq Require Import ZArith List Bool Lia.
From FV Require Import Generated.Consts C11.Spec C11.Model C11.LaneModel C11.LaneHeap C11.LaneInv.
Import ListNotations.
Open Scope Z_scope.

Definition node_ok (z : lzsl) (n : lnode) : Prop :=
  nsc z (le n) = Some (ls n) /\ nht z (le n) = Some (lh n).

Fixpoint back_ok (z : lzsl) (prev : ref) (L : list lnode) : Prop :=
  match L with
  | [] => True
  | n :: t => nbk z (le n) = Some prev /\ back_ok z (nref n) t
  end.

Definition last_ref (L : list lnode) : ref := match rev L with [] => Nil | n :: _ => nref n end.

(* zsl.level is the largest height (1 for the empty list) *)
Definition LTight (z : lzsl) (L : list lnode) : Prop :=
  llevel z = 1%nat \/ exists n, In n L /\ lh n = llevel z.

(* the structural invariant: L is the level-0 chain *)
Record LInv (z : lzsl) (L : list lnode) : Prop := mkLInv {
  inv_nodup : NoDup (map le L);
  inv_heights : Forall (fun n => (1 <= lh n <= llevel z)%nat) L;
  inv_level : (1 <= llevel z <= maxlevel)%nat;
  inv_hlv : length (hlv z) = maxlevel;
  inv_nodes : Forall (node_ok z) L;
  inv_lanes : forall i, (i < llevel z)%nat -> lane_ok (col z i) i Head 0 L;
  inv_top : forall i, (llevel z <= i < maxlevel)%nat -> exists sp, cell z Head i = Some (mkLvl Nil sp);
  inv_back : back_ok z Nil L;
  inv_tail : ltail z = last_ref L;
  inv_len : llen z = Z.of_nat (length L)
}.

Lemma nsc_inv z e s : nsc z e = Some s -> exists nd, hget (lheap z) e = Some nd /\ nscore nd = s.
Proof.
  unfold nsc. destruct (hget (lheap z) e) as [nd|]; simpl; [|discriminate].
  intros H. injection H as <-. eauto.
Qed.

(* the search predicate along the chain: P sees the rank of the node it is asked about *)
Fixpoint holds_from (P : Z -> Z -> Z -> bool) (k : Z) (A : list lnode) : Prop :=
  match A with
  | [] => True
  | n :: t => P (k + 1) (ls n) (le n) = true /\ holds_from P (k + 1) t
  end.

Fixpoint fails_from (P : Z -> Z -> Z -> bool) (k : Z) (B : list lnode) : Prop :=
  match B with
  | [] => True
  | n :: t => P (k + 1) (ls n) (le n) = false /\ fails_from P (k + 1) t
  end.

Lemma holds_from_app P X Y : forall k,
  holds_from P k (X ++ Y) <-> holds_from P k X /\ holds_from P (k + Z.of_nat (length X)) Y.
Proof.
  induction X as [|n t IH]; intros k; simpl.
  - rewrite Z.add_0_r. tauto.
  - rewrite IH. replace (k + 1 + Z.of_nat (length t)) with (k + Z.pos (Pos.of_succ_nat (length t))) by lia. tauto.
Qed.

(* in front of the part where P fails the inner loop does not move *)
Lemma advance_stop z i P B : forall c d rank fuel,
  lane_ok (col z i) i c d B -> Forall (node_ok z) B -> fails_from P (rank + d) B ->
  advance (S fuel) z i P c rank = Some (c, rank).
Proof.
  induction B as [|n t IH]; intros c d rank fuel Hl Hn Hf; simpl in Hl.
  - unfold col in Hl. cbn [advance]. rewrite Hl. reflexivity.
  - inversion Hn as [|? ? Hn1 Hn2]; subst. simpl in Hf. destruct Hf as [Hf1 Hf2].
    destruct (i <? lh n)%nat.
    + destruct Hl as [Hc _]. unfold col in Hc. cbn [advance]. rewrite Hc. cbn [fwd span nref].
      destruct Hn1 as [Hs _]. apply nsc_inv in Hs. destruct Hs as (nd & -> & ->).
      replace (rank + (d + 1)) with (rank + d + 1) by lia. rewrite Hf1. reflexivity.
    + apply (IH c (d + 1) rank fuel); auto.
      replace (rank + (d + 1)) with (rank + d + 1) by lia. exact Hf2.
Qed.

Lemma advance_spec z i P B : Forall (node_ok z) B -> forall A c d rank fuel,
  Forall (node_ok z) A -> lane_ok (col z i) i c d (A ++ B) ->
  holds_from P (rank + d) A -> fails_from P (rank + d + Z.of_nat (length A)) B ->
  (length A < fuel)%nat ->
  advance fuel z i P c rank =
  Some (fst (lane_end i c d A), rank + d + Z.of_nat (length A) - snd (lane_end i c d A)).
Proof.
  intros HB. induction A as [|n t IH]; intros c d rank fuel HA Hl Hh Hf Hfuel.
  - destruct fuel as [|f]; [simpl in Hfuel; lia|].
    simpl app in Hl. simpl length in *. rewrite Z.add_0_r in Hf.
    rewrite (advance_stop z i P B c d rank f Hl HB Hf). simpl. f_equal. f_equal. lia.
  - inversion HA as [|? ? Hn1 Hn2]; subst. simpl in Hh. destruct Hh as [Hh1 Hh2].
    simpl app in Hl. simpl in Hl. simpl lane_end.
    destruct (i <? lh n)%nat.
    + destruct Hl as [Hc Hl']. unfold col in Hc.
      destruct fuel as [|f]; [simpl in Hfuel; lia|].
      cbn [advance]. rewrite Hc. cbn [fwd span nref].
      destruct Hn1 as [Hs _]. apply nsc_inv in Hs. destruct Hs as (nd & -> & ->).
      replace (rank + (d + 1)) with (rank + d + 1) by lia. rewrite Hh1.
      change (Node (le n)) with (nref n).
      rewrite (IH (nref n) 0 (rank + d + 1) f Hn2 Hl').
      * f_equal. f_equal. simpl length. lia.
      * rewrite Z.add_0_r. exact Hh2.
      * rewrite Z.add_0_r. simpl length in Hf.
        replace (rank + d + 1 + Z.of_nat (length t)) with (rank + d + Z.of_nat (S (length t))) by lia. exact Hf.
      * simpl in Hfuel. lia.
    + rewrite (IH c (d + 1) rank fuel Hn2 Hl).
      * f_equal. f_equal. simpl length. lia.
      * replace (rank + (d + 1)) with (rank + d + 1) by lia. exact Hh2.
      * simpl length in Hf.
        replace (rank + (d + 1) + Z.of_nat (length t)) with (rank + d + Z.of_nat (S (length t))) by lia. exact Hf.
      * simpl in Hfuel. lia.
Qed.

(* update[i] and rank[i] *)
Definition upd_of (A : list lnode) (i : nat) : ref * Z :=
  (fst (lane_end i Head 0 A), Z.of_nat (length A) - snd (lane_end i Head 0 A)).

Lemma LInv_nodes_split z A B : LInv z (A ++ B) -> Forall (node_ok z) A /\ Forall (node_ok z) B.
Proof. intros H. apply Forall_app. apply (inv_nodes z _ H). Qed.

(* one lane: from update[i+1] the inner loop reaches update[i] *)
Lemma advance_level z A B P i : LInv z (A ++ B) ->
  holds_from P 0 A -> fails_from P (Z.of_nat (length A)) B -> (i < llevel z)%nat ->
  advance (fuel_of z) z i P (fst (upd_of A (S i))) (snd (upd_of A (S i))) = Some (upd_of A i).
Proof.
  intros HI Hh Hf Hi. destruct (LInv_nodes_split z A B HI) as [HnA HnB].
  assert (Hlane : lane_ok (col z i) i Head 0 (A ++ B)) by (apply (inv_lanes z _ HI); lia).
  assert (Hfuel : (length (A ++ B) < fuel_of z)%nat).
  { unfold fuel_of. rewrite (inv_len z _ HI). lia. }
  rewrite app_length in Hfuel.
  unfold upd_of at 1 2. cbn [fst snd].
  destruct (lane_end (S i) Head 0 A) as [u d2] eqn:Ee. cbn [fst snd].
  destruct (lane_end_decomp _ _ _ _ _ _ Ee) as [(-> & -> & Hall)|(A1 & n & A2 & EA & -> & Hn & -> & Hall)].
  - rewrite (advance_spec z i P B HnB A Head 0 (Z.of_nat (length A) - (0 + Z.of_nat (length A))) (fuel_of z)); auto.
    + unfold upd_of. f_equal. f_equal. lia.
    + replace (Z.of_nat (length A) - (0 + Z.of_nat (length A)) + 0) with 0 by lia. exact Hh.
    + replace (Z.of_nat (length A) - (0 + Z.of_nat (length A)) + 0 + Z.of_nat (length A)) with (Z.of_nat (length A)) by lia. exact Hf.
    + lia.
  - assert (EA' : A = (A1 ++ [n]) ++ A2) by (rewrite <- app_assoc; exact EA).
    assert (Hend : lane_end i Head 0 A = lane_end i (nref n) 0 A2).
    { rewrite EA', lane_end_app, lane_end_snoc by lia. reflexivity. }
    assert (Hl2 : lane_ok (col z i) i (nref n) 0 (A2 ++ B)).
    { rewrite EA', <- app_assoc in Hlane. apply lane_ok_app in Hlane.
      rewrite lane_end_snoc in Hlane by lia. exact (proj2 Hlane). }
    assert (HnA2 : Forall (node_ok z) A2).
    { rewrite EA in HnA. apply Forall_app in HnA. destruct HnA as [_ H]. inversion H; assumption. }
    assert (Hlen : Z.of_nat (length A) = Z.of_nat (length A1) + 1 + Z.of_nat (length A2)).
    { rewrite EA, app_length. simpl length. lia. }
    rewrite (advance_spec z i P B HnB A2 (nref n) 0 (Z.of_nat (length A) - Z.of_nat (length A2)) (fuel_of z)); auto.
    + unfold upd_of. rewrite Hend. f_equal. f_equal. lia.
    + rewrite EA' in Hh. apply holds_from_app in Hh. destruct Hh as [_ Hh2].
      rewrite app_length in Hh2. simpl length in Hh2.
      replace (Z.of_nat (length A) - Z.of_nat (length A2) + 0) with (0 + Z.of_nat (length A1 + 1)) by lia.
      exact Hh2.
    + replace (Z.of_nat (length A) - Z.of_nat (length A2) + 0 + Z.of_nat (length A2)) with (Z.of_nat (length A)) by lia.
      exact Hf.
    + rewrite EA, app_length in Hfuel. simpl length in Hfuel. lia.
Qed.

Lemma search_spec z A B P : LInv z (A ++ B) ->
  holds_from P 0 A -> fails_from P (Z.of_nat (length A)) B ->
  forall lv x r, (lv <= llevel z)%nat -> (x, r) = upd_of A lv ->
  exists arr, search z P lv x r = Some arr /\ length arr = lv /\
              forall i, (i < lv)%nat -> arr_get arr i = upd_of A i.
Proof.
  intros HI Hh Hf.
  induction lv as [|i IH]; intros x r Hlv Hxr.
  - exists []. repeat split; auto. intros; lia.
  - cbn [search].
    assert (Hadv : advance (fuel_of z) z i P x r = Some (upd_of A i)).
    { pose proof (advance_level z A B P i HI Hh Hf ltac:(lia)) as H. rewrite <- Hxr in H. exact H. }
    rewrite Hadv. unfold upd_of at 1.
    destruct (IH (fst (lane_end i Head 0 A)) (Z.of_nat (length A) - snd (lane_end i Head 0 A)) ltac:(lia) eq_refl)
      as (arr & -> & Hlen & Harr).
    eexists. split; [reflexivity|]. split; [rewrite app_length; simpl; lia|].
    intros j Hj. unfold arr_get. destruct (Nat.eq_dec j i) as [->|Hne].
    + rewrite app_nth2 by lia. rewrite Hlen, Nat.sub_diag. reflexivity.
    + rewrite app_nth1 by lia. apply Harr. lia.
Qed.

(* the start of every search: the header, above all lanes *)
Lemma upd_of_top z A B : LInv z (A ++ B) -> upd_of A (llevel z) = (Head, 0).
Proof.
  intros HI. unfold upd_of. rewrite lane_end_low.
  - simpl. f_equal. lia.
  - pose proof (inv_heights z _ HI) as H. apply Forall_app in H. destruct H as [H _].
    eapply Forall_impl; [|exact H]. simpl. intros; lia.
Qed.

Theorem search_all z A B P : LInv z (A ++ B) ->
  holds_from P 0 A -> fails_from P (Z.of_nat (length A)) B ->
  exists arr, search z P (llevel z) Head 0 = Some arr /\ length arr = llevel z /\
              forall i, (i < llevel z)%nat -> arr_get arr i = upd_of A i.
Proof.
  intros HI Hh Hf. apply (search_spec z A B P HI Hh Hf); [lia|].
  symmetry. apply (upd_of_top z A B HI).
Qed.
