(* C11, stage 2 (partial) — the search predicates of zskiplist.go are downward closed in the
   (score, member) order, so on a strictly sorted chain each of them holds on a prefix and
   fails on the rest; hence (C11/Lanes.v) the lane search of Insert / Delete / GetRank /
   DeleteRangeByScore / FirstInRange / LastInRange stops where the level-0 scan of
   C11/Model.v stops, whatever heights the nodes were given. *)
From Coq Require Import ZArith List Bool Lia.
From FV Require Import C11.Spec C11.Model C11.Sorted C11.Scans C11.Lanes.
Import ListNotations.

Definition downward (P : entry -> bool) : Prop := forall x y, klt x y -> P y = true -> P x = true.

Lemma sorted_prefix (P : entry -> bool) l : ssorted l -> downward P ->
  exists A B, l = A ++ B /\ Forall (fun x => P x = true) A /\ Forall (fun x => P x = false) B.
Proof.
  intros Hs Hd. induction l as [|x r IH].
  - exists [], []. repeat split; constructor.
  - simpl in Hs. destruct Hs as [F S]. destruct (IH S) as (A & B & -> & HA & HB).
    destruct (P x) eqn:Ex.
    + exists (x :: A), B. repeat split; auto.
    + exists [], (x :: A ++ B). repeat split; auto. constructor; [exact Ex|].
      rewrite Forall_forall in F |- *. intros y Hy.
      destruct (P y) eqn:Ey; [|reflexivity]. rewrite (Hd x y (F y Hy) Ey) in Ex. discriminate.
Qed.

Lemma downward_before s e : downward (fun x => before x s e).
Proof.
  intros x y Hxy Hy. apply before_spec in Hy. apply before_spec. eapply klt_trans; eassumption.
Qed.

Lemma downward_before_eq s e : downward (fun x => before_eq x s e).
Proof.
  intros x y Hxy Hy. apply before_eq_spec in Hy. apply before_eq_spec. left.
  destruct Hy as [Hy| ->]; [eapply klt_trans; eassumption|exact Hxy].
Qed.

Lemma downward_score_lt m : downward (fun x => (score x <? m)%Z).
Proof.
  intros x y Hxy Hy. apply Z.ltb_lt in Hy. apply Z.ltb_lt. apply klt_score in Hxy. lia.
Qed.

Lemma downward_score_le m : downward (fun x => (score x <=? m)%Z).
Proof.
  intros x y Hxy Hy. apply Z.leb_le in Hy. apply Z.leb_le. apply klt_score in Hxy. lia.
Qed.

(* nodes = the sorted chain with an arbitrary height 1..levels on every node *)
Theorem zset_lane_search (P : entry -> bool) (levels : nat) (nodes : list (nat * entry)) :
  ssorted (map snd nodes) -> downward P ->
  Forall (fun n => (1 <= fst n <= levels)%nat) nodes ->
  search P levels 0 nodes = scan P 0 nodes.
Proof.
  intros Hs Hd Hh.
  destruct (sorted_prefix P (map snd nodes) Hs Hd) as (A & B & E & HA & HB).
  (* split nodes like its payloads *)
  assert (Hsplit : exists NA NB, nodes = NA ++ NB /\ map snd NA = A /\ map snd NB = B).
  { exists (firstn (length A) nodes), (skipn (length A) nodes).
    split; [symmetry; apply firstn_skipn|].
    rewrite <- firstn_map, <- skipn_map, E. split.
    - rewrite firstn_app, Nat.sub_diag, firstn_all. simpl. apply app_nil_r.
    - rewrite skipn_app, Nat.sub_diag, skipn_all. reflexivity. }
  destruct Hsplit as (NA & NB & -> & EA & EB).
  assert (HNA : Forall (holds P) NA).
  { subst A. rewrite Forall_map in HA. exact HA. }
  assert (HNB : Forall (fails P) NB).
  { subst B. rewrite Forall_map in HB. exact HB. }
  apply Forall_app in Hh. destruct Hh as [HhA _].
  exact (proj1 (lane_search_eq_scan P levels NA NB HNA HNB HhA)).
Qed.
