(* C11 — The sorted set agrees with a reference ranking under any operation sequence.
   Only the property theorems: each is closed by an exact lemma and followed by Print
   Assumptions.  [run empty ops] is the model of zset.go / zskiplist.go (C11/Model.v, stage 1:
   level-0 scans with the code's comparisons, the member table in step); [spec_run [] ops] is
   the reference: a table of (score, member) entries whose answers are read off the table
   sorted by score and then by member (C11/Spec.v). *)
From Coq Require Import ZArith List Bool.
From FV Require Import C11.Spec C11.Model C11.LaneModel C11.Proofs.
Import ListNotations.
Open Scope Z_scope.

(* "After any sequence of adds, score updates, single removals and range removals by score or
   by rank, the set's size, every member's score and rank (ascending and descending), range
   queries by rank and by score in both directions, and in-range counts all agree with a list
   of the members sorted by score and then by member order":
   every call of every history (Add, Remove, RemoveRangeByScore, RemoveRangeByRank, Count,
   GetRank, GetScore, GetRange, GetRangeByScore, Len) returns what the reference returns, and
   afterwards the node list is the reference ranking. *)
Theorem c11_refines_ranking :
  forall ops : list op,
    let '(z, outs) := run empty ops in
    let '(st, souts) := spec_run [] ops in
    outs = souts /\ zsl z = ranking st /\ zlen (zsl z) = zlen st.
Proof. exact refines_ranking. Qed.
Print Assumptions c11_refines_ranking.

(* "Score ranges include both end points in every operation that takes one": on every
   reachable state Count, GetRangeByScore and RemoveRangeByScore select exactly the entries
   with min <= score <= max (in_score) *)
Theorem c11_inclusive_ends :
  forall (ops : list op) (min max : Z),
    let z := fst (run empty ops) in
    let inside := filter (in_score min max) (zsl z) in
    count z min max = zlen inside /\
    (forall reverse, get_range_by_score z min max reverse =
                     OList (if reverse then rev (map member inside) else map member inside)) /\
    (let '(z', o) := rem_by_score z min max in
     o = OInt (zlen inside) /\
     forall x, In x (zsl z') <-> In x (zsl z) /\ ~ (min <= score x <= max)).
Proof. exact inclusive_ends. Qed.
Print Assumptions c11_inclusive_ends.

Theorem c11_in_score_is_inclusive :
  forall min max x, in_score min max x = true <-> min <= score x <= max.
Proof. exact in_score_spec. Qed.
Print Assumptions c11_in_score_is_inclusive.

(* "negative rank indices count from the end": in the reference, which the code is proved to
   follow, the rank range (-k, -j) is the ranks len-k .. len-j *)
Theorem c11_negative_ranks :
  forall len k j, 1 <= j <= k -> k <= len -> norm_range len (- k) (- j) = Some (len - k, len - j).
Proof. exact norm_range_negative. Qed.
Print Assumptions c11_negative_ranks.

(* the member -> score table stays in step with the node list: same entries, and no member
   twice *)
Theorem c11_dict_in_step :
  forall ops : list op,
    let z := fst (run empty ops) in
    let st := fst (spec_run [] ops) in
    (forall e, dict_get (dict z) e = lookup e st) /\
    (forall e s, dict_get (dict z) e = Some s <-> In (s, e) (zsl z)) /\
    NoDup (map member (zsl z)).
Proof. exact dict_in_step. Qed.
Print Assumptions c11_dict_in_step.

(* no call of any history dereferences nil (Add's znode.Ele after a failed Delete, the walks
   of GetRange) *)
Theorem c11_no_runtime_panic :
  forall ops : list op, ~ In OCrash (snd (run empty ops)).
Proof. exact no_runtime_panic. Qed.
Print Assumptions c11_no_runtime_panic.

(* stage 2 (partial): the express lanes.  For EVERY assignment of heights 1..levels to the
   nodes of a strictly sorted chain and every search predicate that is downward closed in the
   (score, member) order — those of Insert/Delete (before), GetRank (before_eq),
   DeleteRangeByScore/FirstInRange (score < min), LastInRange (score <= max) are — the
   top-down search over the lanes, with forward links to the next node of sufficient height and
   spans = distances (what Run.v validates on every probe), ends at the same node and with the
   same summed rank as the level-0 scan the stage-1 model uses. *)
Theorem c11_lane_search_eq_scan :
  forall (P : entry -> bool) (levels : nat) (nodes : list (nat * entry)),
    ssorted (map snd nodes) -> downward P ->
    Forall (fun n => (1 <= fst n <= levels)%nat) nodes ->
    search P levels 0 nodes = scan P 0 nodes.
Proof. exact zset_lane_search. Qed.
Print Assumptions c11_lane_search_eq_scan.

Theorem c11_search_predicates_downward :
  forall s e m : Z,
    downward (fun x => before x s e) /\ downward (fun x => before_eq x s e) /\
    downward (fun x => score x <? m) /\ downward (fun x => score x <=? m).
Proof.
  intros s e m. split; [exact (downward_before s e)|]. split; [exact (downward_before_eq s e)|].
  split; [exact (downward_score_lt m)|exact (downward_score_le m)].
Qed.
Print Assumptions c11_search_predicates_downward.

Example c11_example_lanes :
  let nodes : list (nat * entry) :=
    [(1%nat, (10, 1)); (3%nat, (10, 4)); (1%nat, (20, 2)); (2%nat, (20, 7)); (1%nat, (30, 3))] in
  search (fun x => before x 20 7) 3 0 nodes = (3%nat, [(2%nat, (20, 7)); (1%nat, (30, 3))]) /\
  scan (fun x => before x 20 7) 0 nodes = (3%nat, [(2%nat, (20, 7)); (1%nat, (30, 3))]).
Proof. vm_compute. split; reflexivity. Qed.

(* stage 2: the real skip list.  C11/LaneModel.v transcribes zskiplist.go with its express
   lanes: a heap of nodes with per-level forward references and spans, backward references,
   tail, length, level; Insert / deleteNode / Delete / the range deletions with the code's
   update[] and rank[] arrays and span arithmetic; node heights come from an oracle list.
   For ALL operation sequences and ALL height oracles the structural invariant LInv holds
   (C11/LaneSearch.v: distinct members; every height between 1 and zsl.level; in every lane i
   below zsl.level the forward reference of a node is the next node of height > i and its span
   the rank distance, the last node of a lane has forward nil and span = the number of nodes
   after it; header levels above zsl.level have forward nil; backward references, tail and
   length), zsl.level is the largest height (LTight), the level-0 chain is exactly the list of
   the stage-1 model and the member table is the stage-1 table — hence, with
   c11_refines_ranking, the chain is the reference ranking. *)
Theorem c11_lane_invariant :
  forall (orc : list nat) (ops : list op),
    let l := fst (lrun (lzempty orc) ops) in
    let z0 := fst (run empty ops) in
    exists L, LInv (lz l) L /\ LTight (lz l) L /\ map ent L = zsl z0 /\ ldict l = dict z0.
Proof. exact lane_model_invariant. Qed.
Print Assumptions c11_lane_invariant.

(* the two pointer-surgery lemmas behind it, for every height and every position *)
Theorem c11_insert_preserves_lanes :
  forall z A B s e h0,
    LInv z (A ++ B) -> LTight z (A ++ B) ->
    holds_from (Pins s e) 0 A -> fails_from (Pins s e) (Z.of_nat (length A)) B ->
    ~ In e (map le (A ++ B)) ->
    exists z', linsert z s e h0 = Some z' /\
      LInv z' (A ++ mkN s e (clamp_height h0) :: B) /\ LTight z' (A ++ mkN s e (clamp_height h0) :: B).
Proof. exact linsert_ok. Qed.
Print Assumptions c11_insert_preserves_lanes.

Theorem c11_delete_node_preserves_lanes :
  forall z A xn B a,
    LInv z (A ++ xn :: B) -> (forall j, (j < llevel z)%nat -> arr_get a j = upd_of A j) ->
    exists z', ldelete_node z (le xn) a = Some z' /\ LInv z' (A ++ B) /\ LTight z' (A ++ B) /\
               (llevel z' <= llevel z)%nat.
Proof. exact ldelete_node_ok. Qed.
Print Assumptions c11_delete_node_preserves_lanes.

(* the lane model returns what the stage-1 model returns, for every call (Add, Remove, the
   range removals, Count, GetRank with its early exit, GetScore, GetRange through
   GetElementByRank and the forward/backward walks, GetRangeByScore through First/LastInRange),
   for ALL operation sequences and ALL height oracles ... *)
Theorem c11_lane_results :
  forall (orc : list nat) (ops : list op),
    snd (lrun (lzempty orc) ops) = snd (run empty ops).
Proof. exact lane_model_results. Qed.
Print Assumptions c11_lane_results.

(* ... hence c11_refines_ranking holds for the real skip list too: lane model -> level-0 model
   -> reference ranking *)
Theorem c11_lane_refines_ranking :
  forall (orc : list nat) (ops : list op),
    snd (lrun (lzempty orc) ops) = snd (spec_run [] ops).
Proof. exact lane_model_refines_ranking. Qed.
Print Assumptions c11_lane_refines_ranking.

Example c11_example_lane_model :
  let ops := [Add 1 10; Add 2 20; Add 3 30; Add 4 20; Count 10 20; GetRank 4 false; GetRange (-2) (-1) true;
              RemByScore 10 20; Len; Add 3 5; RemByRank (-1) (-1); GetRangeByScore 0 9 false] in
  snd (lrun (lzempty [2; 1; 4; 1; 3]%nat) ops) = snd (run empty ops) /\
  llevel (lz (fst (lrun (lzempty [2; 1; 4; 1; 3]%nat) ops))) = 1%nat.
Proof. vm_compute. split; reflexivity. Qed.

(* what must NOT change.  Queries (Count, GetRank, GetScore, GetRange, GetRangeByScore, Len)
   leave the whole state untouched — the heap with all its lanes, the member table, even the
   unused heights — in the lane model, the level-0 model and the reference: a history and the
   same history without its queries end in the same state *)
Theorem c11_queries_change_nothing :
  forall (orc : list nat) (ops : list op),
    fst (lrun (lzempty orc) ops) = fst (lrun (lzempty orc) (filter mutating ops)) /\
    fst (run empty ops) = fst (run empty (filter mutating ops)) /\
    fst (spec_run [] ops) = fst (spec_run [] (filter mutating ops)).
Proof. exact queries_change_nothing. Qed.
Print Assumptions c11_queries_change_nothing.

(* Add and Remove change exactly the entry of their member (after any history) ... *)
Theorem c11_add_remove_exact :
  forall (ops : list op) (e s : Z),
    let z := fst (run empty ops) in
    (forall x, In x (zsl (fst (add z e s))) <-> x = (s, e) \/ (In x (zsl z) /\ member x <> e)) /\
    (forall x, In x (zsl (fst (remove z e))) <-> In x (zsl z) /\ member x <> e).
Proof. exact add_remove_exact. Qed.
Print Assumptions c11_add_remove_exact.

(* ... RemoveRangeByRank removes exactly the ranks of the normalised range, returns their
   number and keeps the rest in order (for RemoveRangeByScore see c11_inclusive_ends) *)
Theorem c11_remove_by_rank_exact :
  forall (z : zset) (start stop : Z),
    let '(z', o) := rem_by_rank z start stop in
    match norm_range (zlen (zsl z)) start stop with
    | None => zsl z' = zsl z /\ o = OInt 0
    | Some (a, b) =>
        zsl z' = firstn (Z.to_nat a) (zsl z) ++ skipn (Z.to_nat (b + 1)) (zsl z) /\ o = OInt (b - a + 1)
    end.
Proof. exact remove_by_rank_exact. Qed.
Print Assumptions c11_remove_by_rank_exact.

(* the level-0 forward references from the header visit the reference ranking, the backward
   references from the tail its reverse (what HeadNode/Next and TailNode/Before walk) *)
Theorem c11_walks_are_ranking :
  forall (orc : list nat) (ops : list op),
    let l := lz (fst (lrun (lzempty orc) ops)) in
    let R := ranking (fst (spec_run [] ops)) in
    exists x, next0 l Head = Some x /\
              lwalk l false x (length R) = Some (map member R) /\
              lwalk l true (ltail l) (length R) = Some (rev (map member R)).
Proof. exact walks_are_ranking. Qed.
Print Assumptions c11_walks_are_ranking.

Example c11_example_exact :
  let ops := [Add 1 10; Add 2 20; Count 0 50; Add 3 30; GetRank 2 true; Add 4 20; GetRange 0 (-1) false] in
  filter mutating ops = [Add 1 10; Add 2 20; Add 3 30; Add 4 20] /\
  zsl (fst (rem_by_rank (fst (run empty ops)) (-3) 5)) = [(10, 1)] /\
  lwalk (lz (fst (lrun (lzempty [3; 1; 2; 1]%nat) ops))) true (ltail (lz (fst (lrun (lzempty [3; 1; 2; 1]%nat) ops)))) 4
    = Some [3; 4; 2; 1].
Proof. vm_compute. repeat split; reflexivity. Qed.

(* non-vacuity: the history of defect 20 — scores {10, 20, 30}, RemoveRangeByScore(10, 20)
   removes the two members at 10 and 20 — and ties, negative ranks, reverse ranges *)
Example c11_example :
  let ops := [Add 1 10; Add 2 20; Add 3 30; Add 4 20; Count 10 20; GetRank 4 false; GetRank 4 true;
              GetRange (-2) (-1) false; GetRange 0 9 true; GetRangeByScore 20 30 true;
              RemByScore 10 20; Len; Add 3 5; RemByRank (-1) (-1); GetScore 3] in
  snd (run empty ops) =
    [OBool true; OBool true; OBool true; OBool true; OInt 3; OInt 2; OInt 1;
     OList [4; 3]; OList [3; 4; 2; 1]; OList [3; 4; 2];
     OInt 3; OInt 1; OBool true; OInt 1; OInt 0] /\
  snd (run empty ops) = snd (spec_run [] ops).
Proof. vm_compute. split; reflexivity. Qed.

(* ------------------------------------------------------------------------------------------
   Tie to the source (C11/Source.v): the index normalisation the model transcribes "line by
   line" is the one tools/gofunc regenerates from the first statements of SortedSet.GetRange /
   SortedSet.RemoveRangeByRank in zset.go on every run (Generated/ZSet.v, fragments
   "F#prefix"): the model's functions are "run the translated fragment, continue with what it
   hands on"; if these statements change in the source, these obligations are re-checked. *)
From FV Require Import Generated.ZSet Lib.GoSem C11.Source.

Theorem c11_src_get_range : forall z start stop reverse,
  zlen (zsl z) < 2 ^ 60 -> - 2 ^ 60 < start < 2 ^ 60 -> - 2 ^ 60 < stop < 2 ^ 60 ->
  get_range z start stop reverse =
  match go_SortedSet_GetRange_prefix (zlen (zsl z)) start stop reverse with
  | Returned _ _ => OList []
  | Reached (start', stop', reverse', llen, rangeLen) => get_range_rest z reverse' start' llen rangeLen
  end.
Proof. exact src_get_range. Qed.
Print Assumptions c11_src_get_range.

Theorem c11_src_rem_by_rank : forall z start stop,
  zlen (zsl z) < 2 ^ 60 -> - 2 ^ 60 < start < 2 ^ 60 -> - 2 ^ 60 < stop < 2 ^ 60 ->
  rem_by_rank z start stop =
  match go_SortedSet_RemoveRangeByRank_prefix (zlen (zsl z)) start stop with
  | Returned _ _ => (z, OInt 0)
  | Reached (start', stop', llen) => rem_by_rank_rest z start' stop'
  end.
Proof. exact src_rem_by_rank. Qed.
Print Assumptions c11_src_rem_by_rank.

(* the source's normalisation hands on a valid, non-empty window of ranks *)
Theorem c11_src_window : forall n start stop reverse s e r llen rl,
  0 <= n < 2 ^ 60 -> - 2 ^ 60 < start < 2 ^ 60 -> - 2 ^ 60 < stop < 2 ^ 60 ->
  go_SortedSet_GetRange_prefix n start stop reverse = Reached (s, e, r, llen, rl) ->
  0 <= s <= e /\ e < n /\ llen = n /\ rl = e - s + 1 /\ r = reverse.
Proof. exact src_window. Qed.
Print Assumptions c11_src_window.
