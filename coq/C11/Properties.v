From Coq Require Import ZArith List Bool.
From FV Require Import C11.Spec C11.Model C11.Proofs.
Import ListNotations.
Open Scope Z_scope.
