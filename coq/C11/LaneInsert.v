(* C11, stage 2 — Insert preserves the structural invariant, for every height. *)
From Coq Require Import ZArith List Bool Lia.
From FV Require Import Generated.Consts C11.Spec C11.Model C11.LaneModel C11.LaneHeap C11.LaneInv
  C11.LaneSearch C11.LaneLoops.
Import ListNotations.
Open Scope Z_scope.

Lemma maxlevel_val : maxlevel = 12%nat.
Proof. reflexivity. Qed.

Lemma clamp_height_range h : (1 <= clamp_height h <= maxlevel)%nat.
Proof. unfold clamp_height. rewrite maxlevel_val. lia. Qed.

Lemma cell_set_level z l r j : cell (set_level z l) r j = cell z r j.
Proof. destruct r; reflexivity. Qed.

Lemma cell_set_tail z t r j : cell (set_tail z t) r j = cell z r j.
Proof. destruct r; reflexivity. Qed.

Lemma cell_set_len z n r j : cell (set_len z n) r j = cell z r j.
Proof. destruct r; reflexivity. Qed.

Lemma nth_repeat_lt {X} (x d : X) m : forall n, (n < m)%nat -> nth n (repeat x m) d = x.
Proof.
  induction m as [|m IH]; intros n H; [lia|]. destruct n; simpl; [reflexivity|]. apply IH. lia.
Qed.

(* every node of the chain is in lane 0 *)
Lemma lane_end_zero A : Forall (fun n => (1 <= lh n)%nat) A -> forall cur d,
  lane_end 0 cur d A = (match rev A with [] => cur | n :: _ => nref n end, match A with [] => d | _ => 0 end).
Proof.
  induction 1 as [|n t Hn _ IH]; intros cur d; simpl.
  - reflexivity.
  - destruct (Nat.ltb_spec 0 (lh n)); [|lia]. rewrite IH.
    destruct t as [|m t']; [reflexivity|].
    f_equal. simpl. destruct (rev t' ++ [m]) eqn:E.
    + apply (f_equal (@length lnode)) in E. rewrite app_length in E. simpl in E. lia.
    + simpl. reflexivity.
Qed.

Lemma upd_of_zero A : Forall (fun n => (1 <= lh n)%nat) A ->
  upd_of A 0 = (match rev A with [] => Head | n :: _ => nref n end, Z.of_nat (length A)).
Proof.
  intros H. unfold upd_of. rewrite (lane_end_zero A H). simpl. f_equal. destruct A; lia.
Qed.

(* the cell of update[j] exists *)
Lemma upd_cell z A B j : LInv z (A ++ B) -> (j < llevel z)%nat ->
  exists cu, cell z (fst (upd_of A j)) j = Some cu.
Proof.
  intros HI Hj. pose proof (inv_lanes z _ HI j Hj) as Hl.
  apply lane_ok_app in Hl. destruct Hl as [_ Hl].
  destruct (lane_ok_cell _ _ _ _ _ Hl) as [cu Hcu]. exists cu. exact Hcu.
Qed.

Lemma upd_not_fresh A j e : ~ In e (map le A) -> fst (upd_of A j) <> Node e.
Proof.
  intros Hf. unfold upd_of. simpl.
  destruct (lane_end_in j A Head 0) as [E|(m & Hm & E)]; rewrite E; [discriminate|].
  intros E'. unfold nref in E'. injection E' as E'. apply Hf. rewrite <- E'. apply in_map. exact Hm.
Qed.

(* ---------------------------------------------------------------- raising the level *)
Lemma raise_ok z A B h a0 : LInv z (A ++ B) -> (1 <= h <= maxlevel)%nat ->
  length a0 = llevel z -> (forall j, (j < llevel z)%nat -> arr_get a0 j = upd_of A j) ->
  exists z1 a,
    (if Nat.ltb (llevel z) h
     then let '(z', a') := raise_levels z a0 (llevel z) (h - llevel z) in (set_level z' h, a')
     else (z, a0)) = (z1, a) /\
    LInv z1 (A ++ B) /\ llevel z1 = Nat.max (llevel z) h /\
    (forall j, (j < llevel z1)%nat -> arr_get a j = upd_of A j) /\
    (forall e, nsc z1 e = nsc z e) /\ (forall e, nbk z1 e = nbk z e) /\ (forall e, nht z1 e = nht z e) /\
    ltail z1 = ltail z /\ llen z1 = llen z.
Proof.
  intros HI Hh Hlen Harr.
  destruct (Nat.ltb_spec (llevel z) h) as [Hlt|Hge].
  2:{ exists z, a0. split; [reflexivity|]. split; [exact HI|]. split; [lia|]. repeat split; auto. }
  pose proof (inv_level z _ HI) as Hlv.
  destruct (raise_levels_spec (h - llevel z) z a0 (llevel z)) as (z' & E & Hs & Hcells).
  { intros j Hj. destruct (inv_top z _ HI j ltac:(lia)) as [sp Hsp]. eauto. }
  rewrite E. exists (set_level z' h), (a0 ++ repeat (Head, 0) (h - llevel z)).
  split; [reflexivity|].
  destruct Hs as (S1 & S2 & S3 & S4 & S5 & S6 & S7).
  assert (Hcell_old : forall r j, (j < llevel z)%nat -> cell z' r j = cell z r j).
  { intros r j Hj. rewrite Hcells. replace (in_range (llevel z) (h - llevel z) j) with false; [rewrite andb_false_r; reflexivity|].
    symmetry. apply not_true_is_false. intros H. apply in_range_spec in H. lia. }
  assert (Hcell_new : forall j, (llevel z <= j < h)%nat -> cell z' Head j = Some (mkLvl Nil (llen z))).
  { intros j Hj. rewrite Hcells. simpl ref_eqb.
    replace (in_range (llevel z) (h - llevel z) j) with true by (symmetry; apply in_range_spec; lia).
    simpl. destruct (inv_top z _ HI j ltac:(lia)) as [sp Hsp]. unfold cell_or. rewrite Hsp. reflexivity. }
  assert (Hcell_top : forall r j, (h <= j)%nat -> cell z' r j = cell z r j).
  { intros r j Hj. rewrite Hcells. replace (in_range (llevel z) (h - llevel z) j) with false; [rewrite andb_false_r; reflexivity|].
    symmetry. apply not_true_is_false. intros H. apply in_range_spec in H. lia. }
  assert (Hheights : Forall (fun n => (lh n <= llevel z)%nat) (A ++ B)).
  { eapply Forall_impl; [|exact (inv_heights z _ HI)]. simpl. intros; lia. }
  split.
  { constructor.
    - exact (inv_nodup z _ HI).
    - eapply Forall_impl; [|exact (inv_heights z _ HI)]. simpl. intros; lia.
    - simpl. lia.
    - simpl. rewrite S7. exact (inv_hlv z _ HI).
    - eapply Forall_impl; [|exact (inv_nodes z _ HI)]. intros n [H1 H2]. split.
      + change (nsc (set_level z' h) (le n)) with (nsc z' (le n)). rewrite S1. exact H1.
      + change (nht (set_level z' h) (le n)) with (nht z' (le n)). rewrite S3. exact H2.
    - intros j Hj. simpl in Hj.
      destruct (Nat.lt_ge_cases j (llevel z)) as [Hjl|Hjl].
      + apply (lane_ok_ext (col z j) _ j).
        * unfold col. rewrite cell_set_level. symmetry. apply Hcell_old. exact Hjl.
        * intros n _. unfold col. rewrite cell_set_level. symmetry. apply Hcell_old. exact Hjl.
        * apply (inv_lanes z _ HI). exact Hjl.
      + apply lane_ok_low.
        * eapply Forall_impl; [|exact Hheights]. simpl. intros; lia.
        * unfold col. rewrite cell_set_level. rewrite Hcell_new by lia.
          rewrite (inv_len z _ HI). reflexivity.
    - intros j Hj. simpl in Hj. rewrite cell_set_level, Hcell_top by lia.
      apply (inv_top z _ HI). lia.
    - assert (Hb : forall prev L, back_ok z prev L -> back_ok (set_level z' h) prev L).
      { intros prev L. revert prev. induction L as [|n t IH]; intros prev; simpl; [auto|].
        intros [H1 H2]. split; [|auto].
        change (nbk (set_level z' h) (le n)) with (nbk z' (le n)). rewrite S2. exact H1. }
      apply Hb. exact (inv_back z _ HI).
    - simpl. rewrite S4. exact (inv_tail z _ HI).
    - simpl. rewrite S5. exact (inv_len z _ HI). }
  split; [simpl; lia|]. split.
  { intros j Hj. simpl in Hj. unfold arr_get.
    destruct (Nat.lt_ge_cases j (llevel z)) as [Hjl|Hjl].
    - rewrite app_nth1 by lia. apply Harr. exact Hjl.
    - rewrite app_nth2 by lia. rewrite nth_repeat_lt.
      + unfold upd_of. rewrite lane_end_low.
        * simpl. f_equal. lia.
        * apply Forall_app in Hheights. destruct Hheights as [HA _].
          eapply Forall_impl; [|exact HA]. simpl. intros; lia.
      + rewrite Hlen. lia. }
  repeat split; auto.
Qed.

(* ---------------------------------------------------------------- backward links, tail *)
Definition last_or (prev : ref) (X : list lnode) : ref :=
  match rev X with [] => prev | n :: _ => nref n end.

Lemma last_or_snoc prev X n : last_or prev (X ++ [n]) = nref n.
Proof. unfold last_or. rewrite rev_app_distr. reflexivity. Qed.

Lemma last_or_cons prev n X : last_or prev (n :: X) = last_or (nref n) X.
Proof.
  unfold last_or. simpl. destruct (rev X) as [|m r] eqn:E; simpl; reflexivity.
Qed.

Lemma back_ok_app z X Y : forall prev,
  back_ok z prev (X ++ Y) <-> back_ok z prev X /\ back_ok z (last_or prev X) Y.
Proof.
  induction X as [|n t IH]; intros prev.
  - simpl. unfold last_or. simpl. tauto.
  - simpl app. simpl back_ok. rewrite IH, last_or_cons. tauto.
Qed.

Lemma back_ok_ext z z' L : forall prev,
  (forall n, In n L -> nbk z' (le n) = nbk z (le n)) -> back_ok z prev L -> back_ok z' prev L.
Proof.
  induction L as [|n t IH]; intros prev Hfr; simpl; [auto|].
  intros [H1 H2]. split.
  - rewrite Hfr by (left; reflexivity). exact H1.
  - apply IH; [|exact H2]. intros m Hm. apply Hfr. right. exact Hm.
Qed.

Lemma last_ref_last_or L : last_ref L = last_or Nil L.
Proof. reflexivity. Qed.

Lemma last_or_app_nonempty prev X Y : Y <> [] -> last_or prev (X ++ Y) = last_or prev Y.
Proof.
  intros H. unfold last_or. rewrite rev_app_distr.
  destruct (rev Y) as [|m r] eqn:E; [|reflexivity].
  exfalso. apply H. rewrite <- (rev_involutive Y), E. reflexivity.
Qed.

(* the level-0 forward reference of update[0] *)
Lemma lane0_next z A B : LInv z (A ++ B) ->
  cell z (fst (upd_of A 0)) 0 =
  Some (mkLvl (match B with [] => Nil | f :: _ => nref f end) (match B with [] => 0 | _ => 1 end)).
Proof.
  intros HI. pose proof (inv_level z _ HI) as Hlv.
  pose proof (inv_lanes z _ HI 0%nat ltac:(lia)) as Hl.
  apply lane_ok_app in Hl. destruct Hl as [_ Hl].
  assert (HhA : Forall (fun n => (1 <= lh n)%nat) A).
  { pose proof (inv_heights z _ HI) as H. apply Forall_app in H. destruct H as [H _].
    eapply Forall_impl; [|exact H]. simpl. intros; lia. }
  assert (Hd : snd (lane_end 0 Head 0 A) = 0).
  { rewrite (lane_end_zero A HhA). simpl. destruct A; reflexivity. }
  rewrite Hd in Hl. unfold upd_of. cbn [fst].
  destruct B as [|f t]; simpl in Hl.
  - exact Hl.
  - assert (Hf : (1 <= lh f)%nat).
    { pose proof (inv_heights z _ HI) as H. apply Forall_app in H. destruct H as [_ H].
      inversion H; subst. lia. }
    destruct (Nat.ltb_spec 0 (lh f)); [|lia]. destruct Hl as [Hl _]. exact Hl.
Qed.

Lemma upd0_is_last A : Forall (fun n => (1 <= lh n)%nat) A -> fst (upd_of A 0) = last_or Head A.
Proof. intros H. rewrite (upd_of_zero A H). reflexivity. Qed.

(* ---------------------------------------------------------------- Insert *)
Definition Pins (s e : Z) : Z -> Z -> Z -> bool := fun _ s' e' => before (s', e') s e.

Theorem linsert_ok z A B s e h0 :
  LInv z (A ++ B) -> LTight z (A ++ B) ->
  holds_from (Pins s e) 0 A -> fails_from (Pins s e) (Z.of_nat (length A)) B ->
  ~ In e (map le (A ++ B)) ->
  exists z', linsert z s e h0 = Some z' /\
    LInv z' (A ++ mkN s e (clamp_height h0) :: B) /\
    LTight z' (A ++ mkN s e (clamp_height h0) :: B).
Proof.
  intros HI HT Hh Hf Hfresh.
  set (h := clamp_height h0). pose proof (clamp_height_range h0) as Hhr. fold h in Hhr.
  set (x := mkN s e h). set (k := Z.of_nat (length A)).
  unfold linsert. fold h. change (fun _ s' e' : Z => before (s', e') s e) with (Pins s e).
  destruct (search_all z A B (Pins s e) HI Hh Hf) as (a0 & -> & Hlen0 & Harr0).
  destruct (raise_ok z A B h a0 HI Hhr Hlen0 Harr0) as (z1 & a & -> & HI1 & Hlv1 & Harr & N1 & N2 & N3 & N4 & N5).
  pose proof (inv_level z1 _ HI1) as Hlvb.
  assert (HfreshA : ~ In e (map le A)).
  { intros H. apply Hfresh. rewrite map_app. apply in_or_app. auto. }
  assert (HhA : Forall (fun n => (1 <= lh n)%nat) A).
  { pose proof (inv_heights z1 _ HI1) as H. apply Forall_app in H. destruct H as [H _].
    eapply Forall_impl; [|exact H]. simpl. intros; lia. }
  assert (Hr0 : snd (arr_get a 0) = k).
  { rewrite Harr by lia. rewrite (upd_of_zero A HhA). reflexivity. }
  rewrite Hr0.
  assert (Hu0 : fst (arr_get a 0) = last_or Head A).
  { rewrite Harr by lia. apply upd0_is_last. exact HhA. }
  set (z2 := mkL (hlv z1) (hput (lheap z1) e (mkNode s Nil (repeat (mkLvl Nil 0) h)))
                 (ltail z1) (llen z1) (llevel z1)).
  assert (C2a : forall j, (j < h)%nat -> cell z2 (Node e) j = Some (mkLvl Nil 0)).
  { intros j Hj. simpl. rewrite hget_hput_same. simpl. apply nth_error_repeat. exact Hj. }
  assert (C2c : forall r j, r <> Node e -> cell z2 r j = cell z1 r j).
  { intros r j Hr. destruct r as [| |e']; simpl; try reflexivity.
    rewrite hget_hput_other by congruence. reflexivity. }
  assert (Hupd : forall j, (j < llevel z1)%nat -> fst (arr_get a j) <> Node e).
  { intros j Hj. rewrite Harr by exact Hj. apply upd_not_fresh. exact HfreshA. }
  assert (Hucell : forall j, (j < llevel z1)%nat -> exists cu, cell z1 (fst (arr_get a j)) j = Some cu).
  { intros j Hj. rewrite Harr by exact Hj. apply (upd_cell z1 A B j HI1 Hj). }
  (* link the new node in lanes 0 .. h-1 *)
  destruct (link_levels_spec e a k h z2 0) as (z3 & -> & S3 & Hc3).
  { intros j Hj. split; [|split].
    - destruct (Hucell j ltac:(lia)) as [cu Hcu]. exists cu. rewrite C2c by (apply Hupd; lia). exact Hcu.
    - eexists. apply C2a. lia.
    - apply Hupd. lia. }
  assert (Hlv3 : llevel z3 = llevel z1) by (destruct S3 as (_ & _ & _ & _ & _ & H & _); exact H).
  rewrite Hlv3.
  (* longer spans in the lanes above *)
  destruct (bump_levels_spec a (llevel z1 - h) z3 h) as (z4 & -> & S4 & Hc4).
  { intros j Hj. destruct (Hucell j ltac:(lia)) as [cu Hcu]. exists cu.
    rewrite Hc3. replace (in_range 0 h j) with false.
    - rewrite C2c by (apply Hupd; lia). exact Hcu.
    - symmetry. apply not_true_is_false. intros H. apply in_range_spec in H. lia. }
  set (b0 := match fst (arr_get a 0) with Head => Nil | _ => fst (arr_get a 0) end).
  set (z5 := set_back z4 e b0).
  (* the cell of the new node in lane 0 *)
  pose proof (lane0_next z1 A B HI1) as Hnext. rewrite <- (Harr 0%nat ltac:(lia)) in Hnext.
  set (fB := match B with [] => Nil | f :: _ => nref f end) in *.
  assert (Hc0 : cell z5 (Node e) 0 = Some (mkLvl fB ((match B with [] => 0 | _ => 1 end) - (k - k)))).
  { unfold z5. rewrite cell_set_back, Hc4.
    replace (in_range h (llevel z1 - h) 0) with false
      by (symmetry; apply not_true_is_false; intros H; apply in_range_spec in H; lia).
    cbn [andb]. rewrite Hc3.
    replace (in_range 0 h 0) with true by (symmetry; apply in_range_spec; lia).
    destruct (ref_eqb_spec (Node e) (Node e)); [|congruence].
    unfold cell_or. rewrite C2c by (apply Hupd; lia). rewrite Hnext. cbn [fwd span]. rewrite Hr0. reflexivity. }
  rewrite Hc0. cbn [fwd].
  set (z6 := match fB with Node f => set_back z5 f (Node e) | _ => set_tail z5 (Node e) end).
  exists (set_len z6 (llen z6 + 1)). split; [reflexivity|].
  set (z' := set_len z6 (llen z6 + 1)).
  (* cells of the result *)
  assert (Hcell' : forall r j, cell z' r j = cell z4 r j).
  { intros r j. unfold z'. rewrite cell_set_len. unfold z6.
    destruct fB; rewrite ?cell_set_tail, ?cell_set_back; unfold z5; apply cell_set_back. }
  assert (Hcell_low : forall j, (j < h)%nat -> forall r,
            cell z' r j = if ref_eqb r (Node e)
                          then Some (mkLvl (fwd (cell_or z1 (fst (upd_of A j)) j))
                                           (span (cell_or z1 (fst (upd_of A j)) j) - (k - snd (upd_of A j))))
                          else if ref_eqb r (fst (upd_of A j))
                               then Some (mkLvl (Node e) (k - snd (upd_of A j) + 1))
                               else cell z1 r j).
  { intros j Hj r. rewrite Hcell', Hc4.
    replace (in_range h (llevel z1 - h) j) with false
      by (symmetry; apply not_true_is_false; intros H; apply in_range_spec in H; lia).
    cbn [andb]. rewrite Hc3.
    replace (in_range 0 h j) with true by (symmetry; apply in_range_spec; lia).
    rewrite (Harr j ltac:(lia)).
    destruct (ref_eqb_spec r (Node e)) as [->|Hre].
    - unfold cell_or. rewrite C2c by (rewrite <- (Harr j ltac:(lia)); apply Hupd; lia). reflexivity.
    - destruct (ref_eqb r (fst (upd_of A j))); [reflexivity|]. apply C2c. exact Hre. }
  assert (Hcell_high : forall j, (h <= j < llevel z1)%nat -> forall r,
            cell z' r j = if ref_eqb r (fst (upd_of A j))
                          then Some (mkLvl (fwd (cell_or z1 r j)) (span (cell_or z1 r j) + 1))
                          else if ref_eqb r (Node e) then None else cell z1 r j).
  { intros j Hj r. rewrite Hcell', Hc4.
    replace (in_range h (llevel z1 - h) j) with true by (symmetry; apply in_range_spec; lia).
    cbn [andb]. rewrite (Harr j ltac:(lia)).
    assert (Hz3 : forall r', cell z3 r' j = cell z2 r' j).
    { intros r'. rewrite Hc3. replace (in_range 0 h j) with false; [reflexivity|].
      symmetry. apply not_true_is_false. intros H. apply in_range_spec in H. lia. }
    destruct (ref_eqb_spec r (fst (upd_of A j))) as [->|Hru].
    - unfold cell_or. rewrite Hz3. rewrite C2c by (rewrite <- (Harr j ltac:(lia)); apply Hupd; lia). reflexivity.
    - rewrite Hz3. destruct (ref_eqb_spec r (Node e)) as [->|Hre]; [|apply C2c; exact Hre].
      simpl. rewrite hget_hput_same. simpl. apply nth_error_None. rewrite repeat_length. lia. }
  assert (Hcell_top : forall j, (llevel z1 <= j)%nat -> forall r, r <> Node e -> cell z' r j = cell z1 r j).
  { intros j Hj r Hr. rewrite Hcell', Hc4.
    replace (in_range h (llevel z1 - h) j) with false
      by (symmetry; apply not_true_is_false; intros H; apply in_range_spec in H; lia).
    cbn [andb]. rewrite Hc3. replace (in_range 0 h j) with false
      by (symmetry; apply not_true_is_false; intros H; apply in_range_spec in H; lia).
    apply C2c. exact Hr. }
  (* node observers of the result *)
  assert (Hobs4 : (forall e', nsc z4 e' = nsc z2 e') /\ (forall e', nbk z4 e' = nbk z2 e') /\
                  (forall e', nht z4 e' = nht z2 e') /\ ltail z4 = ltail z1 /\ llen z4 = llen z1 /\
                  llevel z4 = llevel z1 /\ length (hlv z4) = length (hlv z1)).
  { destruct S3 as (A1 & A2 & A3 & A4 & A5 & A6 & A7). destruct S4 as (B1 & B2 & B3 & B4 & B5 & B6 & B7).
    repeat split; intros; try congruence;
      rewrite ?B4, ?A4, ?B5, ?A5, ?B6, ?A6, ?B7, ?A7; reflexivity. }
  destruct Hobs4 as (O1 & O2 & O3 & O4 & O5 & O6 & O7).
  assert (Hnsc' : forall e', nsc z' e' = nsc z2 e').
  { intros e'. unfold z', z6. change (nsc (set_len ?y ?n) e') with (nsc y e').
    destruct fB; [change (nsc (set_tail ?y ?t) e') with (nsc y e')..|rewrite nsc_set_back];
      unfold z5; rewrite nsc_set_back; apply O1. }
  assert (Hnht' : forall e', nht z' e' = nht z2 e').
  { intros e'. unfold z', z6. change (nht (set_len ?y ?n) e') with (nht y e').
    destruct fB; [change (nht (set_tail ?y ?t) e') with (nht y e')..|rewrite nht_set_back];
      unfold z5; rewrite nht_set_back; apply O3. }
  assert (Hobs2 : forall e', e' <> e -> nsc z2 e' = nsc z1 e' /\ nht z2 e' = nht z1 e' /\ nbk z2 e' = nbk z1 e').
  { intros e' Hne. unfold nsc, nht, nbk, z2. simpl. rewrite hget_hput_other by exact Hne. auto. }
  assert (Hobs2e : nsc z2 e = Some s /\ nht z2 e = Some h /\ nbk z2 e = Some Nil).
  { unfold nsc, nht, nbk, z2. simpl. rewrite hget_hput_same. simpl. rewrite repeat_length. auto. }
  assert (Hmem : forall n, In n (A ++ B) -> le n <> e).
  { intros n Hn E. apply Hfresh. rewrite <- E. apply in_map. exact Hn. }
  pose proof (inv_nodup z1 _ HI1) as Hnd.
  assert (M5 : ltail z5 = ltail z1 /\ llen z5 = llen z1 /\ llevel z5 = llevel z1 /\ length (hlv z5) = length (hlv z1)).
  { unfold z5. destruct (misc_set_back z4 e b0) as (H1 & H2 & H3 & H4). rewrite H1, H2, H3, H4. auto. }
  destruct M5 as (T5 & L5 & V5 & H5).
  assert (M6 : llen z6 = llen z1 /\ llevel z6 = llevel z1 /\ length (hlv z6) = length (hlv z1)).
  { unfold z6. destruct fB as [| |f0]; [auto..|].
    destruct (misc_set_back z5 f0 (Node e)) as (H1 & H2 & H3 & H4). rewrite H2, H3, H4. auto. }
  destruct M6 as (L6 & V6 & H6).
  assert (Hl6 : llevel z' = llevel z1) by exact V6.
  split.
  { constructor.
    - (* distinct members *)
      rewrite map_app. simpl. apply NoDup_Add with (a := e) (l := map le A ++ map le B).
      + apply Add_app.
      + rewrite <- map_app. constructor; assumption.
    - (* heights *)
      rewrite Hl6.
      apply Forall_app. pose proof (inv_heights z1 _ HI1) as H. apply Forall_app in H. destruct H as [H1 H2].
      split; [exact H1|]. constructor; [simpl; lia|exact H2].
    - rewrite Hl6. lia.
    - change (hlv z') with (hlv z6). rewrite H6. exact (inv_hlv z1 _ HI1).
    - (* scores and heights of the nodes *)
      apply Forall_app. pose proof (inv_nodes z1 _ HI1) as H. apply Forall_app in H. destruct H as [H1 H2].
      assert (Hkeep : forall n, In n (A ++ B) -> node_ok z1 n -> node_ok z' n).
      { intros n Hn [Hs Hht]. destruct (Hobs2 (le n) (Hmem n Hn)) as (E1 & E2 & _).
        split; [rewrite Hnsc', E1; exact Hs|rewrite Hnht', E2; exact Hht]. }
      split.
      + rewrite Forall_forall in H1 |- *. intros n Hn. apply Hkeep; [apply in_or_app; auto|auto].
      + constructor.
        * destruct Hobs2e as (E1 & E2 & _). split; [rewrite Hnsc'; exact E1|rewrite Hnht'; exact E2].
        * rewrite Forall_forall in H2 |- *. intros n Hn. apply Hkeep; [apply in_or_app; auto|auto].
    - (* the lanes *)
      intros j Hj.
      rewrite Hl6 in Hj.
      pose proof (inv_lanes z1 _ HI1 j Hj) as Hlane.
      destruct (upd_cell z1 A B j HI1 Hj) as [cu Hcu].
      assert (Ecu : cell_or z1 (fst (upd_of A j)) j = cu) by (unfold cell_or; rewrite Hcu; reflexivity).
      assert (Hdu : k - snd (upd_of A j) = snd (lane_end j Head 0 A)) by (unfold upd_of, k; simpl; lia).
      destruct (Nat.lt_ge_cases j h) as [Hjh|Hjh].
      + apply (lane_insert_low (col z1 j) (col z' j) j A B x Hnd Hfresh Hlane cu); auto.
        * unfold col. change (nref x) with (Node e). rewrite (Hcell_low j Hjh).
          destruct (ref_eqb_spec (Node e) (Node e)); [|congruence]. rewrite Ecu, Hdu. reflexivity.
        * unfold col. rewrite (Hcell_low j Hjh). change (fst (lane_end j Head 0 A)) with (fst (upd_of A j)).
          destruct (ref_eqb_spec (fst (upd_of A j)) (Node e)) as [E|_].
          { exfalso. apply (upd_not_fresh A j e HfreshA). exact E. }
          destruct (ref_eqb_spec (fst (upd_of A j)) (fst (upd_of A j))); [|congruence].
          rewrite Hdu. reflexivity.
        * intros r Hr1 Hr2. unfold col. rewrite (Hcell_low j Hjh).
          destruct (ref_eqb_spec r (Node e)); [contradiction|].
          destruct (ref_eqb_spec r (fst (upd_of A j))); [contradiction|reflexivity].
      + apply (lane_insert_high (col z1 j) (col z' j) j A B x Hnd Hfresh Hlane cu); auto.
        * unfold col. rewrite (Hcell_high j ltac:(lia)). change (fst (lane_end j Head 0 A)) with (fst (upd_of A j)).
          destruct (ref_eqb_spec (fst (upd_of A j)) (fst (upd_of A j))); [|congruence].
          rewrite Ecu. reflexivity.
        * intros r Hr1 Hr2. unfold col. rewrite (Hcell_high j ltac:(lia)).
          destruct (ref_eqb_spec r (fst (upd_of A j))); [contradiction|].
          destruct (ref_eqb_spec r (Node e)); [contradiction|reflexivity].
    - (* the header above the level *)
      intros j Hj.
      rewrite Hl6 in Hj. rewrite Hcell_top by (try lia; discriminate).
      apply (inv_top z1 _ HI1). exact Hj.
    - (* backward references *)
      pose proof (inv_back z1 _ HI1) as Hb. apply back_ok_app in Hb. destruct Hb as [HbA HbB].
      assert (Hnbk5 : forall e', nbk z5 e' = if e' =? e then Some b0 else nbk z2 e').
      { intros e'. unfold z5. rewrite nbk_set_back, O2. destruct (Z.eqb_spec e' e) as [->|]; [|apply O2].
        destruct Hobs2e as (_ & _ & ->). reflexivity. }
      assert (Hnbk' : forall e', nbk z' e' =
                match fB with
                | Node f => if e' =? f then (match nbk z5 f with Some _ => Some (Node e) | None => None end) else nbk z5 e'
                | _ => nbk z5 e'
                end).
      { intros e'. unfold z'. change (nbk (set_len z6 (llen z6 + 1)) e') with (nbk z6 e'). unfold z6.
        destruct fB; [reflexivity..|]. apply nbk_set_back. }
      apply back_ok_app. split; [|simpl; split].
      + (* the nodes before *)
        apply (back_ok_ext z1); [|exact HbA]. intros n Hn.
        assert (Hne : le n <> e) by (apply Hmem; apply in_or_app; auto).
        rewrite Hnbk'. unfold fB. destruct B as [|f t].
        * rewrite Hnbk5. destruct (Z.eqb_spec (le n) e); [contradiction|]. apply (Hobs2 (le n) Hne).
        * cbn [nref]. destruct (Z.eqb_spec (le n) (le f)) as [E|_].
          { exfalso. rewrite map_app in Hnd. clear - Hnd Hn E.
            induction A as [|a A IH]; simpl in *; [contradiction|].
            inversion Hnd as [|? ? Hni Hnd']; subst. destruct Hn as [->|Hn]; [|auto].
            apply Hni. apply in_or_app. right. simpl. left. symmetry. exact E. }
          rewrite Hnbk5. destruct (Z.eqb_spec (le n) e); [contradiction|]. apply (Hobs2 (le n) Hne).
      + (* the new node *)
        change (le x) with e. rewrite Hnbk'.
        assert (Hb0 : b0 = last_or Nil A).
        { unfold b0. rewrite Hu0. unfold last_or. destruct (rev A); reflexivity. }
        unfold fB. destruct B as [|f t].
        * rewrite Hnbk5, Z.eqb_refl, Hb0. reflexivity.
        * cbn [nref]. destruct (Z.eqb_spec e (le f)) as [E|_].
          { exfalso. apply (Hmem f); [apply in_or_app; right; left; reflexivity|]. symmetry. exact E. }
          rewrite Hnbk5, Z.eqb_refl, Hb0. reflexivity.
      + (* the nodes after *)
        unfold fB in Hnbk'. destruct B as [|f t]; [exact I|]. simpl in HbB. destruct HbB as [Hbf Hbt].
        cbn [nref] in Hnbk'. simpl. split.
        * rewrite Hnbk', Z.eqb_refl, Hnbk5.
          assert (Hne : le f <> e) by (apply Hmem; apply in_or_app; right; left; reflexivity).
          destruct (Z.eqb_spec (le f) e); [contradiction|].
          destruct (Hobs2 (le f) Hne) as (_ & _ & ->). rewrite Hbf. reflexivity.
        * apply (back_ok_ext z1); [|exact Hbt]. intros n Hn.
          assert (Hne : le n <> e) by (apply Hmem; apply in_or_app; right; right; exact Hn).
          rewrite Hnbk'. destruct (Z.eqb_spec (le n) (le f)) as [E|_].
          { exfalso. rewrite map_app in Hnd. apply nodup_app_r in Hnd. simpl in Hnd.
            inversion Hnd as [|? ? Hni _]; subst. apply Hni. rewrite <- E. apply in_map. exact Hn. }
          rewrite Hnbk5. destruct (Z.eqb_spec (le n) e); [contradiction|]. apply (Hobs2 (le n) Hne).
    - (* tail *)
      change (ltail z') with (ltail z6). unfold z6, fB. destruct B as [|f t].
      + simpl. rewrite last_ref_last_or. change (A ++ [x]) with (A ++ [x]). rewrite last_or_snoc. reflexivity.
      + cbn [nref]. destruct (misc_set_back z5 (le f) (Node e)) as (Ht & _). rewrite Ht.
        unfold z5. destruct (misc_set_back z4 e b0) as (Ht' & _). rewrite Ht', O4.
        rewrite (inv_tail z1 _ HI1). unfold last_ref. fold (last_or Nil (A ++ f :: t)). fold (last_or Nil (A ++ x :: f :: t)).
        rewrite (last_or_app_nonempty Nil A (f :: t)) by discriminate.
        rewrite (last_or_app_nonempty Nil A (x :: f :: t)) by discriminate.
        rewrite (last_or_cons Nil x). rewrite !last_or_cons. reflexivity.
    - (* length *)
      change (llen z') with (llen z6 + 1).
      rewrite L6, (inv_len z1 _ HI1). rewrite !app_length. simpl length. lia. }
  (* the level is the largest height *)
  unfold LTight. rewrite Hl6, Hlv1.
  destruct (Nat.le_gt_cases h (llevel z)) as [Hle|Hgt].
  - rewrite Nat.max_l by lia. destruct HT as [H1|(n & Hn & Hnh)]; [left; exact H1|].
    right. exists n. split; [|exact Hnh]. apply in_app_iff in Hn. apply in_app_iff. simpl. tauto.
  - rewrite Nat.max_r by lia. right. exists x. split; [apply in_app_iff; simpl; auto|reflexivity].
Qed.
