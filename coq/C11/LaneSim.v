(* C11, stage 2 — the lane model simulates the level-0 model (C11/Model.v): same results for
   every call, and its chain is the level-0 list; with C11/Refine.v this gives the refinement
   lane model -> level-0 model -> reference ranking. *)
From Coq Require Import ZArith List Bool Lia Permutation.
From FV Require Import Generated.Consts C11.Spec C11.Model C11.Sorted C11.Scans C11.Refine
  C11.Lanes C11.LanesZset C11.LaneModel C11.LaneHeap C11.LaneInv C11.LaneSearch C11.LaneLoops
  C11.LaneInsert C11.LaneDelete.
Import ListNotations.
Open Scope Z_scope.

(* ---------------------------------------------------------------- prefixes of a sorted chain *)
Lemma chain_split (P : entry -> bool) (L : list lnode) : ssorted (map ent L) -> downward P ->
  exists A B, L = A ++ B /\ Forall (fun n => P (ent n) = true) A /\ Forall (fun n => P (ent n) = false) B.
Proof.
  intros Hs Hd. destruct (sorted_prefix P (map ent L) Hs Hd) as (A' & B' & E & HA & HB).
  exists (firstn (length A') L), (skipn (length A') L).
  split; [symmetry; apply firstn_skipn|].
  assert (E1 : map ent (firstn (length A') L) = A').
  { rewrite <- firstn_map, E, firstn_app, Nat.sub_diag, firstn_all. simpl. apply app_nil_r. }
  assert (E2 : map ent (skipn (length A') L) = B').
  { rewrite <- skipn_map, E, skipn_app, Nat.sub_diag, skipn_all. reflexivity. }
  split.
  - rewrite <- E1 in HA. rewrite Forall_map in HA. exact HA.
  - rewrite <- E2 in HB. rewrite Forall_map in HB. exact HB.
Qed.

Lemma holds_from_free (P : entry -> bool) A : forall k,
  Forall (fun n => P (ent n) = true) A -> holds_from (fun _ s e => P (s, e)) k A.
Proof.
  induction A as [|n t IH]; intros k H; simpl; [exact I|].
  inversion H; subst. split; [assumption|apply IH; assumption].
Qed.

Lemma fails_from_free (P : entry -> bool) B : forall k,
  Forall (fun n => P (ent n) = false) B -> fails_from (fun _ s e => P (s, e)) k B.
Proof.
  induction B as [|n t IH]; intros k H; simpl; [exact I|].
  inversion H; subst. split; [assumption|apply IH; assumption].
Qed.

(* ---------------------------------------------------------------- the level-0 scans on a split list *)
Lemma zsl_insert_split A' B' s e :
  Forall (fun x => before x s e = true) A' -> Forall (fun x => before x s e = false) B' ->
  zsl_insert (A' ++ B') s e = A' ++ (s, e) :: B'.
Proof.
  intros HA HB. induction HA as [|a A' Ha _ IH]; simpl.
  - destruct B' as [|b B'']; [reflexivity|]. inversion HB; subst. simpl. rewrite H1. reflexivity.
  - rewrite Ha, IH. reflexivity.
Qed.

Lemma zsl_delete_split A' B' s e :
  Forall (fun x => before x s e = true) A' -> Forall (fun x => before x s e = false) B' ->
  zsl_delete (A' ++ B') s e =
  match B' with
  | y :: t => if (s =? score y) && (member y =? e) then (A' ++ t, true) else (A' ++ B', false)
  | [] => (A' ++ [], false)
  end.
Proof.
  intros HA HB. induction HA as [|a A' Ha _ IH]; simpl.
  - destruct B' as [|b B'']; [reflexivity|]. inversion HB; subst. simpl. rewrite H1.
    destruct ((s =? score b) && (member b =? e)); reflexivity.
  - rewrite Ha, IH. destruct B' as [|y t]; [reflexivity|].
    destruct ((s =? score y) && (member y =? e)); reflexivity.
Qed.

(* ---------------------------------------------------------------- Delete *)
Lemma ldelete_spec z L s e : LInv z L -> ssorted (map ent L) ->
  match zsl_delete (map ent L) s e with
  | (l', true) => exists z' L', ldelete z s e = Some (z', true) /\ LInv z' L' /\ LTight z' L' /\ map ent L' = l'
  | (l', false) => ldelete z s e = Some (z, false) /\ l' = map ent L
  end.
Proof.
  intros HI Hs.
  destruct (chain_split (fun x => before x s e) L Hs (downward_before s e)) as (A & B & -> & HA & HB).
  assert (HA' : Forall (fun x => before x s e = true) (map ent A)) by (rewrite Forall_map; exact HA).
  assert (HB' : Forall (fun x => before x s e = false) (map ent B)) by (rewrite Forall_map; exact HB).
  rewrite map_app, (zsl_delete_split _ _ s e HA' HB').
  unfold ldelete.
  destruct (search_all z A B (fun _ s' e' => before (s', e') s e) HI
              (holds_from_free (fun x => before x s e) A 0 HA)
              (fails_from_free (fun x => before x s e) B _ HB)) as (a & -> & Hlen & Harr).
  pose proof (inv_level z _ HI) as Hlv.
  unfold next0. rewrite (Harr 0%nat ltac:(lia)), (lane0_next z A B HI).
  destruct B as [|f t]; cbn [fwd map].
  - split; reflexivity.
  - assert (Hnf : node_ok z f).
    { pose proof (inv_nodes z _ HI) as H. apply Forall_app in H. destruct H as [_ H]. inversion H; assumption. }
    destruct Hnf as [Hsf _]. apply nsc_inv in Hsf. destruct Hsf as (nf & Hgf & Hscf).
    cbn [nref]. rewrite Hgf, Hscf. change (score (ent f)) with (ls f). change (member (ent f)) with (le f).
    destruct ((s =? ls f) && (le f =? e)).
    + destruct (ldelete_node_ok z A f t a HI Harr) as (z' & -> & HI' & HT' & _).
      exists z', (A ++ t). split; [reflexivity|]. split; [exact HI'|]. split; [exact HT'|]. apply map_app.
    + split; reflexivity.
Qed.

(* ---------------------------------------------------------------- Insert *)
Lemma linsert_spec z L s e h0 : LInv z L -> LTight z L -> ssorted (map ent L) -> ~ In e (map le L) ->
  exists z' L', linsert z s e h0 = Some z' /\ LInv z' L' /\ LTight z' L' /\
                map ent L' = zsl_insert (map ent L) s e.
Proof.
  intros HI HT Hs Hfresh.
  destruct (chain_split (fun x => before x s e) L Hs (downward_before s e)) as (A & B & -> & HA & HB).
  assert (HA' : Forall (fun x => before x s e = true) (map ent A)) by (rewrite Forall_map; exact HA).
  assert (HB' : Forall (fun x => before x s e = false) (map ent B)) by (rewrite Forall_map; exact HB).
  destruct (linsert_ok z A B s e h0 HI HT
              (holds_from_free (fun x => before x s e) A 0 HA)
              (fails_from_free (fun x => before x s e) B _ HB) Hfresh) as (z' & E & HI' & HT').
  exists z', (A ++ mkN s e (clamp_height h0) :: B).
  split; [exact E|]. split; [exact HI'|]. split; [exact HT'|].
  rewrite !map_app, (zsl_insert_split _ _ s e HA' HB'). reflexivity.
Qed.

(* ---------------------------------------------------------------- the simulation relation *)
Definition Sim (l : lzset) (z0 : zset) : Prop :=
  exists L, LInv (lz l) L /\ LTight (lz l) L /\ map ent L = zsl z0 /\ ldict l = dict z0.

Lemma Sim_empty orc : Sim (lzempty orc) empty.
Proof.
  exists []. split; [|split; [left; reflexivity|split; reflexivity]].
  apply mkLInv; simpl.
  - constructor.
  - constructor.
  - rewrite maxlevel_val. lia.
  - reflexivity.
  - constructor.
  - intros i Hi. assert (i = 0%nat) as -> by lia. reflexivity.
  - intros i Hi. exists 0. rewrite maxlevel_val in Hi.
    do 12 (destruct i as [|i]; [reflexivity|]). lia.
  - exact I.
  - reflexivity.
  - reflexivity.
Qed.

Lemma map_le_ent L : map le L = map member (map ent L).
Proof. rewrite map_map. reflexivity. Qed.

Lemma ladd_sim l z0 st e s : Sim l z0 -> Inv z0 st ->
  let '(l', o) := ladd l e s in
  let '(z', o') := add z0 e s in
  o = o' /\ Sim l' z'.
Proof.
  intros (L & HI & HT & EL & ED) HInv. pose proof HInv as (Hs & Hin & Hnd & Hd).
  unfold ladd, add. rewrite ED.
  assert (Hml : NoDup (map member (zsl z0))) by (apply (Inv_members z0 st HInv)).
  destruct (dict_get (dict z0) e) as [cur|] eqn:Eg.
  - destruct (Z.eqb_spec cur s) as [->|Hne]; cbn [negb].
    { split; [reflexivity|]. exists L. auto. }
    assert (Hpres : In (cur, e) (zsl z0)).
    { apply Hin. apply lookup_some. rewrite <- Hd. exact Eg. }
    destruct (zsl_delete_present (zsl z0) cur e Hs Hpres) as (l1 & E1 & Hs1 & Hl1).
    pose proof (ldelete_spec (lz l) L cur e HI ltac:(rewrite EL; exact Hs)) as Hdel.
    rewrite EL, E1 in Hdel. destruct Hdel as (z1 & L1 & -> & HI1 & HT1 & EL1).
    rewrite E1.
    destruct (next_height (oracle l)) as [h orc].
    destruct (linsert_spec z1 L1 s e h HI1 HT1) as (z2 & L2 & -> & HI2 & HT2 & EL2).
    { rewrite EL1. exact Hs1. }
    { rewrite map_le_ent, EL1. intros Hm. apply in_map_iff in Hm. destruct Hm as (y & Hy & Hyl).
      apply Hl1 in Hyl. destruct Hyl as [Hyl Hyne]. apply Hyne.
      apply (nodup_member_inj (zsl z0)); auto. }
    split; [reflexivity|]. exists L2. simpl. rewrite EL2, EL1. auto.
  - destruct (next_height (oracle l)) as [h orc].
    destruct (linsert_spec (lz l) L s e h HI HT) as (z2 & L2 & -> & HI2 & HT2 & EL2).
    { rewrite EL. exact Hs. }
    { rewrite map_le_ent, EL. intros Hm. apply in_map_iff in Hm. destruct Hm as (y & Hy & Hyl).
      rewrite Hd in Eg. apply (lookup_none e st Eg y); [apply Hin; exact Hyl|exact Hy]. }
    split; [reflexivity|]. exists L2. simpl. rewrite EL2, EL. auto.
Qed.

Lemma lremove_sim l z0 st e : Sim l z0 -> Inv z0 st ->
  let '(l', o) := lremove l e in
  let '(z', o') := remove z0 e in
  o = o' /\ Sim l' z'.
Proof.
  intros (L & HI & HT & EL & ED) HInv. pose proof HInv as (Hs & _).
  unfold lremove, remove. rewrite ED.
  destruct (dict_get (dict z0) e) as [s0|]; [|split; [reflexivity|exists L; auto]].
  pose proof (ldelete_spec (lz l) L s0 e HI ltac:(rewrite EL; exact Hs)) as Hdel. rewrite EL in Hdel.
  destruct (zsl_delete (zsl z0) s0 e) as [l1 [|]].
  - destruct Hdel as (z1 & L1 & -> & HI1 & HT1 & EL1). split; [reflexivity|].
    exists L1. simpl. auto.
  - destruct Hdel as [-> ->]. split; [reflexivity|]. exists L. simpl. rewrite EL. auto.
Qed.

(* ---------------------------------------------------------------- the deletion loop *)
Fixpoint keep_holds (keep : Z -> Z -> bool) (t : Z) (V : list lnode) : Prop :=
  match V with
  | [] => True
  | v :: r => keep t (ls v) = true /\ keep_holds keep (t + 1) r
  end.

Definition head_ref (X : list lnode) : ref := match X with [] => Nil | f :: _ => nref f end.

Lemma del_loop_spec a keep A : forall V C z t0 fuel,
  LInv z (A ++ V ++ C) -> (forall j, (j < llevel z)%nat -> arr_get a j = upd_of A j) ->
  keep_holds keep t0 V ->
  match C with [] => True | c :: _ => keep (t0 + Z.of_nat (length V)) (ls c) = false end ->
  (length V < fuel)%nat ->
  exists z', del_loop fuel z a keep (head_ref (V ++ C)) t0 = Some (z', map le V) /\
             LInv z' (A ++ C) /\ (V <> [] -> LTight z' (A ++ C)) /\ (V = [] -> z' = z).
Proof.
  induction V as [|v V' IH]; intros C z t0 fuel HI Harr Hk HC Hfuel.
  - destruct fuel as [|f]; [simpl in Hfuel; lia|]. simpl app. cbn [del_loop].
    destruct C as [|c C']; simpl head_ref.
    + exists z. split; [reflexivity|]. split; [exact HI|]. split; [intros H; contradiction|reflexivity].
    + assert (Hnc : node_ok z c).
      { pose proof (inv_nodes z _ HI) as H. apply Forall_app in H. destruct H as [_ H]. inversion H; assumption. }
      destruct Hnc as [Hsc _]. apply nsc_inv in Hsc. destruct Hsc as (nc & Hgc & Hscc).
      cbn [nref]. rewrite Hgc, Hscc. simpl length in HC. rewrite Z.add_0_r in HC. rewrite HC.
      exists z. split; [reflexivity|]. split; [exact HI|]. split; [intros H; contradiction|reflexivity].
  - destruct fuel as [|f]; [simpl in Hfuel; lia|]. simpl app. simpl head_ref. cbn [del_loop nref].
    simpl in Hk. destruct Hk as [Hk1 Hk2].
    assert (Hnv : node_ok z v).
    { pose proof (inv_nodes z _ HI) as H. apply Forall_app in H. destruct H as [_ H]. inversion H; assumption. }
    destruct Hnv as [Hsv _]. apply nsc_inv in Hsv. destruct Hsv as (nv & Hgv & Hscv).
    rewrite Hgv, Hscv, Hk1.
    pose proof (lane0_cell_of z A v (V' ++ C) HI) as Hc0. unfold cell in Hc0. cbn [nref] in Hc0.
    rewrite Hgv in Hc0. rewrite Hc0.
    destruct (ldelete_node_ok z A v (V' ++ C) a HI Harr) as (z1 & -> & HI1 & HT1 & Hlv1).
    cbn [fwd].
    destruct (IH C z1 (t0 + 1) f HI1) as (z' & E & HI' & HT' & Hz').
    { intros j Hj. apply Harr. lia. }
    { exact Hk2. }
    { simpl length in HC. replace (t0 + 1 + Z.of_nat (length V')) with (t0 + Z.of_nat (S (length V'))) by lia. exact HC. }
    { simpl in Hfuel. lia. }
    change (match V' ++ C with [] => Nil | f0 :: _ => nref f0 end) with (head_ref (V' ++ C)).
    rewrite E. exists z'. split; [reflexivity|]. split; [exact HI'|]. split; [|discriminate].
    intros _. destruct V' as [|v' V'']; [rewrite (Hz' eq_refl); exact HT1|apply HT'; discriminate].
Qed.

(* ---------------------------------------------------------------- RemoveRangeByScore / ByRank *)
Lemma fold_left_map' {X Y Z'} (f : Z' -> Y -> Z') (g : X -> Y) l : forall a,
  fold_left f (map g l) a = fold_left (fun a x => f a (g x)) l a.
Proof. induction l as [|x l IH]; intros a; simpl; [reflexivity|apply IH]. Qed.

Lemma dict_del_members_all d (V : list lnode) :
  dict_del_members d (map le V) = dict_del_all d (map ent V).
Proof.
  unfold dict_del_members, dict_del_all. rewrite !fold_left_map'. reflexivity.
Qed.

Lemma keep_holds_score max V : forall t,
  Forall (fun n => (score (ent n) <=? max) = true) V -> keep_holds (fun _ s' => s' <=? max) t V.
Proof.
  induction V as [|v r IH]; intros t H; simpl; [exact I|].
  inversion H; subst. split; [assumption|apply IH; assumption].
Qed.

Lemma ssorted_app_r l1 l2 : ssorted (l1 ++ l2) -> ssorted l2.
Proof. intros H. apply ssorted_app in H. tauto. Qed.

Lemma lrem_by_score_sim l z0 st min max : Sim l z0 -> Inv z0 st ->
  let '(l', o) := lrem_by_score l min max in
  let '(z', o') := rem_by_score z0 min max in
  o = o' /\ Sim l' z'.
Proof.
  intros (L & HI & HT & EL & ED) HInv. pose proof HInv as (Hs & _).
  unfold lrem_by_score, rem_by_score.
  destruct (Z.gtb_spec min max) as [Hgt|Hle]; [split; [reflexivity|exists L; auto]|].
  rewrite <- EL in Hs.
  destruct (chain_split (fun x => score x <? min) L Hs (downward_score_lt min)) as (A & B & -> & HA & HB).
  assert (HsB : ssorted (map ent B)) by (rewrite map_app in Hs; apply ssorted_app_r in Hs; exact Hs).
  destruct (chain_split (fun x => score x <=? max) B HsB (downward_score_le max)) as (V & C & -> & HV & HC).
  unfold ldel_by_score.
  destruct (search_all (lz l) A (V ++ C) (fun _ s' _ => s' <? min) HI
              (holds_from_free (fun x => score x <? min) A 0 HA)
              (fails_from_free (fun x => score x <? min) (V ++ C) _ HB)) as (a & -> & Hlen & Harr).
  pose proof (inv_level (lz l) _ HI) as Hlv.
  unfold next0. rewrite (Harr 0%nat ltac:(lia)), (lane0_next (lz l) A (V ++ C) HI). cbn [fwd].
  destruct (del_loop_spec a (fun _ s' => s' <=? max) A V C (lz l) 0 (fuel_of (lz l)) HI Harr) as (z' & E & HI' & HT' & Hz').
  { apply keep_holds_score. exact HV. }
  { destruct C as [|c C']; [exact I|]. inversion HC; subst. assumption. }
  { unfold fuel_of. rewrite (inv_len (lz l) _ HI). rewrite !app_length. lia. }
  change (match V ++ C with [] => Nil | f :: _ => nref f end) with (head_ref (V ++ C)).
  rewrite E.
  (* the level-0 side *)
  assert (FA : Forall (fun x => score x < min) (map ent A)).
  { rewrite Forall_map. eapply Forall_impl; [|exact HA]. simpl. intros n H. apply Z.ltb_lt in H. exact H. }
  assert (FV : Forall (fun x => min <= score x <= max) (map ent V)).
  { rewrite Forall_map. apply Forall_app in HB. destruct HB as [HB1 _].
    rewrite Forall_forall in *. intros n Hn. specialize (HB1 n Hn). specialize (HV n Hn). simpl in *.
    apply Z.ltb_ge in HB1. apply Z.leb_le in HV. lia. }
  assert (FC : Forall (fun x => max < score x) (map ent C)).
  { rewrite Forall_map. eapply Forall_impl; [|exact HC]. simpl. intros n H. apply Z.leb_gt in H. exact H. }
  rewrite <- EL, !map_app. rewrite (del_by_score_spec _ _ _ min max Hle FA FV FC).
  split; [unfold zlen; rewrite !map_length; reflexivity|].
  exists (A ++ C). simpl. split; [exact HI'|]. split.
  { destruct V as [|v V']; [rewrite (Hz' eq_refl); exact HT|apply HT'; discriminate]. }
  split; [apply map_app|]. rewrite ED. apply dict_del_members_all.
Qed.

Lemma holds_from_rank start A : forall k, k + Z.of_nat (length A) < start ->
  holds_from (fun r _ _ => r <? start) k A.
Proof.
  induction A as [|n t IH]; intros k H; simpl; [exact I|]. simpl length in H.
  split; [apply Z.ltb_lt; lia|apply IH; lia].
Qed.

Lemma fails_from_rank start B : forall k, start <= k + 1 -> fails_from (fun r _ _ => r <? start) k B.
Proof.
  induction B as [|n t IH]; intros k H; simpl; [exact I|].
  split; [apply Z.ltb_ge; lia|apply IH; lia].
Qed.

Lemma keep_holds_rank stop V : forall t, t + Z.of_nat (length V) - 1 <= stop ->
  keep_holds (fun t' _ => t' <=? stop) t V.
Proof.
  induction V as [|v r IH]; intros t H; simpl; [exact I|]. simpl length in H.
  split; [apply Z.leb_le; lia|apply IH; lia].
Qed.


Lemma lrem_by_rank_sim l z0 st start stop : Sim l z0 -> Inv z0 st ->
  let '(l', o) := lrem_by_rank l start stop in
  let '(z', o') := rem_by_rank z0 start stop in
  o = o' /\ Sim l' z'.
Proof.
  intros (L & HI & HT & EL & ED) HInv.
  unfold lrem_by_rank, rem_by_rank. cbv zeta.
  assert (Hlen : llen (lz l) = zlen (zsl z0)).
  { rewrite (inv_len (lz l) _ HI), <- EL. unfold zlen. rewrite map_length. reflexivity. }
  rewrite Hlen. set (len := zlen (zsl z0)) in *.
  set (start1 := if start <? 0 then len + start else start).
  set (stop1 := if stop <? 0 then len + stop else stop).
  set (a := if start1 <? 0 then 0 else start1).
  destruct ((a >? stop1) || (a >=? len)) eqn:Ec; [split; [reflexivity|exists L; auto]|].
  apply orb_false_iff in Ec. destruct Ec as [Ec1 Ec2].
  assert (Ha0 : 0 <= a) by (unfold a; destruct (Z.ltb_spec start1 0); lia).
  assert (Ha1 : a <= stop1) by (destruct (Z.gtb_spec a stop1); [discriminate|lia]).
  assert (Ha2 : a < len) by (rewrite Z.geb_leb in Ec2; apply Z.leb_gt in Ec2; exact Ec2).
  set (b := if stop1 >=? len then len - 1 else stop1).
  assert (Hb : a <= b < len).
  { unfold b. destruct (Z.geb_spec stop1 len); lia. }
  assert (HlenL : len = Z.of_nat (length L)).
  { unfold len. rewrite <- EL. unfold zlen. rewrite map_length. reflexivity. }
  (* the chain in three pieces: before, victims, after *)
  set (A := firstn (Z.to_nat a) L). set (B := skipn (Z.to_nat a) L).
  set (V := firstn (Z.to_nat (b - a + 1)) B). set (C := skipn (Z.to_nat (b - a + 1)) B).
  assert (EL3 : L = A ++ V ++ C).
  { unfold A, V, C, B. rewrite firstn_skipn, firstn_skipn. reflexivity. }
  assert (HlA : Z.of_nat (length A) = a) by (unfold A; rewrite firstn_length; lia).
  assert (HlB : Z.of_nat (length B) = len - a) by (unfold B; rewrite skipn_length; lia).
  assert (HlV : Z.of_nat (length V) = b - a + 1) by (unfold V; rewrite firstn_length; lia).
  pose proof HI as HI3. rewrite EL3 in HI3.
  unfold ldel_by_rank.
  destruct (search_all (lz l) A (V ++ C) (fun r _ _ => r <? a + 1) HI3) as (arr & -> & Hlena & Harr).
  { apply holds_from_rank. lia. }
  { apply fails_from_rank. lia. }
  pose proof (inv_level (lz l) _ HI) as Hlv.
  assert (HhA : Forall (fun n => (1 <= lh n)%nat) A).
  { pose proof (inv_heights (lz l) _ HI3) as H. apply Forall_app in H. destruct H as [H _].
    eapply Forall_impl; [|exact H]. simpl. intros; lia. }
  unfold next0. rewrite (Harr 0%nat ltac:(lia)), (lane0_next (lz l) A (V ++ C) HI3). cbn [fwd].
  rewrite (upd_of_zero A HhA). cbn [snd]. rewrite HlA.
  destruct (del_loop_spec arr (fun t _ => t <=? b + 1) A V C (lz l) (a + 1) (fuel_of (lz l)) HI3 Harr) as (z' & E & HI' & HT' & Hz').
  { apply keep_holds_rank. lia. }
  { destruct C as [|c C'] eqn:EC; [exact I|]. apply Z.leb_gt. lia. }
  { unfold fuel_of. rewrite (inv_len (lz l) _ HI). lia. }
  change (match V ++ C with [] => Nil | f :: _ => nref f end) with (head_ref (V ++ C)).
  rewrite E.
  (* the level-0 side *)
  rewrite <- EL. rewrite (del_by_rank_spec (map ent L) 0 (a + 1) (b + 1)) by lia.
  replace (a + 1 - 1 - 0) with a by lia. replace (b + 1 - (a + 1) + 1) with (b - a + 1) by lia.
  rewrite ?skipn_map, ?firstn_map, ?skipn_map. fold A B. fold V C.
  split; [unfold zlen; rewrite !map_length; reflexivity|].
  exists (A ++ C). simpl. split; [exact HI'|]. split.
  { destruct V as [|v V'] eqn:EV; [rewrite (Hz' eq_refl); rewrite EL3 in HT; exact HT|apply HT'; discriminate]. }
  split; [apply map_app|]. rewrite ED. apply dict_del_members_all.
Qed.

(* ---------------------------------------------------------------- one call, all calls *)
(* queries whose results are proved equal so far *)
Definition covered (o : op) : bool :=
  match o with
  | Add _ _ | Remove _ | RemByScore _ _ | RemByRank _ _ | GetScore _ | Len => true
  | _ => false
  end.

Lemma lstep_sim l z0 st o : Sim l z0 -> Inv z0 st ->
  let '(l', lo) := lstep l o in
  let '(z', o') := step z0 o in
  Sim l' z' /\ (covered o = true -> lo = o').
Proof.
  intros HS HInv. destruct o as [e s|e|a b|a b|a b|e r|e|a b r|a b r|]; cbn [lstep step covered].
  - pose proof (ladd_sim l z0 st e s HS HInv) as H.
    destruct (ladd l e s) as [l' lo]. destruct (add z0 e s) as [z' o']. tauto.
  - pose proof (lremove_sim l z0 st e HS HInv) as H.
    destruct (lremove l e) as [l' lo]. destruct (remove z0 e) as [z' o']. tauto.
  - pose proof (lrem_by_score_sim l z0 st a b HS HInv) as H.
    destruct (lrem_by_score l a b) as [l' lo]. destruct (rem_by_score z0 a b) as [z' o']. tauto.
  - pose proof (lrem_by_rank_sim l z0 st a b HS HInv) as H.
    destruct (lrem_by_rank l a b) as [l' lo]. destruct (rem_by_rank z0 a b) as [z' o']. tauto.
  - split; [exact HS|discriminate].
  - split; [exact HS|discriminate].
  - split; [exact HS|]. intros _. destruct HS as (L & _ & _ & _ & ED). unfold get_score. simpl. rewrite ED. reflexivity.
  - split; [exact HS|discriminate].
  - split; [exact HS|discriminate].
  - split; [exact HS|]. intros _. destruct HS as (L & HI & _ & EL & _).
    rewrite (inv_len (lz l) _ HI), <- EL. unfold zlen. rewrite map_length. reflexivity.
Qed.

Lemma lrun_sim ops : forall l z0 st, Sim l z0 -> Inv z0 st ->
  let '(l', los) := lrun l ops in
  let '(z', os) := run z0 ops in
  Sim l' z' /\ Forall2 (fun o xy => covered o = true -> fst xy = snd xy) ops (combine los os).
Proof.
  induction ops as [|o ops IH]; intros l z0 st HS HInv; cbn [lrun run].
  - split; [exact HS|constructor].
  - pose proof (lstep_sim l z0 st o HS HInv) as H1.
    pose proof (step_refines z0 st o HInv) as H2.
    destruct (lstep l o) as [l1 lo]. destruct (step z0 o) as [z1 o1]. destruct (spec_step st o) as [st1 y].
    destruct H1 as [HS1 Hout]. destruct H2 as [_ HInv1].
    specialize (IH l1 z1 st1 HS1 HInv1).
    destruct (lrun l1 ops) as [l2 los]. destruct (run z1 ops) as [z2 os].
    destruct IH as [HS2 Hall]. split; [exact HS2|]. simpl. constructor; [exact Hout|exact Hall].
Qed.

(* for ALL operation sequences and ALL height oracles: the skip list with its lanes keeps
   the structural invariant, its level-0 chain is the list of the level-0 model and its
   member table is the level-0 model's *)
Theorem lane_model_invariant (orc : list nat) (ops : list op) :
  let l := fst (lrun (lzempty orc) ops) in
  let z0 := fst (run empty ops) in
  exists L, LInv (lz l) L /\ LTight (lz l) L /\ map ent L = zsl z0 /\ ldict l = dict z0.
Proof.
  pose proof (lrun_sim ops (lzempty orc) empty [] (Sim_empty orc) Inv_empty) as H.
  destruct (lrun (lzempty orc) ops) as [l los]. destruct (run empty ops) as [z os].
  exact (proj1 H).
Qed.

Theorem lane_model_results_partial (orc : list nat) (ops : list op) :
  let los := snd (lrun (lzempty orc) ops) in
  let os := snd (run empty ops) in
  Forall2 (fun o xy => covered o = true -> fst xy = snd xy) ops (combine los os).
Proof.
  pose proof (lrun_sim ops (lzempty orc) empty [] (Sim_empty orc) Inv_empty) as H.
  destruct (lrun (lzempty orc) ops) as [l los]. destruct (run empty ops) as [z os].
  exact (proj2 H).
Qed.
