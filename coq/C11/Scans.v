(* C11 — what the model's level-0 scans compute on a strictly sorted list. *)
From Coq Require Import ZArith List Bool Lia Permutation.
From FV Require Import C11.Spec C11.Model C11.Sorted.
Import ListNotations.
Open Scope Z_scope.

Lemma zlen_cons {X} (x : X) l : zlen (x :: l) = zlen l + 1.
Proof. unfold zlen. simpl length. lia. Qed.
Lemma zlen_app {X} (l1 l2 : list X) : zlen (l1 ++ l2) = zlen l1 + zlen l2.
Proof. unfold zlen. rewrite app_length. lia. Qed.
Lemma zlen_nil {X} : zlen (@nil X) = 0.
Proof. reflexivity. Qed.
Lemma zlen_map {X Y} (f : X -> Y) l : zlen (map f l) = zlen l.
Proof. unfold zlen. rewrite map_length. reflexivity. Qed.
Lemma zlen_rev {X} (l : list X) : zlen (rev l) = zlen l.
Proof. unfold zlen. rewrite rev_length. reflexivity. Qed.

(* the code's comparisons *)
Lemma before_spec x s e : before x s e = true <-> klt x (s, e).
Proof.
  unfold before, klt. simpl. rewrite orb_true_iff, andb_true_iff. lia.
Qed.

Lemma before_eq_spec x s e : before_eq x s e = true <-> (klt x (s, e) \/ x = (s, e)).
Proof.
  unfold before_eq, klt. simpl. rewrite orb_true_iff, andb_true_iff. split.
  - intros [H|[H1 H2]]; [left; left; lia|].
    destruct (Z.eq_dec (member x) e) as [E|E].
    + right. destruct x; simpl in *. f_equal; lia.
    + left. right. lia.
  - intros [[H|[H1 H2]]| ->]; simpl; lia.
Qed.

(* ---------------------------------------------------------------- Insert *)
Lemma zsl_insert_in l s e x : In x (zsl_insert l s e) <-> x = (s, e) \/ In x l.
Proof.
  induction l as [|y r IH]; simpl.
  - intuition.
  - destruct (before y s e); simpl; rewrite ?IH; intuition.
Qed.

Lemma zsl_insert_ssorted l s e :
  ssorted l -> (forall z, In z l -> member z <> e) -> ssorted (zsl_insert l s e).
Proof.
  induction l as [|y r IH]; simpl; intros Hs Hm.
  - split; [constructor|exact I].
  - destruct Hs as [F S]. destruct (before y s e) eqn:E.
    + apply before_spec in E. simpl. split.
      * rewrite Forall_forall in F |- *. intros w Hw. apply zsl_insert_in in Hw.
        destruct Hw as [->|Hw]; [exact E|apply F; exact Hw].
      * apply IH; [exact S|]. intros w Hw. apply Hm. right. exact Hw.
    + assert (Hlt : klt (s, e) y).
      { assert (Hn : ~ klt y (s, e)) by (intros H; apply before_spec in H; congruence).
        assert (Hne : member y <> e) by (apply Hm; left; reflexivity).
        unfold klt in *. simpl in *. lia. }
      simpl. split; [|split; assumption].
      constructor; [exact Hlt|].
      rewrite Forall_forall in F |- *. intros w Hw. eapply klt_trans; [exact Hlt|apply F; exact Hw].
Qed.

(* ---------------------------------------------------------------- Delete *)
Lemma zsl_delete_present l s e : ssorted l -> In (s, e) l ->
  exists l', zsl_delete l s e = (l', true) /\ ssorted l' /\
             (forall x, In x l' <-> In x l /\ x <> (s, e)).
Proof.
  induction l as [|y r IH]; simpl; intros Hs Hin.
  - contradiction.
  - destruct Hs as [F S]. rewrite Forall_forall in F.
    destruct (before y s e) eqn:E.
    + apply before_spec in E.
      assert (Hin' : In (s, e) r).
      { destruct Hin as [->|H]; [exfalso; apply (klt_irrefl _ E)|exact H]. }
      destruct (IH S Hin') as (l' & -> & Hs' & Hl').
      exists (y :: l'). split; [reflexivity|]. split.
      * simpl. split; [|exact Hs']. rewrite Forall_forall. intros w Hw.
        apply F. apply Hl' in Hw. tauto.
      * intros x. simpl. rewrite Hl'. split.
        -- intros [->|[H1 H2]]; [split; [auto|]|auto].
           intros ->. apply (klt_irrefl _ E).
        -- intros [[->|H1] H2]; auto.
    + assert (Hy : y = (s, e)).
      { destruct Hin as [H|H]; [exact H|]. exfalso.
        apply F in H. apply before_spec in H. congruence. }
      subst y. simpl. rewrite Z.eqb_refl, Z.eqb_refl. simpl.
      exists r. split; [reflexivity|]. split; [exact S|].
      intros x. split.
      * intros Hx. split; [auto|]. intros ->. apply (klt_irrefl (s, e)). apply F. exact Hx.
      * intros [[<-|Hx] Hne]; [congruence|exact Hx].
Qed.

(* ---------------------------------------------------------------- GetRank *)
Lemma rank_scan_stop l s e r x :
  ssorted l -> (forall y, In y l -> klt (s, e) y) -> rank_scan l s e r x = (r, x).
Proof.
  destruct l as [|y t]; simpl; intros Hs Hgt.
  - reflexivity.
  - assert (Hn : before_eq y s e = false).
    { destruct (before_eq y s e) eqn:E; [|reflexivity]. exfalso.
      apply before_eq_spec in E. specialize (Hgt y (or_introl eq_refl)).
      destruct E as [E| ->]; [apply (klt_irrefl y); eapply klt_trans; eassumption|apply (klt_irrefl _ Hgt)]. }
    rewrite Hn. reflexivity.
Qed.

Lemma zsl_rank_at A b R : ssorted (A ++ b :: R) ->
  zsl_rank (A ++ b :: R) (score b) (member b) = zlen A + 1.
Proof.
  intros Hs. unfold zsl_rank.
  assert (Hgen : forall r x, rank_scan (A ++ b :: R) (score b) (member b) r x = (r + zlen A + 1, Some b)).
  { apply ssorted_app in Hs. destruct Hs as (HA & HbR & Hcross).
    clear HA. induction A as [|a A IH]; intros r x.
    - simpl. assert (Hb : before_eq b (score b) (member b) = true).
      { apply before_eq_spec. right. destruct b; reflexivity. }
      rewrite Hb. simpl in HbR. destruct HbR as [F S]. rewrite Forall_forall in F.
      rewrite rank_scan_stop; [f_equal; rewrite zlen_nil; lia|exact S|].
      intros y Hy. destruct b; simpl. apply F. exact Hy.
    - simpl. assert (Ha : before_eq a (score b) (member b) = true).
      { apply before_eq_spec. left. destruct b; simpl. apply Hcross; simpl; auto. }
      rewrite Ha. rewrite IH.
      + f_equal. rewrite zlen_cons. lia.
      + intros a' b' Ha' Hb'. apply Hcross; simpl; auto. }
  rewrite (Hgen 0 None). rewrite Z.eqb_refl. lia.
Qed.

Lemma zsl_rank_absent_member l s e :
  (forall y, In y l -> member y <> e) -> zsl_rank l s e = 0.
Proof.
  intros Hm. unfold zsl_rank.
  assert (Hgen : forall r x, (match x with Some y => member y <> e | None => True end) ->
            match rank_scan l s e r x with (_, Some y) => member y <> e | (_, None) => True end).
  { induction l as [|a t IH]; intros r x Hx; simpl.
    - exact Hx.
    - destruct (before_eq a s e).
      + apply IH; [intros; apply Hm; right; assumption|]. apply Hm. left. reflexivity.
      + exact Hx. }
  specialize (Hgen 0 None I). destruct (rank_scan l s e 0 None) as [rk [y|]]; [|reflexivity].
  destruct (Z.eqb_spec (member y) e); [contradiction|reflexivity].
Qed.

Lemma index_of_at (e : Z) (A : list Z) (R : list Z) k :
  ~ In e A -> index_of e (A ++ e :: R) k = Some (k + zlen A).
Proof.
  revert k. induction A as [|a A IH]; intros k Hni; simpl.
  - rewrite Z.eqb_refl. f_equal. rewrite zlen_nil. lia.
  - destruct (Z.eqb_spec a e) as [->|Hne]; [exfalso; apply Hni; left; reflexivity|].
    rewrite IH by (intros H; apply Hni; right; exact H). f_equal. rewrite zlen_cons. lia.
Qed.

Lemma index_of_absent (e : Z) (l : list Z) k : ~ In e l -> index_of e l k = None.
Proof.
  revert k. induction l as [|a l IH]; intros k Hni; simpl.
  - reflexivity.
  - destruct (Z.eqb_spec a e) as [->|Hne]; [exfalso; apply Hni; left; reflexivity|].
    apply IH. intros H. apply Hni. right. exact H.
Qed.

(* ---------------------------------------------------------------- score ranges *)
(* a strictly sorted list splits into the entries below, inside and above a score range *)
Lemma split3 l min max : ssorted l -> min <= max ->
  exists A B C, l = A ++ B ++ C /\
    Forall (fun x => score x < min) A /\
    Forall (fun x => min <= score x <= max) B /\
    Forall (fun x => max < score x) C.
Proof.
  induction l as [|x r IH]; intros Hs Hmm.
  - exists [], [], []. repeat split; constructor.
  - simpl in Hs. destruct Hs as [F S]. rewrite Forall_forall in F.
    destruct (IH S Hmm) as (A & B & C & -> & HA & HB & HC).
    destruct (Z_lt_dec (score x) min) as [H1|H1].
    + exists (x :: A), B, C. repeat split; auto.
    + assert (A = []) as ->.
      { destruct A as [|a A]; [reflexivity|]. exfalso.
        inversion HA as [|? ? Ha _]; subst.
        assert (Hk : klt x a) by (apply F; left; reflexivity).
        apply klt_score in Hk. lia. }
      destruct (Z_le_dec (score x) max) as [H2|H2].
      * exists [], (x :: B), C. repeat split; auto. constructor; [lia|exact HB].
      * assert (B = []) as ->.
        { destruct B as [|b B]; [reflexivity|]. exfalso.
          inversion HB as [|? ? Hb _]; subst.
          assert (Hk : klt x b) by (apply F; left; reflexivity).
          apply klt_score in Hk. lia. }
        exists [], [], (x :: C). repeat split; auto. constructor; [lia|exact HC].
Qed.

Lemma filter_all {X} (f : X -> bool) l : Forall (fun x => f x = true) l -> filter f l = l.
Proof. induction 1; simpl; [reflexivity|]. rewrite H. congruence. Qed.

Lemma filter_none {X} (f : X -> bool) l : Forall (fun x => f x = false) l -> filter f l = [].
Proof. induction 1; simpl; [reflexivity|]. rewrite H. assumption. Qed.

Lemma filter_split3 A B C min max :
  Forall (fun x => score x < min) A ->
  Forall (fun x => min <= score x <= max) B ->
  Forall (fun x => max < score x) C ->
  filter (in_score min max) (A ++ B ++ C) = B /\
  filter (fun x => negb (in_score min max x)) (A ++ B ++ C) = A ++ C.
Proof.
  intros HA HB HC. rewrite !filter_app.
  assert (EA : forall x, score x < min -> in_score min max x = false).
  { intros x H. unfold in_score. destruct (Z.leb_spec min (score x)); [lia|reflexivity]. }
  assert (EB : forall x, min <= score x <= max -> in_score min max x = true).
  { intros x H. unfold in_score. apply andb_true_iff. split; apply Z.leb_le; lia. }
  assert (EC : forall x, max < score x -> in_score min max x = false).
  { intros x H. unfold in_score. destruct (Z.leb_spec (score x) max); [lia|apply andb_false_r]. }
  split.
  - rewrite (filter_none _ A), (filter_all _ B), (filter_none _ C), app_nil_r; [reflexivity| | |].
    + eapply Forall_impl; [|exact HC]. intros; auto.
    + eapply Forall_impl; [|exact HB]. intros; auto.
    + eapply Forall_impl; [|exact HA]. intros; auto.
  - rewrite (filter_all _ A), (filter_none _ B), (filter_all _ C); [reflexivity| | |].
    + eapply Forall_impl; [|exact HC]. intros x H. simpl in H. rewrite EC by exact H. reflexivity.
    + eapply Forall_impl; [|exact HB]. intros x H. simpl in H. rewrite EB by exact H. reflexivity.
    + eapply Forall_impl; [|exact HA]. intros x H. simpl in H. rewrite EA by exact H. reflexivity.
Qed.

Lemma skip_lt_app A X min : Forall (fun x => score x < min) A -> skip_lt (A ++ X) min = skip_lt X min.
Proof.
  induction 1 as [|a A Ha _ IH]; simpl; [reflexivity|].
  destruct (Z.ltb_spec (score a) min); [exact IH|lia].
Qed.

Lemma skip_lt_stop X min : match X with [] => True | x :: _ => min <= score x end -> skip_lt X min = X.
Proof.
  destruct X as [|x r]; simpl; intros H; [reflexivity|].
  destruct (Z.ltb_spec (score x) min); [lia|reflexivity].
Qed.

Lemma last_le_app A X max acc : Forall (fun x => score x <= max) A ->
  last_le (A ++ X) max acc = last_le X max (rev A ++ acc).
Proof.
  intros H. revert acc. induction H as [|a A Ha _ IH]; intros acc; simpl; [reflexivity|].
  destruct (Z.leb_spec (score a) max); [|lia].
  rewrite IH, <- app_assoc. reflexivity.
Qed.

Lemma last_le_stop X max acc : match X with [] => True | x :: _ => max < score x end -> last_le X max acc = acc.
Proof.
  destruct X as [|x r]; simpl; intros H; [reflexivity|].
  destruct (Z.leb_spec (score x) max); [lia|reflexivity].
Qed.

Lemma take_while_le_spec B C max :
  Forall (fun x => score x <= max) B -> match C with [] => True | x :: _ => max < score x end ->
  take_while_le (B ++ C) max = map member B.
Proof.
  intros HB HC. induction HB as [|b B Hb _ IH]; simpl.
  - destruct C as [|c C]; simpl; [reflexivity|]. destruct (Z.gtb_spec (score c) max); [reflexivity|lia].
  - destruct (Z.gtb_spec (score b) max); [lia|]. rewrite IH. reflexivity.
Qed.

Lemma take_while_ge_spec B A min :
  Forall (fun x => min <= score x) B -> match A with [] => True | x :: _ => score x < min end ->
  take_while_ge (B ++ A) min = map member B.
Proof.
  intros HB HA. induction HB as [|b B Hb _ IH]; simpl.
  - destruct A as [|a A]; simpl; [reflexivity|]. destruct (Z.ltb_spec (score a) min); [reflexivity|lia].
  - destruct (Z.ltb_spec (score b) min); [lia|]. rewrite IH. reflexivity.
Qed.

(* ---------------------------------------------------------------- range deletion *)
Lemma del_while_le_spec B C max :
  Forall (fun x => score x <= max) B -> match C with [] => True | x :: _ => max < score x end ->
  del_while_le (B ++ C) max = (C, B).
Proof.
  intros HB HC. induction HB as [|b B Hb _ IH]; simpl.
  - destruct C as [|c C]; simpl; [reflexivity|]. destruct (Z.leb_spec (score c) max); [lia|reflexivity].
  - destruct (Z.leb_spec (score b) max); [|lia]. rewrite IH. reflexivity.
Qed.

Lemma del_by_score_spec A B C min max : min <= max ->
  Forall (fun x => score x < min) A ->
  Forall (fun x => min <= score x <= max) B ->
  Forall (fun x => max < score x) C ->
  del_by_score (A ++ B ++ C) min max = (A ++ C, B).
Proof.
  intros Hmm HA HB HC. induction HA as [|a A Ha _ IH]; simpl.
  - assert (Hd : del_while_le (B ++ C) max = (C, B)).
    { apply del_while_le_spec.
      - eapply Forall_impl; [|exact HB]. simpl. intros; lia.
      - destruct C; [exact I|]. inversion HC; subst. assumption. }
    cbn [app]. destruct (B ++ C) as [|x r] eqn:E; cbn [del_by_score].
    + destruct B; [|discriminate]. destruct C; [|discriminate]. reflexivity.
    + destruct (Z.ltb_spec (score x) min) as [Hlt|Hge]; [|exact Hd].
      exfalso. destruct B as [|b B]; simpl in E.
      * subst C. inversion HC; subst. lia.
      * injection E as -> _. inversion HB; subst. lia.
  - destruct (Z.ltb_spec (score a) min); [|lia]. rewrite IH. reflexivity.
Qed.

Lemma del_ranks_spec l : forall t stop, t - 1 <= stop ->
  del_ranks l t stop = (skipn (Z.to_nat (stop - t + 1)) l, firstn (Z.to_nat (stop - t + 1)) l).
Proof.
  induction l as [|x r IH]; intros t stop H; simpl.
  - rewrite skipn_nil, firstn_nil. reflexivity.
  - destruct (Z.leb_spec t stop).
    + rewrite IH by lia.
      replace (Z.to_nat (stop - t + 1)) with (S (Z.to_nat (stop - (t + 1) + 1))) by lia.
      reflexivity.
    + replace (stop - t + 1) with 0 by lia. reflexivity.
Qed.

Lemma del_by_rank_spec l : forall t start stop, 0 <= start - 1 - t -> start - 1 <= stop ->
  del_by_rank l t start stop =
    (firstn (Z.to_nat (start - 1 - t)) l ++ skipn (Z.to_nat (stop - start + 1)) (skipn (Z.to_nat (start - 1 - t)) l),
     firstn (Z.to_nat (stop - start + 1)) (skipn (Z.to_nat (start - 1 - t)) l)).
Proof.
  induction l as [|x r IH]; intros t start stop H1 H2; simpl.
  - rewrite !skipn_nil, !firstn_nil. reflexivity.
  - destruct (Z.ltb_spec (t + 1) start).
    + rewrite IH by lia.
      replace (Z.to_nat (start - 1 - t)) with (S (Z.to_nat (start - 1 - (t + 1)))) by lia.
      reflexivity.
    + replace (start - 1 - t) with 0 by lia. cbn [Z.to_nat firstn skipn app].
      change (del_ranks (x :: r) (t + 1) stop = (skipn (Z.to_nat (stop - start + 1)) (x :: r), firstn (Z.to_nat (stop - start + 1)) (x :: r))).
      rewrite del_ranks_spec by lia. replace (stop - (t + 1) + 1) with (stop - start + 1) by lia. reflexivity.
Qed.

(* ---------------------------------------------------------------- walks *)
Lemma walk_spec l n : (n <= length l)%nat -> walk l n = Some (map member (firstn n l)).
Proof.
  revert l. induction n as [|n IH]; intros l H.
  - destruct l; reflexivity.
  - destruct l as [|x r]; simpl in *; [lia|]. rewrite IH by lia. reflexivity.
Qed.
