(* C11 — the (score, member) order, strictly sorted lists, and the reference ranking:
   insertion sort of a table with distinct members is the unique strictly sorted list with
   the same entries. *)
From Coq Require Import ZArith List Bool Lia Permutation.
From FV Require Import C11.Spec.
Import ListNotations.
Open Scope Z_scope.

Definition klt (a b : entry) : Prop :=
  score a < score b \/ (score a = score b /\ member a < member b).

Lemma klt_trans a b c : klt a b -> klt b c -> klt a c.
Proof. unfold klt. lia. Qed.

Lemma klt_irrefl a : ~ klt a a.
Proof. unfold klt. lia. Qed.

Lemma klt_score a b : klt a b -> score a <= score b.
Proof. unfold klt. lia. Qed.

Lemma entry_eq (a b : entry) : score a = score b -> member a = member b -> a = b.
Proof. destruct a, b; simpl; intros; subst; reflexivity. Qed.

Lemma kle_spec a b : kle a b = true <-> (klt a b \/ a = b).
Proof.
  unfold kle, klt. split.
  - intros H. apply orb_true_iff in H. destruct H as [H|H].
    + left. left. lia.
    + apply andb_true_iff in H. destruct H as [H1 H2].
      destruct (Z.eq_dec (member a) (member b)) as [E|E].
      * right. apply entry_eq; lia.
      * left. right. lia.
  - intros [[H|[H1 H2]]| ->].
    + apply orb_true_iff. left. lia.
    + apply orb_true_iff. right. apply andb_true_iff. split; lia.
    + apply orb_true_iff. right. apply andb_true_iff. split; lia.
Qed.

Lemma kle_false a b : kle a b = false -> klt b a.
Proof.
  unfold kle, klt. intros H. apply orb_false_iff in H. destruct H as [H1 H2].
  apply andb_false_iff in H2. destruct H2 as [H2|H2]; lia.
Qed.

(* strictly sorted by (score, member) *)
Fixpoint ssorted (l : list entry) : Prop :=
  match l with
  | [] => True
  | x :: r => Forall (klt x) r /\ ssorted r
  end.

Lemma ssorted_app l1 l2 :
  ssorted (l1 ++ l2) <-> ssorted l1 /\ ssorted l2 /\ (forall a b, In a l1 -> In b l2 -> klt a b).
Proof.
  induction l1 as [|x l1 IH]; simpl.
  - split; [intros H; repeat split; auto; intros ? ? []|intros (_ & H & _); exact H].
  - rewrite Forall_app, IH. split.
    + intros ((H1 & H2) & H3 & H4 & H5). repeat split; auto.
      intros a b [<-|Ha] Hb; [rewrite Forall_forall in H2; auto|auto].
    + intros ((H1 & H2) & H3 & H4). repeat split; auto.
      rewrite Forall_forall. intros b Hb. apply H4; auto.
Qed.

Lemma ssorted_nodup l : ssorted l -> NoDup l.
Proof.
  induction l as [|x r IH]; simpl; intros H; constructor.
  - destruct H as [H _]. rewrite Forall_forall in H. intros Hin. apply (klt_irrefl x). auto.
  - apply IH. tauto.
Qed.

(* two strictly sorted lists with the same entries are equal *)
Lemma ssorted_unique l1 : forall l2,
  ssorted l1 -> ssorted l2 -> (forall x, In x l1 <-> In x l2) -> l1 = l2.
Proof.
  induction l1 as [|x r1 IH]; intros [|y r2] H1 H2 Hin.
  - reflexivity.
  - exfalso. apply (proj2 (Hin y)). left. reflexivity.
  - exfalso. apply (proj1 (Hin x)). left. reflexivity.
  - simpl in H1, H2. destruct H1 as [F1 S1], H2 as [F2 S2].
    rewrite Forall_forall in F1, F2.
    assert (x = y).
    { destruct (proj1 (Hin x) (or_introl eq_refl)) as [E|Hx]; [auto|].
      destruct (proj2 (Hin y) (or_introl eq_refl)) as [E|Hy]; [auto|].
      exfalso. apply (klt_irrefl x). eapply klt_trans; [apply F1; exact Hy|apply F2; exact Hx]. }
    subst y. f_equal. apply IH; auto.
    intros z. split; intros Hz.
    + destruct (proj1 (Hin z) (or_intror Hz)) as [E|Hz']; [|exact Hz'].
      subst z. exfalso. apply (klt_irrefl x). apply F1. exact Hz.
    + destruct (proj2 (Hin z) (or_intror Hz)) as [E|Hz']; [|exact Hz'].
      subst z. exfalso. apply (klt_irrefl x). apply F2. exact Hz.
Qed.

(* ---- the reference ranking *)
Lemma ins_in x y l : In x (ins y l) <-> x = y \/ In x l.
Proof.
  induction l as [|z r IH]; simpl.
  - split; [intros [H|[]]; auto|intros [H|[]]; auto].
  - destruct (kle y z); simpl; rewrite ?IH; split; intros H; intuition.
Qed.

Lemma ranking_in x st : In x (ranking st) <-> In x st.
Proof.
  induction st as [|y r IH]; simpl.
  - tauto.
  - rewrite ins_in, IH. split; intros [H|H]; auto.
Qed.

Lemma ins_perm y l : Permutation (ins y l) (y :: l).
Proof.
  induction l as [|z r IH]; simpl.
  - apply Permutation_refl.
  - destruct (kle y z).
    + apply Permutation_refl.
    + eapply Permutation_trans; [apply perm_skip; exact IH|apply perm_swap].
Qed.

Lemma ranking_perm st : Permutation (ranking st) st.
Proof.
  induction st as [|y r IH]; simpl.
  - constructor.
  - eapply Permutation_trans; [apply ins_perm|apply perm_skip; exact IH].
Qed.

Lemma ins_ssorted y l :
  ssorted l -> (forall z, In z l -> member z <> member y) -> ssorted (ins y l).
Proof.
  induction l as [|z r IH]; simpl; intros Hs Hm.
  - split; [constructor|exact I].
  - destruct Hs as [F S]. destruct (kle y z) eqn:E.
    + simpl. assert (Hyz : klt y z).
      { apply kle_spec in E. destruct E as [E| ->]; [exact E|].
        exfalso. apply (Hm z); auto. }
      split; [|split; assumption].
      constructor; [exact Hyz|].
      rewrite Forall_forall in F |- *. intros w Hw. eapply klt_trans; [exact Hyz|apply F; exact Hw].
    + simpl. apply kle_false in E. split.
      * rewrite Forall_forall in F |- *. intros w Hw. apply ins_in in Hw.
        destruct Hw as [->|Hw]; [exact E|apply F; exact Hw].
      * apply IH; [exact S|]. intros w Hw. apply Hm. right. exact Hw.
Qed.

Lemma ranking_ssorted st : NoDup (map member st) -> ssorted (ranking st).
Proof.
  induction st as [|y r IH]; simpl; intros Hnd.
  - exact I.
  - inversion Hnd as [|? ? Hni Hnd']; subst.
    apply ins_ssorted; [apply IH; exact Hnd'|].
    intros z Hz E. apply Hni. rewrite <- E. apply in_map. apply ranking_in. exact Hz.
Qed.

(* the list the model keeps is the ranking of any table with the same entries *)
Lemma ssorted_is_ranking l st :
  ssorted l -> NoDup (map member st) -> (forall x, In x l <-> In x st) -> l = ranking st.
Proof.
  intros Hs Hnd Hin. apply ssorted_unique; [exact Hs|apply ranking_ssorted; exact Hnd|].
  intros x. rewrite ranking_in. apply Hin.
Qed.

(* counting through a permutation *)
Lemma perm_filter_length {X} (f : X -> bool) l1 l2 :
  Permutation l1 l2 -> length (filter f l1) = length (filter f l2).
Proof.
  induction 1; simpl.
  - reflexivity.
  - destruct (f x); simpl; congruence.
  - destruct (f x), (f y); simpl; reflexivity.
  - congruence.
Qed.

(* distinct members: an entry is determined by its member *)
Lemma nodup_member_inj l a b :
  NoDup (map member l) -> In a l -> In b l -> member a = member b -> a = b.
Proof.
  induction l as [|x r IH]; simpl; intros Hnd Ha Hb E.
  - contradiction.
  - inversion Hnd as [|? ? Hni Hnd']; subst.
    destruct Ha as [->|Ha], Hb as [->|Hb].
    + reflexivity.
    + exfalso. apply Hni. rewrite E. apply in_map. exact Hb.
    + exfalso. apply Hni. rewrite <- E. apply in_map. exact Ha.
    + apply IH; assumption.
Qed.

Lemma perm_nodup_members l1 l2 :
  Permutation l1 l2 -> NoDup (map member l1) -> NoDup (map member l2).
Proof.
  intros Hp Hnd. eapply Permutation_NoDup; [apply Permutation_map; exact Hp|exact Hnd].
Qed.

Lemma zlen_nonneg {X} (l : list X) : 0 <= zlen l.
Proof. unfold zlen. lia. Qed.
