(* C11 — executable model of collections/zset/{zset,zskiplist}.go, stage 1 of DESIGN 5.C11:
   the skip list is the list of its nodes along level 0, every search is the level-0 scan
   written with the code's own comparison operators (score with < / <=, members through
   CompareTo = integer order), SortedSet's index normalisation is transcribed line by line,
   and the member -> score table (a Go map) is an association list kept in step.
   The express lanes (heights, spans, backward links) are not modelled; Run.v validates
   them on the probe output of every run.  Go's int/int64 are Z.  A nil dereference is the
   outcome OCrash.  Nothing is proved in this file. *)
From Coq Require Import ZArith List Bool.
From FV Require Import C11.Spec.
Import ListNotations.
Open Scope Z_scope.

Record zset : Type := mkZ {
  zsl : list entry;          (* nodes head.level[0].forward, .forward, ... : (Score, Ele) *)
  dict : list (Z * Z)        (* the map s.dict as (member, score) pairs, distinct members *)
}.

Definition empty : zset := mkZ [] [].

(* ---- the map *)
Definition dict_get (d : list (Z * Z)) (e : Z) : option Z :=
  match find (fun p => fst p =? e) d with Some p => Some (snd p) | None => None end.
Definition dict_del (d : list (Z * Z)) (e : Z) : list (Z * Z) :=
  filter (fun p => negb (fst p =? e)) d.
Definition dict_set (d : list (Z * Z)) (e s : Z) : list (Z * Z) := (e, s) :: dict_del d e.

(* ---- zskiplist.go, level 0 *)
(* forward.Score < score || (forward.Score == score && forward.Ele.CompareTo(ele) < 0) *)
Definition before (x : entry) (s e : Z) : bool :=
  (score x <? s) || ((score x =? s) && (member x <? e)).
(* ... CompareTo(ele) <= 0  (GetRank) *)
Definition before_eq (x : entry) (s e : Z) : bool :=
  (score x <? s) || ((score x =? s) && (member x <=? e)).

(* Insert(score, ele) *)
Fixpoint zsl_insert (l : list entry) (s e : Z) : list entry :=
  match l with
  | [] => [(s, e)]
  | x :: r => if before x s e then x :: zsl_insert r s e else (s, e) :: l
  end.

(* Delete(score, ele): the node after the scan is deleted when it has that score and
   member; the boolean is "a node was returned" *)
Fixpoint zsl_delete (l : list entry) (s e : Z) : list entry * bool :=
  match l with
  | [] => ([], false)
  | x :: r =>
      if before x s e then let '(r', b) := zsl_delete r s e in (x :: r', b)
      else if (s =? score x) && (member x =? e) then (r, true)
      else (l, false)
  end.

(* DeleteRangeByScore(min, max): skip the nodes before the range, then delete while
   Score <= max.  Returns (kept, removed). *)
Fixpoint del_while_le (l : list entry) (max : Z) : list entry * list entry :=
  match l with
  | [] => ([], [])
  | x :: r => if score x <=? max
              then let '(k, rm) := del_while_le r max in (k, x :: rm)
              else (l, [])
  end.

Fixpoint del_by_score (l : list entry) (min max : Z) : list entry * list entry :=
  match l with
  | [] => ([], [])
  | x :: r => if score x <? min
              then let '(k, rm) := del_by_score r min max in (x :: k, rm)
              else del_while_le l max
  end.

(* DeleteRangeByRank(start, end), ranks from 1: at level 0 every span is 1 *)
Fixpoint del_ranks (l : list entry) (traversed stop : Z) : list entry * list entry :=
  match l with
  | [] => ([], [])
  | x :: r => if traversed <=? stop
              then let '(k, rm) := del_ranks r (traversed + 1) stop in (k, x :: rm)
              else (l, [])
  end.

Fixpoint del_by_rank (l : list entry) (traversed start stop : Z) : list entry * list entry :=
  match l with
  | [] => ([], [])
  | x :: r => if traversed + 1 <? start
              then let '(k, rm) := del_by_rank r (traversed + 1) start stop in (x :: k, rm)
              else del_ranks l (traversed + 1) stop
  end.

(* GetRank(score, ele), ranks from 1, 0 = not found *)
Fixpoint rank_scan (l : list entry) (s e : Z) (rank : Z) (x : option entry) : Z * option entry :=
  match l with
  | [] => (rank, x)
  | y :: r => if before_eq y s e then rank_scan r s e (rank + 1) (Some y) else (rank, x)
  end.

Definition zsl_rank (l : list entry) (s e : Z) : Z :=
  match rank_scan l s e 0 None with
  | (rank, Some x) => if member x =? e then rank else 0
  | (_, None) => 0          (* x is the head: x.Ele == nil *)
  end.

(* IsInRange / FirstInRange / LastInRange *)
Definition is_in_range (l : list entry) (min max : Z) : bool :=
  if min >? max then false
  else match rev l with
       | [] => false                                   (* tail == nil *)
       | t :: _ =>
           if score t <? min then false
           else match l with
                | [] => false
                | f :: _ => negb (score f >? max)
                end
       end.

Fixpoint skip_lt (l : list entry) (min : Z) : list entry :=
  match l with
  | [] => []
  | x :: r => if score x <? min then skip_lt r min else l
  end.

(* a node pointer is represented by the chain that starts at the node: the suffix of the
   level-0 list for forward walks, the reversed prefix for backward walks; [] = nil *)
Definition first_in_range (l : list entry) (min max : Z) : list entry :=
  if is_in_range l min max then
    match skip_lt l min with
    | [] => []
    | x :: r => if score x >? max then [] else x :: r
    end
  else [].

(* the scan of LastInRange: the last node with Score <= max, as the reversed prefix
   ending at it ([] = still at the head) *)
Fixpoint last_le (l : list entry) (max : Z) (acc : list entry) : list entry :=
  match l with
  | [] => acc
  | y :: r => if score y <=? max then last_le r max (y :: acc) else acc
  end.

Definition last_in_range (l : list entry) (min max : Z) : list entry :=
  if is_in_range l min max then
    match last_le l max [] with
    | [] => []          (* unreachable: IsInRange has established first.Score <= max *)
    | x :: b => if score x <? min then [] else x :: b
    end
  else [].

(* following forward / backward links n times from a node, collecting Ele; None = nil
   dereference *)
Fixpoint walk (l : list entry) (n : nat) : option (list Z) :=
  match n with
  | O => Some []
  | S n' => match l with
            | [] => None
            | x :: r => match walk r n' with Some t => Some (member x :: t) | None => None end
            end
  end.

(* GetElementByRank(rank) for rank >= 1: the suffix of the chain that starts at that node
   (forward walk) or the reversed prefix that ends at it (backward walk); [] = nil *)
Definition from_rank_fwd (l : list entry) (rank : Z) : list entry :=
  if (1 <=? rank) && (rank <=? zlen l) then skipn (Z.to_nat (rank - 1)) l else [].
Definition from_rank_bwd (l : list entry) (rank : Z) : list entry :=
  if (1 <=? rank) && (rank <=? zlen l) then rev (firstn (Z.to_nat rank) l) else [].

(* ---- zset.go *)
Definition add (z : zset) (e s : Z) : zset * out :=
  match dict_get (dict z) e with
  | Some cur =>
      if negb (cur =? s) then
        match zsl_delete (zsl z) cur e with
        | (l1, true) => (mkZ (zsl_insert l1 s e) (dict_set (dict z) e s), OBool true)
        | (_, false) => (z, OCrash)                 (* znode.Ele with znode == nil *)
        end
      else (z, OBool true)
  | None => (mkZ (zsl_insert (zsl z) s e) (dict_set (dict z) e s), OBool true)
  end.

Definition remove (z : zset) (e : Z) : zset * out :=
  match dict_get (dict z) e with
  | Some s => (mkZ (fst (zsl_delete (zsl z) s e)) (dict_del (dict z) e), OBool true)
  | None => (z, OBool false)
  end.

Definition dict_del_all (d : list (Z * Z)) (rm : list entry) : list (Z * Z) :=
  fold_left (fun d x => dict_del d (member x)) rm d.

Definition rem_by_score (z : zset) (min max : Z) : zset * out :=
  if min >? max then (z, OInt 0)
  else let '(k, rm) := del_by_score (zsl z) min max in
       (mkZ k (dict_del_all (dict z) rm), OInt (zlen rm)).

Definition rem_by_rank (z : zset) (start stop : Z) : zset * out :=
  let llen := zlen (zsl z) in
  let start := if start <? 0 then llen + start else start in
  let stop := if stop <? 0 then llen + stop else stop in
  let start := if start <? 0 then 0 else start in
  if (start >? stop) || (start >=? llen) then (z, OInt 0)
  else
    let stop := if stop >=? llen then llen - 1 else stop in
    let '(k, rm) := del_by_rank (zsl z) 0 (start + 1) (stop + 1) in
    (mkZ k (dict_del_all (dict z) rm), OInt (zlen rm)).

Definition count (z : zset) (min max : Z) : Z :=
  if min >? max then 0
  else
    let l := zsl z in
    match first_in_range l min max with
    | zn :: _ =>
        let rank := zsl_rank l (score zn) (member zn) in
        let cnt := zlen l - (rank - 1) in
        match last_in_range l min max with
        | zn2 :: _ => cnt - (zlen l - zsl_rank l (score zn2) (member zn2))
        | [] => cnt
        end
    | [] => 0
    end.

Definition get_rank (z : zset) (e : Z) (reverse : bool) : Z :=
  match dict_get (dict z) e with
  | Some s =>
      let llen := zlen (zsl z) in
      let rank := zsl_rank (zsl z) s e in
      if reverse then llen - rank else rank - 1
  | None => -1
  end.

Definition get_score (z : zset) (e : Z) : Z :=
  match dict_get (dict z) e with Some s => s | None => 0 end.

Definition get_range (z : zset) (start stop : Z) (reverse : bool) : out :=
  let l := zsl z in
  let llen := zlen l in
  let start := if start <? 0 then llen + start else start in
  let stop := if stop <? 0 then llen + stop else stop in
  let start := if start <? 0 then 0 else start in
  if (start >? stop) || (start >=? llen) then OList []
  else
    let stop := if stop >=? llen then llen - 1 else stop in
    let rangeLen := stop - start + 1 in
    let chain :=
      if reverse then (if start >? 0 then from_rank_bwd l (llen - start) else rev l)
      else (if start >? 0 then from_rank_fwd l (start + 1) else l) in
    match walk chain (Z.to_nat rangeLen) with
    | Some r => OList r
    | None => OCrash
    end.

Fixpoint take_while_ge (l : list entry) (min : Z) : list Z :=
  match l with
  | [] => []
  | x :: r => if score x <? min then [] else member x :: take_while_ge r min
  end.
Fixpoint take_while_le (l : list entry) (max : Z) : list Z :=
  match l with
  | [] => []
  | x :: r => if score x >? max then [] else member x :: take_while_le r max
  end.

Definition get_range_by_score (z : zset) (min max : Z) (reverse : bool) : out :=
  if min >? max then OList []
  else
    let l := zsl z in
    if reverse then OList (take_while_ge (last_in_range l min max) min)
    else OList (take_while_le (first_in_range l min max) max).

Definition step (z : zset) (o : op) : zset * out :=
  match o with
  | Add e s => add z e s
  | Remove e => remove z e
  | RemByScore min max => rem_by_score z min max
  | RemByRank a b => rem_by_rank z a b
  | Count min max => (z, OInt (count z min max))
  | GetRank e r => (z, OInt (get_rank z e r))
  | GetScore e => (z, OInt (get_score z e))
  | GetRange a b r => (z, get_range z a b r)
  | GetRangeByScore min max r => (z, get_range_by_score z min max r)
  | Len => (z, OInt (zlen (zsl z)))
  end.

Fixpoint run (z : zset) (ops : list op) : zset * list out :=
  match ops with
  | [] => (z, [])
  | o :: r => let '(z1, x) := step z o in
              let '(z2, xs) := run z1 r in (z2, x :: xs)
  end.
