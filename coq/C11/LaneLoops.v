(* C11, stage 2 — what the per-level loops of Insert and deleteNode do to the cells. *)
From Coq Require Import ZArith List Bool Lia.
From FV Require Import Generated.Consts C11.Spec C11.Model C11.LaneModel C11.LaneHeap.
Import ListNotations.
Open Scope Z_scope.

(* z' differs from z in cells only *)
Definition same_nodes (z z' : lzsl) : Prop :=
  (forall e, nsc z' e = nsc z e) /\ (forall e, nbk z' e = nbk z e) /\ (forall e, nht z' e = nht z e) /\
  ltail z' = ltail z /\ llen z' = llen z /\ llevel z' = llevel z /\ length (hlv z') = length (hlv z).

Lemma same_nodes_refl z : same_nodes z z.
Proof. repeat split. Qed.

Lemma same_nodes_trans z1 z2 z3 : same_nodes z1 z2 -> same_nodes z2 z3 -> same_nodes z1 z3.
Proof.
  intros (A1 & A2 & A3 & A4 & A5 & A6 & A7) (B1 & B2 & B3 & B4 & B5 & B6 & B7).
  repeat split; intros; congruence.
Qed.

Lemma same_nodes_set_cell z x i c : same_nodes z (set_cell z x i c).
Proof.
  destruct (misc_set_cell z x i c) as (H1 & H2 & H3 & H4).
  repeat split; intros; auto using nsc_set_cell, nbk_set_cell, nht_set_cell.
Qed.

Definition in_range (i n j : nat) : bool := (i <=? j)%nat && (j <? i + n)%nat.

Lemma in_range_spec i n j : in_range i n j = true <-> (i <= j < i + n)%nat.
Proof. unfold in_range. rewrite andb_true_iff, Nat.leb_le, Nat.ltb_lt. tauto. Qed.

Definition cell_or (z : lzsl) (r : ref) (j : nat) : lvl :=
  match cell z r j with Some c => c | None => mkLvl Nil 0 end.

(* ---------------------------------------------------------------- raise_levels *)
Lemma raise_levels_spec n : forall z a from,
  (forall j, (from <= j < from + n)%nat -> exists c, cell z Head j = Some c) ->
  exists z', raise_levels z a from n = (z', a ++ repeat (Head, 0) n) /\ same_nodes z z' /\
    forall r j, cell z' r j =
      if ref_eqb r Head && in_range from n j
      then Some (mkLvl (fwd (cell_or z Head j)) (llen z)) else cell z r j.
Proof.
  induction n as [|n IH]; intros z a from Hc.
  - exists z. simpl. rewrite app_nil_r. split; [reflexivity|]. split; [apply same_nodes_refl|].
    intros r j. replace (in_range from 0 j) with false; [rewrite andb_false_r; reflexivity|].
    symmetry. apply not_true_is_false. intros H. apply in_range_spec in H. lia.
  - cbn [raise_levels]. destruct (Hc from ltac:(lia)) as [c0 Hc0]. rewrite Hc0.
    set (z1 := set_cell z Head from (mkLvl (fwd c0) (llen z))).
    destruct (IH z1 (a ++ [(Head, 0)]) (S from)) as (z' & E & Hs & Hcells).
    { intros j Hj. unfold z1. rewrite cell_set_cell_other by (right; lia). apply Hc. lia. }
    exists z'. split; [rewrite E, <- app_assoc; reflexivity|].
    pose proof (same_nodes_set_cell z Head from (mkLvl (fwd c0) (llen z))) as Hs1. fold z1 in Hs1.
    split; [eapply same_nodes_trans; eassumption|].
    intros r j. rewrite Hcells.
    destruct Hs1 as (_ & _ & _ & _ & Hlen & _).
    destruct (ref_eqb_spec r Head) as [->|Hr]; cbn [andb].
    + destruct (in_range (S from) n j) eqn:E1.
      * apply in_range_spec in E1.
        replace (in_range from (S n) j) with true by (symmetry; apply in_range_spec; lia).
        rewrite Hlen. unfold cell_or, z1. rewrite cell_set_cell_other by (right; lia). reflexivity.
      * destruct (Nat.eq_dec j from) as [->|Hne].
        -- replace (in_range from (S n) from) with true by (symmetry; apply in_range_spec; lia).
           unfold z1. rewrite (cell_set_cell_same z Head from _ c0 Hc0). unfold cell_or. rewrite Hc0. reflexivity.
        -- replace (in_range from (S n) j) with false.
           ++ unfold z1. apply cell_set_cell_other. right. lia.
           ++ symmetry. apply not_true_is_false. intros H. apply in_range_spec in H.
              assert (in_range (S from) n j = true) by (apply in_range_spec; lia). congruence.
    + unfold z1. apply cell_set_cell_other. left. congruence.
Qed.

(* ---------------------------------------------------------------- link_levels *)
Lemma link_levels_spec e a rank0 n : forall z i,
  (forall j, (i <= j < i + n)%nat ->
     (exists c, cell z (fst (arr_get a j)) j = Some c) /\ (exists c, cell z (Node e) j = Some c) /\
     fst (arr_get a j) <> Node e) ->
  exists z', link_levels z e a rank0 i n = Some z' /\ same_nodes z z' /\
    forall r j, cell z' r j =
      if in_range i n j then
        (if ref_eqb r (Node e)
         then Some (mkLvl (fwd (cell_or z (fst (arr_get a j)) j))
                          (span (cell_or z (fst (arr_get a j)) j) - (rank0 - snd (arr_get a j))))
         else if ref_eqb r (fst (arr_get a j))
              then Some (mkLvl (Node e) (rank0 - snd (arr_get a j) + 1))
              else cell z r j)
      else cell z r j.
Proof.
  induction n as [|n IH]; intros z i Hc.
  - exists z. simpl. split; [reflexivity|]. split; [apply same_nodes_refl|].
    intros r j. replace (in_range i 0 j) with false; [reflexivity|].
    symmetry. apply not_true_is_false. intros H. apply in_range_spec in H. lia.
  - cbn [link_levels]. destruct (arr_get a i) as [u ri] eqn:Ea.
    destruct (Hc i ltac:(lia)) as ((cu & Hcu) & (cx & Hcx) & Hne). rewrite Ea in Hcu, Hne. simpl in Hcu, Hne.
    rewrite Hcu.
    set (z1 := set_cell z (Node e) i (mkLvl (fwd cu) (span cu - (rank0 - ri)))).
    set (z2 := set_cell z1 u i (mkLvl (Node e) (rank0 - ri + 1))).
    assert (Hcu1 : cell z1 u i = Some cu).
    { unfold z1. rewrite cell_set_cell_other by (left; congruence). exact Hcu. }
    destruct (IH z2 (S i)) as (z' & E & Hs & Hcells).
    { intros j Hj. destruct (Hc j ltac:(lia)) as (H1 & H2 & H3).
      unfold z2, z1. rewrite !cell_set_cell_other by (right; lia). auto. }
    exists z'. split; [exact E|]. split.
    { eapply same_nodes_trans; [|exact Hs]. eapply same_nodes_trans; apply same_nodes_set_cell. }
    intros r j. rewrite Hcells.
    destruct (in_range (S i) n j) eqn:E1.
    + apply in_range_spec in E1.
      replace (in_range i (S n) j) with true by (symmetry; apply in_range_spec; lia).
      unfold cell_or, z2, z1. rewrite !cell_set_cell_other by (right; lia). reflexivity.
    + destruct (Nat.eq_dec j i) as [->|Hne'].
      * replace (in_range i (S n) i) with true by (symmetry; apply in_range_spec; lia).
        rewrite Ea. simpl fst. simpl snd. unfold cell_or. rewrite Hcu.
        destruct (ref_eqb_spec r (Node e)) as [->|Hr].
        -- unfold z2. rewrite cell_set_cell_other by (left; congruence).
           unfold z1. apply (cell_set_cell_same z (Node e) i _ cx Hcx).
        -- destruct (ref_eqb_spec r u) as [->|Hru].
           ++ unfold z2. apply (cell_set_cell_same z1 u i _ cu Hcu1).
           ++ unfold z2, z1. rewrite !cell_set_cell_other by (left; congruence). reflexivity.
      * replace (in_range i (S n) j) with false.
        -- unfold z2, z1. rewrite !cell_set_cell_other by (right; lia). reflexivity.
        -- symmetry. apply not_true_is_false. intros H. apply in_range_spec in H.
           assert (in_range (S i) n j = true) by (apply in_range_spec; lia). congruence.
Qed.

(* ---------------------------------------------------------------- bump_levels *)
Lemma bump_levels_spec a n : forall z i,
  (forall j, (i <= j < i + n)%nat -> exists c, cell z (fst (arr_get a j)) j = Some c) ->
  exists z', bump_levels z a i n = Some z' /\ same_nodes z z' /\
    forall r j, cell z' r j =
      if in_range i n j && ref_eqb r (fst (arr_get a j))
      then Some (mkLvl (fwd (cell_or z r j)) (span (cell_or z r j) + 1))
      else cell z r j.
Proof.
  induction n as [|n IH]; intros z i Hc.
  - exists z. simpl. split; [reflexivity|]. split; [apply same_nodes_refl|].
    intros r j. replace (in_range i 0 j) with false; [reflexivity|].
    symmetry. apply not_true_is_false. intros H. apply in_range_spec in H. lia.
  - cbn [bump_levels]. destruct (arr_get a i) as [u ri] eqn:Ea.
    destruct (Hc i ltac:(lia)) as (cu & Hcu). rewrite Ea in Hcu. simpl in Hcu. rewrite Hcu.
    set (z1 := set_cell z u i (mkLvl (fwd cu) (span cu + 1))).
    destruct (IH z1 (S i)) as (z' & E & Hs & Hcells).
    { intros j Hj. unfold z1. rewrite cell_set_cell_other by (right; lia). apply Hc. lia. }
    exists z'. split; [exact E|]. split.
    { eapply same_nodes_trans; [apply same_nodes_set_cell|exact Hs]. }
    intros r j. rewrite Hcells.
    destruct (in_range (S i) n j) eqn:E1.
    + apply in_range_spec in E1.
      replace (in_range i (S n) j) with true by (symmetry; apply in_range_spec; lia).
      unfold cell_or, z1. rewrite !cell_set_cell_other by (right; lia). reflexivity.
    + cbn [andb]. destruct (Nat.eq_dec j i) as [->|Hne'].
      * replace (in_range i (S n) i) with true by (symmetry; apply in_range_spec; lia).
        rewrite Ea. simpl fst. cbn [andb].
        destruct (ref_eqb_spec r u) as [->|Hru].
        -- unfold cell_or. rewrite Hcu. unfold z1. apply (cell_set_cell_same z u i _ cu Hcu).
        -- unfold z1. apply cell_set_cell_other. left. congruence.
      * replace (in_range i (S n) j) with false.
        -- unfold z1. apply cell_set_cell_other. right. lia.
        -- symmetry. apply not_true_is_false. intros H. apply in_range_spec in H.
           assert (in_range (S i) n j = true) by (apply in_range_spec; lia). congruence.
Qed.

(* ---------------------------------------------------------------- unlink_levels *)
Lemma unlink_levels_spec x a n : forall z i,
  (forall j, (i <= j < i + n)%nat ->
     exists cu, cell z (fst (arr_get a j)) j = Some cu /\
                (fwd cu = Node x -> exists cx, cell z (Node x) j = Some cx) /\
                fst (arr_get a j) <> Node x) ->
  exists z', unlink_levels z x a i n = Some z' /\ same_nodes z z' /\
    forall r j, cell z' r j =
      if in_range i n j && ref_eqb r (fst (arr_get a j))
      then (if ref_eqb (fwd (cell_or z r j)) (Node x)
            then Some (mkLvl (fwd (cell_or z (Node x) j)) (span (cell_or z r j) + (span (cell_or z (Node x) j) - 1)))
            else Some (mkLvl (fwd (cell_or z r j)) (span (cell_or z r j) - 1)))
      else cell z r j.
Proof.
  induction n as [|n IH]; intros z i Hc.
  - exists z. simpl. split; [reflexivity|]. split; [apply same_nodes_refl|].
    intros r j. replace (in_range i 0 j) with false; [reflexivity|].
    symmetry. apply not_true_is_false. intros H. apply in_range_spec in H. lia.
  - cbn [unlink_levels]. destruct (arr_get a i) as [u ri] eqn:Ea.
    destruct (Hc i ltac:(lia)) as (cu & Hcu & Hcx & Hne). rewrite Ea in Hcu, Hne. simpl in Hcu, Hne.
    rewrite Hcu.
    set (cnew := if ref_eqb (fwd cu) (Node x)
                 then mkLvl (fwd (cell_or z (Node x) i)) (span cu + (span (cell_or z (Node x) i) - 1))
                 else mkLvl (fwd cu) (span cu - 1)).
    set (z1 := set_cell z u i cnew).
    assert (Estep : (if ref_eqb (fwd cu) (Node x)
                     then match cell z (Node x) i with
                          | Some cx => unlink_levels (set_cell z u i (mkLvl (fwd cx) (span cu + (span cx - 1)))) x a (S i) n
                          | None => None
                          end
                     else unlink_levels (set_cell z u i (mkLvl (fwd cu) (span cu - 1))) x a (S i) n)
                    = unlink_levels z1 x a (S i) n).
    { unfold z1, cnew. destruct (ref_eqb_spec (fwd cu) (Node x)) as [Ef|Ef]; [|reflexivity].
      destruct (Hcx Ef) as (cx & Hx). unfold cell_or. rewrite Hx. reflexivity. }
    rewrite Estep.
    destruct (IH z1 (S i)) as (z' & E & Hs & Hcells).
    { intros j Hj. destruct (Hc j ltac:(lia)) as (cu' & H1 & H2 & H3).
      exists cu'. unfold z1. rewrite !cell_set_cell_other by (right; lia). auto. }
    exists z'. split; [exact E|]. split.
    { eapply same_nodes_trans; [apply same_nodes_set_cell|exact Hs]. }
    intros r j. rewrite Hcells.
    destruct (in_range (S i) n j) eqn:E1.
    + apply in_range_spec in E1.
      replace (in_range i (S n) j) with true by (symmetry; apply in_range_spec; lia).
      unfold cell_or, z1. rewrite !cell_set_cell_other by (right; lia). reflexivity.
    + cbn [andb]. destruct (Nat.eq_dec j i) as [->|Hne'].
      * replace (in_range i (S n) i) with true by (symmetry; apply in_range_spec; lia).
        rewrite Ea. simpl fst. cbn [andb].
        destruct (ref_eqb_spec r u) as [->|Hru].
        -- unfold z1. rewrite (cell_set_cell_same z u i _ cu Hcu). unfold cnew.
           assert (Eu : cell_or z u i = cu) by (unfold cell_or; rewrite Hcu; reflexivity).
           rewrite Eu. destruct (ref_eqb (fwd cu) (Node x)); reflexivity.
        -- unfold z1. apply cell_set_cell_other. left. congruence.
      * replace (in_range i (S n) j) with false.
        -- unfold z1. apply cell_set_cell_other. right. lia.
        -- symmetry. apply not_true_is_false. intros H. apply in_range_spec in H.
           assert (in_range (S i) n j = true) by (apply in_range_spec; lia). congruence.
Qed.
