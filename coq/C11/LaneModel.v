(* C11, stage 2 — executable model of zskiplist.go WITH its express lanes, and of zset.go on
   top of it.  Nothing is proved in this file.

   A *ZSkipListNode is identified by the member it holds (members are distinct while a node
   is linked): a reference is Nil, Head (the header node) or Node e.  The heap is a table
   member -> node; a node has its score, its backward reference and one (forward, span) cell
   per level.  Insert, deleteNode, Delete, GetRank, GetElementByRank, DeleteRangeByScore /
   ByRank, IsInRange / FirstInRange / LastInRange are transcribed with the code's own
   update[] / rank[] arrays and span arithmetic; searches follow forward references.  The
   height of every new node (randLevel) is taken from an oracle list and clamped to
   1 .. ZSKIPLIST_MAXLEVEL.  None / OCrash = nil dereference, index out of range or a loop
   that does not end within length+2 steps. *)
From Coq Require Import ZArith List Bool.
From FV Require Import Generated.Consts C11.Spec C11.Model.
Import ListNotations.
Open Scope Z_scope.

Inductive ref : Type := Nil | Head | Node (e : Z).

Definition ref_eqb (a b : ref) : bool :=
  match a, b with
  | Nil, Nil => true
  | Head, Head => true
  | Node x, Node y => x =? y
  | _, _ => false
  end.

Record lvl : Type := mkLvl { fwd : ref; span : Z }.
Record node : Type := mkNode { nscore : Z; nback : ref; nlv : list lvl }.

Definition heap : Type := list (Z * node).

Fixpoint hget (h : heap) (e : Z) : option node :=
  match h with
  | [] => None
  | (k, n) :: r => if k =? e then Some n else hget r e
  end.

Fixpoint hput (h : heap) (e : Z) (n : node) : heap :=
  match h with
  | [] => [(e, n)]
  | (k, m) :: r => if k =? e then (e, n) :: r else (k, m) :: hput r e n
  end.

Record lzsl : Type := mkL {
  hlv : list lvl;          (* the header's levels (ZSKIPLIST_MAXLEVEL of them) *)
  lheap : heap;
  ltail : ref;
  llen : Z;                (* zsl.length *)
  llevel : nat             (* zsl.level *)
}.

Definition maxlevel : nat := Z.to_nat collections_zset_ZSKIPLIST_MAXLEVEL.

Definition lempty : lzsl := mkL (repeat (mkLvl Nil 0) maxlevel) [] Nil 0 1.

Fixpoint upd_nth {X} (l : list X) (n : nat) (v : X) : list X :=
  match l, n with
  | [], _ => []
  | _ :: r, O => v :: r
  | x :: r, S n' => x :: upd_nth r n' v
  end.

(* x.level[i] *)
Definition cell (z : lzsl) (x : ref) (i : nat) : option lvl :=
  match x with
  | Nil => None
  | Head => nth_error (hlv z) i
  | Node e => match hget (lheap z) e with Some n => nth_error (nlv n) i | None => None end
  end.

(* x.level[i] = c *)
Definition set_cell (z : lzsl) (x : ref) (i : nat) (c : lvl) : lzsl :=
  match x with
  | Nil => z
  | Head => mkL (upd_nth (hlv z) i c) (lheap z) (ltail z) (llen z) (llevel z)
  | Node e =>
      match hget (lheap z) e with
      | Some n => mkL (hlv z) (hput (lheap z) e (mkNode (nscore n) (nback n) (upd_nth (nlv n) i c)))
                      (ltail z) (llen z) (llevel z)
      | None => z
      end
  end.

Definition set_back (z : lzsl) (e : Z) (b : ref) : lzsl :=
  match hget (lheap z) e with
  | Some n => mkL (hlv z) (hput (lheap z) e (mkNode (nscore n) b (nlv n))) (ltail z) (llen z) (llevel z)
  | None => z
  end.

Definition set_tail (z : lzsl) (t : ref) : lzsl := mkL (hlv z) (lheap z) t (llen z) (llevel z).
Definition set_len (z : lzsl) (n : Z) : lzsl := mkL (hlv z) (lheap z) (ltail z) n (llevel z).
Definition set_level (z : lzsl) (l : nat) : lzsl := mkL (hlv z) (lheap z) (ltail z) (llen z) l.

Definition fuel_of (z : lzsl) : nat := S (S (Z.to_nat (llen z))).

(* the inner loop of every search, in lane i:
     for x.level[i].forward != nil && P(traversed + x.level[i].span, forward) {
         traversed += x.level[i].span; x = x.level[i].forward }
   P sees the rank reached, the score and the member of the forward node *)
Fixpoint advance (fuel : nat) (z : lzsl) (i : nat) (P : Z -> Z -> Z -> bool) (x : ref) (rank : Z)
  : option (ref * Z) :=
  match fuel with
  | O => None
  | S f =>
      match cell z x i with
      | None => None
      | Some c =>
          match fwd c with
          | Node e =>
              match hget (lheap z) e with
              | None => None
              | Some n => if P (rank + span c) (nscore n) e
                          then advance f z i P (Node e) (rank + span c)
                          else Some (x, rank)
              end
          | _ => Some (x, rank)
          end
      end
  end.

(* for i := lv-1; i >= 0; i-- { advance; update[i] = x; rank[i] = traversed }
   the result lists update[i], rank[i] for i = 0 .. lv-1 *)
Fixpoint search (z : lzsl) (P : Z -> Z -> Z -> bool) (lv : nat) (x : ref) (rank : Z)
  : option (list (ref * Z)) :=
  match lv with
  | O => Some []
  | S i =>
      match advance (fuel_of z) z i P x rank with
      | None => None
      | Some (x', r') =>
          match search z P i x' r' with
          | None => None
          | Some l => Some (l ++ [(x', r')])
          end
      end
  end.

Definition arr_get (a : list (ref * Z)) (i : nat) : ref * Z := nth i a (Nil, 0).

(* ---------------------------------------------------------------- Insert *)
(* if level > zsl.level { for i := zsl.level; i < level; i++ { rank[i] = 0; update[i] = head;
   update[i].level[i].span = zsl.length }; zsl.level = level } *)
Fixpoint raise_levels (z : lzsl) (a : list (ref * Z)) (from n : nat) : lzsl * list (ref * Z) :=
  match n with
  | O => (z, a)
  | S n' =>
      let z1 := match cell z Head from with
                | Some c => set_cell z Head from (mkLvl (fwd c) (llen z))
                | None => z
                end in
      raise_levels z1 (a ++ [(Head, 0)]) (S from) n'
  end.

(* for i := 0; i < level; i++ { x.level[i].forward = update[i].level[i].forward;
   update[i].level[i].forward = x; x.level[i].span = update[i].level[i].span - (rank[0]-rank[i]);
   update[i].level[i].span = (rank[0] - rank[i]) + 1 } *)
Fixpoint link_levels (z : lzsl) (e : Z) (a : list (ref * Z)) (rank0 : Z) (i n : nat) : option lzsl :=
  match n with
  | O => Some z
  | S n' =>
      let '(u, ri) := arr_get a i in
      match cell z u i with
      | None => None
      | Some cu =>
          let z1 := set_cell z (Node e) i (mkLvl (fwd cu) (span cu - (rank0 - ri))) in
          let z2 := set_cell z1 u i (mkLvl (Node e) (rank0 - ri + 1)) in
          link_levels z2 e a rank0 (S i) n'
      end
  end.

(* for i := level; i < zsl.level; i++ { update[i].level[i].span++ } *)
Fixpoint bump_levels (z : lzsl) (a : list (ref * Z)) (i n : nat) : option lzsl :=
  match n with
  | O => Some z
  | S n' =>
      let '(u, _) := arr_get a i in
      match cell z u i with
      | None => None
      | Some cu => bump_levels (set_cell z u i (mkLvl (fwd cu) (span cu + 1))) a (S i) n'
      end
  end.

Definition clamp_height (h : nat) : nat := Nat.max 1 (Nat.min h maxlevel).

Definition linsert (z : lzsl) (s e : Z) (h0 : nat) : option lzsl :=
  let h := clamp_height h0 in
  match search z (fun _ s' e' => before (s', e') s e) (llevel z) Head 0 with
  | None => None
  | Some a0 =>
      let '(z1, a) := if Nat.ltb (llevel z) h
                      then let '(z', a') := raise_levels z a0 (llevel z) (h - llevel z) in
                           (set_level z' h, a')
                      else (z, a0) in
      let rank0 := snd (arr_get a 0) in
      (* x = newZSkipListNode(level, score, ele) *)
      let z2 := mkL (hlv z1) (hput (lheap z1) e (mkNode s Nil (repeat (mkLvl Nil 0) h)))
                    (ltail z1) (llen z1) (llevel z1) in
      match link_levels z2 e a rank0 0 h with
      | None => None
      | Some z3 =>
          match bump_levels z3 a h (llevel z3 - h) with
          | None => None
          | Some z4 =>
              let u0 := fst (arr_get a 0) in
              let z5 := set_back z4 e (match u0 with Head => Nil | r => r end) in
              match cell z5 (Node e) 0 with
              | None => None
              | Some c0 =>
                  let z6 := match fwd c0 with
                            | Node f => set_back z5 f (Node e)
                            | _ => set_tail z5 (Node e)
                            end in
                  Some (set_len z6 (llen z6 + 1))
              end
          end
      end
  end.

(* ---------------------------------------------------------------- deleteNode / Delete *)
(* for i := 0; i < zsl.level; i++ { if update[i].level[i].forward == x { span += x.level[i].span - 1;
   forward = x.level[i].forward } else { span -= 1 } } *)
Fixpoint unlink_levels (z : lzsl) (x : Z) (a : list (ref * Z)) (i n : nat) : option lzsl :=
  match n with
  | O => Some z
  | S n' =>
      let '(u, _) := arr_get a i in
      match cell z u i with
      | None => None
      | Some cu =>
          if ref_eqb (fwd cu) (Node x) then
            match cell z (Node x) i with
            | None => None
            | Some cx => unlink_levels (set_cell z u i (mkLvl (fwd cx) (span cu + (span cx - 1)))) x a (S i) n'
            end
          else unlink_levels (set_cell z u i (mkLvl (fwd cu) (span cu - 1))) x a (S i) n'
      end
  end.

(* for zsl.level > 1 && zsl.head.level[zsl.level-1].forward == nil { zsl.level-- } *)
Fixpoint shrink_level (z : lzsl) (n : nat) : lzsl :=
  match n with
  | O => z
  | S n' =>
      if Nat.ltb 1 (llevel z) then
        match cell z Head (llevel z - 1) with
        | Some c => match fwd c with
                    | Nil => shrink_level (set_level z (llevel z - 1)) n'
                    | _ => z
                    end
        | None => z
        end
      else z
  end.

Definition ldelete_node (z : lzsl) (x : Z) (a : list (ref * Z)) : option lzsl :=
  match unlink_levels z x a 0 (llevel z) with
  | None => None
  | Some z1 =>
      match hget (lheap z1) x with
      | None => None
      | Some nx =>
          match nth_error (nlv nx) 0 with
          | None => None
          | Some c0 =>
              let z2 := match fwd c0 with
                        | Node f => set_back z1 f (nback nx)
                        | _ => set_tail z1 (nback nx)
                        end in
              let z3 := shrink_level z2 (llevel z2) in
              Some (set_len z3 (llen z3 - 1))
          end
      end
  end.

(* x.level[0].forward of update[0] *)
Definition next0 (z : lzsl) (x : ref) : option ref :=
  match cell z x 0 with Some c => Some (fwd c) | None => None end.

(* Delete(score, ele): Some (z', found) *)
Definition ldelete (z : lzsl) (s e : Z) : option (lzsl * bool) :=
  match search z (fun _ s' e' => before (s', e') s e) (llevel z) Head 0 with
  | None => None
  | Some a =>
      match next0 z (fst (arr_get a 0)) with
      | None => None
      | Some (Node x) =>
          match hget (lheap z) x with
          | None => None
          | Some nx =>
              if (s =? nscore nx) && (x =? e)
              then match ldelete_node z x a with Some z' => Some (z', true) | None => None end
              else Some (z, false)
          end
      | Some _ => Some (z, false)
      end
  end.

(* ---------------------------------------------------------------- range deletion *)
(* for x != nil && keep(traversed, x) { next = x.level[0].forward; deleteNode(x, update);
   removed++; traversed++; x = next }: returns the removed members in order *)
Fixpoint del_loop (fuel : nat) (z : lzsl) (a : list (ref * Z)) (keep : Z -> Z -> bool)
         (x : ref) (traversed : Z) : option (lzsl * list Z) :=
  match fuel with
  | O => None
  | S f =>
      match x with
      | Node e =>
          match hget (lheap z) e with
          | None => None
          | Some n =>
              if keep traversed (nscore n) then
                match nth_error (nlv n) 0 with
                | None => None
                | Some c0 =>
                    match ldelete_node z e a with
                    | None => None
                    | Some z1 =>
                        match del_loop f z1 a keep (fwd c0) (traversed + 1) with
                        | Some (z2, rm) => Some (z2, e :: rm)
                        | None => None
                        end
                    end
                end
              else Some (z, [])
          end
      | _ => Some (z, [])
      end
  end.

Definition ldel_by_score (z : lzsl) (min max : Z) : option (lzsl * list Z) :=
  match search z (fun _ s' _ => s' <? min) (llevel z) Head 0 with
  | None => None
  | Some a =>
      match next0 z (fst (arr_get a 0)) with
      | None => None
      | Some x => del_loop (fuel_of z) z a (fun _ s' => s' <=? max) x 0
      end
  end.

Definition ldel_by_rank (z : lzsl) (start stop : Z) : option (lzsl * list Z) :=
  match search z (fun r _ _ => r <? start) (llevel z) Head 0 with
  | None => None
  | Some a =>
      match next0 z (fst (arr_get a 0)) with
      | None => None
      | Some x => del_loop (fuel_of z) z a (fun t _ => t <=? stop) x (snd (arr_get a 0) + 1)
      end
  end.

(* ---------------------------------------------------------------- rank queries *)
(* GetRank(score, ele): after every lane, "if x.Ele != nil && x.Ele.CompareTo(ele) == 0 return rank" *)
Fixpoint lrank_levels (z : lzsl) (s e : Z) (lv : nat) (x : ref) (rank : Z) : option Z :=
  match lv with
  | O => Some 0
  | S i =>
      match advance (fuel_of z) z i (fun _ s' e' => before_eq (s', e') s e) x rank with
      | None => None
      | Some (x', r') =>
          match x' with
          | Node e' => if e' =? e then Some r' else lrank_levels z s e i x' r'
          | _ => lrank_levels z s e i x' r'
          end
      end
  end.

Definition lget_rank (z : lzsl) (s e : Z) : option Z := lrank_levels z s e (llevel z) Head 0.

(* GetElementByRank(rank): "if traversed == rank return x" after every lane; Nil = not found *)
Fixpoint lby_rank_levels (z : lzsl) (rank : Z) (lv : nat) (x : ref) (tr : Z) : option ref :=
  match lv with
  | O => Some Nil
  | S i =>
      match advance (fuel_of z) z i (fun r _ _ => r <=? rank) x tr with
      | None => None
      | Some (x', t') => if t' =? rank then Some x' else lby_rank_levels z rank i x' t'
      end
  end.

Definition lby_rank (z : lzsl) (rank : Z) : option ref := lby_rank_levels z rank (llevel z) Head 0.

(* ---------------------------------------------------------------- score ranges *)
Definition lscore (z : lzsl) (x : ref) : option Z :=
  match x with
  | Node e => match hget (lheap z) e with Some n => Some (nscore n) | None => None end
  | Head => Some 0
  | Nil => None
  end.

(* IsInRange(min, max) *)
Definition lis_in_range (z : lzsl) (min max : Z) : option bool :=
  if min >? max then Some false
  else match ltail z with
       | Node t =>
           match lscore z (Node t) with
           | None => None
           | Some st =>
               if st <? min then Some false
               else match next0 z Head with
                    | Some (Node f) =>
                        match lscore z (Node f) with
                        | Some sf => Some (negb (sf >? max))
                        | None => None
                        end
                    | Some _ => Some false
                    | None => None
                    end
           end
       | _ => Some false
       end.

(* the last lane: x after all lanes *)
Definition search_last (z : lzsl) (P : Z -> Z -> Z -> bool) : option ref :=
  match search z P (llevel z) Head 0 with
  | Some a => Some (fst (arr_get a 0))
  | None => None
  end.

Definition lfirst_in_range (z : lzsl) (min max : Z) : option ref :=
  match lis_in_range z min max with
  | None => None
  | Some false => Some Nil
  | Some true =>
      match search_last z (fun _ s' _ => s' <? min) with
      | None => None
      | Some x =>
          match next0 z x with
          | None => None
          | Some (Node f) =>
              match lscore z (Node f) with
              | Some sf => if sf >? max then Some Nil else Some (Node f)
              | None => None
              end
          | Some r => Some r
          end
      end
  end.

Definition llast_in_range (z : lzsl) (min max : Z) : option ref :=
  match lis_in_range z min max with
  | None => None
  | Some false => Some Nil
  | Some true =>
      match search_last z (fun _ s' _ => s' <=? max) with
      | None => None
      | Some x =>
          match lscore z x with
          | Some sx => if sx <? min then Some Nil else Some x
          | None => None
          end
      end
  end.

(* following level-0 forward / backward references *)
Definition lnext (z : lzsl) (backward : bool) (x : ref) : option ref :=
  match x with
  | Node e =>
      match hget (lheap z) e with
      | Some n => if backward then Some (nback n)
                  else match nth_error (nlv n) 0 with Some c => Some (fwd c) | None => None end
      | None => None
      end
  | Head => if backward then Some Nil else next0 z Head
  | Nil => None
  end.

(* result = append(result, node.Ele); node = next   (n times) *)
Fixpoint lwalk (z : lzsl) (backward : bool) (x : ref) (n : nat) : option (list Z) :=
  match n with
  | O => Some []
  | S n' =>
      match x with
      | Node e => match lnext z backward x with
                  | Some y => match lwalk z backward y n' with Some t => Some (e :: t) | None => None end
                  | None => None
                  end
      | _ => None          (* nil dereference (the head holds no member) *)
      end
  end.

(* for node != nil { if out of range break; append; node = next } *)
Fixpoint lwalk_while (fuel : nat) (z : lzsl) (backward : bool) (stop : Z -> bool) (x : ref) : option (list Z) :=
  match fuel with
  | O => None
  | S f =>
      match x with
      | Node e =>
          match lscore z x, lnext z backward x with
          | Some sx, Some y =>
              if stop sx then Some []
              else match lwalk_while f z backward stop y with Some t => Some (e :: t) | None => None end
          | _, _ => None
          end
      | _ => Some []
      end
  end.

(* ---------------------------------------------------------------- zset.go *)
Record lzset : Type := mkLZ { lz : lzsl; ldict : list (Z * Z); oracle : list nat }.

Definition lzempty (orc : list nat) : lzset := mkLZ lempty [] orc.

Definition next_height (orc : list nat) : nat * list nat :=
  match orc with h :: r => (h, r) | [] => (1%nat, []) end.

Definition ladd (z : lzset) (e s : Z) : lzset * out :=
  match dict_get (ldict z) e with
  | Some cur =>
      if negb (cur =? s) then
        match ldelete (lz z) cur e with
        | Some (z1, true) =>
            let '(h, orc) := next_height (oracle z) in
            match linsert z1 s e h with
            | Some z2 => (mkLZ z2 (dict_set (ldict z) e s) orc, OBool true)
            | None => (z, OCrash)
            end
        | _ => (z, OCrash)
        end
      else (z, OBool true)
  | None =>
      let '(h, orc) := next_height (oracle z) in
      match linsert (lz z) s e h with
      | Some z2 => (mkLZ z2 (dict_set (ldict z) e s) orc, OBool true)
      | None => (z, OCrash)
      end
  end.

Definition lremove (z : lzset) (e : Z) : lzset * out :=
  match dict_get (ldict z) e with
  | Some s =>
      match ldelete (lz z) s e with
      | Some (z1, _) => (mkLZ z1 (dict_del (ldict z) e) (oracle z), OBool true)
      | None => (z, OCrash)
      end
  | None => (z, OBool false)
  end.

Definition dict_del_members (d : list (Z * Z)) (rm : list Z) : list (Z * Z) :=
  fold_left dict_del rm d.

Definition lrem_by_score (z : lzset) (min max : Z) : lzset * out :=
  if min >? max then (z, OInt 0)
  else match ldel_by_score (lz z) min max with
       | Some (z1, rm) => (mkLZ z1 (dict_del_members (ldict z) rm) (oracle z), OInt (zlen rm))
       | None => (z, OCrash)
       end.

Definition lrem_by_rank (z : lzset) (start stop : Z) : lzset * out :=
  let llen := llen (lz z) in
  let start := if start <? 0 then llen + start else start in
  let stop := if stop <? 0 then llen + stop else stop in
  let start := if start <? 0 then 0 else start in
  if (start >? stop) || (start >=? llen) then (z, OInt 0)
  else
    let stop := if stop >=? llen then llen - 1 else stop in
    match ldel_by_rank (lz z) (start + 1) (stop + 1) with
    | Some (z1, rm) => (mkLZ z1 (dict_del_members (ldict z) rm) (oracle z), OInt (zlen rm))
    | None => (z, OCrash)
    end.

Definition lmember (x : ref) : option Z := match x with Node e => Some e | _ => None end.

Definition lcount (z : lzset) (min max : Z) : out :=
  if min >? max then OInt 0
  else
    let l := lz z in
    match lfirst_in_range l min max with
    | None => OCrash
    | Some (Node f) =>
        match lscore l (Node f) with
        | None => OCrash
        | Some sf =>
            match lget_rank l sf f with
            | None => OCrash
            | Some rank =>
                let cnt := llen l - (rank - 1) in
                match llast_in_range l min max with
                | None => OCrash
                | Some (Node t) =>
                    match lscore l (Node t) with
                    | None => OCrash
                    | Some st => match lget_rank l st t with
                                 | Some r2 => OInt (cnt - (llen l - r2))
                                 | None => OCrash
                                 end
                    end
                | Some Head => OCrash      (* unreachable: LastInRange returned the header *)
                | Some Nil => OInt cnt
                end
            end
        end
    | Some _ => OInt 0
    end.

Definition lget_rank_op (z : lzset) (e : Z) (reverse : bool) : out :=
  match dict_get (ldict z) e with
  | Some s =>
      match lget_rank (lz z) s e with
      | Some rank => OInt (if reverse then llen (lz z) - rank else rank - 1)
      | None => OCrash
      end
  | None => OInt (-1)
  end.

Definition lget_range (z : lzset) (start stop : Z) (reverse : bool) : out :=
  let l := lz z in
  let llen := llen l in
  let start := if start <? 0 then llen + start else start in
  let stop := if stop <? 0 then llen + stop else stop in
  let start := if start <? 0 then 0 else start in
  if (start >? stop) || (start >=? llen) then OList []
  else
    let stop := if stop >=? llen then llen - 1 else stop in
    let rangeLen := stop - start + 1 in
    let first :=
      if reverse then (if start >? 0 then lby_rank l (llen - start) else Some (ltail l))
      else (if start >? 0 then lby_rank l (start + 1) else next0 l Head) in
    match first with
    | None => OCrash
    | Some x => match lwalk l reverse x (Z.to_nat rangeLen) with
                | Some r => OList r
                | None => OCrash
                end
    end.

Definition lget_range_by_score (z : lzset) (min max : Z) (reverse : bool) : out :=
  if min >? max then OList []
  else
    let l := lz z in
    match (if reverse then llast_in_range l min max else lfirst_in_range l min max) with
    | None => OCrash
    | Some x =>
        match lwalk_while (fuel_of l) l reverse
                (fun sx => if reverse then sx <? min else sx >? max) x with
        | Some r => OList r
        | None => OCrash
        end
    end.

Definition lstep (z : lzset) (o : op) : lzset * out :=
  match o with
  | Add e s => ladd z e s
  | Remove e => lremove z e
  | RemByScore min max => lrem_by_score z min max
  | RemByRank a b => lrem_by_rank z a b
  | Count min max => (z, lcount z min max)
  | GetRank e r => (z, lget_rank_op z e r)
  | GetScore e => (z, OInt (get_score (mkZ [] (ldict z)) e))
  | GetRange a b r => (z, lget_range z a b r)
  | GetRangeByScore min max r => (z, lget_range_by_score z min max r)
  | Len => (z, OInt (llen (lz z)))
  end.

Fixpoint lrun (z : lzset) (ops : list op) : lzset * list out :=
  match ops with
  | [] => (z, [])
  | o :: r => let '(z1, x) := lstep z o in
              let '(z2, xs) := lrun z1 r in (z2, x :: xs)
  end.

(* ---------------------------------------------------------------- dump (for the probe comparison) *)
(* the level-0 chain from the header: (score, member, spans, forwards, backward) per node *)
Fixpoint lchain (fuel : nat) (z : lzsl) (x : ref) : list (Z * node) :=
  match fuel with
  | O => []
  | S f =>
      match x with
      | Node e =>
          match hget (lheap z) e with
          | Some n => (e, n) :: match nth_error (nlv n) 0 with
                                | Some c => lchain f z (fwd c)
                                | None => []
                                end
          | None => []
          end
      | _ => []
      end
  end.

Definition lnodes (z : lzsl) : list (Z * node) :=
  match next0 z Head with Some x => lchain (fuel_of z) z x | None => [] end.
