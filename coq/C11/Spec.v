(* C11 — the reference ranking.  No proofs in this file.
   The set is an unordered table of (score, member) entries with distinct members; every
   answer is read off [ranking], the table sorted by score and then by member.  Scores
   are int64 in zset.go and members are compared by CompareTo; both are modelled as Z
   with the integer order (the harness's members implement CompareTo by integer
   comparison). *)
From Coq Require Import ZArith List Bool.
Import ListNotations.
Open Scope Z_scope.

Definition entry : Type := (Z * Z)%type.        (* (score, member) *)
Definition score (x : entry) : Z := fst x.
Definition member (x : entry) : Z := snd x.

Definition zlen {X} (l : list X) : Z := Z.of_nat (length l).

(* score first, then member *)
Definition kle (a b : entry) : bool :=
  (score a <? score b) || ((score a =? score b) && (member a <=? member b)).

Fixpoint ins (x : entry) (l : list entry) : list entry :=
  match l with
  | [] => [x]
  | y :: r => if kle x y then x :: l else y :: ins x r
  end.

Definition ranking (st : list entry) : list entry := fold_right ins [] st.

Inductive op : Type :=
| Add (e s : Z)
| Remove (e : Z)
| RemByScore (min max : Z)
| RemByRank (start stop : Z)
| Count (min max : Z)
| GetRank (e : Z) (reverse : bool)
| GetScore (e : Z)
| GetRange (start stop : Z) (reverse : bool)
| GetRangeByScore (min max : Z) (reverse : bool)
| Len.

(* OCrash: a Go run-time panic (nil dereference) — never produced by the reference *)
Inductive out : Type := OBool (b : bool) | OInt (z : Z) | OList (l : list Z) | OCrash.

Definition lookup (e : Z) (st : list entry) : option Z :=
  match find (fun x => member x =? e) st with Some x => Some (score x) | None => None end.

Definition remove_m (e : Z) (st : list entry) : list entry :=
  filter (fun x => negb (member x =? e)) st.

(* both end points belong to a score range *)
Definition in_score (min max : Z) (x : entry) : bool := (min <=? score x) && (score x <=? max).

(* rank ranges: negative indices count from the end, out-of-range indices are clamped;
   None = the empty range; Some (a, b) = ranks a..b inclusive, 0 <= a <= b < len *)
Definition norm_range (len start stop : Z) : option (Z * Z) :=
  let a := if start <? 0 then len + start else start in
  let b := if stop <? 0 then len + stop else stop in
  let a := Z.max 0 a in
  let b := Z.min b (len - 1) in
  if a <=? b then Some (a, b) else None.

Definition slice_z {X} (l : list X) (a b : Z) : list X :=
  firstn (Z.to_nat (b - a + 1)) (skipn (Z.to_nat a) l).

Fixpoint index_of (e : Z) (l : list Z) (i : Z) : option Z :=
  match l with
  | [] => None
  | x :: r => if x =? e then Some i else index_of e r (i + 1)
  end.

Definition memb (e : Z) (l : list Z) : bool := existsb (fun x => x =? e) l.

Definition spec_step (st : list entry) (o : op) : list entry * out :=
  let R := ranking st in
  match o with
  | Add e s => ((s, e) :: remove_m e st, OBool true)
  | Remove e =>
      match lookup e st with
      | Some _ => (remove_m e st, OBool true)
      | None => (st, OBool false)
      end
  | RemByScore min max =>
      (filter (fun x => negb (in_score min max x)) st, OInt (zlen (filter (in_score min max) st)))
  | RemByRank start stop =>
      match norm_range (zlen st) start stop with
      | None => (st, OInt 0)
      | Some (a, b) =>
          let victims := map member (slice_z R a b) in
          (filter (fun x => negb (memb (member x) victims)) st, OInt (zlen victims))
      end
  | Count min max => (st, OInt (zlen (filter (in_score min max) st)))
  | GetRank e reverse =>
      match index_of e (map member R) 0 with
      | Some i => (st, OInt (if reverse then zlen st - 1 - i else i))
      | None => (st, OInt (-1))
      end
  | GetScore e => (st, OInt (match lookup e st with Some s => s | None => 0 end))
  | GetRange start stop reverse =>
      match norm_range (zlen st) start stop with
      | None => (st, OList [])
      | Some (a, b) => (st, OList (map member (slice_z (if reverse then rev R else R) a b)))
      end
  | GetRangeByScore min max reverse =>
      let l := map member (filter (in_score min max) R) in
      (st, OList (if reverse then rev l else l))
  | Len => (st, OInt (zlen st))
  end.

Fixpoint spec_run (st : list entry) (ops : list op) : list entry * list out :=
  match ops with
  | [] => (st, [])
  | o :: r => let '(s1, x) := spec_step st o in
              let '(s2, xs) := spec_run s1 r in (s2, x :: xs)
  end.
