(* C03 / C04 — tactics and small list lemmas shared by the proofs about the connection model. *)
From Coq Require Import ZArith List Bool Arith Lia.
From RecordUpdate Require Import RecordSet.
From FV Require Import C03.Model.
Import ListNotations.
Import RecordSetNotations.

Ltac inv H := inversion H; subst; clear H.

(* destruct the innermost scrutinee of a match occurring in H, repeatedly *)
Ltac dmatch H :=
  repeat (cbv beta iota in H;
          match type of H with
          | context [match ?x with _ => _ end] =>
              lazymatch x with
              | context [match _ with _ => _ end] => fail
              | _ => destruct x eqn:?; try discriminate H
              end
          end);
  cbv beta iota in H.

Lemma cst_eqb_spec a b : cst_eqb a b = true <-> a = b.
Proof. destruct a, b; cbn; split; congruence. Qed.

Ltac prep :=
  repeat match goal with
  | H : cst_eqb _ _ = true |- _ => apply cst_eqb_spec in H
  | H : cst_eqb _ _ = false |- _ => apply not_true_iff_false in H; rewrite cst_eqb_spec in H
  | H : (_ <? _) = true |- _ => apply Nat.ltb_lt in H
  | H : (_ <? _) = false |- _ => apply Nat.ltb_ge in H
  | H : negb _ = true |- _ => apply negb_true_iff in H
  | H : negb _ = false |- _ => apply negb_false_iff in H
  | H : _ && _ = true |- _ => apply andb_true_iff in H; destruct H
  | H : _ && _ = false |- _ => apply andb_false_iff in H
  end.

(* ---- prefix *)
Definition prefix {A} (a b : list A) : Prop := exists l, b = a ++ l.

Lemma prefix_refl {A} (a : list A) : prefix a a.
Proof. exists []. now rewrite app_nil_r. Qed.
Lemma prefix_nil {A} (a : list A) : prefix [] a.
Proof. now exists a. Qed.
Lemma prefix_app_r {A} (a b l : list A) : prefix a b -> prefix a (b ++ l).
Proof. intros [x ->]. exists (x ++ l). now rewrite app_assoc. Qed.
Lemma prefix_trans {A} (a b c : list A) : prefix a b -> prefix b c -> prefix a c.
Proof. intros [x ->] [y ->]. exists (x ++ y). now rewrite app_assoc. Qed.
Lemma prefix_app_l {A} (a b : list A) : prefix a (a ++ b).
Proof. now exists b. Qed.
Lemma prefix_map {A B} (f : A -> B) a b : prefix a b -> prefix (map f a) (map f b).
Proof. intros [x ->]. exists (map f x). apply map_app. Qed.
Lemma prefix_filter {A} (f : A -> bool) a b : prefix a b -> prefix (filter f a) (filter f b).
Proof. intros [x ->]. exists (filter f x). apply filter_app. Qed.
Lemma prefix_length {A} (a b : list A) : prefix a b -> length a <= length b.
Proof. intros [x ->]. rewrite app_length. lia. Qed.
Lemma prefix_same_length {A} (a b : list A) : prefix a b -> length b <= length a -> a = b.
Proof.
  intros [x ->] H. rewrite app_length in H. destruct x; [now rewrite app_nil_r|cbn in H; lia].
Qed.
(* two prefixes of the same list are comparable *)
Lemma prefix_cases {A} (a b c : list A) : prefix a c -> prefix b c -> prefix a b \/ prefix b a.
Proof.
  revert b c; induction a as [|x a IH]; intros b c Ha Hb.
  - left; apply prefix_nil.
  - destruct b as [|y b]; [right; apply prefix_nil|].
    destruct Ha as [la ->]. destruct Hb as [lb Hb]. cbn in Hb. inv Hb.
    destruct (IH b (a ++ la)) as [[l ->]|[l ->]]; [now exists la|now exists lb| |].
    + left. now exists l.
    + right. now exists l.
Qed.

(* ---- upd / nth_error *)
Lemma upd_length {A} (l : list A) i x : length (upd l i x) = length l.
Proof. revert i; induction l; intros [|i]; cbn; auto. Qed.

Lemma nth_upd_same {A} (l : list A) i x y : nth_error l i = Some y -> nth_error (upd l i x) i = Some x.
Proof. revert i; induction l; intros [|i]; cbn; try discriminate; auto. Qed.

Lemma nth_upd_other {A} (l : list A) i j x : i <> j -> nth_error (upd l i x) j = nth_error l j.
Proof.
  revert i j; induction l; intros [|i] [|j] H; cbn; auto; try congruence.
Qed.

Lemma nth_upd {A} (l : list A) i j x y : nth_error (upd l i x) j = Some y ->
  (i = j /\ y = x) \/ nth_error l j = Some y.
Proof.
  destruct (Nat.eq_dec i j) as [->|N].
  - intros H. destruct (nth_error l j) eqn:E.
    + rewrite (nth_upd_same _ _ _ _ E) in H. inv H. auto.
    + apply nth_error_None in E. assert (nth_error (upd l j x) j = None) as X
        by (apply nth_error_None; rewrite upd_length; auto). congruence.
  - rewrite nth_upd_other by auto. auto.
Qed.

Lemma nth_app_new {A} (l : list A) x j y : nth_error (l ++ [x]) j = Some y ->
  nth_error l j = Some y \/ y = x.
Proof.
  intros H. destruct (lt_dec j (length l)).
  - rewrite nth_error_app1 in H by auto. auto.
  - rewrite nth_error_app2 in H by lia. destruct (j - length l) as [|[|k]]; cbn in H; inv H; auto.
Qed.

Lemma nth_lt {A} (l : list A) i x : nth_error l i = Some x -> i < length l.
Proof. intros H. apply nth_error_Some. congruence. Qed.

(* ---- sums over the closer threads *)
Fixpoint sumc (f : closer -> nat) (l : list closer) : nat :=
  match l with [] => 0 | cl :: r => f cl + sumc f r end.

Lemma sumc_upd f l j cl cl' : nth_error l j = Some cl ->
  sumc f (upd l j cl') + f cl = sumc f l + f cl'.
Proof.
  revert j; induction l as [|a l IH]; intros [|j] H; cbn in *; try discriminate.
  - inv H. lia.
  - apply IH in H. lia.
Qed.

Lemma sumc_pos f l j cl : nth_error l j = Some cl -> f cl <= sumc f l.
Proof.
  revert j; induction l as [|a l IH]; intros [|j] H; cbn in *; try discriminate.
  - inv H. lia.
  - apply IH in H. lia.
Qed.

Ltac sums :=
  repeat match goal with
  | H : nth_error (closers ?s) ?j = Some ?cl, H1 : context [sumc ?f (closers ?s)] |- _ =>
      lazymatch goal with
      | _ : f cl <= sumc f (closers s) |- _ => fail
      | _ => pose proof (sumc_pos f _ _ _ H)
      end
  | H : nth_error (closers ?s) ?j = Some ?cl
    |- context [sumc ?f (upd (closers ?s) ?j ?cl')] =>
      lazymatch goal with
      | _ : sumc f (upd (closers s) j cl') + _ = _ |- _ => fail
      | _ => pose proof (sumc_upd f _ _ _ cl' H)
      end
  | H : nth_error (closers ?s) ?j = Some ?cl, H1 : context [sumc ?f (upd (closers ?s) ?j ?cl')] |- _ =>
      lazymatch goal with
      | _ : sumc f (upd (closers s) j cl') + _ = _ |- _ => fail
      | _ => pose proof (sumc_upd f _ _ _ cl' H)
      end
  end.

Fixpoint sumf (f : fpc -> nat) (l : list fpc) : nat :=
  match l with [] => 0 | x :: r => f x + sumf f r end.

Lemma sumf_upd f l k x y : nth_error l k = Some x -> sumf f (upd l k y) + f x = sumf f l + f y.
Proof.
  revert k; induction l as [|a l IH]; intros [|k] H; cbn in *; try discriminate.
  - inv H. lia.
  - apply IH in H. lia.
Qed.

Lemma sumf_pos f l k x : nth_error l k = Some x -> f x <= sumf f l.
Proof.
  revert k; induction l as [|a l IH]; intros [|k] H; cbn in *; try discriminate.
  - inv H. lia.
  - apply IH in H. lia.
Qed.

Lemma sumf_app f l x : sumf f (l ++ [x]) = sumf f l + f x.
Proof. induction l; cbn; lia. Qed.

Ltac sumfs :=
  repeat match goal with
  | H : nth_error (fins ?s) ?k = Some ?x, H1 : context [sumf ?f (fins ?s)] |- _ =>
      lazymatch goal with
      | _ : f x <= sumf f (fins s) |- _ => fail
      | _ => pose proof (sumf_pos f _ _ _ H)
      end
  | H : nth_error (fins ?s) ?k = Some ?x |- context [sumf ?f (upd (fins ?s) ?k ?y)] =>
      lazymatch goal with
      | _ : sumf f (upd (fins s) k y) + _ = _ |- _ => fail
      | _ => pose proof (sumf_upd f _ _ _ y H)
      end
  | H : nth_error (fins ?s) ?k = Some ?x, H1 : context [sumf ?f (upd (fins ?s) ?k ?y)] |- _ =>
      lazymatch goal with
      | _ : sumf f (upd (fins s) k y) + _ = _ |- _ => fail
      | _ => pose proof (sumf_upd f _ _ _ y H)
      end
  end.

(* sizes *)
Fixpoint sumsz (l : list pkt) : Z := match l with [] => 0%Z | p :: r => (psize p + sumsz r)%Z end.
Lemma sumsz_app a b : sumsz (a ++ b) = (sumsz a + sumsz b)%Z.
Proof. induction a; cbn; lia. Qed.
