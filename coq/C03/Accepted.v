(* C03 — the ghost sequence [accepted] is exactly "the packets whose send call returned
   success": at every reachable state its ids are a permutation of the ids the senders'
   SendPacket calls answered nil to (code 0).  (The order inside [accepted] is the order of
   entry into the queue; the harness checks the per-sender order on the implementation.) *)
From Coq Require Import ZArith List Bool Arith Lia Permutation.
From RecordUpdate Require Import RecordSet.
From FV Require Import C03.Model C03.Base C03.InvA.
Import ListNotations.
Import RecordSetNotations.

Definition okids (sd : sender) : list Z := map fst (filter (fun r => (snd r =? 0)%Z) (results sd)).
Definition all_ok (l : list sender) : list Z := concat (map okids l).

Lemma all_ok_upd_same l i sd sd' : nth_error l i = Some sd -> okids sd' = okids sd -> all_ok (upd l i sd') = all_ok l.
Proof.
  revert i; induction l as [|a l IH]; intros [|i] H E; cbn in *; try discriminate.
  - inv H. unfold all_ok; cbn. now rewrite E.
  - unfold all_ok in *; cbn. f_equal. apply IH; auto.
Qed.

Lemma all_ok_upd_app l i sd sd' x : nth_error l i = Some sd -> okids sd' = okids sd ++ [x] ->
  Permutation (all_ok (upd l i sd')) (all_ok l ++ [x]).
Proof.
  revert i; induction l as [|a l IH]; intros [|i] H E; cbn in *; try discriminate.
  - inv H. unfold all_ok; cbn. rewrite E. rewrite <- !app_assoc. apply Permutation_app_head.
    apply Permutation_app_comm.
  - unfold all_ok in *; cbn. rewrite <- app_assoc. apply Permutation_app_head. apply IH; auto.
Qed.

Definition InvS (s : st) : Prop := Permutation (map pid (accepted s)) (all_ok (senders s)).

Lemma okids_app sd r code : okids (sd <| results := results sd ++ [(r, code)] |>) =
  okids sd ++ (if (code =? 0)%Z then [r] else []).
Proof. unfold okids; cbn. rewrite filter_app, map_app. cbn. destruct (code =? 0)%Z; reflexivity. Qed.

Lemma step_invS s c s' : step repaired s c = Some s' -> InvS s -> InvS s'.
Proof.
  unfold step, InvS. destruct (panic s); [discriminate|]. intros H I.
  destruct c.
  - unfold send_step in H. dmatch H; inv H; cbn; auto.
    all: repeat match goal with |- context [concat (map okids ?x)] => change (concat (map okids x)) with (all_ok x) end.
    all: try (erewrite all_ok_upd_same; [exact I|eauto|];
              unfold okids; cbn; rewrite ?filter_app, ?map_app; cbn; rewrite ?app_nil_r; reflexivity).
    (* enqueued *)
    rewrite map_app. cbn.
    eapply Permutation_trans; [apply Permutation_app_tail; exact I|].
    apply Permutation_sym. eapply all_ok_upd_app; eauto.
    unfold okids; cbn. rewrite filter_app, map_app. reflexivity.
  - unfold writer_step in H; dmatch H; inv H; cbn; auto.
  - unfold reader_step in H; dmatch H;
      try match goal with Hc : close_step _ _ _ _ _ = _ |- _ => unfold close_step, fin_step, notify in Hc; dmatch Hc; inv Hc end;
      inv H; cbn; auto.
  - dmatch H;
      try match goal with Hc : close_step _ _ _ _ _ = _ |- _ => unfold close_step, fin_step, notify in Hc; dmatch Hc; inv Hc end;
      inv H; cbn; auto.
  - unfold fin_step in H; dmatch H; inv H; cbn; auto.
  - dmatch H; inv H; cbn; auto.
  - dmatch H; inv H; cbn; auto.
  - dmatch H; inv H; cbn; auto.
  - dmatch H; inv H; cbn; auto.
  - dmatch H; inv H; cbn; auto.
  - dmatch H; inv H; cbn; auto.
  - dmatch H; inv H; cbn; auto.
Qed.

Lemma all_ok_init (sds : list (list pkt)) : all_ok (map (fun l => mksender l false []) sds) = [].
Proof. induction sds; cbn; auto. Qed.

Lemma accepted_is_answered_nil oc kc ic ec en hw hr sds cls input inq0 errq0 cs :
  let s := run repaired (init oc kc ic ec en hw hr sds cls input inq0 errq0) cs in
  Permutation (map pid (accepted s)) (all_ok (senders s)).
Proof.
  apply (run_preserves repaired InvS).
  - intros; eapply step_invS; eauto.
  - unfold InvS. cbn [init accepted senders map]. rewrite all_ok_init. constructor.
Qed.
