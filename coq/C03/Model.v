(* C03 / C04 — the connection as a transition system (qnet/tcp_conn.go, stream_conn.go).
   Executable model; nothing is proved in this file.

   Threads: any number of senders (SendPacket), the writer pump (writePump + flush), the
   reader pump (readPump, including the ForceClose it calls on a read error), any number
   of closers (Close or ForceClose callers), the finalizers spawned by ForceClose
   (`go t.finally()`), and the environment: the peer writing frames / garbage / EOF, the
   peer reading (a bounded kernel buffer), a peer reset, consumers and foreign producers
   of the shared inbound and error channels.

   A schedule is ANY list of [choice]; a choice that is not enabled (the goroutine would
   block, or does not exist) is a no-op in [run].  One step = the code between two
   consecutive `verifPoint`s of qnet/tcp_conn.go (each contains at most one access to
   shared state).

   The [variant] selects between the code as first found (legacy: three defects, kept so
   that the refutations stay checkable and replayable) and the repaired code (the tree
   after the `fix:` commits); every theorem is about [repaired]. *)
From Coq Require Import ZArith List Bool Arith.
From RecordUpdate Require Import RecordSet.
Import ListNotations.
Import RecordSetNotations.

(* a packet as far as the connection is concerned: identity, frame size on the wire,
   and whether the encoder accepts it (false: WritePacket returns an error, e.g. size) *)
Record pkt := mkpkt { pid : Z; psize : Z; pok : bool }.

(* what the peer puts on the wire towards us: a well-formed frame, or something that
   makes readPacket return an error (garbage, EOF, RST, time-out); e = error code *)
Inductive inp := IFrame (p : pkt) | IErr (e : Z).

Record variant := mkvariant {
  v_flush_len  : bool;  (* flush loop bound re-reads len(outbound)           (defect 5) *)
  v_close_out  : bool;  (* finally closes the outbound queue and nils it     (defect 6) *)
  v_reader_sel : bool   (* reader: select { inbound <- pkt | <-done }  (repair of 7) *)
}.
Definition repaired : variant := mkvariant false false true.
Definition legacy : variant := mkvariant true true false.

Inductive cstate := Running | Shutdown | Terminated.

(* writer pump *)
Inductive wmode := MLoop | MFlush (i : nat).
Inductive wpc :=
| WAbsent                        (* Go() was called without EndpointWriter *)
| WSel (m : wmode)               (* at the select of the main loop / of flush *)
| WHave (m : wmode) (p : pkt)    (* dequeued p, write pending        (writer.deq / flush.deq) *)
| WCount (m : wmode) (p : pkt)   (* p is on the wire, counters pending *)
| WDone                          (* flush returned, wg.Done pending          (writer.flushed) *)
| WExited.

(* finally() *)
Inductive fpc := FWait | FWaited | FClosedWrite | FTeardown | FEnd.

(* Close / ForceClose *)
Inductive cpc :=
| CStart
| CCas                 (* won the CAS                      (close.cas) *)
| CRdClosed            (* CloseRead done                   (close.readclosed) *)
| CDoneClosed          (* close(done) done                 (close.doneclosed) *)
| CNotified            (* notifyErr returned               (close.notified) *)
| CFin (f : fpc)       (* inside the inline finally()      (graceful only) *)
| CRet (won : bool).   (* returned; won = this call won the CAS *)

(* reader pump *)
Inductive rpc :=
| RAbsent
| RRead                          (* in readPacket *)
| RHave (p : pkt)                (* frame decoded and counted, delivery pending (reader.frame) *)
| RTest                          (* delivered, testShouldExit pending       (reader.delivered) *)
| RForce (c : cpc) (e : Z)       (* read error e, inside ForceClose(e)          (reader.err) *)
| RDone                          (* returning, deferred wg.Done pending *)
| RExited.

Record sender := mksender {
  todo : list pkt;            (* packets this goroutine still wants to send, one call each *)
  chk : bool;                 (* inside SendPacket, running-check passed   (send.checked) *)
  results : list (Z * Z)      (* (pid, code) of the calls that returned: 0 nil, 1 closing, 2 overflow *)
}.

Record closer := mkcloser {
  graceful : bool;            (* true: Close(), false: ForceClose(cerr) *)
  cerr : Z;
  cp : cpc
}.

Record st := mkst {
  cst : cstate;
  outq : list pkt; ocap : nat; oclosed : bool; onil : bool;      (* t.outbound *)
  done : bool;                                                   (* t.done closed? *)
  wgc : nat;                                                     (* t.wg *)
  wp : wpc; rp : rpc;
  senders : list sender; closers : list closer; fins : list fpc;
  (* socket, outgoing direction *)
  wire : list pkt;            (* frames written to the socket, in order *)
  fin : bool;                 (* CloseWrite done: the peer sees end-of-stream after [wire] *)
  wbroken : bool;             (* the peer reset the connection: every later write fails *)
  kcap : nat; peer_rd : nat;  (* kernel buffering: at most kcap frames written and not yet read by the peer *)
  (* socket, incoming direction *)
  peer_todo : list inp; sock_in : list inp; rd_closed : bool;
  inq : list pkt; icap : nat;                                     (* shared inbound channel *)
  errq : list Z; ecap : nat; enil : bool;                         (* shared error channel (enil: nil channel) *)
  psent : Z; bsent : Z; precv : Z; brecv : Z;                     (* Stats() *)
  panic : bool;
  (* ghost history, never read by the program steps *)
  accepted : list pkt;        (* packets that entered the outbound queue (SendPacket answered nil), in queue order *)
  acc_cas : list pkt;         (* [accepted] at the moment of the successful CAS *)
  gone : list pkt;            (* packets whose write() returned (successfully or not), in order *)
  lost : list pkt;            (* encodable packets whose write failed on the broken socket *)
  rframes : list pkt;         (* frames readPacket returned, in order *)
  delivered : list pkt;       (* frames this reader put on the inbound channel, in order *)
  rdrop : list pkt;           (* frame in hand when the reader left through <-done *)
  rhist : list inp;           (* everything readPacket consumed from the socket, in order *)
  attempts : nat;             (* notifyErr calls *)
  notified : list Z;          (* errors that were put on the error channel by this connection *)
  ncas : nat;                 (* successful Running->Shutdown CASes *)
  ndone : nat                 (* executions of close(t.done) *)
}.

#[export] Instance eta_sender : Settable _ := settable! mksender <todo; chk; results>.
#[export] Instance eta_closer : Settable _ := settable! mkcloser <graceful; cerr; cp>.
#[export] Instance eta_st : Settable _ := settable! mkst
  <cst; outq; ocap; oclosed; onil; done; wgc; wp; rp; senders; closers; fins;
   wire; fin; wbroken; kcap; peer_rd; peer_todo; sock_in; rd_closed; inq; icap;
   errq; ecap; enil; psent; bsent; precv; brecv; panic;
   accepted; acc_cas; gone; lost; rframes; delivered; rdrop; rhist; attempts; notified; ncas; ndone>.

Fixpoint upd {A} (l : list A) (i : nat) (x : A) : list A :=
  match l, i with
  | [], _ => []
  | _ :: r, O => x :: r
  | y :: r, S i' => y :: upd r i' x
  end.

Definition cst_eqb (a b : cstate) : bool :=
  match a, b with
  | Running, Running | Shutdown, Shutdown | Terminated, Terminated => true
  | _, _ => false
  end.

(* ---------------------------------------------------------------- SendPacket *)
Definition send_step (s : st) (i : nat) : option st :=
  match nth_error (senders s) i with
  | None => None
  | Some sd =>
      match todo sd with
      | [] => None
      | p :: r =>
          if negb (chk sd) then
            (* if !t.IsRunning() { return ErrConnIsClosing } *)
            if cst_eqb (cst s) Running
            then Some (s <| senders := upd (senders s) i (sd <| chk := true |>) |>)
            else Some (s <| senders := upd (senders s) i
                              (sd <| todo := r |> <| results := results sd ++ [(pid p, 1%Z)] |>) |>)
          else
            (* select { case t.outbound <- pkt: return nil; default: return overflow } *)
            let ret (code : Z) (s1 : st) :=
              s1 <| senders := upd (senders s) i
                      (sd <| todo := r |> <| chk := false |> <| results := results sd ++ [(pid p, code)] |>) |> in
            if onil s then Some (ret 2%Z s)                      (* send on a nil channel is never ready *)
            else if oclosed s then Some (s <| panic := true |>)  (* send on closed channel *)
            else if length (outq s) <? ocap s
                 then Some (ret 0%Z (s <| outq := outq s ++ [p] |> <| accepted := accepted s ++ [p] |>))
                 else Some (ret 2%Z s)
      end
  end.

(* ---------------------------------------------------------------- writePump / flush / write *)
Definition wnext (m : wmode) : wmode :=
  match m with MLoop => MLoop | MFlush i => MFlush (S i) end.

Inductive wchoice := WDeq | WSawDone | WFlushEnd | WStep.

Definition writer_step (v : variant) (s : st) (c : wchoice) : option st :=
  match wp s, c with
  | WSel MLoop, WDeq =>
      match outq s with
      | p :: r => Some (s <| outq := r |> <| wp := WHave MLoop p |>)
      | [] => if oclosed s then Some (s <| wp := WSel (MFlush 0) |>)   (* pkt, ok := <-closed: return *)
              else None
      end
  | WSel MLoop, WSawDone =>
      if done s then Some (s <| wp := WSel (MFlush 0) |>) else None
  | WSel (MFlush i), WDeq =>
      (* legacy: for i := 0; i < len(t.outbound); i++ { select { case pkt := <-t.outbound ... *)
      if v_flush_len v && negb (i <? length (outq s)) then None
      else match outq s with
           | p :: r => Some (s <| outq := r |> <| wp := WHave (MFlush i) p |>)
           | [] => None
           end
  | WSel (MFlush i), WFlushEnd =>
      (* repaired: default branch of the select (queue empty); legacy: also the loop bound *)
      match outq s with
      | [] => Some (s <| wp := WDone |>)
      | _ :: _ => if v_flush_len v && negb (i <? length (outq s)) then Some (s <| wp := WDone |>) else None
      end
  | WHave m p, WStep =>
      (* t.write(pkt): WritePacket + Flush *)
      if negb (pok p) then Some (s <| gone := gone s ++ [p] |> <| wp := WSel (wnext m) |>)
      else if wbroken s then
        Some (s <| gone := gone s ++ [p] |> <| lost := lost s ++ [p] |> <| wp := WSel (wnext m) |>)
      else if length (wire s) - peer_rd s <? kcap s then
        Some (s <| gone := gone s ++ [p] |> <| wire := wire s ++ [p] |> <| wp := WCount m p |>)
      else None                                                   (* blocked: kernel buffer full *)
  | WCount m p, WStep =>
      Some (s <| psent := (psent s + 1)%Z |> <| bsent := (bsent s + psize p)%Z |> <| wp := WSel (wnext m) |>)
  | WDone, WStep =>
      match wgc s with
      | O => Some (s <| panic := true |>)                          (* negative WaitGroup counter *)
      | S n => Some (s <| wgc := n |> <| wp := WExited |>)
      end
  | _, _ => None
  end.

(* ---------------------------------------------------------------- finally() *)
Definition fin_step (v : variant) (s : st) (f : fpc) : option (st * fpc) :=
  match f with
  | FWait => match wgc s with O => Some (s, FWaited) | S _ => None end       (* t.wg.Wait() *)
  | FWaited => Some (s <| fin := true |>, FClosedWrite)                        (* CloseWrite *)
  | FClosedWrite =>
      let s1 := s <| cst := Terminated |> in
      if v_close_out v then
        if oclosed s then Some (s1 <| panic := true |>, FTeardown)             (* close of closed channel *)
        else Some (s1 <| oclosed := true |>, FTeardown)
      else Some (s1, FTeardown)
  | FTeardown => if v_close_out v then Some (s <| onil := true |>, FEnd) else Some (s, FEnd)
  | FEnd => None
  end.

(* ---------------------------------------------------------------- Close / ForceClose *)
Definition notify (s : st) (e : Z) : st :=
  let s1 := s <| attempts := S (attempts s) |> in
  if enil s then s1
  else if length (errq s) <? ecap s
       then s1 <| errq := errq s ++ [e] |> <| notified := notified s ++ [e] |>
       else s1.

Definition close_step (v : variant) (s : st) (grace : bool) (e : Z) (c : cpc) : option (st * cpc) :=
  match c with
  | CStart =>
      if cst_eqb (cst s) Running
      then Some (s <| cst := Shutdown |> <| ncas := S (ncas s) |> <| acc_cas := accepted s |>, CCas)
      else Some (s, CRet false)
  | CCas => Some (s <| rd_closed := true |>, CRdClosed)
  | CRdClosed =>
      if done s then Some (s <| panic := true |>, CDoneClosed)                 (* close of closed channel *)
      else Some (s <| done := true |> <| ndone := S (ndone s) |>, CDoneClosed)
  | CDoneClosed => Some (notify s e, CNotified)
  | CNotified =>
      if grace then
        match fin_step v s FWait with Some (s1, f) => Some (s1, CFin f) | None => None end
      else Some (s <| fins := fins s ++ [FWait] |>, CRet true)                 (* go t.finally() *)
  | CFin FEnd => Some (s, CRet true)
  | CFin f => match fin_step v s f with Some (s1, f') => Some (s1, CFin f') | None => None end
  | CRet _ => None
  end.

(* ---------------------------------------------------------------- readPump *)
Inductive rchoice := RdFrame | RdErr | RDeliver | RSawDone | RStep.

Definition reader_step (v : variant) (s : st) (c : rchoice) : option st :=
  match rp s, c with
  | RRead, RdFrame =>
      match sock_in s with
      | IFrame p :: r =>
          Some (s <| sock_in := r |> <| rhist := rhist s ++ [IFrame p] |> <| rframes := rframes s ++ [p] |>
                  <| precv := (precv s + 1)%Z |> <| brecv := (brecv s + psize p)%Z |> <| rp := RHave p |>)
      | _ => None
      end
  | RRead, RdErr =>
      match sock_in s with
      | IErr e :: r => Some (s <| sock_in := r |> <| rhist := rhist s ++ [IErr e] |> <| rp := RForce CStart e |>)
      | _ => if rd_closed s then Some (s <| rp := RForce CStart 0%Z |>) else None   (* EOF after CloseRead *)
      end
  | RHave p, RDeliver =>
      if length (inq s) <? icap s
      then Some (s <| inq := inq s ++ [p] |> <| delivered := delivered s ++ [p] |> <| rp := RTest |>)
      else None
  | RHave p, RSawDone =>
      if v_reader_sel v && done s then Some (s <| rdrop := rdrop s ++ [p] |> <| rp := RDone |>) else None
  | RTest, RStep => Some (s <| rp := if done s then RDone else RRead |>)
  | RForce c e, RStep =>
      match close_step v s false e c with
      | Some (s1, CRet _) => Some (s1 <| rp := RDone |>)
      | Some (s1, c') => Some (s1 <| rp := RForce c' e |>)
      | None => None
      end
  | RDone, RStep =>
      match wgc s with
      | O => Some (s <| panic := true |>)
      | S n => Some (s <| wgc := n |> <| rp := RExited |>)
      end
  | _, _ => None
  end.

(* ---------------------------------------------------------------- the system *)
Inductive choice :=
| Sender (i : nat)
| Writer (c : wchoice)
| Reader (c : rchoice)
| Closer (j : nat)
| Finalizer (k : nat)
| PeerWrite | PeerRead | PeerReset
| InConsume | InFill (p : pkt) | ErrConsume | ErrFill (e : Z).

Definition step (v : variant) (s : st) (c : choice) : option st :=
  if panic s then None else
  match c with
  | Sender i => send_step s i
  | Writer w => writer_step v s w
  | Reader r => reader_step v s r
  | Closer j =>
      match nth_error (closers s) j with
      | None => None
      | Some cl =>
          match close_step v s (graceful cl) (cerr cl) (cp cl) with
          | Some (s1, c') => Some (s1 <| closers := upd (closers s1) j (cl <| cp := c' |>) |>)
          | None => None
          end
      end
  | Finalizer k =>
      match nth_error (fins s) k with
      | None => None
      | Some f =>
          match fin_step v s f with
          | Some (s1, f') => Some (s1 <| fins := upd (fins s1) k f' |>)
          | None => None
          end
      end
  | PeerWrite =>
      match peer_todo s with
      | x :: r => Some (s <| peer_todo := r |> <| sock_in := sock_in s ++ [x] |>)
      | [] => None
      end
  | PeerRead =>
      if peer_rd s <? length (wire s) then Some (s <| peer_rd := S (peer_rd s) |>) else None
  | PeerReset => Some (s <| wbroken := true |>)
  | InConsume => match inq s with _ :: r => Some (s <| inq := r |>) | [] => None end
  | InFill p => if length (inq s) <? icap s then Some (s <| inq := inq s ++ [p] |>) else None
  | ErrConsume => match errq s with _ :: r => Some (s <| errq := r |>) | [] => None end
  | ErrFill e =>
      if negb (enil s) && (length (errq s) <? ecap s) then Some (s <| errq := errq s ++ [e] |>) else None
  end.

(* every list of choices is a schedule: a disabled choice is skipped *)
Fixpoint run (v : variant) (s : st) (cs : list choice) : st :=
  match cs with
  | [] => s
  | c :: r => match step v s c with Some s' => run v s' r | None => run v s r end
  end.

(* a connection right after Go(flag): configuration is arbitrary *)
Definition init (ocap_ kcap_ icap_ ecap_ : nat) (enil_ : bool) (has_writer has_reader : bool)
    (sds : list (list pkt)) (cls : list (bool * Z)) (input : list inp)
    (inq0 : list pkt) (errq0 : list Z) : st :=
  {| cst := Running;
     outq := []; ocap := ocap_; oclosed := false; onil := false;
     done := false;
     wgc := (if has_writer then 1 else 0) + (if has_reader then 1 else 0);
     wp := if has_writer then WSel MLoop else WAbsent;
     rp := if has_reader then RRead else RAbsent;
     senders := map (fun l => mksender l false []) sds;
     closers := map (fun gc => mkcloser (fst gc) (snd gc) CStart) cls;
     fins := [];
     wire := []; fin := false; wbroken := false; kcap := kcap_; peer_rd := 0;
     peer_todo := input; sock_in := []; rd_closed := false;
     inq := inq0; icap := icap_; errq := errq0; ecap := ecap_; enil := enil_;
     psent := 0; bsent := 0; precv := 0; brecv := 0;
     panic := false;
     accepted := []; acc_cas := []; gone := []; lost := [];
     rframes := []; delivered := []; rdrop := []; rhist := [];
     attempts := 0; notified := []; ncas := 0; ndone := 0 |}.
