(* C03 / C04 — correspondence machinery shared by C03/Run.v and C04/Run.v (no proofs):
   decoding of a case written by harness/connsim, construction of the model's initial
   state from the scenario, translation of the recorded schedule points into model
   choices, replay of a serialized (gated) run through the model, per-thread acceptance
   of free-running logs, and the comparison of final observables.

   input    = (mode codec cipher ocap icap ecap hw hr senders closers input peerread
               inconsumer seed script closeafter latesend [(failafter immediate maxprocs readtimeout lateinput waitinput smallbuf)])
   observed = (oracle inoracle events results wire (garbage eof peererr nofin peerreset) counters delivered
               (badendpoint foreign statsbad) (errgot errforeign errkind) closeres (panics state doneclosed)
               (inconclusive stuck pumpafterwait) late) *)
From Coq Require Import ZArith List Bool Arith.
From FV Require Import Lib.Sx C03.Model.
Import ListNotations.
Open Scope Z_scope.

Record scen := mkscen {
  sc_mode : Z; sc_ocap : Z; sc_icap : Z; sc_ecap : Z; sc_hw : bool; sc_hr : bool;
  sc_senders : list (list (Z * Z));        (* (id, body size) *)
  sc_closers : list bool;
  sc_input : list (Z * Z * Z);             (* (kind, id, size) *)
  sc_inconsumer : Z; sc_closeafter : Z; sc_latesend : Z;
  sc_failafter : Z;                        (* >= 0: injected write failure after that many writes; -1: none *)
  sc_immediate : Z;
  sc_readtimeout : Z;                      (* seconds, 0: the harness's default (60 s) *)
  sc_waitinput : Z                         (* 1: the peer had written all its input before any Close was called *)
}.

Record obs := mkobs {
  o_oracle : list (Z * Z * bool);          (* (id, frame size, encodable) *)
  o_inoracle : list (Z * Z);
  o_events : list (Z * Z * Z * Z);         (* (thread kind, index, point, arg) in arrival order *)
  o_results : list (list (Z * Z));
  o_wire : list (Z * Z * Z);               (* (id, frame size, body intact) *)
  o_garbage : Z; o_eof : Z; o_peererr : Z; o_nofin : Z; o_peerreset : Z;
  o_counters : list Z;
  o_delivered : list Z;
  o_badendpoint : Z; o_foreign : Z; o_statsbad : Z;
  o_errgot : Z; o_errforeign : Z; o_errkind : Z;
  o_closeres : list Z;
  o_panics : Z; o_state : Z; o_doneclosed : Z;
  o_inconcl : Z; o_stuck : Z; o_pumpafterwait : Z;
  o_late : list Z
}.

Definition sx_pair (s : sx) : option (Z * Z) :=
  match s with SList [SInt a; SInt b] => Some (a, b) | _ => None end.
Definition sx_triple (s : sx) : option (Z * Z * Z) :=
  match s with SList [SInt a; SInt b; SInt c] => Some (a, b, c) | _ => None end.
Definition sx_quad (s : sx) : option (Z * Z * Z * Z) :=
  match s with SList [SInt a; SInt b; SInt c; SInt d] => Some (a, b, c, d) | _ => None end.
Definition sx_oracle (s : sx) : option (Z * Z * bool) :=
  match s with SList [SInt a; SInt b; SInt c] => Some (a, b, negb (c =? 0)) | _ => None end.
Definition sx_listof {A} (f : sx -> option A) (s : sx) : option (list A) :=
  match s with SList l => map_opt f l | _ => None end.
Definition sx_b (s : sx) : option bool := match s with SInt z => Some (negb (z =? 0)) | _ => None end.

Definition decode_scen (s : sx) : option scen :=
  match s with
  | SList (SInt mode :: SInt _codec :: SInt _cipher :: SInt ocap :: SInt icap :: SInt ecap :: hw :: hr :: snd :: cls :: inp ::
           SInt _peerread :: SInt incons :: SInt _seed :: _script :: SInt closeafter :: SInt latesend :: extras) =>
      let '(failafter, immediate) :=
        match extras with
        | SList (SInt f :: SInt i :: _) :: _ => (f, i)
        | _ => (-1, 0)
        end in
      let readtimeout :=
        match extras with
        | SList (_ :: _ :: _ :: SInt r :: _) :: _ => r
        | _ => 0
        end in
      let waitinput :=
        match extras with
        | SList (_ :: _ :: _ :: _ :: _ :: SInt w :: _) :: _ => w
        | _ => 0
        end in
      match sx_b hw, sx_b hr, sx_listof (sx_listof sx_pair) snd, sx_listof sx_b cls, sx_listof sx_triple inp with
      | Some hw, Some hr, Some snd, Some cls, Some inp =>
          Some (mkscen mode ocap icap ecap hw hr snd cls inp incons closeafter latesend failafter immediate readtimeout waitinput)
      | _, _, _, _, _ => None
      end
  | _ => None
  end.

Definition decode_obs (s : sx) : option obs :=
  match s with
  | SList [orc; inorc; evs; res; wire; SList (SInt garbage :: SInt eof :: SInt peererr :: fl); cnt; deliv;
           SList (SInt badep :: SInt foreign :: r8); SList (SInt errgot :: SInt errforeign :: r9); cres;
           SList [SInt panics; SInt state; SInt doneclosed]; SList [SInt inconcl; SInt stuck; SInt paw]; late] =>
      match sx_listof sx_oracle orc, sx_listof sx_pair inorc, sx_listof sx_quad evs,
            sx_listof (sx_listof sx_pair) res, sx_listof sx_triple wire, sx_ints cnt, sx_ints deliv,
            sx_ints cres, sx_ints late with
      | Some orc, Some inorc, Some evs, Some res, Some wire, Some cnt, Some deliv, Some cres, Some late =>
          Some (mkobs orc inorc evs res wire garbage eof peererr (match fl with SInt n :: _ => n | _ => 0 end)
                      (match fl with _ :: SInt r :: _ => r | _ => 0 end) cnt deliv badep foreign (match r8 with SInt b :: _ => b | _ => 0 end) errgot errforeign (match r9 with SInt k :: _ => k | _ => 0 end)
                      cres panics state doneclosed inconcl stuck paw late)
      | _, _, _, _, _, _, _, _, _ => None
      end
  | _ => None
  end.

(* ---------------------------------------------------------------- scenario -> model *)
Fixpoint lookup3 (id : Z) (l : list (Z * Z * bool)) : option (Z * bool) :=
  match l with
  | [] => None
  | (i, n, ok) :: r => if i =? id then Some (n, ok) else lookup3 id r
  end.
Fixpoint lookup2 (id : Z) (l : list (Z * Z)) : option Z :=
  match l with
  | [] => None
  | (i, n) :: r => if i =? id then Some n else lookup2 id r
  end.

Definition pkt_of (o : obs) (idsz : Z * Z) : pkt :=
  match lookup3 (fst idsz) (o_oracle o) with
  | Some (n, ok) => mkpkt (fst idsz) n ok
  | None => mkpkt (fst idsz) 0 false
  end.

Definition inp_of (o : obs) (it : Z * Z * Z) : inp :=
  match it with
  | (kind, id, _) =>
      if (kind =? 0) || (kind =? 7) || (kind =? 8) then IFrame (mkpkt id (match lookup2 id (o_inoracle o) with Some n => n | None => 0 end) true)
      else IErr kind
  end.

Definition has_rst (sc : scen) : bool := existsb (fun it => match it with (k, _, _) => k =? 3 end) (sc_input sc).

Definition npkts (sc : scen) : nat := length (concat (sc_senders sc)).

Definition init_of (sc : scen) (o : obs) : st :=
  init (Z.to_nat (sc_ocap sc)) (S (npkts sc)) (Z.to_nat (sc_icap sc))
       (if sc_ecap sc <? 0 then 0%nat else Z.to_nat (sc_ecap sc)) (sc_ecap sc <? 0)
       (sc_hw sc) (sc_hr sc)
       (map (map (pkt_of o)) (sc_senders sc))
       (map (fun g : bool => (g, if g then 101 else 102)) (sc_closers sc))
       (map (inp_of o) (sc_input sc)) [] [].

(* ---------------------------------------------------------------- events -> choices *)
Definition foreign_pkt : pkt := mkpkt (-1) 0 true.

Definition ev_choices (s : st) (e : Z * Z * Z * Z) : option (list choice) :=
  match e with
  | (kind, idx, point, arg) =>
      let i := Z.to_nat idx in
      if kind =? 0 then                                        (* sender i *)
        if point =? 1 then Some []
        else if point =? 2 then Some [Sender i]
        else if point =? 3 then (if arg =? 3 then Some [] else Some [Sender i])
        else None
      else if kind =? 1 then                                   (* writer *)
        if (point =? 10) || (point =? 15) then Some [Writer WDeq]
        else if point =? 11 then Some [Writer WStep; Writer WStep]
        else if (point =? 12) || (point =? 16) then
          match wp s with
          | WHave _ p => if pok p && negb (wbroken s) then Some [PeerReset; Writer WStep] else Some [Writer WStep]
          | _ => Some []
          end
        else if point =? 13 then Some [Writer WSawDone]
        else if point =? 14 then Some []
        else if point =? 17 then Some [Writer WFlushEnd]
        else if point =? 18 then Some [Writer WStep]
        else None
      else if kind =? 2 then                                   (* reader *)
        if point =? 20 then Some [Reader RdFrame]
        else if point =? 21 then Some [Reader RDeliver]
        else if point =? 22 then Some [Reader RdErr]
        else if point =? 24 then Some [Reader RStep]
        else if (40 <=? point) && (point <=? 44) then Some [Reader RStep]
        else if point =? 23 then
          match rp s with
          | RTest => Some [Reader RStep; Reader RStep]
          | RHave _ => Some [Reader RSawDone; Reader RStep]
          | RForce CStart _ => Some [Reader RStep; Reader RStep]
          | RDone => Some [Reader RStep]
          | _ => None
          end
        else None
      else if kind =? 3 then                                   (* closer i *)
        if point =? 30 then Some []
        else if point =? 36 then
          match nth_error (closers s) i with
          | Some cl => match cp cl with CStart => if arg =? 3 then Some [] else Some [Closer i] | _ => Some [] end
          | None => None
          end
        else if ((31 <=? point) && (point <=? 35)) || ((40 <=? point) && (point <=? 44))
                || ((50 <=? point) && (point <=? 53)) then Some [Closer i]
        else None
      else if kind =? 4 then                                   (* finalizer i *)
        if (50 <=? point) && (point <=? 53) then Some [Finalizer i] else None
      else if kind =? 5 then                                   (* environment *)
        if point =? 60 then Some [PeerWrite]
        else if point =? 61 then Some [InConsume]
        else if point =? 62 then Some [InFill foreign_pkt]
        else if point =? 63 then Some [ErrConsume]
        else if point =? 64 then Some [ErrFill 99]
        else None
      else None
  end.

Fixpoint apply_group (s : st) (cs : list choice) : option st :=
  match cs with
  | [] => Some s
  | c :: r => match step repaired s c with Some s' => apply_group s' r | None => None end
  end.

Definition try_event (s : st) (e : Z * Z * Z * Z) : option st :=
  match ev_choices s e with Some cs => apply_group s cs | None => None end.

Definition same_thread (a b : Z * Z * Z * Z) : bool :=
  match a, b with (k1, i1, _, _), (k2, i2, _, _) => (k1 =? k2) && (i1 =? i2) end.

(* one pass over the pending events (arrival order): apply the first one that is enabled and
   is the oldest pending event of its thread *)
Fixpoint pass (s : st) (pend blocked : list (Z * Z * Z * Z)) : option (st * list (Z * Z * Z * Z)) :=
  match pend with
  | [] => None
  | e :: r =>
      if existsb (same_thread e) blocked then
        match pass s r blocked with Some (s', r') => Some (s', e :: r') | None => None end
      else
        match try_event s e with
        | Some s' => Some (s', r)
        | None => match pass s r (e :: blocked) with Some (s', r') => Some (s', e :: r') | None => None end
        end
  end.

Fixpoint settle (fuel : nat) (s : st) (pend : list (Z * Z * Z * Z)) : st * list (Z * Z * Z * Z) :=
  match fuel with
  | O => (s, pend)
  | S f => match pass s pend [] with Some (s', pend') => settle f s' pend' | None => (s, pend) end
  end.

(* replay of a serialized run: events in arrival order, an event whose step is not yet
   enabled (its goroutine was parked and completed during a later step) is deferred *)
Fixpoint replay (s : st) (pend evs : list (Z * Z * Z * Z)) : st * list (Z * Z * Z * Z) :=
  match evs with
  | [] => (s, pend)
  | e :: r =>
      let '(s', pend') := settle (S (length pend)) s (pend ++ [e]) in
      replay s' pend' r
  end.

(* ---------------------------------------------------------------- per-thread acceptance *)
(* control-flow automata of the goroutines (what a thread-local log may look like whatever the
   other goroutines do); state 0 = start, None = not accepted *)
Definition acc_sender (q p : Z) : option Z :=
  if (q =? 0) && (p =? 1) then Some 1          (* begin *)
  else if (q =? 1) && (p =? 2) then Some 2     (* checked *)
  else if (q =? 1) && (p =? 3) then Some 0     (* refused *)
  else if (q =? 2) && (p =? 3) then Some 0
  else None.

(* writer: 0 loop, 1 have, 2 counted, 3 sawdone, 4 in flush, 5 flush have, 6 flush counted, 7 flushed, 8 exited *)
Definition acc_writer (q p : Z) : option Z :=
  if (q =? 0) && (p =? 10) then Some 1
  else if (q =? 1) && (p =? 11) then Some 2
  else if ((q =? 1) || (q =? 2)) && (p =? 12) then Some 0
  else if (q =? 0) && (p =? 13) then Some 3
  else if (q =? 3) && (p =? 14) then Some 4
  else if (q =? 4) && (p =? 15) then Some 5
  else if (q =? 5) && (p =? 11) then Some 6
  else if ((q =? 5) || (q =? 6)) && (p =? 16) then Some 4
  else if (q =? 4) && (p =? 17) then Some 7
  else if (q =? 7) && (p =? 18) then Some 8
  else None.

(* reader: 0 reading, 1 have, 2 delivered, 3 err, 4..7 inside ForceClose, 8 returned, 9 exited *)
Definition acc_reader (q p : Z) : option Z :=
  if (q =? 0) && (p =? 20) then Some 1
  else if (q =? 1) && (p =? 21) then Some 2
  else if (q =? 2) && (p =? 24) then Some 0
  else if (q =? 0) && (p =? 22) then Some 3
  else if (q =? 3) && (p =? 40) then Some 4
  else if (q =? 4) && (p =? 41) then Some 5
  else if (q =? 5) && (p =? 42) then Some 6
  else if (q =? 6) && (p =? 43) then Some 7
  else if (q =? 7) && (p =? 44) then Some 8
  else if ((q =? 1) || (q =? 2) || (q =? 3) || (q =? 8)) && (p =? 23) then Some 9
  else None.

(* closer (graceful g / forced): 0 start, 1 begun, 2..5 won, 6..9 finally, 10 returned (inner), 11 done *)
Definition acc_closer (g : bool) (q p : Z) : option Z :=
  if (q =? 0) && (p =? 30) then Some 1
  else if (q =? 1) && (p =? 36) then Some 11
  else if g then
    if (q =? 1) && (p =? 31) then Some 2
    else if (q =? 2) && (p =? 32) then Some 3
    else if (q =? 3) && (p =? 33) then Some 4
    else if (q =? 4) && (p =? 34) then Some 5
    else if (q =? 5) && (p =? 50) then Some 6
    else if (q =? 6) && (p =? 51) then Some 7
    else if (q =? 7) && (p =? 52) then Some 8
    else if (q =? 8) && (p =? 53) then Some 9
    else if (q =? 9) && (p =? 35) then Some 10
    else if (q =? 10) && (p =? 36) then Some 11
    else None
  else
    if (q =? 1) && (p =? 40) then Some 2
    else if (q =? 2) && (p =? 41) then Some 3
    else if (q =? 3) && (p =? 42) then Some 4
    else if (q =? 4) && (p =? 43) then Some 5
    else if (q =? 5) && (p =? 44) then Some 10
    else if (q =? 10) && (p =? 36) then Some 11
    else None.

Definition acc_final (q p : Z) : option Z :=
  if (q =? 0) && (p =? 50) then Some 1
  else if (q =? 1) && (p =? 51) then Some 2
  else if (q =? 2) && (p =? 52) then Some 3
  else if (q =? 3) && (p =? 53) then Some 4
  else None.

Fixpoint run_acc (f : Z -> Z -> option Z) (q : Z) (ps : list Z) : bool :=
  match ps with
  | [] => true
  | p :: r => match f q p with Some q' => run_acc f q' r | None => false end
  end.

Definition thread_log (evs : list (Z * Z * Z * Z)) (kind idx : Z) : list Z :=
  map (fun e => match e with (_, _, p, _) => p end)
      (filter (fun e => match e with (k, i, _, _) => (k =? kind) && (i =? idx) end) evs).

Fixpoint zseq (n : nat) : list Z := match n with O => [] | S m => zseq m ++ [Z.of_nat m] end.

Definition logs_accepted (sc : scen) (o : obs) : bool :=
  let evs := o_events o in
  forallb (fun i => run_acc acc_sender 0 (thread_log evs 0 i)) (zseq (length (sc_senders sc)))
  && run_acc acc_writer 0 (thread_log evs 1 0)
  && run_acc acc_reader 0 (thread_log evs 2 0)
  && forallb (fun jg => run_acc (acc_closer (snd jg)) 0 (thread_log evs 3 (fst jg)))
             (combine (zseq (length (sc_closers sc))) (sc_closers sc))
  && forallb (fun k => run_acc acc_final 0 (thread_log evs 4 k)) (zseq 4)
  && forallb (fun e => match e with (k, _, _, _) => (0 <=? k) && (k <=? 5) end) evs.

(* ---------------------------------------------------------------- comparison of final observables *)
Definition zeqb_list := list_eqb Z.eqb.
Definition pair_eqb (a b : Z * Z) : bool := (fst a =? fst b) && (snd a =? snd b).

Definition wire_ids (o : obs) : list Z := map (fun w => match w with (id, _, _) => id end) (o_wire o).

Definition cst_code (c : cstate) : Z := match c with Running => 2 | Shutdown => 3 | Terminated => 4 end.

(* strict comparison after a serialized run (replay consumed every event).
   loose = the scenario contains a peer reset: what reached the peer before the reset is not determined *)
(* the peer wrote after some Close/ForceClose had won the CAS: the kernel may answer data that
   arrives after the shutdown with a reset, and what the peer has not read yet is then lost *)
Fixpoint peer_wrote_after_cas (seen_cas : bool) (evs : list (Z * Z * Z * Z)) : bool :=
  match evs with
  | [] => false
  | (k, _, p, _) :: r =>
      if seen_cas && (k =? 5) && (p =? 60) then true
      else peer_wrote_after_cas (seen_cas || (((k =? 3) || (k =? 2)) && ((p =? 31) || (p =? 40)))) r
  end.

Definition compare_final (sc : scen) (o : obs) (s : st) (pend : list (Z * Z * Z * Z)) : verdict :=
  let loose := has_rst sc in
  let loose_wire := loose || peer_wrote_after_cas false (o_events o) in
  vjoin (check_that (match pend with [] => true | _ => false end) (VMismatch 1))
 (vjoin (check_that (loose_wire || negb (o_eof o =? 1) || zeqb_list (map pid (wire s)) (wire_ids o)) (VMismatch 2))
 (vjoin (check_that (list_eqb (list_eqb pair_eqb) (map results (senders s)) (o_results o)) (VMismatch 3))
 (vjoin (check_that (loose || zeqb_list [psent s; bsent s; precv s; brecv s] (o_counters o)) (VMismatch 4))
 (vjoin (check_that (zeqb_list (map pid (delivered s)) (o_delivered o)) (VMismatch 5))
 (vjoin (check_that ((Z.of_nat (length (notified s)) =? o_errgot o)
                     && match notified s with
                        | e :: _ => (o_errkind o mod 10) =? (if e =? 101 then 1 else if e =? 102 then 2 else 3)
                        | [] => true
                        end) (VMismatch 6))
        (check_that ((cst_code (cst s) =? o_state o) && Bool.eqb (done s) (o_doneclosed o =? 1)
                     && (negb (o_eof o =? 1) || fin s) && negb (panic s)) (VMismatch 7))))))).

Definition correspondence (sc : scen) (o : obs) : verdict :=
  vjoin (check_that (logs_accepted sc o) (VMismatch 8))
        (if (sc_mode sc =? 1) && (o_stuck o =? 0) && (o_inconcl o =? 0) && (o_panics o =? 0) then
           let '(s, pend) := replay (init_of sc o) [] (o_events o) in
           compare_final sc o s pend
         else VOk).
