(* C03 / C04 — control-state invariant of the repaired connection model: the CAS elects one
   closer, done is closed once, one notification, the WaitGroup counts the live pumps, no
   step panics, finally runs past wg.Wait only when both pumps are gone. *)
From Coq Require Import ZArith List Bool Arith Lia.
From RecordUpdate Require Import RecordSet.
From FV Require Import C03.Model C03.Base.
Import ListNotations.
Import RecordSetNotations.

Definition pre_done (c : cpc) : nat := match c with CCas | CRdClosed => 1 | _ => 0 end.
Definition at_cas (c : cpc) : nat := match c with CCas => 1 | _ => 0 end.
Definition pre_notify (c : cpc) : nat := match c with CCas | CRdClosed | CDoneClosed => 1 | _ => 0 end.
Definition pre_fin (c : cpc) : nat :=
  match c with CCas | CRdClosed | CDoneClosed | CNotified => 1 | _ => 0 end.
Definition postw (f : fpc) : nat := match f with FWait => 0 | _ => 1 end.
Definition postcw (f : fpc) : nat := match f with FWait | FWaited => 0 | _ => 1 end.

Definition cw_done (cl : closer) := pre_done (cp cl).
Definition cw_atcas (cl : closer) := at_cas (cp cl).
Definition cw_notify (cl : closer) := pre_notify (cp cl).
Definition cw_fin (cl : closer) := pre_fin (cp cl).
(* this Close call is inside or past finally()'s wg.Wait / CloseWrite *)
Definition cw_postw (cl : closer) : nat :=
  match cp cl with CFin f => postw f | CRet true => if graceful cl then 1 else 0 | _ => 0 end.
Definition cw_postcw (cl : closer) : nat :=
  match cp cl with CFin f => postcw f | CRet true => if graceful cl then 1 else 0 | _ => 0 end.
(* finally() invocations: inline ones *)
Definition cw_infin (cl : closer) : nat :=
  match cp cl with CFin _ => 1 | CRet true => if graceful cl then 1 else 0 | _ => 0 end.

(* ForceClose never runs finally() inline *)
Definition cw_badfin (cl : closer) : nat :=
  match cp cl with CFin _ => if graceful cl then 0 else 1 | _ => 0 end.

Definition rcl (f : cpc -> nat) (r : rpc) : nat := match r with RForce c _ => f c | _ => 0 end.
Definition livew (w : wpc) : nat := match w with WAbsent | WExited => 0 | _ => 1 end.
Definition liver (r : rpc) : nat := match r with RAbsent | RExited => 0 | _ => 1 end.
Definition b2n (b : bool) : nat := if b then 1 else 0.

Record InvA (s : st) : Prop := {
  a_cas1 : ncas s <= 1;
  a_run : cst s = Running <-> ncas s = 0;
  a_done : sumc cw_done (closers s) + rcl pre_done (rp s) + ndone s = ncas s;
  a_doneb : ndone s = b2n (done s);
  a_notify : sumc cw_notify (closers s) + rcl pre_notify (rp s) + attempts s = ncas s;
  a_fin : sumc cw_fin (closers s) + rcl pre_fin (rp s) + sumc cw_infin (closers s) + length (fins s) = ncas s;
  a_panic : panic s = false;
  a_ocl : oclosed s = false;
  a_onil : onil s = false;
  a_wg : wgc s = livew (wp s) + liver (rp s);
  a_pw : 1 <= sumc cw_postw (closers s) + sumf postw (fins s) + b2n (fin s) -> wgc s = 0;
  a_cw : 1 <= sumc cw_postcw (closers s) + sumf postcw (fins s) -> fin s = true;
  a_gf : sumc cw_badfin (closers s) = 0;
  a_notif : length (notified s) <= attempts s;
  a_rdc : sumc cw_atcas (closers s) + rcl at_cas (rp s) + b2n (rd_closed s) = ncas s;
  a_rf : match rp s with RForce (CFin _) _ | RForce (CRet _) _ => False | _ => True end
}.

Ltac brw :=
  repeat match goal with
  | H : ?x = true |- context [?x] => lazymatch x with true => fail | false => fail | _ => rewrite H end
  | H : ?x = false |- context [?x] => lazymatch x with true => fail | false => fail | _ => rewrite H end
  end.

Ltac finA :=
  unfold cw_done, cw_atcas, cw_notify, cw_fin, cw_postw, cw_postcw, cw_infin, cw_badfin, b2n in *;
  cbn in *; brw; sums; sumfs; prep;
  repeat match goal with
  | H : nth_error (fins ?s) ?k = Some _ |- _ =>
      lazymatch goal with _ : k < length (fins s) |- _ => fail | _ => pose proof (nth_lt _ _ _ H) end
  end;
  rewrite ?upd_length in *;
  repeat match goal with c : closer |- _ => destruct c end; cbn in *; subst; cbn in *;
  repeat match goal with H : _ <-> _ |- _ => destruct H end;
  repeat match goal with H : ?P -> _, H1 : ?P |- _ => specialize (H H1) end;
  repeat match goal with H : context [sumf _ (_ ++ [_])] |- _ => rewrite sumf_app in H
                       | |- context [sumf _ (_ ++ [_])] => rewrite sumf_app end;
  repeat match goal with H : context [length (_ ++ [_])] |- _ => rewrite app_length in H
                       | |- context [length (_ ++ [_])] => rewrite app_length end;
  cbn in *;
  try congruence; try lia;
  try (split; intros; try congruence; lia);
  try (intros;
       repeat match goal with
       | H : ?P -> _ |- _ =>
           lazymatch P with (_ <= _) => let X := fresh in assert (X : P) by lia; specialize (H X) end
       end; try congruence; lia);
  try (repeat match goal with b : bool |- _ => destruct b end; cbn in *; try congruence; lia).

Lemma step_invA s c s' : step repaired s c = Some s' -> InvA s -> InvA s'.
Proof.
  unfold step. destruct (panic s) eqn:Hp; [discriminate|].
  intros H [I1 I2 I3 I4 I5 I6 I7 I8 I9 I10 I11 I12 I13 I14 I15 I16].
  destruct c.
  - (unfold send_step in H; dmatch H; inv H; constructor; cbn; auto). all: finA.
  - (unfold writer_step in H; dmatch H; inv H; constructor; cbn; auto). all: finA.
  - (unfold reader_step in H; dmatch H;
      try match goal with Hc : close_step _ _ _ _ _ = _ |- _ => unfold close_step, fin_step, notify in Hc; dmatch Hc; inv Hc end;
      inv H; constructor; cbn; auto). all: finA.
  - (dmatch H;
      try match goal with Hc : close_step _ _ _ _ _ = _ |- _ => unfold close_step, fin_step, notify in Hc; dmatch Hc; inv Hc end;
      inv H; constructor; cbn; auto). all: finA.
  - unfold fin_step in H. dmatch H; inv H; constructor; cbn; auto; finA.
  - dmatch H; inv H; constructor; cbn; auto; finA.
  - dmatch H; inv H; constructor; cbn; auto; finA.
  - dmatch H; inv H; constructor; cbn; auto; finA.
  - dmatch H; inv H; constructor; cbn; auto; finA.
  - dmatch H; inv H; constructor; cbn; auto; finA.
  - dmatch H; inv H; constructor; cbn; auto; finA.
  - dmatch H; inv H; constructor; cbn; auto; finA.
Qed.

(* any property preserved by every enabled step holds along every schedule *)
Lemma run_preserves (v : variant) (P : st -> Prop) :
  (forall s c s', P s -> step v s c = Some s' -> P s') ->
  forall cs s, P s -> P (run v s cs).
Proof.
  intros Hstep cs; induction cs as [|c cs IH]; intros s Hs; cbn; auto.
  destruct (step v s c) eqn:E; eauto.
Qed.

Lemma run_invA cs s : InvA s -> InvA (run repaired s cs).
Proof. apply run_preserves. intros; eapply step_invA; eauto. Qed.

Lemma run_app v cs1 cs2 s : run v s (cs1 ++ cs2) = run v (run v s cs1) cs2.
Proof. revert s; induction cs1 as [|c cs IH]; intros s; cbn; auto. destruct (step v s c); auto. Qed.

Lemma sumc_init f cls : (forall g e, f (mkcloser g e CStart) = 0) ->
  sumc f (map (fun gc : bool * Z => mkcloser (fst gc) (snd gc) CStart) cls) = 0.
Proof. intros H; induction cls; cbn; auto. rewrite H, IHcls. reflexivity. Qed.

Lemma init_invA oc kc ic ec en hw hr sds cls input inq0 errq0 :
  InvA (init oc kc ic ec en hw hr sds cls input inq0 errq0).
Proof.
  constructor; cbn; rewrite ?sumc_init by reflexivity; auto; try tauto; try lia.
  all: destruct hw, hr; cbn; auto; lia.
Qed.
