(* C03 — correspondence: decode a case written by harness/cmd/c03 (one scenario on a real
   loopback TCP connection), (a) evaluate the property's executable form on what the
   IMPLEMENTATION did (peer-observed byte stream decoded into frames, send results, inbound
   deliveries, counters), (b) replay the recorded schedule through the model and compare
   the final observables (gated scenarios), check every goroutine's log against its
   control-flow automaton (all scenarios). *)
From Coq Require Import ZArith List Bool Arith.
From FV Require Import Lib.Sx C03.Model C03.Replay.
Import ListNotations.
Open Scope Z_scope.

Definition mem (x : Z) (l : list Z) : bool := existsb (Z.eqb x) l.

Fixpoint nodupb (l : list Z) : bool :=
  match l with [] => true | x :: r => negb (mem x r) && nodupb r end.

Fixpoint is_prefix (a b : list Z) : bool :=
  match a, b with
  | [], _ => true
  | x :: a', y :: b' => (x =? y) && is_prefix a' b'
  | _ :: _, [] => false
  end.

Definition ok_ids (res : list (Z * Z)) : list Z := map fst (filter (fun r => snd r =? 0) res).

Definition enc_ok (o : obs) (id : Z) : bool :=
  match lookup3 id (o_oracle o) with Some (_, ok) => ok | None => false end.
Definition frame_size (o : obs) (id : Z) : Z :=
  match lookup3 id (o_oracle o) with Some (n, _) => n | None => -1 end.

(* position of the first event matching f *)
Fixpoint find_pos (f : Z * Z * Z * Z -> bool) (evs : list (Z * Z * Z * Z)) (n : nat) : option nat :=
  match evs with
  | [] => None
  | e :: r => if f e then Some n else find_pos f r (S n)
  end.

Definition is_ev (k i p : Z) (e : Z * Z * Z * Z) : bool :=
  match e with (k', i', p', _) => (k' =? k) && (i' =? i) && (p' =? p) end.

Definition count_ev (k i p : Z) (evs : list (Z * Z * Z * Z)) : nat := length (filter (is_ev k i p) evs).

(* a graceful closer that won the CAS, ran finally() to the end and whose Close() returned *)
Definition winner (sc : scen) (o : obs) : option Z :=
  let cands := combine (zseq (length (sc_closers sc))) (combine (sc_closers sc) (o_closeres o)) in
  match filter (fun c => match c with (j, (g, r)) => g && (r =? 1) && negb (Nat.eqb (count_ev 3 j 35 (o_events o)) 0) end) cands with
  | (j, _) :: _ => Some j
  | [] => None
  end.

Fixpoint sumz (l : list Z) : Z := match l with [] => 0 | x :: r => x + sumz r end.

Definition input_frames (sc : scen) : list Z :=
  (fix go (l : list (Z * Z * Z)) : list Z :=
     match l with
     | (k, id, _) :: r => if (k =? 0) || (k =? 7) || (k =? 8) then id :: go r else []
     | [] => []
     end) (sc_input sc).

Definition property (sc : scen) (o : obs) : verdict :=
  let W := wire_ids o in
  let all_ok := concat (map ok_ids (o_results o)) in
  (* the peer is known to be silent while we close (its input was complete before any Close was
     called, or it sends nothing, or the run is serialized): data arriving after the read side
     was shut down makes the kernel reset the connection, which may destroy flushed data — an
     environment outside the statement (peers that READ promptly, slowly or late) *)
  let peer_quiet := (1 <=? sc_waitinput sc) || (match sc_input sc with [] => true | _ => false end) || (sc_mode sc =? 1) in
  let clean := negb (has_rst sc) && (o_stuck o =? 0) && peer_quiet in
  (* 1: only accepted packets reach the peer, each at most once, intact, with the expected frame size *)
  let p1 := forallb (fun w => match w with (id, n, okb) => (okb =? 1) && mem id all_ok && (n =? frame_size o id) end) (o_wire o)
            && nodupb W in
  (* 2: in acceptance order: per sender, what is on the wire is a prefix of what it had accepted *)
  let p2 := forallb (fun sr => match sr with (pk, res) =>
                       is_prefix (filter (fun id => mem id (map fst pk)) W)
                                 (filter (enc_ok o) (ok_ids res)) end)
                    (combine (sc_senders sc) (o_results o)) in
  (* 3: Close returned => everything accepted before it began is on the wire *)
  let p3 :=
    match winner sc o with
    | Some j =>
        if clean && sc_hw sc && (o_eof o =? 1) && (sc_failafter sc <? 0) then
          match find_pos (is_ev 3 j 31) (o_events o) 0 with
          | Some pos =>
              let before := firstn pos (o_events o) in
              forallb (fun ir => match ir with (i, res) =>
                         let n := count_ev 0 i 3 before in
                         forallb (fun id => mem id W) (filter (enc_ok o) (ok_ids (firstn n res))) end)
                      (combine (zseq (length (o_results o))) (o_results o))
          | None => true
          end
        else true
    | None => true
    end in
  (* 3 (cont.): Close returns only after the writer has flushed: the writer's "flushed" point
     (reached before its wg.Done) precedes the return point of the winning Close in the log,
     whose order respects happens-before *)
  let p3b :=
    match winner sc o with
    | Some j =>
        match find_pos (is_ev 3 j 35) (o_events o) 0 with
        | Some pos => negb (sc_hw sc) || negb (Nat.eqb (count_ev 1 0 17 (firstn pos (o_events o))) 0)
        | None => true
        end
    | None => true
    end in
  (* 3 (cont.): when nobody else shuts the connection down (one Close call, the peer sends only
     well-formed frames and stays connected, no idle limit in play, no injected write failure) the
     Close call itself performs the shutdown: it does not return as a mere loser of the CAS while
     accepted packets may still be queued *)
  let p3c :=
    match sc_closers sc, o_closeres o with
    | [true], [1] =>
        negb ((sc_failafter sc <? 0) && (sc_readtimeout sc =? 0) && negb (has_rst sc)
              && Nat.eqb (length (input_frames sc)) (length (sc_input sc))
              && (o_stuck o =? 0) && (o_inconcl o =? 0) && (o_panics o =? 0))
        || negb (Nat.eqb (count_ev 3 0 31 (o_events o)) 0)
    | _, _ => true
    end in
  (* 4: the stream ends, and on a frame boundary *)
  let p4 := (negb (clean && (o_eof o =? 1)) || (o_garbage o =? 0)) && (o_nofin o =? 0)
            (* ... with EOF, not with a reset, when the peer sent nothing after (or at all before) the
               close began: data arriving after the shutdown legitimately provokes a kernel RST *)
            && (has_rst sc || negb ((1 <=? sc_waitinput sc) || (match sc_input sc with [] => true | _ => false end))
                || (o_peerreset o =? 0)) in
  (* 5: inbound frames delivered once, in wire order, bound to this connection, intact *)
  (* ... and all of them, when the peer sent only well-formed frames, every pause was below the read
     time-out and the harness waited for the deliveries before any Close was called *)
  let all_frames := Nat.eqb (length (input_frames sc)) (length (sc_input sc)) in
  let p5 := is_prefix (o_delivered o) (input_frames sc) && (o_badendpoint o =? 0)
            && (negb ((sc_waitinput sc =? 2) && all_frames && (o_inconcl o =? 0) && (o_stuck o =? 0) && sc_hr sc)
                || Nat.eqb (length (o_delivered o)) (length (input_frames sc))) in
  (* 6: counters equal what crossed the wire *)
  let nread := count_ev 2 0 20 (o_events o) in
  let p6 :=
    (o_statsbad o =? 0) &&   (* Get / Copy / Clone / out-of-range accessors of x/stats agree *)
    match o_counters o with
    | [ps; bs; pr; br] =>
        (negb (clean && (o_eof o =? 1) && (o_inconcl o =? 0)) ||
         ((ps =? Z.of_nat (length W)) && (bs =? sumz (map (fun w => match w with (_, n, _) => n end) (o_wire o)))))
        && (negb (o_inconcl o =? 0) || negb (o_stuck o =? 0) ||
            ((pr =? Z.of_nat nread)
        && (br =? sumz (map (fun id => match lookup2 id (o_inoracle o) with Some n => n | None => 0 end)
                            (firstn nread (input_frames sc))))
        && (Z.of_nat (length (o_delivered o)) <=? pr) && (pr <=? Z.of_nat (length (o_delivered o)) + 1)))
    | _ => false
    end in
  vjoin (check_that p1 (VPropFail 1))
 (vjoin (check_that p2 (VPropFail 2))
 (vjoin (check_that (p3 && p3b && p3c) (VPropFail 3))
 (vjoin (check_that p4 (VPropFail 4))
 (vjoin (check_that p5 (VPropFail 5))
        (check_that p6 (VPropFail 6)))))).

(* server case (one TcpServer, several connections): input = (4 codec n outs ins seed)
   observed = ((psent bsent precv brecv wire_n wire_bytes in_n in_bytes eof delivered) ...) (badendpoint misdelivered panics inconclusive) *)
Definition server_conn_ok (conclusive : bool) (c : sx) : bool :=
  match sx_ints c with
  | Some [ps; bs; pr; br; wn; wb; inn; inb; eof; deliv] =>
      (* sent counters = what this connection's client received; received counters = what it sent *)
      negb (conclusive && (eof =? 1)) || ((ps =? wn) && (bs =? wb) && (pr =? inn) && (br =? inb) && (deliv =? inn))
  | _ => false
  end.

Definition server_check (input observed : sx) : verdict :=
  match observed with
  | SList [SList conns; flags] =>
      match sx_ints flags with
      | Some [badep; misdeliv; panics; inconcl] =>
          vjoin (check_that ((badep =? 0) && (misdeliv =? 0)) (VPropFail 5))
                (check_that (forallb (server_conn_ok (inconcl =? 0)) conns) (VPropFail 6))
      | _ => VBad
      end
  | _ => VBad
  end.

(* relay case: input = (5 codec n seed)
   observed = (acceptedB receivedB acceptedC receivedC (eofB eofC panics inconclusive)),
   packet = (cmd seq type node flag nrefers refersum bodylen bodycrc).
   "delivers every accepted packet": the frame the peer decodes equals the accepted packet in every
   field the codec carries (V1 has no node and no refers on the wire) *)
Definition project_v1 (p : list Z) : list Z :=
  match p with
  | [cmd; seq; typ; _node; flag; _nref; _refsum; blen; bcrc] => [cmd; seq; typ; 0; flag; 0; 0; blen; bcrc]
  | _ => p
  end.

Definition relay_leg_ok (codecv : Z) (accepted received : sx) : bool :=
  match sx_listof sx_ints accepted, sx_listof sx_ints received with
  | Some a, Some r =>
      list_eqb (list_eqb Z.eqb) (if codecv =? 1 then map project_v1 a else a) r
  | _, _ => false
  end.

Definition relay_check (input observed : sx) : verdict :=
  match input, observed with
  | SList (SInt _ :: SInt codecv :: _), SList [accB; recB; accC; recC; flags] =>
      match sx_ints flags with
      | Some [eofB; eofC; panics; inconcl] =>
          if (inconcl =? 0) && (panics =? 0) then
            vjoin (check_that ((eofB =? 1) && (eofC =? 1)) (VPropFail 4))
                  (check_that (relay_leg_ok codecv accB recB && relay_leg_ok codecv accC recC) (VPropFail 1))
          else VOk
      | _ => VBad
      end
  | _, _ => VBad
  end.

Definition check (c : sx) : verdict :=
  match c with
  | SList [SList (SInt 5 :: _) as input; observed] => relay_check input observed
  | SList [SList (SInt 4 :: _) as input; observed] => server_check input observed
  | SList [input; observed] =>
      match decode_scen input, decode_obs observed with
      | Some sc, Some o => vjoin (property sc o) (correspondence sc o)
      | _, _ => VBad
      end
  | _ => VBad
  end.
