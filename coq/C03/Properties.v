(* C03 — A connection delivers every accepted packet exactly once, in order, up to Close.
   Theorems about the repaired connection model (C03/Model.v, variant [repaired] = the tree
   after the fix commits), over EVERY schedule (any list of choices), any number of
   senders / closers, any packets, any queue capacities, any peer behaviour.
   Only statements here; proofs are in InvA.v / Proofs.v. *)
From Coq Require Import ZArith List Bool Arith Lia.
From FV Require Import C03.Model C03.Base C03.InvA C03.Proofs.
Import ListNotations.

Section C03.
  (* arbitrary configuration: capacities, error channel nil or not, which pumps Go() started,
     the senders' packet lists, the Close/ForceClose callers, what the peer sends,
     initial content of the shared inbound / error channels *)
  Variables (oc kc ic ec : nat) (en hw hr : bool) (sds : list (list pkt)) (cls : list (bool * Z))
            (input : list inp) (inq0 : list pkt) (errq0 : list Z).
  Let s0 := init oc kc ic ec en hw hr sds cls input inq0 errq0.

  (* "reaches the peer exactly once and in acceptance order, whatever the outbound queue size,
     the packet sizes ... or how slowly the peer reads": at every reachable state what is on
     the wire is a prefix of the accepted sequence (encoder-refused packets removed) *)
  Theorem c03_fifo_once : forall cs, let s := run repaired s0 cs in
    prefix (wire s) (filter pok (accepted s)) /\
    (NoDup (map pid (accepted s)) -> NoDup (map pid (wire s))).
  Proof.
    intros cs s. pose proof (run_inv input hw cs s0 (init_inv _ _ _ _ _ _ _ _ _ _ _ _)) as I.
    split; [exact (inv_fifo _ _ _ I)|exact (inv_nodup _ _ _ I)].
  Qed.

  (* "the graceful close returns only after those packets are on the wire and then ends the
     write side, so the peer sees end-of-stream right after the last of them": when a Close()
     that won the CAS has returned, FIN is set, both pumps are gone (nothing is written after
     FIN), and every packet accepted before the CAS has been handled by the writer — on an
     unbroken socket every encodable one is on the wire *)
  Theorem c03_close_flushes : forall cs j cl, let s := run repaired s0 cs in
    hw = true ->
    nth_error (closers s) j = Some cl -> graceful cl = true -> cp cl = CRet true ->
    fin s = true /\ wp s = WExited /\ liver (rp s) = 0 /\
    prefix (acc_cas s) (gone s) /\
    (wbroken s = false -> prefix (filter pok (acc_cas s)) (wire s)).
  Proof.
    intros cs j cl s Hw Hn Hg Hc.
    pose proof (run_inv input hw cs s0 (init_inv _ _ _ _ _ _ _ _ _ _ _ _)) as I.
    destruct (inv_close_flushes _ _ _ _ _ I Hn Hg Hc) as (F & _ & R & X).
    destruct (X Hw) as (W & P1 & P2). repeat split; auto.
  Qed.

  (* once FIN is set the wire never changes again: no pump is alive *)
  Theorem c03_fin_is_last : forall cs, let s := run repaired s0 cs in
    fin s = true -> livew (wp s) = 0 /\ liver (rp s) = 0.
  Proof.
    intros cs s. exact (inv_fin_final _ _ _ (run_inv input hw cs s0 (init_inv _ _ _ _ _ _ _ _ _ _ _ _))).
  Qed.

  (* "Frames arriving from the peer are handed to the inbound queue exactly once, in wire
     order ... " up to the first read error; at most the one frame in hand is not delivered *)
  Theorem c03_inbound_once : forall cs, let s := run repaired s0 cs in
    prefix (delivered s) (frames_prefix input) /\
    (exists l, rframes s = delivered s ++ l /\ length l <= 1) /\
    prefix (rframes s) (frames_prefix input).
  Proof.
    intros cs s. exact (inv_inbound _ _ _ (run_inv input hw cs s0 (init_inv _ _ _ _ _ _ _ _ _ _ _ _))).
  Qed.

  (* "the sent/received packet and byte counters equal what actually crossed the wire" *)
  Theorem c03_counters : forall cs, let s := run repaired s0 cs in
    psent s = (Z.of_nat (length (wire s)) - wpendn (wp s))%Z /\
    bsent s = (sumsz (wire s) - wpendsz (wp s))%Z /\
    precv s = Z.of_nat (length (rframes s)) /\ brecv s = sumsz (rframes s).
  Proof.
    intros cs s. exact (inv_counters _ _ _ (run_inv input hw cs s0 (init_inv _ _ _ _ _ _ _ _ _ _ _ _))).
  Qed.
End C03.

Print Assumptions c03_fifo_once.
Print Assumptions c03_close_flushes.
Print Assumptions c03_fin_is_last.
Print Assumptions c03_inbound_once.
Print Assumptions c03_counters.
