(* C03 — A connection delivers every accepted packet exactly once, in order, up to Close.
   Theorems about the repaired connection model (C03/Model.v, variant [repaired] = the tree
   after the fix commits), over EVERY schedule (any list of choices; a disabled choice is a
   no-op), any number of senders / closers, any packets, any queue and kernel-buffer
   capacities, any peer input, with or without each pump.  Only statements here; the
   proofs are in InvA.v / Proofs.v / Refute.v. *)
From Coq Require Import ZArith List Bool Arith Lia.
From Coq Require Import Permutation.
From FV Require Import C03.Model C03.Base C03.InvA C03.Proofs C03.Refute C03.Accepted.
Import ListNotations.

(* "reaches the peer exactly once and in acceptance order, whatever the outbound queue size,
   the packet sizes ... or how slowly the peer reads": at every reachable state what is on
   the wire is a prefix of the accepted sequence (encoder-refused packets removed) *)
Theorem c03_fifo_once : forall oc kc ic ec en hw hr sds cls input inq0 errq0 cs,
  let s := run repaired (init oc kc ic ec en hw hr sds cls input inq0 errq0) cs in
  prefix (wire s) (filter pok (accepted s)) /\
  (NoDup (map pid (accepted s)) -> NoDup (map pid (wire s))).
Proof. exact fifo_once. Qed.
Print Assumptions c03_fifo_once.

(* what "accepted" means: at every reachable state the ids in the ghost sequence [accepted] are
   exactly (as a multiset) the ids of the packets whose SendPacket call answered nil *)
Theorem c03_accepted_is_answered_nil : forall oc kc ic ec en hw hr sds cls input inq0 errq0 cs,
  let s := run repaired (init oc kc ic ec en hw hr sds cls input inq0 errq0) cs in
  Permutation (map pid (accepted s)) (all_ok (senders s)).
Proof. exact accepted_is_answered_nil. Qed.
Print Assumptions c03_accepted_is_answered_nil.

(* "the graceful close returns only after those packets are on the wire and then ends the
   write side, so the peer sees end-of-stream right after the last of them": when a Close()
   that won the CAS has returned, FIN is set, both pumps are gone, and every packet accepted
   before the CAS has been handled by the writer — on an unbroken socket every encodable one
   is on the wire *)
Theorem c03_close_flushes : forall oc kc ic ec en hw hr sds cls input inq0 errq0 cs j cl,
  let s := run repaired (init oc kc ic ec en hw hr sds cls input inq0 errq0) cs in
  hw = true ->
  nth_error (closers s) j = Some cl -> graceful cl = true -> cp cl = CRet true ->
  fin s = true /\ wp s = WExited /\ liver (rp s) = 0 /\
  prefix (acc_cas s) (gone s) /\
  (wbroken s = false -> prefix (filter pok (acc_cas s)) (wire s)).
Proof. exact close_flushes. Qed.
Print Assumptions c03_close_flushes.

(* the same in readable form: no accepted packet the encoder accepts is left behind; a packet the
   encoder refuses (too large) is dropped alone — the packets queued after it still arrive *)
Theorem c03_encodable_all_arrive : forall oc kc ic ec en hw hr sds cls input inq0 errq0 cs j cl,
  let s := run repaired (init oc kc ic ec en hw hr sds cls input inq0 errq0) cs in
  hw = true ->
  nth_error (closers s) j = Some cl -> graceful cl = true -> cp cl = CRet true -> wbroken s = false ->
  forall p, In p (acc_cas s) -> pok p = true -> In p (wire s).
Proof. exact encodable_all_arrive. Qed.
Print Assumptions c03_encodable_all_arrive.

Example c03_example_refused_in_the_middle :
  let s := run repaired refused_init refused_sched in
  map cp (closers s) = [CRet true] /\ fin s = true /\ wbroken s = false /\
  acc_cas s = [p1; pbad; p3] /\ wire s = [p1; p3] /\ gone s = [p1; pbad; p3].
Proof. exact repaired_refused_in_the_middle. Qed.

(* once FIN is set no pump is alive: the wire never changes again, FIN is last *)
Theorem c03_fin_is_last : forall oc kc ic ec en hw hr sds cls input inq0 errq0 cs,
  let s := run repaired (init oc kc ic ec en hw hr sds cls input inq0 errq0) cs in
  fin s = true -> livew (wp s) = 0 /\ liver (rp s) = 0.
Proof. exact fin_is_last. Qed.
Print Assumptions c03_fin_is_last.

(* "Frames arriving from the peer are handed to the inbound queue exactly once, in wire
   order ..." up to the first read error; at most the one frame in hand is not delivered *)
Theorem c03_inbound_once : forall oc kc ic ec en hw hr sds cls input inq0 errq0 cs,
  let s := run repaired (init oc kc ic ec en hw hr sds cls input inq0 errq0) cs in
  prefix (delivered s) (frames_prefix input) /\
  (exists l, rframes s = delivered s ++ l /\ length l <= 1) /\
  prefix (rframes s) (frames_prefix input).
Proof. exact inbound_once. Qed.
Print Assumptions c03_inbound_once.

(* "the sent/received packet and byte counters equal what actually crossed the wire"
   (wpendn/wpendsz: the one frame already written whose counter update is the writer's next step) *)
Theorem c03_counters : forall oc kc ic ec en hw hr sds cls input inq0 errq0 cs,
  let s := run repaired (init oc kc ic ec en hw hr sds cls input inq0 errq0) cs in
  psent s = (Z.of_nat (length (wire s)) - wpendn (wp s))%Z /\
  bsent s = (sumsz (wire s) - wpendsz (wp s))%Z /\
  precv s = Z.of_nat (length (rframes s)) /\ brecv s = sumsz (rframes s).
Proof. exact counters. Qed.
Print Assumptions c03_counters.

(* the code as first found (variant [legacy]) violates the flush sentence: witness schedule
   (3 accepted, writer sees done with all queued, 2 written, Close returns, 1 lost) *)
Theorem c03_close_flushes_legacy_refuted :
  let s := run legacy flush_init flush_sched in
  map cp (closers s) = [CRet true] /\ fin s = true /\ wbroken s = false /\ panic s = false /\
  acc_cas s = [p1; p2; p3] /\ wire s = [p1; p2] /\ outq s = [p3].
Proof. exact legacy_flush_drops. Qed.
Print Assumptions c03_close_flushes_legacy_refuted.

(* non-vacuity: a schedule of the repaired model in which the hypotheses of c03_close_flushes
   are met (Close won and returned) and all three packets are on the wire *)
Example c03_example :
  let s := run repaired flush_init (flush_sched ++ [Writer WDeq; Writer WStep; Writer WStep; Writer WFlushEnd; Writer WStep;
                                                     Closer 0; Closer 0; Closer 0; Closer 0; Closer 0]) in
  map cp (closers s) = [CRet true] /\ fin s = true /\ wire s = [p1; p2; p3].
Proof. exact repaired_flush_same_schedule. Qed.
