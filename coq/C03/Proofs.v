(* C03 — data invariants of the repaired connection model: queue / wire accounting (FIFO,
   exactly once), flush completeness, inbound delivery, counters. *)
From Coq Require Import ZArith List Bool Arith Lia.
From RecordUpdate Require Import RecordSet.
From FV Require Import C03.Model C03.Base C03.InvA.
Import ListNotations.
Import RecordSetNotations.

Definition inflight (w : wpc) : list pkt := match w with WHave _ p => [p] | _ => [] end.
Definition inflush (w : wpc) : bool :=
  match w with
  | WSel (MFlush _) | WHave (MFlush _) _ | WCount (MFlush _) _ | WDone | WExited => true
  | _ => false
  end.
Definition wflushed (w : wpc) : bool := match w with WDone | WExited => true | _ => false end.
Definition wpendn (w : wpc) : Z := match w with WCount _ _ => 1%Z | _ => 0%Z end.
Definition wpendsz (w : wpc) : Z := match w with WCount _ p => psize p | _ => 0%Z end.
Definition inhand (r : rpc) : list pkt := match r with RHave p => [p] | _ => [] end.
Definition rclean (r : rpc) : bool := match r with RRead | RHave _ | RTest | RAbsent => true | _ => false end.

(* frames up to the first error *)
Fixpoint frames_prefix (l : list inp) : list pkt :=
  match l with IFrame p :: r => p :: frames_prefix r | _ => [] end.
Fixpoint allframes (l : list inp) : bool :=
  match l with [] => true | IFrame _ :: r => allframes r | IErr _ :: _ => false end.

Lemma frames_prefix_app a b :
  frames_prefix (a ++ b) = frames_prefix a ++ (if allframes a then frames_prefix b else []).
Proof. induction a as [|[p|e] a IH]; cbn; auto. now rewrite IH. Qed.
Lemma allframes_app a b : allframes (a ++ b) = allframes a && allframes b.
Proof. induction a as [|[p|e] a IH]; cbn; auto. Qed.

Record InvQ (input0 : list inp) (hw : bool) (s : st) : Prop := {
  q_hw : wp s = WAbsent <-> hw = false;
  q_acc : accepted s = gone s ++ inflight (wp s) ++ outq s;
  q_wire : filter pok (gone s) = wire s ++ lost s;
  q_lost : wbroken s = false -> lost s = [];
  q_cas : prefix (acc_cas s) (accepted s);
  q_flush : inflush (wp s) = true -> done s = true;
  q_fl : wflushed (wp s) = true -> prefix (acc_cas s) (gone s);
  q_cap : length (outq s) <= ocap s;
  k_ps : psent s = (Z.of_nat (length (wire s)) - wpendn (wp s))%Z;
  k_bs : bsent s = (sumsz (wire s) - wpendsz (wp s))%Z;
  k_pr : precv s = Z.of_nat (length (rframes s));
  k_br : brecv s = sumsz (rframes s);
  r_fr : rframes s = delivered s ++ inhand (rp s) ++ rdrop s;
  r_drop : match rp s with RDone | RExited => length (rdrop s) <= 1 | _ => rdrop s = [] end;
  r_hist : rhist s ++ sock_in s ++ peer_todo s = input0;
  r_fp : frames_prefix (rhist s) = rframes s;
  r_clean : rclean (rp s) = true -> allframes (rhist s) = true
}.

Ltac lists :=
  repeat rewrite <- ?app_assoc in *; cbn [app] in *;
  rewrite ?filter_app, ?app_length, ?sumsz_app, ?frames_prefix_app, ?allframes_app, ?app_nil_r in *;
  cbn [filter length sumsz frames_prefix allframes app] in *.

Ltac finQ :=
  prep; repeat match goal with m : wmode |- _ => destruct m end; cbn in *; brw;
  repeat match goal with H : ?P -> _, H1 : ?P |- _ => specialize (H H1)
                       | H : ?x = ?x -> _ |- _ => specialize (H eq_refl) end;
  try congruence; try lia; auto; try (exfalso; congruence); try (exfalso; lia);
  try solve [auto using prefix_app_r, prefix_refl, prefix_nil];
  try (lists; lia);
  try (repeat match goal with H : _ <-> _ |- _ => destruct H end; split; intros;
       repeat match goal with H : ?P -> _, H1 : ?P |- _ => specialize (H H1) end; congruence);
  try (intros;
       match goal with H : wflushed (wp ?s) = true |- _ => destruct (wp s) eqn:?; cbn in *; try discriminate H end;
       repeat match goal with H : ?x = ?x -> _ |- _ => specialize (H eq_refl) end;
       repeat match goal with H : _ <-> _ |- _ => destruct H end;
       repeat match goal with H : ?P -> _, H1 : ?P |- _ => specialize (H H1) end;
       unfold b2n in *; brw;
       repeat match goal with H : done _ = true |- _ => rewrite H in * end;
       exfalso; lia);
  try (lists; brw; cbn in *; repeat match goal with H : _ = _ :> list _ |- _ => rewrite H end;
       lists; solve [auto using prefix_app_r, prefix_refl, prefix_nil | congruence | lia]).

Lemma step_invQ i0 hw s c s' : step repaired s c = Some s' -> InvA s -> InvQ i0 hw s -> InvQ i0 hw s'.
Proof.
  unfold step. destruct (panic s) eqn:Hp; [discriminate|].
  intros H [A1 A2 A3 A4 A5 A6 A7 A8 A9 A10 A11 A12 A13 A14 A15 A16] [Q0 Q1 Q2 Q3 Q4 Q5 Q6 Q7 K1 K2 K3 K4 R1 R2 R3 R4 R5].
  destruct c.
  - unfold send_step in H; dmatch H; inv H; constructor; cbn; auto. all: finQ.
  - unfold writer_step in H; dmatch H; inv H; constructor; cbn; auto. all: finQ.
  - unfold reader_step in H; dmatch H;
      try match goal with Hc : close_step _ _ _ _ _ = _ |- _ => unfold close_step, fin_step, notify in Hc; dmatch Hc; inv Hc end;
      inv H; constructor; cbn; auto. all: finQ.
  - dmatch H;
      try match goal with Hc : close_step _ _ _ _ _ = _ |- _ => unfold close_step, fin_step, notify in Hc; dmatch Hc; inv Hc end;
      inv H; constructor; cbn; auto. all: finQ.
  - unfold fin_step in H. dmatch H; inv H; constructor; cbn; auto; finQ.
  - dmatch H; inv H; constructor; cbn; auto; finQ.
  - dmatch H; inv H; constructor; cbn; auto; finQ.
  - dmatch H; inv H; constructor; cbn; auto; finQ.
  - dmatch H; inv H; constructor; cbn; auto; finQ.
  - dmatch H; inv H; constructor; cbn; auto; finQ.
  - dmatch H; inv H; constructor; cbn; auto; finQ.
  - dmatch H; inv H; constructor; cbn; auto; finQ.
Qed.

Lemma init_invQ oc kc ic ec en hw hr sds cls input inq0 errq0 :
  InvQ input hw (init oc kc ic ec en hw hr sds cls input inq0 errq0).
Proof.
  constructor; cbn; auto using prefix_nil; try lia.
  all: destruct hw, hr; cbn; auto; try (split; congruence); try discriminate.
Qed.

Definition Inv (i0 : list inp) (hw : bool) (s : st) : Prop := InvA s /\ InvQ i0 hw s.

Lemma run_inv i0 hw cs s : Inv i0 hw s -> Inv i0 hw (run repaired s cs).
Proof.
  apply run_preserves. intros s1 c s2 [A Q] H. split; [eapply step_invA|eapply step_invQ]; eauto.
Qed.

Lemma init_inv oc kc ic ec en hw hr sds cls input inq0 errq0 :
  Inv input hw (init oc kc ic ec en hw hr sds cls input inq0 errq0).
Proof. split; [apply init_invA|apply init_invQ]. Qed.

(* ------------------------------------------------------------------ consequences *)
Lemma inv_fifo i0 hw s : Inv i0 hw s -> prefix (wire s) (filter pok (accepted s)).
Proof.
  intros [_ Q]. rewrite (q_acc _ _ _ Q), filter_app, (q_wire _ _ _ Q).
  exists (lost s ++ filter pok (inflight (wp s) ++ outq s)). now rewrite app_assoc.
Qed.

Lemma NoDup_app_l {A} (a b : list A) : NoDup (a ++ b) -> NoDup a.
Proof. induction a; cbn; intros H; [constructor|]. inv H. constructor; auto. rewrite in_app_iff in *; tauto. Qed.

Lemma NoDup_map_filter {A B} (f : A -> B) (g : A -> bool) l : NoDup (map f l) -> NoDup (map f (filter g l)).
Proof.
  induction l as [|x l IH]; cbn; auto. intros H; inv H. destruct (g x); cbn; auto.
  constructor; auto. intros X; apply H2. apply in_map_iff in X. destruct X as [y [E Hy]].
  apply filter_In in Hy. apply in_map_iff. exists y; tauto.
Qed.

Lemma inv_nodup i0 hw s : Inv i0 hw s -> NoDup (map pid (accepted s)) -> NoDup (map pid (wire s)).
Proof.
  intros I N. destruct (inv_fifo _ _ _ I) as [l E].
  apply (NoDup_map_filter pid pok) in N. rewrite E, map_app in N. eapply NoDup_app_l; eauto.
Qed.

(* a Close() call that won the CAS and has returned *)
Lemma inv_close_flushes i0 hw s j cl : Inv i0 hw s ->
  nth_error (closers s) j = Some cl -> graceful cl = true -> cp cl = CRet true ->
  fin s = true /\ wgc s = 0 /\ liver (rp s) = 0 /\
  (hw = true -> wp s = WExited /\ prefix (acc_cas s) (gone s) /\
                (wbroken s = false -> prefix (filter pok (acc_cas s)) (wire s))).
Proof.
  intros [A Q] Hn Hg Hc.
  assert (1 <= sumc cw_postcw (closers s)) as P1.
  { pose proof (sumc_pos cw_postcw _ _ _ Hn) as X. unfold cw_postcw in X at 1. rewrite Hc, Hg in X. exact X. }
  assert (1 <= sumc cw_postw (closers s)) as P2.
  { pose proof (sumc_pos cw_postw _ _ _ Hn) as X. unfold cw_postw in X at 1. rewrite Hc, Hg in X. exact X. }
  assert (fin s = true) as F by (apply (a_cw _ A); lia).
  assert (wgc s = 0) as W by (apply (a_pw _ A); lia).
  pose proof (a_wg _ A) as G. rewrite W in G.
  split; [exact F|]. split; [exact W|]. split; [lia|]. intros Hw.
  assert (wp s = WExited) as E.
  { destruct (wp s) eqn:E; cbn in G; try lia; auto. apply (q_hw _ _ _ Q) in E. congruence. }
  assert (prefix (acc_cas s) (gone s)) as PF by (apply (q_fl _ _ _ Q); rewrite E; reflexivity).
  split; [exact E|]. split; [exact PF|]. intros B.
  apply (prefix_filter pok) in PF. rewrite (q_wire _ _ _ Q), (q_lost _ _ _ Q B), app_nil_r in PF. exact PF.
Qed.

(* after FIN nothing more is written *)
Lemma inv_fin_final i0 hw s : Inv i0 hw s -> fin s = true -> livew (wp s) = 0 /\ liver (rp s) = 0.
Proof.
  intros [A _] F. pose proof (a_pw _ A) as P. rewrite F in P. cbn in P.
  pose proof (a_wg _ A). assert (wgc s = 0) by (apply P; lia). lia.
Qed.

Lemma prefix_frames a b : prefix a b -> prefix (frames_prefix a) (frames_prefix b).
Proof. intros [l ->]. rewrite frames_prefix_app. apply prefix_app_l. Qed.

Lemma inv_inbound i0 hw s : Inv i0 hw s ->
  prefix (delivered s) (frames_prefix i0) /\
  (exists l, rframes s = delivered s ++ l /\ length l <= 1) /\
  prefix (rframes s) (frames_prefix i0).
Proof.
  intros [_ Q].
  assert (prefix (rframes s) (frames_prefix i0)) as P.
  { rewrite <- (r_fp _ _ _ Q), <- (r_hist _ _ _ Q). apply prefix_frames, prefix_app_l. }
  split; [|split; auto].
  - eapply prefix_trans; [|exact P]. rewrite (r_fr _ _ _ Q). apply prefix_app_l.
  - exists (inhand (rp s) ++ rdrop s). split; [apply (r_fr _ _ _ Q)|].
    pose proof (r_drop _ _ _ Q) as D. rewrite app_length.
    destruct (rp s); cbn in *; try rewrite D; cbn; lia.
Qed.

Lemma inv_counters i0 hw s : Inv i0 hw s ->
  psent s = (Z.of_nat (length (wire s)) - wpendn (wp s))%Z /\
  bsent s = (sumsz (wire s) - wpendsz (wp s))%Z /\
  precv s = Z.of_nat (length (rframes s)) /\ brecv s = sumsz (rframes s).
Proof. intros [_ Q]. repeat split; apply Q. Qed.

(* ------------------------------------------------------------------ statements over all runs *)
Section Runs.
  Variables (oc kc ic ec : nat) (en hw hr : bool) (sds : list (list pkt)) (cls : list (bool * Z))
            (input : list inp) (inq0 : list pkt) (errq0 : list Z).
  Let s0 := init oc kc ic ec en hw hr sds cls input inq0 errq0.

  Lemma reach cs : Inv input hw (run repaired s0 cs).
  Proof. apply run_inv, init_inv. Qed.

  Lemma fifo_once cs : let s := run repaired s0 cs in
    prefix (wire s) (filter pok (accepted s)) /\
    (NoDup (map pid (accepted s)) -> NoDup (map pid (wire s))).
  Proof. intros s. split; [exact (inv_fifo _ _ _ (reach cs))|exact (inv_nodup _ _ _ (reach cs))]. Qed.

  Lemma close_flushes cs j cl : let s := run repaired s0 cs in
    hw = true ->
    nth_error (closers s) j = Some cl -> graceful cl = true -> cp cl = CRet true ->
    fin s = true /\ wp s = WExited /\ liver (rp s) = 0 /\
    prefix (acc_cas s) (gone s) /\
    (wbroken s = false -> prefix (filter pok (acc_cas s)) (wire s)).
  Proof.
    intros s Hw Hn Hg Hc.
    destruct (inv_close_flushes _ _ _ _ _ (reach cs) Hn Hg Hc) as (F & _ & R & X).
    destruct (X Hw) as (W & P1 & P2). repeat split; auto.
  Qed.

  (* readable form: no accepted encodable packet is left behind — in particular a packet the encoder
     refuses does not take the packets queued after it with it *)
  Lemma encodable_all_arrive cs j cl : let s := run repaired s0 cs in
    hw = true ->
    nth_error (closers s) j = Some cl -> graceful cl = true -> cp cl = CRet true -> wbroken s = false ->
    forall p, In p (acc_cas s) -> pok p = true -> In p (wire s).
  Proof.
    intros s Hw Hn Hg Hc Hb p Hin Hp.
    destruct (close_flushes cs j cl Hw Hn Hg Hc) as (_ & _ & _ & _ & P).
    destruct (P Hb) as [l E]. fold s in E. rewrite E. apply in_or_app. left.
    apply filter_In. split; assumption.
  Qed.

  Lemma fin_is_last cs : let s := run repaired s0 cs in
    fin s = true -> livew (wp s) = 0 /\ liver (rp s) = 0.
  Proof. intros s. exact (inv_fin_final _ _ _ (reach cs)). Qed.

  Lemma inbound_once cs : let s := run repaired s0 cs in
    prefix (delivered s) (frames_prefix input) /\
    (exists l, rframes s = delivered s ++ l /\ length l <= 1) /\
    prefix (rframes s) (frames_prefix input).
  Proof. intros s. exact (inv_inbound _ _ _ (reach cs)). Qed.

  Lemma counters cs : let s := run repaired s0 cs in
    psent s = (Z.of_nat (length (wire s)) - wpendn (wp s))%Z /\
    bsent s = (sumsz (wire s) - wpendsz (wp s))%Z /\
    precv s = Z.of_nat (length (rframes s)) /\ brecv s = sumsz (rframes s).
  Proof. intros s. exact (inv_counters _ _ _ (reach cs)). Qed.
End Runs.
