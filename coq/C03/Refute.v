(* C03 / C04 — the model of the code AS FIRST FOUND (variant [legacy]) does not satisfy the
   property: concrete witness schedules, checked by computation.  These are the schedules the
   harness forces on the implementation through the gates (corpus/C03, corpus/C04). *)
From Coq Require Import ZArith List Bool Arith Lia.
From RecordUpdate Require Import RecordSet.
From FV Require Import C03.Model C03.Base.
Import ListNotations.

Definition p1 := mkpkt 1 27 true.
Definition p2 := mkpkt 2 27 true.
Definition p3 := mkpkt 3 120 true.

(* defect 5: three packets accepted, the writer sees done with all of them queued; flush's
   loop bound re-reads the shrinking len(outbound): two are written, Close returns, one is lost *)
Definition flush_init := init 8 8 1 1 false true false [[p1; p2; p3]] [(true, 1%Z)] [] [] [].
Definition flush_sched : list choice :=
  [Sender 0; Sender 0; Sender 0; Sender 0; Sender 0; Sender 0;
   Closer 0; Closer 0; Closer 0; Closer 0;
   Writer WSawDone;
   Writer WDeq; Writer WStep; Writer WStep;
   Writer WDeq; Writer WStep; Writer WStep;
   Writer WFlushEnd; Writer WStep;
   Closer 0; Closer 0; Closer 0; Closer 0; Closer 0].

Lemma legacy_flush_drops :
  let s := run legacy flush_init flush_sched in
  map cp (closers s) = [CRet true] /\ fin s = true /\ wbroken s = false /\ panic s = false /\
  acc_cas s = [p1; p2; p3] /\ wire s = [p1; p2] /\ outq s = [p3].
Proof. vm_compute. repeat split; reflexivity. Qed.

Lemma repaired_flush_same_schedule :
  let s := run repaired flush_init (flush_sched ++ [Writer WDeq; Writer WStep; Writer WStep; Writer WFlushEnd; Writer WStep;
                                                     Closer 0; Closer 0; Closer 0; Closer 0; Closer 0]) in
  map cp (closers s) = [CRet true] /\ fin s = true /\ wire s = [p1; p2; p3].
Proof. vm_compute. repeat split; reflexivity. Qed.

(* defect 6: a sender passes the running check, Close runs to the end of the teardown
   (close(t.outbound)), the sender's select then sends on a closed channel *)
Definition panic_init := init 8 8 1 1 false false false [[p1]] [(true, 1%Z)] [] [] [].
Definition panic_sched : list choice :=
  [Sender 0; Closer 0; Closer 0; Closer 0; Closer 0; Closer 0; Closer 0; Closer 0; Sender 0].

Lemma legacy_send_panics : panic (run legacy panic_init panic_sched) = true.
Proof. vm_compute. reflexivity. Qed.

Lemma repaired_send_same_schedule :
  let s := run repaired panic_init panic_sched in panic s = false /\ map results (senders s) = [[(1%Z, 0%Z)]].
Proof. vm_compute. split; reflexivity. Qed.

(* defect 7: inbound holds one packet and nobody drains it; the reader has the second frame in
   hand, Close has closed done and waits in wg.Wait: no thread owned by the connection can move *)
Definition stuck_init := init 8 8 1 1 false true true [] [(true, 1%Z)] [IFrame p1; IFrame p2] [] [].
Definition stuck_sched : list choice :=
  [PeerWrite; PeerWrite; Reader RdFrame; Reader RDeliver; Reader RStep; Reader RdFrame;
   Closer 0; Closer 0; Closer 0; Closer 0; Writer WSawDone; Writer WFlushEnd; Writer WStep].

Definition owned (c : choice) : bool :=
  match c with Writer _ | Reader _ | Closer _ | Finalizer _ => true | _ => false end.

Lemma legacy_close_stuck :
  let s := run legacy stuck_init stuck_sched in
  map cp (closers s) = [CNotified] /\ rp s = RHave p2 /\ done s = true /\ wp s = WExited /\ panic s = false /\
  forall c, owned c = true -> step legacy s c = None.
Proof.
  cbv zeta. repeat split; try (vm_compute; reflexivity).
  intros c Hc. destruct c as [i|w|r|j|k| | | | | | | ]; try discriminate Hc.
  - destruct w; vm_compute; reflexivity.
  - destruct r; vm_compute; reflexivity.
  - destruct j as [|j]; [vm_compute; reflexivity|].
    unfold step. replace (panic _) with false by (vm_compute; reflexivity).
    replace (closers _) with [mkcloser true 1%Z CNotified] by (vm_compute; reflexivity).
    destruct j; reflexivity.
  - unfold step. replace (panic _) with false by (vm_compute; reflexivity).
    replace (fins _) with (@nil fpc) by (vm_compute; reflexivity). destruct k; reflexivity.
Qed.

Lemma repaired_close_not_stuck :
  exists c, owned c = true /\ step repaired (run repaired stuck_init stuck_sched) c <> None.
Proof. exists (Reader RSawDone). split; [reflexivity|]. vm_compute. discriminate. Qed.

(* non-vacuity for the flush theorems with a packet the encoder refuses in the middle of the
   backlog: it is dropped, the packets queued after it still arrive *)
Definition pbad := mkpkt 2 0 false.
Definition refused_init := init 8 8 1 1 false true false [[p1; pbad; p3]] [(true, 1%Z)] [] [] [].
Definition refused_sched : list choice :=
  [Sender 0; Sender 0; Sender 0; Sender 0; Sender 0; Sender 0;
   Closer 0; Closer 0; Closer 0; Closer 0;
   Writer WSawDone;
   Writer WDeq; Writer WStep; Writer WStep;
   Writer WDeq; Writer WStep;
   Writer WDeq; Writer WStep; Writer WStep;
   Writer WFlushEnd; Writer WStep;
   Closer 0; Closer 0; Closer 0; Closer 0; Closer 0].

Lemma repaired_refused_in_the_middle :
  let s := run repaired refused_init refused_sched in
  map cp (closers s) = [CRet true] /\ fin s = true /\ wbroken s = false /\
  acc_cas s = [p1; pbad; p3] /\ wire s = [p1; p3] /\ gone s = [p1; pbad; p3].
Proof. vm_compute. repeat split; reflexivity. Qed.

(* an overflow: queue of one slot, two sends while the writer is idle *)
Definition overflow_init := init 1 8 1 1 false true false [[p1; p2]] [(true, 1%Z)] [] [] [].
Lemma repaired_overflow_then_close :
  let s := run repaired overflow_init
             [Sender 0; Sender 0; Sender 0; Sender 0;
              Closer 0; Closer 0; Closer 0; Closer 0; Writer WSawDone; Writer WDeq; Writer WStep; Writer WStep;
              Writer WFlushEnd; Writer WStep; Closer 0; Closer 0; Closer 0; Closer 0; Closer 0] in
  map results (senders s) = [[(1%Z, 0%Z); (2%Z, 2%Z)]] /\ map cp (closers s) = [CRet true] /\ wire s = [p1] /\ fin s = true.
Proof. vm_compute. repeat split; reflexivity. Qed.
