(* Path B runner: reads a case file (one S-expression per line), evaluates the extracted
   Gallina [check] on every case and prints one line "idx kind what" per case whose
   verdict is not VOk, then "DONE n".  Hand-written: this parser and printer only. *)
open Extracted

let rec pos_of_int (n : int) : positive =
  if n = 1 then XH
  else if n land 1 = 0 then XO (pos_of_int (n lsr 1))
  else XI (pos_of_int (n lsr 1))

let z_of_int (n : int) : z =
  if n = 0 then Z0 else if n > 0 then Zpos (pos_of_int n) else Zneg (pos_of_int (- n))

let z_of_decimal (s : string) : z =
  let neg = String.length s > 0 && s.[0] = '-' in
  let digits = if neg then String.sub s 1 (String.length s - 1) else s in
  let v =
    if String.length digits <= 17 then z_of_int (int_of_string digits)
    else begin
      let acc = ref Z0 in
      let ten = z_of_int 10 in
      String.iter (fun c -> acc := Z.add (Z.mul !acc ten) (z_of_int (Char.code c - 48))) digits;
      !acc
    end in
  if neg then Z.opp v else v

let n_of_int (n : int) : n = if n = 0 then N0 else Npos (pos_of_int n)

let rec int_of_pos (p : positive) : int =
  match p with XH -> 1 | XO q -> 2 * int_of_pos q | XI q -> 2 * int_of_pos q + 1
let int_of_n (x : n) : int = match x with N0 -> 0 | Npos p -> int_of_pos p

let hexv c =
  match c with
  | '0' .. '9' -> Char.code c - 48
  | 'a' .. 'f' -> Char.code c - 87
  | _ -> -1

exception Parse_error of string

let parse_line (s : string) : sx =
  let len = String.length s in
  let i = ref 0 in
  let skip () = while !i < len && (s.[!i] = ' ' || s.[!i] = '\t' || s.[!i] = '\r') do incr i done in
  let rec parse () : sx =
    skip ();
    if !i >= len then raise (Parse_error "eof");
    let c = s.[!i] in
    if c = '(' then begin
      incr i;
      let items = ref [] in
      let fin = ref false in
      while not !fin do
        skip ();
        if !i >= len then raise (Parse_error "unclosed");
        if s.[!i] = ')' then (incr i; fin := true)
        else items := parse () :: !items
      done;
      SList (List.rev !items)
    end else if c = '#' then begin
      incr i;
      let items = ref [] in
      while !i + 1 < len && hexv s.[!i] >= 0 && hexv s.[!i + 1] >= 0 do
        items := n_of_int (hexv s.[!i] * 16 + hexv s.[!i + 1]) :: !items;
        i := !i + 2
      done;
      SBytes (List.rev !items)
    end else if c = '-' || (c >= '0' && c <= '9') then begin
      let j = ref (!i + 1) in
      while !j < len && s.[!j] >= '0' && s.[!j] <= '9' do incr j done;
      let v = z_of_decimal (String.sub s !i (!j - !i)) in
      i := !j;
      SInt v
    end else raise (Parse_error (Printf.sprintf "unexpected %c at %d" c !i))
  in
  parse ()

let () =
  let ic = open_in Sys.argv.(1) in
  let idx = ref 0 in
  (try
     while true do
       let line = input_line ic in
       if String.length line > 0 && line.[0] <> ';' then begin
         let v = (try check (parse_line line) with Parse_error _ -> VBad) in
         (match v with
          | VOk -> ()
          | _ ->
            let (k, w) = verdict_code v in
            Printf.printf "%d %d %d\n" !idx (int_of_n k) (int_of_n w));
         incr idx
       end
     done
   with End_of_file -> ());
  Printf.printf "DONE %d\n" !idx
