// C17 harness: consistent hashing (collections/consistent/consistent.go).
//
// input    = (names ops keys)
//
//	names = table of distinct member names (byte strings)
//	ops   = ((0 i) AddNode(names[i]) | (1 i) RemoveNode(names[i])) ... each followed by lookups of
//	        every key; (2 i) / (3 i) = the same calls with NO lookup afterwards (quiet op)
//	keys  = byte strings
//
// observed = one entry per op, taken after the op: ((r_1 .. r_k) repeat_equal cache_len cache_ok);
// () for a quiet op
//
//	r_j = index in names of GetNodeBy(key_j); -1 the call panicked (empty ring);
//	-2 a string that is not in the table; -3 the op itself panicked; -4 the history's
//	calls did not return within 20 s.
//	repeat_equal = 1 iff a second round of the same lookups, made in reverse
//	order, gave the same answers.
//	cache_len = len(sortedHash); cache_ok = 1 iff sortedHash is exactly the sorted key
//	set of the circle map (verif probe).
package main

import (
	"fmt"
	"hash/fnv"
	"io"
	"log"
	"sort"
	"time"

	consistent "qchen.fun/fatchoy/collections/consistent"
	. "verifharness/common"
)

type history struct {
	names []string
	ops   [][2]int
	keys  []string
}

func (h history) sx() Sx {
	ns := make([]Sx, len(h.names))
	for i, n := range h.names {
		ns[i] = Str(n)
	}
	os := make([]Sx, len(h.ops))
	for i, o := range h.ops {
		os[i] = Ints(int64(o[0]), int64(o[1]))
	}
	ks := make([]Sx, len(h.keys))
	for i, k := range h.keys {
		ks[i] = Str(k)
	}
	return List(ListOf(ns), ListOf(os), ListOf(ks))
}

func decode(in Sx) history {
	var h history
	for _, n := range in.At(0).L {
		h.names = append(h.names, n.AsString())
	}
	for _, o := range in.At(1).L {
		h.ops = append(h.ops, [2]int{o.At(0).AsInt(), o.At(1).AsInt()})
	}
	for _, k := range in.At(2).L {
		h.keys = append(h.keys, k.AsString())
	}
	return h
}

// play runs the real code on a history and returns, per op, the answers to all keys.
var stuckHistories int // histories during which a call did not return

// play runs playRaw under a watchdog: if the implementation does not come back within 20 s
// every observed answer of the history is recorded as -4 and the goroutine is abandoned
func play(h history) (res [][]int64, rep []bool, cache [][2]int64) {
	type out3 struct {
		res   [][]int64
		rep   []bool
		cache [][2]int64
	}
	done := make(chan out3, 1)
	go func() {
		r, p, c := playRaw(h)
		done <- out3{r, p, c}
	}()
	select {
	case o := <-done:
		return o.res, o.rep, o.cache
	case <-time.After(20 * time.Second):
	}
	stuckHistories++
	for _, o := range h.ops {
		if o[0] >= 2 {
			res, rep, cache = append(res, nil), append(rep, true), append(cache, [2]int64{-1, 1})
			continue
		}
		cur := make([]int64, len(h.keys))
		for j := range cur {
			cur[j] = -4
		}
		res, rep, cache = append(res, cur), append(rep, true), append(cache, [2]int64{0, 1})
	}
	return
}

func playRaw(h history) (res [][]int64, rep []bool, cache [][2]int64) {
	idx := map[string]int64{}
	for i, n := range h.names {
		if _, dup := idx[n]; !dup {
			idx[n] = int64(i)
		}
	}
	c := consistent.New()
	lookup := func(k string) int64 {
		var r string
		if p, _ := Catch(func() { r = c.GetNodeBy(k) }); p {
			return -1
		}
		if i, ok := idx[r]; ok {
			return i
		}
		return -2
	}
	// the decoy: a second, unrelated ring used between the history's calls (package-level or
	// shared state would show) and, for a quarter of the histories, from another goroutine
	decoy := consistent.New()
	stop := make(chan struct{})
	defer close(stop)
	if len(h.ops)%4 == 3 {
		go func() {
			d2 := consistent.New()
			for i := 0; ; i++ {
				select {
				case <-stop:
					return
				default:
				}
				n := fmt.Sprintf("decoy2-%d", i%7)
				Catch(func() { // the decoy must never take the harness down
					d2.AddNode(n)
					d2.GetNodeBy(n)
					if i%3 == 0 {
						d2.RemoveNode(n)
					}
				})
			}
		}()
	}
	for t, o := range h.ops {
		n := h.names[o[1]]
		Catch(func() {
			dn := fmt.Sprintf("decoy-%d", t%5)
			if t%3 == 1 {
				decoy.RemoveNode(dn)
			} else {
				decoy.AddNode(n) // the history's own names, too
				decoy.AddNode(dn)
			}
			decoy.GetNodeBy(n)
		})
		p, _ := Catch(func() {
			if o[0] == 0 || o[0] == 2 {
				c.AddNode(n)
			} else {
				c.RemoveNode(n)
			}
		})
		if o[0] >= 2 && !p { // quiet: nothing is looked up, nothing is probed
			res = append(res, nil)
			rep = append(rep, true)
			cache = append(cache, [2]int64{-1, 1})
			continue
		}
		cur := make([]int64, len(h.keys))
		same := true
		if p {
			for j := range cur {
				cur[j] = -3
			}
		} else {
			for j, k := range h.keys {
				cur[j] = lookup(k)
			}
			for j := len(h.keys) - 1; j >= 0; j-- {
				if lookup(h.keys[j]) != cur[j] {
					same = false
				}
				if j%7 == 0 && lookup(h.keys[j]) != cur[j] { // the same key twice in a row
					same = false
				}
			}
		}
		res = append(res, cur)
		rep = append(rep, same)
		cl, _, cok := c.VerifCache()
		ck := int64(0)
		if cok {
			ck = 1
		}
		cache = append(cache, [2]int64{int64(cl), ck})
	}
	return
}

func obsSx(res [][]int64, rep []bool, cache [][2]int64) Sx {
	obs := make([]Sx, len(res))
	for i := range res {
		if res[i] == nil && cache[i][0] < 0 {
			obs[i] = List()
			continue
		}
		obs[i] = List(Ints(res[i]...), Bool(rep[i]), Int(cache[i][0]), Int(cache[i][1]))
	}
	return ListOf(obs)
}

func run(in Sx) Sx {
	h := decode(in)
	return obsSx(play(h))
}

// holds evaluates the four sentences of the property on the implementation's answers
// (the same executable statement as C17/Run.v `prop`); returns the failing sentence and
// the indices of the keys that witness it.
func holds(h history, res [][]int64, rep []bool) (int, []int) {
	members := map[int]bool{}
	prev := make([]int64, len(h.keys))
	for j := range prev {
		prev[j] = -1
	}
	added, removed, noop := map[int64]bool{}, map[int64]bool{}, true
	for t, o := range h.ops {
		x := o[1]
		was := members[x]
		if o[0] == 0 || o[0] == 2 {
			members[x] = true
			added[int64(x)] = true
			noop = noop && was
		} else {
			delete(members, x)
			removed[int64(x)] = true
			noop = noop && !was
		}
		if o[0] >= 2 {
			continue
		}
		cur := res[t]
		var bad [5][]int
		for j := range cur {
			if len(members) > 0 && (cur[j] < 0 || !members[int(cur[j])]) {
				bad[1] = append(bad[1], j)
			}
			if noop && cur[j] != prev[j] {
				bad[2] = append(bad[2], j)
			}
			if cur[j] != prev[j] && !added[cur[j]] && !removed[prev[j]] {
				if len(removed) == 0 {
					bad[3] = append(bad[3], j)
				} else {
					bad[4] = append(bad[4], j)
				}
			}
		}
		if !rep[t] {
			return 2, nil
		}
		for w := 1; w <= 4; w++ {
			if len(bad[w]) > 0 {
				return w, bad[w]
			}
		}
		prev = cur
		added, removed, noop = map[int64]bool{}, map[int64]bool{}, true
	}
	return 0, nil
}

var sentence = map[int]string{
	1: "a lookup on a non-empty ring returned something that is not a current member",
	2: "a key changed its member although membership did not change",
	3: "adding a member moved a key to a member other than the new one",
	4: "removing a member moved a key that was not mapped to it",
}

func fnv32(s string) uint32 {
	h := fnv.New32a()
	h.Write([]byte(s))
	return h.Sum32()
}

func main() {
	log.SetOutput(io.Discard)
	Main(run, gen)
}

type collision struct {
	a, b   string // two different member names
	ra, rb string // their colliding replica strings
	p      uint32
}

// birthday search over the replica strings "<prefix><k>-<i>"
func findCollisions(prefix string, nnames, want int) []collision {
	type ent struct {
		k, i int32
	}
	seen := make(map[uint32]ent, nnames*20)
	perPair := map[[2]int32]int{}
	var res []collision
	for k := 0; k < nnames && len(res) < want; k++ {
		for i := 0; i < consistent.ReplicaCount; i++ {
			r := fmt.Sprintf("%s%d-%d", prefix, k, i)
			hv := fnv32(r)
			if e, ok := seen[hv]; ok {
				if int(e.k) != k && perPair[[2]int32{e.k, int32(k)}] < 2 {
					perPair[[2]int32{e.k, int32(k)}]++
					res = append(res, collision{
						a: fmt.Sprintf("%s%d", prefix, e.k), b: fmt.Sprintf("%s%d", prefix, k),
						ra: fmt.Sprintf("%s%d-%d", prefix, e.k, e.i), rb: r, p: hv})
				}
			} else {
				seen[hv] = ent{int32(k), int32(i)}
			}
		}
	}
	return res
}

// keys whose FNV-1a hash is an extreme value of the hash domain or sits next to a ring point of
// the members "bnd-a" / "bnd-b" (found by brute force; verified at run time, so the table
// cannot rot: an entry whose hash is not the recorded one is dropped and reported)
var boundaryKeys = []struct {
	key  string
	hash uint32
}{
	{"user:apoxq43", 0}, {"user:bo7us0x", 0}, {"user:dn6xl6f", 0},
	{"user:42rynyi", 1},
	{"user:70y3eq4", 4294967295},
	{"user:c16yzsl", 4294967294}, {"user:73zs70d", 4294967294},
	{"user:215isog", 1301769438}, // bnd-a point 1301769437 plus 1
	{"user:215ison", 1184326105}, // bnd-a point 1184326104 plus 1
	{"user:01hfg3q", 2109776594}, // bnd-b point 2109776593 plus 1
	{"user:a34r9im", 1529470639}, // bnd-b point 1529470640 minus 1
	{"user:a37brub", 1301769438}, // bnd-a point 1301769437 plus 1
	{"user:a37bruk", 1184326105}, // bnd-a point 1184326104 plus 1
	{"user:72jdjpi", 1975555640}, // bnd-b point 1975555641 minus 1
	{"user:72jdjpq", 2109776592}, // bnd-b point 2109776593 minus 1
	{"user:14b5jzb", 2109776594}, // bnd-b point 2109776593 plus 1
	{"user:83e3bd4", 89217557},   // bnd-a point 89217558 minus 1
	{"user:c4tnndr", 4294967295}, // max
	{"user:f66ssnk", 1529470639}, // bnd-b point 1529470640 minus 1
	{"user:27wd938", 2109776592}, // bnd-b point 2109776593 minus 1
	{"user:58min3y", 89217559},   // bnd-a point 89217558 plus 1
	{"user:09ja02o", 89217557},   // bnd-a point 89217558 minus 1
	{"user:5a9oo00", 1184326103}, // bnd-a point 1184326104 minus 1
	{"user:6b5k0z6", 1301769436}, // bnd-a point 1301769437 minus 1
	{"user:aag6pbn", 1},          // one
	{"user:4cblwpd", 1975555640}, // bnd-b point 1975555641 minus 1
	{"user:4dhy0qu", 89217559},   // bnd-a point 89217558 plus 1
	{"user:9dlmrt2", 1975555642}, // bnd-b point 1975555641 plus 1
	{"user:9dmdynf", 1184326103}, // bnd-a point 1184326104 minus 1
	{"user:9fg0jcd", 1529470641}, // bnd-b point 1529470640 plus 1
	{"user:femvj1k", 0},          // zero
	{"user:9iy8n82", 1529470641}, // bnd-b point 1529470640 plus 1
	{"user:4jn6m8s", 0},          // zero
	{"user:7jb00mn", 1975555642}, // bnd-b point 1975555641 plus 1
	{"user:3lv5064", 1301769436}, // bnd-a point 1301769437 minus 1
}

func verifiedBoundaryKeys(out *Out) []string {
	var ks []string
	for _, e := range boundaryKeys {
		if fnv32(e.key) == e.hash {
			ks = append(ks, e.key)
		} else if out != nil {
			out.Note("boundary key %q no longer hashes to %d", e.key, e.hash)
		}
	}
	return ks
}

// quietize turns each op after the first into a quiet one with probability num/den; the last
// op is always observed
func quietize(rng *Rng, ops [][2]int, num, den int) [][2]int {
	res := make([][2]int, len(ops))
	for i, o := range ops {
		res[i] = o
		if i > 0 && i < len(ops)-1 && rng.Chance(num, den) {
			res[i][0] = o[0] + 2
		}
	}
	return res
}

func randName(rng *Rng, class int) string {
	switch class {
	case 0:
		return fmt.Sprintf("node%d", rng.Intn(40))
	case 1: // shared prefixes, dashes and digits that look like replica suffixes
		parts := []string{"n", "n1", "n1-1", "n-1", "n1-", "-", "n1-10", "a-0", "a", "a-"}
		return parts[rng.Intn(len(parts))] + []string{"", "0", "-0", "1"}[rng.Intn(4)]
	case 2: // multi-byte
		alpha := []string{"世", "界", "é", "ß", "a", "-", "1", "😀"}
		s := ""
		for n := rng.Range(1, 4); n > 0; n-- {
			s += alpha[rng.Intn(len(alpha))]
		}
		return s
	case 3: // arbitrary bytes (not necessarily UTF-8), possibly empty
		return string(rng.Bytes(rng.Intn(6)))
	}
	if rng.Chance(1, 4) { // long names
		return fmt.Sprintf("srv-%d.", rng.Intn(5)) + string(rng.Bytes(rng.PickInt(14, 30, 62, 126, 254))) + fmt.Sprintf(":%d", 8000+rng.Intn(4))
	}
	return fmt.Sprintf("srv-%d.example:%d", rng.Intn(5), 8000+rng.Intn(4))
}

// shapeNames: member names whose LENGTH and SHAPE are the point: a common prefix of a
// boundary length (0, 1, 59..65, 127, 128, 200, 255, 256, 300 bytes; host-like ASCII or
// multi-byte) followed by short different tails (ports, "-1"/"-10"/"0" that interact with
// the "-<i>" replica suffix, non-ASCII), so that names differ only in their last bytes
func shapeNames(rng *Rng, want int) []string {
	plen := rng.PickInt(0, 1, 2, 30, 55, 58, 59, 60, 61, 62, 63, 64, 65, 100, 127, 128, 200, 255, 256, 300)
	unit := []string{"game-gateway-07.prod.ap-southeast-1.compute.internal.fatchoy.example.", "网关-", "h", "a-1", "-"}[rng.Intn(5)]
	prefix := ""
	for len(prefix) < plen {
		prefix += unit
	}
	prefix = prefix[:plen]
	tails := []string{":9001", ":9002", ":9003", "", "-1", "-10", "-1-0", "0", "1", "10", "a", "b", "-", "--", "é", "世", ":80", ":8"}
	seen := map[string]bool{}
	var names []string
	for tries := 0; len(names) < want && tries < 8*want; tries++ {
		n := prefix + tails[rng.Intn(len(tails))]
		if rng.Chance(1, 5) { // same length, one byte different at the very end or the very start
			b := []byte(prefix + ":9001")
			if rng.Bool() {
				b[len(b)-1] = byte('0' + rng.Intn(10))
			} else {
				b[0] = byte('a' + rng.Intn(26))
			}
			n = string(b)
		}
		if !seen[n] {
			seen[n] = true
			names = append(names, n)
		}
	}
	return names
}

func randKeys(rng *Rng, n int, names []string) []string {
	seen := map[string]bool{}
	var ks []string
	for len(ks) < n {
		var k string
		switch rng.Intn(8) {
		case 0: // a replica string of a table name: its hash is exactly a point of the ring
			k = fmt.Sprintf("%s-%d", names[rng.Intn(len(names))], rng.Intn(consistent.ReplicaCount+2))
		case 1:
			k = string(rng.Bytes(rng.Intn(5)))
		case 2:
			k = "用户" + fmt.Sprint(rng.Intn(100000))
		case 3: // long keys (the hash loop runs over every byte)
			k = fmt.Sprintf("long-%d-", rng.Intn(1000)) + string(rng.Bytes(rng.PickInt(15, 16, 17, 31, 32, 33, 63, 64, 65, 255, 256, 300)))
		default:
			k = fmt.Sprintf("key%d", rng.Intn(1000000))
		}
		if !seen[k] {
			seen[k] = true
			ks = append(ks, k)
		}
	}
	return ks
}

func randOps(rng *Rng, nnames, nops, maxMembers int) [][2]int {
	var ops [][2]int
	in := map[int]bool{}
	members := func() []int {
		var m []int
		for i := range in {
			m = append(m, i)
		}
		sort.Ints(m)
		return m
	}
	for len(ops) < nops {
		m := members()
		r := rng.Intn(100)
		switch {
		case r < 50 || len(m) == 0:
			if len(m) >= maxMembers {
				continue
			}
			i := rng.Intn(nnames)
			ops = append(ops, [2]int{0, i}) // mostly new, sometimes an existing member
			in[i] = true
		case r < 75:
			i := m[rng.Intn(len(m))]
			ops = append(ops, [2]int{1, i})
			delete(in, i)
		case r < 85:
			ops = append(ops, [2]int{0, m[rng.Intn(len(m))]}) // re-add a member
		default:
			i := rng.Intn(nnames) // remove anything, often a non-member
			ops = append(ops, [2]int{1, i})
			delete(in, i)
		}
	}
	return ops
}

func gen(a Args, out *Out) {
	rng := NewRng(a.Seed).Fork()
	nRandom, nColl, nKeys, nDense := 110, 24, 160, 3000
	if a.Thorough() {
		nRandom, nColl, nKeys, nDense = 1500, 200, 200, 30000
	}

	emit := func(kind string, h history) {
		if stuckHistories > 0 { // the implementation hangs: stop generating
			return
		}
		// (a) the recorded case: model and property are evaluated in Coq
		res, rep, cache := play(h)
		out.Case(kind, len(h.ops) >= 2, h.sx(), obsSx(res, rep, cache))
		if stuckHistories > 0 {
			out.Violation("C17/hang/"+kind, "a call (AddNode/RemoveNode/GetNodeBy) did not return within 20 s", List(h.sx(), obsSx(res, rep, cache)))
			return
		}
		out.Count(fmt.Sprintf("ops:%02d-%02d", len(h.ops)/5*5, len(h.ops)/5*5+4))
		for _, o := range h.ops {
			out.Count([]string{"op:add", "op:remove", "op:add-quiet", "op:remove-quiet"}[o[0]])
		}
		// (b) the same history with a dense key sample: the property itself, in Go
		d := history{names: h.names, ops: h.ops, keys: append(append([]string{}, h.keys...), randKeys(rng.Fork(), nDense, h.names)...)}
		dres, drep, dcache := play(d)
		out.GoChecked += int64(len(d.keys) * len(d.ops))
		for t := range dcache {
			if dcache[t][1] != 1 {
				out.Violation("C17/cache/"+kind, "the cached sorted point list is not the sorted key set of the ring map", List(h.sx(), run(h.sx())))
				break
			}
		}
		if w, bad := holds(d, dres, drep); w != 0 {
			if len(bad) > 12 {
				bad = bad[:12]
			}
			m := history{names: d.names, ops: d.ops}
			for _, j := range bad {
				m.keys = append(m.keys, d.keys[j])
			}
			if len(m.keys) == 0 {
				m.keys = h.keys
			}
			out.Violation(fmt.Sprintf("C17/prop%d/%s", w, kind), sentence[w], List(m.sx(), run(m.sx())))
		}
	}

	// 1. random histories over random names
	for n := 0; n < nRandom; n++ {
		class := rng.Intn(6)
		seen := map[string]bool{}
		var names []string
		if class == 5 { // long / shared-prefix / boundary-length names mixed with short ones
			for _, s := range shapeNames(rng, rng.Range(2, 8)) {
				seen[s] = true
				names = append(names, s)
			}
		}
		for want := rng.Range(1, 14); len(names) < want; {
			s := randName(rng, class)
			if rng.Chance(1, 6) {
				s = randName(rng, rng.Intn(5))
			}
			if !seen[s] {
				seen[s] = true
				names = append(names, s)
			} else if class == 1 && rng.Chance(1, 3) {
				break
			}
		}
		h := history{names: names, ops: randOps(rng, len(names), rng.Range(1, 24), 12), keys: randKeys(rng, nKeys, names)}
		out.Count(fmt.Sprintf("names:class%d", class))
		if n%3 == 0 { // lookups only now and then: runs of calls with no lookup in between
			h.ops = quietize(rng, h.ops, rng.Range(1, 3), 4)
			emit("random-quiet", h)
		} else {
			emit("random", h)
		}
	}

	// 2. members whose replica points collide under FNV-1a (birthday search, seeded prefix)
	prefix := string([]byte{byte('a' + rng.Intn(26)), byte('a' + rng.Intn(26))})[:1+rng.Intn(2)]
	colls := findCollisions(prefix, 60000, nColl)
	out.Note("birthday search over replica strings %q<k>-<i>: %d cross-member collisions (first: %v)", prefix, len(colls), func() interface{} {
		if len(colls) > 0 {
			return fmt.Sprintf("%s / %s -> %d", colls[0].ra, colls[0].rb, colls[0].p)
		}
		return "none"
	}())
	for ci, c := range colls {
		out.Count("collisions-used")
		// table: 0 = first owner of the point, 1 = the other, 2.. = bystanders
		names := []string{c.a, c.b}
		if rng.Bool() {
			names = []string{c.b, c.a}
		}
		for z := 0; z < 4; z++ {
			names = append(names, fmt.Sprintf("%s_z%d", prefix, z))
		}
		var ops [][2]int
		switch ci % 5 {
		case 0: // X, Y collide; bystanders; remove X
			ops = [][2]int{{0, 2}, {0, 3}, {0, 0}, {0, 4}, {0, 1}, {0, 5}, {1, 0}, {1, 1}}
		case 1: // re-adding a member while its colliding partner is present
			ops = [][2]int{{0, 0}, {0, 2}, {0, 1}, {0, 3}, {0, 0}, {0, 1}, {1, 1}, {0, 1}, {1, 0}}
		case 2: // removing a non-member whose replica collides with a member's point
			ops = [][2]int{{0, 2}, {0, 1}, {0, 3}, {0, 4}, {1, 0}, {0, 0}, {1, 1}}
		case 4: // the late-comer lost the shared point; its partner leaves; adding it again must change nothing
			ops = [][2]int{{0, 2}, {0, 3}, {0, 0}, {0, 1}, {0, 4}, {0, 5}, {1, 0}, {0, 1}, {1, 1}, {0, 0}}
		case 3:
			ops = append([][2]int{{0, 0}, {0, 1}, {0, 2}, {0, 3}}, randOps(rng, len(names), rng.Range(4, 14), 6)...)
		}
		// keys hashing just below the shared point (their successor is that point), plus
		// the two replica strings themselves, plus random ones
		keys := []string{c.ra, c.rb}
		for k := 0; len(keys) < 40 && k < 4000000; k++ {
			s := fmt.Sprintf("t%d_%d", ci, k)
			if d := c.p - fnv32(s); d > 0 && d < 1<<20 {
				keys = append(keys, s)
			}
		}
		keys = append(keys, randKeys(rng, nKeys-len(keys), names)...)
		emit("collision", history{names: names, ops: ops, keys: keys})
	}

	// 3. grow-then-shrink: a large ring (70..120 members, 1400..2400 points) shrinks to a few
	// members in single removals, so that the sorted point list is rebuilt from a much larger
	// one; keys include those hashing beyond the last point (wrap-around to the first)
	nGrow := 2
	if a.Thorough() {
		nGrow = 12
	}
	for g := 0; g < nGrow; g++ {
		n := rng.Range(70, 120)
		names := make([]string, n)
		for i := range names {
			names[i] = fmt.Sprintf("grow%d_%d", g, i)
		}
		var ops [][2]int
		for i := 0; i < n; i++ {
			ops = append(ops, [2]int{0, i})
		}
		keep := 1 // the first history shrinks to a single member (the sorted list is then re-allocated)
		if g > 0 {
			keep = rng.Range(1, 3)
		}
		perm := make([]int, n)
		for i := range perm {
			perm[i] = i
		}
		for i := n - 1; i > 0; i-- {
			j := rng.Intn(i + 1)
			perm[i], perm[j] = perm[j], perm[i]
		}
		for _, i := range perm[keep:] {
			ops = append(ops, [2]int{1, i})
		}
		ops = append(ops, [2]int{0, perm[n-1]}, [2]int{1, perm[0]})
		// keys with the largest hashes (beyond the last point of a small ring) + random ones
		var keys []string
		for k := 0; len(keys) < 16 && k < 4000000; k++ {
			s := fmt.Sprintf("w%d_%d", g, k)
			if fnv32(s) > 0xFF000000 {
				keys = append(keys, s)
			}
		}
		keys = append(keys, randKeys(rng, 24, names)...)
		out.Count("grow-then-shrink")
		emit("grow-shrink", history{names: names, ops: ops, keys: keys})
	}

	// 4. quiet pairs: calls made WITHOUT a lookup in between that leave the number of points
	// unchanged (add+remove, remove+add), then a lookup; and boundary values of the hash domain
	// among the keys (hash 0, 1, 2^32-1, a ring point +-1), looked up first after a change
	bkeys := verifiedBoundaryKeys(out)
	out.CountN("boundary-keys", len(bkeys))
	nQuiet := 30
	if a.Thorough() {
		nQuiet = 400
	}
	for q := 0; q < nQuiet; q++ {
		names := []string{"bnd-a", "bnd-b"}
		for z := rng.Range(2, 8); z > 0; z-- {
			names = append(names, fmt.Sprintf("q%d_%d", q, z))
		}
		in := map[int]bool{}
		var ops [][2]int
		for i := 0; i < len(names); i++ { // observed adds of about half of the names
			if rng.Bool() || i == q%2 {
				ops = append(ops, [2]int{0, i})
				in[i] = true
			}
		}
		pick := func(member bool) int {
			var c []int
			for i := range names {
				if in[i] == member {
					c = append(c, i)
				}
			}
			if len(c) == 0 {
				return -1
			}
			return c[rng.Intn(len(c))]
		}
		for b := rng.Range(3, 10); b > 0; b-- {
			x, y := pick(false), pick(true)
			if x < 0 || y < 0 {
				break
			}
			switch rng.Intn(5) {
			case 0: // quiet add, observed remove
				ops = append(ops, [2]int{2, x}, [2]int{1, y})
			case 1: // quiet remove, observed add
				ops = append(ops, [2]int{3, y}, [2]int{0, x})
			case 2: // both quiet, then an observed no-op
				ops = append(ops, [2]int{2, x}, [2]int{3, y}, [2]int{0, x})
			case 3: // swap and swap back without looking, observed re-add
				ops = append(ops, [2]int{2, x}, [2]int{3, y}, [2]int{2, y}, [2]int{3, x}, [2]int{0, y})
				x, y = y, x
			case 4: // plain observed pair
				ops = append(ops, [2]int{0, x}, [2]int{1, y})
			}
			in[x], in[y] = true, false
		}
		keys := append([]string{}, bkeys...)
		for _, n := range names[:2] { // the members' own replica strings: hash = a ring point
			keys = append(keys, fmt.Sprintf("%s-%d", n, rng.Intn(consistent.ReplicaCount)))
		}
		keys = append(keys, randKeys(rng, 40, names)...)
		switch q % 3 {
		case 1: // boundary keys last: the reverse round then ends, and the next round starts, elsewhere
			for i, j := 0, len(keys)-1; i < j; i, j = i+1, j-1 {
				keys[i], keys[j] = keys[j], keys[i]
			}
		case 2:
			for i := len(keys) - 1; i > 0; i-- {
				j := rng.Intn(i + 1)
				keys[i], keys[j] = keys[j], keys[i]
			}
		}
		emit("quiet-boundary", history{names: names, ops: ops, keys: keys})
	}

	// 5. name shapes: rings made (almost) only of members whose names share a long prefix and
	// differ in their last bytes; every member is added, members leave until one or two are
	// left, they come back — a member without points shows as soon as it is alone
	nShape := 36
	if a.Thorough() {
		nShape = 600
	}
	for q := 0; q < nShape; q++ {
		names := shapeNames(rng, rng.Range(2, 5))
		for z := rng.Intn(3); z > 0 && q%3 == 0; z-- {
			names = append(names, fmt.Sprintf("by%d", z))
		}
		n := len(names)
		perm := func() []int {
			p := make([]int, n)
			for i := range p {
				p[i] = i
			}
			for i := n - 1; i > 0; i-- {
				j := rng.Intn(i + 1)
				p[i], p[j] = p[j], p[i]
			}
			return p
		}
		var ops [][2]int
		for _, i := range perm() {
			ops = append(ops, [2]int{0, i})
		}
		order := perm()
		for _, i := range order[:n-1] { // leave exactly one member
			ops = append(ops, [2]int{1, i})
		}
		for _, i := range perm() {
			ops = append(ops, [2]int{0, i})
		}
		ops = append(ops, randOps(rng, n, rng.Range(2, 10), n)...)
		if q%4 == 3 {
			ops = quietize(rng, ops, 1, 3)
		}
		out.Count(fmt.Sprintf("name-len:%03d+", len(names[0])/32*32))
		emit("name-shape", history{names: names, ops: ops, keys: randKeys(rng, 60, names)})
	}
}
